/-
  Helper lemmas for Tie/FnEditWork.lean, part E: `WorkFile_SetUse` — loop 1 (the map `need`, an association list in
  insertion order = the model's `useNeedMap`), loop 2 (= `setUseLoop`), loop 3 (`AddNewUse` for the entries still needed,
  in insertion order: the model's `perm` is the identity), then `WorkFile_SortBlocks` (tie of agent edit-sort, a hypothesis
  of `WorkFile_SetUse_sim`).  Also: the fuel measure `nodeCount` grows by at most 2 under the model's `addLine`.
  Owner: edit-work.
-/
import ModVerif.Proofs.TieFnEditWorkC
set_option linter.unusedSimpArgs false
set_option linter.unusedVariables false
namespace ModVerif.Tie.FnEditWorkE
open ModVerif ModVerif.GoRt ModVerif.Generated.Edit ModVerif.Tie.FnEditRep ModVerif.Tie.FnEditTreeA ModVerif.Tie.FnEditWorkA
open ModVerif.Tie.FnEditWorkC
open ModVerif.TieFnEditAddLine (Frame nodeCount hintG walk_line walk_block walk_cb addLine_none addLine_some)
open ModVerif.Modfile.Edit (EWork markAll deref nilId clearedUse treeIds addLineWalk Hint mkLine headIs insertAfterId)

/-! ### the fuel measure `nodeCount` grows by at most 2 under the model's `addLine` -/

theorem nodeCount_append : ∀ (a b : List Modfile.Expr), nodeCount (a ++ b) = nodeCount a + nodeCount b
  | [], b => by simp [nodeCount]
  | s :: a, b => by
    have ih := nodeCount_append a b
    cases s <;> simp only [List.cons_append, nodeCount, ih] <;> omega

theorem insertAfterId_length (hid : Nat) (nl : Modfile.Line) : ∀ (ls r : List Modfile.Line),
    insertAfterId hid nl ls = some r → r.length = ls.length + 1
  | [], r, h => by simp [insertAfterId] at h
  | l :: ls, r, h => by
    unfold insertAfterId at h
    split at h
    · simp only [Option.some.injEq] at h; subst h; simp
    · cases hr : insertAfterId hid nl ls with
      | none => rw [hr] at h; simp at h
      | some r' =>
        rw [hr] at h
        simp only [Option.some.injEq] at h
        subst h
        simp [insertAfterId_length hid nl ls r' hr]

theorem walk_nodeCount (hint : Hint) (tokens : List Bytes) (new : Nat) : ∀ (xs : List Modfile.Expr) (i : Nat) (r : List Modfile.Expr),
    addLineWalk hint tokens new xs i = some r → nodeCount r ≤ nodeCount xs + 2
  | [], i, r, h => by simp [addLineWalk] at h
  | x :: xs, i, r, h => by
    have hmap : ∀ r, (addLineWalk hint tokens new xs (i + 1)).map (x :: ·) = some r → nodeCount r ≤ nodeCount (x :: xs) + 2 := by
      intro r hr
      obtain ⟨r', hr', rfl⟩ := Option.map_eq_some_iff.1 hr
      have ih := walk_nodeCount hint tokens new xs (i + 1) r' hr'
      cases x <;> simp only [nodeCount] <;> omega
    cases x with
    | commentBlock c => rw [walk_cb] at h; exact hmap r h
    | lparen c => exact hmap r h
    | rparen c => exact hmap r h
    | line l =>
      rw [walk_line] at h
      split at h
      · split at h
        · simp only [Option.some.injEq] at h; subst h; simp only [nodeCount]; omega
        · simp only [Option.some.injEq] at h; subst h; simp only [nodeCount, List.length_cons, List.length_nil]; omega
      · exact hmap r h
    | lineBlock b =>
      rw [walk_block] at h
      split at h
      · split at h
        · simp only [Option.some.injEq] at h; subst h; simp only [nodeCount]; omega
        · simp only [Option.some.injEq] at h; subst h
          simp only [nodeCount, List.length_append, List.length_cons, List.length_nil]; omega
      · split at h
        · split at h
          · split at h
            · simp only [Option.some.injEq] at h; subst h; simp only [nodeCount]; omega
            · split at h
              · rename_i ls hls
                simp only [Option.some.injEq] at h; subst h
                simp only [nodeCount, insertAfterId_length _ _ _ _ hls]; omega
              · exact hmap r h
          · exact hmap r h
        · exact hmap r h

theorem addLine_nodeCount (fs : Modfile.FileSyntax) (hint : Option Nat) (tokens : List Bytes) (new : Nat) :
    nodeCount (Modfile.Edit.addLine fs hint tokens new).stmts ≤ nodeCount fs.stmts + 2 := by
  have happ : nodeCount (fs.stmts ++ [.line (mkLine new tokens false)]) ≤ nodeCount fs.stmts + 2 := by
    rw [nodeCount_append]; simp only [nodeCount]; omega
  cases hint with
  | some id =>
    rw [addLine_some]
    simp only []
    cases hw : addLineWalk (.line id) tokens new fs.stmts 0 with
    | none => exact happ
    | some r => exact walk_nodeCount _ _ _ _ _ _ hw
  | none =>
    rw [addLine_none]
    simp only []
    cases Modfile.Edit.lastStmtWith (tokens.head?.getD []) fs.stmts 0 none with
    | none => exact happ
    | some i =>
      simp only []
      cases hw : addLineWalk (.stmt i) tokens new fs.stmts 0 with
      | none => exact happ
      | some r => exact walk_nodeCount _ _ _ _ _ _ hw

/-! ### SetUse, loop 1: the map `need` in insertion order is the model's `useNeedMap` -/

theorem mapSet_eq (acc : List (Bytes × Bytes)) (w : Bytes × Bytes) :
    mapSet acc w.1 w.2 = (if acc.any (·.1 == w.1) then acc.map (fun a => if a.1 == w.1 then w else a) else acc ++ [w]) := by
  unfold mapSet
  have h1 : (acc.find? (fun p => decide (p.1 = w.1))).isSome = acc.any (·.1 == w.1) := by
    induction acc with
    | nil => rfl
    | cons a t ih =>
      simp only [List.find?_cons, List.any_cons]
      by_cases ha : a.1 = w.1 <;> simp [ha, ih]
  rw [h1]
  cases acc.any (·.1 == w.1) with
  | false => rfl
  | true =>
    simp only [if_true]
    apply List.map_congr_left
    intro a _
    by_cases ha : a.1 = w.1 <;> simp [ha]

/-- the `dirs` argument of SetUse: pointers to `Use` objects carrying the wanted (path, module path) pairs -/
def DirsOK (h : Heap) : List Int → List (Bytes × Bytes) → Prop
  | [], [] => True
  | d :: ds, w :: ws => (∃ u, heapGet h.uses d = .ok u ∧ u.Path = w.1 ∧ u.ModulePath = w.2) ∧ DirsOK h ds ws
  | _, _ => False

theorem DirsOK_length {h : Heap} : ∀ {ds : List Int} {ws : List (Bytes × Bytes)}, DirsOK h ds ws → ds.length = ws.length
  | [], [], _ => rfl
  | _ :: _, _ :: _, r => by simp [DirsOK_length r.2]
  | [], _ :: _, r => r.elim
  | _ :: _, [], r => r.elim

theorem SetUse_loop1_eq (isPrint : Int → Bool) (quote : Bytes → Bytes) (dirs : List Int) (h : Heap) :
    ∀ (suf : List Int) (ws : List (Bytes × Bytes)) (pre : List Int) (acc : List (Bytes × Bytes)) (fuel : Nat),
      dirs = pre ++ suf → DirsOK h suf ws → suf.length + 1 ≤ fuel →
      WorkFile_SetUse_loop1 isPrint quote dirs h fuel (pre.length : Int) acc = .ok (len dirs, Modfile.Edit.useNeedMap ws acc)
  | [], [], pre, acc, fuel, hs, _, hf => by
    obtain ⟨f, rfl⟩ : ∃ f, fuel = f + 1 := ⟨fuel - 1, by omega⟩
    simp only [List.append_nil] at hs
    unfold WorkFile_SetUse_loop1
    simp only [hs, len_eq, Int.lt_irrefl, decide_false, Bool.false_eq_true, if_false, pure, Except.pure, Modfile.Edit.useNeedMap]
  | [], _ :: _, _, _, _, _, r, _ => r.elim
  | _ :: _, [], _, _, _, _, r, _ => r.elim
  | d :: ds, w :: ws, pre, acc, fuel, hs, r, hf => by
    obtain ⟨f, rfl⟩ : ∃ f, fuel = f + 1 := ⟨fuel - 1, by omega⟩
    obtain ⟨⟨u, hu, hu1, hu2⟩, r2⟩ := r
    have hlt : ((pre.length : Nat) : Int) < len dirs := by rw [hs]; exact lt_len_mid _ _ _
    have hidx : idxL dirs (pre.length : Int) = .ok d := by rw [hs]; exact idxL_mid _ _ _ rfl
    have hcast : ((pre.length : Nat) : Int) + 1 = (((pre ++ [d]).length : Nat) : Int) := by simp
    have ih := SetUse_loop1_eq isPrint quote dirs h ds ws (pre ++ [d]) (mapSet acc w.1 w.2) f (by simp [hs]) r2
      (by simp at hf; omega)
    unfold WorkFile_SetUse_loop1
    simp only [hlt, decide_true, if_true, hidx, hu, bind, Except.bind, hu1, hu2, hcast, ih]
    rw [mapSet_eq]
    simp only [Modfile.Edit.useNeedMap]
    cases acc.any (·.1 == w.1) <;> simp

/-! ### SetUse, loop 2 against `setUseLoop` -/

theorem mapGet_eq (need : List (Bytes × Bytes)) (k : Bytes) :
    mapGet need k ([] : Bytes) = (match need.find? (·.1 == k) with
      | some w => (w.2, true)
      | none => ([], false)) := by
  unfold mapGet
  have : (fun p : Bytes × Bytes => decide (p.1 = k)) = (·.1 == k) := by
    funext a; exact (bytes_beq_eq_decide a.1 k).symm
  rw [this]
  cases need.find? (·.1 == k) <;> rfl

theorem mapDelete_eq (need : List (Bytes × Bytes)) (k : Bytes) : mapDelete need k = need.filter (·.1 != k) := by
  unfold mapDelete
  apply List.filter_congr
  intro a _
  by_cases ha : a.1 = k <;> simp [ha]

theorem nodeCount_mapLines (g : Modfile.Line → Modfile.Line) : ∀ (ss : List Modfile.Expr),
    nodeCount (ss.map (Modfile.Edit.mapLinesStmt g)) = nodeCount ss
  | [] => rfl
  | s :: ss => by
    have ih := nodeCount_mapLines g ss
    cases s <;> simp only [List.map_cons, Modfile.Edit.mapLinesStmt, nodeCount, List.length_map, ih]

theorem nodeCount_updateLine (fs : Modfile.FileSyntax) (id : Nat) (g : Modfile.Line → Modfile.Line)
    (hnd : (treeIds fs.stmts).Nodup) : nodeCount (fs.updateLine id g).stmts = nodeCount fs.stmts := by
  rw [Modfile.Edit.updateLine_stmts fs id g hnd, nodeCount_mapLines]

theorem SetUse_loop2 (isPrint : Int → Bool) (quote : Bytes → Bytes) (fp : Int) (o : WorkFile) :
    ∀ (xsuf : List Modfile.Use) (suf pre : List Int) (xpre : List Modfile.Use) (h : Heap) (e : EWork)
      (need : List (Bytes × Bytes)) (fuel : Nat),
      RepWAt h o e → o.Use = pre ++ suf → e.f.use = xpre ++ xsuf → pre.length = xpre.length → xsuf.length + 1 ≤ fuel →
      (∀ rest need' syn', Modfile.Edit.setUseLoop xsuf need e.f.syn = .ok (rest, need', syn') →
        ∃ h', WorkFile_SetUse_loop2 isPrint quote o.Use fp fuel (pre.length : Int) h need = .ok (len o.Use, h', need') ∧
          h'.works = h.works ∧ RepWAt h' o { e with f := { e.f with use := xpre ++ rest, syn := syn' } } ∧
          nodeCount syn'.stmts = nodeCount e.f.syn.stmts) ∧
      (∀ er, Modfile.Edit.setUseLoop xsuf need e.f.syn = .error er →
        WorkFile_SetUse_loop2 isPrint quote o.Use fp fuel (pre.length : Int) h need = .error .panic)
  | [], suf, pre, xpre, h, e, need, fuel, R, ho, he, hl, hf => by
    obtain ⟨f, rfl⟩ : ∃ f, fuel = f + 1 := ⟨fuel - 1, by omega⟩
    have hlen := R.use.rel.length
    have hs : suf = [] := by
      rw [ho, he] at hlen; simp at hlen
      cases suf with
      | nil => rfl
      | cons a t => simp at hlen; omega
    subst hs
    simp only [List.append_nil] at ho he
    refine ⟨?_, ?_⟩
    · intro rest need' syn' hc
      simp only [Modfile.Edit.setUseLoop, Except.ok.injEq, Prod.mk.injEq] at hc
      obtain ⟨rfl, rfl, rfl⟩ := hc
      refine ⟨h, ?_, rfl, ?_⟩
      · unfold WorkFile_SetUse_loop2
        rw [← ho]
        simp only [len_eq, Int.lt_irrefl, decide_false, Bool.false_eq_true, if_false, pure, Except.pure]
      · simp only [List.append_nil, ← he, and_true]
        exact R
    · intro er hc
      simp [Modfile.Edit.setUseLoop] at hc
  | x :: xs, suf, pre, xpre, h, e, need, fuel, R, ho, he, hl, hf => by
    obtain ⟨f, rfl⟩ : ∃ f, fuel = f + 1 := ⟨fuel - 1, by omega⟩
    have hlen := R.use.rel.length
    obtain ⟨p, suf', rfl⟩ : ∃ p suf', suf = p :: suf' := by
      cases suf with
      | nil => rw [ho, he] at hlen; simp at hlen; omega
      | cons a t => exact ⟨a, t, rfl⟩
    obtain ⟨hget, hidle⟩ := RepWAt_useAt R ho he hl
    have hi : o.Use[pre.length]? = some p := by rw [ho]; exact getElem?_append_mid _ _ _
    have hlt : ((pre.length : Nat) : Int) < len o.Use := by rw [ho]; exact lt_len_mid _ _ _
    have hidx : idxL o.Use (pre.length : Int) = .ok p := by rw [ho]; exact idxL_mid _ _ _ rfl
    have hcast : ((pre.length : Nat) : Int) + 1 = (((pre ++ [p]).length : Nat) : Int) := by simp
    have ho' : o.Use = (pre ++ [p]) ++ suf' := by simp [ho]
    have hf' : xs.length + 1 ≤ f := by simp at hf; omega
    cases hfind : need.find? (·.1 == x.path) with
    | some w =>
      have R1 := RepWAt_setUse R hi { x with modulePath := w.2 } hidle
      have ih := SetUse_loop2 isPrint quote fp o xs suf' (pre ++ [p]) (xpre ++ [{ x with modulePath := w.2 }]) _ _
        (need.filter (·.1 != x.path)) f R1 ho' (by simp [he, hl, set_append_mid]) (by simp [hl]) hf'
      have hstep : WorkFile_SetUse_loop2 isPrint quote o.Use fp (f + 1) (pre.length : Int) h need =
          WorkFile_SetUse_loop2 isPrint quote o.Use fp f (((pre ++ [p]).length : Nat) : Int)
            { h with uses := h.uses.set (p.toNat - 1) (useG { x with modulePath := w.2 }) } (need.filter (·.1 != x.path)) := by
        conv => lhs; unfold WorkFile_SetUse_loop2
        simp only [hlt, decide_true, if_true, hidx, hget, bind, Except.bind, useG_Path, mapGet_eq, hfind,
          heapSet_of_get _ hget, heapGet_listSet_same _ hget, mapDelete_eq, hcast]
        rfl
      rw [hstep]
      refine ⟨?_, ?_⟩
      · intro rest need' syn' hc
        simp only [Modfile.Edit.setUseLoop, hfind, bind, Except.bind] at hc
        cases hcx : Modfile.Edit.setUseLoop xs (need.filter (·.1 != x.path)) e.f.syn with
        | error er => rw [hcx] at hc; cases hc
        | ok r =>
          obtain ⟨rest', need2, syn2⟩ := r
          rw [hcx] at hc
          simp only [pure, Except.pure, Except.ok.injEq, Prod.mk.injEq] at hc
          obtain ⟨rfl, rfl, rfl⟩ := hc
          obtain ⟨h', h1, h2, h3, h4⟩ := ih.1 rest' need2 syn2 hcx
          refine ⟨h', h1, h2, ?_, h4⟩
          simpa using h3
      · intro er hc
        simp only [Modfile.Edit.setUseLoop, hfind, bind, Except.bind] at hc
        cases hcx : Modfile.Edit.setUseLoop xs (need.filter (·.1 != x.path)) e.f.syn with
        | error er' => exact ih.2 er' hcx
        | ok r => rw [hcx] at hc; cases hc
    | none =>
      by_cases h0 : x.lineId = 0
      · refine ⟨?_, ?_⟩
        · intro rest need' syn' hc
          simp [Modfile.Edit.setUseLoop, hfind, h0, deref_zero, bind, Except.bind] at hc
        · intro er _
          unfold WorkFile_SetUse_loop2
          simp only [hlt, decide_true, if_true, hidx, hget, bind, Except.bind, useG_Path, mapGet_eq, hfind, Bool.false_eq_true,
            if_false, useG_Syntax, h0]
          rw [Line_markRemoved_nil (by simp)]
      · obtain ⟨l, hgl, hlid⟩ := R.linesG.ofId h0 hidle
        have R1 := RepWAt.setLine R (g := markRemovedLine) IdEquiv_markRemoved hgl
        have R2 := RepWAt_setUse R1 hi clearedUse (Nat.zero_le _)
        have ih := SetUse_loop2 isPrint quote fp o xs suf' (pre ++ [p]) (xpre ++ [clearedUse]) _ _ need f R2 ho'
          (by simp [he, hl, set_append_mid]) (by simp [hl]) hf'
        have hstep : WorkFile_SetUse_loop2 isPrint quote o.Use fp (f + 1) (pre.length : Int) h need =
            WorkFile_SetUse_loop2 isPrint quote o.Use fp f (((pre ++ [p]).length : Nat) : Int)
              { setLineH h (x.lineId : Int) (markRemovedLine l) with uses := h.uses.set (p.toNat - 1) (useG clearedUse) } need := by
          conv => lhs; unfold WorkFile_SetUse_loop2
          simp only [hlt, decide_true, if_true, hidx, hget, bind, Except.bind, useG_Path, mapGet_eq, hfind, Bool.false_eq_true,
            if_false, useG_Syntax, Line_markRemoved_eq hgl, setLineH_uses, heapSet_of_get _ hget, hcast]
          rfl
        rw [hstep]
        refine ⟨?_, ?_⟩
        · intro rest need' syn' hc
          simp only [Modfile.Edit.setUseLoop, hfind, deref_pos h0, bind, Except.bind] at hc
          cases hcx : Modfile.Edit.setUseLoop xs need (Modfile.Edit.markRemoved e.f.syn x.lineId) with
          | error er => rw [hcx] at hc; cases hc
          | ok r =>
            obtain ⟨rest', need2, syn2⟩ := r
            rw [hcx] at hc
            simp only [pure, Except.pure, Except.ok.injEq, Prod.mk.injEq] at hc
            obtain ⟨rfl, rfl, rfl⟩ := hc
            have hcx' : Modfile.Edit.setUseLoop xs need
                (e.f.syn.updateLine ((x.lineId : Nat) : Int).toNat markRemovedLine) = .ok (rest', need2, syn2) := by
              simpa [markRemoved_eq] using hcx
            obtain ⟨h', h1, h2, h3, h4⟩ := ih.1 rest' need2 syn2 hcx'
            obtain ⟨es, rs⟩ := R.syn
            refine ⟨h', h1, h2, ?_, ?_⟩
            · simpa using h3
            · rw [h4]; exact nodeCount_updateLine _ _ _ rs.nodupL
        · intro er hc
          simp only [Modfile.Edit.setUseLoop, hfind, deref_pos h0, bind, Except.bind] at hc
          cases hcx : Modfile.Edit.setUseLoop xs need (Modfile.Edit.markRemoved e.f.syn x.lineId) with
          | error er' =>
            have hcx' : Modfile.Edit.setUseLoop xs need
                (e.f.syn.updateLine ((x.lineId : Nat) : Int).toNat markRemovedLine) = .error er' := by
              simpa [markRemoved_eq] using hcx
            exact ih.2 er' hcx'
          | ok r => rw [hcx] at hc; cases hc

/-! ### SetUse, loop 3: the entries still needed are added in the (insertion) order of the map -/

theorem addNewUse_nodeCount (e : EWork) (d m : Bytes) :
    nodeCount (Modfile.Edit.addNewUse e d m).f.syn.stmts ≤ nodeCount e.f.syn.stmts + 2 :=
  addLine_nodeCount _ _ _ _

theorem SetUse_loop3 (fp : Int) (need : List (Bytes × Bytes)) (M : Nat) (hM : ∀ w ∈ need, w.1.length ≤ M) :
    ∀ (suf pre : List (Bytes × Bytes)) (h : Heap) (e : EWork) (fuel : Nat), RepW h fp e → need = pre ++ suf →
      nodeCount e.f.syn.stmts + 3 * suf.length + 3 ≤ fuel → M + suf.length + 1 ≤ fuel →
      ∃ h', WorkFile_SetUse_loop3 Drv.GenEdit.isPrintI Drv.GenEdit.quoteI fp need fuel (pre.length : Int) h = .ok (len need, h') ∧
        RepW h' fp (suf.foldl (fun e w => Modfile.Edit.addNewUse e w.1 w.2) e)
  | [], pre, h, e, fuel, R, hn, hf1, hf2 => by
    obtain ⟨f, rfl⟩ : ∃ f, fuel = f + 1 := ⟨fuel - 1, by omega⟩
    simp only [List.append_nil] at hn
    refine ⟨h, ?_, R⟩
    unfold WorkFile_SetUse_loop3
    simp only [hn, len_eq, Int.lt_irrefl, decide_false, Bool.false_eq_true, if_false, pure, Except.pure]
  | w :: ws, pre, h, e, fuel, R, hn, hf1, hf2 => by
    obtain ⟨f, rfl⟩ : ∃ f, fuel = f + 1 := ⟨fuel - 1, by omega⟩
    have hlt : ((pre.length : Nat) : Int) < len need := by rw [hn]; exact lt_len_mid _ _ _
    have hidx : idxL need (pre.length : Int) = .ok w := by rw [hn]; exact idxL_mid _ _ _ rfl
    have hcast : ((pre.length : Nat) : Int) + 1 = (((pre ++ [w]).length : Nat) : Int) := by simp
    have hw : w.1.length ≤ M := hM w (by rw [hn]; simp)
    simp only [List.length_cons] at hf1 hf2
    obtain ⟨h1, ha, R1⟩ := WorkFile_AddNewUse_sim R w.1 w.2 f (by omega) (by omega)
    have hnc := addNewUse_nodeCount e w.1 w.2
    obtain ⟨h2, hl, R2⟩ := SetUse_loop3 fp need M hM ws (pre ++ [w]) h1 _ f R1 (by simp [hn]) (by omega) (by omega)
    refine ⟨h2, ?_, R2⟩
    unfold WorkFile_SetUse_loop3
    simp only [hlt, decide_true, if_true, hidx, bind, Except.bind, ha, hcast, hl]

/-! ### SetUse -/

theorem useNeedMap_mem : ∀ (ws acc : List (Bytes × Bytes)) (w : Bytes × Bytes), w ∈ Modfile.Edit.useNeedMap ws acc → w ∈ ws ∨ w ∈ acc
  | [], acc, w, h => Or.inr h
  | v :: ws, acc, w, h => by
    unfold Modfile.Edit.useNeedMap at h
    split at h
    · rcases useNeedMap_mem ws _ w h with h1 | h1
      · exact Or.inl (List.mem_cons_of_mem _ h1)
      · obtain ⟨a, ha, rfl⟩ := List.mem_map.1 h1
        split
        · exact Or.inl List.mem_cons_self
        · exact Or.inr ha
    · rcases useNeedMap_mem ws _ w h with h1 | h1
      · exact Or.inl (List.mem_cons_of_mem _ h1)
      · rcases List.mem_append.1 h1 with h2 | h2
        · exact Or.inr h2
        · simp only [List.mem_singleton] at h2; subst h2; exact Or.inl List.mem_cons_self

theorem useNeedMap_length : ∀ (ws acc : List (Bytes × Bytes)), (Modfile.Edit.useNeedMap ws acc).length ≤ acc.length + ws.length
  | [], acc => by simp [Modfile.Edit.useNeedMap]
  | v :: ws, acc => by
    unfold Modfile.Edit.useNeedMap
    split
    · have := useNeedMap_length ws (acc.map fun a => if a.1 == v.1 then v else a)
      simp only [List.length_map, List.length_cons] at this ⊢; omega
    · have := useNeedMap_length ws (acc ++ [v])
      simp only [List.length_append, List.length_cons, List.length_nil] at this ⊢; omega

theorem setUseLoop_sub : ∀ (ds : List Modfile.Use) (need : List (Bytes × Bytes)) (syn : Modfile.FileSyntax) (r : List Modfile.Use)
    (need' : List (Bytes × Bytes)) (syn' : Modfile.FileSyntax),
    Modfile.Edit.setUseLoop ds need syn = .ok (r, need', syn') → need'.Sublist need
  | [], need, syn, r, need', syn', h => by
    simp only [Modfile.Edit.setUseLoop, Except.ok.injEq, Prod.mk.injEq] at h
    rw [← h.2.1]; exact List.Sublist.refl _
  | d :: ds, need, syn, r, need', syn', h => by
    unfold Modfile.Edit.setUseLoop at h
    split at h
    · simp only [bind, Except.bind] at h
      cases hr : Modfile.Edit.setUseLoop ds (need.filter (·.1 != d.path)) syn with
      | error er => rw [hr] at h; cases h
      | ok t =>
        obtain ⟨a, b, c⟩ := t
        rw [hr] at h
        simp only [pure, Except.pure, Except.ok.injEq, Prod.mk.injEq] at h
        obtain ⟨_, rfl, _⟩ := h
        exact (setUseLoop_sub ds _ syn a b c hr).trans List.filter_sublist
    · simp only [bind, Except.bind] at h
      cases hd : deref d.lineId with
      | error er => rw [hd] at h; cases h
      | ok i =>
        rw [hd] at h
        simp only [] at h
        cases hr : Modfile.Edit.setUseLoop ds need (Modfile.Edit.markRemoved syn i) with
        | error er => rw [hr] at h; cases h
        | ok t =>
          obtain ⟨a, b, c⟩ := t
          rw [hr] at h
          simp only [pure, Except.pure, Except.ok.injEq, Prod.mk.injEq] at h
          obtain ⟨_, rfl, _⟩ := h
          exact setUseLoop_sub ds need _ a b c hr

/-- the model's SetUse before the final SortBlocks, with the map iterated in insertion order -/
def setUsePre (e : EWork) (ws : List (Bytes × Bytes)) : Except Modfile.Edit.EditErr EWork := do
  let (us, need, syn) ← Modfile.Edit.setUseLoop e.f.use (Modfile.Edit.useNeedMap ws []) e.f.syn
  pure (need.foldl (fun e w => Modfile.Edit.addNewUse e w.1 w.2) { e with f := { e.f with use := us, syn := syn } })

theorem setUse_eq (e : EWork) (ws : List (Bytes × Bytes)) :
    Modfile.Edit.setUse e ws (fun l => l) = (setUsePre e ws).map Modfile.Edit.workSortBlocks := by
  unfold Modfile.Edit.setUse setUsePre
  simp only [bind, Except.bind]
  cases Modfile.Edit.setUseLoop e.f.use (Modfile.Edit.useNeedMap ws []) e.f.syn with
  | error er => rfl
  | ok r => obtain ⟨a, b, c⟩ := r; rfl

section
variable (sortFuel : EWork → Nat)
  (hSort : ∀ {h : Heap} {fp : Int} {e : EWork}, RepW h fp e → ∀ fuel : Nat, sortFuel e ≤ fuel →
    ∃ h', WorkFile_SortBlocks fuel fp h = .ok ((), h') ∧ RepW h' fp (Modfile.Edit.workSortBlocks e))
include hSort

/-- `WorkFile.SetUse` simulates the model's `setUse` with the permutation `perm = id` (the regenerated code iterates the
    map `need` in insertion order), given the tie of `WorkFile.SortBlocks` -/
theorem WorkFile_SetUse_sim {h : Heap} {fp : Int} {e : EWork} (R : RepW h fp e) (dirs : List Int) (ws : List (Bytes × Bytes))
    (hd : DirsOK h dirs ws) (M : Nat) (hM : ∀ w ∈ ws, w.1.length ≤ M) (fuel : Nat)
    (hf1 : nodeCount e.f.syn.stmts + 3 * ws.length + 3 ≤ fuel) (hf2 : M + ws.length + 1 ≤ fuel)
    (hf3 : e.f.use.length + 1 ≤ fuel) (hf4 : ∀ e2, setUsePre e ws = .ok e2 → sortFuel e2 ≤ fuel) :
    (∀ e', Modfile.Edit.setUse e ws (fun l => l) = .ok e' →
      ∃ h', WorkFile_SetUse Drv.GenEdit.isPrintI Drv.GenEdit.quoteI fuel fp dirs h = .ok ((), h') ∧ RepW h' fp e') ∧
    (∀ er, Modfile.Edit.setUse e ws (fun l => l) = .error er →
      WorkFile_SetUse Drv.GenEdit.isPrintI Drv.GenEdit.quoteI fuel fp dirs h = .error .panic) := by
  obtain ⟨o, hw, R⟩ := R
  have hl1 := SetUse_loop1_eq Drv.GenEdit.isPrintI Drv.GenEdit.quoteI dirs h dirs ws [] [] fuel rfl hd
    (by rw [DirsOK_length hd]; omega)
  have hl1' : WorkFile_SetUse_loop1 Drv.GenEdit.isPrintI Drv.GenEdit.quoteI dirs h fuel 0 [] =
      .ok (len dirs, Modfile.Edit.useNeedMap ws []) := hl1
  have L2 := SetUse_loop2 Drv.GenEdit.isPrintI Drv.GenEdit.quoteI fp o e.f.use o.Use [] [] h e
    (Modfile.Edit.useNeedMap ws []) fuel R rfl rfl rfl hf3
  rw [setUse_eq]
  unfold setUsePre at hf4 ⊢
  unfold WorkFile_SetUse
  simp only [hl1', hw, bind, Except.bind] at hf4 ⊢
  cases hc : Modfile.Edit.setUseLoop e.f.use (Modfile.Edit.useNeedMap ws []) e.f.syn with
  | error er =>
    have h2 : WorkFile_SetUse_loop2 Drv.GenEdit.isPrintI Drv.GenEdit.quoteI o.Use fp fuel 0 h
        (Modfile.Edit.useNeedMap ws []) = .error .panic := L2.2 er hc
    refine ⟨fun e' he' => (by cases he'), fun er' _ => ?_⟩
    simp only [h2]
  | ok r =>
    obtain ⟨us, need', syn'⟩ := r
    obtain ⟨h2, hl2, hw2, R2, hnc⟩ := L2.1 us need' syn' hc
    have hl2' : WorkFile_SetUse_loop2 Drv.GenEdit.isPrintI Drv.GenEdit.quoteI o.Use fp fuel 0 h
        (Modfile.Edit.useNeedMap ws []) = .ok (len o.Use, h2, need') := hl2
    have hsub := setUseLoop_sub _ _ _ _ _ _ hc
    have hlen : need'.length ≤ ws.length := by
      have := hsub.length_le
      have := useNeedMap_length ws []
      simp only [List.length_nil] at this
      omega
    have hM' : ∀ w ∈ need', w.1.length ≤ M := by
      intro w hw'
      rcases useNeedMap_mem ws [] w (hsub.subset hw') with h1 | h1
      · exact hM w h1
      · cases h1
    obtain ⟨h3, hl3, R3⟩ := SetUse_loop3 fp need' M hM' need' [] h2 _ fuel ⟨o, by rw [hw2]; exact hw, R2⟩ rfl
      (by simp only [List.nil_append] at hnc ⊢; rw [hnc]; omega) (by omega)
    have hl3' : WorkFile_SetUse_loop3 Drv.GenEdit.isPrintI Drv.GenEdit.quoteI fp need' fuel 0 h2 = .ok (len need', h3) := hl3
    rw [hc] at hf4
    simp only [List.nil_append] at R3
    obtain ⟨h4, hs, R4⟩ := hSort R3 fuel (hf4 _ rfl)
    simp only [hl2', hl3', hs, pure, Except.pure, Except.map]
    refine ⟨fun e' he' => ?_, fun er' he' => (by cases he')⟩
    simp only [Except.ok.injEq] at he'
    subst he'
    exact ⟨h4, rfl, R4⟩

end
end ModVerif.Tie.FnEditWorkE
