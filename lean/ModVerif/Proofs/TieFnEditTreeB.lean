/-
  Helper lemmas for Tie/FnEditTree.lean: the PURE functions that Generated/FnEdit.lean regenerates once more
  (`MustQuote`, `AutoQuote`, `checkCanonicalVersion`: syntactically the definitions of Generated/FnModfile.lean) and the
  block comparators, which in this unit take line POINTERS and read the heap (`lineLess`, `lineExcludeLess`,
  `lineRetractLess`): each is the function of Generated/FnModfile.lean on the `Token`s of the two line objects, so the
  ties of Tie/FnModfile.lean and Tie/FnModfileCmp.lean transport.
-/
import ModVerif.Generated.FnEdit
import ModVerif.Tie.FnModfile
import ModVerif.Tie.FnModfileCmp
import ModVerif.Proofs.TieFnParseHeap
set_option linter.unusedSimpArgs false
set_option linter.unusedVariables false
namespace ModVerif.Tie.FnEditTreeB
open ModVerif ModVerif.GoRt

/-! ### MustQuote, AutoQuote, checkCanonicalVersion: the same definitions -/

theorem MustQuote_loop1_eq (isPrint : Int → Bool) (s : Bytes) : ∀ (fuel : Nat) (ri : Int),
    Generated.Edit.MustQuote_loop1 isPrint s fuel ri = Generated.Modfile.MustQuote_loop1 isPrint s fuel ri
  | 0, _ => rfl
  | fuel + 1, ri => by
    unfold Generated.Edit.MustQuote_loop1 Generated.Modfile.MustQuote_loop1
    simp only [MustQuote_loop1_eq isPrint s fuel]

theorem MustQuote_eq (isPrint : Int → Bool) (fuel : Nat) (s : Bytes) :
    Generated.Edit.MustQuote isPrint fuel s = Generated.Modfile.MustQuote isPrint fuel s := by
  unfold Generated.Edit.MustQuote Generated.Modfile.MustQuote
  simp only [MustQuote_loop1_eq]
  rfl

theorem AutoQuote_eq (isPrint : Int → Bool) (quote : Bytes → Bytes) (fuel : Nat) (s : Bytes) :
    Generated.Edit.AutoQuote isPrint quote fuel s = Generated.Modfile.AutoQuote isPrint quote fuel s := by
  unfold Generated.Edit.AutoQuote Generated.Modfile.AutoQuote
  simp only [MustQuote_eq]

theorem checkCanonicalVersion_eq (fuel : Nat) (path vers : Bytes) :
    Generated.Edit.checkCanonicalVersion fuel path vers = Generated.Modfile.checkCanonicalVersion fuel path vers := rfl

/-! ### the comparators: pointer version = value version on the two line objects -/

/-- a line VALUE of Generated/FnModfile.lean with the given tokens -/
def mkL (t : List Bytes) : Generated.Modfile.Line := { (default : Generated.Modfile.Line) with Token := t }

@[simp] theorem mkL_Token (t : List Bytes) : (mkL t).Token = t := rfl

def ctlMap {α β γ : Type} (f : α → β) : Ctl α γ → Ctl β γ
  | .ret a => .ret (f a)
  | .next c => .next c

theorem lineLess_loop1_eq {h : Generated.Edit.Heap} {li lj : Int} {a b : Generated.Edit.Line}
    (ha : heapGet h.lines li = .ok a) (hb : heapGet h.lines lj = .ok b) : ∀ (fuel : Nat) (k : Int),
    Generated.Edit.lineLess_loop1 li lj h fuel k =
      (Generated.Modfile.lineLess_loop1 (mkL a.Token) (mkL b.Token) fuel k).map (ctlMap fun r => (r, h))
  | 0, _ => rfl
  | fuel + 1, k => by
    unfold Generated.Edit.lineLess_loop1 Generated.Modfile.lineLess_loop1
    simp only [ha, hb, bind, Except.bind, pure, Except.pure, mkL_Token]
    by_cases h1 : k < len a.Token <;> by_cases h2 : k < len b.Token <;>
      simp only [h1, h2, decide_true, decide_false, Bool.true_and, Bool.false_and, Bool.and_false, if_true, if_false,
        Bool.false_eq_true, Except.map, ctlMap]
    cases e1 : idxL a.Token k with
    | error e => rfl
    | ok x =>
      cases e2 : idxL b.Token k with
      | error e => rfl
      | ok y =>
        simp only []
        by_cases hxy : x = y
        · simp only [hxy, decide_true, Bool.not_true, Bool.false_eq_true, if_false]
          exact lineLess_loop1_eq ha hb fuel (k + 1)
        · simp only [hxy, decide_false, Bool.not_false, if_true, Except.map, ctlMap]


theorem lineLess_eq {h : Generated.Edit.Heap} {li lj : Int} {a b : Generated.Edit.Line}
    (ha : heapGet h.lines li = .ok a) (hb : heapGet h.lines lj = .ok b) (fuel : Nat) :
    Generated.Edit.lineLess fuel li lj h =
      (Generated.Modfile.lineLess fuel (mkL a.Token) (mkL b.Token)).map (fun r => (r, h)) := by
  unfold Generated.Edit.lineLess Generated.Modfile.lineLess
  simp only [lineLess_loop1_eq ha hb, bind, Except.bind, pure, Except.pure, ha, hb, mkL_Token]
  cases Generated.Modfile.lineLess_loop1 (mkL a.Token) (mkL b.Token) fuel 0 with
  | error e => rfl
  | ok c => cases c <;> rfl

theorem lineExcludeLess_eq {h : Generated.Edit.Heap} {li lj : Int} {a b : Generated.Edit.Line}
    (ha : heapGet h.lines li = .ok a) (hb : heapGet h.lines lj = .ok b) (fuel : Nat) :
    Generated.Edit.lineExcludeLess fuel li lj h =
      (Generated.Modfile.lineExcludeLess fuel (mkL a.Token) (mkL b.Token)).map (fun r => (r, h)) := by
  unfold Generated.Edit.lineExcludeLess Generated.Modfile.lineExcludeLess
  simp only [lineLess_eq ha hb, bind, Except.bind, pure, Except.pure, ha, hb, mkL_Token]
  by_cases h1 : len a.Token = 2 <;> by_cases h2 : len b.Token = 2 <;>
    simp only [h1, h2, decide_true, decide_false, Bool.not_true, Bool.not_false, Bool.or_false, Bool.or_true, Bool.true_or,
      Bool.false_or, if_true, if_false, Bool.false_eq_true]
  · cases idxL a.Token 0 with
    | error e => rfl
    | ok x =>
      cases idxL b.Token 0 with
      | error e => rfl
      | ok y =>
        simp only []
        by_cases hxy : x = y
        · simp only [hxy, decide_true, Bool.not_true, Bool.false_eq_true, if_false]
          cases idxL a.Token 1 with
          | error e => rfl
          | ok u =>
            cases idxL b.Token 1 with
            | error e => rfl
            | ok w =>
              simp only []
              cases Generated.Semver.Compare fuel u w <;> rfl
        · simp only [hxy, decide_false, Bool.not_false, if_true, Except.map]
  all_goals
    cases Generated.Modfile.lineLess fuel (mkL a.Token) (mkL b.Token) <;> rfl

theorem interval_eq {h : Generated.Edit.Heap} {l : Int} {a : Generated.Edit.Line}
    (ha : heapGet h.lines l = .ok a) (fuel : Nat) :
    Generated.Edit.lineRetractLess_interval fuel h l =
      (Generated.Modfile.lineRetractLess_interval fuel (mkL a.Token)).map
        (fun v => ({ Low := v.Low, High := v.High } : Generated.Edit.VersionInterval)) := by
  unfold Generated.Edit.lineRetractLess_interval Generated.Modfile.lineRetractLess_interval
  simp only [bind, Except.bind, pure, Except.pure, ha, mkL_Token]
  by_cases h1 : len a.Token = 1
  · simp only [h1, decide_true, if_true]
    cases idxL a.Token 0 <;> rfl
  · simp only [h1, decide_false, Bool.false_eq_true, if_false]
    by_cases h5 : len a.Token = 5
    · simp only [h5, decide_true, if_true]
      cases idxL a.Token 0 with
      | error e => rfl
      | ok x0 =>
        simp only []
        by_cases c0 : x0 = [91]
        · simp only [c0, decide_true, if_true]
          cases idxL a.Token 2 with
          | error e => rfl
          | ok x2 =>
            simp only []
            by_cases c2 : x2 = [44]
            · simp only [c2, decide_true, if_true]
              cases idxL a.Token 4 with
              | error e => rfl
              | ok x4 =>
                simp only []
                by_cases c4 : x4 = [93]
                · simp only [c4, decide_true, if_true]
                  cases idxL a.Token 1 with
                  | error e => rfl
                  | ok x1 =>
                    cases idxL a.Token 3 <;> rfl
                · simp only [c4, decide_false, Bool.false_eq_true, if_false]; rfl
            · simp only [c2, decide_false, Bool.false_eq_true, if_false]; rfl
        · simp only [c0, decide_false, Bool.false_eq_true, if_false]; rfl
    · simp only [h5, decide_false, Bool.false_eq_true, if_false]; rfl

theorem lineRetractLess_eq {h : Generated.Edit.Heap} {li lj : Int} {a b : Generated.Edit.Line}
    (ha : heapGet h.lines li = .ok a) (hb : heapGet h.lines lj = .ok b) (fuel : Nat) :
    Generated.Edit.lineRetractLess fuel li lj h =
      (Generated.Modfile.lineRetractLess fuel (mkL a.Token) (mkL b.Token)).map (fun r => (r, h)) := by
  unfold Generated.Edit.lineRetractLess Generated.Modfile.lineRetractLess
  simp only [interval_eq ha, interval_eq hb, bind, Except.bind, pure, Except.pure]
  cases Generated.Modfile.lineRetractLess_interval fuel (mkL a.Token) with
  | error e => rfl
  | ok vi =>
    cases Generated.Modfile.lineRetractLess_interval fuel (mkL b.Token) with
    | error e => rfl
    | ok vj =>
      simp only [Except.map]
      cases Generated.Semver.Compare fuel vi.Low vj.Low with
      | error e => rfl
      | ok c =>
        simp only []
        by_cases hc : c = 0
        · simp only [hc, decide_true, Bool.not_true, Bool.false_eq_true, if_false]
          cases Generated.Semver.Compare fuel vi.High vj.High <;> rfl
        · simp only [hc, decide_false, Bool.not_false, if_true]

end ModVerif.Tie.FnEditTreeB
