/- Helper lemmas for C18: byte-list facts (last-index split, suffix trimming, splitting on a separator,
   the identifier-list comparison of semver, bytewise order). -/
import ModVerif.Model.Pseudo
namespace ModVerif.Proofs.Pseudo
open ModVerif ModVerif.Pseudo

/-! ### splitLast (strings.LastIndex) -/

theorem splitLast_append (sep : UInt8) (a b : Bytes) (hb : sep ∉ b) :
    splitLast sep (a ++ sep :: b) = some (a, b) := by
  have hp : ∀ x ∈ b.reverse, (x != sep) = true := by
    intro x hx; simp at hx; simp; intro h; exact hb (h ▸ hx)
  unfold splitLast
  simp only [List.reverse_append, List.reverse_cons, List.append_assoc, List.singleton_append]
  rw [List.dropWhile_append_of_pos hp, List.takeWhile_append_of_pos hp]
  simp

theorem splitLast_none (sep : UInt8) (v : Bytes) (h : sep ∉ v) : splitLast sep v = none := by
  have hp : ∀ x ∈ v.reverse, (x != sep) = true := by
    intro x hx; simp at hx; simp; intro e; exact h (e ▸ hx)
  unfold splitLast
  have := List.dropWhile_append_of_pos (l₂ := []) hp
  simp at this
  simp [this]

theorem exists_last_split (sep : UInt8) : ∀ v : Bytes, sep ∈ v → ∃ a b, v = a ++ sep :: b ∧ sep ∉ b
  | [], h => by simp at h
  | x :: xs, h => by
    by_cases hx : sep ∈ xs
    · obtain ⟨a, b, e, hb⟩ := exists_last_split sep xs hx
      exact ⟨x :: a, b, by simp [e], hb⟩
    · have : sep = x := by
        rcases List.mem_cons.mp h with h | h
        · exact h
        · exact absurd h hx
      exact ⟨[], xs, by simp [this], hx⟩

/-- if the text after the last `dot` contains no `dash`, and a `dash` occurs at all, then the last `dash`
    lies strictly before the last `dot`. -/
theorem last_dash_before_dot (dash dot : UInt8) (hne : dash ≠ dot) (a t : Bytes) (ht : dash ∉ t)
    (hmem : dash ∈ a) :
    ∃ a2 b2, splitLast dash (a ++ dot :: t) = some (a2, b2) ∧ a2.length < a.length := by
  obtain ⟨a2, b2, e, hb⟩ := exists_last_split dash a hmem
  refine ⟨a2, b2 ++ dot :: t, ?_, ?_⟩
  · have : a ++ dot :: t = a2 ++ dash :: (b2 ++ dot :: t) := by simp [e]
    rw [this]
    apply splitLast_append
    simp [hb, ht, hne]
  · rw [e]; simp

/-! ### TrimSuffix / HasSuffix -/

theorem isPrefixOfB_append : ∀ a b : Bytes, isPrefixOfB a (a ++ b) = true
  | [], _ => by simp [isPrefixOfB]
  | x :: a, b => by simp [isPrefixOfB, isPrefixOfB_append a b]

theorem hasSuffixB_append (a b : Bytes) : hasSuffixB (a ++ b) b = true := by
  unfold hasSuffixB
  rw [List.reverse_append]
  exact isPrefixOfB_append _ _

theorem trimSuffix_append (a b : Bytes) : trimSuffix (a ++ b) b = a := by
  unfold trimSuffix
  rw [hasSuffixB_append]
  simp

/-! ### splitOn -/

theorem splitOn_ne_nil (sep : UInt8) : ∀ b : Bytes, splitOn sep b ≠ []
  | [] => by simp [splitOn]
  | c :: rest => by
    unfold splitOn
    split
    · simp
    · split <;> simp

theorem splitOn_noSep (sep : UInt8) : ∀ x : Bytes, sep ∉ x → splitOn sep x = [x]
  | [], _ => rfl
  | c :: rest, h => by
    have hc : (c == sep) = false := by
      simp; intro e; exact h (by simp [e])
    have hr : sep ∉ rest := fun hm => h (by simp [hm])
    simp [splitOn, hc, splitOn_noSep sep rest hr]

theorem splitOn_append_sep (sep : UInt8) : ∀ (a b : Bytes),
    splitOn sep (a ++ sep :: b) = splitOn sep a ++ splitOn sep b
  | [], b => by
    have h1 : splitOn sep (sep :: b) = [] :: splitOn sep b := by simp [splitOn]
    have h2 : splitOn sep ([] : Bytes) = [[]] := rfl
    rw [List.nil_append, h1, h2]
    rfl
  | c :: a, b => by
    have ih := splitOn_append_sep sep a b
    by_cases hc : (c == sep) = true
    · simp only [List.cons_append, splitOn, hc, if_true, ih, List.cons_append]
    · have hc' : (c == sep) = false := by simpa using hc
      simp only [List.cons_append, splitOn, hc', ih]
      have hne := splitOn_ne_nil sep a
      cases hs : splitOn sep a with
      | nil => exact absurd hs hne
      | cons s ss => simp

/-- splitting `x ++ sep :: y` when neither part contains the separator -/
theorem splitOn_two (sep : UInt8) (x y : Bytes) (hx : sep ∉ x) (hy : sep ∉ y) :
    splitOn sep (x ++ sep :: y) = [x, y] := by
  rw [splitOn_append_sep, splitOn_noSep sep x hx, splitOn_noSep sep y hy]; rfl

/-! ### comparison of identifier lists -/

theorem cmpIdents_prefix : ∀ (l : List Bytes) (y : Bytes) (ys : List Bytes),
    Semver.cmpIdents l (l ++ y :: ys) = -1
  | [], _, _ => rfl
  | x :: l, y, ys => by simp [Semver.cmpIdents, cmpIdents_prefix l y ys]

theorem cmpIdents_common : ∀ (l : List Bytes) (a b : Bytes) (as bs : List Bytes), a ≠ b →
    Semver.cmpIdents (l ++ a :: as) (l ++ b :: bs) = Semver.cmpIdent a b
  | [], a, b, _, _, h => by simp [Semver.cmpIdents, h]
  | x :: l, a, b, as, bs, h => by simp [Semver.cmpIdents, cmpIdents_common l a b as bs h]

/-! ### bytewise order -/

theorem bytesLt_append_of_lt : ∀ (a b : Bytes) (x y : Bytes), a.length = b.length → bytesLt a b = true →
    bytesLt (a ++ x) (b ++ y) = true
  | [], [], _, _, _, h => by simp [bytesLt] at h
  | [], _ :: _, _, _, hl, _ => by simp at hl
  | _ :: _, [], _, _, hl, _ => by simp at hl
  | c :: a, d :: b, x, y, hl, h => by
    simp only [bytesLt] at h
    simp only [List.cons_append, bytesLt]
    by_cases h1 : c < d
    · simp [h1]
    · simp only [h1, if_false] at h ⊢
      by_cases h2 : d < c
      · simp [h2] at h
      · simp only [h2, if_false] at h ⊢
        exact bytesLt_append_of_lt a b x y (by simpa using hl) h

theorem bytesLt_ne : ∀ a b : Bytes, bytesLt a b = true → a ≠ b
  | [], [], h => by simp [bytesLt] at h
  | [], _ :: _, _ => by simp
  | _ :: _, [], _ => by simp
  | c :: a, d :: b, h => by
    intro e
    injection e with e1 e2
    subst e1
    simp only [bytesLt, UInt8.lt_irrefl, if_false] at h
    exact bytesLt_ne a b h e2

end ModVerif.Proofs.Pseudo
