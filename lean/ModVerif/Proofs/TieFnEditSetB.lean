/-
  Helper lemmas for Tie/FnEditSet.lean: loop 2 of `File.SetRequire` (the loop over the existing `f.Require`: setVersion +
  setIndirect of the entries still needed, markRemoved of the others, `delete(need, r.Mod.Path)`) = the model's
  `setRequireLoop`, as a simulation on a represented file (`RepFAt`).
-/
import ModVerif.Proofs.TieFnEditSetA
set_option linter.unusedSimpArgs false
set_option linter.unusedVariables false
namespace ModVerif.Tie.FnEditSetB
open ModVerif ModVerif.GoRt ModVerif.Generated.Edit ModVerif.Tie.FnEditRep ModVerif.Tie.FnEditTreeA ModVerif.Tie.FnEditSetA
open ModVerif.Modfile.Edit (Want needMap setRequireLoop EFile setVersionLine setIndirectLine clearedRequire)

/-- Go's `com.Token[strings.Index(com.Token, "indirect;")+len("indirect;"):]` in `setIndirect(false)`: when the line is
    marked indirect and its comment is not just "indirect", the comment contains "indirect;" (the first field is
    "indirect;").  A closed statement about `strings.Fields` / `strings.TrimSpace` / `strings.Index` (the hypothesis `hidx`
    of `FnEditTreeA.Require_setIndirect_eq`, for all lines). -/
def IndirectIdxOK : Prop :=
  ∀ l : Modfile.Line, Modfile.isIndirect l = true → ∀ com rest, l.comments.suffix = com :: rest →
    GoStrings.trimSpace (GoStrings.trimPrefix com.token [47, 47]) ≠ B "indirect" →
    (GoStrings.index com.token (B "indirect;")).isSome

/-- the model file with new `require` list and syntax tree -/
def withRS (e : EFile) (rq : List Modfile.Require) (syn : Modfile.FileSyntax) : EFile :=
  { e with f := { e.f with require := rq, syn := syn } }

@[simp] theorem withRS_withRS (e : EFile) (a b : List Modfile.Require) (s t : Modfile.FileSyntax) :
    withRS (withRS e a s) b t = withRS e b t := rfl
@[simp] theorem withRS_require (e : EFile) (a : List Modfile.Require) (s : Modfile.FileSyntax) : (withRS e a s).f.require = a := rfl
@[simp] theorem withRS_syn (e : EFile) (a : List Modfile.Require) (s : Modfile.FileSyntax) : (withRS e a s).f.syn = s := rfl
@[simp] theorem withRS_next (e : EFile) (a : List Modfile.Require) (s : Modfile.FileSyntax) : (withRS e a s).next = e.next := rfl
theorem withRS_self (e : EFile) : withRS e e.f.require e.f.syn = e := rfl

/-- the line function of the kept entries -/
def keepLine (w : Want) (l : Modfile.Line) : Modfile.Line := setIndirectLine w.indirect (setVersionLine w.vers l)

theorem IdEquiv_keepLine (w : Want) : IdEquiv (keepLine w) :=
  show IdEquiv (fun l => setIndirectLine w.indirect (setVersionLine w.vers l)) from
    IdEquiv.comp (IdEquiv_setIndirectLine w.indirect) (IdEquiv_setVersionLine w.vers)

/-! ### the two branches of the loop body on the heap -/

/-- `r.setVersion(v); r.setIndirect(b)` -/
theorem setBoth_eq (hIdx : IndirectIdxOK) {h : Heap} {r : Int} {rq : Modfile.Require} {l : Modfile.Line} (v : Bytes) (b : Bool)
    (hr : heapGet h.requires r = .ok (requireG rq)) (hg : heapGet h.lines (rq.lineId : Int) = .ok (lineG l)) :
    (Require_setVersion r v h >>= fun t => Require_setIndirect r b t.2) =
      .ok ((), { setLineH h (rq.lineId : Int) (setIndirectLine b (setVersionLine v l)) with
                   requires := h.requires.set (r.toNat - 1)
                     (requireG { rq with mod := { rq.mod with version := v }, indirect := b }) }) := by
  rw [Require_setVersion_eq v hr hg]
  simp only [bind, Except.bind]
  have hr1 : heapGet ({ setLineH h (rq.lineId : Int) (setVersionLine v l) with
      requires := h.requires.set (r.toNat - 1) (requireG { rq with mod := { rq.mod with version := v } }) } : Heap).requires r =
      .ok (requireG { rq with mod := { rq.mod with version := v } }) := heapGet_listSet_same _ hr
  have hg1 : heapGet ({ setLineH h (rq.lineId : Int) (setVersionLine v l) with
      requires := h.requires.set (r.toNat - 1) (requireG { rq with mod := { rq.mod with version := v } }) } : Heap).lines
      (({ rq with mod := { rq.mod with version := v } } : Modfile.Require).lineId : Int) = .ok (lineG (setVersionLine v l)) :=
    heapGet_setLineH_same hg _
  rw [Require_setIndirect_eq b hr1 hg1 (fun hb hi com rest hs hne => hIdx _ hi com rest hs hne)]
  simp only [setLineH, List.set_set]

theorem setBoth_nil {h : Heap} {r : Int} {rq : Modfile.Require} (v : Bytes) (b : Bool)
    (hr : heapGet h.requires r = .ok (requireG rq)) (h0 : rq.lineId = 0) :
    (Require_setVersion r v h >>= fun t => Require_setIndirect r b t.2) = .error .panic := by
  rw [Require_setVersion_nil v hr h0]; rfl

/-! ### loop 2 -/

theorem filter_path_ne_nil (need : List Want) : need.filter (·.path != []) = need.filter (!·.path.isEmpty) := by
  apply List.filter_congr
  intro a _
  cases a.path <;> rfl

theorem set_append_mid {α : Type} (a : List α) (x y : α) (b : List α) : (a ++ x :: b).set a.length y = a ++ y :: b := by
  induction a with
  | nil => rfl
  | cons c t ih => simp [ih]

theorem getElem?_append_mid {α : Type} (a : List α) (x : α) (b : List α) : (a ++ x :: b)[a.length]? = some x := by
  simp

theorem loop2_sim (hIdx : IndirectIdxOK) (isPrint : Int → Bool) (quote : Bytes → Bytes) (f : Int) (o : File) (e0 : EFile) :
    ∀ (rest : List Modfile.Require) (ps pre : List Int) (ri : Int) (done : List Modfile.Require) (need : List Want)
      (syn : Modfile.FileSyntax) (h : Heap) (fuel : Nat),
      o.Require = pre ++ ps → ri = (pre.length : Int) → done.length = pre.length → ps.length = rest.length →
      RepFAt h o (withRS e0 (done ++ rest) syn) → rest.length < fuel →
      match setRequireLoop rest need syn with
      | .ok (rs', need', syn') =>
        ∃ h', File_SetRequire_loop2 isPrint quote o.Require f fuel ri h (needG need) = .ok (len o.Require, h', needG need') ∧
          RepFAt h' o (withRS e0 (done ++ rs') syn') ∧ h'.mods = h.mods
      | .error _ => File_SetRequire_loop2 isPrint quote o.Require f fuel ri h (needG need) = .error .panic
  | [], [], pre, ri, done, need, syn, h, fuel + 1, hrx, hri, _, _, R, _ => by
    subst hri
    rw [hrx]
    have := not_lt_len_end pre
    simp only [setRequireLoop, File_SetRequire_loop2, this, decide_false, Bool.false_eq_true, if_false, pure, Except.pure]
    refine ⟨h, ?_, R, rfl⟩
    simp [len_eq]
  | rq :: rest, p :: ps, pre, ri, done, need, syn, h, fuel + 1, hrx, hri, hdl, hpl, R, hf => by
    have ih := loop2_sim hIdx isPrint quote f o e0 rest ps (pre ++ [p]) (ri + 1)
    subst hri
    -- the entry under the cursor
    have hgetp : o.Require[pre.length]? = some p := by rw [hrx]; exact getElem?_append_mid pre p ps
    have hgetr : (withRS e0 (done ++ rq :: rest) syn).f.require[pre.length]? = some rq := by
      rw [← hdl]; exact getElem?_append_mid done rq rest
    obtain ⟨hobj, hle⟩ := REntsL.get R.require.rel pre.length p rq hgetp hgetr
    have hcur : idxL o.Require (pre.length : Int) = .ok p := by rw [hrx]; exact idxL_cursor pre p ps
    have hlt : ((pre.length : Int) < len o.Require) := by rw [hrx]; exact lt_len_cursor pre p ps
    unfold File_SetRequire_loop2
    simp only [hlt, decide_true, if_true, hcur, bind, Except.bind, hobj, requireG_Mod, mvG_Path, mapGet_needG]
    unfold setRequireLoop
    by_cases h0 : rq.lineId = 0
    · -- nil Syntax: both sides panic
      have hd : Modfile.Edit.deref rq.lineId = .error .nilDeref := by simp [Modfile.Edit.deref, h0, Modfile.Edit.nilId]
      cases hfind : need.find? (·.path == rq.mod.path) with
      | some w =>
        simp only [hd, bind, Except.bind, if_true]
        have := setBoth_nil w.vers w.indirect hobj h0
        simp only [bind, Except.bind] at this
        cases hv : Require_setVersion p w.vers h with
        | error err =>
          rw [hv] at this
          injection this with e1
          subst e1; rfl
        | ok t =>
          rw [hv] at this
          simp only at this
          obtain ⟨u, t2⟩ := t
          simp only [this]
      | none =>
        simp only [hd, bind, Except.bind, Bool.false_eq_true, if_false]
        rw [Require_markRemoved_nil hobj h0]
    · have hd : Modfile.Edit.deref rq.lineId = .ok rq.lineId := by simp [Modfile.Edit.deref, h0, Modfile.Edit.nilId]
      obtain ⟨l, hl, hlid⟩ := R.linesG.ofId h0 hle
      cases hfind : need.find? (·.path == rq.mod.path) with
      | some w =>
        simp only [hd, bind, Except.bind, if_true]
        have hb := setBoth_eq hIdx w.vers w.indirect hobj hl
        simp only [bind, Except.bind] at hb
        cases hv : Require_setVersion p w.vers h with
        | error err => rw [hv] at hb; cases hb
        | ok t =>
          rw [hv] at hb
          simp only at hb
          obtain ⟨u, t2⟩ := t
          simp only [hb]
          -- the new heap represents the updated model
          have R1 := R.setLine (IdEquiv_keepLine w) hl
          have R2 := R1.setRequire (i := pre.length) hgetp
            { rq with mod := { rq.mod with version := w.vers }, indirect := w.indirect } (by simpa using hle)
          simp only [Int.toNat_natCast] at R2
          have hset : (done ++ rq :: rest).set pre.length { rq with mod := { rq.mod with version := w.vers }, indirect := w.indirect }
              = (done ++ [{ rq with mod := { rq.mod with version := w.vers }, indirect := w.indirect }]) ++ rest := by
            rw [← hdl, set_append_mid]; simp
          have R3 : RepFAt ({ setLineH h (rq.lineId : Int) (keepLine w l) with
                requires := h.requires.set (p.toNat - 1)
                  (requireG { rq with mod := { rq.mod with version := w.vers }, indirect := w.indirect }) } : Heap) o
              (withRS e0 ((done ++ [{ rq with mod := { rq.mod with version := w.vers }, indirect := w.indirect }]) ++ rest)
                (syn.updateLine rq.lineId (keepLine w))) := by
            rw [← hset]; exact R2
          have hget2 : heapGet (h.requires.set (p.toNat - 1)
              (requireG { rq with mod := { rq.mod with version := w.vers }, indirect := w.indirect })) p =
              .ok (requireG { rq with mod := { rq.mod with version := w.vers }, indirect := w.indirect }) :=
            heapGet_listSet_same _ hobj
          simp only [hget2, requireG_Mod, mvG_Path, mapDelete_needG]
          have ih' := ih (done ++ [{ rq with mod := { rq.mod with version := w.vers }, indirect := w.indirect }])
            (need.filter (·.path != rq.mod.path)) (syn.updateLine rq.lineId (keepLine w)) _ fuel
            (by rw [hrx]; simp) (by simp) (by simp [hdl]) (by simpa using hpl) R3 (by simp at hf; omega)
          have hk : (fun l => setIndirectLine w.indirect (setVersionLine w.vers l)) = keepLine w := rfl
          simp only [hk]
          generalize setRequireLoop rest (need.filter (·.path != rq.mod.path)) (syn.updateLine rq.lineId (keepLine w)) = res at ih' ⊢
          cases res with
          | error err => exact ih'
          | ok res =>
            obtain ⟨rs', need', syn'⟩ := res
            obtain ⟨h', hrun, R', hm⟩ := ih'
            exact ⟨h', hrun, by simpa using R', hm⟩
      | none =>
        simp only [hd, bind, Except.bind, Bool.false_eq_true, if_false]
        rw [Require_markRemoved_eq hobj hl]
        have R1 := R.setLine (g := markRemovedLine) IdEquiv_markRemoved hl
        have R2 := R1.setRequire (i := pre.length) hgetp clearedRequire (Nat.zero_le _)
        simp only [Int.toNat_natCast] at R2
        have hset : (done ++ rq :: rest).set pre.length clearedRequire = (done ++ [clearedRequire]) ++ rest := by
          rw [← hdl, set_append_mid]; simp
        have R3 : RepFAt ({ setLineH h (rq.lineId : Int) (markRemovedLine l) with
              requires := h.requires.set (p.toNat - 1) (requireG clearedRequire) } : Heap) o
            (withRS e0 ((done ++ [clearedRequire]) ++ rest) (Modfile.Edit.markRemoved syn rq.lineId)) := by
          rw [← hset]; exact R2
        have hget2 : heapGet (h.requires.set (p.toNat - 1) (requireG clearedRequire)) p = .ok (requireG clearedRequire) :=
          heapGet_listSet_same _ hobj
        simp only [hget2]
        have hdel : mapDelete (needG need) (requireG clearedRequire).Mod.Path = needG (need.filter (!·.path.isEmpty)) := by
          rw [← filter_path_ne_nil, ← mapDelete_needG]; rfl
        rw [hdel]
        have ih' := ih (done ++ [clearedRequire]) (need.filter (!·.path.isEmpty)) (Modfile.Edit.markRemoved syn rq.lineId) _ fuel
          (by rw [hrx]; simp) (by simp) (by simp [hdl]) (by simpa using hpl) R3 (by simp at hf; omega)
        generalize setRequireLoop rest (need.filter (!·.path.isEmpty)) (Modfile.Edit.markRemoved syn rq.lineId) = res at ih' ⊢
        cases res with
        | error err => exact ih'
        | ok res =>
          obtain ⟨rs', need', syn'⟩ := res
          obtain ⟨h', hrun, R', hm⟩ := ih'
          exact ⟨h', hrun, by simpa using R', hm⟩
  | [], _ :: _, _, _, _, _, _, _, _, _, _, _, hpl, _, _ => by simp at hpl
  | _ :: _, [], _, _, _, _, _, _, _, _, _, _, hpl, _, _ => by simp at hpl

end ModVerif.Tie.FnEditSetB
