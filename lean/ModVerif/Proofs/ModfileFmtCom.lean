/-
  C02, clause 3 for the comment-derived values, part c: `Module.Deprecated` and `Retract.Rationale` survive
  formatting.

  `File.add` derives the two values from the COMMENTS of the directive's line — or, for a block line without
  comments of its own, of the enclosing block — through `parseDirectiveComment` / `parseDeprecation`.

  * `comVals` / `comStmts` — the two values, and the pure function of the statement list (verbs and comments
    only) that an error-free strict run of the directive layer computes (`add_com`, `addBlockLines_com`,
    `addStmts_com`);
  * `comStmts_norm` — that function is invariant under the normal form of the re-parse (`eraseExpr s' =
    normExprE s`: positions erased, every comment text trimmed, the end-of-line comment of a block node moved
    to its `)`): `directiveText_trim` for the texts, placeholders stay placeholders, list lengths (hence the
    line-vs-block choice of `parseDirectiveComment`) are preserved, and the moved comment belongs to a block
    without lines (`parse_blockSuf`);
  * `format_preserves_directives_com` — the `_partial2` theorem with the two values added.
-/
import ModVerif.Proofs.ModfileEolDir4
import ModVerif.Proofs.ModfileFmtComTrim
import ModVerif.Proofs.ModfileFmtComBlock
namespace ModVerif.Proofs.ModfileFmtCom
open ModVerif ModVerif.Modfile ModVerif.Proofs.ModfileFmtLex ModVerif.Proofs.ModfileFmtLine
open ModVerif.Proofs.ModfileFmtFix ModVerif.Proofs.ModfileFmtTree ModVerif.Proofs.ModfileFmtParse
open ModVerif.Proofs.ModfileFmtDir ModVerif.Proofs.ModfileFmtMain ModVerif.Proofs.ModfileEol

/-! ### the comment-derived values and the function that computes them -/

/-- the values `File.add` derives from comments: the deprecation text of the module directive (if there is a
    module directive) and the rationale of every retraction, in order -/
structure ComVals where
  deprecated : Option Bytes
  rationale : List Bytes
  deriving DecidableEq, Repr

def comVals (f : Modfile.File) : ComVals :=
  { deprecated := f.module.map (·.deprecated), rationale := f.retract.map (·.rationale) }

theorem comVals_syn (f : Modfile.File) (s : FileSyntax) : comVals { f with syn := s } = comVals f := rfl

/-- the effect of one error-free strict `File.add` step on the comment-derived values -/
def comStep (block : Option Comments) (l : Line) (verb : Bytes) (c : ComVals) : ComVals :=
  if verb == B "module" then { c with deprecated := some (parseDeprecation block l.comments) }
  else if verb == B "retract" then { c with rationale := c.rationale ++ [parseDirectiveComment block l.comments] }
  else c

theorem verb_nm : ∀ v ∈ [B "go", B "toolchain", B "godebug", B "require", B "exclude", B "replace", B "tool"],
    (v == B "module") = false ∧ (v == B "retract") = false := by decide +kernel

theorem retract_ne_module : (B "retract" == B "module") = false := by decide +kernel

local macro "com_leaves" : tactic =>
  `(tactic| ((repeat' split) <;>
      (intro he; first | exact absurd he (err_ne_nil _ _ _) | rfl | simp [comVals])))

/-- ★ one strict `File.add` step that reports no error changes the comment-derived values by `comStep` -/
theorem add_com (st : AddState) (block : Option Comments) (l : Line) (verb : Bytes) (args : List Bytes)
    (fix : Option Fixer) :
    (File.add st block l verb args fix true).1.errsRev = [] →
    comVals (File.add st block l verb args fix true).1.file = comStep block l verb (comVals st.file) := by
  unfold File.add
  dsimp only
  simp only [Bool.not_true, Bool.false_and, Bool.false_eq_true, if_false, if_true]
  have other : ∀ v ∈ [B "go", B "toolchain", B "godebug", B "require", B "exclude", B "replace", B "tool"],
      verb = v → comStep block l verb (comVals st.file) = comVals st.file := by
    intro v hv he
    subst he
    obtain ⟨h1, h2⟩ := verb_nm verb hv
    simp only [comStep, h1, h2, Bool.false_eq_true, if_false]
  by_cases h1 : (verb == B "go") = true
  · rw [if_pos h1, other _ (by simp) (eq_of_beq h1)]
    com_leaves
  rw [if_neg h1]
  by_cases h2 : (verb == B "toolchain") = true
  · rw [if_pos h2, other _ (by simp) (eq_of_beq h2)]
    com_leaves
  rw [if_neg h2]
  by_cases h3 : (verb == B "module") = true
  · rw [if_pos h3]
    simp only [comStep, h3, if_true]
    com_leaves
  rw [if_neg h3]
  by_cases h4 : (verb == B "godebug") = true
  · rw [if_pos h4, other _ (by simp) (eq_of_beq h4)]
    com_leaves
  rw [if_neg h4]
  by_cases h5 : (verb == B "require" || verb == B "exclude") = true
  · rw [if_pos h5]
    have : comStep block l verb (comVals st.file) = comVals st.file := by
      rcases Bool.or_eq_true_iff.1 h5 with h | h
      · exact other _ (by simp) (eq_of_beq h)
      · exact other _ (by simp) (eq_of_beq h)
    rw [this]
    com_leaves
  rw [if_neg h5]
  by_cases h6 : (verb == B "replace") = true
  · rw [if_pos h6, other _ (by simp) (eq_of_beq h6)]
    com_leaves
  rw [if_neg h6]
  by_cases h7 : (verb == B "retract") = true
  · rw [if_pos h7]
    have h3' : (verb == B "module") = false := by simpa using h3
    simp only [comStep, h3', h7, Bool.false_eq_true, if_false, if_true]
    com_leaves
  rw [if_neg h7]
  by_cases h8 : (verb == B "tool") = true
  · rw [if_pos h8, other _ (by simp) (eq_of_beq h8)]
    com_leaves
  rw [if_neg h8]
  intro he
  exact absurd he (err_ne_nil _ _ _)

/-- the lines of a known block -/
def comLines (block : Comments) (verb : Bytes) : ComVals → List Line → ComVals
  | c, [] => c
  | c, l :: ls => comLines block verb (comStep (some block) l verb c) ls

/-- one statement: what `addStmts` passes to `File.add` -/
def comStmt (c : ComVals) : Expr → ComVals
  | .line l =>
    match l.token with
    | verb :: _ => comStep none l verb c
    | [] => c
  | .lineBlock b =>
    match b.token with
    | [verb] => if verbIn verb blockVerbs then comLines b.comments verb c b.lines else c
    | _ => c
  | _ => c

def comStmts : ComVals → List Expr → ComVals
  | c, [] => c
  | c, s :: ss => comStmts (comStmt c s) ss

theorem addBlockLines_com (block : Comments) (verb : Bytes) (fix : Option Fixer) :
    ∀ (ls : List Line) (st st1 : AddState) (ls1 : List Line),
    addBlockLines block verb fix true st ls = (st1, ls1) → st1.errsRev = [] →
    comVals st1.file = comLines block verb (comVals st.file) ls1 := by
  intro ls
  induction ls with
  | nil =>
    intro st st1 ls1 h _
    simp only [addBlockLines, Prod.mk.injEq] at h
    obtain ⟨rfl, rfl⟩ := h
    rfl
  | cons l ls ih =>
    intro st st1 ls1 h he
    simp only [addBlockLines] at h
    cases hstep : File.add st (some block) l verb l.token fix true with
    | mk stm toks =>
      cases hrest : addBlockLines block verb fix true stm ls with
      | mk st2 ls2 =>
        simp only [hstep, hrest, Prod.mk.injEq] at h
        obtain ⟨rfl, rfl⟩ := h
        have hem : stm.errsRev = [] := by
          have := addBlockLines_errs_mono block verb fix true ls stm
          rw [hrest] at this
          exact nil_of_suffix_nil this he
        have h1 := add_com st (some block) l verb l.token fix
        rw [hstep] at h1
        have h2 := ih stm st2 ls2 hrest he
        rw [h2, h1 hem]
        rfl

/-- ★ an error-free strict run of the statement loop computes `comStmts` of the (rewritten) statement list -/
theorem addStmts_com (fix : Option Fixer) : ∀ (ss : List Expr) (st st1 : AddState) (ss1 : List Expr),
    addStmts fix true st ss = (st1, ss1) → st1.errsRev = [] →
    comVals st1.file = comStmts (comVals st.file) ss1 := by
  intro ss
  induction ss with
  | nil =>
    intro st st1 ss1 h _
    simp only [addStmts, Prod.mk.injEq] at h
    obtain ⟨rfl, rfl⟩ := h
    rfl
  | cons x xs ih =>
    intro st st1 ss1 h he
    have hem : ∀ (stm st2 : AddState) (xs2 : List Expr),
        addStmts fix true stm xs = (st2, xs2) → st2.errsRev = [] → stm.errsRev = [] := by
      intro stm st2 xs2 hr he2
      have := addStmts_errs_mono fix true xs stm
      rw [hr] at this
      exact nil_of_suffix_nil this he2
    cases x with
    | commentBlock c =>
      simp only [addStmts] at h
      cases hrest : addStmts fix true st xs with
      | mk st2 xs2 =>
        simp only [hrest, Prod.mk.injEq] at h
        obtain ⟨rfl, rfl⟩ := h
        exact ih st st2 xs2 hrest he
    | lparen c =>
      simp only [addStmts] at h
      cases hrest : addStmts fix true st xs with
      | mk st2 xs2 =>
        simp only [hrest, Prod.mk.injEq] at h
        obtain ⟨rfl, rfl⟩ := h
        exact ih st st2 xs2 hrest he
    | rparen c =>
      simp only [addStmts] at h
      cases hrest : addStmts fix true st xs with
      | mk st2 xs2 =>
        simp only [hrest, Prod.mk.injEq] at h
        obtain ⟨rfl, rfl⟩ := h
        exact ih st st2 xs2 hrest he
    | line l =>
      cases htok : l.token with
      | nil =>
        simp only [addStmts, htok] at h
        cases hrest : addStmts fix true st xs with
        | mk st2 xs2 =>
          simp only [hrest, Prod.mk.injEq] at h
          obtain ⟨rfl, rfl⟩ := h
          rw [ih st st2 xs2 hrest he]
          simp only [comStmts, comStmt, htok]
      | cons verb args =>
        simp only [addStmts, htok] at h
        cases hstep : File.add st none l verb args fix true with
        | mk stm args1 =>
          cases hrest : addStmts fix true stm xs with
          | mk st2 xs2 =>
            simp only [hstep, hrest, Prod.mk.injEq] at h
            obtain ⟨rfl, rfl⟩ := h
            have h1 := add_com st none l verb args fix
            rw [hstep] at h1
            rw [ih stm st2 xs2 hrest he, h1 (hem _ _ _ hrest he)]
            rfl
    | lineBlock b =>
      simp only [addStmts] at h
      cases hbt : b.token with
      | nil =>
        simp only [hbt, if_true] at h
        cases hrest : addStmts fix true (st.err b.start .unknownBlock) xs with
        | mk st2 xs2 =>
          simp only [hrest, Prod.mk.injEq] at h
          obtain ⟨rfl, rfl⟩ := h
          rw [ih _ st2 xs2 hrest he]
          simp only [comStmts, comStmt, hbt]
          rfl
      | cons verb rest =>
        cases rest with
        | cons r0 rs =>
          simp only [hbt, if_true] at h
          cases hrest : addStmts fix true (st.err b.start .unknownBlock) xs with
          | mk st2 xs2 =>
            simp only [hrest, Prod.mk.injEq] at h
            obtain ⟨rfl, rfl⟩ := h
            rw [ih _ st2 xs2 hrest he]
            simp only [comStmts, comStmt, hbt]
            rfl
        | nil =>
          simp only [hbt] at h
          by_cases hvb : verbIn verb blockVerbs = true
          · simp only [hvb, if_true] at h
            cases hlines : addBlockLines b.comments verb fix true st b.lines with
            | mk stm ls1 =>
              cases hrest : addStmts fix true stm xs with
              | mk st2 xs2 =>
                simp only [hlines, hrest, Prod.mk.injEq] at h
                obtain ⟨rfl, rfl⟩ := h
                rw [ih stm st2 xs2 hrest he,
                  addBlockLines_com b.comments verb fix b.lines st stm ls1 hlines (hem _ _ _ hrest he)]
                simp only [comStmts, comStmt, hvb, if_true]
          · simp only [hvb, Bool.false_eq_true, if_false, if_true] at h
            cases hrest : addStmts fix true (st.err b.start .unknownBlock) xs with
            | mk st2 xs2 =>
              simp only [hrest, Prod.mk.injEq] at h
              obtain ⟨rfl, rfl⟩ := h
              rw [ih _ st2 xs2 hrest he]
              simp only [comStmts, comStmt, hbt, hvb, Bool.false_eq_true, if_false]
              rfl

/-! ### `parseDirectiveComment` does not see the normalisation of the re-parse -/

/-- the text lines `parseDirectiveComment` extracts from a comment list: blank-line placeholders (tokens that do not
    start with `//`) are skipped -/
def dcText (cs : List Comment) : List Bytes :=
  cs.filterMap fun c => if isPrefixOfB [47, 47] c.token then some (GoStrings.trimSpace (c.token.drop 2)) else none

theorem parseDirectiveComment_eq (block : Option Comments) (line : Comments) :
    parseDirectiveComment block line =
      GoStrings.join (dcText (match block with
        | some bc => if line.before.isEmpty && line.suffix.isEmpty then bc.before ++ bc.suffix
                     else line.before ++ line.suffix
        | none => line.before ++ line.suffix)) [10] := by
  unfold parseDirectiveComment dcText
  cases block with
  | none => rfl
  | some bc =>
    simp only
    split <;> rfl

/-- a blank-line placeholder or a `//` text -/
def ComOK (c : Comment) : Prop := c.token = [] ∨ CommentOK c.token

theorem dcText_rel : ∀ (cs' cs : List Comment), cs'.map eraseC = cs.map normC → (∀ c ∈ cs, ComOK c) →
    dcText cs' = dcText cs := by
  intro cs'
  induction cs' with
  | nil =>
    intro cs h _
    have : cs = [] := by simpa using h.symm
    subst this; rfl
  | cons c' cs' ih =>
    intro cs h hok
    cases cs with
    | nil => simp at h
    | cons c cs =>
      simp only [List.map_cons, List.cons.injEq] at h
      obtain ⟨hc, hrest⟩ := h
      have ht : c'.token = GoStrings.trimSpace c.token := by
        have := congrArg Comment.token hc
        simpa [eraseC, normC] using this
      have ih' := ih cs hrest (fun d hd => hok d (by simp [hd]))
      unfold dcText at ih' ⊢
      simp only [List.filterMap_cons, ih', ht]
      rcases hok c (by simp) with h0 | h0
      · rw [h0, ModfileFmtTrim.trimSpace_nil]
      · rw [slashes_trim h0, h0.1, directiveText_trim h0]

/-- the `Before` and `Suffix` lists of a re-parsed node against those of the node that was printed -/
def CsRel (cs' cs : Comments) : Prop :=
  cs'.before.map eraseC = cs.before.map normC ∧ cs'.suffix.map eraseC = cs.suffix.map normC

def CsOK (cs : Comments) : Prop := (∀ c ∈ cs.before, ComOK c) ∧ (∀ c ∈ cs.suffix, ComOK c)

theorem isEmpty_of_map {α β γ} {f : α → γ} {g : β → γ} {a : List α} {b : List β} (h : a.map f = b.map g) :
    a.isEmpty = b.isEmpty := by
  cases a <;> cases b <;> simp_all

theorem dcText_append_rel {cs' cs : Comments} (h : CsRel cs' cs) (hok : CsOK cs) :
    dcText (cs'.before ++ cs'.suffix) = dcText (cs.before ++ cs.suffix) := by
  apply dcText_rel
  · rw [List.map_append, List.map_append, h.1, h.2]
  · intro c hc
    rcases List.mem_append.1 hc with h1 | h1
    · exact hok.1 c h1
    · exact hok.2 c h1

/-- the relation between the block comments seen by the two runs: none, or related and well-formed -/
def BlkRel : Option Comments → Option Comments → Prop
  | none, none => True
  | some b', some b => CsRel b' b ∧ CsOK b
  | _, _ => False

/-- ★ `parseDirectiveComment` gives the same text for the re-parsed line as for the printed one: the line-vs-block
    choice depends on list lengths only, placeholders are skipped on both sides, and `directiveText_trim` -/
theorem parseDirectiveComment_rel {ob' ob : Option Comments} {cs' cs : Comments} (hb : BlkRel ob' ob)
    (h : CsRel cs' cs) (hok : CsOK cs) : parseDirectiveComment ob' cs' = parseDirectiveComment ob cs := by
  rw [parseDirectiveComment_eq, parseDirectiveComment_eq]
  congr 1
  cases ob' with
  | none =>
    cases ob with
    | none => exact dcText_append_rel h hok
    | some b => exact absurd hb id
  | some b' =>
    cases ob with
    | none => exact absurd hb id
    | some b =>
      simp only
      rw [isEmpty_of_map h.1, isEmpty_of_map h.2]
      split
      · exact dcText_append_rel hb.1 hb.2
      · exact dcText_append_rel h hok

theorem comStep_rel {ob' ob : Option Comments} {l' l : Line} (hb : BlkRel ob' ob)
    (h : CsRel l'.comments l.comments) (hok : CsOK l.comments) (verb : Bytes) (c : ComVals) :
    comStep ob' l' verb c = comStep ob l verb c := by
  unfold comStep parseDeprecation
  rw [parseDirectiveComment_rel hb h hok]

/-! ### the shape invariants give `CsOK` -/

theorem topBefore_comOK {cs : List Comment} (h : TopBeforeOK cs) : ∀ c ∈ cs, ComOK c :=
  fun c hc => Or.inr (h c hc).2

theorem blkBefore_comOK : ∀ (cs : List Comment) (allow : Bool), BlkBeforeOK allow cs → ∀ c ∈ cs, ComOK c := by
  intro cs
  induction cs with
  | nil => intro _ _ c hc; simp at hc
  | cons c0 cs ih =>
    intro allow h c hc
    unfold BlkBeforeOK at h
    by_cases he : c0.token.isEmpty = true
    · simp only [he, if_true] at h
      rcases List.mem_cons.1 hc with rfl | hc
      · exact Or.inl (by simpa using he)
      · exact ih false h.2.2 c hc
    · simp only [he, Bool.false_eq_true, if_false] at h
      rcases List.mem_cons.1 hc with rfl | hc
      · exact Or.inr h.2.1
      · exact ih true h.2.2 c hc

theorem sufOK_comOK {cs : List Comment} (h : SufOK cs) : ∀ c ∈ cs, ComOK c :=
  fun c hc => Or.inr (h.2 c hc).1

theorem csRel_of_line {l' l : Line} (h : eraseLine l' = normLine l) : CsRel l'.comments l.comments := by
  have h1 := congrArg (fun x : Line => x.comments.before) h
  have h2 := congrArg (fun x : Line => x.comments.suffix) h
  exact ⟨by simpa [eraseLine, normLine, eraseCs, normCs] using h1,
    by simpa [eraseLine, normLine, eraseCs, normCs] using h2⟩

theorem comLines_rel {bc' bc : Comments} (hb : CsRel bc' bc ∧ CsOK bc) (verb : Bytes) :
    ∀ (ls' ls : List Line) (allow : Bool) (c : ComVals), ls'.map eraseLine = ls.map normLine → EWFBlkLines allow ls →
      comLines bc' verb c ls' = comLines bc verb c ls := by
  intro ls'
  induction ls' with
  | nil =>
    intro ls _ c h _
    have : ls = [] := by simpa using h.symm
    subst this; rfl
  | cons l' ls' ih =>
    intro ls allow c h hwf
    cases ls with
    | nil => simp at h
    | cons l ls =>
      simp only [List.map_cons, List.cons.injEq] at h
      obtain ⟨hl, hrest⟩ := h
      obtain ⟨hwl, hwls⟩ := hwf
      simp only [comLines]
      rw [comStep_rel (ob' := some bc') (ob := some bc) hb (csRel_of_line hl)
        ⟨blkBefore_comOK _ _ hwl.before, sufOK_comOK hwl.suffix⟩]
      exact ih ls true _ hrest hwls

/-- ★ one statement of the re-parsed tree gives the same comment-derived values as the statement that was printed -/
theorem comStmt_norm (c : ComVals) (s' s : Expr) (h : eraseExpr s' = normExprE s) (hwf : EWFStmt s)
    (hbs : BlockSuf s) : comStmt c s' = comStmt c s := by
  cases s with
  | commentBlock x =>
    cases s' with
    | commentBlock x' => rfl
    | line _ => simp [eraseExpr, normExprE, normExpr] at h
    | lineBlock _ => simp [eraseExpr, normExprE, normExpr] at h
    | lparen _ => simp [eraseExpr, normExprE, normExpr] at h
    | rparen _ => simp [eraseExpr, normExprE, normExpr] at h
  | lparen x => exact absurd hwf id
  | rparen x => exact absurd hwf id
  | line l =>
    have hl : EWFLine l := hwf
    cases s' with
    | line l' =>
      simp only [eraseExpr, normExprE, normExpr, Expr.line.injEq] at h
      have htok : l'.token = l.token := by
        have := congrArg Line.token h
        simpa [eraseLine, normLine] using this
      simp only [comStmt, htok]
      split
      · exact comStep_rel (ob' := none) (ob := none) trivial (csRel_of_line h)
          ⟨topBefore_comOK hl.before, sufOK_comOK hl.suffix⟩ _ c
      · rfl
    | commentBlock _ => simp [eraseExpr, normExprE, normExpr] at h
    | lineBlock _ => simp [eraseExpr, normExprE, normExpr] at h
    | lparen _ => simp [eraseExpr, normExprE, normExpr] at h
    | rparen _ => simp [eraseExpr, normExprE, normExpr] at h
  | lineBlock b =>
    have hb : EWFBlock b := hwf
    cases s' with
    | lineBlock b' =>
      simp only [eraseExpr, normExprE, Expr.lineBlock.injEq] at h
      have htok : b'.token = b.token := by
        have := congrArg LineBlock.token h
        simpa [eraseBlock, normBlockE] using this
      have hlines : b'.lines.map eraseLine = b.lines.map normLine := by
        have := congrArg LineBlock.lines h
        simpa [eraseBlock, normBlockE] using this
      have hbef : b'.comments.before.map eraseC = b.comments.before.map normC := by
        have := congrArg (fun x : LineBlock => x.comments.before) h
        simpa [eraseBlock, normBlockE, eraseCs] using this
      have hsuf' : b'.comments.suffix = [] := by
        have := congrArg (fun x : LineBlock => x.comments.suffix) h
        simpa [eraseBlock, normBlockE, eraseCs] using this
      simp only [comStmt, htok]
      split
      · split
        · by_cases hne : b.lines = []
          · have : b'.lines = [] := by
              rw [hne] at hlines; simpa using hlines
            rw [hne, this]; rfl
          · have hsuf : b.comments.suffix = [] := by
              by_cases hs : b.comments.suffix = []
              · exact hs
              · exact absurd (hbs hs) hne
            apply comLines_rel (bc' := b'.comments) (bc := b.comments) _ _ _ _ false c hlines hb.lines
            refine ⟨⟨hbef, by rw [hsuf', hsuf]; rfl⟩, topBefore_comOK hb.before, ?_⟩
            rw [hsuf]; intro c hc; cases hc
        · rfl
      · rfl
    | commentBlock _ => simp [eraseExpr, normExprE] at h
    | line _ => simp [eraseExpr, normExprE] at h
    | lparen _ => simp [eraseExpr, normExprE] at h
    | rparen _ => simp [eraseExpr, normExprE] at h

/-- ★ the comment-derived values of the re-parsed statement list are those of the list that was printed -/
theorem comStmts_norm : ∀ (ss' ss : List Expr) (c : ComVals), ss'.map eraseExpr = ss.map normExprE → EWFStmts ss →
    (∀ s ∈ ss, BlockSuf s) → comStmts c ss' = comStmts c ss := by
  intro ss'
  induction ss' with
  | nil =>
    intro ss c h _ _
    have : ss = [] := by simpa using h.symm
    subst this; rfl
  | cons s' ss' ih =>
    intro ss c h hwf hbs
    cases ss with
    | nil => simp at h
    | cons s ss =>
      simp only [List.map_cons, List.cons.injEq] at h
      obtain ⟨hs, hrest⟩ := h
      simp only [comStmts]
      rw [comStmt_norm c s' s hs (hwf s (by simp)) (hbs s (by simp))]
      exact ih ss _ hrest (fun x hx => hwf x (by simp [hx])) (fun x hx => hbs x (by simp [hx]))

/-! ### the directive layer rewrites tokens only -/

theorem blockSuf_noTok (s : Expr) : BlockSuf (noTok s) ↔ BlockSuf s := by
  cases s with
  | lineBlock b =>
    simp only [noTok, BlockSuf, List.map_eq_nil_iff]
  | line l => exact Iff.rfl
  | commentBlock x => exact Iff.rfl
  | lparen x => exact Iff.rfl
  | rparen x => exact Iff.rfl

theorem blockSuf_of_noTok {ss ss1 : List Expr} (h : ss1.map noTok = ss.map noTok) (hc : ∀ s ∈ ss, BlockSuf s) :
    ∀ s ∈ ss1, BlockSuf s := by
  intro s hs
  have : noTok s ∈ ss.map noTok := by rw [← h]; exact List.mem_map_of_mem hs
  obtain ⟨s0, hs0, heq⟩ := List.mem_map.1 this
  rw [← blockSuf_noTok, ← heq, blockSuf_noTok]
  exact hc s0 hs0

/-! ### the main theorem -/

/-- ★ `format_preserves_directives` (strict go.mod) WITH the comment-derived values: if the strict parser accepts
    `x` as the well-formed file `f` whose syntax tree satisfies `EolCount`, then it accepts `Format(f.Syntax)` as a
    file with the same directive values (`values`: module path, go, toolchain, godebug, require with the indirect
    flag, exclude, replace, retract intervals, tool) AND the same `Module.Deprecated` text and `Retract.Rationale`
    texts (`comVals`) — without a fixer, or with a fixer that is idempotent on its image and never returns the empty
    string, provided the file has no `retract` directive in that case. -/
theorem format_preserves_directives_com (name x : Bytes) (fix : Option Fixer) (f : Modfile.File)
    (h : parseToFile name x fix true = .ok f) (hc : EolCount f.syn) (hwf : WellFormed f)
    (hfix : FixOK fix) (hne : FixNE fix) (hret : fix ≠ none → f.retract = []) :
    ∃ f', parseToFile name (format f.syn) fix true = .ok f' ∧ values f' = values f ∧ comVals f' = comVals f := by
  unfold parseToFile at h
  cases hp : parse name x with
  | error e => simp [hp] at h
  | ok fs =>
    simp only [hp] at h
    cases ha : addStmts fix true { file := { syn := fs } } fs.stmts with
    | mk st stmts =>
      simp only [ha] at h
      -- the state before `fixRetract`
      generalize hst2 : ({ st with file := { st.file with syn := { fs with stmts := stmts } } } : AddState) = st2 at h
      have hfr : fixRetract st2 fix = st2 := by
        rcases fixRetract_cases st2 fix with h0 | ⟨hfn, h1⟩
        · exact h0
        · exfalso
          split at h
          · rename_i hemp
            simp only [Except.ok.injEq] at h
            rcases h1 with h1 | h1
            · exact h1 (by simpa using hemp)
            · rw [h] at h1
              exact h1 (hret hfn)
          · cases h
      rw [hfr] at h
      split at h
      · rename_i hemp
        simp only [Except.ok.injEq] at h
        have he2 : st2.errsRev = [] := by simpa using hemp
        have hest : st.errsRev = [] := by rw [← hst2] at he2; exact he2
        have hf : f = { st.file with syn := { fs with stmts := stmts } } := by rw [← h, ← hst2]
        have hsyn : f.syn = { fs with stmts := stmts } := by rw [hf]
        -- the counting condition holds for the tree of the first parse as well (same comments)
        have hstm : stmts = (addStmts fix true { file := { syn := fs } } fs.stmts).2 := by rw [ha]
        have hnt : stmts.map noTok = fs.stmts.map noTok := by rw [hstm]; exact addStmts_noTok fix true fs.stmts _
        have hcfs : EolCount fs := by
          refine ⟨by have := hc.header; rw [hsyn] at this; exact this, ?_⟩
          apply count_of_noTok (ss1 := stmts) hnt
          have := hc.stmts; rw [hsyn] at this; exact this
        obtain ⟨hwfs, hnls, hcm, hn⟩ := parse_ewf hp (eolOK_of_count hp hcfs)
        have hwfst : WellFormed st.file := by
          rw [hf] at hwf
          exact wellFormed_syn _ hwf
        obtain ⟨hw1, hn1, _, _, hrep⟩ := addStmts_replayE fix hfix hne fs.stmts _ st stmts ha hest hwfst hwfs hnls
        -- the tree that is formatted
        have hsynw : EWFStmts f.syn.stmts := by rw [hsyn]; exact hw1
        have hsynn : ∀ s ∈ f.syn.stmts, NlOK s := by rw [hsyn]; exact hn1
        have hsync : f.syn.comments.before = [] := by rw [hsyn]; simp [hcm]
        obtain ⟨t', hp', het'⟩ := reparse_ewf name f.syn hsynw hsynn hsync
        have hrel : t'.stmts.map eraseExpr = stmts.map normExprE := by
          have := congrArg FileSyntax.stmts het'
          simpa [eraseFile, hsyn] using this
        have hsim0 : Sim ({ file := { syn := fs } } : AddState) ({ file := { syn := t' } } : AddState) :=
          ⟨rfl, rfl, rfl⟩
        obtain ⟨st1', ha', hsim'⟩ := hrep _ t'.stmts hsim0 hrel
        -- the comment-derived values of the two runs
        have hbs : ∀ s ∈ stmts, BlockSuf s := blockSuf_of_noTok hnt (parse_blockSuf hp)
        have hcom1 : comVals st.file = comStmts ⟨none, []⟩ stmts :=
          addStmts_com fix fs.stmts _ st stmts ha hest
        have hcom2 : comVals st1'.file = comStmts ⟨none, []⟩ t'.stmts :=
          addStmts_com fix t'.stmts _ st1' t'.stmts ha' hsim'.errs'
        have hcom : comVals st1'.file = comVals st.file := by
          rw [hcom1, hcom2]
          exact comStmts_norm t'.stmts stmts _ hrel hw1 hbs
        -- the second run
        have hret' : fix ≠ none → st1'.file.retract = [] := by
          intro hfn
          have h1 := hret hfn
          rw [hf] at h1
          have h2 := congrArg Values.retract hsim'.vals
          simp only [values] at h2
          have : st.file.retract = [] := h1
          rw [this] at h2
          simpa using h2.symm
        refine ⟨{ st1'.file with syn := { t' with stmts := t'.stmts } }, ?_, ?_, ?_⟩
        · unfold parseToFile
          simp only [hp', ha']
          have hfr' : fixRetract { st1' with file := { st1'.file with syn := { t' with stmts := t'.stmts } } } fix =
              { st1' with file := { st1'.file with syn := { t' with stmts := t'.stmts } } } := by
            rcases fixRetract_cases { st1' with file := { st1'.file with syn := { t' with stmts := t'.stmts } } } fix with
              h0 | ⟨hfn, _⟩
            · exact h0
            · cases fix with
              | none => exact absurd rfl hfn
              | some fx =>
                unfold fixRetract
                simp only [hret' hfn]
          rw [hfr']
          simp [hsim'.errs']
        · rw [values_syn, ← hsim'.vals, hf]
          rfl
        · rw [comVals_syn, hcom, hf]
          rfl
      · cases h

end ModVerif.Proofs.ModfileFmtCom
