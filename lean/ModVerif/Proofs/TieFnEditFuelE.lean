/-
  Closed fuel of the FnEdit session ties, part E (agent edit-fuel): the bulk setter `File.SetRequire`.  Its fuel
  `fuelSetRequire` is defined through the states the model passes through; along the growth lemmas of parts A–C:
  `setRequireLoop_W` (the loop over the existing entries keeps `treeW + Σ_need wantW`), `addAll_W`, `fuel3_le`.
-/
import ModVerif.Proofs.TieFnEditFuelD
set_option linter.unusedSimpArgs false
set_option linter.unusedVariables false
namespace ModVerif.Tie.FnEditFuelE
open ModVerif ModVerif.Modfile ModVerif.Tie.FnEditFuelA ModVerif.Tie.FnEditFuelB ModVerif.Tie.FnEditFuelC ModVerif.Tie.FnEditFuelD
open ModVerif.Tie.FnEditSessionA ModVerif.Tie.FnEditSessionB ModVerif.Tie.FnEditSessionC ModVerif.Tie.FnEditSessionE
open ModVerif.TieFnEditAddLine (nodeCount)
open ModVerif.Tie.FnEditSortE (sortFuel goLen)
open ModVerif.Tie.FnEditReqE (modPath)
open ModVerif.Tie.FnEditSetB (withRS)
open ModVerif.Tie.FnEditSetC (fuelSetRequire fuel3 addAll)
open ModVerif.Tie.FnEditSet (addNewFuel)
open ModVerif.Modfile.Edit (EFile EditErr Want applyMod treeIds setRequireLoop needMap)

/-- what one request may add to the potential and to the fuel -/
def wantW (w : Want) : Nat := 2 * (autoQuote w.path).length + 2 * w.vers.length + w.path.length + 21

def wantsW (ws : List Want) : Nat := (ws.map wantW).sum

@[simp] theorem wantsW_nil : wantsW [] = 0 := rfl
@[simp] theorem wantsW_cons (w : Want) (ws : List Want) : wantsW (w :: ws) = wantW w + wantsW ws := by simp [wantsW]

theorem wantsW_filter_le (q : Want → Bool) : ∀ ws : List Want, wantsW (ws.filter q) ≤ wantsW ws
  | [] => Nat.le_refl _
  | w :: ws => by
    have := wantsW_filter_le q ws
    by_cases h : q w <;> simp [List.filter_cons, h] <;> omega

theorem wantsW_filter_mem (q : Want → Bool) : ∀ (ws : List Want) (w : Want), w ∈ ws → q w = false →
    wantsW (ws.filter q) + wantW w ≤ wantsW ws
  | a :: ws, w, hm, hq => by
    rcases List.mem_cons.1 hm with rfl | hm
    · have := wantsW_filter_le q ws
      simp [List.filter_cons, hq]; omega
    · have := wantsW_filter_mem q ws w hm hq
      by_cases h : q a <;> simp [List.filter_cons, h] <;> omega

theorem setVersionLine_lineW (v : Bytes) (l : Line) : lineW (Edit.setVersionLine v l) ≤ lineW l + 2 * v.length := by
  unfold Edit.setVersionLine
  split
  · omega
  · split
    · simp only []
      split
      · split
        · split
          · have := tokW_set_le l.token 1 v; simp only [lineW]; omega
          · simp only [lineW]; omega
        · split
          · have := tokW_set_le l.token 1 v; simp only [lineW]; omega
          · omega
      · split
        · have := tokW_set_le l.token 1 v; simp only [lineW]; omega
        · omega
    · split
      · have := tokW_set_le l.token 2 v; simp only [lineW]; omega
      · omega

theorem keepLine_lineW (w : Want) (l : Line) :
    lineW (Edit.setIndirectLine w.indirect (Edit.setVersionLine w.vers l)) ≤ lineW l + 2 * w.vers.length := by
  have := setVersionLine_lineW w.vers l
  simp only [lineW, setIndirectLine_token] at *
  exact this

theorem setVersionLine_id (v : Bytes) (l : Line) : (Edit.setVersionLine v l).id = l.id := by
  unfold Edit.setVersionLine
  split
  · rfl
  · split
    · simp only []
      split
      · split
        · split <;> rfl
        · split <;> rfl
      · split <;> rfl
    · split <;> rfl

theorem setIndirectLine_id (b : Bool) (l : Line) : (Edit.setIndirectLine b l).id = l.id := by
  unfold Edit.setIndirectLine
  split
  · rfl
  · split
    · split <;> rfl
    · split
      · rfl
      · simp only []
        split <;> rfl

/-- **the loop of SetRequire over the existing entries**: same number of entries, the same line ids, and the potential
    `treeW + Σ_need wantW` does not increase -/
theorem setRequireLoop_W : ∀ (rs : List Require) (need : List Want) (syn : FileSyntax) (rq : List Require) (need' : List Want)
    (syn' : FileSyntax), (treeIds syn.stmts).Nodup → setRequireLoop rs need syn = .ok (rq, need', syn') →
    rq.length = rs.length ∧ treeW syn'.stmts + wantsW need' ≤ treeW syn.stmts + wantsW need
  | [], need, syn, rq, need', syn', hn, h => by
    simp only [setRequireLoop, Except.ok.injEq, Prod.mk.injEq] at h
    obtain ⟨rfl, rfl, rfl⟩ := h
    exact ⟨rfl, Nat.le_refl _⟩
  | r :: rs, need, syn, rq, need', syn', hn, h => by
    unfold setRequireLoop at h
    split at h
    · rename_i w hw
      cases hd : Edit.deref r.lineId with
      | error err => simp [hd, bind, Except.bind] at h
      | ok i =>
        simp only [hd, bind, Except.bind] at h
        have hg : ∀ l, (Edit.setIndirectLine w.indirect (Edit.setVersionLine w.vers l)).id = l.id := fun l => by
          rw [setIndirectLine_id, setVersionLine_id]
        have hn1 : (treeIds (syn.updateLine i (fun l => Edit.setIndirectLine w.indirect (Edit.setVersionLine w.vers l))).stmts).Nodup := by
          rw [Edit.treeIds_updateLine syn i _ hn hg]; exact hn
        have hw1 := updateLine_treeW syn i (fun l => Edit.setIndirectLine w.indirect (Edit.setVersionLine w.vers l)) (2 * w.vers.length)
          (keepLine_lineW w) hn
        cases hr : setRequireLoop rs (need.filter (·.path != r.mod.path))
            (syn.updateLine i (fun l => Edit.setIndirectLine w.indirect (Edit.setVersionLine w.vers l))) with
        | error err => simp [hr] at h
        | ok t =>
          obtain ⟨rs', nd, sy⟩ := t
          obtain ⟨i1, i2⟩ := setRequireLoop_W rs _ _ rs' nd sy hn1 hr
          simp only [hr, pure, Except.pure, Except.ok.injEq, Prod.mk.injEq] at h
          obtain ⟨rfl, rfl, rfl⟩ := h
          have hmem := List.mem_of_find?_eq_some hw
          have hp := List.find?_some hw
          have hq : (fun a : Want => a.path != r.mod.path) w = false := by
            simp only [bne_eq_false_iff_eq]; exact eq_of_beq hp
          have h3 := wantsW_filter_mem (fun a : Want => a.path != r.mod.path) need w hmem hq
          refine ⟨by simp [i1], ?_⟩
          have : 2 * w.vers.length ≤ wantW w := by unfold wantW; omega
          omega
    · cases hd : Edit.deref r.lineId with
      | error err => simp [hd, bind, Except.bind] at h
      | ok i =>
        simp only [hd, bind, Except.bind] at h
        have hn1 : (treeIds (Edit.markRemoved syn i).stmts).Nodup := by
          rw [Edit.treeIds_markRemoved syn i hn]; exact hn
        have hw1 := markRemoved_treeW syn i
        cases hr : setRequireLoop rs (need.filter (!·.path.isEmpty)) (Edit.markRemoved syn i) with
        | error err => simp [hr] at h
        | ok t =>
          obtain ⟨rs', nd, sy⟩ := t
          obtain ⟨i1, i2⟩ := setRequireLoop_W rs _ _ rs' nd sy hn1 hr
          simp only [hr, pure, Except.pure, Except.ok.injEq, Prod.mk.injEq] at h
          obtain ⟨rfl, rfl, rfl⟩ := h
          have h3 := wantsW_filter_le (fun a : Want => !a.path.isEmpty) need
          refine ⟨by simp [i1], ?_⟩
          omega

theorem addNewRequire_wantW (e : EFile) (w : Want) : W (Edit.addNewRequire e w.path w.vers w.indirect) + w.path.length + 1 ≤ W e + wantW w := by
  have := addNewRequire_W e w.path w.vers w.indirect
  unfold wantW; omega

theorem addAll_W : ∀ (ws : List Want) (e : EFile), W (addAll e ws) ≤ W e + wantsW ws
  | [], e => by simp
  | w :: ws, e => by
    have h1 := addAll_W ws (Edit.addNewRequire e w.path w.vers w.indirect)
    have h2 := addNewRequire_wantW e w
    simp only [FnEditSetC.addAll_cons, wantsW_cons]; omega

theorem fuel3_le : ∀ (ws : List Want) (e : EFile), fuel3 addNewFuel e ws ≤ W e + wantsW ws + 4
  | [], e => by simp [fuel3]
  | w :: ws, e => by
    have h1 := fuel3_le ws (Edit.addNewRequire e w.path w.vers w.indirect)
    have h2 := addNewRequire_wantW e w
    have h3 := nodeCount_le_W e
    simp only [fuel3, addNewFuel, wantsW_cons]
    have : w.path.length + 1 ≤ wantW w := by unfold wantW; omega
    omega

theorem wantsW_toWant : ∀ l : List EditSpec.Req, wantsW (l.map toWant) + l.length ≤ 2 * (l.map reqSize).sum
  | [] => by simp
  | r :: l => by
    have := wantsW_toWant l
    have h1 : wantW (toWant r) + 1 ≤ 2 * reqSize r := by
      simp only [wantW, reqSize, qsz, toWant, Drv.Edit.M.toWant]; omega
    simp only [List.map_cons, wantsW_cons, List.sum_cons, List.length_cons]; omega

theorem needMap_good {req : List Want} (hg : Edit.GoodWant req) (s : Bool) : needMap s req [] = .ok req := by
  have := Edit.needMap_distinct s req [] (by simpa using hg.1)
  simpa using this

theorem W_withRS (e : EFile) (rq : List Require) (syn : FileSyntax) (hl : rq.length = e.f.require.length) :
    W (withRS e rq syn) + treeW e.f.syn.stmts = W e + treeW syn.stmts := by
  simp only [W, listsW, goLen, modPath, withRS, hl]; omega

/-- **fuel demand of `File.SetRequire`** (distinct request paths, pairwise different line ids) -/
theorem setRequire_stepFuel_le (e : EFile) (l : List EditSpec.Req) (hn : (treeIds e.f.syn.stmts).Nodup)
    (hg : Edit.GoodWant (l.map toWant)) : stepFuel e (.setRequire l) ≤ 3 * (W e + G (.setRequire l)) := by
  have hs := wantsW_toWant l
  have hl : e.f.require.length ≤ W e := by unfold W listsW; omega
  simp only [stepFuel, fuelSetRequire, needMap_good hg, G, opSize, List.length_map]
  cases hr : setRequireLoop e.f.require (l.map toWant) e.f.syn with
  | error err => simp only []; omega
  | ok t =>
    obtain ⟨rq, need', syn⟩ := t
    obtain ⟨i1, i2⟩ := setRequireLoop_W _ _ _ _ _ _ hn hr
    have hw := W_withRS e rq syn i1
    have h3 := fuel3_le need' (withRS e rq syn)
    have h4 := sortFuel_le (addAll (withRS e rq syn) need')
    have h5 := addAll_W need' (withRS e rq syn)
    simp only []
    omega

/-- **growth of the potential under `File.SetRequire`** -/
theorem setRequire_W (e e' : EFile) (l : List EditSpec.Req) (hn : (treeIds e.f.syn.stmts).Nodup)
    (hg : Edit.GoodWant (l.map toWant)) (h : Edit.setRequire e (l.map toWant) (Edit.permOf false) = .ok e') :
    W e' ≤ W e + G (.setRequire l) := by
  have hs := wantsW_toWant l
  unfold Edit.setRequire at h
  simp only [bind, Except.bind, needMap_good hg] at h
  cases hr : setRequireLoop e.f.require (l.map toWant) e.f.syn with
  | error err => simp [hr] at h
  | ok t =>
    obtain ⟨rq, need', syn⟩ := t
    obtain ⟨i1, i2⟩ := setRequireLoop_W _ _ _ _ _ _ hn hr
    have hw := W_withRS e rq syn i1
    simp only [hr, pure, Except.pure, Except.ok.injEq, Edit.permOf, Bool.false_eq_true, if_false] at h
    subst h
    have h5 := addAll_W need' (withRS e rq syn)
    have h6 := sortBlocks_W (addAll (withRS e rq syn) need')
    simp only [addAll, withRS, G, opSize] at *
    omega

/-! ### sessions with `SetRequire` -/

/-- the operation is not `SetRequireSeparateIndirect` -/
def NotSep : EditSpec.Op → Prop
  | .setRequireSeparateIndirect _ => False
  | _ => True

theorem notBulk_or (op : EditSpec.Op) (hb : NotSep op) : NotBulk op ∨ ∃ l, op = .setRequire l := by
  cases op <;> first | exact Or.inl trivial | exact Or.inr ⟨_, rfl⟩ | exact hb.elim

theorem stepFuel_le' (e : EFile) (op : EditSpec.Op) (hb : NotSep op) (hn : (treeIds e.f.syn.stmts).Nodup)
    (hv : Edit.ValidArgsLive e (opM op)) : stepFuel e op ≤ 3 * (W e + G op) := by
  rcases notBulk_or op hb with h | ⟨l, rfl⟩
  · exact stepFuel_le e op h
  · exact setRequire_stepFuel_le e l hn hv.1

theorem applyMod_W' (e e' : EFile) (op : EditSpec.Op) (hb : NotSep op) (hn : (treeIds e.f.syn.stmts).Nodup)
    (hv : Edit.ValidArgsLive e (opM op)) (h : applyMod e (opM op) = some (.ok e')) : W e' ≤ W e + G op := by
  rcases notBulk_or op hb with h1 | ⟨l, rfl⟩
  · exact applyMod_W e e' op h1 hn h
  · simp only [opM, opR, applyMod, Option.some.injEq] at h
    exact setRequire_W e e' l hn hv.1 h

/-- **the fuel of every step of the model run from the initial potential and the operation sizes** (with `SetRequire`) -/
theorem fuelOK_of_W' (fuel : Nat) : ∀ (ops : List EditSpec.Op) (e : EFile), Edit.P.Inv e → Edit.RunValidLive e (ops.map opM) →
    (∀ op ∈ ops, NotSep op) → 3 * (W e + opsG ops) ≤ fuel → FuelOK fuel e ops
  | [], _, _, _, _, _ => trivial
  | op :: ops, e, hi, hv, hb, hf => by
    obtain ⟨hargs, hvn, hvr⟩ := hv
    have hb1 : NotSep op := hb op List.mem_cons_self
    have hb2 : ∀ o ∈ ops, NotSep o := fun o ho => hb o (List.mem_cons_of_mem _ ho)
    simp only [opsG_cons] at hf
    refine ⟨?_, ?_, ?_⟩
    · have := stepFuel_le' e op hb1 hi.tree.nodup hargs; omega
    · intro e' hx
      have hw := applyMod_W' e e' op hb1 hi.tree.nodup hargs hx
      exact fuelOK_of_W' fuel ops e' (Edit.P.applyMod_inv_all e e' _ hargs hi hx) (hvn e' hx) hb2 (by omega)
    · intro err hx hr
      exact fuelOK_of_W' fuel ops e hi (hvr err hx hr) hb2 (by omega)

theorem run_W' : ∀ (ops : List EditSpec.Op) (e : EFile) (acc : List Bool) (i : Nat) (e' : EFile) (res : List Bool),
    Edit.P.Inv e → Edit.RunValidLive e (ops.map opM) → (∀ op ∈ ops, NotSep op) →
    Edit.runOps applyMod e (ops.map opM) acc i = .done e' res → W e' ≤ W e + opsG ops
  | [], e, acc, i, e', res, _, _, _, h => by
    simp only [List.map_nil, Edit.runOps, Edit.SessionResult.done.injEq] at h
    rw [← h.1]; simp
  | op :: ops, e, acc, i, e', res, hi, hv, hb, h => by
    obtain ⟨hargs, hvn, hvr⟩ := hv
    have hb1 : NotSep op := hb op List.mem_cons_self
    have hb2 : ∀ o ∈ ops, NotSep o := fun o ho => hb o (List.mem_cons_of_mem _ ho)
    simp only [List.map_cons, Edit.runOps] at h
    simp only [opsG_cons]
    cases hx : applyMod e (opM op) with
    | none => rw [hx] at h; cases h
    | some x =>
      cases x with
      | ok e1 =>
        rw [hx] at h
        have hw := applyMod_W' e e1 op hb1 hi.tree.nodup hargs hx
        have := run_W' ops e1 _ _ e' res (Edit.P.applyMod_inv_all e e1 _ hargs hi hx) (hvn e1 hx) hb2 h
        omega
      | error err =>
        rw [hx] at h
        simp only [] at h
        split at h
        · rename_i hr
          have := run_W' ops e _ _ e' res hi (hvr err hx hr) hb2 h
          omega
        · cases h

theorem finalFuel_of_W' (fuel : Nat) (ops : List EditSpec.Op) (e : EFile) (hi : Edit.P.Inv e)
    (hv : Edit.RunValidLive e (ops.map opM)) (hb : ∀ op ∈ ops, NotSep op) (hf : W e + opsG ops + 1 ≤ fuel) :
    FinalFuel fuel e ops := by
  intro e' res hx
  have h1 := run_W' ops e [] 0 e' res hi hv hb hx
  have h2 := cleanupFuel_le e'
  omega

end ModVerif.Tie.FnEditFuelE
