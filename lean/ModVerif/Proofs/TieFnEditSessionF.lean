/-
  Composition of the FnEdit ties, part F (agent edit-session): what `Drv.GenEdit.runOps … = .done` says about every single
  step — the regenerated operation returned normally (`.ok (some b, _)`: nil or a Go `error`), it did not fail with `Err.panic`
  (nor any other `Err`) — the driver-side counterpart of `Edit.P.done_no_panic`.
-/
import ModVerif.Drv.GenEdit
set_option linter.unusedSimpArgs false
set_option linter.unusedVariables false
namespace ModVerif.Tie.FnEditSessionF
open ModVerif ModVerif.GoRt ModVerif.Generated.Edit
open ModVerif.Drv.GenEdit (applyOp Run)

theorem genDone_steps (fuel : Nat) (fp : Int) : ∀ (ops : List EditSpec.Op) (h : Heap) (acc : List Bool) (h' : Heap) (res : List Bool),
    Drv.GenEdit.runOps fuel fp h ops acc = .done h' res →
    ∀ (pre : List EditSpec.Op) (op : EditSpec.Op) (post : List EditSpec.Op), ops = pre ++ op :: post →
      ∃ h1 r1, Drv.GenEdit.runOps fuel fp h pre acc = .done h1 r1 ∧ ∃ b h2, applyOp fuel fp h1 op = .ok (some b, h2)
  | [], h, acc, h', res, _, pre, op, post, hs => by cases pre <;> cases hs
  | o :: ops, h, acc, h', res, hd, pre, op, post, hs => by
    unfold Drv.GenEdit.runOps at hd
    cases pre with
    | nil =>
      simp only [List.nil_append, List.cons.injEq] at hs
      obtain ⟨rfl, rfl⟩ := hs
      refine ⟨h, acc.reverse, rfl, ?_⟩
      cases ha : applyOp fuel fp h o with
      | error er => rw [ha] at hd; cases hd
      | ok r =>
        obtain ⟨ob, h2⟩ := r
        cases ob with
        | none => rw [ha] at hd; cases hd
        | some b => exact ⟨b, h2, rfl⟩
    | cons p pre =>
      simp only [List.cons_append, List.cons.injEq] at hs
      obtain ⟨rfl, rfl⟩ := hs
      cases ha : applyOp fuel fp h o with
      | error er => rw [ha] at hd; cases hd
      | ok r =>
        obtain ⟨ob, h2⟩ := r
        cases ob with
        | none => rw [ha] at hd; cases hd
        | some b =>
          rw [ha] at hd
          obtain ⟨h1, r1, e1, e2⟩ := genDone_steps fuel fp _ h2 (b :: acc) h' res hd pre op post rfl
          refine ⟨h1, r1, ?_, e2⟩
          unfold Drv.GenEdit.runOps
          rw [ha]
          exact e1

end ModVerif.Tie.FnEditSessionF
