/-
  EditStartFix, part D — the session theorems of C15 for a file parsed WITH a version fixer: the start lemma is swapped
  (`parseStrict_inv_fix` / `parseWork_invW_fix`), everything after it is a theorem about states.
  Also: `guardFixer fx` (the fixer `fx` with an empty answer turned into an error) satisfies `FixerOK` for every `fx`.
-/
import ModVerif.Proofs.EditStartFixW
import ModVerif.Proofs.EditPanicRun
import ModVerif.Proofs.EditWorkTotalA
set_option linter.unusedSimpArgs false
namespace ModVerif.Modfile.Edit.SFix
open ModVerif ModVerif.Modfile ModVerif.Modfile.Edit

/-- `fx`, except that an empty fixed version is reported as an error -/
def guardFixer (fx : Fixer) : Fixer := fun p v =>
  match fx p v with
  | .ok [] => .error .plain
  | r => r

theorem fixerOK_guard (fx : Fixer) : FixerOK (guardFixer fx) := by
  intro p v r h
  unfold guardFixer at h
  split at h
  · cases h
  · rename_i hne
    intro e
    subst e
    exact hne h

/-- a fixer that already satisfies `FixerOK` is not changed by the guard -/
theorem guardFixer_eq {fx : Fixer} (h : FixerOK fx) : guardFixer fx = fx := by
  funext p v
  unfold guardFixer
  split
  · rename_i he; exact absurd rfl (h p v [] he)
  · rfl

/-- **C15 `nilDeref_unreachable` for a file parsed with a version fixer** (go.mod) -/
theorem nilDeref_unreachable_fix {fix : Option Fixer} (hfx : FixOK fix) (name data : Bytes) (f : File) (ops : List Op)
    (hf : parseToFile name data fix true = .ok f) (hk : WellFormedKeys f) (hs : NoBlockSuffix f.syn)
    (hv : StaticValid false ops) (hmod : ∀ op ∈ ops, IsModOp op) :
    ∃ e' res, runOps applyMod (load f) ops [] 0 = .done e' res ∧
      (∀ (pre : List Op) (op : Op) (post : List Op), ops = pre ++ op :: post →
        ∃ e1 r1, runOps applyMod (load f) pre [] 0 = .done e1 r1 ∧
          applyMod e1 op ≠ some (.error .nilDeref) ∧ applyMod e1 op ≠ some (.error .badStatement) ∧
          applyMod e1 op ≠ some (.error .conflictingVersions)) ∧
      P.Inv (cleanup e') := by
  rcases P.nilDeref_unreachable_state (load f) ops (P.Inv.ofFull (parseStrict_inv_fix hfx hf hk hs)) hv hmod with ⟨e', res, h, hi⟩
  exact ⟨e', res, h, P.done_no_panic ops (load f) [] 0 e' res h, hi⟩

/-- **C15 `nilDeref_unreachable` for a go.work file parsed with a version fixer** -/
theorem nilDeref_unreachable_work_fix {fix : Option Fixer} (hfx : FixOK fix) (name data : Bytes) (f : WorkFile) (ops : List Op)
    (hf : parseWork name data fix = .ok f) (hk : WorkKeys f) (hs : NoBlockSuffix f.syn)
    (hv : StaticValidW false ops) (hw : ∀ op ∈ ops, IsWorkOp op) :
    ∃ e' res, runOps applyWork (loadWork f) ops [] 0 = .done e' res ∧
      (∀ (pre : List Op) (op : Op) (post : List Op), ops = pre ++ op :: post →
        ∃ e1 r1, runOps applyWork (loadWork f) pre [] 0 = .done e1 r1 ∧
          applyWork e1 op ≠ some (.error .nilDeref) ∧ applyWork e1 op ≠ some (.error .badStatement) ∧
          applyWork e1 op ≠ some (.error .conflictingVersions)) ∧
      InvW (workCleanup e') := by
  rcases nilDeref_unreachable_work_state (loadWork f) ops (parseWork_invW_fix hfx hf hk hs) hv hw with ⟨e', res, h, _, hi⟩
  refine ⟨e', res, h, ?_, hi⟩
  intro pre op post hsplit
  rcases done_no_panic_any applyWork ops (loadWork f) [] 0 e' res h pre op post hsplit with ⟨e1, r1, h1, h2⟩
  exact ⟨e1, r1, h1, h2 _ rfl, h2 _ rfl, h2 _ rfl⟩

end ModVerif.Modfile.Edit.SFix
