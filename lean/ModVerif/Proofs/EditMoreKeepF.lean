/-
  EditMore, part 21 — **C08 `untouched_lines_survive`**: one operation (`applyMod_untouched`) and whole sessions
  (`untouched_lines_survive`): a directive line that no operation names and no SortBlocks removes as a duplicate keeps
  its id, its tokens and its Before / Suffix comments.  `sparedB`: a Boolean sufficient condition for concrete instances.
-/
import ModVerif.Proofs.EditMoreKeepE
set_option linter.unusedSimpArgs false
namespace ModVerif.Modfile.Edit
open ModVerif ModVerif.Modfile

/-- every go.mod operation, on the lines that existed before it -/
theorem applyMod_opKeeps (e e' : EFile) (op : Op) (hv : ValidArgsAll e op) (hi : Inv e) (h : applyMod e op = some (.ok e')) :
    OpKeeps e e' op := by
  cases op with
  | addModule p => simp only [applyMod, Option.some.injEq, Except.ok.injEq] at h; subst h; exact addModule_keeps e p hi
  | addGo v => simp only [applyMod, Option.some.injEq] at h; exact addGo_keeps e e' v hi h
  | dropGo => simp only [applyMod, Option.some.injEq, Except.ok.injEq] at h; subst h; exact dropGo_keeps e
  | addToolchain n => simp only [applyMod, Option.some.injEq] at h; exact addToolchain_keeps e e' n hi h
  | dropToolchain => simp only [applyMod, Option.some.injEq, Except.ok.injEq] at h; subst h; exact dropToolchain_keeps e
  | addGodebug k v => simp only [applyMod, Option.some.injEq] at h; exact addGodebug_keeps e e' k v hv hi h
  | dropGodebug k => simp only [applyMod, Option.some.injEq] at h; exact dropGodebug_keeps e e' k hv h
  | addRequire p v => simp only [applyMod, Option.some.injEq] at h; exact addRequire_keeps e e' p v hv hi h
  | addNewRequire p v i =>
    simp only [applyMod, Option.some.injEq, Except.ok.injEq] at h; subst h; exact addNewRequire_keeps e p v i hi _
  | dropRequire p => simp only [applyMod, Option.some.injEq] at h; exact dropRequire_keeps e e' p hv h
  | setRequire w r =>
    simp only [applyMod, Option.some.injEq] at h
    exact setRequire_keeps e e' w (permOf r) (permOf_perm r) hv.1 hi hv.2.1 hv.2.2 h r
  | setRequireSeparateIndirect w r =>
    simp only [applyMod, Option.some.injEq] at h
    exact setRequireSeparateIndirect_keeps e e' w (permOf r) hv.1 hi hv.2.1 h r
  | addExclude p v => simp only [applyMod, Option.some.injEq] at h; exact addExclude_keeps e e' p v hi h
  | dropExclude p v => simp only [applyMod, Option.some.injEq] at h; exact dropExclude_keeps e e' p v hv h
  | addReplace a b c d => simp only [applyMod, Option.some.injEq] at h; exact addReplace_keeps e e' a b c d hv hi h
  | dropReplace a b => simp only [applyMod, Option.some.injEq] at h; exact dropReplace_keeps e e' a b hv h
  | addRetract lo hi' why => simp only [applyMod, Option.some.injEq] at h; exact addRetract_keeps e e' _ why hi h _
  | dropRetract lo hi' => simp only [applyMod, Option.some.injEq] at h; exact dropRetract_keeps e e' lo hi' hv h
  | addTool p => simp only [applyMod, Option.some.injEq, Except.ok.injEq] at h; subst h; exact addTool_keeps e p hi
  | dropTool p => simp only [applyMod, Option.some.injEq] at h; exact dropTool_keeps e e' p hv h
  | sortBlocks => simp only [applyMod, Option.some.injEq, Except.ok.injEq] at h; subst h; exact sortBlocks_keeps e
  | cleanup => simp only [applyMod, Option.some.injEq, Except.ok.injEq] at h; subst h; exact cleanup_keeps e _
  | addUse d m => simp [applyMod] at h
  | addNewUse d m => simp [applyMod] at h
  | dropUse d => simp [applyMod] at h
  | setUse w rev => simp [applyMod] at h

/-- **one operation leaves every line it does not name as it is**: a live line whose tokens are not those of the
    directive the operation names (`Targets`), and which the documented de-duplication of SortBlocks does not remove
    (`kill3`), is still there after the operation, with the same tokens and at least the same `Before` and `Suffix`
    comments -/
theorem applyMod_untouched (e e' : EFile) (op : Op) (hv : ValidArgsAll e op) (hi : Inv e) (h : applyMod e op = some (.ok e'))
    (x : XLine) (hx : x ∈ viewX e.f.syn.stmts) (hnt : ¬Targets op x.toks) (hk : Sorts op = true → x.id ∉ kill3 e.f) :
    ∃ x' ∈ viewX e'.f.syn.stmts, x.le x' := by
  rcases applyMod_opKeeps e e' op hv hi h with ⟨S, hS, hsrc⟩
  refine hS x hx (hi.x_lt hx) ?_
  intro hs
  rcases hsrc _ hs with ⟨h1, h2⟩ | ⟨en, hen, hid, ht⟩
  · exact hk h1 h2
  · exact hnt (ht _ _ (hi.acc_of_id hx hen hid))

/-- along a session: no operation names the line (by its tokens), no SortBlocks removes it as a duplicate -/
def Spared (toks : List Bytes) (id : Nat) : EFile → List Op → Prop
  | _, [] => True
  | e, op :: ops =>
    ¬Targets op toks ∧ (Sorts op = true → id ∉ kill3 e.f) ∧
      (∀ e', applyMod e op = some (.ok e') → Spared toks id e' ops) ∧
      (∀ err, applyMod e op = some (.error err) → err.isReturned = true → Spared toks id e ops)

theorem runOps_untouched (ops : List Op) : ∀ (e : EFile) (res0 : List Bool) (i : Nat) (e' : EFile) (res : List Bool),
    RunValid e ops → Inv e → runOps applyMod e ops res0 i = .done e' res →
    ∀ x ∈ viewX e.f.syn.stmts, Spared x.toks x.id e ops → ∃ x' ∈ viewX e'.f.syn.stmts, x.le x' := by
  induction ops with
  | nil =>
    intro e res0 i e' res _ _ h x hx _
    simp only [runOps, SessionResult.done.injEq] at h
    rw [← h.1]; exact ⟨x, hx, x.le_refl⟩
  | cons op ops ih =>
    intro e res0 i e' res hv hi h x hx hsp
    unfold runOps at h
    cases ha : applyMod e op with
    | none => simp [ha] at h
    | some r =>
      cases r with
      | ok e1 =>
        simp only [ha] at h
        rcases applyMod_untouched e e1 op hv.1 hi ha x hx hsp.1 hsp.2.1 with ⟨y, hy, hxy⟩
        have hsp1 : Spared y.toks y.id e1 ops := by rw [hxy.1, hxy.2.1]; exact hsp.2.2.1 e1 ha
        rcases ih e1 _ _ e' res (hv.2.1 e1 ha) (applyMod_inv_all e e1 op hv.1 hi ha) h y hy hsp1 with ⟨z, hz, hyz⟩
        exact ⟨z, hz, XLine.le_trans hxy hyz⟩
      | error err =>
        simp only [ha] at h
        by_cases hr : err.isReturned = true
        · simp only [hr, if_true] at h
          exact ih e _ _ e' res (hv.2.2 err ha hr) hi h x hx (hsp.2.2.2 err ha hr)
        · simp only [Bool.not_eq_true] at hr
          simp [hr] at h

/-- **C08 `untouched_lines_survive`.**  In a session of go.mod operations with valid arguments from a state satisfying the
    invariant, a directive line that no operation names and that no SortBlocks removes as a duplicate (`Spared`) is still
    in the tree after the final Cleanup: same line id, same full tokens, and its `Before` and `Suffix` comments are
    sublists of the final ones (Cleanup may add the comments of a collapsed block). -/
theorem untouched_lines_survive (e e' : EFile) (ops : List Op) (res : List Bool) (hi : Inv e) (hv : RunValid e ops)
    (h : runOps applyMod e ops [] 0 = .done e' res) (x : XLine) (hx : x ∈ viewX e.f.syn.stmts) (hsp : Spared x.toks x.id e ops) :
    ∃ x' ∈ viewX (cleanup e').f.syn.stmts, x'.id = x.id ∧ x'.toks = x.toks ∧ x.before.Sublist x'.before ∧
      x.suffix.Sublist x'.suffix := by
  rcases runOps_untouched ops e [] 0 e' res hv hi h x hx hsp with ⟨y, hy, hxy⟩
  rcases keeps_cleanupStmts e'.f.syn.stmts y hy (by simp) with ⟨z, hz, hyz⟩
  exact ⟨z, hz, XLine.le_trans hxy hyz⟩

/-! ### an executable sufficient condition for `Spared` (for concrete instances) -/

/-- the verb of the directive an operation names -/
def opVerb : Op → Option Bytes
  | .addModule _ => some (B "module")
  | .addGo _ => some (B "go")
  | .dropGo => some (B "go")
  | .addToolchain _ => some (B "toolchain")
  | .dropToolchain => some (B "toolchain")
  | .addGodebug _ _ => some (B "godebug")
  | .dropGodebug _ => some (B "godebug")
  | .addRequire _ _ => some (B "require")
  | .dropRequire _ => some (B "require")
  | .setRequire _ _ => some (B "require")
  | .setRequireSeparateIndirect _ _ => some (B "require")
  | .dropExclude _ _ => some (B "exclude")
  | .addReplace _ _ _ _ => some (B "replace")
  | .dropReplace _ _ => some (B "replace")
  | .dropRetract _ _ => some (B "retract")
  | .dropTool _ => some (B "tool")
  | _ => none

theorem targets_verb (op : Op) (t : List Bytes) (h : Targets op t) : ∃ v, opVerb op = some v ∧ t.head? = some v := by
  cases op <;> simp only [Targets] at h <;> simp only [opVerb]
  all_goals first
    | exact h.elim
    | exact ⟨_, rfl, h⟩
    | (rcases h with ⟨v, rfl⟩; exact ⟨_, rfl, rfl⟩)
    | (subst h; exact ⟨_, rfl, rfl⟩)
    | (rcases h with ⟨r, _, rfl⟩; exact ⟨_, rfl, rfl⟩)
    | (rcases h with ⟨r, _, _, rfl⟩; exact ⟨_, rfl, rfl⟩)
    | (rcases h with ⟨x, rfl, _⟩; exact ⟨_, rfl, rfl⟩)
    | (rcases h with ⟨r, _, ⟨x, rfl, _⟩ | ⟨x, y, rfl, _⟩⟩ <;> exact ⟨_, rfl, rfl⟩)

/-- a Boolean test implying `Spared`: no operation of the session names a directive with the line's verb, and the
    line's id is in no kill list -/
def sparedB (toks : List Bytes) (id : Nat) : EFile → List Op → Bool
  | _, [] => true
  | e, op :: ops =>
    (match opVerb op with
     | some v => toks.head? != some v
     | none => true) &&
    (!Sorts op || !(kill3 e.f).contains id) &&
      (match applyMod e op with
       | some (.ok e') => sparedB toks id e' ops
       | some (.error err) => !err.isReturned || sparedB toks id e ops
       | none => true)

theorem sparedB_sound (toks : List Bytes) (id : Nat) (ops : List Op) : ∀ e : EFile, sparedB toks id e ops = true → Spared toks id e ops := by
  induction ops with
  | nil => intro e _; trivial
  | cons op ops ih =>
    intro e h
    simp only [sparedB, Bool.and_eq_true] at h
    refine ⟨?_, ?_, ?_, ?_⟩
    · intro ht
      rcases targets_verb op toks ht with ⟨v, hv, hh⟩
      have := h.1.1
      rw [hv] at this
      simp [hh] at this
    · intro hs hk
      have := h.1.2
      simp [hs, hk] at this
    · intro e' ha
      have := h.2; rw [ha] at this
      exact ih e' this
    · intro err ha hr
      have := h.2; rw [ha] at this
      simp only [hr, Bool.not_true, Bool.false_or] at this
      exact ih e this

end ModVerif.Modfile.Edit
