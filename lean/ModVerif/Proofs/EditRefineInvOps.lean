/-
  EditRefine, part 13 — every go.mod operation (but the two bulk requirement setters) preserves the tree
  invariant `Inv`.
-/
import ModVerif.Proofs.EditRefineInv
set_option linter.unusedSimpArgs false
namespace ModVerif.Modfile.Edit
open ModVerif ModVerif.Modfile

/-! ### helpers -/

theorem view_unique {stmts : List Expr} (h : (treeIds stmts).Nodup) {v v' : VLine} (hv : v ∈ view stmts)
    (hv' : v' ∈ view stmts) (he : v.id = v'.id) : v = v' := by
  rcases mem_view.1 hv with ⟨p, hp, _, rfl⟩
  rcases mem_view.1 hv' with ⟨q, hq, _, rfl⟩
  rw [loc_unique h hp hq he]

theorem entsOf_true {α : Type} (mk : α → Ent) (l : List α) : entsOf (fun _ => true) mk l = l.map mk := by
  unfold entsOf; rw [List.filter_eq_self.2 (fun _ _ => rfl)]

/-- every entry's line has at least a verb and one argument -/
theorem entries_acc2 (f : File) : ∀ en ∈ entries f, ∀ t s, en.acc t s → 2 ≤ t.length := by
  intro en hen t s ha
  simp only [entries, List.mem_append, List.mem_map, Option.mem_toList, entsOf, List.mem_filter] at hen
  rcases hen with ⟨x, _, rfl⟩ | ⟨x, _, rfl⟩ | ⟨x, _, rfl⟩ | ⟨x, _, rfl⟩ | ⟨x, _, rfl⟩ | ⟨x, _, rfl⟩ | ⟨x, _, rfl⟩ |
    ⟨x, _, rfl⟩ | ⟨x, _, rfl⟩
  · simp only [entM] at ha; rw [ha]; simp
  · simp only [entGo] at ha; rw [ha]; simp
  · simp only [entTc] at ha; rw [ha]; simp
  · simp only [entG] at ha; rw [ha]; simp
  · simp only [entRq] at ha; rw [ha.1]; simp
  · simp only [entX] at ha; rw [ha]; simp
  · simp only [entRp, replaceToks] at ha; rw [ha]; simp
  · simp only [entRt] at ha
    rcases ha with ⟨x', h1, _⟩ | ⟨x', y', h1, _⟩ <;> rw [h1] <;> simp
  · simp only [entT] at ha
    rcases ha with ⟨x', h1, _⟩; rw [h1]; simp

theorem Inv.view2 {e : EFile} (h : Inv e) : View2 e.f.syn.stmts := by
  intro v hv
  rcases h.mtch.surj v hv with ⟨en, hen, hid⟩
  rcases h.mtch.cover en hen with ⟨v', hv', hid', hacc⟩
  have : v' = v := view_unique h.tree.nodup hv' hv (hid'.trans hid)
  subst this
  exact entries_acc2 e.f en hen _ _ hacc

theorem Inv.fresh {e : EFile} (h : Inv e) : ∀ en ∈ entries e.f, en.id ≠ e.next := by
  intro en hen
  exact Nat.ne_of_lt (h.mtch.ids_lt h.tree en hen)

/-! ### the segments of `entries` -/

def segA_godebug (f : File) : List Ent := f.module.toList.map entM ++ (f.go.toList.map entGo ++ f.toolchain.toList.map entTc)
def segC_godebug (f : File) : List Ent :=
  entsOf liveRq entRq f.require ++ (entsOf liveX entX f.exclude ++ (entsOf liveRp entRp f.replace ++
    (entsOf liveRt entRt f.retract ++ entsOf liveT entT f.tool)))
theorem entries_godebug (f : File) : entries f = segA_godebug f ++ (entsOf liveG entG f.godebug ++ segC_godebug f) := by
  simp [entries, segA_godebug, segC_godebug, List.append_assoc]

def segA_require (f : File) : List Ent := segA_godebug f ++ entsOf liveG entG f.godebug
def segC_require (f : File) : List Ent :=
  entsOf liveX entX f.exclude ++ (entsOf liveRp entRp f.replace ++ (entsOf liveRt entRt f.retract ++ entsOf liveT entT f.tool))
theorem entries_require (f : File) : entries f = segA_require f ++ (entsOf liveRq entRq f.require ++ segC_require f) := by
  simp [entries, segA_require, segA_godebug, segC_require, List.append_assoc]

def segA_exclude (f : File) : List Ent := segA_require f ++ entsOf liveRq entRq f.require
def segC_exclude (f : File) : List Ent :=
  entsOf liveRp entRp f.replace ++ (entsOf liveRt entRt f.retract ++ entsOf liveT entT f.tool)
theorem entries_exclude (f : File) : entries f = segA_exclude f ++ (entsOf liveX entX f.exclude ++ segC_exclude f) := by
  simp [entries, segA_exclude, segA_require, segA_godebug, segC_exclude, List.append_assoc]

def segA_replace (f : File) : List Ent := segA_exclude f ++ entsOf liveX entX f.exclude
def segC_replace (f : File) : List Ent := entsOf liveRt entRt f.retract ++ entsOf liveT entT f.tool
theorem entries_replace (f : File) : entries f = segA_replace f ++ (entsOf liveRp entRp f.replace ++ segC_replace f) := by
  simp [entries, segA_replace, segA_exclude, segA_require, segA_godebug, segC_replace, List.append_assoc]

def segA_retract (f : File) : List Ent := segA_replace f ++ entsOf liveRp entRp f.replace
def segC_retract (f : File) : List Ent := entsOf liveT entT f.tool
theorem entries_retract (f : File) : entries f = segA_retract f ++ (entsOf liveRt entRt f.retract ++ segC_retract f) := by
  simp [entries, segA_retract, segA_replace, segA_exclude, segA_require, segA_godebug, segC_retract, List.append_assoc]

def segA_tool (f : File) : List Ent := segA_retract f ++ entsOf liveRt entRt f.retract
theorem entries_tool (f : File) : entries f = segA_tool f ++ (entsOf liveT entT f.tool ++ []) := by
  simp [entries, segA_tool, segA_retract, segA_replace, segA_exclude, segA_require, segA_godebug, List.append_assoc]

def segC_module (f : File) : List Ent :=
  f.go.toList.map entGo ++ (f.toolchain.toList.map entTc ++ (entsOf liveG entG f.godebug ++ segC_godebug f))
theorem entries_module (f : File) : entries f = [] ++ (entsOf (fun _ => true) entM f.module.toList ++ segC_module f) := by
  simp [entries, segC_module, segC_godebug, entsOf_true, List.append_assoc]

def segA_go (f : File) : List Ent := f.module.toList.map entM
def segC_go (f : File) : List Ent := f.toolchain.toList.map entTc ++ (entsOf liveG entG f.godebug ++ segC_godebug f)
theorem entries_go (f : File) : entries f = segA_go f ++ (entsOf (fun _ => true) entGo f.go.toList ++ segC_go f) := by
  simp [entries, segA_go, segC_go, segC_godebug, entsOf_true, List.append_assoc]

def segA_toolchain (f : File) : List Ent := f.module.toList.map entM ++ f.go.toList.map entGo
def segC_toolchain (f : File) : List Ent := entsOf liveG entG f.godebug ++ segC_godebug f
theorem entries_toolchain (f : File) :
    entries f = segA_toolchain f ++ (entsOf (fun _ => true) entTc f.toolchain.toList ++ segC_toolchain f) := by
  simp [entries, segA_toolchain, segC_toolchain, segC_godebug, entsOf_true, List.append_assoc]

/-! ### comment surgery on one line -/

/-- `updateLine` with a function that keeps id and tokens and rewrites the end-of-line comments -/
theorem view_updateLine_suffix (fs : FileSyntax) (id : Nat) (g : Line → Line) (σ : List Comment → List Comment)
    (h : (treeIds fs.stmts).Nodup) (htok : ∀ l, (g l).token = l.token) (hid : ∀ l, (g l).id = l.id)
    (hsfx : ∀ l, (g l).comments.suffix = σ l.comments.suffix) :
    view (fs.updateLine id g).stmts =
      (view fs.stmts).map fun v => if v.id == id then { v with suffix := σ v.suffix } else v := by
  unfold view
  rw [loc_updateLine fs id g h, List.filter_map, List.map_map, List.map_map]
  have hlive : (liveLoc ∘ fun p : List Bytes × Line => (p.1, if p.2.id == id then g p.2 else p.2)) = liveLoc := by
    funext p
    simp only [Function.comp, liveLoc]
    split
    · rw [htok]
    · rfl
  rw [hlive]
  apply List.map_congr_left
  intro p _
  simp only [Function.comp, mkV]
  by_cases hp : (p.2.id == id) = true
  · simp only [hp, if_true, htok, hid, hsfx]
  · simp only [Bool.not_eq_true] at hp
    simp only [hp, Bool.false_eq_true, if_false]

/-- the end-of-line comments after `setIndirect`, as a function of those before -/
def sfxAfter (b : Bool) (s : List Comment) : List Comment := (setIndirectLine b { comments := { suffix := s } }).comments.suffix

theorem setIndirectLine_props (b : Bool) (l : Line) :
    (setIndirectLine b l).id = l.id ∧ (setIndirectLine b l).token = l.token ∧ (setIndirectLine b l).inBlock = l.inBlock ∧
    (setIndirectLine b l).comments.suffix = sfxAfter b l.comments.suffix := by
  unfold sfxAfter setIndirectLine
  simp only [isIndirect_eq]
  by_cases h1 : (isIndirectS l.comments.suffix == b) = true
  · simp only [h1, if_true]; (refine ⟨?_, ?_, ?_, ?_⟩ <;> first | trivial | rfl)
  · simp only [h1, Bool.false_eq_true, if_false]
    cases b with
    | true =>
      simp only [if_true]
      cases hs : l.comments.suffix with
      | nil => (refine ⟨?_, ?_, ?_, ?_⟩ <;> first | trivial | rfl)
      | cons c cs => (refine ⟨?_, ?_, ?_, ?_⟩ <;> first | trivial | rfl)
    | false =>
      simp only [Bool.false_eq_true, if_false]
      cases hs : l.comments.suffix with
      | nil => simp only [hs]; (refine ⟨?_, ?_, ?_, ?_⟩ <;> first | trivial | rfl)
      | cons c cs =>
        simp only
        split
        · (refine ⟨?_, ?_, ?_, ?_⟩ <;> first | trivial | rfl)
        · (refine ⟨?_, ?_, ?_, ?_⟩ <;> first | trivial | rfl)

theorem sfxAfter_nil (b : Bool) : isIndirectS (sfxAfter b []) = b := by
  cases b <;> decide +kernel

/-- the tree part of `AddNewRequire`: a new line, marked indirect if requested -/
theorem addNewRequire_tree (fs : FileSyntax) (next : Nat) (p v : Bytes) (b : Bool) (hw : TreeWF fs.stmts next)
    (hnext : 0 < next) (h2 : View2 fs.stmts) :
    let syn' := (addLine fs none [B "require", autoQuote p, v] next).updateLine next (setIndirectLine b)
    (view syn'.stmts).Perm (view fs.stmts ++ [⟨next, [B "require", autoQuote p, v], sfxAfter b []⟩]) ∧
    TreeWF syn'.stmts (next + 1) := by
  intro syn'
  rcases addLine_spec fs none next (B "require") (autoQuote p) [v] hw.shape h2 with ⟨p1, p2, p3⟩
  have hw1 : TreeWF (addLine fs none [B "require", autoQuote p, v] next).stmts (next + 1) := hw.of_added hnext p2 p3
  have hprops := setIndirectLine_props b
  refine ⟨?_, hw1.updateLine next _ (fun l => (hprops l).1) (fun l => (hprops l).2.2.1)⟩
  have hv := view_updateLine_suffix (addLine fs none [B "require", autoQuote p, v] next) next (setIndirectLine b) (sfxAfter b)
    hw1.nodup (fun l => (hprops l).2.1) (fun l => (hprops l).1) (fun l => (hprops l).2.2.2)
  show (view ((addLine fs none [B "require", autoQuote p, v] next).updateLine next (setIndirectLine b)).stmts).Perm _
  rw [hv]
  refine (p1.map _).trans ?_
  rw [List.map_append]
  have hold : (view fs.stmts).map (fun v => if v.id == next then { v with suffix := sfxAfter b v.suffix } else v) = view fs.stmts := by
    calc _ = (view fs.stmts).map (fun v => v) := by
          apply List.map_congr_left
          intro v hv
          have : v.id ≠ next := Nat.ne_of_lt (hw.lt _ (view_id_mem_treeIds hv))
          simp [this]
      _ = view fs.stmts := by simp
  rw [hold]
  simp [vnew]

/-! ### Drop operations -/

theorem dropGodebug_inv (e e' : EFile) (k : Bytes) (hk : k ≠ []) (hi : Inv e) (h : dropGodebug e k = .ok e') : Inv e' := by
  have ht := (dropGodebug_abs e e' k hi.tinv h).2
  unfold dropGodebug at h
  simp only [bind, Except.bind] at h
  cases hr : clearAll (fun g : Godebug => g.key == k) (·.lineId) clearedGodebug e.f.godebug with
  | error err => simp [hr] at h
  | ok r =>
    rcases r with ⟨gd', dead⟩
    simp only [hr, pure, Except.pure, Except.ok.injEq] at h
    subst h
    refine ⟨(markAll_spec dead e.f.syn e.next hi.tree).1, ?_, ht⟩
    have := Match.clearSeg (fun g : Godebug => g.key == k) (·.lineId) clearedGodebug liveG entG (fun _ => rfl) rfl
      (fun x hx => ne_nil_of_beq hk hx) hi.tree (by rw [← entries_godebug]; exact hi.mtch) hr
    rw [entries_godebug]; exact this

theorem dropRequire_inv (e e' : EFile) (p : Bytes) (hp : p ≠ []) (hi : Inv e) (h : dropRequire e p = .ok e') : Inv e' := by
  have ht := (dropRequire_abs e e' p hi.tinv h).2
  unfold dropRequire at h
  simp only [bind, Except.bind] at h
  cases hr : clearAll (fun r : Require => r.mod.path == p) (·.lineId) clearedRequire e.f.require with
  | error err => simp [hr] at h
  | ok r =>
    rcases r with ⟨l', dead⟩
    simp only [hr, pure, Except.pure, Except.ok.injEq] at h
    subst h
    refine ⟨(markAll_spec dead e.f.syn e.next hi.tree).1, ?_, ht⟩
    have := Match.clearSeg (fun r : Require => r.mod.path == p) (·.lineId) clearedRequire liveRq entRq (fun _ => rfl) rfl
      (fun x hx => ne_nil_of_beq hp hx) hi.tree (by rw [← entries_require]; exact hi.mtch) hr
    rw [entries_require]; exact this

theorem dropExclude_inv (e e' : EFile) (p v : Bytes) (hp : p ≠ []) (hi : Inv e) (h : dropExclude e p v = .ok e') : Inv e' := by
  have ht := (dropExclude_abs e e' p v hi.tinv h).2
  unfold dropExclude at h
  simp only [bind, Except.bind] at h
  cases hr : clearAll (fun x : Exclude => x.mod.path == p && x.mod.version == v) (·.lineId) clearedExclude e.f.exclude with
  | error err => simp [hr] at h
  | ok r =>
    rcases r with ⟨l', dead⟩
    simp only [hr, pure, Except.pure, Except.ok.injEq] at h
    subst h
    refine ⟨(markAll_spec dead e.f.syn e.next hi.tree).1, ?_, ht⟩
    have := Match.clearSeg (fun x : Exclude => x.mod.path == p && x.mod.version == v) (·.lineId) clearedExclude liveX entX
      (fun _ => rfl) rfl (fun x hx => by simp only [Bool.and_eq_true] at hx; exact ne_nil_of_beq hp hx.1) hi.tree
      (by rw [← entries_exclude]; exact hi.mtch) hr
    rw [entries_exclude]; exact this

theorem dropReplace_inv (e e' : EFile) (op ov : Bytes) (hop : op ≠ []) (hi : Inv e) (h : dropReplace e op ov = .ok e') : Inv e' := by
  have ht := (dropReplace_abs e e' op ov hi.tinv h).2
  unfold dropReplace dropReplaceCore at h
  simp only [bind, Except.bind] at h
  cases hr : clearAll (fun r : Replace => r.old.path == op && r.old.version == ov) (·.lineId) clearedReplace e.f.replace with
  | error err => simp [hr] at h
  | ok r =>
    rcases r with ⟨l', dead⟩
    simp only [hr, pure, Except.pure, Except.ok.injEq] at h
    subst h
    refine ⟨(markAll_spec dead e.f.syn e.next hi.tree).1, ?_, ht⟩
    have := Match.clearSeg (fun r : Replace => r.old.path == op && r.old.version == ov) (·.lineId) clearedReplace liveRp entRp
      (fun _ => rfl) rfl (fun x hx => by simp only [Bool.and_eq_true] at hx; exact ne_nil_of_beq hop hx.1) hi.tree
      (by rw [← entries_replace]; exact hi.mtch) hr
    rw [entries_replace]; exact this

theorem dropRetract_inv (e e' : EFile) (lo hi' : Bytes) (hne : lo ≠ [] ∨ hi' ≠ []) (hi : Inv e)
    (h : dropRetract e { low := lo, high := hi' } = .ok e') : Inv e' := by
  have ht := (dropRetract_abs e e' lo hi' hi.tinv h).2
  unfold dropRetract at h
  simp only [bind, Except.bind] at h
  cases hr : clearAll (fun r : Retract => r.interval == ({ low := lo, high := hi' } : VersionInterval)) (·.lineId) clearedRetract e.f.retract with
  | error err => simp [hr] at h
  | ok r =>
    rcases r with ⟨l', dead⟩
    simp only [hr, pure, Except.pure, Except.ok.injEq] at h
    subst h
    refine ⟨(markAll_spec dead e.f.syn e.next hi.tree).1, ?_, ht⟩
    have := Match.clearSeg (fun r : Retract => r.interval == ({ low := lo, high := hi' } : VersionInterval)) (·.lineId) clearedRetract
      liveRt entRt (fun _ => rfl) rfl
      (fun x hx => by
        have : x.interval = { low := lo, high := hi' } := eq_of_beq hx
        simp only [liveRt, this]
        rcases hne with h1 | h1
        · simp [ne_nil_live h1]
        · simp [ne_nil_live h1])
      hi.tree (by rw [← entries_retract]; exact hi.mtch) hr
    rw [entries_retract]; exact this

theorem dropTool_inv (e e' : EFile) (p : Bytes) (hp : p ≠ []) (hi : Inv e) (h : dropTool e p = .ok e') : Inv e' := by
  have ht := (dropTool_abs e e' p hi.tinv h).2
  unfold dropTool at h
  simp only [bind, Except.bind] at h
  cases hr : clearAll (fun t : Tool => t.path == p) (·.lineId) clearedTool e.f.tool with
  | error err => simp [hr] at h
  | ok r =>
    rcases r with ⟨l', dead⟩
    simp only [hr, pure, Except.pure, Except.ok.injEq] at h
    subst h
    refine ⟨(markAll_spec dead e.f.syn e.next hi.tree).1, ?_, ht⟩
    have := Match.clearSeg (fun t : Tool => t.path == p) (·.lineId) clearedTool liveT entT (fun _ => rfl) rfl
      (fun x hx => ne_nil_of_beq hp hx) hi.tree (by rw [← entries_tool]; exact hi.mtch) hr
    rw [entries_tool]; exact this

/-! ### Add operations -/

theorem addNewRequire_inv (e : EFile) (p v : Bytes) (b : Bool) (hp : p ≠ []) (hi : Inv e) : Inv (addNewRequire e p v b) := by
  rcases addNewRequire_tree e.f.syn e.next p v b hi.tree hi.tinv.pos hi.view2 with ⟨hv, hw⟩
  refine ⟨hw, ?_, (addNewRequire_abs e p v b hp hi.tinv).2.1⟩
  have := Match.appendSeg (·.lineId) liveRq entRq (fun _ => rfl)
    (x := ({ mod := { path := p, version := v }, indirect := b, lineId := e.next } : Require))
    (ne_nil_live hp) [B "require", autoQuote p, v] (sfxAfter b []) ⟨rfl, sfxAfter_nil b⟩
    (by rw [← entries_require]; exact hi.mtch) (by rw [← entries_require]; exact hi.fresh) hv
  show Match (entries (addNewRequire e p v b).f) _
  rw [entries_require]; exact this

theorem addRequire_inv (e e' : EFile) (p v : Bytes) (hp : p ≠ []) (hi : Inv e) (h : addRequire e p v = .ok e') : Inv e' := by
  have ht := (addRequire_abs e e' p v hp hi.tinv h).2
  unfold addRequire at h
  simp only [bind, Except.bind] at h
  cases hr : firstRest (fun r : Require => r.mod.path == p) (·.lineId)
      (fun r => { r with mod := { r.mod with version := v } }) clearedRequire e.f.require true with
  | error err => simp [hr] at h
  | ok r =>
    rcases r with ⟨l', first, dead⟩
    simp only [hr] at h
    cases first with
    | some i =>
      simp only [pure, Except.pure, Except.ok.injEq] at h
      subst h
      refine ⟨(markAll_spec dead _ e.next (hi.tree.updateTokens i _)).1, ?_, ht⟩
      have := Match.updSeg (fun r : Require => r.mod.path == p) (·.lineId)
        (fun r => { r with mod := { r.mod with version := v } }) clearedRequire liveRq entRq (fun _ => rfl) rfl
        (fun x hx => ne_nil_of_beq hp hx) (fun x hx => ne_nil_of_beq hp hx) (fun _ => rfl)
        (B "require") (autoQuote p) [v]
        (fun x hx t0 s ha => by
          simp only [entRq] at ha ⊢
          refine ⟨by rw [ha.1]; rfl, ?_, ha.2⟩
          rw [eq_of_beq hx])
        hi.tree (by rw [← entries_require]; exact hi.mtch) hr
      rw [entries_require]; exact this
    | none =>
      simp only [pure, Except.pure, Except.ok.injEq] at h
      subst h
      exact addNewRequire_inv e p v false hp hi

theorem addGodebug_inv (e e' : EFile) (k v : Bytes) (hk : k ≠ []) (hi : Inv e) (h : addGodebug e k v = .ok e') : Inv e' := by
  have ht := (addGodebug_abs e e' k v hk hi.tinv h).2
  unfold addGodebug addGodebugCore at h
  simp only [bind, Except.bind] at h
  cases hr : firstRest (fun g : Godebug => g.key == k) (·.lineId) (fun g => { g with value := v }) clearedGodebug e.f.godebug true with
  | error err => simp [hr] at h
  | ok r =>
    rcases r with ⟨l', first, dead⟩
    simp only [hr] at h
    cases first with
    | some i =>
      simp only [pure, Except.pure, Except.ok.injEq] at h
      subst h
      refine ⟨(markAll_spec dead _ e.next (hi.tree.updateTokens i _)).1, ?_, ht⟩
      have := Match.updSeg (fun g : Godebug => g.key == k) (·.lineId) (fun g => { g with value := v }) clearedGodebug
        liveG entG (fun _ => rfl) rfl
        (fun x hx => ne_nil_of_beq hk hx) (fun x hx => ne_nil_of_beq hk hx) (fun _ => rfl)
        (B "godebug") (k ++ [61] ++ v) []
        (fun x hx t0 s ha => by
          simp only [entG] at ha ⊢
          refine ⟨by rw [ha]; rfl, ?_⟩
          rw [eq_of_beq hx])
        hi.tree (by rw [← entries_godebug]; exact hi.mtch) hr
      rw [entries_godebug]; exact this
    | none =>
      simp only [pure, Except.pure, Except.ok.injEq] at h
      subst h
      rcases firstRest_none _ _ _ _ _ _ _ hr with ⟨_, rfl, _⟩
      rcases addLine_spec e.f.syn none e.next (B "godebug") (k ++ [61] ++ v) [] hi.tree.shape hi.view2 with ⟨p1, p2, p3⟩
      refine ⟨hi.tree.of_added hi.tinv.pos p2 p3, ?_, ht⟩
      have := Match.appendSeg (·.lineId) liveG entG (fun _ => rfl)
        (x := ({ key := k, value := v, lineId := e.next } : Godebug))
        (ne_nil_live hk) [B "godebug", k ++ [61] ++ v] [] rfl
        (by rw [← entries_godebug]; exact hi.mtch) (by rw [← entries_godebug]; exact hi.fresh) p1
      rw [entries_godebug]; exact this

theorem replaceToks_eq (op ov np nv : Bytes) :
    [B "replace", autoQuote op] ++ (if ov.isEmpty then [] else [ov]) ++ [B "=>", autoQuote np] ++ (if nv.isEmpty then [] else [nv])
      = B "replace" :: autoQuote op :: ((if ov.isEmpty then [] else [ov]) ++ [B "=>", autoQuote np] ++ (if nv.isEmpty then [] else [nv])) := by
  simp

theorem addReplace_inv (e e' : EFile) (op ov np nv : Bytes) (hop : op ≠ []) (hi : Inv e)
    (h : addReplace e op ov np nv = .ok e') : Inv e' := by
  have ht := (addReplace_abs e e' op ov np nv hop hi.tinv h).2
  unfold addReplace addReplaceCore at h
  simp only [bind, Except.bind] at h
  rw [replaceToks_eq] at h
  cases hr : firstRest (fun r : Replace => r.old.path == op && (ov.isEmpty || r.old.version == ov)) (·.lineId)
      (fun r => { r with old := { path := op, version := ov }, new := { path := np, version := nv } }) clearedReplace e.f.replace true with
  | error err => simp [hr] at h
  | ok r =>
    rcases r with ⟨l', first, dead⟩
    simp only [hr] at h
    have hml : ∀ x : Replace, (x.old.path == op && (ov.isEmpty || x.old.version == ov)) = true → liveRp x = true := by
      intro x hx
      simp only [Bool.and_eq_true] at hx
      exact ne_nil_of_beq hop hx.1
    cases first with
    | some i =>
      simp only [pure, Except.pure, Except.ok.injEq] at h
      subst h
      refine ⟨(markAll_spec dead _ e.next (hi.tree.updateTokens i _)).1, ?_, ht⟩
      have := Match.updSeg (fun r : Replace => r.old.path == op && (ov.isEmpty || r.old.version == ov)) (·.lineId)
        (fun r => { r with old := { path := op, version := ov }, new := { path := np, version := nv } }) clearedReplace
        liveRp entRp (fun _ => rfl) rfl hml (fun x _ => ne_nil_live hop) (fun _ => rfl)
        (B "replace") (autoQuote op) ((if ov.isEmpty then [] else [ov]) ++ [B "=>", autoQuote np] ++ (if nv.isEmpty then [] else [nv]))
        (fun x hx t0 s ha => by
          simp only [entRp] at ha ⊢
          refine ⟨by rw [ha]; simp [replaceToks], ?_⟩
          simp [replaceToks])
        hi.tree (by rw [← entries_replace]; exact hi.mtch) hr
      rw [entries_replace]; exact this
    | none =>
      simp only [pure, Except.pure, Except.ok.injEq] at h
      subst h
      rcases firstRest_none _ _ _ _ _ _ _ hr with ⟨_, rfl, _⟩
      rcases addLinePtr_spec e.f.syn (lastWith (fun r : Replace => r.old.path == op) (·.lineId) e.f.replace none) e.next
        (B "replace") (autoQuote op) ((if ov.isEmpty then [] else [ov]) ++ [B "=>", autoQuote np] ++ (if nv.isEmpty then [] else [nv]))
        hi.tree.shape hi.view2 with ⟨p1, p2, p3⟩
      refine ⟨hi.tree.of_added hi.tinv.pos p2 p3, ?_, ht⟩
      have := Match.appendSeg (·.lineId) liveRp entRp (fun _ => rfl)
        (x := ({ old := { path := op, version := ov }, new := { path := np, version := nv }, lineId := e.next } : Replace))
        (ne_nil_live hop) _ [] (by simp [entRp, replaceToks])
        (by rw [← entries_replace]; exact hi.mtch) (by rw [← entries_replace]; exact hi.fresh) p1
      rw [entries_replace]; exact this

theorem addExclude_inv (e e' : EFile) (p v : Bytes) (hp : p ≠ []) (hi : Inv e) (h : addExclude e p v = .ok e') : Inv e' := by
  have ht := ((addExclude_abs e p v hp hi.tinv).1 e' h).2.2
  unfold addExclude at h
  split at h
  · cases h
  · split at h
    · simp only [Except.ok.injEq] at h; subst h; exact hi
    · simp only [Except.ok.injEq] at h; subst h
      rcases addLinePtr_spec e.f.syn (lastWith (fun x : Exclude => x.mod.path == p) (·.lineId) e.f.exclude none) e.next
        (B "exclude") (autoQuote p) [v] hi.tree.shape hi.view2 with ⟨p1, p2, p3⟩
      refine ⟨hi.tree.of_added hi.tinv.pos p2 p3, ?_, ht⟩
      have := Match.appendSeg (·.lineId) liveX entX (fun _ => rfl)
        (x := ({ mod := { path := p, version := v }, lineId := e.next } : Exclude))
        (ne_nil_live hp) [B "exclude", autoQuote p, v] [] rfl
        (by rw [← entries_exclude]; exact hi.mtch) (by rw [← entries_exclude]; exact hi.fresh) p1
      rw [entries_exclude]; exact this

/-! ### scalars -/

theorem addModuleStmt_inv (e : EFile) (p : Bytes) (hi : Inv e) : Inv (addModuleStmt e p) := by
  have ht := (addModuleStmt_abs e p hi.tinv).2
  have hm0 := hi.mtch
  rw [entries_module] at hm0
  unfold addModuleStmt at ht ⊢
  cases hm : e.f.module with
  | none =>
    simp only [hm] at ht ⊢
    rw [hm] at hm0
    rcases addLine_spec e.f.syn none e.next (B "module") (autoQuote p) [] hi.tree.shape hi.view2 with ⟨p1, p2, p3⟩
    refine ⟨hi.tree.of_added hi.tinv.pos p2 p3, ?_, ht⟩
    have := Match.appendSeg (·.lineId) (fun _ => true) entM (fun _ => rfl) (L := [])
      (x := ({ mod := { path := p }, lineId := e.next } : Module)) rfl [B "module", autoQuote p] [] rfl hm0
      (by have := hi.fresh; rw [entries_module, hm] at this; exact this) p1
    rw [entries_module]; exact this
  | some m =>
    simp only [hm] at ht ⊢
    rw [hm] at hm0
    refine ⟨hi.tree.updateTokens _ _, ?_, ht⟩
    have := Match.updOne (en := entM m) (en' := entM { m with mod := { m.mod with path := p } }) hi.tree hm0 rfl
      (B "module") (autoQuote p) [] (fun t0 s ha => by simp only [entM] at ha ⊢; exact ⟨by rw [ha]; rfl, trivial⟩)
    rw [entries_module]; exact this

theorem addGoStmt_inv (e e' : EFile) (v : Bytes) (hi : Inv e) (h : addGoStmt e v = .ok e') : Inv e' := by
  have ht := ((addGoStmt_abs e v hi.tinv).1 e' h).2.2
  have hm0 := hi.mtch
  rw [entries_go] at hm0
  unfold addGoStmt at h
  split at h
  · cases h
  · cases hg : e.f.go with
    | none =>
      simp only [hg, Except.ok.injEq] at h
      subst h
      rw [hg] at hm0
      rcases addLine_spec e.f.syn (e.f.module.map (·.lineId)) e.next (B "go") v [] hi.tree.shape hi.view2 with ⟨p1, p2, p3⟩
      refine ⟨hi.tree.of_added hi.tinv.pos p2 p3, ?_, ht⟩
      have := Match.appendSeg (·.lineId) (fun _ => true) entGo (fun _ => rfl) (L := [])
        (x := ({ version := v, lineId := e.next } : Go)) rfl [B "go", v] [] rfl hm0
        (by have := hi.fresh; rw [entries_go, hg] at this; exact this) p1
      rw [entries_go]; exact this
    | some g =>
      simp only [hg, Except.ok.injEq] at h
      subst h
      rw [hg] at hm0
      refine ⟨hi.tree.updateTokens _ _, ?_, ht⟩
      have := Match.updOne (en := entGo g) (en' := entGo { g with version := v }) hi.tree hm0 rfl
        (B "go") v [] (fun t0 s ha => by simp only [entGo] at ha ⊢; exact ⟨by rw [ha]; rfl, trivial⟩)
      rw [entries_go]; exact this

theorem addToolchainStmt_inv (e e' : EFile) (n : Bytes) (hi : Inv e) (h : addToolchainStmt e n = .ok e') : Inv e' := by
  have ht := ((addToolchainStmt_abs e n hi.tinv).1 e' h).2.2
  have hm0 := hi.mtch
  rw [entries_toolchain] at hm0
  unfold addToolchainStmt at h
  split at h
  · cases h
  · cases hg : e.f.toolchain with
    | none =>
      simp only [hg, Except.ok.injEq] at h
      subst h
      rw [hg] at hm0
      rcases addLine_spec e.f.syn (match e.f.go with | some g => some g.lineId | none => e.f.module.map (·.lineId)) e.next
        (B "toolchain") n [] hi.tree.shape hi.view2 with ⟨p1, p2, p3⟩
      refine ⟨hi.tree.of_added hi.tinv.pos p2 p3, ?_, ht⟩
      have := Match.appendSeg (·.lineId) (fun _ => true) entTc (fun _ => rfl) (L := [])
        (x := ({ name := n, lineId := e.next } : Toolchain)) rfl [B "toolchain", n] [] rfl hm0
        (by have := hi.fresh; rw [entries_toolchain, hg] at this; exact this) p1
      rw [entries_toolchain]; exact this
    | some g =>
      simp only [hg, Except.ok.injEq] at h
      subst h
      rw [hg] at hm0
      refine ⟨hi.tree.updateTokens _ _, ?_, ht⟩
      have := Match.updOne (en := entTc g) (en' := entTc { g with name := n }) hi.tree hm0 rfl
        (B "toolchain") n [] (fun t0 s ha => by simp only [entTc] at ha ⊢; exact ⟨by rw [ha]; rfl, trivial⟩)
      rw [entries_toolchain]; exact this

theorem dropGoStmt_inv (e : EFile) (hi : Inv e) : Inv (dropGoStmt e) := by
  have ht := (dropGoStmt_abs e hi.tinv).2
  have hm0 := hi.mtch
  rw [entries_go] at hm0
  unfold dropGoStmt at ht ⊢
  cases hg : e.f.go with
  | none => simp only [hg]; exact hi
  | some g =>
    simp only [hg] at ht ⊢
    rw [hg] at hm0
    refine ⟨hi.tree.markRemoved _, ?_, ht⟩
    have := Match.dropOne (en := entGo g) hi.tree hm0
    rw [entries_go]; exact this

theorem dropToolchainStmt_inv (e : EFile) (hi : Inv e) : Inv (dropToolchainStmt e) := by
  have ht := (dropToolchainStmt_abs e hi.tinv).2
  have hm0 := hi.mtch
  rw [entries_toolchain] at hm0
  unfold dropToolchainStmt at ht ⊢
  cases hg : e.f.toolchain with
  | none => simp only [hg]; exact hi
  | some g =>
    simp only [hg] at ht ⊢
    rw [hg] at hm0
    refine ⟨hi.tree.markRemoved _, ?_, ht⟩
    have := Match.dropOne (en := entTc g) hi.tree hm0
    rw [entries_toolchain]; exact this

/-! ### retract -/

theorem addRetract_inv (e e' : EFile) (vi : VersionInterval) (why : Bytes) (hi : Inv e)
    (h : addRetract e vi why = .ok e') : Inv e' := by
  have ht := ((addRetract_abs e vi why hi.tinv).1 e' h).2.2
  have hok := ((addRetract_abs e vi why hi.tinv).1 e' h).1
  rw [addRetract_eq] at h
  unfold addRetractP at h
  simp only [Bool.and_eq_true] at hok
  simp only [hok.1, hok.2, Bool.not_true, Bool.false_eq_true, if_false, Except.ok.injEq] at h
  subst h
  have hlive := checkCanonicalVersion_ne_nil hok.2
  -- the two token shapes
  have key : ∀ (verb t : Bytes) (rest : List Bytes), (entRt { interval := vi, rationale := [], lineId := e.next }).acc (verb :: t :: rest) [] →
      ∀ rat, Inv ⟨{ e.f with
        retract := e.f.retract ++ [{ interval := vi, rationale := rat, lineId := e.next }],
        syn := (addLine e.f.syn none (verb :: t :: rest) e.next).updateLine e.next fun l =>
          { l with comments := { l.comments with before := l.comments.before ++
            (if why.isEmpty then [] else (splitOn 10 why).map fun line => { token := B "// " ++ line }) } } }, e.next + 1⟩ →
      True := fun _ _ _ _ _ _ => trivial
  clear key
  have build : ∀ (verb t : Bytes) (rest : List Bytes) (rat : Bytes),
      (entRt { interval := vi, rationale := rat, lineId := e.next }).acc (verb :: t :: rest) [] →
      TreeWF ((addLine e.f.syn none (verb :: t :: rest) e.next).updateLine e.next fun l =>
          { l with comments := { l.comments with before := l.comments.before ++
            (if why.isEmpty then [] else (splitOn 10 why).map fun line => { token := B "// " ++ line }) } }).stmts (e.next + 1) ∧
      Match (entries { e.f with
          retract := e.f.retract ++ [{ interval := vi, rationale := rat, lineId := e.next }],
          syn := (addLine e.f.syn none (verb :: t :: rest) e.next).updateLine e.next fun l =>
            { l with comments := { l.comments with before := l.comments.before ++
              (if why.isEmpty then [] else (splitOn 10 why).map fun line => { token := B "// " ++ line }) } } })
        (view ((addLine e.f.syn none (verb :: t :: rest) e.next).updateLine e.next fun l =>
          { l with comments := { l.comments with before := l.comments.before ++
            (if why.isEmpty then [] else (splitOn 10 why).map fun line => { token := B "// " ++ line }) } }).stmts) := by
    intro verb t rest rat hacc
    rcases addLine_spec e.f.syn none e.next verb t rest hi.tree.shape hi.view2 with ⟨p1, p2, p3⟩
    have hw1 := hi.tree.of_added hi.tinv.pos p2 p3
    refine ⟨hw1.updateLine e.next _ (fun _ => rfl) (fun _ => rfl), ?_⟩
    have hv := view_updateLine_suffix (addLine e.f.syn none (verb :: t :: rest) e.next) e.next
      (fun l => { l with comments := { l.comments with before := l.comments.before ++
        (if why.isEmpty then [] else (splitOn 10 why).map fun line => { token := B "// " ++ line }) } }) (fun s => s)
      hw1.nodup (fun _ => rfl) (fun _ => rfl) (fun _ => rfl)
    rw [hv]
    have hsame : ((view (addLine e.f.syn none (verb :: t :: rest) e.next).stmts).map fun v =>
        if v.id == e.next then { v with suffix := v.suffix } else v) = view (addLine e.f.syn none (verb :: t :: rest) e.next).stmts := by
      calc _ = (view (addLine e.f.syn none (verb :: t :: rest) e.next).stmts).map (fun v => v) := by
            apply List.map_congr_left; intro v _; split <;> rfl
        _ = _ := by simp
    rw [hsame]
    have := Match.appendSeg (·.lineId) liveRt entRt (fun _ => rfl)
      (x := ({ interval := vi, rationale := rat, lineId := e.next } : Retract))
      (by simp [liveRt, hlive]) (verb :: t :: rest) [] hacc
      (by rw [← entries_retract]; exact hi.mtch) (by rw [← entries_retract]; exact hi.fresh) p1
    rw [entries_retract]; exact this
  by_cases hlh : (vi.low == vi.high) = true
  · simp only [hlh, if_true]
    rcases build (B "retract") (autoQuote vi.low) [] _ (Or.inl ⟨_, rfl, Or.inr rfl, eq_of_beq hlh⟩) with ⟨h1, h2⟩
    simp only [hlh, if_true] at ht
    exact ⟨h1, h2, ht⟩
  · simp only [hlh, Bool.false_eq_true, if_false]
    rcases build (B "retract") [91] [autoQuote vi.low, [44], autoQuote vi.high, [93]] _
      (Or.inr ⟨_, _, rfl, Or.inr rfl, Or.inr rfl⟩) with ⟨h1, h2⟩
    simp only [hlh, Bool.false_eq_true, if_false] at ht
    exact ⟨h1, h2, ht⟩

/-! ### Cleanup, SortBlocks, AddTool -/

theorem entsOf_filter_live {α : Type} (live : α → Bool) (mk : α → Ent) (l : List α) :
    entsOf live mk (l.filter live) = entsOf live mk l := by
  simp [entsOf, List.filter_filter]

theorem cleanup_inv (e : EFile) (hi : Inv e) : Inv (cleanup e) := by
  rcases cleanupStmts_spec e.f.syn.stmts hi.tree.shape with ⟨c1, c2, c3⟩
  refine ⟨hi.tree.of_sublist c2 c3, ?_, (cleanup_abs e hi.tinv).2⟩
  show Match (entries (cleanup e).f) (view (cleanupStmts e.f.syn.stmts))
  rw [c1]
  have : entries (cleanup e).f = entries e.f := by
    simp only [entries, cleanup]
    have h1 : entsOf liveG entG (e.f.godebug.filter fun x => !x.key.isEmpty) = entsOf liveG entG e.f.godebug :=
      entsOf_filter_live liveG entG e.f.godebug
    have h2 : entsOf liveRq entRq (e.f.require.filter fun x => !x.mod.path.isEmpty) = entsOf liveRq entRq e.f.require :=
      entsOf_filter_live liveRq entRq e.f.require
    have h3 : entsOf liveX entX (e.f.exclude.filter fun x => !x.mod.path.isEmpty) = entsOf liveX entX e.f.exclude :=
      entsOf_filter_live liveX entX e.f.exclude
    have h4 : entsOf liveRp entRp (e.f.replace.filter fun x => !x.old.path.isEmpty) = entsOf liveRp entRp e.f.replace :=
      entsOf_filter_live liveRp entRp e.f.replace
    have h5 : entsOf liveRt entRt (e.f.retract.filter fun r => !r.interval.low.isEmpty || !r.interval.high.isEmpty)
        = entsOf liveRt entRt e.f.retract := entsOf_filter_live liveRt entRt e.f.retract
    have h6 : entsOf liveT entT (e.f.tool.filter fun x => !x.path.isEmpty) = entsOf liveT entT e.f.tool :=
      entsOf_filter_live liveT entT e.f.tool
    rw [h1, h2, h3, h4, h5, h6]
  rw [this]; exact hi.mtch

/-- the kill lists of `removeDups` -/
def kill1 (f : File) : List Nat := killLater (fun x : Exclude => x.mod) (·.lineId) f.exclude []
def kill2 (f : File) : List Nat := kill1 f ++ killEarlier f.replace
def kill3 (f : File) : List Nat := kill2 f ++ killLater (fun t : Tool => t.path) (·.lineId) f.tool []

theorem sortBlocks_eq (e : EFile) : ∃ sem : Bool,
    sortBlocks e = { e with f := { e.f with
      exclude := e.f.exclude.filter (fun x => !(kill1 e.f).contains x.lineId),
      replace := e.f.replace.filter (fun x => !(kill2 e.f).contains x.lineId),
      tool := e.f.tool.filter (fun t => !(kill3 e.f).contains t.lineId),
      syn := { e.f.syn with stmts := sortStmts sem false (dropKilled (kill3 e.f) e.f.syn.stmts) } } } := by
  unfold sortBlocks Edit.removeDups
  exact ⟨_, rfl⟩

theorem kill3_src (f : File) : ∀ i ∈ kill3 f,
    (∃ z ∈ f.exclude, z.lineId = i) ∨ (∃ z ∈ f.replace, z.lineId = i) ∨ (∃ z ∈ f.tool, z.lineId = i) := by
  intro i hi
  simp only [kill3, kill2, kill1, List.mem_append] at hi
  rcases hi with (h | h) | h
  · exact Or.inl (killLater_subset _ _ _ _ _ h)
  · exact Or.inr (Or.inl (killEarlier_subset _ _ h))
  · exact Or.inr (Or.inr (killLater_subset _ _ _ _ _ h))

theorem sortBlocks_inv (e : EFile) (hi : Inv e) : Inv (sortBlocks e) := by
  have ht := (sortBlocks_abs e hi.tinv).2
  rcases sortBlocks_eq e with ⟨sem, heq⟩
  rw [heq] at ht ⊢
  rcases dropKilled_spec (kill3 e.f) e.f.syn.stmts hi.tree.shape with ⟨d1, d2, d3⟩
  rcases sortStmts_spec sem false _ d3 with ⟨s1, s2, s3⟩
  have hw2 := hi.tree.of_sublist d2 d3
  refine ⟨hw2.of_perm s2 s3, ?_, ht⟩
  refine Match.perm ?_ s1
  rw [d1]
  -- disjointness of the exclude / replace / tool ids
  rcases List.nodup_append.1 hi.tinv.nodup with ⟨_, ndRT, disX⟩
  rcases List.nodup_append.1 ndRT with ⟨_, _, disRT⟩
  have hm := hi.mtch
  -- an entry's id is not the nil id
  have hpos : ∀ en ∈ entries e.f, en.id ≠ 0 := by
    intro en hen
    rcases hm.cover en hen with ⟨v, hv, hid, _⟩
    rw [← hid]; exact hi.tree.pos _ (view_id_mem_treeIds hv)
  -- ids in the kill list belong to exclude / replace / tool entries
  have hXk : ∀ x ∈ e.f.exclude, liveX x = true → (kill3 e.f).contains x.lineId = (kill1 e.f).contains x.lineId := by
    intro x hx hl
    have h1 : x.lineId ∉ killEarlier e.f.replace :=
      kill_disjoint hi.tinv.wfR hi.tinv.wfX (fun a ha b hb => (disX b hb a (List.mem_append_left _ ha)).symm)
        (fun i hi' => killEarlier_subset _ i hi') x hx hl
    have h2 : x.lineId ∉ killLater (fun t : Tool => t.path) (·.lineId) e.f.tool [] :=
      kill_disjoint hi.tinv.wfT hi.tinv.wfX (fun a ha b hb => (disX b hb a (List.mem_append_right _ ha)).symm)
        (fun i hi' => killLater_subset _ _ _ _ i hi') x hx hl
    simp only [kill3, kill2, List.contains_append]
    have e1 : (killEarlier e.f.replace).contains x.lineId = false := by simpa using h1
    have e2 : (killLater (fun t : Tool => t.path) (·.lineId) e.f.tool []).contains x.lineId = false := by simpa using h2
    rw [e1, e2]; simp
  have hRk : ∀ r ∈ e.f.replace, liveRp r = true → (kill3 e.f).contains r.lineId = (kill2 e.f).contains r.lineId := by
    intro r hr hl
    have h2 : r.lineId ∉ killLater (fun t : Tool => t.path) (·.lineId) e.f.tool [] :=
      kill_disjoint hi.tinv.wfT hi.tinv.wfR (fun a ha b hb => (disRT b hb a ha).symm)
        (fun i hi' => killLater_subset _ _ _ _ i hi') r hr hl
    simp only [kill3, List.contains_append]
    have e2 : (killLater (fun t : Tool => t.path) (·.lineId) e.f.tool []).contains r.lineId = false := by simpa using h2
    rw [e2]; simp
  -- entries outside the three lists are never killed
  have hother : ∀ en, (en ∈ segA_exclude e.f ∨ en ∈ entsOf liveRt entRt e.f.retract) → (kill3 e.f).contains en.id = false := by
    intro en hen
    have henE : en ∈ entries e.f := by
      rw [entries_exclude]
      rcases hen with h | h
      · exact List.mem_append_left _ h
      · exact List.mem_append_right _ (List.mem_append_right _ (by
          simp only [segC_exclude, List.mem_append]; exact Or.inr (Or.inl h)))
    cases hc : (kill3 e.f).contains en.id with
    | false => rfl
    | true =>
      exfalso
      have hmem : en.id ∈ kill3 e.f := by simpa using hc
      rcases kill3_src e.f _ hmem with ⟨z, hz, hzid⟩ | ⟨z, hz, hzid⟩ | ⟨z, hz, hzid⟩
      · have hlz : liveX z = true := by
          cases hl : liveX z with
          | true => rfl
          | false => exact absurd (hzid ▸ (hi.tinv.wfX z hz).2 hl) (hpos en henE)
        have := seg_disjoint (by rw [← entries_exclude]; exact hm) (en := en) (en' := entX z)
          (by rcases hen with h | h
              · exact Or.inl h
              · exact Or.inr (by simp only [segC_exclude, List.mem_append]; exact Or.inr (Or.inl h)))
          ((mem_entsOf liveX entX).2 ⟨z, hz, hlz, rfl⟩)
        exact this hzid.symm
      · have hlz : liveRp z = true := by
          cases hl : liveRp z with
          | true => rfl
          | false => exact absurd (hzid ▸ (hi.tinv.wfR z hz).2 hl) (hpos en henE)
        have := seg_disjoint (by rw [← entries_replace]; exact hm) (en := en) (en' := entRp z)
          (by rcases hen with h | h
              · exact Or.inl (by simp only [segA_replace, List.mem_append]; exact Or.inl h)
              · exact Or.inr (by simp only [segC_replace, List.mem_append]; exact Or.inl h))
          ((mem_entsOf liveRp entRp).2 ⟨z, hz, hlz, rfl⟩)
        exact this hzid.symm
      · have hlz : liveT z = true := by
          cases hl : liveT z with
          | true => rfl
          | false => exact absurd (hzid ▸ (hi.tinv.wfT z hz).2 hl) (hpos en henE)
        have := seg_disjoint (by rw [← entries_tool]; exact hm) (en := en) (en' := entT z)
          (by rcases hen with h | h
              · exact Or.inl (by simp only [segA_tool, segA_retract, segA_replace, List.mem_append]; exact Or.inl (Or.inl (Or.inl h)))
              · exact Or.inl (by simp only [segA_tool, List.mem_append]; exact Or.inr h))
          ((mem_entsOf liveT entT).2 ⟨z, hz, hlz, rfl⟩)
        exact this hzid.symm
  -- the entries after SortBlocks are the entries that were not killed
  have hent : entries { e.f with
      exclude := e.f.exclude.filter (fun x => !(kill1 e.f).contains x.lineId),
      replace := e.f.replace.filter (fun x => !(kill2 e.f).contains x.lineId),
      tool := e.f.tool.filter (fun t => !(kill3 e.f).contains t.lineId),
      syn := { e.f.syn with stmts := sortStmts sem false (dropKilled (kill3 e.f) e.f.syn.stmts) } }
      = (entries e.f).filter (fun en => !(kill3 e.f).contains en.id) := by
    rw [entries_exclude, entries_exclude]
    simp only [List.filter_append]
    have hA : (segA_exclude e.f).filter (fun en => !(kill3 e.f).contains en.id) = segA_exclude e.f := by
      apply List.filter_eq_self.2
      intro en hen; rw [hother en (Or.inl hen)]; rfl
    have hRt : (entsOf liveRt entRt e.f.retract).filter (fun en => !(kill3 e.f).contains en.id) = entsOf liveRt entRt e.f.retract := by
      apply List.filter_eq_self.2
      intro en hen; rw [hother en (Or.inr hen)]; rfl
    have hX : entsOf liveX entX (e.f.exclude.filter (fun x => !(kill1 e.f).contains x.lineId))
        = (entsOf liveX entX e.f.exclude).filter (fun en => !(kill3 e.f).contains en.id) := by
      unfold entsOf
      rw [List.filter_map, List.filter_filter, List.filter_filter]
      congr 1
      apply List.filter_congr
      intro x hx
      simp only [Function.comp, entX]
      by_cases hl : liveX x = true
      · rw [hXk x hx hl, hl]; simp
      · simp only [Bool.not_eq_true] at hl; simp [hl]
    have hR : entsOf liveRp entRp (e.f.replace.filter (fun x => !(kill2 e.f).contains x.lineId))
        = (entsOf liveRp entRp e.f.replace).filter (fun en => !(kill3 e.f).contains en.id) := by
      unfold entsOf
      rw [List.filter_map, List.filter_filter, List.filter_filter]
      congr 1
      apply List.filter_congr
      intro x hx
      simp only [Function.comp, entRp]
      by_cases hl : liveRp x = true
      · rw [hRk x hx hl, hl]; simp
      · simp only [Bool.not_eq_true] at hl; simp [hl]
    have hT : entsOf liveT entT (e.f.tool.filter (fun t => !(kill3 e.f).contains t.lineId))
        = (entsOf liveT entT e.f.tool).filter (fun en => !(kill3 e.f).contains en.id) := by
      unfold entsOf
      rw [List.filter_map, List.filter_filter, List.filter_filter]
      congr 1
      apply List.filter_congr
      intro x _
      simp only [Function.comp, entT]
      exact Bool.and_comm _ _
    simp only [segC_exclude, List.filter_append, hA, hRt, ← hX, ← hR, ← hT]
    rfl
  rw [hent]
  exact hm.filter (kill3 e.f)

theorem addTool_inv (e : EFile) (p : Bytes) (hp : p ≠ []) (hi : Inv e) : Inv (addTool e p) := by
  unfold addTool
  split
  · exact hi
  · apply sortBlocks_inv
    rcases addLine_spec e.f.syn none e.next (B "tool") p [] hi.tree.shape hi.view2 with ⟨p1, p2, p3⟩
    have hmid : TInv (⟨{ e.f with tool := e.f.tool ++ [{ path := p, lineId := e.next }], syn := addLine e.f.syn none [B "tool", p] e.next }, e.next + 1⟩ : EFile) := by
      have hti := hi.tinv
      refine TInv.of_sublist_fresh hti hti.wfX hti.wfR
        (IdWF_append _ _ hti.wfT (IdWF_single _ _ _ (ne_nil_live hp) (Nat.ne_of_gt hti.pos))) _ (List.Sublist.refl _) ?_ (Nat.lt_succ_self _)
      simp only [idsOf, liveIds_append]
      have : liveIds liveT (·.lineId) [({ path := p, lineId := e.next } : Tool)] = [e.next] := by
        simp [liveIds, liveT, ne_nil_live hp]
      rw [this, ← List.append_assoc, ← List.append_assoc]
      exact (List.perm_middle).trans (by simp)
    refine ⟨hi.tree.of_added hi.tinv.pos p2 p3, ?_, hmid⟩
    have := Match.appendSeg (·.lineId) liveT entT (fun _ => rfl)
      (x := ({ path := p, lineId := e.next } : Tool))
      (ne_nil_live hp) [B "tool", p] [] ⟨p, rfl, Or.inl rfl⟩
      (by rw [← entries_tool]; exact hi.mtch) (by rw [← entries_tool]; exact hi.fresh) p1
    rw [entries_tool]; exact this

end ModVerif.Modfile.Edit
