/-
  EditMore, part 12 — consequences of `setRequireSeparateIndirect_inv`: the tree after SetRequireSeparateIndirect holds
  exactly the requested requirement lines (`setRequireSeparateIndirect_tree_exact`); one-operation and whole-session
  preservation of the tree invariant for ALL go.mod operations (`applyMod_inv_all`, `runOps_inv_all`).
-/
import ModVerif.Proofs.EditMoreSepF
import ModVerif.Proofs.EditRefineInvRun
set_option linter.unusedSimpArgs false
namespace ModVerif.Modfile.Edit
open ModVerif ModVerif.Modfile

/-- **SetRequireSeparateIndirect on the tree** (C16 at the level of the syntax tree): after the call and Cleanup, for every
    requested entry there is a live line `require <path> <version>` carrying the indirect marker iff requested, and every
    live `require` line of the tree is the line of a requested entry -/
theorem setRequireSeparateIndirect_tree_exact (e e' : EFile) (want : List Want) (perm : List Want → List Want)
    (hperm : ∀ l, (perm l).Perm l) (hg : GoodWant want) (hi : Inv e) (hlive : ∀ r ∈ e.f.require, liveRq r = true)
    (hset : NoNestedIndirectMarker e) (h : setRequireSeparateIndirect e want perm = .ok e') :
    Inv (cleanup e') ∧
    (∀ w ∈ want, ∃ v ∈ view (cleanup e').f.syn.stmts, v.toks = [B "require", autoQuote w.path, w.vers] ∧
      isIndirectS v.suffix = w.indirect) ∧
    (∀ v ∈ view (cleanup e').f.syn.stmts, v.toks.head? = some (B "require") →
      ∃ w ∈ want, v.toks = [B "require", autoQuote w.path, w.vers] ∧ isIndirectS v.suffix = w.indirect) := by
  have hi' := cleanup_inv e' (setRequireSeparateIndirect_inv e e' want perm hperm hg hi hlive hset h)
  rcases setRequireSeparateIndirect_exact e e' want perm hperm hg hi.tinv h with ⟨hp, _, hsub⟩
  refine ⟨hi', ?_, ?_⟩
  · intro w hw
    have hmem : w.toReq ∈ (absOf (cleanup e').f).require := hp.symm.subset (List.mem_map.2 ⟨w, hw, rfl⟩)
    simp only [absOf, List.mem_map] at hmem
    rcases hmem with ⟨r, hr, hreq⟩
    simp only [Want.toReq, EditSpec.Req.mk.injEq] at hreq
    have hl : r.mod.path ≠ [] := by rw [hreq.1]; exact hg.2 w hw
    rcases hi'.require_line r hr hl with ⟨v, hv, _, htoks, hind⟩
    exact ⟨v, hv, by rw [htoks, hreq.1, hreq.2.1], by rw [hind, hreq.2.2]⟩
  · intro v hv hverb
    rcases hi'.require_line_entry v hv hverb with ⟨r, hr, _, _, htoks, hind⟩
    have hmem : (⟨r.mod.path, r.mod.version, r.indirect⟩ : EditSpec.Req) ∈ (absOf (cleanup e').f).require := by
      simp only [absOf, List.mem_map]; exact ⟨r, hr, rfl⟩
    rcases hsub _ hmem with ⟨w, hw, heq⟩
    simp only [Want.toReq, EditSpec.Req.mk.injEq] at heq
    exact ⟨w, hw, by rw [htoks, heq.1, heq.2.1], by rw [hind, heq.2.2]⟩

/-- validity of an operation's arguments in a given state: as `ValidArgsT`, and for the two bulk requirement setters
    distinct non-empty paths, every typed requirement live (a Cleanup has just run, as the property prescribes) and
    `NoNestedIndirectMarker` (excluding the recorded finding `C16_violated_indirect_marker_survives`) -/
def ValidArgsAll (e : EFile) : Op → Prop
  | .setRequire w _ => GoodWant w ∧ (∀ r ∈ e.f.require, liveRq r = true) ∧ NoNestedIndirectMarker e
  | .setRequireSeparateIndirect w _ => GoodWant w ∧ (∀ r ∈ e.f.require, liveRq r = true) ∧ NoNestedIndirectMarker e
  | op => ValidArgsT op

/-- **one operation preserves the invariant — every go.mod operation** -/
theorem applyMod_inv_all (e e' : EFile) (op : Op) (hv : ValidArgsAll e op) (hi : Inv e) (h : applyMod e op = some (.ok e')) :
    Inv e' := by
  cases op with
  | setRequire w r =>
    simp only [applyMod, Option.some.injEq] at h
    exact setRequire_inv e e' w (permOf r) (permOf_perm r) hv.1 hi hv.2.1 hv.2.2 h
  | setRequireSeparateIndirect w r =>
    simp only [applyMod, Option.some.injEq] at h
    exact setRequireSeparateIndirect_inv e e' w (permOf r) (permOf_perm r) hv.1 hi hv.2.1 hv.2.2 h
  | addModule p => exact applyMod_inv e e' _ (by simpa [ValidArgsAll] using hv) hi h
  | addGo v => exact applyMod_inv e e' _ (by simpa [ValidArgsAll] using hv) hi h
  | dropGo => exact applyMod_inv e e' _ (by simpa [ValidArgsAll] using hv) hi h
  | addToolchain n => exact applyMod_inv e e' _ (by simpa [ValidArgsAll] using hv) hi h
  | dropToolchain => exact applyMod_inv e e' _ (by simpa [ValidArgsAll] using hv) hi h
  | addGodebug k v => exact applyMod_inv e e' _ (by simpa [ValidArgsAll] using hv) hi h
  | dropGodebug k => exact applyMod_inv e e' _ (by simpa [ValidArgsAll] using hv) hi h
  | addRequire p v => exact applyMod_inv e e' _ (by simpa [ValidArgsAll] using hv) hi h
  | addNewRequire p v i => exact applyMod_inv e e' _ (by simpa [ValidArgsAll] using hv) hi h
  | dropRequire p => exact applyMod_inv e e' _ (by simpa [ValidArgsAll] using hv) hi h
  | addExclude p v => exact applyMod_inv e e' _ (by simpa [ValidArgsAll] using hv) hi h
  | dropExclude p v => exact applyMod_inv e e' _ (by simpa [ValidArgsAll] using hv) hi h
  | addReplace a b c d => exact applyMod_inv e e' _ (by simpa [ValidArgsAll] using hv) hi h
  | dropReplace a b => exact applyMod_inv e e' _ (by simpa [ValidArgsAll] using hv) hi h
  | addRetract lo hi' why => exact applyMod_inv e e' _ (by simpa [ValidArgsAll] using hv) hi h
  | dropRetract lo hi' => exact applyMod_inv e e' _ (by simpa [ValidArgsAll] using hv) hi h
  | addTool p => exact applyMod_inv e e' _ (by simpa [ValidArgsAll] using hv) hi h
  | dropTool p => exact applyMod_inv e e' _ (by simpa [ValidArgsAll] using hv) hi h
  | sortBlocks => exact applyMod_inv e e' _ (by simpa [ValidArgsAll] using hv) hi h
  | cleanup => exact applyMod_inv e e' _ (by simpa [ValidArgsAll] using hv) hi h
  | addUse d m => exact applyMod_inv e e' _ (by simpa [ValidArgsAll] using hv) hi h
  | addNewUse d m => exact applyMod_inv e e' _ (by simpa [ValidArgsAll] using hv) hi h
  | dropUse d => exact applyMod_inv e e' _ (by simpa [ValidArgsAll] using hv) hi h
  | setUse w rev => exact applyMod_inv e e' _ (by simpa [ValidArgsAll] using hv) hi h

/-- the arguments of every operation of a session are valid in the state in which the operation runs -/
def RunValid : EFile → List Op → Prop
  | _, [] => True
  | e, op :: ops =>
    ValidArgsAll e op ∧
      (∀ e', applyMod e op = some (.ok e') → RunValid e' ops) ∧
      (∀ err, applyMod e op = some (.error err) → err.isReturned = true → RunValid e ops)

/-- a whole session of go.mod operations (bulk setters included) preserves the invariant -/
theorem runOps_inv_all (ops : List Op) : ∀ (e : EFile) (res0 : List Bool) (i : Nat) (e' : EFile) (res : List Bool),
    RunValid e ops → Inv e → runOps applyMod e ops res0 i = .done e' res → Inv e' := by
  induction ops with
  | nil =>
    intro e res0 i e' res _ hi h
    simp only [runOps, SessionResult.done.injEq] at h
    rw [← h.1]; exact hi
  | cons op ops ih =>
    intro e res0 i e' res hv hi h
    unfold runOps at h
    cases ha : applyMod e op with
    | none => simp [ha] at h
    | some r =>
      cases r with
      | ok e1 =>
        simp only [ha] at h
        exact ih e1 _ _ e' res (hv.2.1 e1 ha) (applyMod_inv_all e e1 op hv.1 hi ha) h
      | error err =>
        simp only [ha] at h
        by_cases hr : err.isReturned = true
        · simp only [hr, if_true] at h
          exact ih e _ _ e' res (hv.2.2 err ha hr) hi h
        · simp only [Bool.not_eq_true] at hr
          simp [hr] at h

/-- **C15 `typed_eq_tree`, tree half, every go.mod operation**: from a state satisfying the invariant, after any session
    whose arguments are valid (`RunValid`) and the final Cleanup, the typed lists are the directive-level reading of the
    tree -/
theorem typed_eq_tree_all (e e' : EFile) (ops : List Op) (res : List Bool) (hi : Inv e) (hv : RunValid e ops)
    (h : runOps applyMod e ops [] 0 = .done e' res) : Inv (cleanup e') :=
  cleanup_inv e' (runOps_inv_all ops e [] 0 e' res hv hi h)


/-! ### executable checks of the hypotheses (for concrete instances) -/

def validArgsTB : Op → Bool
  | .addGodebug k _ => !k.isEmpty
  | .dropGodebug k => !k.isEmpty
  | .addRequire p _ => !p.isEmpty
  | .addNewRequire p _ _ => !p.isEmpty
  | .dropRequire p => !p.isEmpty
  | .setRequire _ _ => false
  | .setRequireSeparateIndirect _ _ => false
  | .addExclude p _ => !p.isEmpty
  | .dropExclude p _ => !p.isEmpty
  | .addReplace op _ _ _ => !op.isEmpty
  | .dropReplace op _ => !op.isEmpty
  | .dropRetract lo hi => !lo.isEmpty || !hi.isEmpty
  | .addTool p => !p.isEmpty
  | .dropTool p => !p.isEmpty
  | _ => true

theorem validArgsTB_sound (op : Op) (h : validArgsTB op = true) : ValidArgsT op := by
  cases op <;> simp only [validArgsTB, ValidArgsT, Bool.or_eq_true] at h ⊢ <;>
    first
      | trivial
      | exact isEmpty_false_ne h
      | (cases h; done)
      | exact h.elim (fun h => Or.inl (isEmpty_false_ne h)) (fun h => Or.inr (isEmpty_false_ne h))

def goodWantB (w : List Want) : Bool := decide (w.Pairwise (fun a b => a.path ≠ b.path)) && w.all (fun x => !x.path.isEmpty)

theorem goodWantB_sound (w : List Want) (h : goodWantB w = true) : GoodWant w := by
  simp only [goodWantB, Bool.and_eq_true, decide_eq_true_eq, List.all_eq_true] at h
  exact ⟨h.1, fun x hx => isEmpty_false_ne (h.2 x hx)⟩

def bulkOKB (e : EFile) (w : List Want) : Bool :=
  goodWantB w && e.f.require.all liveRq && (view e.f.syn.stmts).all (fun v => decide (MarkerSettable v.suffix))

theorem bulkOKB_sound (e : EFile) (w : List Want) (h : bulkOKB e w = true) :
    GoodWant w ∧ (∀ r ∈ e.f.require, liveRq r = true) ∧ NoNestedIndirectMarker e := by
  simp only [bulkOKB, Bool.and_eq_true] at h
  exact ⟨goodWantB_sound w h.1.1, List.all_eq_true.1 h.1.2, NoNestedIndirectMarker.of_all e h.2⟩

def validArgsAllB (e : EFile) : Op → Bool
  | .setRequire w _ => bulkOKB e w
  | .setRequireSeparateIndirect w _ => bulkOKB e w
  | op => validArgsTB op

theorem validArgsAllB_sound (e : EFile) (op : Op) (h : validArgsAllB e op = true) : ValidArgsAll e op := by
  cases op <;> first
    | exact bulkOKB_sound e _ h
    | (simp only [ValidArgsAll]; exact validArgsTB_sound _ h)

/-- `RunValid` as a Boolean test that follows the run -/
def runValidB : EFile → List Op → Bool
  | _, [] => true
  | e, op :: ops =>
    validArgsAllB e op &&
      (match applyMod e op with
       | some (.ok e') => runValidB e' ops
       | some (.error err) => !err.isReturned || runValidB e ops
       | none => true)

theorem runValidB_sound (ops : List Op) : ∀ e : EFile, runValidB e ops = true → RunValid e ops := by
  induction ops with
  | nil => intro e _; trivial
  | cons op ops ih =>
    intro e h
    simp only [runValidB, Bool.and_eq_true] at h
    refine ⟨validArgsAllB_sound e op h.1, ?_, ?_⟩
    · intro e' ha
      have := h.2; rw [ha] at this
      exact ih e' this
    · intro err ha hr
      have := h.2; rw [ha] at this
      simp only [hr, Bool.not_true, Bool.false_or] at this
      exact ih e this

end ModVerif.Modfile.Edit
