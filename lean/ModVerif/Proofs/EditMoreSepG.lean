/-
  EditMore, part 12 — consequences of `setRequireSeparateIndirect_inv`: the tree after SetRequireSeparateIndirect holds
  exactly the requested requirement lines (`setRequireSeparateIndirect_tree_exact`); one-operation and whole-session
  preservation of the tree invariant for ALL go.mod operations (`applyMod_inv_all`, `runOps_inv_all`).
-/
import ModVerif.Proofs.EditMoreSepF
import ModVerif.Proofs.EditRefineInvRun
set_option linter.unusedSimpArgs false
namespace ModVerif.Modfile.Edit
open ModVerif ModVerif.Modfile

/-- **SetRequireSeparateIndirect on the tree** (C16 at the level of the syntax tree): after the call and Cleanup, for every
    requested entry there is a live line `require <path> <version>` carrying the indirect marker iff requested, and every
    live `require` line of the tree is the line of a requested entry -/
theorem setRequireSeparateIndirect_tree_exact (e e' : EFile) (want : List Want) (perm : List Want → List Want)
    (hperm : ∀ l, (perm l).Perm l) (hg : GoodWant want) (hi : Inv e) (hlive : ∀ r ∈ e.f.require, liveRq r = true)
    (hset : NoNestedIndirectMarker e) (h : setRequireSeparateIndirect e want perm = .ok e') :
    Inv (cleanup e') ∧
    (∀ w ∈ want, ∃ v ∈ view (cleanup e').f.syn.stmts, v.toks = [B "require", autoQuote w.path, w.vers] ∧
      isIndirectS v.suffix = w.indirect) ∧
    (∀ v ∈ view (cleanup e').f.syn.stmts, v.toks.head? = some (B "require") →
      ∃ w ∈ want, v.toks = [B "require", autoQuote w.path, w.vers] ∧ isIndirectS v.suffix = w.indirect) := by
  have hi' := cleanup_inv e' (setRequireSeparateIndirect_inv e e' want perm hperm hg hi hlive hset h)
  rcases setRequireSeparateIndirect_exact e e' want perm hperm hg hi.tinv h with ⟨hp, _, hsub⟩
  refine ⟨hi', ?_, ?_⟩
  · intro w hw
    have hmem : w.toReq ∈ (absOf (cleanup e').f).require := hp.symm.subset (List.mem_map.2 ⟨w, hw, rfl⟩)
    simp only [absOf, List.mem_map] at hmem
    rcases hmem with ⟨r, hr, hreq⟩
    simp only [Want.toReq, EditSpec.Req.mk.injEq] at hreq
    have hl : r.mod.path ≠ [] := by rw [hreq.1]; exact hg.2 w hw
    rcases hi'.require_line r hr hl with ⟨v, hv, _, htoks, hind⟩
    exact ⟨v, hv, by rw [htoks, hreq.1, hreq.2.1], by rw [hind, hreq.2.2]⟩
  · intro v hv hverb
    rcases hi'.require_line_entry v hv hverb with ⟨r, hr, _, _, htoks, hind⟩
    have hmem : (⟨r.mod.path, r.mod.version, r.indirect⟩ : EditSpec.Req) ∈ (absOf (cleanup e').f).require := by
      simp only [absOf, List.mem_map]; exact ⟨r, hr, rfl⟩
    rcases hsub _ hmem with ⟨w, hw, heq⟩
    simp only [Want.toReq, EditSpec.Req.mk.injEq] at heq
    exact ⟨w, hw, by rw [htoks, heq.1, heq.2.1], by rw [hind, heq.2.2]⟩

/-- validity of an operation's arguments in a given state: as `ValidArgsT`, and for the two bulk requirement setters
    distinct non-empty paths, every typed requirement live (a Cleanup has just run, as the property prescribes) and
    `NoNestedIndirectMarker` (excluding the recorded finding `C16_violated_indirect_marker_survives`) -/
def ValidArgsAll (e : EFile) : Op → Prop
  | .setRequire w _ => GoodWant w ∧ (∀ r ∈ e.f.require, liveRq r = true) ∧ NoNestedIndirectMarker e
  | .setRequireSeparateIndirect w _ => GoodWant w ∧ (∀ r ∈ e.f.require, liveRq r = true) ∧ NoNestedIndirectMarker e
  | op => ValidArgsT op

/-- **one operation preserves the invariant — every go.mod operation** -/
theorem applyMod_inv_all (e e' : EFile) (op : Op) (hv : ValidArgsAll e op) (hi : Inv e) (h : applyMod e op = some (.ok e')) :
    Inv e' := by
  cases op with
  | setRequire w r =>
    simp only [applyMod, Option.some.injEq] at h
    exact setRequire_inv e e' w (permOf r) (permOf_perm r) hv.1 hi hv.2.1 hv.2.2 h
  | setRequireSeparateIndirect w r =>
    simp only [applyMod, Option.some.injEq] at h
    exact setRequireSeparateIndirect_inv e e' w (permOf r) (permOf_perm r) hv.1 hi hv.2.1 hv.2.2 h
  | addModule p => exact applyMod_inv e e' _ hv hi h
  | addGo v => exact applyMod_inv e e' _ hv hi h
  | dropGo => exact applyMod_inv e e' _ hv hi h
  | addToolchain n => exact applyMod_inv e e' _ hv hi h
  | dropToolchain => exact applyMod_inv e e' _ hv hi h
  | addGodebug k v => exact applyMod_inv e e' _ hv hi h
  | dropGodebug k => exact applyMod_inv e e' _ hv hi h
  | addRequire p v => exact applyMod_inv e e' _ hv hi h
  | addNewRequire p v i => exact applyMod_inv e e' _ hv hi h
  | dropRequire p => exact applyMod_inv e e' _ hv hi h
  | addExclude p v => exact applyMod_inv e e' _ hv hi h
  | dropExclude p v => exact applyMod_inv e e' _ hv hi h
  | addReplace a b c d => exact applyMod_inv e e' _ hv hi h
  | dropReplace a b => exact applyMod_inv e e' _ hv hi h
  | addRetract lo hi' why => exact applyMod_inv e e' _ hv hi h
  | dropRetract lo hi' => exact applyMod_inv e e' _ hv hi h
  | addTool p => exact applyMod_inv e e' _ hv hi h
  | dropTool p => exact applyMod_inv e e' _ hv hi h
  | sortBlocks => exact applyMod_inv e e' _ hv hi h
  | cleanup => exact applyMod_inv e e' _ hv hi h
  | addUse d m => exact applyMod_inv e e' _ hv hi h
  | addNewUse d m => exact applyMod_inv e e' _ hv hi h
  | dropUse d => exact applyMod_inv e e' _ hv hi h
  | setUse w rev => exact applyMod_inv e e' _ hv hi h

/-- the arguments of every operation of a session are valid in the state in which the operation runs -/
def RunValid : EFile → List Op → Prop
  | _, [] => True
  | e, op :: ops =>
    ValidArgsAll e op ∧
      (∀ e', applyMod e op = some (.ok e') → RunValid e' ops) ∧
      (∀ err, applyMod e op = some (.error err) → err.isReturned = true → RunValid e ops)

/-- a whole session of go.mod operations (bulk setters included) preserves the invariant -/
theorem runOps_inv_all (ops : List Op) : ∀ (e : EFile) (res0 : List Bool) (i : Nat) (e' : EFile) (res : List Bool),
    RunValid e ops → Inv e → runOps applyMod e ops res0 i = .done e' res → Inv e' := by
  induction ops with
  | nil =>
    intro e res0 i e' res _ hi h
    simp only [runOps, SessionResult.done.injEq] at h
    rw [← h.1]; exact hi
  | cons op ops ih =>
    intro e res0 i e' res hv hi h
    unfold runOps at h
    cases ha : applyMod e op with
    | none => simp [ha] at h
    | some r =>
      cases r with
      | ok e1 =>
        simp only [ha] at h
        exact ih e1 _ _ e' res (hv.2.1 e1 ha) (applyMod_inv_all e e1 op hv.1 hi ha) h
      | error err =>
        simp only [ha] at h
        by_cases hr : err.isReturned = true
        · simp only [hr, if_true] at h
          exact ih e _ _ e' res (hv.2.2 err ha hr) hi h
        · simp only [Bool.not_eq_true] at hr
          simp [hr] at h

/-- **C15 `typed_eq_tree`, tree half, every go.mod operation**: from a state satisfying the invariant, after any session
    whose arguments are valid (`RunValid`) and the final Cleanup, the typed lists are the directive-level reading of the
    tree -/
theorem typed_eq_tree_all (e e' : EFile) (ops : List Op) (res : List Bool) (hi : Inv e) (hv : RunValid e ops)
    (h : runOps applyMod e ops [] 0 = .done e' res) : Inv (cleanup e') :=
  cleanup_inv e' (runOps_inv_all ops e [] 0 e' res hv hi h)

end ModVerif.Modfile.Edit
