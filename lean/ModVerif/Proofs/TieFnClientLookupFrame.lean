/-
  The hand model of the sumdb client (Model/Client.lean) never READS the field `inited` below `init`: every function
  from `readTile` up to `mergeLatest` and `checkRecord` commutes with overwriting it.  Needed by the tie of
  `Client.initWork`: the generated code sets `initOnce` BEFORE running `initWork` (so `mergeLatest` runs in a world whose
  `initDone` is already true), the model sets `inited` at the end of `initWork`.
-/
import ModVerif.Model.Client
namespace ModVerif.TieFnClientLookup
open ModVerif ModVerif.Client ModVerif.Tile

section
variable {σ H : Type}

/-- overwrite `inited` -/
def wi (x : Option (Option Err)) (w : World σ H) : World σ H := { w with c := { w.c with inited := x } }

@[simp] theorem wi_s (x : Option (Option Err)) (w : World σ H) : (wi x w).s = w.s := rfl
@[simp] theorem wi_tr (x : Option (Option Err)) (w : World σ H) : (wi x w).tr = w.tr := rfl
@[simp] theorem wi_name (x : Option (Option Err)) (w : World σ H) : (wi x w).c.name = w.c.name := rfl
@[simp] theorem wi_verifiers (x : Option (Option Err)) (w : World σ H) : (wi x w).c.verifiers = w.c.verifiers := rfl
@[simp] theorem wi_latest (x : Option (Option Err)) (w : World σ H) : (wi x w).c.latest = w.c.latest := rfl
@[simp] theorem wi_latestMsg (x : Option (Option Err)) (w : World σ H) : (wi x w).c.latestMsg = w.c.latestMsg := rfl
@[simp] theorem wi_record (x : Option (Option Err)) (w : World σ H) : (wi x w).c.record = w.c.record := rfl
@[simp] theorem wi_tileCache (x : Option (Option Err)) (w : World σ H) : (wi x w).c.tileCache = w.c.tileCache := rfl
@[simp] theorem wi_tileSaved (x : Option (Option Err)) (w : World σ H) : (wi x w).c.tileSaved = w.c.tileSaved := rfl
@[simp] theorem wi_inited (x : Option (Option Err)) (w : World σ H) : (wi x w).c.inited = x := rfl
@[simp] theorem wi_wi (x y : Option (Option Err)) (w : World σ H) : wi x (wi y w) = wi x w := rfl
theorem wi_self (w : World σ H) : wi w.c.inited w = w := rfl
theorem setInit_eq_wi (w : World σ H) (e : Option Err) : setInit w e = wi (some e) w := rfl

variable (E : Env σ) (x : Option (Option Err))

theorem readRemote_wi (w : World σ H) (p : Bytes) :
    readRemote E (wi x w) p = ((readRemote E w p).1, wi x (readRemote E w p).2) := rfl
theorem readCache_wi (w : World σ H) (p : Bytes) :
    readCache E (wi x w) p = ((readCache E w p).1, wi x (readCache E w p).2) := rfl
theorem readConfig_wi (w : World σ H) (p : Bytes) :
    readConfig E (wi x w) p = ((readConfig E w p).1, wi x (readConfig E w p).2) := rfl
theorem writeCache_wi (w : World σ H) (f d : Bytes) :
    writeCache E (wi x w) f d = wi x (writeCache E w f d) := rfl
theorem writeConfig_wi (w : World σ H) (f o n : Bytes) :
    writeConfig E (wi x w) f o n = ((writeConfig E w f o n).1, wi x (writeConfig E w f o n).2) := rfl
theorem securityError_wi (w : World σ H) (m : Bytes) :
    securityError E (wi x w) m = wi x (securityError E w m) := rfl
theorem markTileSaved_wi (w : World σ H) (t : Tile) :
    markTileSaved (wi x w) t = wi x (markTileSaved w t) := rfl

theorem readTileWork_wi (w : World σ H) (t : Tile) :
    readTileWork E (wi x w) t = ((readTileWork E w t).1, wi x (readTileWork E w t).2) := by
  simp only [readTileWork, readCache_wi, wi_name]
  cases h1 : (readCache E w (tileCacheKey w.c.name t)).1 with
  | some d => simp [markTileSaved_wi]
  | none =>
    simp only []
    by_cases hf : (t != { t with w := 2 ^ t.h }) = true
    · simp only [hf, if_true]
      cases h2 : (readCache E (readCache E w (tileCacheKey w.c.name t)).2 (tileCacheKey w.c.name { t with w := 2 ^ t.h })).1 with
      | some d => simp [markTileSaved_wi]
      | none =>
        simp only [readRemote_wi]
        cases h3 : (readRemote E (readCache E (readCache E w (tileCacheKey w.c.name t)).2 (tileCacheKey w.c.name { t with w := 2 ^ t.h })).2 (tileRemotePath t)).1 with
        | some d => simp
        | none =>
          simp only []
          cases h4 : (readRemote E (readRemote E (readCache E (readCache E w (tileCacheKey w.c.name t)).2 (tileCacheKey w.c.name { t with w := 2 ^ t.h })).2 (tileRemotePath t)).2 (tileRemotePath { t with w := 2 ^ t.h })).1 <;> simp
    · simp only [hf, if_false, Bool.false_eq_true, readRemote_wi]
      cases h3 : (readRemote E (readCache E w (tileCacheKey w.c.name t)).2 (tileRemotePath t)).1 with
      | some d => simp
      | none => simp

theorem readTile_wi (w : World σ H) (t : Tile) :
    readTile E (wi x w) t = ((readTile E w t).1, wi x (readTile E w t).2) := by
  simp only [readTile, wi_tileCache]
  cases h : w.c.tileCache.lookup t with
  | some r => rfl
  | none => simp only [readTileWork_wi]; rfl

theorem readTilesAll_wi : ∀ (ts : List Tile) (w : World σ H),
    readTilesAll E (wi x w) ts = ((readTilesAll E w ts).1, wi x (readTilesAll E w ts).2)
  | [], w => rfl
  | t :: ts, w => by
    simp only [readTilesAll, readTile_wi, readTilesAll_wi ts]

theorem readTiles_wi (w : World σ H) (ts : List Tile) :
    readTiles E (wi x w) ts = ((readTiles E w ts).1, wi x (readTiles E w ts).2) := by
  simp only [readTiles, readTilesAll_wi]

theorem saveTiles_wi : ∀ (l : List (Tile × Bytes)) (w : World σ H),
    saveTiles E (wi x w) l = wi x (saveTiles E w l)
  | [], w => rfl
  | (t, d) :: rest, w => by
    by_cases hc : w.c.tileSaved.contains t = true
    · have hc' : (wi x w).c.tileSaved.contains t = true := hc
      simp only [saveTiles, hc, hc', if_true]; exact saveTiles_wi rest w
    · have hc' : ¬ (wi x w).c.tileSaved.contains t = true := hc
      simp only [saveTiles, hc, hc', wi_name, markTileSaved_wi, writeCache_wi]; exact saveTiles_wi rest _

variable [DecidableEq H] (P : Params H)

theorem readHashes_wi (w : World σ H) (tree : Head H) (indexes : List Nat) :
    Client.readHashes P E (wi x w) tree indexes =
      ((Client.readHashes P E w tree indexes).1, wi x (Client.readHashes P E w tree indexes).2) := by
  simp only [Client.readHashes, readTiles_wi]
  split
  · rfl
  · split
    · rfl
    · split
      · rfl
      · split
        · rfl
        · split
          · simp only [saveTiles_wi]
          · rfl

theorem treeHashVia_wi (w : World σ H) (n : Nat) (tree : Head H) :
    treeHashVia P E (wi x w) n tree = ((treeHashVia P E w n tree).1, wi x (treeHashVia P E w n tree).2) := by
  simp only [treeHashVia, readHashes_wi]
  split
  · rfl
  · split
    · rfl
    · split <;> rfl

theorem proveTreeVia_wi (w : World σ H) (t n : Nat) (tree : Head H) :
    proveTreeVia P E (wi x w) t n tree = ((proveTreeVia P E w t n tree).1, wi x (proveTreeVia P E w t n tree).2) := by
  simp only [proveTreeVia, readHashes_wi]
  split
  · rfl
  · split
    · rfl
    · split
      · rfl
      · split <;> rfl

theorem checkTrees_wi (w : World σ H) (older : Head H) (olderNote : Bytes) (newer : Head H) (newerNote : Bytes) :
    checkTrees P E (wi x w) older olderNote newer newerNote =
      ((checkTrees P E w older olderNote newer newerNote).1, wi x (checkTrees P E w older olderNote newer newerNote).2) := by
  simp only [checkTrees, treeHashVia_wi, proveTreeVia_wi, securityError_wi]
  split
  · rfl
  · split <;> rfl

theorem mergeLatestMem_wi (w : World σ H) (msg : Bytes) :
    mergeLatestMem P E (wi x w) msg = ((mergeLatestMem P E w msg).1, wi x (mergeLatestMem P E w msg).2) := by
  simp only [mergeLatestMem, wi_latest, wi_latestMsg, wi_verifiers, checkTrees_wi]
  split
  · rfl
  · split
    · rfl
    · split
      · split <;> rfl
      · split <;> rfl

theorem mergeLatestLoop_wi : ∀ (f : Nat) (w : World σ H),
    mergeLatestLoop P E f (wi x w) = ((mergeLatestLoop P E f w).1, wi x (mergeLatestLoop P E f w).2)
  | 0, w => rfl
  | f + 1, w => by
    simp only [mergeLatestLoop, wi_name, readConfig_wi, mergeLatestMem_wi, writeConfig_wi, wi_latestMsg]
    split
    · rfl
    · split
      · rfl
      · split
        · rfl
        · split
          · exact mergeLatestLoop_wi f _
          · rfl
          · rfl

theorem mergeLatest_wi (w : World σ H) (msg : Bytes) :
    mergeLatest P E (wi x w) msg = ((mergeLatest P E w msg).1, wi x (mergeLatest P E w msg).2) := by
  simp only [mergeLatest, mergeLatestMem_wi]
  split
  · rfl
  · split
    · rfl
    · exact mergeLatestLoop_wi E x P _ _

theorem checkRecord_wi (w : World σ H) (id : Int) (data : Bytes) :
    checkRecord P E (wi x w) id data = ((checkRecord P E w id data).1, wi x (checkRecord P E w id data).2) := by
  simp only [checkRecord, wi_latest, readHashes_wi]
  split
  · rfl
  · split
    · rfl
    · split
      · rfl
      · split <;> rfl

/-- … hence none of them changes it -/
theorem mergeLatest_inited (w : World σ H) (msg : Bytes) : (mergeLatest P E w msg).2.c.inited = w.c.inited := by
  have h := congrArg (fun r => r.2.c.inited) (mergeLatest_wi E w.c.inited P w msg)
  simp only [wi_self, wi_inited] at h
  exact h

theorem checkRecord_inited (w : World σ H) (id : Int) (data : Bytes) :
    (checkRecord P E w id data).2.c.inited = w.c.inited := by
  have h := congrArg (fun r => r.2.c.inited) (checkRecord_wi E w.c.inited P w id data)
  simp only [wi_self, wi_inited] at h
  exact h

end
end ModVerif.TieFnClientLookup
