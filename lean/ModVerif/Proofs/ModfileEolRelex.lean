/-
  C02, end-of-line comments, stages (ii)/(iii), part b: the rendered text of a well-shaped tree with
  end-of-line comments lexes to the token records `stmtsT` (`lexesE_stmts`), and the continuation form
  `stmtsB` is the rendered text `rStmtsE`.
-/
import ModVerif.Proofs.ModfileEolExp
import ModVerif.Proofs.ModfileFmtRelex
namespace ModVerif.Proofs.ModfileEol
open ModVerif ModVerif.Modfile
open ModVerif.Proofs.ModfileFmtTok ModVerif.Proofs.ModfileFmtLex ModVerif.Proofs.ModfileFmtLine
open ModVerif.Proofs.ModfileFmtStream ModVerif.Proofs.ModfileFmtTree ModVerif.Proofs.ModfileFmtRender
open ModVerif.Proofs.ModfileFmtTrim

/-! ### the continuation form is the rendered text -/

theorem linesB_eq : ∀ (ls : List Line) (Z : Bytes), ls.flatMap rLineE ++ 10 :: Z = 10 :: linesB ls Z := by
  intro ls
  induction ls with
  | nil => intro Z; rfl
  | cons l ls ih =>
    intro Z
    simp only [List.flatMap_cons, rLineE, linesB, sufB, List.append_assoc, List.cons_append]
    rw [ih]

theorem stmtB_app (s : Expr) (R : Bytes) (h : EWFStmt s) : stmtB s (10 :: R) = rStmtE s ++ 10 :: R := by
  cases s with
  | commentBlock x => simp [stmtB, rStmtE]
  | line l => simp [stmtB, rStmtE, sufB]
  | lineBlock b =>
    have := linesB_eq b.lines (closeB b (10 :: R))
    simp only [stmtB, rStmtE, rBlockE, bodyB, sufB, List.append_assoc, List.cons_append]
    rw [← this]
    simp [closeB, sufB, rsOf]
  | lparen x => exact absurd h id
  | rparen x => exact absurd h id

theorem stmtB_last (s : Expr) (h : EWFStmt s) : stmtB s [] = rStmtE s := by
  cases s with
  | commentBlock x => simp [stmtB, rStmtE]
  | line l => simp [stmtB, rStmtE, sufB]
  | lineBlock b =>
    have := linesB_eq b.lines (closeB b [])
    simp only [stmtB, rStmtE, rBlockE, bodyB, sufB, List.append_assoc, List.cons_append]
    rw [← this]
    simp [closeB, sufB, rsOf]
  | lparen x => exact absurd h id
  | rparen x => exact absurd h id

/-- the continuation form of the rendered statement list -/
theorem stmtsB_eq : ∀ (ss : List Expr), EWFStmts ss → stmtsB ss = rStmtsE ss := by
  intro ss
  induction ss with
  | nil => intro _; rfl
  | cons s rest ih =>
    intro hwf
    cases rest with
    | nil => simpa [stmtsB, rStmtsE] using stmtB_last s (hwf s (by simp))
    | cons r rs =>
      have := ih (fun x hx => hwf x (by simp [hx]))
      simp only [stmtsB, rStmtsE] at this ⊢
      rw [stmtB_app s _ (hwf s (by simp)), this]

/-! ### lexing -/

variable {D : Bytes}

/-- comment lines and blank lines -/
theorem lexesE_before (m : Nat) : ∀ (cs : List Comment), (∀ c ∈ cs, c.token = [] ∨ CommentOK c.token) →
    ∀ {R : Bytes} {S : List Token}, LexesToE D .bol R S →
    LexesToE D .bol (rBefore m cs ++ R) (befT D m cs R ++ S) := by
  intro cs
  induction cs with
  | nil => intro _ R S hS; simpa [rBefore, befT] using hS
  | cons c cs ih =>
    intro h R S hS
    have hrest := ih (fun c' hc' => h c' (by simp [hc'])) hS
    rcases h c (by simp) with he | hok
    · -- blank-line placeholder
      have ht : GoStrings.trimSpace c.token = [] := by rw [he]; exact trimSpace_nil
      have := lexesToE_newline (D := D) [] (rBefore m cs ++ R) (by simp) hrest .bol
      simpa [rBefore, befT, ht] using this
    · obtain ⟨e, _, hok'⟩ := trimSpace_comment hok
      obtain ⟨hne, _⟩ := commentOK_lastOK hok
      have hne' : GoStrings.trimSpace c.token ≠ [] := by simpa using hne
      have hlast : (GoStrings.trimSpace c.token).getLast? ≠ some 13 := by
        intro hl
        exact (trimSpace_comment_last hok 13 hl).2.2.1 rfl
      have := lexesToE_comment (D := D) (tabs m) (GoStrings.trimSpace c.token) (rBefore m cs ++ R) (tabs_blank m)
        hok' hlast hrest
      simpa [rBefore, befT, hne', List.append_assoc] using this

theorem lexesE_top_before (cs : List Comment) (h : TopBeforeOK cs) {R : Bytes} {S : List Token}
    (hS : LexesToE D .bol R S) : LexesToE D .bol (rBefore 0 cs ++ R) (befT D 0 cs R ++ S) :=
  lexesE_before 0 cs (fun c hc => Or.inr (h c hc).2) hS

/-- ★ the end of a line: a newline, or the node's end-of-line comment, which is delivered as an end-of-line
    comment token again -/
theorem lexesE_suf (cs : List Comment) (h : SufOK cs) {R : Bytes} {S : List Token} (hS : LexesToE D .bol R S) :
    LexesToE D .used (sufB cs R) (sufT D cs R :: S) := by
  rcases sufOK_cases h with rfl | ⟨c, rfl, hok, _⟩
  · have := lexesToE_newline (D := D) [] R (by simp) hS .used
    simpa [sufB, rSuf, sufT] using this
  · obtain ⟨e, _, hok'⟩ := trimSpace_comment hok
    have hlast : (GoStrings.trimSpace c.token).getLast? ≠ some 13 := by
      intro hl
      exact (trimSpace_comment_last hok 13 hl).2.2.1 rfl
    have := lexesToE_eolc (D := D) [32] (GoStrings.trimSpace c.token) R
      (by intro b hb; simp at hb; subst hb; rfl) hok' hlast hS
    simpa [sufB, rSuf, sufT] using this

theorem sufB_delim (cs : List Comment) (R : Bytes) : DelimStart (sufB cs R) := by
  unfold sufB rSuf
  split
  · exact delimStart_cons rfl
  · exact delimStart_cons rfl

/-- ★ stage (ii) `relex_line_eol`: a printed token line with its end (newline or ` //comment` and newline):
    the tokens, then the newline / end-of-line comment token -/
theorem lexesE_tokline (ws : Bytes) (hws : ∀ b ∈ ws, isBlank b = true) (ts : List Bytes) (hne : ts ≠ [])
    (hts : ∀ t ∈ ts, TokText t) (cs : List Comment) (hcs : SufOK cs) {R : Bytes} {S : List Token}
    (hS : LexesToE D .bol R S) (m : Mode) :
    LexesToE D m (ws ++ (tokStr ts [] ++ sufB cs R)) (tokStrT D ts (sufB cs R) ++ sufT D cs R :: S) :=
  lexesToE_tokStr ts hts hne [] (Or.inl rfl) ws hws (sufB cs R) (sufB_delim cs R) (lexesE_suf cs hcs hS) m

theorem lexesE_lines : ∀ (ls : List Line) (allow : Bool), EWFBlkLines allow ls →
    ∀ {Z : Bytes} {S : List Token}, LexesToE D .bol Z S →
    LexesToE D .bol (linesB ls Z) (linesT D ls Z ++ S) := by
  intro ls
  induction ls with
  | nil => intro _ _ Z S hS; simpa [linesB, linesT] using hS
  | cons l ls ih =>
    intro allow hwf Z S hS
    obtain ⟨hl, hls⟩ := hwf
    have h1 := ih true hls hS
    have h2 := lexesE_tokline (D := D) [9] (by intro b hb; simp at hb; subst hb; rfl) l.token hl.ne hl.tok
      l.comments.suffix hl.suffix h1 .bol
    have h3 := lexesE_before (D := D) 1 l.comments.before (blkBefore_cases _ _ hl.before) h2
    simpa [linesB, linesT, List.append_assoc] using h3

/-- one statement -/
theorem lexesE_stmt (s : Expr) (hwf : EWFStmt s) {R : Bytes} {S : List Token} (hS : LexesToE D .bol R S) :
    LexesToE D .bol (stmtB s R) (stmtT D s R ++ S) := by
  cases s with
  | commentBlock x =>
    obtain ⟨_, hbefore, _, _⟩ := hwf
    simpa [stmtB, stmtT] using lexesE_top_before x.comments.before hbefore hS
  | line l =>
    have hwf : EWFLine l := hwf
    have h1 := lexesE_tokline (D := D) [] (by simp) l.token hwf.ne hwf.tok l.comments.suffix hwf.suffix hS .bol
    have h2 := lexesE_top_before l.comments.before hwf.before h1
    simpa [stmtB, stmtT, List.append_assoc] using h2
  | lineBlock b =>
    have hwf : EWFBlock b := hwf
    -- `)` and the end of its line
    have e1 := lexesE_suf (D := D) (rsOf b) hwf.rsuffix hS
    have e2 : LexesToE D .bol ([] ++ ([41] ++ sufB (rsOf b) R)) (tokT D [41] (sufB (rsOf b) R) :: sufT D (rsOf b) R :: S) :=
      lexesToE_tok (TokOK.punct 41 (by decide)) [] _ (by simp) (Or.inr ⟨41, rfl⟩) e1 .bol
    have e3 := lexesE_before (D := D) 0 b.rparen.comments.before (blkBefore_cases _ _ hwf.rbefore) e2
    simp only [List.nil_append, List.singleton_append] at e3
    have e4 := lexesE_lines (D := D) b.lines false hwf.lines e3
    have e5 := lexesE_suf (D := D) b.lparen.comments.suffix hwf.lsuffix e4
    have e6 : LexesToE D .used ([32] ++ ([40] ++ bodyB b R)) (tokT D [40] (bodyB b R) :: _) :=
      lexesToE_tok (TokOK.punct 40 (by decide)) [32] _ (by intro x hx; simp at hx; subst hx; rfl)
        (Or.inr ⟨40, rfl⟩) e5 .used
    have e7 := lexesToE_tokStr (D := D) b.token hwf.tok hwf.ne [] (Or.inl rfl) [] (by simp) _ (delimStart_cons rfl) e6 .bol
    have e8 := lexesE_top_before b.comments.before hwf.before e7
    simpa [stmtB, stmtT, bodyB, closeB, List.append_assoc] using e8
  | lparen x => exact absurd hwf id
  | rparen x => exact absurd hwf id

/-- ★ stage (iii), lexing half: the rendered statement list lexes to the token records `stmtsT` -/
theorem lexesE_stmts : ∀ (ss : List Expr), EWFStmts ss → LexesToE D .bol (stmtsB ss) (stmtsT D ss) := by
  intro ss
  induction ss with
  | nil => intro _; simpa [stmtsB, stmtsT] using lexesToE_eof D .bol
  | cons s rest ih =>
    intro hwf
    have hs := hwf s (by simp)
    cases rest with
    | nil =>
      have := lexesE_stmt s hs (lexesToE_eof D .bol)
      simpa [stmtsB, stmtsT] using this
    | cons r rs =>
      have hrest := ih (fun x hx => hwf x (by simp [hx]))
      have hnl := lexesToE_newline (D := D) [] _ (by simp) hrest .bol
      have := lexesE_stmt s hs hnl
      simpa [stmtsB, stmtsT, List.append_assoc] using this

end ModVerif.Proofs.ModfileEol
