/-
  EditReparse, part E — the composition (C15 `typed_eq_reparse`): a state satisfying the tree invariant `Edit.Inv`, whose
  typed lists hold live, readable values and whose tree has the comment placement of a parsed file, is read back from its
  formatted text by the strict parser with the same directives, as multisets (`AbsPerm`); and the session form.
-/
import ModVerif.Proofs.EditReparseD
import ModVerif.Proofs.EditMarkerInv
import ModVerif.Proofs.EditMoreStartC
set_option linter.unusedSimpArgs false
set_option linter.unusedVariables false
namespace ModVerif.Modfile.Edit
open ModVerif ModVerif.Modfile ModVerif.EditSpec
open ModVerif.Proofs.ModfileFmtDir (PathOK VerOK WellFormed values Values values_eq_iff pathOKB pathOKB_sound)
open ModVerif.Proofs.ModfileFmtLex (punctBytes)

/-! ### equality of abstract files as multisets -/

/-- the directive lists of two abstract go.mod files are equal as multisets (scalars equal); retractions are compared by
    interval (the rationale is where the recorded `C15_violated_retract_*` findings live) -/
structure AbsPerm (a b : AbsFile) : Prop where
  module : a.module = b.module
  go : a.go = b.go
  toolchain : a.toolchain = b.toolchain
  godebug : a.godebug.Perm b.godebug
  require : a.require.Perm b.require
  exclude : a.exclude.Perm b.exclude
  replace : a.replace.Perm b.replace
  retract : (a.retract.map Retr.interval).Perm (b.retract.map Retr.interval)
  tool : a.tool.Perm b.tool

theorem AbsPerm.refl (a : AbsFile) : AbsPerm a a := ⟨rfl, rfl, rfl, .refl _, .refl _, .refl _, .refl _, .refl _, .refl _⟩
theorem AbsPerm.trans {a b c : AbsFile} (h1 : AbsPerm a b) (h2 : AbsPerm b c) : AbsPerm a c :=
  ⟨h1.module.trans h2.module, h1.go.trans h2.go, h1.toolchain.trans h2.toolchain, h1.godebug.trans h2.godebug,
   h1.require.trans h2.require, h1.exclude.trans h2.exclude, h1.replace.trans h2.replace, h1.retract.trans h2.retract,
   h1.tool.trans h2.tool⟩
theorem AbsPerm.symm {a b : AbsFile} (h : AbsPerm a b) : AbsPerm b a :=
  ⟨h.module.symm, h.go.symm, h.toolchain.symm, h.godebug.symm, h.require.symm, h.exclude.symm, h.replace.symm,
   h.retract.symm, h.tool.symm⟩

theorem fm_none {α β : Type} (l : List α) : l.filterMap (fun _ => (none : Option β)) = [] := by
  induction l <;> simp_all

def selModule : Nat × Item → Option Bytes
  | (_, .module p) => some p
  | _ => none
def selGo : Nat × Item → Option Bytes
  | (_, .go p) => some p
  | _ => none
def selToolchain : Nat × Item → Option Bytes
  | (_, .toolchain p) => some p
  | _ => none
def selGodebug : Nat × Item → Option (Bytes × Bytes)
  | (_, .godebug k v) => some (k, v)
  | _ => none
def selRequire : Nat × Item → Option Req
  | (_, .require m i) => some ⟨m.path, m.version, i⟩
  | _ => none
def selExclude : Nat × Item → Option (Bytes × Bytes)
  | (_, .exclude m) => some (m.path, m.version)
  | _ => none
def selReplace : Nat × Item → Option Repl
  | (_, .replace o n) => some ⟨o.path, o.version, n.path, n.version⟩
  | _ => none
def selRetract : Nat × Item → Option (Bytes × Bytes)
  | (_, .retract vi) => some (vi.low, vi.high)
  | _ => none
def selTool : Nat × Item → Option Bytes
  | (_, .tool p) => some p
  | _ => none

theorem sel_module (f : File) : (items f).filterMap selModule = (absOf f).module.toList := by
  cases h : f.module <;>
    simp [items, absOf, selModule, List.filterMap_append, List.filterMap_map, Function.comp_def, fm_none, h]
theorem sel_go (f : File) : (items f).filterMap selGo = (absOf f).go.toList := by
  cases h : f.go <;>
    simp [items, absOf, selGo, List.filterMap_append, List.filterMap_map, Function.comp_def, fm_none, h]
theorem sel_toolchain (f : File) : (items f).filterMap selToolchain = (absOf f).toolchain.toList := by
  cases h : f.toolchain <;>
    simp [items, absOf, selToolchain, List.filterMap_append, List.filterMap_map, Function.comp_def, fm_none, h]
theorem sel_godebug (f : File) : (items f).filterMap selGodebug = (absOf f).godebug := by
  simp [items, absOf, selGodebug, List.filterMap_append, List.filterMap_map, Function.comp_def, fm_none]
theorem sel_require (f : File) : (items f).filterMap selRequire = (absOf f).require := by
  simp [items, absOf, selRequire, List.filterMap_append, List.filterMap_map, Function.comp_def, fm_none]
theorem sel_exclude (f : File) : (items f).filterMap selExclude = (absOf f).exclude := by
  simp [items, absOf, selExclude, List.filterMap_append, List.filterMap_map, Function.comp_def, fm_none]
theorem sel_replace (f : File) : (items f).filterMap selReplace = (absOf f).replace := by
  simp [items, absOf, selReplace, List.filterMap_append, List.filterMap_map, Function.comp_def, fm_none]
theorem sel_retract (f : File) : (items f).filterMap selRetract = (absOf f).retract.map Retr.interval := by
  simp [items, absOf, selRetract, Retr.interval, List.filterMap_append, List.filterMap_map, Function.comp_def, fm_none]
theorem sel_tool (f : File) : (items f).filterMap selTool = (absOf f).tool := by
  simp [items, absOf, selTool, List.filterMap_append, List.filterMap_map, Function.comp_def, fm_none]

theorem opt_of_perm {α : Type} {a b : Option α} (h : a.toList.Perm b.toList) : a = b := by
  cases a <;> cases b <;> simp_all

/-- a permutation of the items is a permutation of every directive list -/
theorem absPerm_of_items {f g : File} (h : (items f).Perm (items g)) : AbsPerm (absOf f) (absOf g) := by
  refine ⟨opt_of_perm ?_, opt_of_perm ?_, opt_of_perm ?_, ?_, ?_, ?_, ?_, ?_, ?_⟩
  · rw [← sel_module, ← sel_module]; exact h.filterMap _
  · rw [← sel_go, ← sel_go]; exact h.filterMap _
  · rw [← sel_toolchain, ← sel_toolchain]; exact h.filterMap _
  · rw [← sel_godebug, ← sel_godebug]; exact h.filterMap _
  · rw [← sel_require, ← sel_require]; exact h.filterMap _
  · rw [← sel_exclude, ← sel_exclude]; exact h.filterMap _
  · rw [← sel_replace, ← sel_replace]; exact h.filterMap _
  · rw [← sel_retract, ← sel_retract]; exact h.filterMap _
  · rw [← sel_tool, ← sel_tool]; exact h.filterMap _

/-- equal directive values (C02's `values`) give `AbsPerm` -/
theorem absPerm_of_values {f g : File} (h : values f = values g) : AbsPerm (absOf f) (absOf g) := by
  obtain ⟨h1, h2, h3, h4, h5, h6, h7, h8, h9⟩ := (values_eq_iff f g).1 h
  refine ⟨h1, h2, h3, ?_, ?_, ?_, ?_, ?_, ?_⟩
  · exact List.Perm.of_eq h4
  · have := congrArg (List.map fun (p : ModVersion × Bool) => (⟨p.1.path, p.1.version, p.2⟩ : Req)) h5
    simp only [List.map_map, Function.comp_def] at this
    exact List.Perm.of_eq this
  · have := congrArg (List.map fun (p : ModVersion) => (p.path, p.version)) h6
    simp only [List.map_map, Function.comp_def] at this
    exact List.Perm.of_eq this
  · have := congrArg (List.map fun (p : ModVersion × ModVersion) => (⟨p.1.path, p.1.version, p.2.path, p.2.version⟩ : Repl)) h7
    simp only [List.map_map, Function.comp_def] at this
    exact List.Perm.of_eq this
  · have := congrArg (List.map fun (p : VersionInterval) => (p.low, p.high)) h8
    simp only [List.map_map, Function.comp_def] at this
    simp only [absOf, List.map_map, Function.comp_def, Retr.interval]
    exact List.Perm.of_eq this
  · exact List.Perm.of_eq h9

/-! ### well-formedness (C02) of the file the first run builds -/

theorem wellFormed_of_items {f : File} {I : List (Nat × Item)} (hp : (items f).Perm I) (hok : ∀ q ∈ I, ItemOK q.2) :
    WellFormed f := by
  have key : ∀ q ∈ items f, ItemOK q.2 := fun q hq => hok q (hp.mem_iff.1 hq)
  refine ⟨?_, ?_, ?_, ?_, ?_, ?_⟩
  · intro m hm
    exact key (m.lineId, .module m.mod.path) (mem_items_module hm)
  · intro r hr
    have : ItemOK (.require r.mod r.indirect) := key (r.lineId, _) (by
      simp only [items, List.mem_append, List.mem_map]
      exact Or.inr (Or.inr (Or.inr (Or.inr (Or.inl ⟨r, hr, rfl⟩)))))
    exact ⟨this.1, this.2.1.1⟩
  · intro r hr
    have : ItemOK (.exclude r.mod) := key (r.lineId, _) (by
      simp only [items, List.mem_append, List.mem_map]
      exact Or.inr (Or.inr (Or.inr (Or.inr (Or.inr (Or.inl ⟨r, hr, rfl⟩))))))
    exact ⟨this.1, this.2.1.1⟩
  · intro r hr
    have : ItemOK (.replace r.old r.new) := key (r.lineId, _) (by
      simp only [items, List.mem_append, List.mem_map]
      exact Or.inr (Or.inr (Or.inr (Or.inr (Or.inr (Or.inr (Or.inl ⟨r, hr, rfl⟩)))))))
    exact ⟨this.1, this.2.2.1, this.2.1, this.2.2.2.1⟩
  · intro r hr
    exact key (r.lineId, .retract r.interval) (by
      simp only [items, List.mem_append, List.mem_map]
      exact Or.inr (Or.inr (Or.inr (Or.inr (Or.inr (Or.inr (Or.inr (Or.inl ⟨r, hr, rfl⟩))))))))
  · intro t ht
    have : ItemOK (.tool t.path) := key (t.lineId, _) (by
      simp only [items, List.mem_append, List.mem_map]
      exact Or.inr (Or.inr (Or.inr (Or.inr (Or.inr (Or.inr (Or.inr (Or.inr ⟨t, ht, rfl⟩))))))))
    exact this.1

/-! ### the state-level theorem -/

/-- **Typed lists = strict re-parse of the formatted tree, for a STATE.**  `e`: any state of the edit model that satisfies
    the tree invariant `Inv` (HALF 1 of C15), whose typed lists hold live entries only (`AllLive`: a Cleanup has run) with
    readable values (`VOK`), and whose tree has only lines with tokens (`LinesLive`: a Cleanup has run), only block verbs on
    blocks (`GoodBlocks`) and the comment placement of a parsed file (`comShapeB`).  Then the strict parser accepts
    `Format` of the tree, and the file it returns has the same module path, go version, toolchain, and — as multisets — the
    same godebugs, requirements (with indirect flags), excludes, replaces, retract intervals and tools. -/
theorem reparse_of_inv (name : Bytes) (e : EFile) (hi : Inv e) (hl : AllLive e.f) (hv : VOK e.f)
    (hll : LinesLive e.f.syn.stmts) (hgb : GoodBlocks e.f.syn.stmts) (hcom : comShapeB e.f.syn = true) :
    ∃ g, parseStrict name (format e.f.syn) none = .ok g ∧ AbsPerm (absOf g) (absOf e.f) := by
  have hIOK := inv_IOK hi hl hv
  obtain ⟨st1, hrun, herr, hperm⟩ := first_run hIOK e.f.syn hi.tree.nodup (inv_stmtOK hi hll hgb) (inv_surj hi hl)
  obtain ⟨hewf, hnl, hhdr⟩ := inv_ewf hi hv hll hgb hcom
  have hwf := wellFormed_of_items hperm hv
  obtain ⟨g, hparse, hvals⟩ := Proofs.EditReparse.reparse_of_first_run name e.f.syn st1 hewf hnl hhdr hrun herr hwf
  exact ⟨g, hparse, (absPerm_of_values hvals).trans (absPerm_of_items hperm)⟩

/-! ### the state after the final Cleanup -/

theorem cleanup_allLive (e : EFile) : AllLive (cleanup e).f := by
  refine ⟨?_, ?_, ?_, ?_, ?_, ?_⟩ <;> intro x hx <;> simp only [cleanup, List.mem_filter] at hx <;> exact hx.2

theorem cleanupStmts_linesLive : ∀ (stmts : List Expr), LinesLive (cleanupStmts stmts) := by
  intro stmts
  induction stmts with
  | nil => intro p hp; simp [cleanupStmts, loc] at hp
  | cons x xs ih =>
    have hfilter : ∀ (ls : List Line) (l : Line), l ∈ ls.filter (fun l => !l.token.isEmpty) → (!l.token.isEmpty) = true :=
      fun ls l hl => (List.mem_filter.1 hl).2
    intro p hp
    cases x with
    | line l =>
      unfold cleanupStmts at hp
      split at hp
      · exact ih p hp
      · rename_i hne
        rw [loc_cons] at hp
        rcases List.mem_append.1 hp with hp | hp
        · simp only [locStmt, List.mem_singleton] at hp
          subst hp
          simpa [liveLoc] using hne
        · exact ih p hp
    | lineBlock b =>
      unfold cleanupStmts at hp
      simp only at hp
      split at hp
      · exact ih p hp
      · rename_i l hlive
        have hl : (!l.token.isEmpty) = true := hfilter b.lines l (by rw [hlive]; simp)
        split at hp
        · rw [loc_cons] at hp
          rcases List.mem_append.1 hp with hp | hp
          · simp only [locStmt, List.mem_singleton] at hp
            subst hp
            simp only [liveLoc]
            cases hbt : b.token <;> cases hlt : l.token <;> simp_all
          · exact ih p hp
        · rw [loc_cons] at hp
          rcases List.mem_append.1 hp with hp | hp
          · simp only [locStmt, List.mem_map] at hp
            obtain ⟨l', hl', rfl⟩ := hp
            exact hfilter b.lines l' hl'
          · exact ih p hp
      · rw [loc_cons] at hp
        rcases List.mem_append.1 hp with hp | hp
        · simp only [locStmt, List.mem_map] at hp
          obtain ⟨l', hl', rfl⟩ := hp
          exact hfilter b.lines l' hl'
        · exact ih p hp
    | commentBlock c =>
      unfold cleanupStmts at hp
      rw [loc_cons] at hp
      rcases List.mem_append.1 hp with hp | hp
      · simp [locStmt] at hp
      · exact ih p hp
    | lparen c =>
      unfold cleanupStmts at hp
      rw [loc_cons] at hp
      rcases List.mem_append.1 hp with hp | hp
      · simp [locStmt] at hp
      · exact ih p hp
    | rparen c =>
      unfold cleanupStmts at hp
      rw [loc_cons] at hp
      rcases List.mem_append.1 hp with hp | hp
      · simp [locStmt] at hp
      · exact ih p hp

theorem cleanup_linesLive (e : EFile) : LinesLive (cleanup e).f.syn.stmts := cleanupStmts_linesLive _

/-! ### readable values, on the abstract file, with a Boolean test -/

/-- the items of an abstract file -/
def absItems (a : AbsFile) : List Item :=
  a.module.toList.map Item.module ++ (a.go.toList.map Item.go ++ (a.toolchain.toList.map Item.toolchain ++
  (a.godebug.map (fun g => Item.godebug g.1 g.2) ++ (a.require.map (fun r => Item.require ⟨r.path, r.vers⟩ r.indirect) ++
  (a.exclude.map (fun x => Item.exclude ⟨x.1, x.2⟩) ++
  (a.replace.map (fun r => Item.replace ⟨r.oldPath, r.oldVers⟩ ⟨r.newPath, r.newVers⟩) ++
  (a.retract.map (fun r => Item.retract ⟨r.lo, r.hi⟩) ++ a.tool.map Item.tool)))))))

/-- every value of the abstract file is one the strict parser accepts and reads back unchanged -/
def AbsOK (a : AbsFile) : Prop := ∀ it ∈ absItems a, ItemOK it

theorem absItems_absOf (f : File) : absItems (absOf f) = (items f).map (·.2) := by
  cases hm : f.module <;> cases hg : f.go <;> cases ht : f.toolchain <;>
    simp [absItems, absOf, items, List.map_append, List.map_map, Function.comp_def, hm, hg, ht]

theorem vok_of_absOK {f : File} (h : AbsOK (absOf f)) : VOK f := by
  intro q hq
  apply h
  rw [absItems_absOf]
  exact List.mem_map.2 ⟨q, hq, rfl⟩

def rawTokB (t : Bytes) : Bool := !mustQuote t && punctBytes.all fun c => t != [c]

theorem rawTokB_sound {t : Bytes} (h : rawTokB t = true) : RawTok t := by
  simp only [rawTokB, Bool.and_eq_true, Bool.not_eq_true', List.all_eq_true, bne_iff_ne, ne_eq] at h
  exact ⟨h.1, h.2⟩

def modOKB (m : ModVersion) : Bool :=
  pathOKB m.path && Semver.isValid m.version && (Semver.canonicalVersion m.version == m.version) &&
  (match modulePathMajor m.path with
   | some pm => Module.checkPathMajor m.version pm
   | none => false)

theorem modOKB_sound {m : ModVersion} (h : modOKB m = true) : ModOK m := by
  simp only [modOKB, Bool.and_eq_true, beq_iff_eq] at h
  obtain ⟨⟨⟨h1, h2⟩, h3⟩, h4⟩ := h
  refine ⟨pathOKB_sound h1, ⟨h2, h3⟩, ?_⟩
  split at h4
  · rename_i pm hpm; exact ⟨pm, hpm, h4⟩
  · cases h4

def replaceOKB (o n : ModVersion) : Bool :=
  pathOKB o.path && pathOKB n.path && (o.version.isEmpty || Semver.isValid o.version) &&
  (n.version.isEmpty || Semver.isValid n.version) &&
  (match parseReplace 0 (replArgs o n) none with
   | (args, .ok r) => args == replArgs o n && r == { old := o, new := n, lineId := 0 }
   | _ => false)

def itemOKB : Item → Bool
  | .module p => pathOKB p
  | .go v => goVersionRE v && rawTokB v
  | .toolchain n => toolchainRE n && rawTokB n
  | .godebug k v => (Modfile.addGodebug [k ++ [61] ++ v] == some (k, v)) && rawTokB (k ++ [61] ++ v)
  | .require m _ => modOKB m
  | .exclude m => modOKB m
  | .replace o n => replaceOKB o n
  | .retract vi => Semver.isValid vi.low && Semver.isValid vi.high
  | .tool p => pathOKB p && !mustQuote p

theorem itemOKB_sound {it : Item} (h : itemOKB it = true) : ItemOK it := by
  cases it with
  | module p => exact pathOKB_sound h
  | go v => simp only [itemOKB, Bool.and_eq_true] at h; exact ⟨h.1, rawTokB_sound h.2⟩
  | toolchain n => simp only [itemOKB, Bool.and_eq_true] at h; exact ⟨h.1, rawTokB_sound h.2⟩
  | godebug k v => simp only [itemOKB, Bool.and_eq_true, beq_iff_eq] at h; exact ⟨h.1, rawTokB_sound h.2⟩
  | require m i => exact modOKB_sound h
  | exclude m => exact modOKB_sound h
  | replace o n =>
    simp only [itemOKB, replaceOKB, Bool.and_eq_true, Bool.or_eq_true, List.isEmpty_iff] at h
    obtain ⟨⟨⟨⟨h1, h2⟩, h3⟩, h4⟩, h5⟩ := h
    refine ⟨pathOKB_sound h1, pathOKB_sound h2, fun hne => h3.resolve_left hne, fun hne => h4.resolve_left hne, ?_⟩
    intro id
    rw [Proofs.ModfileEol.parseReplace_id]
    split at h5
    · rename_i args r heq
      simp only [Bool.and_eq_true, beq_iff_eq] at h5
      rw [heq]
      simp only [h5.1, h5.2]
    · cases h5
  | retract vi => simp only [itemOKB, Bool.and_eq_true] at h; exact ⟨h.1, h.2⟩
  | tool p => simp only [itemOKB, Bool.and_eq_true, Bool.not_eq_true'] at h; exact ⟨pathOKB_sound h.1, h.2⟩

def absOKB (a : AbsFile) : Bool := (absItems a).all itemOKB

theorem absOKB_sound {a : AbsFile} (h : absOKB a = true) : AbsOK a :=
  fun it hit => itemOKB_sound (List.all_eq_true.1 h it hit)

def goodBlocksB (stmts : List Expr) : Bool :=
  stmts.all fun
    | .lineBlock b => (match b.token with
      | [v] => verbIn v blockVerbs
      | _ => true)
    | _ => true

theorem goodBlocksB_sound {stmts : List Expr} (h : goodBlocksB stmts = true) : GoodBlocks stmts := by
  intro b hb v hv
  have := List.all_eq_true.1 h _ hb
  simp only [hv] at this
  exact this

/-- the conditions on the FINAL tree of a session, as one Boolean test: only block verbs on blocks, and the comment
    placement of a parsed file (`comStmtB`), no header comment -/
def finalTreeB (fs : FileSyntax) : Bool := goodBlocksB fs.stmts && comShapeB fs

/-! ### the session-level theorem -/

/-- **typed_eq_reparse (partial), on the run.**  From the strict parse `f` of any go.mod text (no version fixer, as in
    `sessionMod`) with well-formed keys, no block suffix comment and settable markers (the hypotheses of
    `typed_eq_tree_partial4_static`, HALF 1), after ANY statically valid session and the final Cleanup: if the values of
    the final typed lists are readable (`AbsOK`) and the final tree passes `finalTreeB`, then the strict parser accepts the
    formatted final tree and returns the typed lists of the final state, as multisets. -/
theorem typed_eq_reparse_run (name name' data : Bytes) (f : File) (ops : List Op) (e' : EFile) (res : List Bool)
    (hf : parseToFile name data none true = .ok f) (hk : WellFormedKeys f) (hs : NoBlockSuffix f.syn)
    (hm : MarkersSettable f.syn.stmts) (hv : StaticValid false ops)
    (h : runOps applyMod (load f) ops [] 0 = .done e' res)
    (hok : AbsOK (absOf (cleanup e').f)) (htree : finalTreeB (cleanup e').f.syn = true) :
    ∃ g, parseStrict name' (format (cleanup e').f.syn) none = .ok g ∧ AbsPerm (absOf g) (absOf (cleanup e').f) := by
  have hinv : Inv (cleanup e') :=
    (typed_eq_tree_live (load f) e' ops res (parseStrict_inv hf hk hs) ((markersSettable_load f).2 hm)
      (StaticValid.runValidLive ops false (load f) hv (fun hc => by cases hc)) h).1
  simp only [finalTreeB, Bool.and_eq_true] at htree
  exact reparse_of_inv name' (cleanup e') hinv (cleanup_allLive e') (vok_of_absOK hok) (cleanup_linesLive e')
    (goodBlocksB_sound htree.1) htree.2

/-- **typed_eq_reparse (partial), on `sessionMod`** — what `edit.session` prints. -/
theorem typed_eq_reparse_session (file : Bytes) (ops : List Op) (o : Outcome) (f : File)
    (hf : parseStrict (B "go.mod") file none = .ok f) (hk : WellFormedKeys f) (hs : NoBlockSuffix f.syn)
    (hm : MarkersSettable f.syn.stmts) (hv : StaticValid false ops)
    (h : sessionMod file ops = some o) (hok : AbsOK o.typed) (htree : finalTreeB o.tree = true) :
    ∃ r, o.reparsed = some r ∧ AbsPerm r o.typed := by
  unfold sessionMod at h
  rw [hf] at h
  simp only at h
  split at h
  · rename_i e res hrun
    simp only [Option.some.injEq] at h
    subst h
    simp only at hok htree ⊢
    obtain ⟨g, hg, hperm⟩ := typed_eq_reparse_run (B "go.mod") (B "go.mod") file f ops e res hf hk hs hm hv hrun hok htree
    rw [hg]
    exact ⟨absOf g, rfl, hperm⟩
  · cases h

end ModVerif.Modfile.Edit
