/-
  C02, clause 3 (directive values survive formatting) with end-of-line comments, part b: one `File.add` step.

  * `add_obs` — `File.add` looks at the line (and at the block comments) only through its position (for error
    messages), its identity, `isIndirect` (for `require`), and the deprecation / rationale texts: two lines with
    the same `isIndirect` give the same rewritten arguments, the same directive values and the same number of
    errors, from the same state.  (Brute-force case split over the body of `File.add`.)
  * `StepOKE`, `add_stepE` — the step lemma `add_step` of Proofs/ModfileFmtDir3.lean for lines WITH end-of-line
    comments: the replay is for every line with the same `isIndirect`.
-/
import ModVerif.Proofs.ModfileFmtDir6
import ModVerif.Proofs.ModfileEolIndirect
namespace ModVerif.Proofs.ModfileEol
open ModVerif ModVerif.Modfile ModVerif.Proofs.ModfileFmtLex ModVerif.Proofs.ModfileFmtLine
open ModVerif.Proofs.ModfileFmtFix ModVerif.Proofs.ModfileFmtDir

/-! ### what `File.add` sees of a line -/

/-- the observable part of a `File.add` result: directive values, number of errors, rewritten arguments -/
def obs (r : AddState × List Bytes) : Values × Nat × List Bytes := (values r.1.file, r.1.errsRev.length, r.2)

/-- `parseReplace` uses the line identity only to fill `Replace.lineId` -/
theorem parseReplace_id (id : Nat) (args : List Bytes) (fix : Option Fixer) :
    parseReplace id args fix = ((parseReplace 0 args fix).1,
      match (parseReplace 0 args fix).2 with
      | .ok r => .ok { r with lineId := id }
      | .error e => .error e) := by
  unfold parseReplace
  dsimp only
  repeat' (first | rfl | split)

/-- ★ from the same state, two lines with the same `isIndirect` (relevant for `require` only) give the same
    observable result, whatever their positions, identities and other comments are -/
theorem add_obs (st : AddState) (b b' : Option Comments) (l l' : Line) (verb : Bytes) (args : List Bytes)
    (fix : Option Fixer) (strict : Bool)
    (hind : (verb == B "require") = true → isIndirect l = isIndirect l') :
    obs (File.add st b l verb args fix strict) = obs (File.add st b' l' verb args fix strict) := by
  unfold File.add
  dsimp only
  by_cases h0 : (!strict && !verbIn verb laxVerbs) = true
  · rw [if_pos h0, if_pos h0]
  rw [if_neg h0, if_neg h0]
  by_cases h1 : (verb == B "go") = true
  · rw [if_pos h1, if_pos h1]
    repeat' (first | rfl | split | simp [obs, values])
  rw [if_neg h1, if_neg h1]
  by_cases h2 : (verb == B "toolchain") = true
  · rw [if_pos h2, if_pos h2]
    repeat' (first | rfl | split | simp [obs, values])
  rw [if_neg h2, if_neg h2]
  by_cases h3 : (verb == B "module") = true
  · rw [if_pos h3, if_pos h3]
    repeat' (first | rfl | split | simp [obs, values])
  rw [if_neg h3, if_neg h3]
  by_cases h4 : (verb == B "godebug") = true
  · rw [if_pos h4, if_pos h4]
    repeat' (first | rfl | split | simp [obs, values])
  rw [if_neg h4, if_neg h4]
  by_cases h5 : (verb == B "require" || verb == B "exclude") = true
  · rw [if_pos h5, if_pos h5]
    by_cases h5r : (verb == B "require") = true
    · rw [hind h5r]
      repeat' (first | rfl | split | simp [obs, values])
    · simp only [h5r, Bool.false_eq_true, if_false]
      repeat' (first | rfl | split | simp [obs, values])
  rw [if_neg h5, if_neg h5]
  by_cases h6 : (verb == B "replace") = true
  · rw [if_pos h6, if_pos h6, parseReplace_id l.id, parseReplace_id l'.id]
    cases hpr : parseReplace 0 args fix with
    | mk a' res =>
      cases res with
      | error e => rfl
      | ok r =>
        simp only [obs, values, List.map_append]
        rfl
  rw [if_neg h6, if_neg h6]
  by_cases h7 : (verb == B "retract") = true
  · rw [if_pos h7, if_pos h7]
    repeat' (first | rfl | split | simp [obs, values])
  rw [if_neg h7, if_neg h7]
  by_cases h8 : (verb == B "tool") = true
  · rw [if_pos h8, if_pos h8]
    repeat' (first | rfl | split | simp [obs, values])
  rw [if_neg h8, if_neg h8]
  rfl

/-- an error-free step on `l` can be repeated on `l'` with the same rewritten arguments and values -/
theorem add_transfer (st : AddState) (b b' : Option Comments) (l l' : Line) (verb : Bytes) (args args1 : List Bytes)
    (fix : Option Fixer) (st1 : AddState)
    (hind : (verb == B "require") = true → isIndirect l = isIndirect l')
    (h : File.add st b l verb args fix true = (st1, args1)) (he : st1.errsRev = []) :
    ∃ st1', File.add st b' l' verb args fix true = (st1', args1) ∧ values st1'.file = values st1.file ∧
      st1'.errsRev = [] := by
  have ho := add_obs st b b' l l' verb args fix true hind
  rw [h] at ho
  cases h' : File.add st b' l' verb args fix true with
  | mk st1' a1' =>
    rw [h'] at ho
    simp only [obs, Prod.mk.injEq] at ho
    obtain ⟨hv, hlen, ha⟩ := ho
    refine ⟨st1', by rw [ha], hv.symm, ?_⟩
    rw [he] at hlen
    exact List.eq_nil_of_length_eq_zero hlen.symm

/-! ### the generalised step -/

/-- the result of one successful `File.add` step on a line whose `isIndirect` is `ind`, and its replay on the
    rewritten arguments for every line with the same `isIndirect` -/
structure StepOKE (st st1 : AddState) (verb : Bytes) (args1 : List Bytes) (fix : Option Fixer) (ind : Bool) : Prop where
  errs : st.errsRev = []
  replay : ∀ (st' : AddState) (block' : Option Comments) (l' : Line), Sim st st' → isIndirect l' = ind →
    ∃ st1', File.add st' block' l' verb args1 fix true = (st1', args1) ∧ Sim st1 st1'

/-- the line without its end-of-line comments -/
def clrLine (l : Line) : Line := { l with comments := { l.comments with suffix := [] } }

theorem isIndirect_clr (l : Line) : isIndirect (clrLine l) = false := rfl

theorem wellFormed_of_values {f g : Modfile.File} (h : values f = values g) (hw : WellFormed f) : WellFormed g := by
  have hv := (values_eq_iff _ _).1 h
  obtain ⟨h1, _, _, _, h5, h6, h7, h8, h9⟩ := hv
  refine ⟨?_, ?_, ?_, ?_, ?_, ?_⟩
  · intro m hm
    rw [hm] at h1
    cases hf : f.module with
    | none => rw [hf] at h1; cases h1
    | some m0 =>
      rw [hf] at h1
      simp only [Option.map_some, Option.some.injEq] at h1
      rw [← h1]; exact hw.module m0 hf
  · intro r hr
    have : (r.mod, r.indirect) ∈ g.require.map (fun r => (r.mod, r.indirect)) := List.mem_map_of_mem hr
    rw [← h5] at this
    obtain ⟨r0, hr0, heq⟩ := List.mem_map.1 this
    simp only [Prod.mk.injEq] at heq
    rw [← heq.1]; exact hw.require r0 hr0
  · intro r hr
    have : r.mod ∈ g.exclude.map (·.mod) := List.mem_map_of_mem hr
    rw [← h6] at this
    obtain ⟨r0, hr0, heq⟩ := List.mem_map.1 this
    rw [← heq]; exact hw.exclude r0 hr0
  · intro r hr
    have : (r.old, r.new) ∈ g.replace.map (fun r => (r.old, r.new)) := List.mem_map_of_mem hr
    rw [← h7] at this
    obtain ⟨r0, hr0, heq⟩ := List.mem_map.1 this
    simp only [Prod.mk.injEq] at heq
    rw [← heq.1, ← heq.2]; exact hw.replace r0 hr0
  · intro r hr
    have : r.interval ∈ g.retract.map (·.interval) := List.mem_map_of_mem hr
    rw [← h8] at this
    obtain ⟨r0, hr0, heq⟩ := List.mem_map.1 this
    rw [← heq]; exact hw.retract r0 hr0
  · intro t ht
    have : t.path ∈ g.tool.map (·.path) := List.mem_map_of_mem ht
    rw [← h9] at this
    obtain ⟨t0, ht0, heq⟩ := List.mem_map.1 this
    rw [← heq]; exact hw.tool t0 ht0

/-- a step proved for lines without end-of-line comments extends to all lines, for every verb but `require` -/
theorem stepOK_upgrade {st st1 st10 : AddState} {verb : Bytes} {args1 : List Bytes} {fix : Option Fixer}
    (hs : StepOK st st10 verb args1 fix) (hv : values st1.file = values st10.file) (he : st1.errsRev = [])
    (hnr : (verb == B "require") = false) (ind : Bool) : StepOKE st st1 verb args1 fix ind := by
  refine ⟨hs.errs, ?_⟩
  intro st' block' l' hsim _
  obtain ⟨s0, hadd0, hsim0⟩ := hs.replay st' block' (clrLine l') hsim rfl
  obtain ⟨s1, hadd1, hv1, he1⟩ := add_transfer st' block' block' (clrLine l') l' verb args1 args1 fix s0
    (by intro h; rw [hnr] at h; cases h) hadd0 hsim0.errs'
  exact ⟨s1, hadd1, ⟨by rw [hv, hsim0.vals, hv1], he, he1⟩⟩

/-- `require` on a line with any comments: the new entry carries `isIndirect` of the line -/
theorem add_requireE (st st1 : AddState) (block : Option Comments) (l : Line) (args args1 : List Bytes)
    (fix : Option Fixer) (h : File.add st block l (B "require") args fix true = (st1, args1))
    (he : st1.errsRev = []) (hfix : FixOK fix) :
    ∃ a0 a1 s v, args = [a0, a1] ∧ args1 = [autoQuote s, v] ∧
      st1.file = { st.file with require := st.file.require ++
        [{ mod := { path := s, version := v }, indirect := isIndirect l, lineId := l.id }] } ∧
      ((fix ≠ none → VerOK v) → VerOK v ∧ StepOKE st st1 (B "require") args1 fix (isIndirect l)) := by
  obtain ⟨v1, v2, v3, v4, v5, v6, v7, v8, v9, v10, v11, v12, v13, v14, v15, v16, v17, v18, v19, v20, v21, v22, v23,
    v24, v25, v26, v27, v28, v29, v30, v31, v32, v33, v34, v35, v36⟩ := verb_ne
  unfold File.add at h
  simp only [Bool.not_true, Bool.false_and, Bool.false_eq_true, if_false, v7, v8, v9, v10, beq_self_eq_true, Bool.true_or,
    if_true] at h
  split at h
  · rename_i a0 a1
    split at h
    · simp only [Prod.mk.injEq] at h; obtain ⟨rfl, _⟩ := h; exact absurd he (err_ne_nil _ _ _)
    · rename_i s a0' hps
      have ha0 := ModfileFmtDir.parseString_tok hps
      subst ha0
      split at h
      · simp only [Prod.mk.injEq] at h; obtain ⟨rfl, _⟩ := h; exact absurd he (err_ne_nil _ _ _)
      · rename_i a1' v hpv
        split at h
        · simp only [Prod.mk.injEq] at h; obtain ⟨rfl, _⟩ := h; exact absurd he (err_ne_nil _ _ _)
        · rename_i pm hpm
          split at h
          · simp only [Prod.mk.injEq] at h; obtain ⟨rfl, _⟩ := h; exact absurd he (err_ne_nil _ _ _)
          · rename_i hcm
            have hcm' : Module.checkPathMajor v pm = true := by simpa using hcm
            have htok := parseVersion_ok_tok hpv
            subst htok
            simp only [Prod.mk.injEq] at h
            obtain ⟨rfl, rfl⟩ := h
            refine ⟨a0, a1, s, a1', rfl, rfl, rfl, ?_⟩
            intro hvv
            obtain ⟨_, hvok, hrefix⟩ := fixOK_version hfix hpv hvv
            refine ⟨hvok, he, ?_⟩
            intro st' block' l' hsim hl'
            refine ⟨{ st' with file := { st'.file with require := st'.file.require ++
              [{ mod := { path := s, version := a1' }, indirect := isIndirect l', lineId := l'.id }] } }, ?_, ?_⟩
            · unfold File.add
              simp only [Bool.not_true, Bool.false_and, Bool.false_eq_true, if_false, v7, v8, v9, v10,
                beq_self_eq_true, Bool.true_or, if_true, ModfileFmtQuote.parseString_autoQuote, hrefix, hpm, hcm',
                Bool.not_true]
            · have hv := (values_eq_iff _ _).1 hsim.vals
              refine ⟨(values_eq_iff _ _).2 ⟨hv.1, hv.2.1, hv.2.2.1, hv.2.2.2.1, ?_, hv.2.2.2.2.2⟩, he, hsim.errs'⟩
              simp [hv.2.2.2.2.1, hl']
  · simp only [Prod.mk.injEq] at h; obtain ⟨rfl, _⟩ := h; exact absurd he (err_ne_nil _ _ _)

end ModVerif.Proofs.ModfileEol
