/-
  EditRefine, part 14 — the tree invariant along whole go.mod sessions (all operations but the two bulk requirement
  setters), and what it says about the typed lists.
-/
import ModVerif.Proofs.EditRefineInvOps
set_option linter.unusedSimpArgs false
namespace ModVerif.Modfile.Edit
open ModVerif ModVerif.Modfile

/-- arguments valid for the tree-level theorem: non-empty keys also for the Drop operations; the two bulk
    requirement setters and the go.work operations are not covered -/
def ValidArgsT : Op → Prop
  | .addGodebug k _ => k ≠ []
  | .dropGodebug k => k ≠ []
  | .addRequire p _ => p ≠ []
  | .addNewRequire p _ _ => p ≠ []
  | .dropRequire p => p ≠ []
  | .setRequire _ _ => False
  | .setRequireSeparateIndirect _ _ => False
  | .addExclude p _ => p ≠ []
  | .dropExclude p _ => p ≠ []
  | .addReplace op _ _ _ => op ≠ []
  | .dropReplace op _ => op ≠ []
  | .dropRetract lo hi => lo ≠ [] ∨ hi ≠ []
  | .addTool p => p ≠ []
  | .dropTool p => p ≠ []
  | _ => True

/-- one operation preserves the invariant -/
theorem applyMod_inv (e e' : EFile) (op : Op) (hv : ValidArgsT op) (hi : Inv e) (h : applyMod e op = some (.ok e')) : Inv e' := by
  cases op with
  | addModule p => simp only [applyMod, Option.some.injEq, Except.ok.injEq] at h; subst h; exact addModuleStmt_inv e p hi
  | addGo v => simp only [applyMod, Option.some.injEq] at h; exact addGoStmt_inv e e' v hi h
  | dropGo => simp only [applyMod, Option.some.injEq, Except.ok.injEq] at h; subst h; exact dropGoStmt_inv e hi
  | addToolchain n => simp only [applyMod, Option.some.injEq] at h; exact addToolchainStmt_inv e e' n hi h
  | dropToolchain => simp only [applyMod, Option.some.injEq, Except.ok.injEq] at h; subst h; exact dropToolchainStmt_inv e hi
  | addGodebug k v => simp only [applyMod, Option.some.injEq] at h; exact addGodebug_inv e e' k v hv hi h
  | dropGodebug k => simp only [applyMod, Option.some.injEq] at h; exact dropGodebug_inv e e' k hv hi h
  | addRequire p v => simp only [applyMod, Option.some.injEq] at h; exact addRequire_inv e e' p v hv hi h
  | addNewRequire p v i =>
    simp only [applyMod, Option.some.injEq, Except.ok.injEq] at h; subst h; exact addNewRequire_inv e p v i hv hi
  | dropRequire p => simp only [applyMod, Option.some.injEq] at h; exact dropRequire_inv e e' p hv hi h
  | setRequire w r => exact absurd hv (by simp [ValidArgsT])
  | setRequireSeparateIndirect w r => exact absurd hv (by simp [ValidArgsT])
  | addExclude p v => simp only [applyMod, Option.some.injEq] at h; exact addExclude_inv e e' p v hv hi h
  | dropExclude p v => simp only [applyMod, Option.some.injEq] at h; exact dropExclude_inv e e' p v hv hi h
  | addReplace a b c d => simp only [applyMod, Option.some.injEq] at h; exact addReplace_inv e e' a b c d hv hi h
  | dropReplace a b => simp only [applyMod, Option.some.injEq] at h; exact dropReplace_inv e e' a b hv hi h
  | addRetract lo hi' why => simp only [applyMod, Option.some.injEq] at h; exact addRetract_inv e e' _ why hi h
  | dropRetract lo hi' => simp only [applyMod, Option.some.injEq] at h; exact dropRetract_inv e e' lo hi' hv hi h
  | addTool p => simp only [applyMod, Option.some.injEq, Except.ok.injEq] at h; subst h; exact addTool_inv e p hv hi
  | dropTool p => simp only [applyMod, Option.some.injEq] at h; exact dropTool_inv e e' p hv hi h
  | sortBlocks => simp only [applyMod, Option.some.injEq, Except.ok.injEq] at h; subst h; exact sortBlocks_inv e hi
  | cleanup => simp only [applyMod, Option.some.injEq, Except.ok.injEq] at h; subst h; exact cleanup_inv e hi
  | addUse d m => simp [applyMod] at h
  | addNewUse d m => simp [applyMod] at h
  | dropUse d => simp [applyMod] at h
  | setUse w rev => simp [applyMod] at h

/-- a whole session preserves the invariant (an operation that returns an error leaves the file as it was) -/
theorem runOps_inv (ops : List Op) : ∀ (e : EFile) (res0 : List Bool) (i : Nat) (e' : EFile) (res : List Bool),
    (∀ op ∈ ops, ValidArgsT op) → Inv e → runOps applyMod e ops res0 i = .done e' res → Inv e' := by
  induction ops with
  | nil =>
    intro e res0 i e' res _ hi h
    simp only [runOps, SessionResult.done.injEq] at h
    rw [← h.1]; exact hi
  | cons op ops ih =>
    intro e res0 i e' res hv hi h
    unfold runOps at h
    cases ha : applyMod e op with
    | none => simp [ha] at h
    | some r =>
      cases r with
      | ok e1 =>
        simp only [ha] at h
        exact ih e1 _ _ e' res (fun o ho => hv o (List.mem_cons_of_mem _ ho))
          (applyMod_inv e e1 op (hv op List.mem_cons_self) hi ha) h
      | error err =>
        simp only [ha] at h
        by_cases hr : err.isReturned = true
        · simp only [hr, if_true] at h
          exact ih e _ _ e' res (fun o ho => hv o (List.mem_cons_of_mem _ ho)) hi h
        · simp only [Bool.not_eq_true] at hr
          simp [hr] at h

/-- the empty go.mod satisfies the invariant -/
theorem Inv_empty : Inv (load {}) := by
  refine ⟨⟨by simp [load, shiftSyntax, treeIds, loc], by simp [load, shiftSyntax, treeIds, loc],
      by simp [load, shiftSyntax, treeIds, loc], by simp [load, shiftSyntax], by simp [load, shiftSyntax],
      by simp [load, shiftSyntax], by simp [load, shiftSyntax]⟩, ?_, ?_⟩
  · refine ⟨by simp [load, entries, entsOf], by simp [load, entries, entsOf], by simp [load, shiftSyntax, view, loc]⟩
  · exact TInv_load {} (startOKb_sound {} (by decide))

/-- **C15, tree half (all operations but SetRequire / SetRequireSeparateIndirect).**  From a state satisfying the
    invariant, after any session of operations with valid arguments and the final Cleanup: the tree is well formed
    and its live lines are exactly the renderings of the live typed entries (one line per entry, one entry per
    line; verb, AutoQuoted path, version, `// indirect` marker as the entry says). -/
theorem typed_eq_tree_partial2 (e e' : EFile) (ops : List Op) (res : List Bool) (hi : Inv e)
    (hv : ∀ op ∈ ops, ValidArgsT op) (h : runOps applyMod e ops [] 0 = .done e' res) : Inv (cleanup e') :=
  cleanup_inv e' (runOps_inv ops e [] 0 e' res hv hi h)

/-- what the invariant says about the requirements: every live typed requirement has its own live line
    `require <AutoQuoted path> <version>`, marked `// indirect` iff the entry is indirect -/
theorem Inv.require_line {e : EFile} (hi : Inv e) (r : Require) (hr : r ∈ e.f.require) (hl : r.mod.path ≠ []) :
    ∃ v ∈ view e.f.syn.stmts, v.id = r.lineId ∧ v.toks = [B "require", autoQuote r.mod.path, r.mod.version] ∧
      isIndirectS v.suffix = r.indirect := by
  have hen : entRq r ∈ entries e.f := by
    rw [entries_require]
    exact List.mem_append_right _ (List.mem_append_left _ ((mem_entsOf liveRq entRq).2 ⟨r, hr, ne_nil_live hl, rfl⟩))
  rcases hi.mtch.cover _ hen with ⟨v, hv, hid, hacc⟩
  exact ⟨v, hv, hid, hacc.1, hacc.2⟩

/-- … and every live line of the tree is the rendering of a live typed entry (the one with its id) -/
theorem Inv.line_entry {e : EFile} (hi : Inv e) (v : VLine) (hv : v ∈ view e.f.syn.stmts) :
    ∃ en ∈ entries e.f, en.id = v.id ∧ en.acc v.toks v.suffix := by
  rcases hi.mtch.surj v hv with ⟨en, hen, hid⟩
  rcases hi.mtch.cover en hen with ⟨v', hv', hid', hacc⟩
  have : v' = v := view_unique hi.tree.nodup hv' hv (hid'.trans hid)
  subst this
  exact ⟨en, hen, hid, hacc⟩

end ModVerif.Modfile.Edit
