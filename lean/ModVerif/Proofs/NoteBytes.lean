/-
  Helper lemmas for C07: base64 round trip, big-endian uint32 round trip, UTF-8 scanning over append.
-/
import ModVerif.Model.Note
namespace ModVerif.B64
open ModVerif

theorem decChar_encChar (n : Nat) (h : n < 64) : decChar (encChar n) = some n := by
  have : ∀ n : Fin 64, decChar (encChar n.val) = some n.val := by decide
  exact this ⟨n, h⟩

theorem encChar_ne_pad (n : Nat) (h : n < 64) : (encChar n == pad) = false := by
  have : ∀ n : Fin 64, (encChar n.val == pad) = false := by decide
  exact this ⟨n, h⟩

/-- an alphabet character is printable ASCII other than space, CR, LF -/
theorem encChar_range (n : Nat) (h : n < 64) : 0x20 < (encChar n).toNat ∧ (encChar n).toNat < 0x80 := by
  have : ∀ n : Fin 64, 0x20 < (encChar n.val).toNat ∧ (encChar n.val).toNat < 0x80 := by decide
  exact this ⟨n, h⟩

theorem decCore_b64enc : ∀ (x : Bytes), decCore (b64enc x) = some x
  | [] => rfl
  | [a] => by
    have ha := a.toNat_lt
    simp only [b64enc, decCore, decChar_encChar (a.toNat / 4) (by omega),
      decChar_encChar (a.toNat % 4 * 16) (by omega)]
    have : decChar pad = none := by decide
    simp only [this, beq_self_eq_true, List.isEmpty_nil, Bool.and_self, ↓reduceIte, Option.some.injEq,
      List.cons.injEq, and_true]
    rw [show a.toNat / 4 * 4 + a.toNat % 4 * 16 / 16 = a.toNat by omega]
    simp
  | [a, b] => by
    have ha := a.toNat_lt
    have hb := b.toNat_lt
    simp only [b64enc, decCore, decChar_encChar (a.toNat / 4) (by omega),
      decChar_encChar (a.toNat % 4 * 16 + b.toNat / 16) (by omega),
      decChar_encChar (b.toNat % 16 * 4) (by omega)]
    have : decChar pad = none := by decide
    simp only [this, beq_self_eq_true, List.isEmpty_nil, Bool.and_self, ↓reduceIte, Option.some.injEq,
      List.cons.injEq, and_true]
    rw [show a.toNat / 4 * 4 + (a.toNat % 4 * 16 + b.toNat / 16) / 16 = a.toNat by omega,
      show (a.toNat % 4 * 16 + b.toNat / 16) % 16 * 16 + b.toNat % 16 * 4 / 4 = b.toNat by omega]
    simp
  | a :: b :: c :: rest => by
    have ha := a.toNat_lt
    have hb := b.toNat_lt
    have hc := c.toNat_lt
    simp only [b64enc, decCore, decChar_encChar (a.toNat / 4) (by omega),
      decChar_encChar (a.toNat % 4 * 16 + b.toNat / 16) (by omega),
      decChar_encChar (b.toNat % 16 * 4 + c.toNat / 64) (by omega),
      decChar_encChar (c.toNat % 64) (by omega), decCore_b64enc rest, Option.map_some]
    rw [show a.toNat / 4 * 4 + (a.toNat % 4 * 16 + b.toNat / 16) / 16 = a.toNat by omega,
      show (a.toNat % 4 * 16 + b.toNat / 16) % 16 * 16 + (b.toNat % 16 * 4 + c.toNat / 64) / 4 = b.toNat by omega,
      show (b.toNat % 16 * 4 + c.toNat / 64) % 4 * 64 + c.toNat % 64 = c.toNat by omega]
    simp

/-- every character of an encoding is an alphabet character or '=' : printable ASCII, not space -/
theorem b64enc_chars : ∀ (x : Bytes), ∀ c ∈ b64enc x, 0x20 < c.toNat ∧ c.toNat < 0x80
  | [] => by simp [b64enc]
  | [a] => by
    have ha := a.toNat_lt
    intro c hc
    simp only [b64enc, List.mem_cons, List.not_mem_nil, or_false] at hc
    rcases hc with rfl | rfl | rfl | rfl
    · exact encChar_range _ (by omega)
    · exact encChar_range _ (by omega)
    · decide
    · decide
  | [a, b] => by
    have ha := a.toNat_lt
    have hb := b.toNat_lt
    intro c hc
    simp only [b64enc, List.mem_cons, List.not_mem_nil, or_false] at hc
    rcases hc with rfl | rfl | rfl | rfl
    · exact encChar_range _ (by omega)
    · exact encChar_range _ (by omega)
    · exact encChar_range _ (by omega)
    · decide
  | a :: b :: c :: rest => by
    have ha := a.toNat_lt
    have hb := b.toNat_lt
    have hc := c.toNat_lt
    intro d hd
    simp only [b64enc, List.mem_cons] at hd
    rcases hd with rfl | rfl | rfl | rfl | hd
    · exact encChar_range _ (by omega)
    · exact encChar_range _ (by omega)
    · exact encChar_range _ (by omega)
    · exact encChar_range _ (by omega)
    · exact b64enc_chars rest d hd

theorem b64enc_ne_nil {x : Bytes} (h : x ≠ []) : b64enc x ≠ [] := by
  match x, h with
  | [a], _ => simp [b64enc]
  | [a, b], _ => simp [b64enc]
  | a :: b :: c :: rest, _ => simp [b64enc]

/-- StdEncoding.DecodeString(StdEncoding.EncodeToString(x)) = x -/
theorem b64dec_b64enc (x : Bytes) : b64dec (b64enc x) = some x := by
  unfold b64dec
  have : (b64enc x).filter (fun c => !isCRLF c) = b64enc x := by
    apply List.filter_eq_self.mpr
    intro c hc
    have := b64enc_chars x c hc
    simp only [isCRLF, Bool.not_eq_eq_eq_not, Bool.not_true, Bool.or_eq_false_iff, beq_eq_false_iff_ne, ne_eq]
    constructor <;> (intro e; subst e; simp at this)
  rw [this]; exact decCore_b64enc x

end ModVerif.B64

namespace ModVerif.Note
open ModVerif

/-- binary.BigEndian.Uint32(PutUint32(h) ‖ x) = h -/
theorem be32_putU32 (h : UInt32) (x : Bytes) : be32 (putU32 h ++ x) = some h := by
  have hh := h.toNat_lt
  simp only [putU32, List.cons_append, List.nil_append, be32, Option.some.injEq]
  have e : ∀ n, n < 256 → (UInt8.ofNat n).toNat = n := by
    intro n hn; simp; omega
  rw [e _ (by omega), e _ (by omega), e _ (by omega), e _ (by omega)]
  rw [show h.toNat / 16777216 * 16777216 + h.toNat / 65536 % 256 * 65536 + h.toNat / 256 % 256 * 256 + h.toNat % 256
      = h.toNat by omega]
  simp

theorem putU32_length (h : UInt32) : (putU32 h).length = 4 := rfl

end ModVerif.Note
