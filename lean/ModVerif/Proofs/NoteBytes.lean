/-
  Helper lemmas for C07: base64 round trip, big-endian uint32 round trip, UTF-8 scanning over append.
-/
import ModVerif.Model.Note
namespace ModVerif.B64
open ModVerif

theorem decChar_encChar (n : Nat) (h : n < 64) : decChar (encChar n) = some n := by
  have : ∀ n : Fin 64, decChar (encChar n.val) = some n.val := by decide
  exact this ⟨n, h⟩

theorem encChar_ne_pad (n : Nat) (h : n < 64) : (encChar n == pad) = false := by
  have : ∀ n : Fin 64, (encChar n.val == pad) = false := by decide
  exact this ⟨n, h⟩

/-- an alphabet character is printable ASCII other than space, CR, LF -/
theorem encChar_range (n : Nat) (h : n < 64) : 0x20 < (encChar n).toNat ∧ (encChar n).toNat < 0x80 := by
  have : ∀ n : Fin 64, 0x20 < (encChar n.val).toNat ∧ (encChar n.val).toNat < 0x80 := by decide
  exact this ⟨n, h⟩

theorem decCore_b64enc : ∀ (x : Bytes), decCore (b64enc x) = some x
  | [] => rfl
  | [a] => by
    have ha := a.toNat_lt
    simp only [b64enc, decCore, decChar_encChar (a.toNat / 4) (by omega),
      decChar_encChar (a.toNat % 4 * 16) (by omega)]
    have : decChar pad = none := by decide
    simp only [this, beq_self_eq_true, List.isEmpty_nil, Bool.and_self, ↓reduceIte, Option.some.injEq,
      List.cons.injEq, and_true]
    rw [show a.toNat / 4 * 4 + a.toNat % 4 * 16 / 16 = a.toNat by omega]
    simp
  | [a, b] => by
    have ha := a.toNat_lt
    have hb := b.toNat_lt
    simp only [b64enc, decCore, decChar_encChar (a.toNat / 4) (by omega),
      decChar_encChar (a.toNat % 4 * 16 + b.toNat / 16) (by omega),
      decChar_encChar (b.toNat % 16 * 4) (by omega)]
    have : decChar pad = none := by decide
    simp only [this, beq_self_eq_true, List.isEmpty_nil, Bool.and_self, ↓reduceIte, Option.some.injEq,
      List.cons.injEq, and_true]
    rw [show a.toNat / 4 * 4 + (a.toNat % 4 * 16 + b.toNat / 16) / 16 = a.toNat by omega,
      show (a.toNat % 4 * 16 + b.toNat / 16) % 16 * 16 + b.toNat % 16 * 4 / 4 = b.toNat by omega]
    simp
  | a :: b :: c :: rest => by
    have ha := a.toNat_lt
    have hb := b.toNat_lt
    have hc := c.toNat_lt
    simp only [b64enc, decCore, decChar_encChar (a.toNat / 4) (by omega),
      decChar_encChar (a.toNat % 4 * 16 + b.toNat / 16) (by omega),
      decChar_encChar (b.toNat % 16 * 4 + c.toNat / 64) (by omega),
      decChar_encChar (c.toNat % 64) (by omega), decCore_b64enc rest, Option.map_some]
    rw [show a.toNat / 4 * 4 + (a.toNat % 4 * 16 + b.toNat / 16) / 16 = a.toNat by omega,
      show (a.toNat % 4 * 16 + b.toNat / 16) % 16 * 16 + (b.toNat % 16 * 4 + c.toNat / 64) / 4 = b.toNat by omega,
      show (b.toNat % 16 * 4 + c.toNat / 64) % 4 * 64 + c.toNat % 64 = c.toNat by omega]
    simp

/-- every character of an encoding is an alphabet character or '=' : printable ASCII, not space -/
theorem b64enc_chars : ∀ (x : Bytes), ∀ c ∈ b64enc x, 0x20 < c.toNat ∧ c.toNat < 0x80
  | [] => by simp [b64enc]
  | [a] => by
    have ha := a.toNat_lt
    intro c hc
    simp only [b64enc, List.mem_cons, List.not_mem_nil, or_false] at hc
    rcases hc with rfl | rfl | rfl | rfl
    · exact encChar_range _ (by omega)
    · exact encChar_range _ (by omega)
    · decide
    · decide
  | [a, b] => by
    have ha := a.toNat_lt
    have hb := b.toNat_lt
    intro c hc
    simp only [b64enc, List.mem_cons, List.not_mem_nil, or_false] at hc
    rcases hc with rfl | rfl | rfl | rfl
    · exact encChar_range _ (by omega)
    · exact encChar_range _ (by omega)
    · exact encChar_range _ (by omega)
    · decide
  | a :: b :: c :: rest => by
    have ha := a.toNat_lt
    have hb := b.toNat_lt
    have hc := c.toNat_lt
    intro d hd
    simp only [b64enc, List.mem_cons] at hd
    rcases hd with rfl | rfl | rfl | rfl | hd
    · exact encChar_range _ (by omega)
    · exact encChar_range _ (by omega)
    · exact encChar_range _ (by omega)
    · exact encChar_range _ (by omega)
    · exact b64enc_chars rest d hd

theorem b64enc_ne_nil {x : Bytes} (h : x ≠ []) : b64enc x ≠ [] := by
  match x, h with
  | [a], _ => simp [b64enc]
  | [a, b], _ => simp [b64enc]
  | a :: b :: c :: rest, _ => simp [b64enc]

/-- StdEncoding.DecodeString(StdEncoding.EncodeToString(x)) = x -/
theorem b64dec_b64enc (x : Bytes) : b64dec (b64enc x) = some x := by
  unfold b64dec
  have : (b64enc x).filter (fun c => !isCRLF c) = b64enc x := by
    apply List.filter_eq_self.mpr
    intro c hc
    have := b64enc_chars x c hc
    simp only [isCRLF, Bool.not_eq_eq_eq_not, Bool.not_true, Bool.or_eq_false_iff, beq_eq_false_iff_ne, ne_eq]
    constructor <;> (intro e; subst e; simp at this)
  rw [this]; exact decCore_b64enc x

end ModVerif.B64

namespace ModVerif.Note
open ModVerif

/-- binary.BigEndian.Uint32(PutUint32(h) ‖ x) = h -/
theorem be32_putU32 (h : UInt32) (x : Bytes) : be32 (putU32 h ++ x) = some h := by
  have hh := h.toNat_lt
  simp only [putU32, List.cons_append, List.nil_append, be32, Option.some.injEq]
  have e : ∀ n, n < 256 → (UInt8.ofNat n).toNat = n := by
    intro n hn; simp; omega
  rw [e _ (by omega), e _ (by omega), e _ (by omega), e _ (by omega)]
  rw [show h.toNat / 16777216 * 16777216 + h.toNat / 65536 % 256 * 65536 + h.toNat / 256 % 256 * 256 + h.toNat % 256
      = h.toNat by omega]
  simp

theorem putU32_length (h : UInt32) : (putU32 h).length = 4 := rfl

theorem runesOf_ascii {c : UInt8} (rest : Bytes) (h : c.toNat < 0x80) :
    runesOf (c :: rest) = (runesOf rest).map (c.toNat :: ·) := by
  rw [runesOf.eq_def]; simp only [h, if_true]

theorem runesOf_two {c b1 : UInt8} (r : Bytes) (h1 : ¬ c.toNat < 0x80) (h2 : ¬ c.toNat < 0xC2) (h3 : c.toNat < 0xE0) :
    runesOf (c :: b1 :: r) =
      if isCont b1 then (runesOf r).map (((c.toNat - 0xC0) * 64 + (b1.toNat - 0x80)) :: ·) else none := by
  rw [runesOf.eq_def]; simp only [h1, h2, h3, if_true, if_false]

theorem runesOf_three {c b1 b2 : UInt8} (r : Bytes) (h1 : ¬ c.toNat < 0x80) (h2 : ¬ c.toNat < 0xC2)
    (h3 : ¬ c.toNat < 0xE0) (h4 : c.toNat < 0xF0) :
    runesOf (c :: b1 :: b2 :: r) =
      if (decide ((if c.toNat == 0xE0 then 0xA0 else 0x80) ≤ b1.toNat) &&
          decide (b1.toNat ≤ (if c.toNat == 0xED then 0x9F else 0xBF)) && isCont b2) then
        (runesOf r).map (((c.toNat - 0xE0) * 4096 + (b1.toNat - 0x80) * 64 + (b2.toNat - 0x80)) :: ·)
      else none := by
  rw [runesOf.eq_def]; simp only [h1, h2, h3, h4, if_true, if_false]

theorem runesOf_four {c b1 b2 b3 : UInt8} (r : Bytes) (h1 : ¬ c.toNat < 0x80) (h2 : ¬ c.toNat < 0xC2)
    (h3 : ¬ c.toNat < 0xE0) (h4 : ¬ c.toNat < 0xF0) (h5 : c.toNat < 0xF5) :
    runesOf (c :: b1 :: b2 :: b3 :: r) =
      if (decide ((if c.toNat == 0xF0 then 0x90 else 0x80) ≤ b1.toNat) &&
          decide (b1.toNat ≤ (if c.toNat == 0xF4 then 0x8F else 0xBF)) && isCont b2 && isCont b3) then
        (runesOf r).map (((c.toNat - 0xF0) * 262144 + (b1.toNat - 0x80) * 4096 + (b2.toNat - 0x80) * 64 + (b3.toNat - 0x80)) :: ·)
      else none := by
  rw [runesOf.eq_def]; simp only [h1, h2, h3, h4, h5, if_true, if_false]

theorem runesOf_append {a : Bytes} {ra : List Nat} (b : Bytes) (h : runesOf a = some ra) :
    runesOf (a ++ b) = (runesOf b).map (ra ++ ·) := by
  fun_induction runesOf a generalizing ra
  case case1 => simp at h; subst h; simp
  case case2 c rest x hx ih =>
    rw [List.cons_append, runesOf_ascii _ hx]
    simp only [Option.map_eq_some_iff] at h
    obtain ⟨r, hr, rfl⟩ := h
    rw [ih hr]; simp [Option.map_map, Function.comp_def]; rfl
  case case4 c x h1 h2 h3 b1 r hc ih =>
    rw [List.cons_append, List.cons_append, runesOf_two _ h1 h2 h3, if_pos hc]
    simp only [Option.map_eq_some_iff] at h
    obtain ⟨r', hr, rfl⟩ := h
    rw [ih hr]; simp [Option.map_map, Function.comp_def]; rfl
  case case7 c x h1 h2 h3 h4 b1 b2 r lo hi hc ih =>
    rw [List.cons_append, List.cons_append, List.cons_append, runesOf_three _ h1 h2 h3 h4, if_pos hc]
    simp only [Option.map_eq_some_iff] at h
    obtain ⟨r', hr, rfl⟩ := h
    rw [ih hr]; simp [Option.map_map, Function.comp_def]; rfl
  case case10 c x h1 h2 h3 h4 h5 b1 b2 b3 r lo hi hc ih =>
    rw [List.cons_append, List.cons_append, List.cons_append, List.cons_append,
      runesOf_four _ h1 h2 h3 h4 h5, if_pos hc]
    simp only [Option.map_eq_some_iff] at h
    obtain ⟨r', hr, rfl⟩ := h
    rw [ih hr]; simp [Option.map_map, Function.comp_def]; rfl
  all_goals cases h
/-- an ASCII byte of a well-formed string is one of its runes -/
theorem runesOf_ascii_mem {a : Bytes} {ra : List Nat} (h : runesOf a = some ra) :
    ∀ d ∈ a, d.toNat < 0x80 → d.toNat ∈ ra := by
  fun_induction runesOf a generalizing ra
  case case1 => simp
  case case2 c rest x hx ih =>
    simp only [Option.map_eq_some_iff] at h
    obtain ⟨r, hr, rfl⟩ := h
    intro d hd hlt
    rcases List.mem_cons.mp hd with rfl | hd
    · exact List.mem_cons_self
    · exact List.mem_cons_of_mem _ (ih hr d hd hlt)
  case case4 c x h1 h2 h3 b1 r hc ih =>
    simp only [Option.map_eq_some_iff] at h
    obtain ⟨r', hr, rfl⟩ := h
    intro d hd hlt
    simp only [isCont, Bool.and_eq_true, decide_eq_true_eq] at hc
    simp only [List.mem_cons] at hd
    rcases hd with rfl | rfl | hd
    · exact absurd hlt h1
    · omega
    · exact List.mem_cons_of_mem _ (ih hr d hd hlt)
  case case7 c x h1 h2 h3 h4 b1 b2 r lo hi hc ih =>
    simp only [Option.map_eq_some_iff] at h
    obtain ⟨r', hr, rfl⟩ := h
    intro d hd hlt
    simp only [isCont, Bool.and_eq_true, decide_eq_true_eq] at hc
    have hlo : 0x80 ≤ lo := by show 0x80 ≤ (if (x == 224) = true then 160 else 128); split <;> omega
    simp only [List.mem_cons] at hd
    rcases hd with rfl | rfl | rfl | hd
    · exact absurd hlt h1
    · omega
    · omega
    · exact List.mem_cons_of_mem _ (ih hr d hd hlt)
  case case10 c x h1 h2 h3 h4 h5 b1 b2 b3 r lo hi hc ih =>
    simp only [Option.map_eq_some_iff] at h
    obtain ⟨r', hr, rfl⟩ := h
    intro d hd hlt
    simp only [isCont, Bool.and_eq_true, decide_eq_true_eq] at hc
    have hlo : 0x80 ≤ lo := by show 0x80 ≤ (if (x == 240) = true then 144 else 128); split <;> omega
    simp only [List.mem_cons] at hd
    rcases hd with rfl | rfl | rfl | rfl | hd
    · exact absurd hlt h1
    · omega
    · omega
    · omega
    · exact List.mem_cons_of_mem _ (ih hr d hd hlt)
  all_goals cases h

/-- an all-ASCII string is well formed and its runes are its bytes -/
theorem runesOf_of_ascii : ∀ (s : Bytes), (∀ c ∈ s, c.toNat < 0x80) → runesOf s = some (s.map (·.toNat))
  | [], _ => by simp [runesOf]
  | c :: rest, h => by
    rw [runesOf_ascii _ (h c List.mem_cons_self),
      runesOf_of_ascii rest (fun d hd => h d (List.mem_cons_of_mem _ hd))]
    simp

theorem validMsg_append {a b : Bytes} (ha : validMsg a = true) (hb : validMsg b = true) :
    validMsg (a ++ b) = true := by
  unfold validMsg at ha hb ⊢
  split at ha
  · cases ha
  · rename_i ra hra
    split at hb
    · cases hb
    · rename_i rb hrb
      rw [runesOf_append b hra, hrb]
      simp only [Option.map_some, List.all_append, Bool.and_eq_true]
      exact ⟨ha, hb⟩

/-- printable ASCII (and newline) is valid message text -/
theorem validMsg_of_ascii (s : Bytes) (h : ∀ c ∈ s, (0x20 ≤ c.toNat ∨ c = 10) ∧ c.toNat < 0x80) :
    validMsg s = true := by
  unfold validMsg
  rw [runesOf_of_ascii s (fun c hc => (h c hc).2)]
  simp only [List.all_map, List.all_eq_true, Function.comp_apply, Bool.not_eq_eq_eq_not, Bool.not_true,
    Bool.and_eq_false_imp, decide_eq_true_eq, bne_eq_false_iff_eq]
  intro c hc hlt
  rcases (h c hc).1 with h1 | rfl
  · omega
  · rfl

/-- what a valid key name gives the signature-line parser -/
theorem isValidName_spec {name : Bytes} (h : isValidName name = true) :
    name ≠ [] ∧ validMsg name = true ∧ (10 : UInt8) ∉ name ∧ (32 : UInt8) ∉ name := by
  unfold isValidName at h
  simp only [Bool.and_eq_true, Bool.not_eq_eq_eq_not, Bool.not_true] at h
  obtain ⟨⟨⟨hne, hsp⟩, _⟩, hctl⟩ := h
  split at hsp
  · cases hsp
  · rename_i rs hrs
    rw [hrs] at hctl
    simp only [Bool.not_eq_eq_eq_not, Bool.not_true, List.any_eq_false, decide_eq_true_eq] at hsp hctl
    refine ⟨by simpa [List.isEmpty_iff] using hne, ?_, ?_, ?_⟩
    · unfold validMsg
      rw [hrs]
      simp only [List.all_eq_true, Bool.not_eq_eq_eq_not, Bool.not_true, Bool.and_eq_false_imp,
        decide_eq_true_eq]
      intro r hr hlt
      exact absurd hlt (hctl r hr)
    · intro hmem
      have := runesOf_ascii_mem hrs 10 hmem (by decide)
      exact absurd (by decide : isSpace (10 : UInt8).toNat = true) (by simpa using hsp _ this)
    · intro hmem
      have := runesOf_ascii_mem hrs 32 hmem (by decide)
      exact absurd (by decide : isSpace (32 : UInt8).toNat = true) (by simpa using hsp _ this)

end ModVerif.Note
