/-
  Helper lemmas for Tie/FnEditSet.lean, `File.SetRequireSeparateIndirect`, part 13: the direct-block stage
  (`phaseCG` ↔ `sepPlan`) and the composition of the whole function.
-/
import ModVerif.Proofs.TieFnEditSetO
set_option linter.unusedSimpArgs false
set_option linter.unusedVariables false
namespace ModVerif.Tie.FnEditSetP
open ModVerif ModVerif.GoRt ModVerif.Generated.Edit ModVerif.Tie.FnEditRep ModVerif.Tie.FnEditTreeA ModVerif.Tie.FnEditSetA
  ModVerif.Tie.FnEditSetB ModVerif.Tie.FnEditSetC ModVerif.Tie.FnEditSetD ModVerif.Tie.FnEditSetE ModVerif.Tie.FnEditSetF
  ModVerif.Tie.FnEditSetG ModVerif.Tie.FnEditSetH ModVerif.Tie.FnEditSetI ModVerif.Tie.FnEditSetJ ModVerif.Tie.FnEditSetK
  ModVerif.Tie.FnEditSetL ModVerif.Tie.FnEditSetM ModVerif.Tie.FnEditSetN ModVerif.Tie.FnEditSetO
open ModVerif.Modfile.Edit (EFile Want treeIds Scan scanStmts hasComments SepCtx insertAt emptyRequireBlock ensureBlock EditErr
  setRequireSeparateIndirect)

theorem Good_lt {stmts : List Modfile.Expr} {i : Nat} (h : Good stmts i) : i < stmts.length := by
  rcases h with ⟨l, hl, _⟩ | ⟨b, hb⟩
  · exact (List.getElem?_eq_some_iff.1 hl).1
  · exact (List.getElem?_eq_some_iff.1 hb).1

theorem Good_line {stmts : List Modfile.Expr} {i : Nat} (h : Good stmts i) {l : Modfile.Line}
    (hl : stmts[i]? = some (Modfile.Expr.line l)) : l.token ≠ [] := by
  rcases h with ⟨l', hl', ht⟩ | ⟨b, hb⟩
  · rw [hl] at hl'; cases hl'; exact ht
  · rw [hl] at hb; cases hb

/-- the common hypotheses of the block stages -/
structure Stage0 (h : Heap) (fp : Int) (o : File) (e : EFile) (fo0 : FileSyntax) (ps : List Int) (req : List Want) : Prop where
  mods : heapGet h.mods fp = .ok o
  rep : RepFAt h o e
  file : heapGet h.files o.Syntax = .ok fo0
  args : ReqArgsS h.requires ps req
  dis : ∀ p ∈ ps, p ∉ o.Require
  inTree : ∀ rq ∈ e.f.require, rq.lineId ≠ 0 → rq.lineId ∈ treeIds e.f.syn.stmts

theorem Stage0.stmts {h : Heap} {fp : Int} {o : File} {e : EFile} {fo0 : FileSyntax} {ps : List Int} {req : List Want}
    (S : Stage0 h fp o e fo0 ps req) : RStmts h fo0.Stmt e.f.syn.stmts ∧ (blockPtrs fo0.Stmt).Nodup := by
  obtain ⟨es, r⟩ := S.rep.syn
  rw [RepSynAt_stmt_eq r S.file]
  exact ⟨r.stmts, r.nodupB⟩

theorem cast_succ (k : Nat) : ((k : Int) + 1) = ((k + 1 : Nat) : Int) := by omega

set_option maxHeartbeats 400000 in
theorem plan_sim (isPrint : Int → Bool) (quote : Bytes → Bytes) (fuel : Nat) {h : Heap} {fp : Int} {o : File} {e : EFile}
    {fo0 : FileSyntax} {ps : List Int} {req : List Want} (S : Stage0 h fp o e fo0 ps req) :
    match sepPlan e with
    | .ok (ctx, stmts') =>
      ∃ h' dB iB, phaseCG isPrint quote fuel fp ps (ltbG fo0.Stmt (scanStmts e.f.syn.stmts 0 {}).lineToBlock)
          (oneFlatM e.f.syn.stmts (scanStmts e.f.syn.stmts 0 {})) (optI (scanStmts e.f.syn.stmts 0 {}).lastDirect)
          (optI (scanStmts e.f.syn.stmts 0 {}).lastIndirect) (optI (scanStmts e.f.syn.stmts 0 {}).lastRequire) h =
          tailG isPrint quote fuel fp ps (ltbG fo0.Stmt (scanStmts e.f.syn.stmts 0 {}).lineToBlock) ctx.oneFlat dB iB h' ∧
        TailReady h' fp e ctx stmts' ps req (ltbG fo0.Stmt (scanStmts e.f.syn.stmts 0 {}).lineToBlock) dB iB
    | .error _ =>
      phaseCG isPrint quote fuel fp ps (ltbG fo0.Stmt (scanStmts e.f.syn.stmts 0 {}).lineToBlock)
          (oneFlatM e.f.syn.stmts (scanStmts e.f.syn.stmts 0 {})) (optI (scanStmts e.f.syn.stmts 0 {}).lastDirect)
          (optI (scanStmts e.f.syn.stmts 0 {}).lastIndirect) (optI (scanStmts e.f.syn.stmts 0 {}).lastRequire) h = .error .panic := by
  obtain ⟨hrs, hnb⟩ := S.stmts
  have hlen0 : fo0.Stmt.length = e.f.syn.stmts.length := hrs.length
  have hOK : ScanOK e.f.syn.stmts (scanStmts e.f.syn.stmts 0 {}) := by
    have := scan_ok e.f.syn.stmts [] {} (by simpa using ScanOK.init e.f.syn.stmts)
    simpa using this
  have hle0 : ∀ p ∈ blockPtrs fo0.Stmt, p.toNat ≤ h.blocks.length := fun p hp => (RStmts_blockPtrs_le hrs p hp).2
  have hml0 : ∀ q ∈ (scanStmts e.f.syn.stmts 0 {}).lineToBlock, ∃ p, fo0.Stmt[q.2]? = some (Expr.LineBlock p) := by
    intro q hq
    obtain ⟨b, hb⟩ := hOK.ltb q hq
    obtain ⟨p, _, hp, _⟩ := RStmts_get_block hrs hb
    exact ⟨p, hp⟩
  -- the state after `insertBlock(i)` as input of the indirect stage
  have hins : ∀ (i : Nat) (hi : i ≤ e.f.syn.stmts.length) (li sh : Option Nat),
      (∀ j, li = some j → sh = some i ∧ j = i + 1 ∧ Good e.f.syn.stmts i) →
      ∃ h1 fo1, File_SetRequireSeparateIndirect_insertBlock isPrint quote fuel fp (i : Int) h =
          .ok (((h.blocks.length + 1 : Nat) : Int), h1) ∧
        Stage1 h1 fp o e (insertAt e.f.syn.stmts i emptyRequireBlock) fo1 fo0.Stmt (scanStmts e.f.syn.stmts 0 {}).lineToBlock i none
          ((h.blocks.length + 1 : Nat) : Int) li sh ps req := by
    intro i hi li sh hli
    obtain ⟨h1, fo, es, hrun, R', hfile, hes, hfile', hmods, hreqs, hlines, hblocks, _⟩ :=
      insertBlock_sim isPrint quote fuel S.mods S.rep i hi
    have hfo : fo = fo0 := by rw [S.file] at hfile; exact (Except.ok.inj hfile).symm
    subst hfo
    subst hes
    have hi' : i ≤ fo.Stmt.length := by rw [hlen0]; exact hi
    refine ⟨h1, _, hrun, ⟨by rw [hmods]; exact S.mods, R', hfile', insertAt_get_eq _ _ _ hi', by omega, ?_, hnb, hml0, ?_, ?_, ?_, ?_,
      by rw [hreqs]; exact S.args, S.dis, ?_⟩⟩
    · show _ ∉ blockPtrs fo.Stmt
      intro hm; have := hle0 _ hm; omega
    · intro p hp; have := hle0 p hp; rw [hblocks]; simp; omega
    · intro j hj
      obtain ⟨hsh, hj1, hg⟩ := hli j hj
      subst hj1
      refine ⟨i, hsh, ?_, ?_⟩
      · intro p hp
        have : (insertAt fo.Stmt i (Expr.LineBlock ((h.blocks.length + 1 : Nat) : Int)))[i + 1]? = fo.Stmt[i]? :=
          insertAt_get_succ _ _ _ hi'
        exact Or.inl (by rw [← this]; exact hp)
      · intro q' hq' ⟨p', hp'⟩
        have : (insertAt fo.Stmt i (Expr.LineBlock ((h.blocks.length + 1 : Nat) : Int)))[i + 1]? = fo.Stmt[i]? :=
          insertAt_get_succ _ _ _ hi'
        have hq'' : fo.Stmt[i]? = some (Expr.Line q') := by rw [← this]; exact hq'
        rw [hq''] at hp'; cases hp'
    · intro j hj l hl
      obtain ⟨hsh, hj1, hg⟩ := hli j hj
      subst hj1
      rw [insertAt_get_succ _ _ _ hi] at hl
      exact Good_line hg hl
    · rw [insertAt_length]; omega
    · intro rq hrq h0; rw [treeIds_insertAt]; exact S.inTree rq hrq h0
  unfold sepPlan phaseCG
  simp only []
  cases hld : (scanStmts e.f.syn.stmts 0 {}).lastDirect with
  | none =>
    have hlt : decide (optI (none : Option Nat) < 0) = true := by simp [optI]
    simp only [hlt, if_true]
    cases hli : (scanStmts e.f.syn.stmts 0 {}).lastIndirect with
    | some j =>
      have ho : optI (some j) = (j : Int) := rfl
      generalize optI (some j) = oj at ho ⊢
      subst ho
      have hge : decide ((j : Int) ≥ 0) = true := by
        have : (j : Int) ≥ 0 := by omega
        simp [this]
      simp only [hge, if_true]
      have hg := hOK.li j hli
      obtain ⟨h1, fo1, hrun, S1⟩ := hins j (Nat.le_of_lt (Good_lt hg)) (some (j + 1)) (some j)
        (fun j' hj' => ⟨rfl, by cases hj'; rfl, hg⟩)
      simp only [bind, Except.bind, hrun]
      have := indirectPlan_sim isPrint quote fuel (oneFlatM e.f.syn.stmts (scanStmts e.f.syn.stmts 0 {})) S1
      rw [cast_succ]
      have ho2 : optI (some (j + 1)) = ((j + 1 : Nat) : Int) := rfl
      rw [ho2] at this
      cases hp : indirectPlan (oneFlatM e.f.syn.stmts (scanStmts e.f.syn.stmts 0 {})) (scanStmts e.f.syn.stmts 0 {}).lineToBlock
          (insertAt e.f.syn.stmts j emptyRequireBlock) j none (some (j + 1)) (some j) with
      | error err => rw [hp] at this; exact this
      | ok res =>
        obtain ⟨ctx, stmts2⟩ := res
        rw [hp] at this
        obtain ⟨h', iB, hrun2, T⟩ := this
        exact ⟨h', _, iB, hrun2, T⟩
    | none =>
      have hge : decide (optI (none : Option Nat) ≥ 0) = false := by simp [optI]
      simp only [hge, Bool.false_eq_true, if_false]
      cases hlr : (scanStmts e.f.syn.stmts 0 {}).lastRequire with
      | some k =>
        have ho : optI (some k) = (k : Int) := rfl
        generalize optI (some k) = ok at ho ⊢
        subst ho
        have hge2 : decide ((k : Int) ≥ 0) = true := by
          have : (k : Int) ≥ 0 := by omega
          simp [this]
        simp only [hge2, if_true]
        have hg := hOK.lr k hlr
        obtain ⟨h1, fo1, hrun, S1⟩ := hins (k + 1) (Good_lt hg) none none (fun j' hj' => by cases hj')
        rw [cast_succ]
        simp only [bind, Except.bind, hrun]
        have := indirectPlan_sim isPrint quote fuel (oneFlatM e.f.syn.stmts (scanStmts e.f.syn.stmts 0 {})) S1
        cases hp : indirectPlan (oneFlatM e.f.syn.stmts (scanStmts e.f.syn.stmts 0 {})) (scanStmts e.f.syn.stmts 0 {}).lineToBlock
            (insertAt e.f.syn.stmts (k + 1) emptyRequireBlock) (k + 1) none none none with
        | error err => rw [hp] at this; exact this
        | ok res =>
          obtain ⟨ctx, stmts2⟩ := res
          rw [hp] at this
          obtain ⟨h', iB, hrun2, T⟩ := this
          exact ⟨h', _, iB, hrun2, T⟩
      | none =>
        simp only [hge, Bool.false_eq_true, if_false, bind, Except.bind, S.mods, S.file]
        have hlen : len fo0.Stmt = ((e.f.syn.stmts.length : Nat) : Int) := by rw [len_eq, hlen0]
        rw [hlen]
        obtain ⟨h1, fo1, hrun, S1⟩ := hins e.f.syn.stmts.length (Nat.le_refl _) none none (fun j' hj' => by cases hj')
        simp only [hrun]
        have hia : insertAt e.f.syn.stmts e.f.syn.stmts.length emptyRequireBlock = e.f.syn.stmts ++ [emptyRequireBlock] := by
          simp [insertAt]
        rw [hia] at S1
        have := indirectPlan_sim isPrint quote fuel (oneFlatM e.f.syn.stmts (scanStmts e.f.syn.stmts 0 {})) S1
        cases hp : indirectPlan (oneFlatM e.f.syn.stmts (scanStmts e.f.syn.stmts 0 {})) (scanStmts e.f.syn.stmts 0 {}).lineToBlock
            (e.f.syn.stmts ++ [emptyRequireBlock]) e.f.syn.stmts.length none none none with
        | error err => rw [hp] at this; exact this
        | ok res =>
          obtain ⟨ctx, stmts2⟩ := res
          rw [hp] at this
          obtain ⟨h', iB, hrun2, T⟩ := this
          exact ⟨h', _, iB, hrun2, T⟩
  | some d =>
    have ho : optI (some d) = (d : Int) := rfl
    generalize optI (some d) = od at ho ⊢
    subst ho
    have hlt : decide ((d : Int) < 0) = false := by
      have : ¬ ((d : Int) < 0) := by omega
      simp [this]
    simp only [hlt, Bool.false_eq_true, if_false]
    have hg := hOK.ld d hld
    have hE := ensureBlock_sim isPrint quote fuel S.mods S.rep d S.file (fun l hl => Good_line hg hl)
    cases hen : ensureBlock e.f.syn.stmts d with
    | error err =>
      rw [hen] at hE
      simp only [bind, Except.bind, hE]
    | ok stmts1 =>
      rw [hen] at hE
      obtain ⟨h1, dB, es1, hrun, R1, hfile1, hget1, hdpos, hcase, hmods, hreqs, hble, htree⟩ := hE
      simp only [bind, Except.bind, hrun]
      -- the model's list after ensureBlock
      have hst1 : (∀ b, e.f.syn.stmts[d]? = some (Modfile.Expr.lineBlock b) → stmts1 = e.f.syn.stmts) ∧
          (∀ l, e.f.syn.stmts[d]? = some (Modfile.Expr.line l) → stmts1 = e.f.syn.stmts.set d
            (Modfile.Expr.lineBlock { token := [B "require"], lines := [{ l with token := l.token.drop 1, inBlock := true }] })) := by
        constructor
        · intro b hb; simp only [ensureBlock, hb] at hen; cases hen; rfl
        · intro l hl; simp only [ensureBlock, hl] at hen; cases hen; rfl
      have hlen1 : stmts1.length = e.f.syn.stmts.length := by
        rcases hcase with ⟨_, _, b, hb⟩ | ⟨_, _, _, _, l, hl⟩
        · rw [hst1.1 b hb]
        · rw [hst1.2 l hl]; simp
      have S1 : Stage1 h1 fp o e stmts1 { fo0 with Stmt := es1 } fo0.Stmt (scanStmts e.f.syn.stmts 0 {}).lineToBlock d
          (if isBlockAt e.f.syn.stmts d then some d else none) dB (scanStmts e.f.syn.stmts 0 {}).lastIndirect
          (scanStmts e.f.syn.stmts 0 {}).lastIndirect ps req := by
        refine ⟨by rw [hmods]; exact S.mods, R1, hfile1, hget1, hdpos, ?_, hnb, hml0, ?_, ?_, ?_, by rw [hlen1]; exact Good_lt hg,
          by rw [hreqs]; exact S.args, S.dis, ?_⟩
        · rcases hcase with ⟨hb, _, b, hsb⟩ | ⟨q, hq, _, hbp, l, hsl⟩
          · rw [isBlockAt_true hsb, if_pos rfl]; exact Or.inl hb
          · rw [isBlockAt_line hsl]
            simp only [Bool.false_eq_true, if_false, Origin]
            intro hm; have := hle0 _ hm; omega
        · intro p hp; have := hle0 p hp; omega
        · intro j hj
          refine ⟨j, hj, ?_, ?_⟩
          · intro p hp
            rcases hcase with ⟨hb, hes', _⟩ | ⟨q, hq, hes', hbp, l, hsl⟩
            · exact Or.inl (by rw [← hes']; exact hp)
            · by_cases ejd : d = j
              · subst ejd
                have hp' : es1[d]? = some (Expr.LineBlock p) := hp
                rw [hget1] at hp'; cases hp'
                refine Or.inr ⟨?_, ?_⟩
                · intro hm; have := hle0 _ hm; omega
                · intro ⟨p', hp''⟩; rw [hq] at hp''; cases hp''
              · have hp' : es1[j]? = some (Expr.LineBlock p) := hp
                rw [hes', List.getElem?_set_ne ejd] at hp'
                exact Or.inl hp'
          · intro q' hq' ⟨p', hp'⟩
            have hq'' : es1[j]? = some (Expr.Line q') := hq'
            rcases hcase with ⟨hb, hes', _⟩ | ⟨q, hq, hes', hbp, l, hsl⟩
            · rw [hes', hp'] at hq''; cases hq''
            · by_cases ejd : d = j
              · subst ejd; rw [hget1] at hq''; cases hq''
              · rw [hes', List.getElem?_set_ne ejd, hp'] at hq''; cases hq''
        · intro j hj l hl
          have hgj := hOK.li j hj
          rcases hcase with ⟨_, _, b, hb⟩ | ⟨_, _, _, _, l', hl'⟩
          · rw [hst1.1 b hb] at hl; exact Good_line hgj hl
          · rw [hst1.2 l' hl'] at hl
            by_cases ejd : d = j
            · subst ejd
              rw [List.getElem?_set_self (Good_lt hg)] at hl; cases hl
            · rw [List.getElem?_set_ne ejd] at hl; exact Good_line hgj hl
        · intro rq hrq h0; rw [htree]; exact S.inTree rq hrq h0
      have := indirectPlan_sim isPrint quote fuel (oneFlatM e.f.syn.stmts (scanStmts e.f.syn.stmts 0 {})) S1
      cases hp : indirectPlan (oneFlatM e.f.syn.stmts (scanStmts e.f.syn.stmts 0 {})) (scanStmts e.f.syn.stmts 0 {}).lineToBlock
          stmts1 d (if isBlockAt e.f.syn.stmts d then some d else none) (scanStmts e.f.syn.stmts 0 {}).lastIndirect
          (scanStmts e.f.syn.stmts 0 {}).lastIndirect with
      | error err => rw [hp] at this; exact this
      | ok res =>
        obtain ⟨ctx, stmts2⟩ := res
        rw [hp] at this
        obtain ⟨h', iB, hrun2, T⟩ := this
        exact ⟨h', _, iB, hrun2, T⟩

/-! ### oneFlatUncommentedBlock -/

theorem oneFlatG_eq (isPrint : Int → Bool) (quote : Bytes → Bytes) (fuel : Nat) {h : Heap} {fp : Int} {o : File} {e : EFile}
    {fo0 : FileSyntax} {ps : List Int} {req : List Want} (S : Stage0 h fp o e fo0 ps req) :
    oneFlatG isPrint quote fuel fp ((scanStmts e.f.syn.stmts 0 {}).count : Int) (optI (scanStmts e.f.syn.stmts 0 {}).lastRequire) h =
      .ok (oneFlatM e.f.syn.stmts (scanStmts e.f.syn.stmts 0 {})) := by
  obtain ⟨hrs, hnb⟩ := S.stmts
  have hOK : ScanOK e.f.syn.stmts (scanStmts e.f.syn.stmts 0 {}) := by
    have := scan_ok e.f.syn.stmts [] {} (by simpa using ScanOK.init e.f.syn.stmts)
    simpa using this
  unfold oneFlatG oneFlatM
  by_cases hc : (scanStmts e.f.syn.stmts 0 {}).count = 1
  · have hci : (((scanStmts e.f.syn.stmts 0 {}).count : Nat) : Int) = 1 := by omega
    have hd : decide ((((scanStmts e.f.syn.stmts 0 {}).count : Nat) : Int) = 1) = true := decide_eq_true hci
    have hne := hOK.cnt (by omega)
    cases hlr : (scanStmts e.f.syn.stmts 0 {}).lastRequire with
    | none => exact absurd hlr hne
    | some i =>
      have hg := hOK.lr i hlr
      have hlt := Good_lt hg
      have hlt' : i < fo0.Stmt.length := by rw [hrs.length]; exact hlt
      have hs : e.f.syn.stmts[i]? = some e.f.syn.stmts[i] := List.getElem?_eq_getElem hlt
      have he : fo0.Stmt[i]? = some fo0.Stmt[i] := List.getElem?_eq_getElem hlt'
      have hre := hrs.get i _ _ he hs
      simp only [hd, if_true, bind, Except.bind, S.mods, S.file, optI_some, idxL_natCast hlt', getComments_eq hre, hasComments_eq,
        pure, Except.pure, hc, hs, Option.map_some, Option.getD_some]
      simp
  · have hci : ¬ ((((scanStmts e.f.syn.stmts 0 {}).count : Nat) : Int) = 1) := by omega
    have hd : decide ((((scanStmts e.f.syn.stmts 0 {}).count : Nat) : Int) = 1) = false := decide_eq_false hci
    have hb : ((scanStmts e.f.syn.stmts 0 {}).count == 1) = false := by simpa using hc
    simp only [hd, Bool.false_eq_true, if_false, hb, Bool.false_and, pure, Except.pure]

/-! ### the whole function -/

/-- fuel of `File_SetRequireSeparateIndirect`: the scan, then the tail in the state the model's plan leads to -/
def fuelSep (FS : EFile → Nat) (e : EFile) (req : List Want) : Nat :=
  max (nodes e.f.syn.stmts + 1)
    (match sepPlan e with
     | .ok (ctx, stmts') => fuelTail FS ctx (withStmts e stmts') req
     | .error _ => 0)

/-- **`File.SetRequireSeparateIndirect` on a represented file is the model's `setRequireSeparateIndirect` with `perm = id`**
    (the regenerated code iterates the map `need` in insertion order); the model's errors (`nilDeref`, `badStatement`) are Go
    panics.  `InTree`: the syntax line of every requirement is a line of the tree (or nil). -/
theorem File_SetRequireSeparateIndirect_sim (hIdx : IndirectIdxOK) {isPrint : Int → Bool} {quote : Bytes → Bytes}
    (hAQ : AutoQuoteSpec isPrint quote) {FS : EFile → Nat} (hS : SortBlocksSpec FS)
    {h : Heap} {fp : Int} {e : EFile} {ps : List Int} {req : List Want} {fuel : Nat}
    (R : RepF h fp e) (hq : ReqArgsS h.requires ps req)
    (hdis : ∀ o, heapGet h.mods fp = .ok o → ∀ p ∈ ps, p ∉ o.Require)
    (hT : ∀ rq ∈ e.f.require, rq.lineId ≠ 0 → rq.lineId ∈ treeIds e.f.syn.stmts)
    (hf : fuelSep FS e req ≤ fuel) :
    match setRequireSeparateIndirect e req id with
    | .ok e' => ∃ h', File_SetRequireSeparateIndirect isPrint quote fuel fp ps h = .ok ((), h') ∧ RepF h' fp e'
    | .error _ => File_SetRequireSeparateIndirect isPrint quote fuel fp ps h = .error .panic := by
  obtain ⟨o, hm, RA⟩ := R
  obtain ⟨es, r⟩ := RA.syn
  have S : Stage0 h fp o e (fileG e.f.syn es) ps req := ⟨hm, RA, r.file, hq, hdis o hm, hT⟩
  unfold fuelSep at hf
  have h1 : File_SetRequireSeparateIndirect_loop1 isPrint quote es fp fuel 0 (-1) 0 h (-1) (-1) [] =
      .ok (len es, optI (scanStmts e.f.syn.stmts 0 {}).lastRequire, ((scanStmts e.f.syn.stmts 0 {}).count : Int), h,
        optI (scanStmts e.f.syn.stmts 0 {}).lastIndirect, optI (scanStmts e.f.syn.stmts 0 {}).lastDirect,
        ltbG es (scanStmts e.f.syn.stmts 0 {}).lineToBlock) :=
    loop1S_sim isPrint quote h fp es e.f.syn.stmts r.nodupL e.f.syn.stmts es [] [] 0 {} fuel rfl rfl rfl rfl r.stmts
      (fun _ hq' => by cases hq') (by omega)
  rw [main_factor, model_factor]
  simp only [bind, Except.bind, hm, r.file, fileG_Stmt, h1, oneFlatG_eq isPrint quote fuel S]
  have hplan := plan_sim isPrint quote fuel S
  simp only [fileG_Stmt] at hplan
  cases hp : sepPlan e with
  | error err =>
    rw [hp] at hplan
    exact hplan
  | ok res =>
    obtain ⟨ctx, stmts'⟩ := res
    rw [hp] at hplan
    simp only [hp] at hf
    obtain ⟨h', dB, iB, hrun, T⟩ := hplan
    obtain ⟨o', fo', hm', R', hfile', hdi, hii, hdis'⟩ := T.ex
    rw [hrun]
    exact tail_sim hIdx hAQ hS hm' R' hfile' hdi hii T.ltb T.args hdis' (by simpa using T.inTree) (by omega)

end ModVerif.Tie.FnEditSetP
