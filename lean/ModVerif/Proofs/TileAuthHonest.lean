/-
  C10: the honest server (abstract true-hash function `T`): every check of ReadHashes passes, the true stored hashes
  are returned and exactly the planned tiles with their true contents are saved.
-/
import ModVerif.Proofs.TileAuthMain
namespace ModVerif.TileAuth
open ModVerif ModVerif.Tlog ModVerif.Tile ModVerif.TlogStore

theorem lv_lt_63 (N lv k : Nat) (hv : (k + 1) * 2 ^ lv ≤ N) (hN : N < 2 ^ 63) : lv < 63 := by
  have : 1 * 2 ^ lv ≤ (k + 1) * 2 ^ lv := Nat.mul_le_mul_right _ (by omega)
  have h2 : 2 ^ lv < 2 ^ 63 := by omega
  exact (Nat.pow_lt_pow_iff_right (by omega)).mp h2

theorem mapM_option_exists {α β : Type} (f : α → Option β) : ∀ l : List α, (∀ x ∈ l, ∃ b, f x = some b) →
    ∃ r, l.mapM f = some r := by
  intro l
  induction l with
  | nil => intro _; exact ⟨[], rfl⟩
  | cons a l ih =>
    intro h
    obtain ⟨b, hb⟩ := h a (by simp)
    obtain ⟨r, hr⟩ := ih (fun x hx => h x (by simp [hx]))
    exact ⟨b :: r, by rw [List.mapM_cons, hb, hr]; rfl⟩

section
variable {H : Type} (node : H → H → H) (T : Nat → Nat → H) (N : Nat) (th : H) (st : List H)

theorem hashList_of_get (tiles : List Tile) (data : List (List H)) : ∀ (l : List (Nat × Nat)) (hs : List H),
    hs.length = l.length →
    (∀ (i x j : Nat), l[i]? = some (x, j) → ∃ v, hs[i]? = some v ∧ hashAt node tiles data j x = .ok v) →
    hashList node tiles data l = .ok hs := by
  intro l
  induction l with
  | nil =>
    intro hs h _
    have : hs = [] := List.eq_nil_of_length_eq_zero (by simpa using h)
    subst this; rfl
  | cons a l ih =>
    intro hs h hp
    obtain ⟨x, j⟩ := a
    cases hs with
    | nil => simp at h
    | cons v hs =>
      obtain ⟨v', e1, e2⟩ := hp 0 x j rfl
      simp only [List.getElem?_cons_zero, Option.some.injEq] at e1
      subst e1
      simp only [hashList, e2, ih hs (by simpa using h) (fun i x' j' hi => by simpa using hp (i + 1) x' j' (by simpa using hi)),
        bind, Except.bind, pure, Except.pure]

/-- reading a coordinate from the true content of its tile -/
theorem hashAt_home (env : Env node T N st) (h : Nat) (h1 : 1 ≤ h) (h2 : h ≤ 30) (hN : N < 2 ^ 63)
    (tiles : List Tile) (data : List (List H)) (j x : Nat) (c : Nat × Nat)
    (hs : splitStoredHashIndex x = .ok c) (hv : (c.2 + 1) * 2 ^ c.1 ≤ N)
    (ht : tiles[j]? = some (home h N c))
    (hd : data[j]? = some (tdata T (home h N c).h (home h N c).l (home h N c).n (home h N c).w)) :
    hashAt node tiles data j x = .ok (T c.1 c.2) := by
  unfold hashAt
  rw [ht, hd]
  simp only
  have hnz := home_nonzero h N c (by omega) hv
  obtain ⟨f1, f2, f3, f4, f5⟩ := stdTile_fields N h (c.1 / h) (tnum h c.1 c.2) hnz
  rw [← home] at f1 f2 f3 f4 f5
  have hlv := lv_lt_63 N c.1 c.2 hv hN
  have hdiv : c.1 / h ≤ c.1 := Nat.div_le_self _ _
  have hin := coord_in_tile h N c.1 c.2 (by omega) hv
  have hle := ts_le h c.1 c.2 (by omega)
  exact hashFromTile_good node T N env.step (home h N c) x c.1 c.2 hs hv (by omega) (by omega) f5 (by omega)
    (by rw [f4, f1]; omega) (by rw [f1, f2]) (by rw [f1, f3]) (by rw [f1, f4]; omega)

variable [DecidableEq H]

/-- ★ (abstract form) against the honest server every check passes: the result is the list of true stored hashes and
    SaveTiles receives exactly the planned tiles with their true contents -/
theorem honest_abs (env : Env node T N st)
    (hroot : ∀ cs, Cover cs 0 N → foldR node (cs.map fun c => T c.1 c.2) = some th)
    (h : Nat) (h1 : 1 ≤ h) (h2 : h ≤ 30) (hN : N < 2 ^ 63) (hpos : 0 < N) (idx : List Nat)
    (hidx : ∀ x ∈ idx, x < storedHashIndex 0 N) :
    ∃ p data hs, plan h N idx = .ok p ∧ p.tiles.mapM (trueTile st) = some data ∧ idx.mapM (st[·]?) = some hs ∧
      (readHashes node N th h idx (trueTile st)).saved = some (p.tiles.zip data) ∧
      (readHashes node N th h idx (trueTile st)).result = .ok hs := by
  have hh : 0 < h := by omega
  obtain ⟨cs, p, hp, ok⟩ := plan_spec h N hh hN env.split idx (env_hidx node T N st env idx hidx)
  have hm : p.tiles.mapM (trueTile st) = some (p.tiles.map fun t => tdata T t.h t.l t.n t.w) := by
    apply mapM_option_some
    intro t ht
    obtain ⟨g1, _, g3, _, g5, _⟩ := std_facts N h t (ok.inv.std t ht)
    exact trueTile_eq node T N st env t g3 (by rw [g1]; exact g5)
  generalize hdat : (p.tiles.map fun t => tdata T t.h t.l t.n t.w) = data at hm
  have hdata : ∀ (i : Nat) (t : Tile), p.tiles[i]? = some t → data[i]? = some (tdata T t.h t.l t.n t.w) := by
    intro i t ht
    rw [← hdat, List.getElem?_map, ht]; rfl
  have hwd : widthsOk p.tiles data = true := by
    apply widthsOk_of
    · rw [← hdat]; simp
    · intro i t d ht hd
      rw [hdata i t ht] at hd
      cases hd
      exact tdata_length T _ _ _ _
  have hstxne : p.stx.isEmpty = false := by
    rw [ok.stx]
    cases hcs : cs with
    | nil =>
      have := ok.cover
      rw [hcs] at this
      simp [Cover] at this
      omega
    | cons c cs' => rfl
  -- the tree-hash recomputation
  have hauth : authenticate node N th p data = .ok () := by
    apply authenticate_of node N th p data (cs.map fun c => T c.1 c.2) ?_ (hroot cs ok.cover) ?_
    · apply hashList_of_get
      · rw [List.length_zip, ok.stx, ok.stoLen]; simp
      · intro i x j hz
        rw [List.getElem?_zip_eq_some, ok.stx, List.getElem?_map] at hz
        obtain ⟨z1, z2⟩ := hz
        cases hc : cs[i]? with
        | none => rw [hc] at z1; cases z1
        | some c =>
          rw [hc] at z1
          simp only [Option.map_some, Option.some.injEq] at z1
          obtain ⟨j', s1, _, s3⟩ := ok.sto i c hc
          have hjj : j' = j := by rw [s1] at z2; exact Option.some.inj z2
          subst hjj
          refine ⟨T c.1 c.2, by rw [List.getElem?_map, hc]; rfl, ?_⟩
          have hv := cover_bound cs 0 N ok.cover c (List.mem_iff_getElem?.mpr ⟨i, hc⟩)
          rw [← z1]
          exact hashAt_home node T N st env h h1 h2 hN p.tiles data j' (idxOf c) c (env.split c.1 c.2 hv) hv s3
            (hdata j' _ s3)
    · apply authChildren_of
      intro i' hi1 hi2
      have hil : i' < p.tiles.length := by have := ok.nstxLe; omega
      have ht : p.tiles[i']? = some p.tiles[i'] := List.getElem?_eq_getElem hil
      generalize p.tiles[i'] = t at ht
      obtain ⟨hfw, j, hj, hpar⟩ := ok.inv.child i' t hi1 ht
      obtain ⟨g1, g2, g3, g4, g5, g6⟩ := std_facts N h t (ok.inv.std t (List.mem_iff_getElem?.mpr ⟨i', ht⟩))
      have hp2 := Nat.two_pow_pos h
      have hfull : (t.n + 1) * 2 ^ h ≤ cnt h N t.l := by rw [Nat.add_mul]; omega
      have hpn := parent_of_full h N t.l t.n hfull
      have hpe : tileParent t 1 N = stdTile h N (t.l + 1) (t.n / 2 ^ h) := by
        rw [tileParent_eq t 1 N g2, g1, Nat.one_mul]
      have hvalid : (t.n + 1) * 2 ^ ((t.l + 1) * h) ≤ N := (valid_iff h N (t.l + 1) t.n).mpr hpn
      have hhome : tileParent t 1 N = home h N ((t.l + 1) * h, t.n) := by
        rw [hpe]
        simp only [home, tnum, Nat.mul_div_cancel _ hh, Nat.mul_mod_left, Nat.sub_zero]
      have hpfields := stdTile_fields N h (t.l + 1) (t.n / 2 ^ h) (by
        have := Nat.div_mul_le_self t.n (2 ^ h); omega)
      rw [← hpe] at hpfields
      obtain ⟨q1, q2, _, _, _⟩ := hpfields
      refine ⟨t, _, j, _, T ((t.l + 1) * h) t.n, ht, hdata i' t ht, (ok.inv.look _ j).mpr hpar, hdata j _ hpar, ?_, ?_⟩
      · have := hashAt_home node T N st env h h1 h2 hN p.tiles data j (storedHashIndex ((t.l + 1) * h) t.n)
          ((t.l + 1) * h, t.n) (env.split _ _ hvalid) hvalid (by rw [← hhome]; exact hpar)
          (by rw [← hhome]; exact hdata j _ hpar)
        unfold hashAt at this
        rw [hpar, hdata j _ hpar] at this
        simp only at this
        have e : (tileParent t 1 N).l * (tileParent t 1 N).h = (t.l + 1) * h := by rw [q1, q2]
        rw [e]
        exact this
      · rw [g1, hfw]
        apply tileHash_ptree node h _ _ (by simp [tdata])
        have := ptree_T node T N env.step h (t.l * h) t.n (by
          rw [show t.l * h + h = (t.l + 1) * h by rw [Nat.add_mul]; omega]; exact hvalid)
        rw [show t.l * h + h = (t.l + 1) * h by rw [Nat.add_mul]; omega] at this
        exact this
  -- the requested hashes
  obtain ⟨hs, hhs⟩ := mapM_option_exists (fun x => st[x]?) idx (by
    intro x hx
    obtain ⟨c, _, c2, c3⟩ := env_split_of_lt node T N st env x (hidx x hx)
    exact ⟨_, by rw [← c3]; exact env.get c.1 c.2 c2⟩)
  obtain ⟨hl, hget⟩ := mapM_option_get _ _ _ hhs
  have hext : extract node p data (idx.zip p.indexTileOrder) = .ok hs := by
    rw [extract_ok_iff]
    apply hashList_of_get
    · rw [List.length_zip, ok.itoLen, hl]; simp
    · intro i x j hz
      rw [List.getElem?_zip_eq_some] at hz
      obtain ⟨z1, z2⟩ := hz
      simp only at z1 z2
      obtain ⟨c, c1, c2, c3⟩ := env_split_of_lt node T N st env x (hidx x (List.mem_iff_getElem?.mpr ⟨i, z1⟩))
      obtain ⟨j', j1, j2⟩ := ok.ito i x c z1 c1
      have hjj : j' = j := by rw [j1] at z2; exact Option.some.inj z2
      subst hjj
      obtain ⟨b, b1, b2⟩ := hget i x z1
      refine ⟨b, b1, ?_⟩
      have := env.get c.1 c.2 c2
      rw [show storedHashIndex c.1 c.2 = x from c3, b2] at this
      cases this
      exact hashAt_home node T N st env h h1 h2 hN p.tiles data j' x c c1 c2 j2 (hdata j' _ j2)
  refine ⟨p, data, hs, hp, hm, hhs, ?_, ?_⟩
  · unfold readHashes
    simp only [hp, hstxne, Bool.false_eq_true, ↓reduceIte, hm, hwd, Bool.not_true, hauth]
  · unfold readHashes
    simp only [hp, hstxne, Bool.false_eq_true, ↓reduceIte, hm, hwd, Bool.not_true, hauth, hext]

omit [DecidableEq H] in
/-- once every fetched tile is true, pulling out the requested hashes cannot fail -/
theorem extract_ok_of_true (env : Env node T N st) (h : Nat) (h1 : 1 ≤ h) (h2 : h ≤ 30) (hN : N < 2 ^ 63)
    (cs : List (Nat × Nat)) (idx : List Nat) (p : Plan) (ok : PlanOK h N cs idx p) (data : List (List H))
    (hdata : ∀ (i : Nat) (t : Tile), p.tiles[i]? = some t → data[i]? = some (tdata T t.h t.l t.n t.w))
    (hidx : ∀ x ∈ idx, x < storedHashIndex 0 N) :
    ∃ hs, extract node p data (idx.zip p.indexTileOrder) = .ok hs := by
  obtain ⟨hs, hhs⟩ := mapM_option_exists (fun x => st[x]?) idx (by
    intro x hx
    obtain ⟨c, _, c2, c3⟩ := env_split_of_lt node T N st env x (hidx x hx)
    exact ⟨_, by rw [← c3]; exact env.get c.1 c.2 c2⟩)
  obtain ⟨hl, hget⟩ := mapM_option_get _ _ _ hhs
  refine ⟨hs, ?_⟩
  rw [extract_ok_iff]
  apply hashList_of_get
  · rw [List.length_zip, ok.itoLen, hl]; simp
  · intro i x j hz
    rw [List.getElem?_zip_eq_some] at hz
    obtain ⟨z1, z2⟩ := hz
    simp only at z1 z2
    obtain ⟨c, c1, c2, c3⟩ := env_split_of_lt node T N st env x (hidx x (List.mem_iff_getElem?.mpr ⟨i, z1⟩))
    obtain ⟨j', j1, j2⟩ := ok.ito i x c z1 c1
    have hjj : j' = j := by rw [j1] at z2; exact Option.some.inj z2
    subst hjj
    obtain ⟨b, b1, b2⟩ := hget i x z1
    refine ⟨b, b1, ?_⟩
    have := env.get c.1 c.2 c2
    rw [show storedHashIndex c.1 c.2 = x from c3, b2] at this
    cases this
    exact hashAt_home node T N st env h h1 h2 hN p.tiles data j' x c c1 c2 j2 (hdata j' _ j2)

/-- (abstract form) under collision freedom an error can only be raised before SaveTiles -/
theorem error_saves_nothing_abs (hcf : ∀ a b c d : H, node a b = node c d → a = c ∧ b = d) (env : Env node T N st)
    (hroot : ∀ cs, Cover cs 0 N → foldR node (cs.map fun c => T c.1 c.2) = some th)
    (h : Nat) (h1 : 1 ≤ h) (h2 : h ≤ 30) (hN : N < 2 ^ 63) (idx : List Nat) (serve : Tile → Option (List H)) (e : Err)
    (herr : (readHashes node N th h idx serve).result = .error e) :
    (readHashes node N th h idx serve).saved = none := by
  rcases readHashes_cases node N th h idx serve with ⟨a1, _⟩ | ⟨p, data, b1, _, b3, b4, b5, b6, b7⟩
  · exact a1
  · exfalso
    have hh : 0 < h := by omega
    have hidx := plan_ok_lt h N idx p b1
    obtain ⟨cs, p', q1, ok⟩ := plan_spec h N hh hN env.split idx (env_hidx node T N st env idx hidx)
    rw [b1] at q1; cases q1
    obtain ⟨hlen, hw⟩ := widthsOk_spec p.tiles data b4
    obtain ⟨hs0, r1, r2, r3⟩ := authenticate_ok node N th p data b5
    have hstx := stx_tiles_true node T N th st hcf env hroot h hh cs idx p ok data hlen hw hs0 r1 r2
    have hch : ∀ i', p.nstx ≤ i' → i' < p.tiles.length → ChildOK node N p data i' := by
      intro i' h1 h2
      exact authChildren_ok node N p data _ _ r3 i' h1 (by have := ok.nstxLe; omega)
    have hall := all_tiles_true node T N st hcf env h hh cs idx p ok data hw hstx hch
    have hdata : ∀ (i : Nat) (t : Tile), p.tiles[i]? = some t → data[i]? = some (tdata T t.h t.l t.n t.w) := by
      intro i t ht
      have hil : i < data.length := by rw [hlen]; exact (List.getElem?_eq_some_iff.mp ht).1
      have hd : data[i]? = some data[i] := List.getElem?_eq_getElem hil
      rw [hd, ← hall i t _ ht hd]
    obtain ⟨hs, hx⟩ := extract_ok_of_true node T N st env h h1 h2 hN cs idx p ok data hdata hidx
    rw [b7, hx] at herr
    cases herr

end
end ModVerif.TileAuth
