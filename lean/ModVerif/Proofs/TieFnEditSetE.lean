/-
  Helper lemmas for Tie/FnEditSet.lean, `File.SetRequireSeparateIndirect`, part 2: the SCAN of the statements (loops 1 and 2
  of the generated function) = the model's `scanStmts` / `scanBlockLines`.  The scan only reads the heap.  The indices are
  `Int`s with -1 for "none" (`optI`); the map `lineToBlock : map[*Line]*LineBlock` is the model's `(line id, block index)`
  list with the block index replaced by the block pointer at that index (`ltbG`).
-/
import ModVerif.Proofs.TieFnEditSetD
set_option linter.unusedSimpArgs false
set_option linter.unusedVariables false
namespace ModVerif.Tie.FnEditSetE
open ModVerif ModVerif.GoRt ModVerif.Generated.Edit ModVerif.Tie.FnEditRep ModVerif.Tie.FnEditTreeA ModVerif.Tie.FnEditSetA
  ModVerif.Tie.FnEditSetB ModVerif.Tie.FnEditSetD
open ModVerif.Modfile.Edit (Scan scanStmts scanBlockLines headIs hasComments treeIds)

theorem B_require : B "require" = [114, 101, 113, 117, 105, 114, 101] := by decide +kernel

def optI : Option Nat → Int
  | none => -1
  | some k => (k : Int)

@[simp] theorem optI_none : optI none = -1 := rfl
@[simp] theorem optI_some (k : Nat) : optI (some k) = (k : Int) := rfl

theorem optI_lt_zero (o : Option Nat) : optI o < 0 ↔ o = none := by
  cases o <;> simp [optI] <;> omega

def blockPtrAt (es : List Expr) (i : Nat) : Int :=
  match es[i]? with
  | some (.LineBlock p) => p
  | _ => 0

/-- the generated `lineToBlock` -/
def ltbG (es : List Expr) (ml : List (Nat × Nat)) : List (Int × Int) := ml.map fun q => ((q.1 : Int), blockPtrAt es q.2)

theorem ltbG_append (es : List Expr) (a b : List (Nat × Nat)) : ltbG es (a ++ b) = ltbG es a ++ ltbG es b := by simp [ltbG]

/-- fuel of the scan: one per statement, one per line of a block -/
def nodes : List Modfile.Expr → Nat
  | [] => 0
  | .lineBlock b :: ss => 1 + b.lines.length + nodes ss
  | _ :: ss => 1 + nodes ss

theorem nodes_block (b : Modfile.LineBlock) (ss : List Modfile.Expr) :
    nodes (Modfile.Expr.lineBlock b :: ss) = 1 + b.lines.length + nodes ss := rfl
theorem nodes_line (l : Modfile.Line) (ss : List Modfile.Expr) : nodes (Modfile.Expr.line l :: ss) = 1 + nodes ss := rfl
theorem nodes_cb (c : Modfile.CommentBlock) (ss : List Modfile.Expr) : nodes (Modfile.Expr.commentBlock c :: ss) = 1 + nodes ss := rfl

/-- the verb test of the scan: `len(tok) == 0 || tok[0] != "require"` -/
theorem verbTest (tok : List Bytes) :
    (if decide (len tok = (0 : Int)) then (pure true : M Bool) else (do
        let t ← idxL tok (0 : Int)
        pure (!decide (t = ([114, 101, 113, 117, 105, 114, 101] : Bytes))))) =
      .ok (tok.isEmpty || !headIs tok (B "require")) := by
  cases tok with
  | nil => simp [len_eq, pure, Except.pure]
  | cons a t =>
    have : ¬ (len (a :: t) = 0) := by simp [len_eq, -len_cons]; omega
    simp only [this, decide_false, Bool.false_eq_true, if_false, idxL_zero_cons, bind, Except.bind, pure, Except.pure, headIs,
      List.head?_cons, List.isEmpty_cons, Bool.false_or, B_require]
    by_cases e : a = [114, 101, 113, 117, 105, 114, 101] <;> simp [e]

/-! ### the inner loop over the lines of a block -/

theorem mapSet_fresh {κ ν : Type} [DecidableEq κ] (m : List (κ × ν)) (k : κ) (v : ν) (h : k ∉ m.map (·.1)) :
    mapSet m k v = m ++ [(k, v)] := by
  unfold GoRt.mapSet
  have : m.find? (fun p => decide (p.1 = k)) = none := by
    rw [List.find?_eq_none]
    intro q hq hqk
    exact h (List.mem_map.2 ⟨q, hq, by simpa using hqk⟩)
  simp [this]

theorem loop2S_sim (isPrint : Int → Bool) (quote : Bytes → Bytes) (h : Heap) (bp : Int) :
    ∀ (ls : List Modfile.Line) (ps pre rx : List Int) (ri : Int) (ltb : List (Int × Int)) (d i : Bool) (fuel : Nat),
      rx = pre ++ ps → ri = (pre.length : Int) → RLines h ps ls → (ls.map (·.id)).Nodup →
      (∀ l ∈ ls, ((l.id : Nat) : Int) ∉ ltb.map (·.1)) → ls.length < fuel →
      File_SetRequireSeparateIndirect_loop2 isPrint quote rx bp fuel ri ltb d i h =
        .ok (len rx, ltb ++ ls.map (fun l => ((l.id : Int), bp)), (scanBlockLines ls d i).1, (scanBlockLines ls d i).2, h)
  | [], [], pre, rx, ri, ltb, d, i, fuel + 1, hrx, hri, _, _, _, _ => by
    subst hrx hri
    have := not_lt_len_end pre
    simp [File_SetRequireSeparateIndirect_loop2, this, pure, Except.pure, scanBlockLines, len_eq]
  | l :: ls, p :: ps, pre, rx, ri, ltb, d, i, fuel + 1, hrx, hri, hr, hnd, hfr, hf => by
    obtain ⟨⟨hg, hp⟩, hr'⟩ := hr
    simp only [List.map_cons, List.nodup_cons] at hnd
    have hfresh : p ∉ ltb.map (·.1) := by rw [hp]; exact hfr l List.mem_cons_self
    have hfr' : ∀ l' ∈ ls, ((l'.id : Nat) : Int) ∉ (ltb ++ [(p, bp)]).map (·.1) := by
      intro l' hl' hm
      simp only [List.map_append, List.map_cons, List.map_nil, List.mem_append, List.mem_singleton] at hm
      rcases hm with hm | hm
      · exact hfr l' (List.mem_cons_of_mem _ hl') hm
      · rw [hp] at hm
        have : l'.id = l.id := by omega
        exact hnd.1 (List.mem_map.2 ⟨l', hl', this⟩)
    have ih := fun d' i' => loop2S_sim isPrint quote h bp ls ps (pre ++ [p]) rx (ri + 1) (ltb ++ [(p, bp)]) d' i' fuel
      (by simp [hrx]) (by simp [hri]) hr' hnd.2 hfr' (by simp at hf; omega)
    subst hrx hri
    unfold File_SetRequireSeparateIndirect_loop2
    simp only [lt_len_cursor, decide_true, if_true, idxL_cursor, bind, Except.bind, mapSet_fresh _ _ _ hfresh, hg, lineG_Comments,
      hasComments_eq, isIndirect_eq hg]
    have hcons : ltb ++ [(p, bp)] ++ ls.map (fun l => ((l.id : Int), bp)) =
        ltb ++ (l :: ls).map (fun l => ((l.id : Int), bp)) := by simp [hp]
    unfold scanBlockLines
    by_cases hc : hasComments l.comments = true
    · simp only [hc, if_true]
      rw [ih, hcons]
    · simp only [hc, Bool.false_eq_true, if_false]
      by_cases hi : Modfile.isIndirect l = true
      · simp only [hi, if_true]
        rw [ih, hcons]
      · simp only [hi, Bool.false_eq_true, if_false]
        rw [ih, hcons]
  | [], _ :: _, _, _, _, _, _, _, _, _, _, hr, _, _, _ => hr.elim
  | _ :: _, [], _, _, _, _, _, _, _, _, _, hr, _, _, _ => hr.elim

/-! ### the outer loop over the statements -/

theorem blockPtrAt_cursor (pre : List Expr) (p : Int) (es : List Expr) : blockPtrAt (pre ++ Expr.LineBlock p :: es) pre.length = p := by
  simp [blockPtrAt]

theorem treeIds_block_mid (preS : List Modfile.Expr) (b : Modfile.LineBlock) (ss : List Modfile.Expr) :
    treeIds (preS ++ Modfile.Expr.lineBlock b :: ss) = treeIds preS ++ (b.lines.map (·.id) ++ treeIds ss) := by
  rw [Modfile.Edit.treeIds_append, Modfile.Edit.treeIds_cons, Modfile.Edit.treeIds_block]

theorem loop1S_sim (isPrint : Int → Bool) (quote : Bytes → Bytes) (h : Heap) (f : Int) (rx : List Expr) (allS : List Modfile.Expr)
    (hnd : (treeIds allS).Nodup) :
    ∀ (ss : List Modfile.Expr) (es pre : List Expr) (preS : List Modfile.Expr) (ri : Int) (s : Scan) (fuel : Nat),
      rx = pre ++ es → allS = preS ++ ss → ri = (pre.length : Int) → preS.length = pre.length → RStmts h es ss →
      (∀ q ∈ s.lineToBlock, q.1 ∈ treeIds preS) → nodes ss < fuel →
      File_SetRequireSeparateIndirect_loop1 isPrint quote rx f fuel ri (optI s.lastRequire) (s.count : Int) h (optI s.lastIndirect)
          (optI s.lastDirect) (ltbG rx s.lineToBlock) =
        .ok (len rx, optI (scanStmts ss pre.length s).lastRequire, ((scanStmts ss pre.length s).count : Int), h,
          optI (scanStmts ss pre.length s).lastIndirect, optI (scanStmts ss pre.length s).lastDirect,
          ltbG rx (scanStmts ss pre.length s).lineToBlock)
  | [], [], pre, preS, ri, s, fuel + 1, hrx, _, hri, _, _, _, _ => by
    subst hrx hri
    have := not_lt_len_end pre
    simp [File_SetRequireSeparateIndirect_loop1, this, pure, Except.pure, scanStmts, len_eq]
  | st :: ss, e :: es, pre, preS, ri, s, fuel + 1, hrx, hall, hri, hpl, hr, hkeys, hf => by
    have ih := fun s' hk' hf' => loop1S_sim isPrint quote h f rx allS hnd ss es (pre ++ [e]) (preS ++ [st]) (ri + 1) s' fuel
      (by simp [hrx]) (by simp [hall]) (by simp [hri]) (by simp [hpl]) hr.2 hk' hf'
    simp only [List.length_append, List.length_singleton] at ih
    have hkeys' : ∀ q ∈ s.lineToBlock, q.1 ∈ treeIds (preS ++ [st]) := by
      intro q hq; rw [Modfile.Edit.treeIds_append]; exact List.mem_append_left _ (hkeys q hq)
    have hr1 := hr.1
    subst hrx hri
    unfold File_SetRequireSeparateIndirect_loop1
    simp only [lt_len_cursor, decide_true, if_true, idxL_cursor, bind, Except.bind, pure, Except.pure]
    cases e <;> cases st <;> simp only [RExpr] at hr1 <;> try exact hr1.elim
    · -- comment block
      simp only [scanStmts]
      exact ih s hkeys' (by rw [nodes_cb] at hf; omega)
    · -- line
      rename_i p l
      obtain ⟨hg, hp⟩ := hr1
      have hv : _ = Except.ok (l.token.isEmpty || !headIs l.token (B "require")) := verbTest (lineG l).Token
      simp only [bind, Except.bind, pure, Except.pure] at hv
      simp only [hg]
      simp only [hv]
      simp only [lineG_Comments, hasComments_eq, isIndirect_eq hg, pure, Except.pure]
      unfold scanStmts
      have hf' : nodes ss < fuel := by rw [nodes_line] at hf; omega
      by_cases ht : (l.token.isEmpty || !headIs l.token (B "require")) = true
      · simp only [ht, if_true]
        exact ih s hkeys' hf'
      · simp only [ht, Bool.false_eq_true, if_false]
        by_cases hc : hasComments l.comments = true
        · simp only [hc, Bool.not_true, Bool.false_eq_true, if_false]
          exact ih { s with lastRequire := some pre.length, count := s.count + 1 } hkeys' hf'
        · simp only [hc, Bool.not_false, if_true]
          by_cases hi : Modfile.isIndirect l = true
          · simp only [hi, if_true]
            exact ih { s with lastRequire := some pre.length, count := s.count + 1, lastIndirect := some pre.length } hkeys' hf'
          · simp only [hi, Bool.false_eq_true, if_false]
            exact ih { s with lastRequire := some pre.length, count := s.count + 1, lastDirect := some pre.length } hkeys' hf'
    · -- block
      rename_i p b
      obtain ⟨lps, hg, hl⟩ := hr1
      have hv : _ = Except.ok (b.token.isEmpty || !headIs b.token (B "require")) := verbTest (blockG b lps).Token
      simp only [bind, Except.bind, pure, Except.pure] at hv
      simp only [hg]
      simp only [hv]
      unfold scanStmts
      by_cases ht : (b.token.isEmpty || !headIs b.token (B "require")) = true
      · simp only [ht, if_true]
        exact ih s hkeys' (by rw [nodes_block] at hf; omega)
      · simp only [ht, Bool.false_eq_true, if_false]
        -- the initial flags
        have hinit : (if decide (len (blockG b lps).Line > (0 : Int)) then (do
              let v ← File_SetRequireSeparateIndirect_hasComments isPrint quote fuel (blockG b lps).Comments
              (pure (!v) : M Bool)) else pure false) =
            .ok (!b.lines.isEmpty && !hasComments b.comments) := by
          have := hl.length
          rw [blockG_Comments, hasComments_eq]
          cases hb : b.lines with
          | nil => rw [hb] at this; simp at this; subst this; simp [len_eq, pure, Except.pure]
          | cons a t =>
            rw [hb] at this
            have hl2 : lps.length = t.length + 1 := by simpa using this
            have : len lps > 0 := by simp [len_eq]; omega
            simp [this, bind, Except.bind, pure, Except.pure]
        simp only [bind, Except.bind, pure, Except.pure] at hinit
        simp only [hinit]
        simp only [blockG_Line]
        -- the inner loop
        rw [hall, treeIds_block_mid] at hnd
        have hnd2 := (List.nodup_append.1 hnd).2.1
        have hndb : (b.lines.map (·.id)).Nodup := (List.nodup_append.1 hnd2).1
        have hdisj := (List.nodup_append.1 hnd).2.2
        have hfr : ∀ l ∈ b.lines, ((l.id : Nat) : Int) ∉ (ltbG (pre ++ Expr.LineBlock p :: es) s.lineToBlock).map (·.1) := by
          intro l hl' hm
          simp only [ltbG, List.map_map, List.mem_map, Function.comp] at hm
          obtain ⟨q, hq, hqe⟩ := hm
          have hq' := hkeys q hq
          have : q.1 = l.id := by omega
          exact hdisj q.1 hq' l.id (List.mem_append_left _ (List.mem_map.2 ⟨l, hl', rfl⟩)) this
        have hinner := loop2S_sim isPrint quote h p b.lines lps [] lps 0 (ltbG (pre ++ Expr.LineBlock p :: es) s.lineToBlock)
          (!b.lines.isEmpty && !hasComments b.comments) (!b.lines.isEmpty && !hasComments b.comments) fuel rfl rfl hl hndb hfr
          (by rw [nodes_block] at hf; omega)
        simp only [hinner]
        have hltb : ltbG (pre ++ Expr.LineBlock p :: es) s.lineToBlock ++ b.lines.map (fun l => ((l.id : Int), p)) =
            ltbG (pre ++ Expr.LineBlock p :: es) (s.lineToBlock ++ b.lines.map fun l => (l.id, pre.length)) := by
          rw [ltbG_append]; congr 1
          simp [ltbG, blockPtrAt_cursor]
        rw [hltb]
        have hkeys2 : ∀ q ∈ s.lineToBlock ++ b.lines.map (fun l => (l.id, pre.length)),
            q.1 ∈ treeIds (preS ++ [Modfile.Expr.lineBlock b]) := by
          intro q hq
          rw [Modfile.Edit.treeIds_append, Modfile.Edit.treeIds_block]
          rcases List.mem_append.1 hq with hq | hq
          · exact List.mem_append_left _ (hkeys q hq)
          · obtain ⟨l, hl', rfl⟩ := List.mem_map.1 hq
            exact List.mem_append_right _ (List.mem_map.2 ⟨l, hl', rfl⟩)
        have hf' : nodes ss < fuel := by rw [nodes_block] at hf; omega
        generalize hsb : scanBlockLines b.lines (!b.lines.isEmpty && !hasComments b.comments)
          (!b.lines.isEmpty && !hasComments b.comments) = sb
        obtain ⟨ad, ai⟩ := sb
        simp only []
        cases ad <;> cases ai <;> simp only [if_true, if_false, Bool.false_eq_true]
        · exact ih { s with lastRequire := some pre.length, count := s.count + 1,
                            lineToBlock := s.lineToBlock ++ b.lines.map fun l => (l.id, pre.length) } hkeys2 hf'
        · exact ih { s with lastRequire := some pre.length, count := s.count + 1,
                            lineToBlock := s.lineToBlock ++ b.lines.map fun l => (l.id, pre.length),
                            lastIndirect := some pre.length } hkeys2 hf'
        · exact ih { s with lastRequire := some pre.length, count := s.count + 1,
                            lineToBlock := s.lineToBlock ++ b.lines.map fun l => (l.id, pre.length),
                            lastDirect := some pre.length } hkeys2 hf'
        · exact ih { s with lastRequire := some pre.length, count := s.count + 1,
                            lineToBlock := s.lineToBlock ++ b.lines.map fun l => (l.id, pre.length),
                            lastDirect := some pre.length, lastIndirect := some pre.length } hkeys2 hf'
  | [], _ :: _, _, _, _, _, _, _, _, _, _, hr, _, _ => hr.elim
  | _ :: _, [], _, _, _, _, _, _, _, _, _, hr, _, _ => hr.elim

end ModVerif.Tie.FnEditSetE
