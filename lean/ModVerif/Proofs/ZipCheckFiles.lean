import ModVerif.Spec.ZipSpec
import ModVerif.Proofs.ZipShape
namespace ModVerif.Proofs.Zip
open ModVerif ModVerif.PathClean ModVerif.Zip ModVerif.ZipSpec

/-! ### addError -/

theorem addError_mem (s : St) (p : Bytes) (om : Bool) (r : Reason) (h : p ∈ s.errPaths) :
    s.addError p om r = s := by
  unfold St.addError
  simp [h]

theorem addError_not_mem_errPaths (s : St) (p : Bytes) (om : Bool) (r : Reason) (h : p ∉ s.errPaths) :
    (s.addError p om r).errPaths = s.errPaths ++ [p] := by
  unfold St.addError
  simp [h]
  cases om <;> simp

theorem addError_valid (s : St) (p : Bytes) (om : Bool) (r : Reason) :
    (s.addError p om r).cf.valid = s.cf.valid ∧ (s.addError p om r).validFiles = s.validFiles := by
  unfold St.addError
  by_cases h : p ∈ s.errPaths
  · simp [h]
  · simp [h]; cases om <;> simp

theorem addError_not_mem_reported (s : St) (p : Bytes) (om : Bool) (r : Reason) (h : p ∉ s.errPaths) :
    (reported (s.addError p om r).cf).Perm (reported s.cf ++ [p]) := by
  unfold St.addError reported
  simp [h]
  cases om
  · simp
  · simp
    refine List.Perm.append_left _ ?_
    -- om ++ [p] ++ inv ~ om ++ inv ++ [p]
    have : (List.map (fun x => x.1) s.cf.omitted ++ p :: List.map (fun x => x.1) s.cf.invalid).Perm
        (List.map (fun x => x.1) s.cf.omitted ++ (List.map (fun x => x.1) s.cf.invalid ++ [p])) :=
      List.Perm.append_left _ (List.perm_append_singleton _ _).symm
    exact this


theorem pushValid_reported (s : St) (f : FileInfo) :
    (reported (s.pushValid f).cf).Perm (reported s.cf ++ [f.path]) := by
  unfold St.pushValid reported
  simp
  refine List.Perm.append_left _ ?_
  have h1 : (f.path :: (List.map (fun x => x.1) s.cf.omitted ++ List.map (fun x => x.1) s.cf.invalid)).Perm
      ((List.map (fun x => x.1) s.cf.omitted ++ List.map (fun x => x.1) s.cf.invalid) ++ [f.path]) :=
    (List.perm_append_singleton _ _).symm
  simpa using h1

theorem reported_sameLists {a b : St} (h : SameLists a b) : reported a.cf = reported b.cf := by
  unfold reported; rw [h.valid, h.omitted, h.invalid]

/-! ### the second loop -/

/-- paths of the files not yet reported when the loop starts -/
def fresh (errPaths : List Bytes) (l : List FileInfo) : List Bytes :=
  (l.filter (fun f => !errPaths.contains f.path)).map (·.path)

theorem fresh_congr (e1 e2 : List Bytes) (l : List FileInfo)
    (h : ∀ f ∈ l, (f.path ∈ e1 ↔ f.path ∈ e2)) : fresh e1 l = fresh e2 l := by
  unfold fresh
  congr 1
  apply List.filter_congr
  intro f hf
  have := h f hf
  by_cases h1 : f.path ∈ e1
  · have h2 := this.mp h1; simp [h1, h2]
  · have h2 : f.path ∉ e2 := fun x => h1 (this.mpr x); simp [h1, h2]

theorem mainPass_reported (E : Env) (ge124 : Bool) (hg : List Bytes) :
    ∀ (l : List FileInfo) (s : St), (l.map (·.path)).Nodup →
      (∀ f ∈ l, f.path ∈ s.errPaths → f.mode = .lstatErr) →
      (reported (mainPass E ge124 hg s l).cf).Perm (reported s.cf ++ fresh s.errPaths l) := by
  intro l
  induction l with
  | nil => intro s _ _; simp [mainPass, fresh]
  | cons f t ih =>
    intro s hnd hls
    rw [List.map_cons, List.nodup_cons] at hnd
    have hnd' : (t.map (·.path)).Nodup := hnd.2
    have hnot : ∀ g ∈ t, g.path ≠ f.path := by
      intro g hg' heq
      exact hnd.1 (by rw [← heq]; exact List.mem_map_of_mem (f := fun x : FileInfo => x.path) hg')
    show (reported (mainPass E ge124 hg (stepFile E ge124 hg s f) t).cf).Perm _
    have hsh := stepFile_shape E ge124 hg s f
    generalize stepFile E ge124 hg s f = s' at hsh ⊢
    cases hsh with
    | err s0 hs om r =>
      by_cases hp : f.path ∈ s.errPaths
      · -- already reported: nothing changes
        have hp0 : f.path ∈ s0.errPaths := by rw [hs.errPaths]; exact hp
        rw [addError_mem s0 _ om r hp0]
        have := ih s0 hnd' (by intro g hg' hm; exact hls g (List.mem_cons_of_mem _ hg') (by rw [← hs.errPaths]; exact hm))
        rw [reported_sameLists hs, hs.errPaths] at this
        refine this.trans ?_
        have : fresh s.errPaths (f :: t) = fresh s.errPaths t := by
          unfold fresh; simp [hp]
        rw [this]
      · have hp0 : f.path ∉ s0.errPaths := by rw [hs.errPaths]; exact hp
        have he := addError_not_mem_errPaths s0 f.path om r hp0
        have hr := addError_not_mem_reported s0 f.path om r hp0
        have := ih (s0.addError f.path om r) hnd' (by
          intro g hg' hm
          rw [he, hs.errPaths] at hm
          rcases List.mem_append.mp hm with hm | hm
          · exact hls g (List.mem_cons_of_mem _ hg') hm
          · exact absurd (by simpa using hm) (hnot g hg'))
        refine this.trans ?_
        rw [he, hs.errPaths]
        have hf : fresh (s.errPaths ++ [f.path]) t = fresh s.errPaths t := by
          apply fresh_congr
          intro g hg'
          constructor
          · intro hm
            rcases List.mem_append.mp hm with hm | hm
            · exact hm
            · exact absurd (by simpa using hm) (hnot g hg')
          · intro hm; exact List.mem_append_left _ hm
        rw [hf]
        have hc : fresh s.errPaths (f :: t) = f.path :: fresh s.errPaths t := by
          unfold fresh; simp [hp]
        rw [hc]
        rw [reported_sameLists hs] at hr
        have := List.Perm.append_right (fresh s.errPaths t) hr
        simpa using this
    | valid s0 hs hreg =>
      have hp : f.path ∉ s.errPaths := by
        intro hm
        have := hls f (List.mem_cons_self) hm
        rw [hreg] at this; exact absurd this (by decide)
      have he : (s0.pushValid f).errPaths = s.errPaths := by
        show s0.errPaths = _; exact hs.errPaths
      have := ih (s0.pushValid f) hnd' (by
        intro g hg' hm; rw [he] at hm; exact hls g (List.mem_cons_of_mem _ hg') hm)
      refine this.trans ?_
      rw [he]
      have hc : fresh s.errPaths (f :: t) = f.path :: fresh s.errPaths t := by
        unfold fresh; simp [hp]
      rw [hc]
      have hr := pushValid_reported s0 f
      rw [reported_sameLists hs] at hr
      have := List.Perm.append_right (fresh s.errPaths t) hr
      simpa using this


/-! ### the first loop -/

/-- the files the first loop reports: a go.mod (any case) that cannot be examined -/
def preErr (f : FileInfo) : Bool := equalFoldGoMod (pathSplit f.path).2 && f.mode == .lstatErr

/-- the files that make their directory a module root -/
def isGoModFile (f : FileInfo) : Bool := equalFoldGoMod (pathSplit f.path).2 && f.mode == .regular

theorem preStep_st (a : Pre) (f : FileInfo) :
    (preStep a f).st = if preErr f then a.st.addError f.path false .lstat else a.st := by
  unfold preStep preErr
  by_cases h1 : equalFoldGoMod (pathSplit f.path).2 = true
  · by_cases h2 : f.mode = .lstatErr
    · simp [h1, h2]
    · by_cases h3 : f.mode = .regular
      · simp [h1, h3]; split <;> rfl
      · simp [h1, h2, h3]
  · simp [h1]

theorem preStep_haveGoMod (a : Pre) (f : FileInfo) :
    (preStep a f).haveGoMod = if isGoModFile f then a.haveGoMod ++ [(pathSplit f.path).1] else a.haveGoMod := by
  unfold preStep isGoModFile
  by_cases h1 : equalFoldGoMod (pathSplit f.path).2 = true
  · by_cases h2 : f.mode = .lstatErr
    · simp [h1, h2]
    · by_cases h3 : f.mode = .regular
      · simp [h1, h3]; split <;> rfl
      · simp [h1, h2, h3]
  · simp [h1]

structure PreInv (st : St) : Prop where
  valid : st.cf.valid = []
  omitted : st.cf.omitted = []
  invalid : st.cf.invalid.map (·.1) = st.errPaths
  nodup : st.errPaths.Nodup

theorem preInv_addError (st : St) (h : PreInv st) (p : Bytes) (r : Reason) : PreInv (st.addError p false r) := by
  by_cases hp : p ∈ st.errPaths
  · rw [addError_mem st p false r hp]; exact h
  · refine ⟨?_, ?_, ?_, ?_⟩
    · rw [(addError_valid st p false r).1]; exact h.valid
    · unfold St.addError; simp [hp]; exact h.omitted
    · rw [addError_not_mem_errPaths st p false r hp]
      unfold St.addError; simp [hp]; exact h.invalid
    · rw [addError_not_mem_errPaths st p false r hp]
      exact List.nodup_append.mpr ⟨h.nodup, by simp, by intro a ha b hb; simp at hb; subst hb; intro e; subst e; exact hp ha⟩

theorem prePass_foldl_inv : ∀ (l : List FileInfo) (a : Pre), PreInv a.st →
    PreInv (l.foldl preStep a).st ∧
    (∀ p, p ∈ (l.foldl preStep a).st.errPaths → p ∈ a.st.errPaths ∨ ∃ f ∈ l, preErr f = true ∧ f.path = p) := by
  intro l
  induction l with
  | nil => intro a h; exact ⟨h, fun p hp => Or.inl hp⟩
  | cons f t ih =>
    intro a h
    have hst := preStep_st a f
    have hinv : PreInv (preStep a f).st := by
      rw [hst]; split
      · exact preInv_addError _ h _ _
      · exact h
    obtain ⟨h1, h2⟩ := ih (preStep a f) hinv
    refine ⟨h1, ?_⟩
    intro p hp
    rcases h2 p hp with hm | ⟨g, hg, hpe, hgp⟩
    · rw [hst] at hm
      by_cases hpe : preErr f = true
      · simp only [hpe, if_true] at hm
        by_cases hin : f.path ∈ a.st.errPaths
        · rw [addError_mem _ _ _ _ hin] at hm; exact Or.inl hm
        · rw [addError_not_mem_errPaths _ _ _ _ hin] at hm
          rcases List.mem_append.mp hm with hm | hm
          · exact Or.inl hm
          · exact Or.inr ⟨f, List.mem_cons_self, hpe, (List.mem_singleton.mp hm).symm⟩
      · simp only [hpe] at hm; exact Or.inl hm
    · exact Or.inr ⟨g, List.mem_cons_of_mem _ hg, hpe, hgp⟩

theorem preInv_init : PreInv ({} : Pre).st := ⟨rfl, rfl, rfl, List.nodup_nil⟩

theorem eq_of_nodup_map_path : ∀ (l : List FileInfo), (l.map (·.path)).Nodup →
    ∀ f ∈ l, ∀ g ∈ l, f.path = g.path → f = g := by
  intro l
  induction l with
  | nil => intro _ f hf; cases hf
  | cons a t ih =>
    intro hnd f hf g hg hp
    rw [List.map_cons, List.nodup_cons] at hnd
    rcases List.mem_cons.mp hf with rfl | hf' <;> rcases List.mem_cons.mp hg with rfl | hg'
    · rfl
    · exact absurd (by rw [hp]; exact List.mem_map_of_mem (f := fun x : FileInfo => x.path) hg') hnd.1
    · exact absurd (by rw [← hp]; exact List.mem_map_of_mem (f := fun x : FileInfo => x.path) hf') hnd.1
    · exact ih hnd.2 f hf' g hg' hp

/-- `checkFiles_partition`, as a statement about the final state. -/
theorem checkFilesSt_reported_perm (E : Env) (ge124 : Bool) (files : List FileInfo)
    (hnd : (files.map (·.path)).Nodup) :
    (reported (checkFilesSt E files ge124).cf).Perm (files.map (·.path)) := by
  unfold checkFilesSt
  obtain ⟨hinv, hmem⟩ := prePass_foldl_inv files {} preInv_init
  change PreInv (prePass files).st at hinv
  change ∀ p, p ∈ (prePass files).st.errPaths → _ at hmem
  have hlstat : ∀ f ∈ files, f.path ∈ (prePass files).st.errPaths → f.mode = .lstatErr := by
    intro f hf hm
    rcases hmem f.path hm with h | ⟨g, hg, hpe, hgp⟩
    · cases h
    · have := eq_of_nodup_map_path files hnd g hg f hf hgp
      subst this
      unfold preErr at hpe
      simp at hpe; exact hpe.2
  have hmain := mainPass_reported E ge124 (prePass files).haveGoMod files (prePass files).st hnd hlstat
  refine hmain.trans ?_
  -- reported of the first loop's state is its errPaths
  have hrep : reported (prePass files).st.cf = (prePass files).st.errPaths := by
    unfold reported; rw [hinv.valid, hinv.omitted, hinv.invalid]; simp
  rw [hrep]
  apply (List.perm_ext_iff_of_nodup ?_ hnd).mpr
  · intro p
    constructor
    · intro hp
      rcases List.mem_append.mp hp with hp | hp
      · rcases hmem p hp with h | ⟨g, hg, _, hgp⟩
        · cases h
        · rw [← hgp]; exact List.mem_map_of_mem (f := fun x : FileInfo => x.path) hg
      · unfold fresh at hp
        obtain ⟨f, hf, rfl⟩ := List.mem_map.mp hp
        exact List.mem_map_of_mem (f := fun x : FileInfo => x.path) (List.mem_filter.mp hf).1
    · intro hp
      obtain ⟨f, hf, rfl⟩ := List.mem_map.mp hp
      by_cases hin : f.path ∈ (prePass files).st.errPaths
      · exact List.mem_append_left _ hin
      · refine List.mem_append_right _ ?_
        unfold fresh
        exact List.mem_map_of_mem (f := fun x : FileInfo => x.path) (List.mem_filter.mpr ⟨hf, by simp [hin]⟩)
  · refine List.nodup_append.mpr ⟨hinv.nodup, ?_, ?_⟩
    · unfold fresh
      exact List.Nodup.sublist (List.Sublist.map _ List.filter_sublist) hnd
    · intro a ha b hb hab
      subst hab
      unfold fresh at hb
      obtain ⟨f, hf, rfl⟩ := List.mem_map.mp hb
      have := (List.mem_filter.mp hf).2
      simp at this
      exact this ha

end ModVerif.Proofs.Zip
