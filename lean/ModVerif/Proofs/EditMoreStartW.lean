/-
  EditMore, part 5 — the universal start-state lemma for go.work: a file accepted by `parseWork` (no fixer) with
  non-empty keys satisfies `Edit.InvW` after `loadWork`, and `WorkStartOK`.  Same structure as parts 2–4.
-/
import ModVerif.Proofs.EditMoreStartC
import ModVerif.Proofs.EditRefineInvWork
set_option linter.unusedSimpArgs false
namespace ModVerif.Modfile.Edit
open ModVerif ModVerif.Modfile ModVerif.Proofs.ModfileC20 ModVerif.Proofs.EditMore

def segsW (f : WorkFile) : List (List Ent) :=
  [f.go.toList.map entGo, f.toolchain.toList.map entTc, f.godebug.map entG, f.use.map entU, f.replace.map entRp]

def entsAllW (f : WorkFile) : List Ent := (segsW f).flatten

structure StepW (st st' : WorkState) (line : Line) (toks : List Bytes) : Prop where
  errs : st.errsRev = []
  ent : ∃ (en : Ent) (k : Nat), k < 5 ∧ segsW st'.file = (segsW st.file).set k ((segsW st.file).getD k [] ++ [en]) ∧
    en.id = line.id ∧ en.acc toks line.comments.suffix
  len : 2 ≤ toks.length

theorem errW_ne (st : WorkState) (p : Position) (k : RuleErrKind) : (st.err p k).errsRev ≠ [] := by simp [WorkState.err]

theorem workAdd_step {st st' : WorkState} {line : Line} {verb : Bytes} {args args' : List Bytes}
    (h : WorkFile.add st line verb args none = (st', args')) (he : st'.errsRev = []) : StepW st st' line (verb :: args') := by
  unfold WorkFile.add at h
  dsimp only at h
  split at h
  · rename_i hv; rw [eq_of_beq hv]
    split at h
    · cases h; exact absurd he (errW_ne _ _ _)
    · rename_i hgo
      have hgo' : st.file.go = none := by simpa using hgo
      split at h
      · rename_i a
        split at h
        · cases h; exact absurd he (errW_ne _ _ _)
        · cases h
          exact ⟨he, ⟨entGo ⟨a, line.id⟩, 0, by omega, by simp [segsW, hgo'], rfl, rfl⟩, by simp⟩
      · cases h; exact absurd he (errW_ne _ _ _)
  split at h
  · rename_i hv; rw [eq_of_beq hv]
    split at h
    · cases h; exact absurd he (errW_ne _ _ _)
    · rename_i hgo
      have hgo' : st.file.toolchain = none := by simpa using hgo
      split at h
      · rename_i a
        split at h
        · cases h; exact absurd he (errW_ne _ _ _)
        · cases h
          exact ⟨he, ⟨entTc ⟨a, line.id⟩, 1, by omega, by simp [segsW, hgo'], rfl, rfl⟩, by simp⟩
      · cases h; exact absurd he (errW_ne _ _ _)
  split at h
  · rename_i hv; rw [eq_of_beq hv]
    split at h
    · cases h; exact absurd he (errW_ne _ _ _)
    · rename_i k v hkv
      have := addGodebug_spec _ _ _ hkv
      subst this
      cases h
      exact ⟨he, ⟨entG ⟨k, v, line.id⟩, 2, by omega, by simp [segsW], rfl, rfl⟩, by simp⟩
  split at h
  · rename_i hv; rw [eq_of_beq hv]
    split at h
    · rename_i a
      split at h
      · cases h; exact absurd he (errW_ne _ _ _)
      · rename_i s a' hs
        have := parseString_tok _ _ _ hs
        subst this
        cases h
        exact ⟨he, ⟨entU { path := s, lineId := line.id }, 3, by omega, by simp [segsW], rfl, rfl⟩, by simp⟩
    · cases h; exact absurd he (errW_ne _ _ _)
  split at h
  · rename_i hv; rw [eq_of_beq hv]
    split at h
    · cases h; exact absurd he (errW_ne _ _ _)
    · rename_i a' r hr
      obtain ⟨e1, e2⟩ := parseReplace_spec _ _ _ _ hr
      cases h
      refine ⟨he, ⟨entRp r, 4, by omega, by simp [segsW], e2, e1⟩, ?_⟩
      rw [e1]; simp [replaceToks]
  · cases h; exact absurd he (errW_ne _ _ _)

theorem StepW.perm {st st' : WorkState} {line : Line} {toks : List Bytes} (h : StepW st st' line toks) :
    ∃ en, (entsAllW st'.file).Perm (entsAllW st.file ++ [en]) ∧ en.id = line.id ∧ en.acc toks line.comments.suffix := by
  rcases h.ent with ⟨en, k, hk, hs, h1, h2⟩
  refine ⟨en, ?_, h1, h2⟩
  unfold entsAllW
  rw [hs]
  exact flatten_set_perm en _ k (by simpa [segsW] using hk)

theorem workBlockLines_step (verb : Bytes) : ∀ (ls : List Line) (st st' : WorkState) (ls' : List Line),
    workBlockLines verb none st ls = (st', ls') → st'.errsRev = [] →
    st.errsRev = [] ∧ ∃ es, (entsAllW st'.file).Perm (entsAllW st.file ++ es) ∧ Paired es (ls'.map (blockV verb)) ∧
      ∀ l ∈ ls', l.token ≠ [] := by
  intro ls
  induction ls with
  | nil =>
    intro st st' ls' h he
    simp only [workBlockLines, Prod.mk.injEq] at h
    obtain ⟨rfl, rfl⟩ := h
    exact ⟨he, [], by simp, trivial, fun _ h => by cases h⟩
  | cons l rest ih =>
    intro st st' ls' h he
    unfold workBlockLines at h
    cases hA : WorkFile.add st l verb l.token none with
    | mk st1 toks =>
      cases hB : workBlockLines verb none st1 rest with
      | mk st2 ls2 =>
        simp only [hA, hB, Prod.mk.injEq] at h
        obtain ⟨rfl, rfl⟩ := h
        rcases ih st1 st2 ls2 hB he with ⟨he1, es, hp, hpair, hne⟩
        have hstep := workAdd_step hA he1
        rcases hstep.perm with ⟨en, hp1, hid, hacc⟩
        refine ⟨hstep.errs, en :: es, ?_, ⟨⟨hid.symm, hacc⟩, hpair⟩, ?_⟩
        · refine hp.trans ?_
          have := hp1.append_right es
          simpa [List.append_assoc] using this
        · intro x hx
          rcases List.mem_cons.1 hx with rfl | hx
          · have := hstep.len
            intro e
            have e' : toks = [] := e
            subst e'
            simp at this
          · exact hne x hx

theorem workStmts_step : ∀ (xs : List Expr) (st st' : WorkState) (xs' : List Expr),
    workStmts none st xs = (st', xs') → st'.errsRev = [] →
    st.errsRev = [] ∧ ∃ es, (entsAllW st'.file).Perm (entsAllW st.file ++ es) ∧ Paired es (view xs') ∧
      ∀ b, Expr.lineBlock b ∈ xs' → ∃ v, b.token = [v] := by
  intro xs
  induction xs with
  | nil =>
    intro st st' xs' h he
    simp only [workStmts, Prod.mk.injEq] at h
    obtain ⟨rfl, rfl⟩ := h
    exact ⟨he, [], by simp, trivial, fun _ h => by cases h⟩
  | cons x rest ih =>
    intro st st' xs' h he
    unfold workStmts at h
    have tail : ∀ (st1 : WorkState) (x' : Expr),
        (workStmts none st1 rest).1 = st' → xs' = x' :: (workStmts none st1 rest).2 →
        (st1.errsRev = [] → st.errsRev = [] ∧ ∃ es1, (entsAllW st1.file).Perm (entsAllW st.file ++ es1) ∧ Paired es1 (view [x']) ∧
          ∀ b, x' = Expr.lineBlock b → ∃ v, b.token = [v]) →
        st.errsRev = [] ∧ ∃ es, (entsAllW st'.file).Perm (entsAllW st.file ++ es) ∧ Paired es (view xs') ∧
          ∀ b, Expr.lineBlock b ∈ xs' → ∃ v, b.token = [v] := by
      intro st1 x' h1 h2 hhead
      cases hB : workStmts none st1 rest with
      | mk st2 xs2 =>
        rw [hB] at h1 h2
        simp only at h1 h2
        subst h1 h2
        rcases ih st1 st2 xs2 hB he with ⟨he1, es, hp, hpair, hblk⟩
        rcases hhead he1 with ⟨he0, es1, hp1, hpair1, hblk1⟩
        refine ⟨he0, es1 ++ es, ?_, ?_, ?_⟩
        · refine hp.trans ?_
          have := hp1.append_right es
          simpa [List.append_assoc] using this
        · rw [view_cons]; exact hpair1.append hpair
        · intro b hb
          rcases List.mem_cons.1 hb with hb | hb
          · exact hblk1 b hb.symm
          · exact hblk b hb
    cases x with
    | line l =>
      cases htok : l.token with
      | nil =>
        simp only [htok] at h
        refine tail st (.line l) (Prod.mk.inj h).1 (Prod.mk.inj h).2.symm ?_
        intro he1
        refine ⟨he1, [], by simp, ?_, fun b hb => by cases hb⟩
        have : view [Expr.line l] = [] := by simp [view, loc, locStmt, liveLoc, htok]
        rw [this]; trivial
      | cons verb args =>
        simp only [htok] at h
        cases hA : WorkFile.add st l verb args none with
        | mk st1 args' =>
          simp only [hA] at h
          refine tail st1 (.line { l with token := verb :: args' }) (Prod.mk.inj h).1 (Prod.mk.inj h).2.symm ?_
          intro he1
          have hstep := workAdd_step hA he1
          rcases hstep.perm with ⟨en, hp1, hid, hacc⟩
          refine ⟨hstep.errs, [en], hp1, ?_, fun b hb => by cases hb⟩
          have : view [Expr.line { l with token := verb :: args' }] = [⟨l.id, verb :: args', l.comments.suffix⟩] := by
            simp [view, loc, locStmt, liveLoc, mkV]
          rw [this]
          exact ⟨⟨hid.symm, hacc⟩, trivial⟩
    | lineBlock b =>
      simp only at h
      have herr : ∀ (p : Position) (k : RuleErrKind), (workStmts none (st.err p k) rest).1 = st' → False := by
        intro p k h1
        cases hB : workStmts none (st.err p k) rest with
        | mk st2 xs2 =>
          rw [hB] at h1; simp only at h1; subst h1
          exact errW_ne _ _ _ (ih _ _ _ hB he).1
      split at h
      · rename_i verb hbt
        split at h
        · cases hA : workBlockLines verb none st b.lines with
          | mk st1 ls1 =>
            simp only [hA] at h
            refine tail st1 (.lineBlock { b with lines := ls1 }) (Prod.mk.inj h).1 (Prod.mk.inj h).2.symm ?_
            intro he1
            rcases workBlockLines_step verb b.lines st st1 ls1 hA he1 with ⟨he0, es, hp, hpair, hne⟩
            refine ⟨he0, es, hp, ?_, ?_⟩
            · have : view [Expr.lineBlock { b with lines := ls1 }] = ls1.map (blockV verb) := by
                rw [view_block]
                simp only [hbt]
                rw [List.filter_eq_self.2]
                · rfl
                · intro l hl
                  have := hne l hl
                  cases hlt : l.token with
                  | nil => exact absurd hlt this
                  | cons _ _ => rfl
              rw [this]; exact hpair
            · intro b' hb'
              simp only [Expr.lineBlock.injEq] at hb'
              subst hb'
              exact ⟨verb, hbt⟩
        · exact (herr _ _ (Prod.mk.inj h).1).elim
      · exact (herr _ _ (Prod.mk.inj h).1).elim
    | commentBlock c =>
      simp only at h
      refine tail st (.commentBlock c) (Prod.mk.inj h).1 (Prod.mk.inj h).2.symm ?_
      intro he1
      exact ⟨he1, [], by simp, by rw [view_nil_of_other _ (by simp) (by simp)]; trivial, fun b hb => by cases hb⟩
    | lparen c =>
      simp only at h
      refine tail st (.lparen c) (Prod.mk.inj h).1 (Prod.mk.inj h).2.symm ?_
      intro he1
      exact ⟨he1, [], by simp, by rw [view_nil_of_other _ (by simp) (by simp)]; trivial, fun b hb => by cases hb⟩
    | rparen c =>
      simp only at h
      refine tail st (.rparen c) (Prod.mk.inj h).1 (Prod.mk.inj h).2.symm ?_
      intro he1
      exact ⟨he1, [], by simp, by rw [view_nil_of_other _ (by simp) (by simp)]; trivial, fun b hb => by cases hb⟩

theorem workBlockLines_flag (verb : Bytes) (fix : Option Fixer) :
    ∀ (ls : List Line) (st : WorkState), (∀ l ∈ ls, l.inBlock = true) →
      ∀ l ∈ (workBlockLines verb fix st ls).2, l.inBlock = true := by
  intro ls
  induction ls with
  | nil => intro st _ l hl; simp [workBlockLines] at hl
  | cons l0 rest ih =>
    intro st h l hl
    unfold workBlockLines at hl
    simp only [List.mem_cons] at hl
    rcases hl with rfl | hl
    · exact h l0 List.mem_cons_self
    · exact ih _ (fun x hx => h x (List.mem_cons_of_mem _ hx)) l hl

theorem workBlockLines_keys (verb : Bytes) (fix : Option Fixer) :
    ∀ (ls : List Line) (st : WorkState), (workBlockLines verb fix st ls).2.map lineKey = ls.map lineKey := by
  intro ls
  induction ls with
  | nil => intro st; rfl
  | cons l rest ih =>
    intro st
    unfold workBlockLines
    simp only [List.map_cons, ih]
    rfl

theorem workStmts_keys (fix : Option Fixer) :
    ∀ (xs : List Expr) (st : WorkState), (linesOf (workStmts fix st xs).2).map lineKey = (linesOf xs).map lineKey := by
  intro xs
  induction xs with
  | nil => intro st; rfl
  | cons x rest ih =>
    intro st
    unfold workStmts
    cases x with
    | line l =>
      cases htok : l.token with
      | nil => simp only [htok, linesOf_line, List.map_cons, ih]
      | cons verb args => simp only [htok, linesOf_line, List.map_cons, ih]; rfl
    | lineBlock b =>
      simp only
      split
      · split
        · simp only [linesOf_block, List.map_append, ih, workBlockLines_keys]
        · simp only [linesOf_block, List.map_append, ih]
      · simp only [linesOf_block, List.map_append, ih]
    | commentBlock c => simp only [linesOf_commentBlock, ih]
    | lparen c => simp only [linesOf_lparen, ih]
    | rparen c => simp only [linesOf_rparen, ih]

theorem workStmts_flag (fix : Option Fixer) : ∀ (xs : List Expr) (st : WorkState), (∀ x ∈ xs, FlagOK x) →
    ∀ x ∈ (workStmts fix st xs).2, FlagOK x := by
  intro xs
  induction xs with
  | nil => intro st _ x hx; simp [workStmts] at hx
  | cons x0 rest ih =>
    intro st h x hx
    have h0 := h x0 List.mem_cons_self
    have hrest := fun st' => ih st' (fun y hy => h y (List.mem_cons_of_mem _ hy))
    unfold workStmts at hx
    cases x0 with
    | line l =>
      cases htok : l.token with
      | nil =>
        simp only [htok, List.mem_cons] at hx
        rcases hx with rfl | hx
        · exact h0
        · exact hrest _ x hx
      | cons verb args =>
        simp only [htok, List.mem_cons] at hx
        rcases hx with rfl | hx
        · exact h0
        · exact hrest _ x hx
    | lineBlock b =>
      simp only at hx
      split at hx
      · split at hx
        · simp only [List.mem_cons] at hx
          rcases hx with rfl | hx
          · exact workBlockLines_flag _ _ _ _ h0
          · exact hrest _ x hx
        · simp only [List.mem_cons] at hx
          rcases hx with rfl | hx
          · exact h0
          · exact hrest _ x hx
      · simp only [List.mem_cons] at hx
        rcases hx with rfl | hx
        · exact h0
        · exact hrest _ x hx
    | commentBlock c =>
      simp only [List.mem_cons] at hx
      rcases hx with rfl | hx
      · trivial
      · exact hrest _ x hx
    | lparen c =>
      simp only [List.mem_cons] at hx
      rcases hx with rfl | hx
      · trivial
      · exact hrest _ x hx
    | rparen c =>
      simp only [List.mem_cons] at hx
      rcases hx with rfl | hx
      · trivial
      · exact hrest _ x hx

structure ParsedWorkOK (f : WorkFile) : Prop where
  mtch : Match (entsAllW f) (view f.syn.stmts)
  nodup : (treeIds f.syn.stmts).Nodup
  blockTok : ∀ b, Expr.lineBlock b ∈ f.syn.stmts → ∃ v, b.token = [v]
  flags : ∀ x ∈ f.syn.stmts, FlagOK x

theorem parseWork_ok {name data : Bytes} {f : WorkFile} (h : parseWork name data none = .ok f) : ParsedWorkOK f := by
  unfold parseWork at h
  cases hp : parse name data with
  | error e => simp [hp] at h
  | ok fs =>
    simp only [hp] at h
    cases hA : workStmts none { file := { syn := fs } } fs.stmts with
    | mk st stmts =>
      simp only [hA] at h
      split at h
      · rename_i he
        simp only [Except.ok.injEq] at h
        subst h
        have he' : st.errsRev = [] := by simpa using he
        rcases workStmts_step fs.stmts _ st stmts hA he' with ⟨_, es, hperm, hpair, hblk⟩
        have hids : treeIds stmts = treeIds fs.stmts := by
          rw [treeIds_eq_linesOf, treeIds_eq_linesOf]
          have := workStmts_keys none fs.stmts { file := { syn := fs } }
          rw [hA] at this
          have := congrArg (List.map Prod.fst) this
          simpa [List.map_map, lineKey, Function.comp_def] using this
        have hnd : (treeIds stmts).Nodup := by
          rw [hids, treeIds_eq_linesOf]; exact parse_ids_nodup hp
        refine ⟨?_, hnd, hblk, ?_⟩
        · refine Match.of_paired hpair ?_ (List.Nodup.sublist (view_ids_sublist _) hnd)
          have : entsAllW ({ st.file with syn := { fs with stmts := stmts } } : WorkFile) = entsAllW st.file := rfl
          rw [this]
          simpa [entsAllW, segsW] using hperm
        · have := workStmts_flag none fs.stmts { file := { syn := fs } } (parse_flags hp)
          rw [hA] at this
          exact this
      · cases h

/-- no directive of a go.work file has an empty key (cf. `WellFormedKeys`) -/
structure WorkKeys (f : WorkFile) : Prop where
  godebug : ∀ g ∈ f.godebug, g.key ≠ []
  use : ∀ u ∈ f.use, u.path ≠ []
  replace : ∀ r ∈ f.replace, r.old.path ≠ []

theorem entriesW_load (f : WorkFile) (h : WorkKeys f) : entriesW (loadWork f).f = (entsAllW f).map shiftE := by
  have e3 : entsOf liveG entG (loadWork f).f.godebug = (f.godebug.map entG).map shiftE := by
    rw [entsOf_live_all]
    · simp only [loadWork, List.map_map]; rfl
    · intro x hx; simp only [loadWork] at hx; rcases List.mem_map.1 hx with ⟨y, hy, rfl⟩; exact ne_nil_live' (h.godebug y hy)
  have e4 : entsOf liveU entU (loadWork f).f.use = (f.use.map entU).map shiftE := by
    rw [entsOf_live_all]
    · simp only [loadWork, List.map_map]; rfl
    · intro x hx; simp only [loadWork] at hx; rcases List.mem_map.1 hx with ⟨y, hy, rfl⟩; exact ne_nil_live' (h.use y hy)
  have e5 : entsOf liveRp entRp (loadWork f).f.replace = (f.replace.map entRp).map shiftE := by
    rw [entsOf_live_all]
    · simp only [loadWork, List.map_map]; rfl
    · intro x hx; simp only [loadWork] at hx; rcases List.mem_map.1 hx with ⟨y, hy, rfl⟩; exact ne_nil_live' (h.replace y hy)
  have e1 : (loadWork f).f.go.toList.map entGo = (f.go.toList.map entGo).map shiftE := by
    simp only [loadWork]; cases f.go <;> rfl
  have e2 : (loadWork f).f.toolchain.toList.map entTc = (f.toolchain.toList.map entTc).map shiftE := by
    simp only [loadWork]; cases f.toolchain <;> rfl
  unfold entriesW
  rw [e1, e2, e3, e4, e5]
  simp [entsAllW, segsW, List.map_append]

theorem id_lt_next_loadWork (f : WorkFile) (l : Line) (hl : l ∈ f.syn.allLines) : l.id + 1 < (loadWork f).next := by
  show l.id + 1 < maxId (shiftSyntax f.syn) + 1
  unfold maxId
  rw [allLines_shift]
  have := (foldl_max_ge (f.syn.allLines.map shiftLine) 0).2 (shiftLine l) (List.mem_map.2 ⟨l, hl, rfl⟩)
  simp only [shiftLine] at this
  omega

theorem ParsedWorkOK.treeWF_load {f : WorkFile} (h : ParsedWorkOK f) (hs : NoBlockSuffix f.syn) :
    TreeWF (loadWork f).f.syn.stmts (loadWork f).next := by
  have hst : (loadWork f).f.syn.stmts = f.syn.stmts.map (mapLinesStmt shiftLine) := shiftSyntax_stmts f.syn
  rw [hst]
  refine ⟨?_, ?_, ?_, ?_, ?_, ?_, ?_⟩
  · rw [treeIds_shift]
    have hn := h.nodup
    unfold List.Nodup at *
    rw [List.pairwise_map]
    exact hn.imp (fun hab e => hab (Nat.succ.inj e))
  · intro i hi
    rw [treeIds_shift] at hi
    rcases List.mem_map.1 hi with ⟨j, hj, rfl⟩
    rw [treeIds_eq_linesOf] at hj
    rcases List.mem_map.1 hj with ⟨l, hl, rfl⟩
    exact id_lt_next_loadWork f l hl
  · intro i hi
    rw [treeIds_shift] at hi
    rcases List.mem_map.1 hi with ⟨j, _, rfl⟩
    exact Nat.succ_ne_zero _
  · intro b hb
    rcases mem_mapLines_block hb with ⟨b0, hb0, rfl⟩
    exact h.blockTok b0 hb0
  · intro l hl
    rcases mem_mapLines_line hl with ⟨l0, hl0, rfl⟩
    exact h.flags _ hl0
  · intro b hb l hl
    rcases mem_mapLines_block hb with ⟨b0, hb0, rfl⟩
    simp only [List.mem_map] at hl
    rcases hl with ⟨l0, hl0, rfl⟩
    exact h.flags _ hb0 l0 hl0
  · intro b hb
    rcases mem_mapLines_block hb with ⟨b0, hb0, rfl⟩
    exact hs b0 hb0

theorem ParsedWorkOK.startOK {f : WorkFile} (h : ParsedWorkOK f) (hk : WorkKeys f) : WorkStartOK f := by
  have hsub : (f.replace.map (·.lineId)).Sublist ((entsAllW f).map (·.id)) := by
    simp only [entsAllW, segsW, List.flatten_cons, List.flatten_nil, List.append_nil, List.map_append, List.map_map]
    refine List.Sublist.trans ?_ (List.sublist_append_right _ _)
    refine List.Sublist.trans ?_ (List.sublist_append_right _ _)
    refine List.Sublist.trans ?_ (List.sublist_append_right _ _)
    refine List.Sublist.trans ?_ (List.sublist_append_right _ _)
    exact List.Sublist.refl _
  refine ⟨hk.godebug, hk.use, hk.replace, List.Nodup.sublist hsub h.mtch.nodup, ?_⟩
  intro i hi
  rcases List.mem_map.1 (hsub.subset hi) with ⟨en, hen, rfl⟩
  rcases h.mtch.cover en hen with ⟨v, hv, hid, _⟩
  have := view_id_mem_treeIds hv
  rw [treeIds_eq_linesOf] at this
  rcases List.mem_map.1 this with ⟨l, hl, hl2⟩
  exact ⟨l, hl, hl2.trans hid⟩

/-- **the universal start-state lemma (go.work)** -/
theorem parseWork_invW {name data : Bytes} {f : WorkFile} (h : parseWork name data none = .ok f)
    (hk : WorkKeys f) (hs : NoBlockSuffix f.syn) : InvW (loadWork f) := by
  have hp := parseWork_ok h
  refine ⟨hp.treeWF_load hs, ?_, WInv_load f (hp.startOK hk)⟩
  rw [entriesW_load f hk]
  have hst : (loadWork f).f.syn.stmts = f.syn.stmts.map (mapLinesStmt shiftLine) := shiftSyntax_stmts f.syn
  rw [hst, view_shift]
  exact hp.mtch.shift

theorem parseWork_startOK {name data : Bytes} {f : WorkFile} (h : parseWork name data none = .ok f)
    (hk : WorkKeys f) : WorkStartOK f :=
  (parseWork_ok h).startOK hk

end ModVerif.Modfile.Edit
