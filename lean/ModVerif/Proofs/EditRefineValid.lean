/-
  EditRefine, part 15 — the validity checks as the model computes them (`Edit.mV`: the hand-translated matchers of
  GoVersionRE / ToolchainRE and `checkCanonicalVersion`) are the specification's `EditSpec.stdValidity`.
-/
import ModVerif.Proofs.EditRefineWork
set_option linter.unusedSimpArgs false
namespace ModVerif.Modfile.Edit
open ModVerif ModVerif.Modfile ModVerif.EditSpec

theorem checkCanonicalVersion_eq (p v : Bytes) : checkCanonicalVersion p v = versionOK p v := by
  unfold checkCanonicalVersion versionOK
  rcases Module.splitPathVersion p with ⟨a, pm, ok⟩
  simp only
  by_cases h1 : v.isEmpty = true
  · simp [h1]
  · simp only [Bool.not_eq_true] at h1
    by_cases h2 : Semver.canonicalVersion v = v
    · have h2' : (v != Semver.canonicalVersion v) = false := by simp [bne, h2]
      have h2'' : (Semver.canonicalVersion v == v) = true := by simp [h2]
      simp only [h1, h2', h2'', Bool.or_self, Bool.false_eq_true, if_false, Bool.not_false, Bool.true_and]
      cases ok <;> simp
    · have h2' : (v != Semver.canonicalVersion v) = true := by
        simp only [bne, Bool.not_eq_true']
        cases hb : v == Semver.canonicalVersion v with
        | false => rfl
        | true => exact absurd (eq_of_beq hb).symm h2
      have h2'' : (Semver.canonicalVersion v == v) = false := by
        cases hb : Semver.canonicalVersion v == v with
        | false => rfl
        | true => exact absurd (eq_of_beq hb) h2
      simp [h1, h2', h2'']

theorem go1 : B "go1" = [103, 111, 49] ∧ B "go1." = [103, 111, 49, 46] := by decide +kernel

theorem toolchainRE_eq (s : Bytes) : toolchainRE s = toolchainOK s := by
  unfold toolchainRE toolchainOK
  rw [go1.1, go1.2, Bool.or_assoc]
  congr 1
  rcases s with _ | ⟨a, _ | ⟨b, _ | ⟨c, _ | ⟨d, rest⟩⟩⟩⟩ <;> simp [isPrefixOfB]
  · rw [Bool.eq_iff_iff]; simp only [Bool.and_eq_true, beq_iff_eq]
    constructor <;> rintro ⟨rfl, rfl, rfl⟩ <;> exact ⟨rfl, rfl, rfl⟩
  · rw [Bool.eq_iff_iff]; simp only [Bool.and_eq_true, beq_iff_eq]
    constructor
    · rintro ⟨⟨rfl, rfl, rfl⟩, rfl⟩; exact ⟨rfl, rfl, rfl, rfl⟩
    · rintro ⟨rfl, rfl, rfl, rfl⟩; exact ⟨⟨rfl, rfl, rfl⟩, rfl⟩

/-! ### GoVersionRE -/

theorem isDigit_eq : Modfile.isDigit = EditSpec.isDigit := by funext c; rfl
theorem isLower_eq : Modfile.isLower = EditSpec.isLower := by funext c; rfl

theorem nz_digit (c : UInt8) : (49 ≤ c && c ≤ 57) = (!(c == 48) && EditSpec.isDigit c) := by
  unfold EditSpec.isDigit
  rw [Bool.eq_iff_iff]
  simp only [Bool.and_eq_true, decide_eq_true_eq, Bool.not_eq_true', beq_eq_false_iff_ne, ne_eq]
  simp only [UInt8.le_iff_toNat_le, ← UInt8.toNat_inj]
  constructor
  · rintro ⟨h1, h2⟩
    have e1 : (49 : UInt8).toNat = 49 := rfl
    have e2 : (57 : UInt8).toNat = 57 := rfl
    have e3 : (48 : UInt8).toNat = 48 := rfl
    rw [e1] at h1; rw [e2] at h2; rw [e3]
    omega
  · rintro ⟨h0, h1, h2⟩
    have e1 : (49 : UInt8).toNat = 49 := rfl
    have e2 : (57 : UInt8).toNat = 57 := rfl
    have e3 : (48 : UInt8).toNat = 48 := rfl
    rw [e3] at h0 h1; rw [e2] at h2; rw [e1, e2]
    omega

theorem reNumNZ_eq (s : Bytes) : (reNumNZ s).map (·.2) = numPrefix false s := by
  cases s with
  | nil => rfl
  | cons c rest =>
    simp only [reNumNZ, numPrefix, nz_digit, isDigit_eq]
    by_cases h48 : (c == 48) = true
    · simp [h48]
    · simp only [Bool.not_eq_true] at h48
      simp only [h48, Bool.not_false, Bool.true_and, Bool.false_eq_true, if_false]
      by_cases hd : EditSpec.isDigit c = true
      · simp [hd]
      · simp only [Bool.not_eq_true] at hd; simp [hd]

/-- the suffix test of the two matchers -/
def sfxRE (s3 : Bytes) : Bool :=
  if s3.isEmpty then true else
    !(s3.takeWhile Modfile.isLower).isEmpty && !((s3.dropWhile Modfile.isLower).takeWhile Modfile.isDigit).isEmpty &&
      ((s3.dropWhile Modfile.isLower).dropWhile Modfile.isDigit).isEmpty

theorem digits_all (p : UInt8 → Bool) (r : Bytes) :
    (!(r.takeWhile p).isEmpty && (r.dropWhile p).isEmpty) = (!r.isEmpty && r.all p) := by
  induction r with
  | nil => rfl
  | cons x xs ih =>
    by_cases hx : p x = true
    · simp only [List.takeWhile_cons, List.dropWhile_cons, hx, if_true, List.isEmpty_cons, Bool.not_false, Bool.true_and,
        List.all_cons]
      have : (xs.dropWhile p).isEmpty = xs.all p := by
        clear ih
        induction xs with
        | nil => rfl
        | cons y ys ih2 =>
          by_cases hy : p y = true
          · simp [List.dropWhile_cons, hy, ih2]
          · simp only [Bool.not_eq_true] at hy; simp [List.dropWhile_cons, hy]
      rw [this]
    · simp only [Bool.not_eq_true] at hx
      simp [List.takeWhile_cons, List.dropWhile_cons, hx]

theorem sfxRE_eq (s : Bytes) : sfxRE s = goSuffixOK s := by
  unfold sfxRE goSuffixOK
  rw [isLower_eq, isDigit_eq]
  by_cases he : s.isEmpty = true
  · simp [he]
  · simp only [Bool.not_eq_true] at he
    simp only [he, Bool.false_eq_true, if_false, Bool.false_or, Bool.and_assoc]
    rw [digits_all]

theorem goSuffixOK_digit (d : UInt8) (rest : Bytes) (hd : EditSpec.isDigit d = true) : goSuffixOK (d :: rest) = false := by
  unfold goSuffixOK
  have hl : EditSpec.isLower d = false := by
    unfold EditSpec.isDigit at hd; unfold EditSpec.isLower
    simp only [Bool.and_eq_true, decide_eq_true_eq, UInt8.le_iff_toNat_le] at hd
    have e2 : (57 : UInt8).toNat = 57 := rfl
    have e3 : (97 : UInt8).toNat = 97 := rfl
    rw [Bool.and_eq_false_iff]
    left
    simp only [decide_eq_false_iff_not, UInt8.le_iff_toNat_le, e3]
    rw [e2] at hd
    omega
  simp [List.takeWhile_cons, hl]

/-- `(0|[1-9][0-9]*)` followed by a continuation that rejects a leading digit: the two matchers agree -/
theorem reNum_cont (k : Bytes → Bool) (hk : ∀ d rest, EditSpec.isDigit d = true → k (d :: rest) = false) (s : Bytes) :
    (match reNum s with | some (_, r) => k r | none => false) = (match numPrefix true s with | some r => k r | none => false) := by
  cases s with
  | nil => rfl
  | cons c rest =>
    by_cases h48 : c = 48
    · subst h48
      simp only [reNum, numPrefix, beq_self_eq_true, if_true]
      cases rest with
      | nil => rfl
      | cons d rest' =>
        simp only [List.head?_cons, Option.map_some, Option.getD_some, isDigit_eq]
        by_cases hd : EditSpec.isDigit d = true
        · simp [hd, hk d rest' hd]
        · simp only [Bool.not_eq_true] at hd; simp [hd]
    · have hb : (c == 48) = false := by simp [h48]
      have hre : reNum (c :: rest) = reNumNZ (c :: rest) := by
        unfold reNum
        split
        · rename_i heq; simp only [List.cons.injEq] at heq; exact absurd heq.1 h48
        · rfl
      rw [hre]
      have hnp : numPrefix true (c :: rest) = numPrefix false (c :: rest) := by simp [numPrefix, hb]
      rw [hnp]
      have := reNumNZ_eq (c :: rest)
      cases hr : reNumNZ (c :: rest) with
      | none => rw [hr] at this; simp only [Option.map_none] at this; rw [← this]
      | some pr => rw [hr] at this; simp only [Option.map_some] at this; rw [← this]

/-- the part of both matchers after `major.` -/
def k2OK (r2 : Bytes) : Bool :=
  match r2 with
  | 46 :: r3 => (match numPrefix true r3 with | some r4 => goSuffixOK r4 | none => false)
  | _ => goSuffixOK r2

theorem k2OK_digit (d : UInt8) (rest : Bytes) (hd : EditSpec.isDigit d = true) : k2OK (d :: rest) = false := by
  unfold k2OK
  split
  · rename_i heq
    simp only [List.cons.injEq] at heq
    rw [heq.1] at hd
    exact absurd hd (by decide)
  · exact goSuffixOK_digit d rest hd

theorem goVersionRE_eq (s : Bytes) : goVersionRE s = goVersionOK s := by
  have hOK : goVersionOK s = (match numPrefix false s with
      | some (46 :: r1) => (match numPrefix true r1 with | some r2 => k2OK r2 | none => false)
      | _ => false) := by
    unfold goVersionOK k2OK; rfl
  have hRE : goVersionRE s = (match reNumNZ s with
      | some (_, 46 :: s1) => (match reNum s1 with | some (_, s2) => k2OK s2 | none => false)
      | _ => false) := by
    unfold goVersionRE
    split
    · rename_i a s1 heq
      simp only [heq]
      cases hr : reNum s1 with
      | none => rfl
      | some pr =>
        rcases pr with ⟨b, s2⟩
        simp only
        cases s2 with
        | nil => exact sfxRE_eq []
        | cons y t =>
          by_cases hy : y = 46
          · subst hy
            show (match (reNum t).map (·.2) with | none => false | some s3 => sfxRE s3) = k2OK (46 :: t)
            have := reNum_cont goSuffixOK goSuffixOK_digit t
            unfold k2OK
            simp only
            rw [← this]
            cases hrt : reNum t with
            | none => rfl
            | some q => rcases q with ⟨q1, q2⟩; simp only [Option.map_some]; exact sfxRE_eq q2
          · have hk : k2OK (y :: t) = goSuffixOK (y :: t) := by
              unfold k2OK
              split
              · rename_i heq; simp only [List.cons.injEq] at heq; exact absurd heq.1 hy
              · rfl
            rw [hk, ← sfxRE_eq]
            split
            · rename_i heq
              split at heq
              · rename_i heq2; simp only [List.cons.injEq] at heq2; exact absurd heq2.1 hy
              · cases heq
            · rename_i s3 heq
              split at heq
              · rename_i heq2; simp only [List.cons.injEq] at heq2; exact absurd heq2.1 hy
              · simp only [Option.some.injEq] at heq; subst heq; rfl
    · rename_i hne
      split
      · rename_i a s1 heq; exact absurd heq (hne a s1)
      · rfl
  rw [hOK, hRE]
  have h1 := reNumNZ_eq s
  cases hr : reNumNZ s with
  | none =>
    rw [hr] at h1; simp only [Option.map_none] at h1; rw [← h1]
  | some pr =>
    rcases pr with ⟨a, r⟩
    rw [hr] at h1; simp only [Option.map_some] at h1; rw [← h1]
    cases r with
    | nil => rfl
    | cons x s1 =>
      by_cases hx : x = 46
      · subst hx
        exact reNum_cont k2OK k2OK_digit s1
      · split
        · rename_i heq; simp only [Option.some.injEq, Prod.mk.injEq, List.cons.injEq] at heq; exact absurd heq.2.1 hx
        · split
          · rename_i heq; simp only [Option.some.injEq, List.cons.injEq] at heq; exact absurd heq.1 hx
          · rfl

/-- **the model's validity checks are the specification's** -/
theorem mV_eq_std : mV = stdValidity := by
  unfold mV stdValidity
  congr 1
  · funext s; exact goVersionRE_eq s
  · funext s; exact toolchainRE_eq s
  · funext p v; exact checkCanonicalVersion_eq p v

end ModVerif.Modfile.Edit

