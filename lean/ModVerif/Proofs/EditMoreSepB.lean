/-
  EditMore, part 7 — tree surgery of SetRequireSeparateIndirect on the `view`: inserting an empty `require ( )` block,
  `ensureBlock` (wrapping a line), appending a line to the block at an index.
-/
import ModVerif.Proofs.EditMoreSepA
set_option linter.unusedSimpArgs false
namespace ModVerif.Modfile.Edit
open ModVerif ModVerif.Modfile

/-! ### statements by index -/

def BlockAt (stmts : List Expr) (k : Nat) : Prop := ∃ b, stmts[k]? = some (.lineBlock b) ∧ b.token = [B "require"]

def ReqStmt : Expr → Prop
  | .line l => l.token ≠ [] ∧ headIs l.token (B "require") = true
  | .lineBlock b => headIs b.token (B "require") = true
  | _ => False

def ReqAt (stmts : List Expr) (k : Nat) : Prop := ∃ x, stmts[k]? = some x ∧ ReqStmt x

theorem split_at {stmts : List Expr} {k : Nat} {x : Expr} (h : stmts[k]? = some x) :
    stmts = stmts.take k ++ x :: stmts.drop (k + 1) ∧ k < stmts.length := by
  rcases List.getElem?_eq_some_iff.1 h with ⟨hk, rfl⟩
  refine ⟨?_, hk⟩
  rw [List.getElem_cons_drop hk, List.take_append_drop]

theorem set_split {stmts : List Expr} {k : Nat} {x : Expr} (y : Expr) (h : stmts[k]? = some x) :
    stmts.set k y = stmts.take k ++ y :: stmts.drop (k + 1) := by
  rw [List.set_eq_take_append_cons_drop, if_pos (split_at h).2]

theorem ShapeWF.take {stmts : List Expr} (h : ShapeWF stmts) (k : Nat) : ShapeWF (stmts.take k) :=
  h.of_subset fun _ hx => List.mem_of_mem_take hx
theorem ShapeWF.drop {stmts : List Expr} (h : ShapeWF stmts) (k : Nat) : ShapeWF (stmts.drop k) :=
  h.of_subset fun _ hx => List.mem_of_mem_drop hx

/-- replace the statement at index `k` by one with the same lines -/
theorem set_same_lines {stmts : List Expr} {k : Nat} {x y : Expr} (h : stmts[k]? = some x) (hs : ShapeWF stmts)
    (hv : view [y] = view [x]) (hi : treeIds [y] = treeIds [x]) (hy : ShapeWF [y]) :
    view (stmts.set k y) = view stmts ∧ treeIds (stmts.set k y) = treeIds stmts ∧ ShapeWF (stmts.set k y) := by
  rw [set_split y h]
  have hsp := (split_at h).1
  refine ⟨?_, ?_, (hs.take k).append (ShapeWF.cons hy (hs.drop (k + 1)))⟩
  · conv => rhs; rw [hsp]
    rw [view_append, view_append, view_cons y, view_cons x, hv]
  · conv => rhs; rw [hsp]
    rw [treeIds_append, treeIds_append, treeIds_cons y, treeIds_cons x, hi]

theorem shape_empty_block : ShapeWF [emptyRequireBlock] := by
  refine ⟨fun b hb => ?_, fun l hl => ?_, fun b hb l hl => ?_, fun b hb => ?_⟩
  · simp [emptyRequireBlock] at hb; subst hb; exact ⟨_, rfl⟩
  · simp [emptyRequireBlock] at hl
  · simp [emptyRequireBlock] at hb; subst hb; cases hl
  · simp [emptyRequireBlock] at hb; subst hb; rfl

/-- inserting an empty `require ( )` block -/
theorem insertAt_empty_spec (stmts : List Expr) (i : Nat) (hi : i ≤ stmts.length) (hs : ShapeWF stmts) :
    view (insertAt stmts i emptyRequireBlock) = view stmts ∧ treeIds (insertAt stmts i emptyRequireBlock) = treeIds stmts ∧
    ShapeWF (insertAt stmts i emptyRequireBlock) ∧ BlockAt (insertAt stmts i emptyRequireBlock) i ∧
    (∀ j, j < i → (insertAt stmts i emptyRequireBlock)[j]? = stmts[j]?) ∧
    (∀ j, i ≤ j → (insertAt stmts i emptyRequireBlock)[j + 1]? = stmts[j]?) ∧
    (insertAt stmts i emptyRequireBlock).length = stmts.length + 1 := by
  unfold insertAt
  have hlen : (stmts.take i).length = i := by rw [List.length_take]; omega
  refine ⟨?_, ?_, (hs.take i).append (ShapeWF.cons shape_empty_block (hs.drop i)), ?_, ?_, ?_, ?_⟩
  · rw [view_append, view_cons]
    have : view [emptyRequireBlock] = [] := rfl
    rw [this, List.nil_append, ← view_append, List.take_append_drop]
  · rw [treeIds_append, treeIds_cons]
    have : treeIds [emptyRequireBlock] = [] := rfl
    rw [this, List.nil_append, ← treeIds_append, List.take_append_drop]
  · refine ⟨{ token := [B "require"] }, ?_, rfl⟩
    rw [List.getElem?_append_right (by omega), hlen]
    simp [emptyRequireBlock]
  · intro j hj
    rw [List.getElem?_append_left (by omega), List.getElem?_take, if_pos hj]
  · intro j hj
    rw [List.getElem?_append_right (by omega), hlen]
    have : j + 1 - i = (j - i) + 1 := by omega
    rw [this, List.getElem?_cons_succ, List.getElem?_drop]
    congr 1; omega
  · simp [List.length_append, hlen]; omega

theorem BlockAt.req {stmts : List Expr} {k : Nat} (h : BlockAt stmts k) : ReqAt stmts k := by
  rcases h with ⟨b, hb, ht⟩
  exact ⟨_, hb, by simp [ReqStmt, ht, headIs]⟩

/-- `ensureBlock` on a `require` statement: a line is wrapped into a one-line block, nothing else changes -/
theorem ensureBlock_spec (stmts : List Expr) (d : Nat) (hs : ShapeWF stmts) (h2 : View2 stmts) (hr : ReqAt stmts d) :
    ∃ s, ensureBlock stmts d = .ok s ∧ view s = view stmts ∧ treeIds s = treeIds stmts ∧ ShapeWF s ∧ BlockAt s d ∧
      s.length = stmts.length ∧ (∀ j, j ≠ d → s[j]? = stmts[j]?) := by
  rcases hr with ⟨x, hx, hreq⟩
  have hmem : x ∈ stmts := List.mem_iff_getElem?.2 ⟨d, hx⟩
  unfold ensureBlock
  cases x with
  | lineBlock b =>
    simp only [hx]
    refine ⟨stmts, rfl, rfl, rfl, hs, ?_, rfl, fun _ _ => rfl⟩
    rcases hs.blockTok b hmem with ⟨w, hw⟩
    refine ⟨b, hx, ?_⟩
    simp only [ReqStmt] at hreq
    rw [hw] at hreq ⊢
    rw [headIs_cons hreq]
  | line l =>
    simp only [hx]
    simp only [ReqStmt] at hreq
    -- the line has at least two tokens, the first is `require`
    have hsp := (split_at hx).1
    have hvl : ⟨l.id, l.token, l.comments.suffix⟩ ∈ view stmts := by
      rw [hsp, view_append, view_cons]
      refine List.mem_append_right _ (List.mem_append_left _ ?_)
      cases hlt : l.token with
      | nil => exact absurd hlt hreq.1
      | cons a as => simp [view, loc, locStmt, liveLoc, mkV, hlt]
    have hlen := h2 _ hvl
    simp only at hlen
    rcases hlt : l.token with _ | ⟨a, _ | ⟨a2, as⟩⟩
    · exact absurd hlt hreq.1
    · rw [hlt] at hlen; simp at hlen
    · have ha : a = B "require" := by have := hreq.2; rw [hlt] at this; exact headIs_cons this
      subst ha
      generalize hnb : ({ token := [B "require"], lines := [{ l with token := (B "require" :: a2 :: as).drop 1, inBlock := true }] } : LineBlock) = nb
      have hnbt : nb.token = [B "require"] := by rw [← hnb]
      have hy : ShapeWF [Expr.lineBlock nb] := by
        rw [← hnb]
        refine ⟨fun b hb => ?_, fun l' hl' => ?_, fun b hb l' hl' => ?_, fun b hb => ?_⟩
        · simp at hb; subst hb; exact ⟨_, rfl⟩
        · simp at hl'
        · simp at hb; subst hb; simp at hl'; subst hl'; rfl
        · simp at hb; subst hb; rfl
      rcases set_same_lines (y := Expr.lineBlock nb)
        hx hs (by rw [← hnb]; simp [view, loc, locStmt, liveLoc, mkV, hlt]) (by rw [← hnb]; simp [treeIds, loc, locStmt]) hy with ⟨e1, e2, e3⟩
      refine ⟨_, rfl, e1, e2, e3, ⟨nb, ?_, hnbt⟩, by simp, ?_⟩
      · rw [List.getElem?_set, if_pos rfl, if_pos (split_at hx).2]
      · intro j hj
        rw [List.getElem?_set, if_neg (Ne.symm hj)]
  | commentBlock _ => exact hreq.elim
  | lparen _ => exact hreq.elim
  | rparen _ => exact hreq.elim

/-- appending a live line to the `require` block at index `idx` -/
theorem appendToBlock_spec (stmts : List Expr) (idx : Nat) (l : Line) (hs : ShapeWF stmts) (hb : BlockAt stmts idx)
    (hl : l.token ≠ []) (hfl : l.inBlock = true) :
    (view (appendToBlock stmts idx l)).Perm (view stmts ++ [⟨l.id, B "require" :: l.token, l.comments.suffix⟩]) ∧
    (treeIds (appendToBlock stmts idx l)).Perm (treeIds stmts ++ [l.id]) ∧ ShapeWF (appendToBlock stmts idx l) ∧
    (∀ k, BlockAt stmts k → BlockAt (appendToBlock stmts idx l) k) := by
  rcases hb with ⟨b, hb, ht⟩
  have hmem : Expr.lineBlock b ∈ stmts := List.mem_iff_getElem?.2 ⟨idx, hb⟩
  unfold appendToBlock
  simp only [hb]
  rw [set_split _ hb]
  have hsp := (split_at hb).1
  have hlive : (!l.token.isEmpty) = true := by
    cases hlt : l.token with
    | nil => exact absurd hlt hl
    | cons _ _ => rfl
  refine ⟨?_, ?_, ?_, ?_⟩
  · conv => rhs; rw [hsp]
    rw [view_append, view_append, view_cons _ (stmts.drop (idx + 1)), view_cons (Expr.lineBlock b), List.append_assoc, List.append_assoc]
    refine List.Perm.append_left _ ?_
    rw [view_block, view_block]
    simp only [List.filter_append, List.map_append, List.filter_cons, hlive, if_true, List.filter_nil, List.map_cons, List.map_nil, ht,
      List.append_assoc, List.singleton_append]
    refine List.Perm.append_left _ ?_
    exact List.perm_append_comm (l₁ := [_])
  · conv => rhs; rw [hsp]
    rw [treeIds_append, treeIds_append, treeIds_cons _ (stmts.drop (idx + 1)), treeIds_cons (Expr.lineBlock b), List.append_assoc, List.append_assoc]
    refine List.Perm.append_left _ ?_
    rw [treeIds_block, treeIds_block]
    simp only [List.map_append, List.map_cons, List.map_nil, List.append_assoc, List.singleton_append]
    refine List.Perm.append_left _ ?_
    exact List.perm_append_comm (l₁ := [_])
  · refine (hs.take idx).append (ShapeWF.cons ?_ (hs.drop (idx + 1)))
    refine ⟨fun b' hb' => ?_, fun l' hl' => by simp at hl', fun b' hb' l' hl' => ?_, fun b' hb' => ?_⟩
    · simp only [List.mem_singleton, Expr.lineBlock.injEq] at hb'; subst hb'; exact hs.blockTok b hmem
    · simp only [List.mem_singleton, Expr.lineBlock.injEq] at hb'; subst hb'
      simp only [List.mem_append, List.mem_singleton] at hl'
      rcases hl' with h | rfl
      · exact hs.flagIn b hmem l' h
      · exact hfl
    · simp only [List.mem_singleton, Expr.lineBlock.injEq] at hb'; subst hb'; exact hs.noBlockSuffix b hmem
  · intro k hk
    rw [← set_split _ hb]
    rcases hk with ⟨b2, hb2, ht2⟩
    by_cases hki : idx = k
    · subst hki
      rw [hb] at hb2
      simp only [Option.some.injEq, Expr.lineBlock.injEq] at hb2
      subst hb2
      exact ⟨{ b with lines := b.lines ++ [l] }, by rw [List.getElem?_set, if_pos rfl, if_pos (split_at hb).2], ht⟩
    · exact ⟨b2, by rw [List.getElem?_set, if_neg hki]; exact hb2, ht2⟩

end ModVerif.Modfile.Edit
