/-
  C20, `lax_ignores_unknown` at the level of input bytes — the VALUES of the lax directive layer
  (module path / deprecation, go version, require (path, version, indirect), retract (interval,
  rationale), and the kinds of the reported errors) do not depend on the positions and line identities
  of the statements: two statement lists that agree after erasing every position and every line id
  give the same values, from any two states with the same values.  With `addStmts_lax_filter`:
  inserting ignored statements in the middle and shifting what follows does not change the values.
-/
import Batteries.Data.List.Basic
import ModVerif.Proofs.ModfileC20AppendDefs
import ModVerif.Proofs.ModfileC20Ignore
import ModVerif.Proofs.ModfileC20Lax
namespace ModVerif.Proofs.ModfileC20Append
open ModVerif ModVerif.Modfile ModVerif.Proofs.ModfileRule ModVerif.Proofs.ModfileC20

/-! ### erasing positions and line identities -/

def erL (l : Line) : Line := { l with id := 0, start := {}, «end» := {} }

def erB (b : LineBlock) : LineBlock :=
  { b with start := {}, lparen := { b.lparen with pos := {} }, lines := b.lines.map erL,
           rparen := { b.rparen with pos := {} } }

/-- erase every position and every line id of a line / block (comments and tokens stay) -/
def erE : Expr → Expr
  | .line l => .line (erL l)
  | .lineBlock b => .lineBlock (erB b)
  | e => e

theorem erL_shLine (s : Sh) (l : Line) : erL (shLine s l) = erL l := rfl

theorem erB_shBlock (s : Sh) (b : LineBlock) : erB (shBlock s b) = erB b := by
  simp only [erB, shBlock, List.map_map]
  congr 1

theorem erE_shE (s : Sh) (x : Expr) : erE (shE s x) = erE x := by
  cases x with
  | line l => rfl
  | lineBlock b => simp only [shE, erE, erB_shBlock]
  | commentBlock c => rfl
  | lparen c => rfl
  | rparen c => rfl

theorem erL_comments {l l' : Line} (h : erL l = erL l') : l.comments = l'.comments := by
  have := congrArg Line.comments h; exact this

theorem erL_token {l l' : Line} (h : erL l = erL l') : l.token = l'.token := by
  have := congrArg Line.token h; exact this

theorem laxIgnored_shE (s : Sh) (x : Expr) : laxIgnored (shE s x) = laxIgnored x := by
  cases x <;> rfl

/-! ### the values and the state relation -/

def vals (f : File) :
    Option (ModVersion × Bytes) × Option Bytes × List (ModVersion × Bool) × List (VersionInterval × Bytes) :=
  (f.module.map (fun m => (m.mod, m.deprecated)), f.go.map (·.version),
   f.require.map (fun r => (r.mod, r.indirect)), f.retract.map (fun r => (r.interval, r.rationale)))

/-- same values, same error kinds (the two states may have different `file.syn`, positions, ids) -/
def V (st st' : AddState) : Prop :=
  vals st.file = vals st'.file ∧ st.errsRev.map (·.kind) = st'.errsRev.map (·.kind)

theorem V.refl (st : AddState) : V st st := ⟨rfl, rfl⟩

theorem isSome_of_map_eq {α β γ : Type} {f : α → γ} {g : β → γ} {a : Option α} {b : Option β}
    (h : a.map f = b.map g) : a.isSome = b.isSome := by
  cases a <;> cases b <;> simp at h ⊢

macro "v_leaf" : tactic =>
  `(tactic| (first
      | (simp [V, vals, AddState.err, *]; done)
      | (simp_all [V, vals, AddState.err]; done)))

theorem addGo_V (st st' : AddState) (l l' : Line) (args : List Bytes) (h : V st st') :
    V (addGo st l args false).1 (addGo st' l' args false).1 := by
  obtain ⟨hv, he⟩ := h
  simp only [vals, Prod.mk.injEq] at hv
  obtain ⟨hm, hg, hr, ht⟩ := hv
  have hs := isSome_of_map_eq hg
  unfold addGo
  simp only [hs, Bool.false_eq_true, if_false]
  repeat' (first | split | (dsimp only))
  all_goals v_leaf

theorem addModule_V (st st' : AddState) (block : Option Comments) (l l' : Line) (args : List Bytes)
    (hc : l.comments = l'.comments) (h : V st st') :
    V (addModule st block l args).1 (addModule st' block l' args).1 := by
  obtain ⟨hv, he⟩ := h
  simp only [vals, Prod.mk.injEq] at hv
  obtain ⟨hm, hg, hr, ht⟩ := hv
  have hs := isSome_of_map_eq hm
  unfold addModule
  simp only [hs, hc]
  repeat' (first | split | (dsimp only))
  all_goals v_leaf

theorem isIndirect_congr {l l' : Line} (hc : l.comments = l'.comments) : isIndirect l = isIndirect l' := by
  unfold isIndirect; rw [hc]

theorem addReqExc_V (st st' : AddState) (l l' : Line) (args : List Bytes) (fix : Option Fixer)
    (hc : l.comments = l'.comments) (h : V st st') :
    V (addReqExc st l (B "require") args fix).1 (addReqExc st' l' (B "require") args fix).1 := by
  obtain ⟨hv, he⟩ := h
  simp only [vals, Prod.mk.injEq] at hv
  obtain ⟨hm, hg, hr, ht⟩ := hv
  have hi := isIndirect_congr hc
  unfold addReqExc
  simp only [beq_self_eq_true, if_true, hi]
  repeat' (first | split | (dsimp only))
  all_goals v_leaf

theorem addRetractV_V (st st' : AddState) (block : Option Comments) (l l' : Line) (args : List Bytes)
    (hc : l.comments = l'.comments) (h : V st st') :
    V (addRetractV st block l args false).1 (addRetractV st' block l' args false).1 := by
  obtain ⟨hv, he⟩ := h
  simp only [vals, Prod.mk.injEq] at hv
  obtain ⟨hm, hg, hr, ht⟩ := hv
  unfold addRetractV
  simp only [hc, Bool.and_false, Bool.false_eq_true, if_false]
  repeat' (first | split | (dsimp only))
  all_goals v_leaf

/-- one lax `File.add` step on two lines with the same comments -/
theorem add_V (st st' : AddState) (block : Option Comments) (l l' : Line) (verb : Bytes) (args : List Bytes)
    (fix : Option Fixer) (hc : l.comments = l'.comments) (h : V st st') :
    V (File.add st block l verb args fix false).1 (File.add st' block l' verb args fix false).1 := by
  cases hv : verbIn verb laxVerbs with
  | false => rw [add_lax_ignores _ _ _ _ _ _ hv, add_lax_ignores _ _ _ _ _ _ hv]; exact h
  | true =>
    rw [add_eq, add_eq]
    simp only [hv, Bool.not_true, Bool.and_false, Bool.false_eq_true, if_false]
    rcases verbIn_lax_cases hv with rfl | rfl | rfl | rfl
    · simp only [beq_self_eq_true, if_true]
      exact addGo_V st st' l l' args h
    · have h1 : (B "module" == B "go") = false := by decide +kernel
      have h2 : (B "module" == B "toolchain") = false := by decide +kernel
      simp only [h1, h2, Bool.false_eq_true, if_false, beq_self_eq_true, if_true]
      exact addModule_V st st' block l l' args hc h
    · have h1 : (B "retract" == B "go") = false := by decide +kernel
      have h2 : (B "retract" == B "toolchain") = false := by decide +kernel
      have h3 : (B "retract" == B "module") = false := by decide +kernel
      have h4 : (B "retract" == B "godebug") = false := by decide +kernel
      have h5 : (B "retract" == B "require") = false := by decide +kernel
      have h6 : (B "retract" == B "exclude") = false := by decide +kernel
      have h7 : (B "retract" == B "replace") = false := by decide +kernel
      simp only [h1, h2, h3, h4, h5, h6, h7, Bool.false_eq_true, if_false, Bool.or_self, beq_self_eq_true, if_true]
      exact addRetractV_V st st' block l l' args hc h
    · have h1 : (B "require" == B "go") = false := by decide +kernel
      have h2 : (B "require" == B "toolchain") = false := by decide +kernel
      have h3 : (B "require" == B "module") = false := by decide +kernel
      have h4 : (B "require" == B "godebug") = false := by decide +kernel
      simp only [h1, h2, h3, h4, Bool.false_eq_true, if_false, beq_self_eq_true, Bool.true_or, if_true]
      exact addReqExc_V st st' l l' args fix hc h

theorem addBlockLines_V (block : Comments) (verb : Bytes) (fix : Option Fixer) :
    ∀ (ls ls' : List Line) (st st' : AddState), ls.map erL = ls'.map erL → V st st' →
      V (addBlockLines block verb fix false st ls).1 (addBlockLines block verb fix false st' ls').1 := by
  intro ls
  induction ls with
  | nil =>
    intro ls' st st' hl h
    cases ls' with
    | nil => exact h
    | cons a r => simp at hl
  | cons l rest ih =>
    intro ls' st st' hl h
    cases ls' with
    | nil => simp at hl
    | cons l' rest' =>
      simp only [List.map_cons, List.cons.injEq] at hl
      obtain ⟨h1, h2⟩ := hl
      unfold addBlockLines
      simp only
      rw [← erL_token h1]
      exact ih rest' _ _ h2 (add_V st st' (some block) l l' verb l.token fix (erL_comments h1) h)

/-- one statement -/
theorem stmtStep_V (fix : Option Fixer) (x y : Expr) (st st' : AddState) (hxy : erE x = erE y) (h : V st st') :
    V (stmtStep fix false st x).1 (stmtStep fix false st' y).1 := by
  cases x with
  | line l =>
    cases y with
    | line l' =>
      simp only [erE, Expr.line.injEq] at hxy
      have ht := erL_token hxy
      have hc := erL_comments hxy
      unfold stmtStep
      simp only [← ht]
      cases htok : l.token with
      | nil => exact h
      | cons verb args => exact add_V st st' none l l' verb args fix hc h
    | lineBlock b' => simp [erE] at hxy
    | commentBlock c => simp [erE] at hxy
    | lparen c => simp [erE] at hxy
    | rparen c => simp [erE] at hxy
  | lineBlock b =>
    cases y with
    | lineBlock b' =>
      simp only [erE, Expr.lineBlock.injEq] at hxy
      have ht : b.token = b'.token := by have := congrArg LineBlock.token hxy; exact this
      have hc : b.comments = b'.comments := by have := congrArg LineBlock.comments hxy; exact this
      have hl : b.lines.map erL = b'.lines.map erL := by have := congrArg LineBlock.lines hxy; exact this
      unfold stmtStep
      simp only [← ht, ← hc, Bool.false_eq_true, if_false]
      split
      · split
        · exact addBlockLines_V _ _ fix _ _ _ _ hl h
        · exact h
      · exact h
    | line l' => simp [erE] at hxy
    | commentBlock c => simp [erE] at hxy
    | lparen c => simp [erE] at hxy
    | rparen c => simp [erE] at hxy
  | commentBlock c =>
    cases y <;> simp [erE] at hxy <;> exact h
  | lparen c =>
    cases y <;> simp [erE] at hxy <;> exact h
  | rparen c =>
    cases y <;> simp [erE] at hxy <;> exact h

/-- the values computed by the lax statement loop do not depend on positions and line ids -/
theorem addStmts_vals (fix : Option Fixer) :
    ∀ (xs ys : List Expr) (st st' : AddState), List.Forall₂ (fun x y => erE x = erE y) xs ys → V st st' →
      V (addStmts fix false st xs).1 (addStmts fix false st' ys).1 := by
  intro xs ys st st' hf
  induction hf generalizing st st' with
  | nil => intro h; exact h
  | cons hxy _ ih =>
    intro h
    rw [addStmts_cons, addStmts_cons]
    exact ih _ _ (stmtStep_V fix _ _ st st' hxy h)

/-! ### inserting ignored statements, shifting what follows -/

theorem forall₂_append {α β : Type} {R : α → β → Prop} :
    ∀ {a : List α} {b : List β} {c : List α} {d : List β},
      List.Forall₂ R a b → List.Forall₂ R c d → List.Forall₂ R (a ++ c) (b ++ d) := by
  intro a b c d h1 h2
  induction h1 with
  | nil => exact h2
  | cons h _ ih => exact List.Forall₂.cons h ih

theorem forall₂_refl {α : Type} {R : α → α → Prop} (hr : ∀ x, R x x) : ∀ (a : List α), List.Forall₂ R a a
  | [] => List.Forall₂.nil
  | x :: xs => List.Forall₂.cons (hr x) (forall₂_refl hr xs)

theorem forall₂_map {α β γ : Type} {R : β → γ → Prop} (f : α → β) (g : α → γ) (hr : ∀ x, R (f x) (g x)) :
    ∀ (a : List α), List.Forall₂ R (a.map f) (a.map g)
  | [] => List.Forall₂.nil
  | x :: xs => List.Forall₂.cons (hr x) (forall₂_map f g hr xs)

/-- ignored statements in the middle of the list can be dropped -/
theorem addStmts_lax_drop (fix : Option Fixer) (A I C : List Expr) (st : AddState)
    (hI : ∀ x ∈ I, laxIgnored x = true) :
    (addStmts fix false st (A ++ I ++ C)).1 = (addStmts fix false st (A ++ C)).1 := by
  rw [addStmts_lax_filter fix (A ++ I ++ C), addStmts_lax_filter fix (A ++ C)]
  have : I.filter (fun x => !laxIgnored x) = [] := by
    rw [List.filter_eq_nil_iff]
    intro x hx
    simp [hI x hx]
  simp only [List.filter_append, this, List.append_nil]

/-- `lax_ignores_unknown` over statement lists with shifted tails: the statements `A`, then ignored
    statements `I`, then `B` shifted by `s2`, give the same values as `A` then `B` shifted by `s1`. -/
theorem lax_vals_insert (fix : Option Fixer) (A B I : List Expr) (s1 s2 : Sh) (st st' : AddState)
    (hV : V st st') (hI : ∀ x ∈ I, laxIgnored x = true) :
    V (addStmts fix false st (A ++ B.map (shE s1))).1 (addStmts fix false st' (A ++ I ++ B.map (shE s2))).1 := by
  rw [addStmts_lax_drop fix A I _ st' hI]
  refine addStmts_vals fix _ _ st st' ?_ hV
  refine forall₂_append (forall₂_refl (R := fun x y => erE x = erE y) (fun _ => rfl) A) ?_
  exact forall₂_map _ _ (fun x => by rw [erE_shE, erE_shE]) B

/-! ### non-vacuity -/

example : V {} {} := V.refl _

example : ∀ x ∈ [Expr.line { token := [B "tool", B "x"] }], laxIgnored x = true := by
  decide +kernel

example : List.Forall₂ (fun x y => erE x = erE y)
    [Expr.line { id := 3, start := ⟨4, 1, 20⟩, token := [B "go", B "1.21"], «end» := ⟨4, 8, 27⟩ }]
    [Expr.line { id := 0, start := ⟨1, 1, 0⟩, token := [B "go", B "1.21"], «end» := ⟨1, 8, 7⟩ }] :=
  List.Forall₂.cons rfl List.Forall₂.nil

end ModVerif.Proofs.ModfileC20Append
