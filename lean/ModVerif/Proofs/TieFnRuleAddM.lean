/-
  Helper lemmas for Tie/FnRuleAdd.lean, part M: the leaf hypotheses of parts C–I (`PSok`, `PVok`, `MPMok`, `CPMok`,
  `PVIok`, `PRok`, `AddLeaf`, `WorkLeaf`, `FixLeaf`) discharged from the leaf ties of Tie/FnRuleLeaf.lean (owner
  rule-leaf) under explicit fuel bounds: `LineFuel` (the tokens of the line, its comments, the versions a fixer returns).
  Owner: rule-add.
-/
import ModVerif.Tie.FnRuleLeaf
import ModVerif.Proofs.TieFnRuleAddI
set_option linter.unusedSimpArgs false
set_option linter.unusedVariables false
namespace ModVerif.Tie.FnRuleAddM
open ModVerif ModVerif.GoRt ModVerif.Generated ModVerif.Tie.FnRuleRep ModVerif.Tie.FnRuleAddA ModVerif.Tie.FnRuleAddB ModVerif.Tie.FnRuleAddC
open ModVerif.Tie.FnRuleAddD ModVerif.Tie.FnRuleAddE ModVerif.Tie.FnRuleAddF ModVerif.Tie.FnRuleAddH ModVerif.Tie.FnRuleAddI
open ModVerif.Tie.FnRuleLeaf ModVerif.Tie.FnRuleLeafA ModVerif.Tie.FnRuleLeafB
open ModVerif.Drv.GenRule (isPrintI unquoteI laxSubI deprecatedSubI fixG)

theorem PSok_of (a : Bytes) (fuel : Nat) (hf : 4 * a.length + 1 ≤ fuel) : PSok fuel a := by
  cases hm : Modfile.parseString a with
  | none =>
    refine ⟨[], TieFnModfile.parseStringErr a, a, ?_, fun w => ?_⟩
    · unfold PSOut; rw [hm]
      exact ⟨by have := parseStringErr_ne_none a; cases h : TieFnModfile.parseStringErr a <;> simp_all, rfl⟩
    · have := parseString_tie a fuel hf w; rw [hm] at this; exact this
  | some tt =>
    obtain ⟨t, tok⟩ := tt
    refine ⟨t, none, tok, ?_, fun w => ?_⟩
    · unfold PSOut; rw [hm]; exact ⟨rfl, rfl, rfl⟩
    · have := parseString_tie a fuel hf w; rw [hm] at this; exact this

theorem PVok_of (path a : Bytes) (fx : Option Modfile.Fixer) (fuel : Nat) (hf : 8 * a.length + 1 ≤ fuel) : PVok fuel path a fx := by
  cases hm : Modfile.parseVersion path a fx with
  | mk tok res =>
    cases res with
    | error k =>
      refine ⟨[], parseVersionErr a k, tok, ?_, fun verb w => ?_⟩
      · unfold PVOut; rw [hm]; exact ⟨parseVersion_error_kind hm, rfl⟩
      · have := parseVersion_tie verb path a fx fuel hf w; rw [hm] at this; exact this
    | ok v =>
      refine ⟨v, none, tok, ?_, fun verb w => ?_⟩
      · unfold PVOut; rw [hm]; exact ⟨rfl, rfl, rfl⟩
      · have := parseVersion_tie verb path a fx fuel hf w; rw [hm] at this; exact this

theorem MPMok_of (s : Bytes) (fuel : Nat) (hf : s.length + 1 ≤ fuel) : MPMok fuel s := modulePathMajor_tie s fuel hf

theorem CPMok_of (v pm : Bytes) (fuel : Nat) (hf : 2 * v.length ≤ fuel) : CPMok fuel v pm := by
  unfold CPMok
  rw [Tie.FnModule.CheckPathMajor_tie v pm fuel hf]
  rfl

theorem indL_of (lp : Int) (ls : List Rule.Line) (l' : Modfile.Line) (hg : heapGet ls lp = .ok (lineG l')) :
    indL lp ls = .ok (Modfile.isIndirect l') := by
  unfold indL
  rw [isIndirect_tie (w := { (default : Rule.Heap) with lines := ls }) hg]
  rfl

theorem PVIok_of {h : Rule.Heap} {r : Rule.TokRef} {pre toks : List Bytes} (v : TokView h r pre toks) (path : Bytes) (fx : Option Modfile.Fixer)
    (fuel : Nat) (hf : 8 * tokSum toks + 1 ≤ fuel) : PVIok fuel h r pre toks path fx := by
  have hm := parseVersionInterval_model path toks fx
  have hv := parseVersionInterval_view v path fx
  obtain ⟨h1, h2⟩ := hm
  refine ⟨(pviOut path toks fx).vi, (pviOut path toks fx).err, { r with lo := r.lo + (pviOut path toks fx).dropped },
    setToksH h r.owner (pre ++ (pviOut path toks fx).toks), ⟨by rw [h1], ?_⟩, fun verb => parseVersionInterval_tie v verb path fx fuel hf⟩
  rcases hr : (Modfile.parseVersionInterval path toks fx).2 with k | ⟨mvi, rest⟩
  · rw [hr] at h2
    exact ⟨h2.1, h2.2.1⟩
  · rw [hr] at h2
    obtain ⟨e1, e2, _, _, e5⟩ := h2
    rw [← h1] at e5
    rw [e5] at hv
    exact ⟨e1, by rw [e2]; rfl, by rw [e2]; rfl, rfl, _, hv⟩

theorem PRok_of {h : Rule.Heap} {lp : Int} {l : Modfile.Line} {pre args : List Bytes} {ι : Int → Nat} (hl : RLine ι h lp l)
    (htok : l.token = pre ++ args) (fx : Option Modfile.Fixer) (fuel : Nat) (hf : 8 * tokSum args + 1 ≤ fuel)
    (hv : ∀ a0 a1 rest s a0' a1' v, args = a0 :: a1 :: rest → Modfile.parseString a0 = some (s, a0') →
      Modfile.parseVersion s a1 fx = (a1', .ok v) → 2 * v.length ≤ fuel) : PRok fuel h lp l pre args fx := by
  intro fname verb
  have V : TokView h { owner := lp, lo := (pre.length : Int) } pre args := ⟨lineG l, hl.1, htok, rfl⟩
  have := parseReplace_sim V (l := l) hl.1 fname verb fx fuel hf hv l.id
  unfold PROut
  rcases hr : (Modfile.parseReplace l.id args fx).2 with k | R
  · rw [hr] at this
    obtain ⟨e, hpos, hea, hrun⟩ := this
    refine ⟨0, _, _, ?_, hrun⟩
    exact ⟨e, hpos, hea, rfl, by simp, by simp⟩
  · rw [hr] at this
    obtain ⟨obj, ho, hn, hs, hrun⟩ := this
    refine ⟨_, 0, _, ?_, hrun⟩
    exact ⟨obj, ho, hn, hs, rfl, by simp, by simp⟩

/-! ### the fuel a line needs -/

/-- the fuel bound for `File.add` / `WorkFile.add` / `fixRetract` on the line `l` with the arguments `args` (`F` bounds:
    32 × the token lengths — the tokens `fixRetract` re-reads are at most 4 × as long —, the number of comments of the
    line and of the block, and twice the length of every version the version fixer returns for this line) -/
structure LineFuel (F : Nat) (bc : Option Modfile.Comments) (fx : Option Modfile.Fixer) (l : Modfile.Line) (args : List Bytes) : Prop where
  toks : 32 * tokSum l.token + 1 ≤ F
  coms : comLen l.comments + (bc.map comLen).getD 0 + 3 ≤ F
  ver : ∀ a0 a1 rest s a0' a1' v, args = a0 :: a1 :: rest → Modfile.parseString a0 = some (s, a0') →
    Modfile.parseVersion s a1 fx = (a1', .ok v) → 2 * v.length ≤ F

theorem tokSum_le_append (pre args : List Bytes) : tokSum args ≤ tokSum (pre ++ args) := by
  induction pre with
  | nil => simp
  | cons x xs ih => simp; omega

theorem AddLeaf_of {ι : Int → Nat} {F : Nat} {block : Int} {bc : Option Modfile.Comments} {verb : Bytes} {fx : Option Modfile.Fixer}
    {l : Modfile.Line} {pre args : List Bytes} (htok : l.token = pre ++ args) (hF : LineFuel F bc fx l args) :
    LineLeaf ι F block bc verb fx l pre args := by
  intro fuel' hfu hc p hl hb
  have hts : tokSum args ≤ tokSum l.token := by rw [htok]; exact tokSum_le_append _ _
  have h8 : 8 * tokSum args + 1 ≤ fuel' := by have := hF.toks; omega
  have hcm : comLen l.comments + (bc.map comLen).getD 0 + 3 ≤ fuel' := Nat.le_trans hF.coms hfu
  have hBA : BlockArg hc block bc := by cases bc <;> exact hb
  refine ⟨?_, ?_, ?_, ?_, ?_, ?_, ?_⟩
  · intro _ a ha
    subst ha
    exact PSok_of a fuel' (by simp at h8; omega)
  · intro _ a0 a1 ha
    subst ha
    simp only [tokSum_cons, tokSum_nil] at h8
    refine ⟨PSok_of a0 fuel' (by omega), fun s a0' hps => ⟨PVok_of s a1 fx fuel' (by omega), MPMok_of s fuel' ?_, ?_⟩⟩
    · have := parseString_length hps; omega
    · intro a1' v hpv pm
      exact CPMok_of v pm fuel' (Nat.le_trans (hF.ver a0 a1 [] s a0' a1' v rfl hps hpv) hfu)
  · intro _ ls l' hg
    exact indL_of p ls l' hg
  · intro _
    exact parseDeprecation_tie hl.1 hBA fuel' hcm
  · intro _
    exact parseDirectiveComment_tie hl.1 hBA fuel' hcm
  · intro _
    exact PVIok_of ⟨lineG l, hl.1, htok, rfl⟩ [] (some Modfile.dontFixRetract) fuel' h8
  · intro _
    exact PRok_of hl htok fx fuel' h8 (fun a0 a1 rest s a0' a1' v e1 e2 e3 => Nat.le_trans (hF.ver a0 a1 rest s a0' a1' v e1 e2 e3) hfu)

theorem WorkLeaf_of {ι : Int → Nat} {F : Nat} {verb : Bytes} {fx : Option Modfile.Fixer}
    {l : Modfile.Line} {pre args : List Bytes} (htok : l.token = pre ++ args) (hF : LineFuel F none fx l args) :
    LineLeafW ι F verb fx l pre args := by
  intro fuel' hfu hc p hl
  have hts : tokSum args ≤ tokSum l.token := by rw [htok]; exact tokSum_le_append _ _
  have h8 : 8 * tokSum args + 1 ≤ fuel' := by have := hF.toks; omega
  refine ⟨?_, ?_⟩
  · intro _ a ha
    subst ha
    exact PSok_of a fuel' (by simp at h8; omega)
  · intro _
    exact PRok_of hl htok fx fuel' h8 (fun a0 a1 rest s a0' a1' v e1 e2 e3 => Nat.le_trans (hF.ver a0 a1 rest s a0' a1' v e1 e2 e3) hfu)

/-- the property of a retract line `fixRetract` needs: the fuel covers its arguments -/
def QF (F : Nat) (l : Modfile.Line) : Prop := 8 * tokSum (frSplit l).2 + 1 ≤ F

theorem FixLeaf_of (ι : Int → Nat) (F : Nat) (path : Bytes) (fx : Modfile.Fixer) : FixLeaf ι (QF F) F path fx := by
  intro fuel' hfu hc sp l hl hQ r V hown
  exact PVIok_of V path (some fx) fuel' (Nat.le_trans hQ hfu)

theorem tokSum_frSplit (l : Modfile.Line) : tokSum (frSplit l).2 ≤ tokSum l.token := by
  have := frSplit_append l
  rw [this]
  exact tokSum_le_append _ _

end ModVerif.Tie.FnRuleAddM
