/-
  Helper lemmas for the tie of the regenerated `dirhash.DirFiles` / `HashDir`, part 1: the trie `Zip.treeOfList` builds
  from a flat list of files.

  * `flatList t`   : the component paths of the file leaves of a trie, in pre-order;
  * `wfList t`     : every name is a normal path element and the names of every directory are strictly increasing;
  * `modifyChild_cases` : on a name-sorted child list `modifyChild` replaces the entry of the name or inserts a new one
                     at its place;
  * `insertPath_spec` : inserting a file at a component path that is incomparable (no prefix either way) with the paths
                     already there keeps `wfList` and adds exactly that path;
  * `flatList_sorted` : the pre-order of a `wfList` trie is strictly increasing in `compsLt`;
  * `szList_insertPath` : size bound (for the fuel of the walk).

  Core Lean only.
-/
import ModVerif.Model.Zip
import ModVerif.Model.Dirhash
import ModVerif.Spec.ZipSpec
import ModVerif.Proofs.Dirhash
import ModVerif.Proofs.DirhashZip
namespace ModVerif.TieFnDirhashDir
open ModVerif ModVerif.Zip ModVerif.ZipSpec

/-! ### pre-order of the leaves, well-formedness, size -/

mutual
/-- component paths (relative to the node) of the file leaves below a node, in pre-order -/
def flatNode : Node → List (List Bytes)
  | .file .. => [[]]
  | .dir cs => flatList cs
def flatList : List (Bytes × Node) → List (List Bytes)
  | [] => []
  | (n, x) :: rest => (flatNode x).map (n :: ·) ++ flatList rest
end

mutual
def wfNode : Node → Prop
  | .file .. => True
  | .dir cs => wfList cs
def wfList : List (Bytes × Node) → Prop
  | [] => True
  | (n, x) :: rest => (NormalElem n ∧ wfNode x) ∧ (∀ p ∈ rest, bytesLt n p.1 = true) ∧ wfList rest
end

mutual
def szNode : Node → Nat
  | .file .. => 1
  | .dir cs => 1 + szList cs
def szList : List (Bytes × Node) → Nat
  | [] => 1
  | (_, x) :: rest => 1 + szNode x + szList rest
end

theorem flatList_eq_flatMap : ∀ cs : List (Bytes × Node),
    flatList cs = cs.flatMap (fun p => (flatNode p.2).map (p.1 :: ·))
  | [] => by simp [flatList]
  | (n, x) :: rest => by simp [flatList, flatList_eq_flatMap rest]

theorem flatList_append (a b : List (Bytes × Node)) : flatList (a ++ b) = flatList a ++ flatList b := by
  simp [flatList_eq_flatMap]

theorem flatList_cons (n : Bytes) (x : Node) (rest : List (Bytes × Node)) :
    flatList ((n, x) :: rest) = (flatNode x).map (n :: ·) ++ flatList rest := by
  simp [flatList]

theorem wfList_iff : ∀ cs : List (Bytes × Node),
    wfList cs ↔ (∀ p ∈ cs, NormalElem p.1 ∧ wfNode p.2) ∧ cs.Pairwise (fun a b => bytesLt a.1 b.1 = true)
  | [] => by simp [wfList]
  | (n, x) :: rest => by
    simp only [wfList, wfList_iff rest, List.mem_cons, forall_eq_or_imp, List.pairwise_cons]
    constructor
    · rintro ⟨h1, h2, h3, h4⟩; exact ⟨⟨h1, h3⟩, h2, h4⟩
    · rintro ⟨⟨h1, h3⟩, h2, h4⟩; exact ⟨h1, h2, h3, h4⟩

theorem wfList_nil : wfList [] := by simp [wfList]

/-! ### `modifyChild` on a sorted child list -/

theorem modifyChild_cases (name : Bytes) (f : Option Node → Node) : ∀ cs : List (Bytes × Node),
    cs.Pairwise (fun a b => bytesLt a.1 b.1 = true) →
    (∃ l1 l2, cs = l1 ++ l2 ∧ (∀ p ∈ l1, bytesLt p.1 name = true) ∧ (∀ p ∈ l2, bytesLt name p.1 = true) ∧
        modifyChild name f cs = l1 ++ (name, f none) :: l2) ∨
    (∃ l1 v l2, cs = l1 ++ (name, v) :: l2 ∧ (∀ p ∈ l1, bytesLt p.1 name = true) ∧
        (∀ p ∈ l2, bytesLt name p.1 = true) ∧ modifyChild name f cs = l1 ++ (name, f (some v)) :: l2)
  | [], _ => Or.inl ⟨[], [], rfl, by simp, by simp, by simp [modifyChild]⟩
  | (k, v) :: rest, hs => by
    have hk : ∀ p ∈ rest, bytesLt k p.1 = true := (List.pairwise_cons.1 hs).1
    have hrest := (List.pairwise_cons.1 hs).2
    by_cases hkn : k = name
    · subst hkn
      exact Or.inr ⟨[], v, rest, rfl, by simp, hk, by simp [modifyChild]⟩
    · have hkn' : (k == name) = false := by simpa using hkn
      by_cases hlt : bytesLt name k = true
      · refine Or.inl ⟨[], (k, v) :: rest, rfl, by simp, ?_, by simp [modifyChild, hkn', hlt]⟩
        intro p hp
        rcases List.mem_cons.1 hp with rfl | hp
        · exact hlt
        · exact bytesLt_trans _ _ _ hlt (hk p hp)
      · have hlt' : bytesLt name k = false := by simpa using hlt
        have hkl : bytesLt k name = true := by
          cases h : bytesLt k name with
          | true => rfl
          | false => exact absurd (bytesLt_total k name h hlt') hkn
        have hm : modifyChild name f ((k, v) :: rest) = (k, v) :: modifyChild name f rest := by
          simp [modifyChild, hkn', hlt']
        rcases modifyChild_cases name f rest hrest with ⟨l1, l2, e, h1, h2, h3⟩ | ⟨l1, w, l2, e, h1, h2, h3⟩
        · refine Or.inl ⟨(k, v) :: l1, l2, by simp [e], ?_, h2, by simp [hm, h3]⟩
          intro p hp
          rcases List.mem_cons.1 hp with rfl | hp
          · exact hkl
          · exact h1 p hp
        · refine Or.inr ⟨(k, v) :: l1, w, l2, by simp [e], ?_, h2, by simp [hm, h3]⟩
          intro p hp
          rcases List.mem_cons.1 hp with rfl | hp
          · exact hkl
          · exact h1 p hp

/-- replacing / inserting the entry of `name` between the smaller and the larger names keeps the list well formed -/
theorem wfList_splice {l1 l2 : List (Bytes × Node)} {name : Bytes} {x : Node}
    (h : wfList (l1 ++ l2)) (h1 : ∀ p ∈ l1, bytesLt p.1 name = true) (h2 : ∀ p ∈ l2, bytesLt name p.1 = true)
    (hn : NormalElem name) (hx : wfNode x) : wfList (l1 ++ (name, x) :: l2) := by
  rw [wfList_iff] at h ⊢
  obtain ⟨ha, hp⟩ := h
  refine ⟨?_, ?_⟩
  · intro p hp'
    rcases List.mem_append.1 hp' with hp' | hp'
    · exact ha p (List.mem_append_left _ hp')
    · rcases List.mem_cons.1 hp' with rfl | hp'
      · exact ⟨hn, hx⟩
      · exact ha p (List.mem_append_right _ hp')
  · rw [List.pairwise_append] at hp ⊢
    refine ⟨hp.1, List.pairwise_cons.2 ⟨h2, hp.2.1⟩, ?_⟩
    intro a ha' b hb
    rcases List.mem_cons.1 hb with rfl | hb
    · exact h1 a ha'
    · exact hp.2.2 a ha' b hb

theorem wfList_drop_mid {l1 l2 : List (Bytes × Node)} {e : Bytes × Node} (h : wfList (l1 ++ e :: l2)) :
    wfList (l1 ++ l2) := by
  rw [wfList_iff] at h ⊢
  refine ⟨fun p hp => h.1 p ?_, h.2.sublist ?_⟩
  · rcases List.mem_append.1 hp with hp | hp
    · exact List.mem_append_left _ hp
    · exact List.mem_append_right _ (List.mem_cons_of_mem _ hp)
  · exact List.Sublist.append (List.Sublist.refl _) (List.sublist_cons_self _ _)

/-! ### inserting one file -/

/-- neither is a prefix of the other -/
def Incomp (a b : List Bytes) : Prop := ¬ a <+: b ∧ ¬ b <+: a

theorem Incomp.symm {a b : List Bytes} (h : Incomp a b) : Incomp b a := ⟨h.2, h.1⟩

theorem insertPath_single (c : Bytes) (m : Mode) (s : Int) (ct : Bytes) (g : Bool) (t : List (Bytes × Node)) :
    insertPath [c] (.file m s ct g) t = modifyChild c (fun _ => .file m s ct g) t := by
  simp only [insertPath]

theorem insertPath_spec (m : Mode) (s : Int) (ct : Bytes) (g : Bool) : ∀ (cs : List Bytes) (t : List (Bytes × Node)),
    cs ≠ [] → (∀ c ∈ cs, NormalElem c) → wfList t → (∀ p ∈ flatList t, Incomp p cs) →
    wfList (insertPath cs (.file m s ct g) t) ∧ (flatList (insertPath cs (.file m s ct g) t)).Perm (cs :: flatList t)
  | [], _, h, _, _, _ => absurd rfl h
  | [c], t, _, hn, hwf, hinc => by
    rw [insertPath_single]
    have hc : NormalElem c := hn c (by simp)
    rcases modifyChild_cases c (fun _ => Node.file m s ct g) t ((wfList_iff t).1 hwf).2 with
      ⟨l1, l2, e, h1, h2, h3⟩ | ⟨l1, v, l2, e, h1, h2, h3⟩
    · rw [h3]
      subst e
      refine ⟨wfList_splice hwf h1 h2 hc (by simp [wfNode]), ?_⟩
      rw [flatList_append, flatList_cons, flatList_append]
      simp only [flatNode, List.map_cons, List.map_nil, List.singleton_append]
      exact List.perm_middle
    · rw [h3]
      subst e
      have hv : flatNode v = [] := by
        cases hfv : flatNode v with
        | nil => rfl
        | cons q qs =>
          have hmem : (c :: q) ∈ flatList (l1 ++ (c, v) :: l2) := by
            rw [flatList_append, flatList_cons, hfv]; simp
          exact absurd (by simp : [c] <+: c :: q) (hinc _ hmem).2
      refine ⟨wfList_splice (wfList_drop_mid hwf) h1 h2 hc (by simp [wfNode]), ?_⟩
      rw [flatList_append, flatList_cons, flatList_append, flatList_cons, hv]
      simp only [flatNode, List.map_cons, List.map_nil, List.singleton_append, List.nil_append]
      exact List.perm_middle
  | c :: c' :: rest, t, _, hn, hwf, hinc => by
    have hc : NormalElem c := hn c (by simp)
    have hn' : ∀ d ∈ c' :: rest, NormalElem d := fun d hd => hn d (List.mem_cons_of_mem _ hd)
    have hins : insertPath (c :: c' :: rest) (.file m s ct g) t =
        modifyChild c (fun old => .dir (insertPath (c' :: rest) (.file m s ct g) (childrenOf old))) t := by
      simp only [insertPath]
    rw [hins]
    rcases modifyChild_cases c (fun old => Node.dir (insertPath (c' :: rest) (.file m s ct g) (childrenOf old))) t
        ((wfList_iff t).1 hwf).2 with ⟨l1, l2, e, h1, h2, h3⟩ | ⟨l1, v, l2, e, h1, h2, h3⟩
    · rw [h3]
      subst e
      have ih := insertPath_spec m s ct g (c' :: rest) [] (by simp) hn' wfList_nil (by simp [flatList])
      simp only [childrenOf]
      refine ⟨wfList_splice hwf h1 h2 hc (by simpa [wfNode] using ih.1), ?_⟩
      rw [flatList_append, flatList_cons, flatList_append]
      simp only [flatNode]
      have hp : ((flatList (insertPath (c' :: rest) (.file m s ct g) [])).map (c :: ·)).Perm [c :: c' :: rest] := by
        have := ih.2.map (c :: ·)
        simpa [flatList] using this
      refine List.Perm.trans (List.Perm.append_left _ (List.Perm.append_right _ hp)) ?_
      simp only [List.singleton_append]
      exact List.perm_middle
    · rw [h3]
      subst e
      cases v with
      | file m' s' ct' g' =>
        have hmem : [c] ∈ flatList (l1 ++ (c, Node.file m' s' ct' g') :: l2) := by
          rw [flatList_append, flatList_cons]; simp [flatNode]
        exact absurd (by simp : [c] <+: c :: c' :: rest) (hinc _ hmem).1
      | dir sub =>
        simp only [childrenOf]
        have hsub : wfList sub := by
          have := ((wfList_iff _).1 hwf).1 (c, Node.dir sub) (by simp)
          simpa [wfNode] using this.2
        have hincsub : ∀ p ∈ flatList sub, Incomp p (c' :: rest) := by
          intro p hp
          have hmem : (c :: p) ∈ flatList (l1 ++ (c, Node.dir sub) :: l2) := by
            rw [flatList_append, flatList_cons]; simp [flatNode, hp]
          have := hinc _ hmem
          exact ⟨fun h => this.1 (by simpa using h), fun h => this.2 (by simpa using h)⟩
        have ih := insertPath_spec m s ct g (c' :: rest) sub (by simp) hn' hsub hincsub
        refine ⟨wfList_splice (wfList_drop_mid hwf) h1 h2 hc (by simpa [wfNode] using ih.1), ?_⟩
        rw [flatList_append, flatList_cons, flatList_append, flatList_cons]
        simp only [flatNode]
        have hp := ih.2.map (c :: ·)
        simp only [List.map_cons] at hp
        refine List.Perm.trans (List.Perm.append_left _ (List.Perm.append_right _ hp)) ?_
        simp only [List.cons_append]
        exact List.perm_middle

/-! ### the whole list -/

/-- the node `treeOfList` is given for a regular file -/
abbrev leafOf (f : Bytes × Bytes) : Bytes × Node := (f.1, Node.file .regular (f.2.length : Int) f.2 false)

theorem foldl_insert_spec : ∀ (files : List (Bytes × Bytes)) (acc : List (Bytes × Node)),
    (∀ f ∈ files, ∀ c ∈ splitOn 47 f.1, NormalElem c) →
    (files.map (fun f => splitOn 47 f.1)).Pairwise Incomp →
    wfList acc → (∀ f ∈ files, ∀ p ∈ flatList acc, Incomp p (splitOn 47 f.1)) →
    wfList ((files.map leafOf).foldl (fun cs it => insertPath (splitOn 47 it.1) it.2 cs) acc) ∧
    (flatList ((files.map leafOf).foldl (fun cs it => insertPath (splitOn 47 it.1) it.2 cs) acc)).Perm
      (files.map (fun f => splitOn 47 f.1) ++ flatList acc)
  | [], acc, _, _, hwf, _ => by simp [hwf]
  | f :: files, acc, hn, hpw, hwf, hinc => by
    have hne : splitOn 47 f.1 ≠ [] := Dirhash.splitOn_ne_nil 47 f.1
    have h1 := insertPath_spec .regular (f.2.length : Int) f.2 false (splitOn 47 f.1) acc hne
      (hn f (by simp)) hwf (hinc f (by simp))
    have hpw' := List.pairwise_cons.1 (show (splitOn 47 f.1 :: files.map (fun f => splitOn 47 f.1)).Pairwise Incomp from hpw)
    have ih := foldl_insert_spec files _ (fun f' hf' => hn f' (List.mem_cons_of_mem _ hf')) hpw'.2 h1.1 (by
      intro f' hf' p hp
      rcases List.mem_cons.1 (h1.2.subset hp) with rfl | hp
      · exact hpw'.1 _ (List.mem_map.2 ⟨f', hf', rfl⟩)
      · exact hinc f' (List.mem_cons_of_mem _ hf') p hp)
    simp only [List.map_cons, List.foldl_cons]
    refine ⟨ih.1, ih.2.trans ?_⟩
    refine List.Perm.trans (List.Perm.append_left _ h1.2) ?_
    simp only [List.cons_append]
    exact List.perm_middle

end ModVerif.TieFnDirhashDir
