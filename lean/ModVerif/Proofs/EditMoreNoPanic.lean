/-
  EditMore, part 26 — **C15 `nilDeref_unreachable` with the bulk requirement setters**: on a state satisfying the invariant
  with every typed requirement live (a Cleanup has just run), SetRequire and SetRequireSeparateIndirect never dereference
  a nil `Syntax` pointer, and `ensureBlock` never hits its "unexpected statement" panic; whole sessions run to completion.
-/
import ModVerif.Proofs.EditMoreSepG
import ModVerif.Proofs.EditRefineNoPanic
set_option linter.unusedSimpArgs false
namespace ModVerif.Modfile.Edit
open ModVerif ModVerif.Modfile

theorem setRequireLoop_total (rs : List Require) : ∀ (need : List Want) (syn : FileSyntax), (∀ r ∈ rs, r.lineId ≠ 0) →
    ∃ res, setRequireLoop rs need syn = .ok res := by
  induction rs with
  | nil => intro need syn _; exact ⟨_, rfl⟩
  | cons r rs ih =>
    intro need syn h
    have hd := deref_ok (h r List.mem_cons_self)
    have hrest := fun need' syn' => ih need' syn' (fun x hx => h x (List.mem_cons_of_mem _ hx))
    unfold setRequireLoop
    cases hf : need.find? (fun a => a.path == r.mod.path) with
    | some w =>
      simp only [bind, Except.bind, hd]
      rcases hrest (need.filter (fun a => a.path != r.mod.path))
        (syn.updateLine r.lineId (fun l => setIndirectLine w.indirect (setVersionLine w.vers l))) with ⟨res, hres⟩
      simp only [hres]
      exact ⟨_, rfl⟩
    | none =>
      simp only [bind, Except.bind, hd]
      rcases hrest (need.filter (fun a => !a.path.isEmpty)) (markRemoved syn r.lineId) with ⟨res, hres⟩
      simp only [hres]
      exact ⟨_, rfl⟩

theorem sepLoop_total (ctx : SepCtx) (need : List Want) (rs : List Require) : ∀ (have_ : List Bytes) (syn : FileSyntax) (next : Nat),
    (∀ r ∈ rs, r.lineId ≠ 0) → ∃ res, sepLoop ctx need rs have_ syn next = .ok res := by
  induction rs with
  | nil => intro have_ syn next _; exact ⟨_, rfl⟩
  | cons r rs ih =>
    intro have_ syn next h
    have hd := deref_ok (h r List.mem_cons_self)
    have hrest := fun have' syn' next' => ih have' syn' next' (fun x hx => h x (List.mem_cons_of_mem _ hx))
    unfold sepLoop
    cases hf : need.find? (fun a => a.path == r.mod.path) with
    | some w =>
      simp only
      by_cases hc : have_.contains r.mod.path = true
      · simp only [hc, if_true, bind, Except.bind, hd]
        rcases hrest have_ (markRemoved syn r.lineId) next with ⟨res, hres⟩
        simp only [hres]
        exact ⟨_, rfl⟩
      · simp only [Bool.not_eq_true] at hc
        simp only [hc, Bool.false_eq_true, if_false, bind, Except.bind, hd]
        generalize (if (w.indirect && (ctx.oneFlat || inBlockOrig ctx r.lineId ctx.directOrig)) = true then
            (({ r with mod := { r.mod with version := w.vers }, indirect := w.indirect, lineId := next } : Require),
              moveExisting (syn.updateLine r.lineId fun l => setIndirectLine w.indirect (setVersionLine w.vers l)) r.lineId ctx.indirectIdx next, next + 1)
          else if (!w.indirect && (ctx.oneFlat || inBlockOrig ctx r.lineId ctx.indirectOrig)) = true then
            (({ r with mod := { r.mod with version := w.vers }, indirect := w.indirect, lineId := next } : Require),
              moveExisting (syn.updateLine r.lineId fun l => setIndirectLine w.indirect (setVersionLine w.vers l)) r.lineId ctx.directIdx next, next + 1)
          else (({ r with mod := { r.mod with version := w.vers }, indirect := w.indirect } : Require),
              syn.updateLine r.lineId fun l => setIndirectLine w.indirect (setVersionLine w.vers l), next)) = t
        rcases t with ⟨r2, syn2, next2⟩
        simp only
        rcases hrest (r2.mod.path :: have_) syn2 next2 with ⟨res, hres⟩
        simp only [hres]
        exact ⟨_, rfl⟩
    | none =>
      simp only [bind, Except.bind, hd]
      rcases hrest have_ (markRemoved syn r.lineId) next with ⟨res, hres⟩
      simp only [hres]
      exact ⟨_, rfl⟩

/-- SetRequire never panics on live requirements with distinct requested paths -/
theorem setRequire_total (e : EFile) (req : List Want) (perm : List Want → List Want) (hg : GoodWant req) (hi : Inv e)
    (hlive : ∀ r ∈ e.f.require, liveRq r = true) : ∃ e', setRequire e req perm = .ok e' := by
  unfold setRequire
  rw [needMap_distinct true req [] (by simpa using hg.1)]
  simp only [bind, Except.bind, List.nil_append]
  rcases setRequireLoop_total e.f.require req e.f.syn (fun r hr => hi.require_pos r hr (hlive r hr)) with ⟨res, hres⟩
  simp only [hres]
  exact ⟨_, rfl⟩

theorem sepTail_total (e : EFile) (req : List Want) (perm : List Want → List Want) (ctx : SepCtx) (stmts : List Expr)
    (hg : GoodWant req) (hpos : ∀ r ∈ e.f.require, r.lineId ≠ 0) : ∃ e', sepTail e req perm ctx stmts = .ok e' := by
  unfold sepTail
  rw [needMap_distinct false req [] (by simpa using hg.1)]
  simp only [bind, Except.bind, List.nil_append]
  rcases sepLoop_total ctx req e.f.require [] { e.f.syn with stmts := stmts } e.next hpos with ⟨res, hres⟩
  simp only [hres]
  exact ⟨_, rfl⟩

/-- SetRequireSeparateIndirect never panics: no nil dereference, and `ensureBlock` is only called on an index the scan
    found (a live `require` line or a `require` block) -/
theorem setRequireSeparateIndirect_total (e : EFile) (req : List Want) (perm : List Want → List Want) (hg : GoodWant req)
    (hi : Inv e) (hlive : ∀ r ∈ e.f.require, liveRq r = true) : ∃ e', setRequireSeparateIndirect e req perm = .ok e' := by
  rw [setRSI_eq]
  rcases sepStage_total e.f.syn.stmts hi.tree.shape hi.view2 _ (scan_inv _) with ⟨s1, dI, dO, lI, sh, h1, s2, iI, iO, h2⟩
  simp only [h1, h2]
  exact sepTail_total e req perm _ s2 hg (fun r hr => hi.require_pos r hr (hlive r hr))

/-- **no panic, every go.mod operation** -/
theorem applyMod_noPanic_all (e : EFile) (op : Op) (hv : ValidArgsAll e op) (hm : IsModOp op) (hi : Inv e) : NoPanic (applyMod e op) := by
  cases op with
  | setRequire w r =>
    rcases setRequire_total e w (permOf r) hv.1 hi hv.2.1 with ⟨e', he'⟩
    exact ⟨.ok e', by simp only [applyMod, he'], fun err h => by cases h⟩
  | setRequireSeparateIndirect w r =>
    rcases setRequireSeparateIndirect_total e w (permOf r) hv.1 hi hv.2.1 with ⟨e', he'⟩
    exact ⟨.ok e', by simp only [applyMod, he'], fun err h => by cases h⟩
  | addModule p => exact applyMod_noPanic' e _ (by simpa [ValidArgsAll] using hv) hm hi
  | addGo v => exact applyMod_noPanic' e _ (by simpa [ValidArgsAll] using hv) hm hi
  | dropGo => exact applyMod_noPanic' e _ (by simpa [ValidArgsAll] using hv) hm hi
  | addToolchain n => exact applyMod_noPanic' e _ (by simpa [ValidArgsAll] using hv) hm hi
  | dropToolchain => exact applyMod_noPanic' e _ (by simpa [ValidArgsAll] using hv) hm hi
  | addGodebug k v => exact applyMod_noPanic' e _ (by simpa [ValidArgsAll] using hv) hm hi
  | dropGodebug k => exact applyMod_noPanic' e _ (by simpa [ValidArgsAll] using hv) hm hi
  | addRequire p v => exact applyMod_noPanic' e _ (by simpa [ValidArgsAll] using hv) hm hi
  | addNewRequire p v i => exact applyMod_noPanic' e _ (by simpa [ValidArgsAll] using hv) hm hi
  | dropRequire p => exact applyMod_noPanic' e _ (by simpa [ValidArgsAll] using hv) hm hi
  | addExclude p v => exact applyMod_noPanic' e _ (by simpa [ValidArgsAll] using hv) hm hi
  | dropExclude p v => exact applyMod_noPanic' e _ (by simpa [ValidArgsAll] using hv) hm hi
  | addReplace a b c d => exact applyMod_noPanic' e _ (by simpa [ValidArgsAll] using hv) hm hi
  | dropReplace a b => exact applyMod_noPanic' e _ (by simpa [ValidArgsAll] using hv) hm hi
  | addRetract lo hi' why => exact applyMod_noPanic' e _ (by simpa [ValidArgsAll] using hv) hm hi
  | dropRetract lo hi' => exact applyMod_noPanic' e _ (by simpa [ValidArgsAll] using hv) hm hi
  | addTool p => exact applyMod_noPanic' e _ (by simpa [ValidArgsAll] using hv) hm hi
  | dropTool p => exact applyMod_noPanic' e _ (by simpa [ValidArgsAll] using hv) hm hi
  | sortBlocks => exact applyMod_noPanic' e _ (by simpa [ValidArgsAll] using hv) hm hi
  | cleanup => exact applyMod_noPanic' e _ (by simpa [ValidArgsAll] using hv) hm hi
  | addUse d m => exact hm.elim
  | addNewUse d m => exact hm.elim
  | dropUse d => exact hm.elim
  | setUse w rev => exact hm.elim

/-- **nilDeref_unreachable, every go.mod operation**: a session whose operations have valid arguments in the state in
    which they run (`RunValid`: in particular a bulk setter runs on live requirements — a Cleanup has just run) always
    runs to completion; no Go panic -/
theorem runOps_total_all (ops : List Op) : ∀ (e : EFile) (res0 : List Bool) (i : Nat),
    RunValid e ops → (∀ op ∈ ops, IsModOp op) → Inv e → ∃ e' res, runOps applyMod e ops res0 i = .done e' res := by
  induction ops with
  | nil => intro e res0 i _ _ _; exact ⟨e, res0.reverse, rfl⟩
  | cons op ops ih =>
    intro e res0 i hv hm hi
    have hms : ∀ o ∈ ops, IsModOp o := fun o ho => hm o (List.mem_cons_of_mem _ ho)
    rcases applyMod_noPanic_all e op hv.1 (hm op List.mem_cons_self) hi with ⟨x, hx, herr⟩
    unfold runOps
    rw [hx]
    cases x with
    | ok e1 => exact ih e1 _ _ (hv.2.1 e1 hx) hms (applyMod_inv_all e e1 op hv.1 hi hx)
    | error err =>
      simp only [herr err rfl, if_true]
      exact ih e _ _ (hv.2.2 err hx (herr err rfl)) hms hi

/-- after Cleanup every typed requirement is live -/
theorem cleanup_require_live (e : EFile) : ∀ r ∈ (cleanup e).f.require, liveRq r = true := by
  intro r hr
  simp only [cleanup] at hr
  exact (List.mem_filter.1 hr).2

end ModVerif.Modfile.Edit
