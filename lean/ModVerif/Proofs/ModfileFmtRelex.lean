/-
  C02 stage 3, part h: the rendered text of a well-shaped tree lexes to the token stream of the
  normalised tree: `lexes_rStmts`.
-/
import ModVerif.Proofs.ModfileFmtRender2
namespace ModVerif.Proofs.ModfileFmtRender
open ModVerif ModVerif.Modfile ModVerif.Proofs.ModfileFmtUtf8
open ModVerif.Proofs.ModfileFmtTok ModVerif.Proofs.ModfileFmtLex ModVerif.Proofs.ModfileFmtLine
open ModVerif.Proofs.ModfileFmtStream ModVerif.Proofs.ModfileFmtTree ModVerif.Proofs.ModfileFmtTrim

theorem tabs_blank (m : Nat) : ∀ b ∈ tabs m, isBlank b = true := by
  intro b hb
  have : b = 9 := by simpa [tabs] using (List.eq_of_mem_replicate hb)
  subst this; rfl

/-- comment lines and blank lines -/
theorem lexes_before (m : Nat) : ∀ (cs : List Comment), (∀ c ∈ cs, c.token = [] ∨ CommentOK c.token) →
    ∀ {REST : Bytes} {S : List Tk}, LexesTo true REST S →
    LexesTo true (rBefore m cs ++ REST) (blkBeforeToks (cs.map normC) ++ S) := by
  intro cs
  induction cs with
  | nil => intro _ REST S hS; simpa [rBefore, blkBeforeToks] using hS
  | cons c cs ih =>
    intro h REST S hS
    have hrest := ih (fun c' hc' => h c' (by simp [hc'])) hS
    rcases h c (by simp) with he | hok
    · -- blank-line placeholder
      have ht : GoStrings.trimSpace c.token = [] := by rw [he]; exact trimSpace_nil
      have := lexesTo_newline [] (rBefore m cs ++ REST) (by simp) hrest true
      simpa [rBefore, blkBeforeToks, normC, ht] using this
    · obtain ⟨e, _, hok'⟩ := trimSpace_comment hok
      obtain ⟨hne, _⟩ := commentOK_lastOK hok
      have hne' : GoStrings.trimSpace c.token ≠ [] := by simpa using hne
      have hlast : (GoStrings.trimSpace c.token).getLast? ≠ some 13 := by
        intro hl
        exact (trimSpace_comment_last hok 13 hl).2.2.1 rfl
      have := lexesTo_comment (tabs m) (GoStrings.trimSpace c.token) (rBefore m cs ++ REST) (tabs_blank m)
        (trimSpace_tabs m) hok' hlast hrest
      simpa [rBefore, blkBeforeToks, normC, hne', List.append_assoc] using this

theorem blk_eq_top (cs : List Comment) (h : ∀ c ∈ cs, CommentOK c.token) :
    blkBeforeToks (cs.map normC) = topBeforeToks (cs.map normC) := by
  induction cs with
  | nil => rfl
  | cons c cs ih =>
    obtain ⟨hne, _⟩ := commentOK_lastOK (h c (by simp))
    have hne' : GoStrings.trimSpace c.token ≠ [] := by simpa using hne
    have := ih (fun c' hc' => h c' (by simp [hc']))
    simp only [blkBeforeToks, topBeforeToks, List.map_cons] at this ⊢
    rw [this]
    simp [normC, hne']

theorem lexes_top_before (cs : List Comment) (h : TopBeforeOK cs) {REST : Bytes} {S : List Tk}
    (hS : LexesTo true REST S) : LexesTo true (rBefore 0 cs ++ REST) (topBeforeToks (cs.map normC) ++ S) := by
  rw [← blk_eq_top cs (fun c hc => (h c hc).2)]
  exact lexes_before 0 cs (fun c hc => Or.inr (h c hc).2) hS

theorem blkBefore_cases : ∀ (cs : List Comment) (allow : Bool), BlkBeforeOK allow cs →
    ∀ c ∈ cs, c.token = [] ∨ CommentOK c.token := by
  intro cs
  induction cs with
  | nil => intro _ _ c hc; simp at hc
  | cons c0 cs ih =>
    intro allow h c hc
    unfold BlkBeforeOK at h
    by_cases he : c0.token.isEmpty = true
    · simp only [he, if_true] at h
      rcases List.mem_cons.1 hc with rfl | hc
      · exact Or.inl (by simpa using he)
      · exact ih false h.2.2 c hc
    · simp only [he, Bool.false_eq_true, if_false] at h
      rcases List.mem_cons.1 hc with rfl | hc
      · exact Or.inr h.2.1
      · exact ih true h.2.2 c hc

/-- a token line followed by its newline -/
theorem lexes_tokline (ws : Bytes) (hws : ∀ b ∈ ws, isBlank b = true) (ts : List Bytes) (hne : ts ≠ [])
    (hts : ∀ t ∈ ts, TokText t) {REST : Bytes} {S : List Tk} (hS : LexesTo true REST S) (b : Bool) :
    LexesTo b (ws ++ (tokStr ts [] ++ 10 :: REST)) (ts.map tk ++ nl :: S) :=
  lexesTo_tokStr ts hts hne [] (Or.inl rfl) ws hws (10 :: REST) (delimStart_cons rfl)
    (by simpa using lexesTo_newline [] REST (by simp) hS false) b

/-- the stream of a block line, starting with the newline that ends the previous line -/
def lineToksS (l : Line) : List Tk := nl :: (blkBeforeToks (l.comments.before.map normC) ++ l.token.map tk)

theorem lexes_lines : ∀ (ls : List Line) (allow : Bool), WFBlkLines allow ls →
    ∀ {TAIL : Bytes} {TS : List Tk}, DelimStart TAIL → LexesTo false TAIL TS →
    LexesTo false (ls.flatMap rLineS ++ TAIL) (ls.flatMap lineToksS ++ TS) ∧ DelimStart (ls.flatMap rLineS ++ TAIL) := by
  intro ls
  induction ls with
  | nil => intro _ _ TAIL TS hd hT; exact ⟨by simpa using hT, by simpa using hd⟩
  | cons l ls ih =>
    intro allow hwf TAIL TS hd hT
    obtain ⟨hl, hls⟩ := hwf
    obtain ⟨h1, h2⟩ := ih true hls hd hT
    -- tab, tokens, then the rest
    have htoks : LexesTo true ([9] ++ (tokStr l.token [] ++ (ls.flatMap rLineS ++ TAIL)))
        (l.token.map tk ++ (ls.flatMap lineToksS ++ TS)) :=
      lexesTo_tokStr l.token hl.tok hl.ne [] (Or.inl rfl) [9] (by intro b hb; simp at hb; subst hb; rfl)
        _ h2 h1 true
    have hbefore := lexes_before 1 l.comments.before (blkBefore_cases _ _ hl.before) htoks
    have := lexesTo_newline [] _ (by simp) hbefore false
    refine ⟨?_, ?_⟩
    · simpa [rLineS, lineToksS, List.append_assoc] using this
    · simp only [List.flatMap_cons, rLineS, List.cons_append]
      exact delimStart_cons rfl

theorem regroup_lines (f : Line → List Tk) (ls : List Line) (Z : List Tk) :
    ls.flatMap (fun l => nl :: f l) ++ nl :: Z = nl :: (ls.flatMap (fun l => f l ++ [nl]) ++ Z) := by
  induction ls with
  | nil => simp
  | cons l ls ih => simp [ih, List.append_assoc]

/-- a block statement with its final newline -/
theorem lexes_block (b : LineBlock) (hwf : WFBlock b) {REST : Bytes} {S : List Tk} (hS : LexesTo true REST S) :
    LexesTo true (rBlock b ++ 10 :: REST) (stmtToks (normExpr (.lineBlock b)) ++ S) := by
  -- `)` and the final newline
  have e2 : LexesTo true ([] ++ ([41] ++ 10 :: REST)) (rp :: nl :: S) :=
    lexesTo_tok (TokOK.punct 41 (by decide)) [] (10 :: REST) (by simp) (Or.inr ⟨41, rfl⟩)
      (by simpa using lexesTo_newline [] REST (by simp) hS false) true
  have e3 := lexes_before 0 b.rparen.comments.before (blkBefore_cases _ _ hwf.rbefore) e2
  have e4 := lexesTo_newline [] _ (by simp) e3 false
  simp only [List.nil_append] at e4
  obtain ⟨e5, hd5⟩ := lexes_lines b.lines false hwf.lines (delimStart_cons rfl) e4
  have e6 : LexesTo false ([32] ++ ([40] ++ (b.lines.flatMap rLineS ++
      10 :: (rBefore 0 b.rparen.comments.before ++ ([] ++ ([41] ++ 10 :: REST)))))) (lp :: _) :=
    lexesTo_tok (TokOK.punct 40 (by decide)) [32] _ (by intro x hx; simp at hx; subst hx; rfl)
      (Or.inr ⟨40, rfl⟩) e5 false
  have e7 := lexesTo_tokStr b.token hwf.tok hwf.ne [] (Or.inl rfl) [] (by simp) _ (delimStart_cons rfl) e6 true
  have e8 := lexes_top_before b.comments.before hwf.before e7
  have hstream : stmtToks (normExpr (.lineBlock b)) ++ S =
      topBeforeToks (b.comments.before.map normC) ++ (b.token.map tk ++ lp :: (b.lines.flatMap lineToksS ++
        nl :: (blkBeforeToks (b.rparen.comments.before.map normC) ++ rp :: nl :: S))) := by
    have hl : (b.lines.map normLine).flatMap blkLineToks =
        b.lines.flatMap (fun l => (blkBeforeToks (l.comments.before.map normC) ++ l.token.map tk) ++ [nl]) := by
      rw [List.flatMap_map]
      simp [blkLineToks, normLine, normCs, List.append_assoc]
    have hr : b.lines.flatMap lineToksS ++ nl :: (blkBeforeToks (b.rparen.comments.before.map normC) ++ rp :: nl :: S) = _ :=
      regroup_lines (fun l => blkBeforeToks (l.comments.before.map normC) ++ l.token.map tk) b.lines
        (blkBeforeToks (b.rparen.comments.before.map normC) ++ rp :: nl :: S)
    simp only [stmtToks, normExpr, normBlock, normCs, hl, List.append_assoc]
    rw [hr]
    simp
  rw [hstream]
  simpa [rBlock, List.append_assoc] using e8

/-- one statement -/
theorem lexes_stmt (s : Expr) (hwf : WFStmt s) {REST : Bytes} {S : List Tk} (hS : LexesTo true REST S) :
    LexesTo true (rStmt s ++ REST) (stmtToks (normExpr s) ++ S) := by
  cases s with
  | commentBlock x =>
    obtain ⟨_, hbefore, _, _⟩ := hwf
    simpa [rStmt, stmtToks, normExpr, normCs] using lexes_top_before x.comments.before hbefore hS
  | line l =>
    have hwf : WFLine l := hwf
    have h1 := lexes_tokline [] (by simp) l.token hwf.ne hwf.tok hS true
    have h2 := lexes_top_before l.comments.before hwf.before h1
    simpa [rStmt, stmtToks, normExpr, normLine, normCs, List.append_assoc] using h2
  | lineBlock b =>
    have := lexes_block b hwf hS
    simpa [rStmt, List.append_assoc] using this
  | lparen x => exact absurd hwf id
  | rparen x => exact absurd hwf id

/-- ★ the rendered statement list lexes to the token stream of the normalised statements -/
theorem lexes_rStmts : ∀ (ss : List Expr), WFStmts ss → LexesTo true (rStmts ss) (fileToks (ss.map normExpr)) := by
  intro ss
  induction ss with
  | nil => intro _; simpa [rStmts, fileToks, stmtsToks] using lexesTo_eof true
  | cons s rest ih =>
    intro hwf
    have hs := hwf s (by simp)
    cases rest with
    | nil =>
      have := lexes_stmt s hs (lexesTo_eof true)
      simpa [rStmts, fileToks, stmtsToks] using this
    | cons r rs =>
      have hrest := ih (fun x hx => hwf x (by simp [hx]))
      have hnl := lexesTo_newline [] _ (by simp) hrest true
      have := lexes_stmt s hs hnl
      simpa [rStmts, fileToks, stmtsToks, List.append_assoc] using this

end ModVerif.Proofs.ModfileFmtRender
