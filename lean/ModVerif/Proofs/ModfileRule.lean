/-
  Lemmas about the directive layer (Model/Modfile/Rule.lean) used by Props/C20:
  strict/lax agreement of `File.add` on lines the strict parser accepts, lax ignoring unknown verbs.
-/
import ModVerif.Model.Modfile.Work
namespace ModVerif.Proofs.ModfileRule
open ModVerif ModVerif.Modfile

/-- `File.add` with `strict = false` ignores every verb outside go / module / retract / require. -/
theorem add_lax_ignores (st : AddState) (block : Option Comments) (line : Line) (verb : Bytes)
    (args : List Bytes) (fix : Option Fixer) (h : verbIn verb laxVerbs = false) :
    File.add st block line verb args fix false = (st, args) := by
  unfold File.add
  simp [h]

/-- On a verb the lax parser keeps, a line that the strict `File.add` accepts without reporting an
    error is processed identically by the lax `File.add` (same typed entries, same rewritten tokens). -/
theorem add_strict_ok_lax (st : AddState) (block : Option Comments) (line : Line) (verb : Bytes)
    (args : List Bytes) (fix : Option Fixer) (hv : verbIn verb laxVerbs = true)
    (hok : (File.add st block line verb args fix true).1.errsRev = st.errsRev) :
    File.add st block line verb args fix false = File.add st block line verb args fix true := by
  have hlen : ∀ (p : Position) (k : RuleErrKind), (st.err p k).errsRev ≠ st.errsRev := by
    intro p k h
    have := congrArg List.length h
    simp [AddState.err] at this
  unfold File.add at hok ⊢
  simp only [hv, Bool.not_true, Bool.false_and, Bool.true_and, Bool.not_false, Bool.false_eq_true, if_false] at hok ⊢
  by_cases hgo : verb = B "go"
  · subst hgo
    simp only [beq_self_eq_true, if_true] at hok ⊢
    cases hg : st.file.go.isSome with
    | true => simp
    | false =>
      simp only [hg, Bool.false_eq_true, if_false] at hok ⊢
      split
      · rename_i a
        by_cases hre : goVersionRE a = true
        · simp [hre]
        · simp only [hre, Bool.false_eq_true, if_false] at hok
          exact absurd hok (hlen _ _)
      · rfl
  · have hgo' : (verb == B "go") = false := by simpa using hgo
    simp only [hgo', Bool.false_eq_true, if_false] at hok ⊢
    by_cases hre : verb = B "retract"
    · subst hre
      have h1 : (B "retract" == B "toolchain") = false := by decide +kernel
      have h2 : (B "retract" == B "module") = false := by decide +kernel
      have h3 : (B "retract" == B "godebug") = false := by decide +kernel
      have h4 : (B "retract" == B "require") = false := by decide +kernel
      have h5 : (B "retract" == B "exclude") = false := by decide +kernel
      have h6 : (B "retract" == B "replace") = false := by decide +kernel
      simp only [h1, h2, h3, h4, h5, h6, Bool.false_eq_true, if_false, Bool.or_self, beq_self_eq_true, if_true] at hok ⊢
      split
      · rename_i args' e heq
        simp only [heq] at hok
        exact absurd hok (hlen _ _)
      · rename_i args' vi rest heq
        simp only [heq] at hok
        cases hr : rest.isEmpty with
        | true => simp
        | false =>
          simp only [hr, Bool.not_false, Bool.true_and, if_true] at hok
          exact absurd hok (hlen _ _)
    · -- every other kept verb does not look at `strict`
      have hre' : (verb == B "retract") = false := by simpa using hre
      simp only [hre', Bool.false_eq_true, if_false]

end ModVerif.Proofs.ModfileRule
