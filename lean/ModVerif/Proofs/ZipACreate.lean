/-
  C05 `create_checkZip`: an archive produced by `create` passes the zip check with no invalid entry, no
  size error, and the entry names as the valid list.
-/
import ModVerif.Spec.ZipSpec
import ModVerif.Proofs.ZipAChain
import ModVerif.Proofs.ZipAPath
import ModVerif.Proofs.ZipAVendor
import ModVerif.Proofs.ZipNameOK
import ModVerif.Proofs.ZipSubmodule
import ModVerif.Proofs.ZipCreate
namespace ModVerif.Proofs.ZipA
open ModVerif ModVerif.PathClean ModVerif.Zip ModVerif.ZipSpec ModVerif.Proofs.Zip

/-! ### the collision checker accepts the valid files on their own -/

/-- checking a list of file paths in turn, as the zip check does for file entries -/
def replay (toFold : Bytes → Bytes) : CC → List Bytes → Option CC
  | cc, [] => some cc
  | cc, p :: t =>
    match ccCheckTop toFold cc p false with
    | (cc', none) => replay toFold cc' t
    | (_, some _) => none

theorem replay_snoc (toFold : Bytes → Bytes) (p : Bytes) : ∀ (l : List Bytes) (cc mid cc' : CC),
    replay toFold cc l = some mid → ccCheckTop toFold mid p false = (cc', none) →
    replay toFold cc (l ++ [p]) = some cc' := by
  intro l
  induction l with
  | nil =>
    intro cc mid cc' h1 h2
    simp only [replay, Option.some.injEq] at h1
    subst h1
    simp [replay, h2]
  | cons q t ih =>
    intro cc mid cc' h1 h2
    simp only [List.cons_append, replay] at h1 ⊢
    rcases hq : ccCheckTop toFold cc q false with ⟨c1, r1⟩
    rw [hq] at h1
    cases r1 with
    | some e => simp at h1
    | none => simp only at h1 ⊢; exact ih c1 mid cc' h1 h2

/-- invariant of the second loop: the table has unique keys, and the valid files so far are accepted on
    their own, leaving a sub-table -/
structure ReplayInv (E : Env) (s : St) : Prop where
  uniq : Uniq s.cc
  small : ∃ small, replay E.toFold [] (s.validFiles.map (·.path)) = some small ∧ Sub small s.cc

theorem stepFile_replayInv (E : Env) (ge124 : Bool) (hg : List Bytes) (s : St) (f : FileInfo)
    (h : ReplayInv E s) : ReplayInv E (stepFile E ge124 hg s f) := by
  obtain ⟨small, hs1, hs2⟩ := h.small
  rcases stepFile_valid_cc E ge124 hg s f with ⟨hv, hcc⟩ | ⟨hv, _, hnone, hcc⟩
  · rcases hcc with hcc | hcc
    · exact ⟨by rw [hcc]; exact h.uniq, small, by rw [hv]; exact hs1, by rw [hcc]; exact hs2⟩
    · obtain ⟨a1, a2, _⟩ := ccCheck_any E.toFold (f.path.length + 1) s.cc f.path (f.mode == .dir) h.uniq
      refine ⟨by rw [hcc]; exact a1, small, by rw [hv]; exact hs1, ?_⟩
      rw [hcc]; exact Sub.trans hs2 a2
  · rcases hck : ccCheckTop E.toFold s.cc f.path false with ⟨cc', r⟩
    rw [hck] at hnone hcc
    simp only at hnone hcc
    subst hnone
    have hck' : ccCheck E.toFold (f.path.length + 1) s.cc f.path false = (cc', none) := hck
    obtain ⟨b1, b2, b3⟩ := ccCheck_ok E.toFold _ s.cc cc' f.path false h.uniq hck'
    obtain ⟨a1, a2, _⟩ := ccCheck_any E.toFold (f.path.length + 1) s.cc f.path false h.uniq
    rw [hck'] at a1 a2
    simp only at a1 a2
    obtain ⟨small', c1, c2, _⟩ := ccCheck_sim E.toFold (f.path.length + 1) small cc' f.path false a1
      (Sub.trans hs2 a2) b1 b2 (by
        intro _ hm
        exact b3 rfl _ (hs2 _ hm) rfl)
    refine ⟨by rw [hcc]; exact a1, small', ?_, by rw [hcc]; exact c2⟩
    rw [hv, List.map_append]
    exact replay_snoc E.toFold f.path _ [] small small' hs1 c1

theorem mainPass_replayInv (E : Env) (ge124 : Bool) (hg : List Bytes) : ∀ (l : List FileInfo) (s : St),
    ReplayInv E s → ReplayInv E (mainPass E ge124 hg s l) := by
  intro l
  induction l with
  | nil => intro s h; exact h
  | cons f t ih => intro s h; exact ih _ (stepFile_replayInv E ge124 hg s f h)

theorem checkFilesSt_replayInv (E : Env) (ge124 : Bool) (files : List FileInfo) :
    ReplayInv E (checkFilesSt E files ge124) := by
  unfold checkFilesSt
  apply mainPass_replayInv
  have h0 : (prePass files).st.validFiles = [] := prePass_validFiles files {} rfl
  have hcc : (prePass files).st.cc = [] := prePass_cc files {}
  exact ⟨by rw [hcc]; exact uniq_nil, [], by rw [h0]; rfl, fun e he => by cases he⟩

/-! ### the total size of the valid files -/

/-- invariant of the second loop: unless the size error is set, the sizes of the valid files are not
    negative and fit, with the remaining budget, into `MaxZipFile` -/
def SizeInv (s : St) : Prop :=
  s.cf.sizeError = true ∨
    (0 ≤ s.maxSize ∧ (∀ f ∈ s.validFiles, 0 ≤ f.size) ∧
      (s.validFiles.map (·.size)).sum + s.maxSize ≤ (MaxZipFile : Int))

theorem sizeInv_addError (s : St) (p : Bytes) (om : Bool) (r : Reason) (h : SizeInv s) :
    SizeInv (s.addError p om r) := by
  unfold St.addError
  by_cases hp : s.errPaths.contains p = true
  · rw [if_pos hp]; exact h
  · rw [if_neg hp]; cases om <;> exact h

theorem sizeInv_setCC (s : St) (cc : CC) (h : SizeInv s) : SizeInv (s.setCC cc) := h

theorem sizeInv_account (s : St) (n : Int) (h : SizeInv s) : SizeInv (s.account n) := by
  unfold St.account
  by_cases hn : 0 ≤ n ∧ n ≤ s.maxSize
  · rw [if_pos hn]
    rcases h with h | ⟨h1, h2, h3⟩
    · exact Or.inl h
    · exact Or.inr ⟨by simp only; omega, h2, by simp only; omega⟩
  · rw [if_neg hn]; exact Or.inl rfl

theorem sizeInv_account_push (s : St) (f : FileInfo) (h : SizeInv s) :
    SizeInv ((s.account f.size).pushValid f) := by
  unfold St.account
  by_cases hn : 0 ≤ f.size ∧ f.size ≤ s.maxSize
  · rw [if_pos hn]
    rcases h with h | ⟨h1, h2, h3⟩
    · exact Or.inl h
    · refine Or.inr ⟨by simp only [St.pushValid]; omega, ?_, ?_⟩
      · intro g hg
        simp only [St.pushValid] at hg
        rcases List.mem_append.mp hg with hg | hg
        · exact h2 g hg
        · rw [List.mem_singleton.mp hg]; exact hn.1
      · simp only [St.pushValid, List.map_append, List.sum_append, List.map_cons, List.map_nil, List.sum_cons,
          List.sum_nil]
        omega
  · rw [if_neg hn]; exact Or.inl rfl

theorem stepFile_sizeInv (E : Env) (ge124 : Bool) (hg : List Bytes) (s : St) (f : FileInfo)
    (h : SizeInv s) : SizeInv (stepFile E ge124 hg s f) := by
  unfold stepFile
  repeat' split
  all_goals first
    | exact sizeInv_addError _ _ _ _ h
    | skip
  unfold stepStat
  split
  · exact sizeInv_addError _ _ _ _ h
  split
  · exact sizeInv_addError _ _ _ _ (sizeInv_setCC _ _ h)
  unfold stepMode
  split
  · exact sizeInv_addError _ _ _ _ (sizeInv_setCC _ _ h)
  split
  · exact sizeInv_addError _ _ _ _ (sizeInv_setCC _ _ h)
  unfold stepSized
  split
  · exact sizeInv_addError _ _ _ _ (sizeInv_account _ _ (sizeInv_setCC _ _ h))
  split
  · exact sizeInv_addError _ _ _ _ (sizeInv_account _ _ (sizeInv_setCC _ _ h))
  · exact sizeInv_account_push _ _ (sizeInv_setCC _ _ h)

theorem mainPass_sizeInv (E : Env) (ge124 : Bool) (hg : List Bytes) : ∀ (l : List FileInfo) (s : St),
    SizeInv s → SizeInv (mainPass E ge124 hg s l) := by
  intro l
  induction l with
  | nil => intro s h; exact h
  | cons f t ih => intro s h; exact ih _ (stepFile_sizeInv E ge124 hg s f h)

theorem prePass_sizeInv : ∀ (l : List FileInfo) (a : Pre), SizeInv a.st → SizeInv (l.foldl preStep a).st := by
  intro l
  induction l with
  | nil => intro a h; exact h
  | cons f t ih =>
    intro a h
    apply ih
    rw [preStep_st]
    split
    · exact sizeInv_addError _ _ _ _ h
    · exact h

theorem checkFilesSt_sizeInv (E : Env) (ge124 : Bool) (files : List FileInfo) :
    SizeInv (checkFilesSt E files ge124) := by
  unfold checkFilesSt
  apply mainPass_sizeInv
  apply prePass_sizeInv
  refine Or.inr ⟨?_, ?_, ?_⟩
  · show (0 : Int) ≤ (MaxZipFile : Int)
    unfold MaxZipFile; omega
  · intro f hf; cases hf
  · show ([] : List Int).sum + (MaxZipFile : Int) ≤ _
    simp


/-! ### what the zip check needs from a valid file -/

theorem getLast?_append_ne_nil (a b : Bytes) (h : b ≠ []) : (a ++ b).getLast? = b.getLast? := by
  rw [List.getLast?_append]
  cases b with
  | nil => exact absurd rfl h
  | cons y ys => simp [List.getLast?]

theorem cleanRel_ne_nil (p : Bytes) (h : CleanRel p) : p ≠ [] := by
  intro e; have := h.clean; rw [e] at this; simp [pathClean] at this

/-- a clean relative path does not end in a slash -/
theorem cleanRel_noTrailingSlash (p : Bytes) (h : CleanRel p) : hasSlashSuffix p = false := by
  unfold hasSlashSuffix
  rcases last_slash p with hns | ⟨a, b, rfl, hb⟩
  · have : p.getLast? ≠ some 47 := by
      intro e
      exact hns (List.mem_of_getLast? e)
    simpa using this
  · have hs := cleanRel_split _ h (by intro e; have := congrArg (fun l => (47 : UInt8) ∈ l) e; simp at this)
    rw [splitOn_append_sep, splitOn_noSep 47 b hb] at hs
    have hlen : ((splitOn 47 a ++ [b] ++ []).foldl (step false) []).length =
        ([] : List Bytes).length + (splitOn 47 a ++ [b] ++ []).length := by
      rw [List.append_nil, hs]; simp
    obtain ⟨_, g2⟩ := foldl_step_full false (splitOn 47 a ++ [b]) [] [] hlen
    have hbne : b ≠ [] := (g2 b (by simp)).1
    have e : (a ++ 47 :: b).getLast? = b.getLast? := by
      have : a ++ 47 :: b = (a ++ [47]) ++ b := by simp
      rw [this, getLast?_append_ne_nil _ _ hbne]
    rw [e]
    have : b.getLast? ≠ some 47 := fun e' => hb (List.mem_of_getLast? e')
    simpa using this

theorem stripTrailingSlashes_id (p : Bytes) (h : hasSlashSuffix p = false) : stripTrailingSlashes p = p := by
  unfold stripTrailingSlashes
  unfold hasSlashSuffix at h
  cases hr : p.reverse with
  | nil => have : p = [] := by simpa using hr
           rw [this]; rfl
  | cons x t =>
    have hx : p.getLast? = some x := by
      rw [List.getLast?_eq_head?_reverse, hr]; rfl
    have hne : x ≠ 47 := by
      intro e; rw [hx, e] at h; simp at h
    have : (x :: t).dropWhile (· == 47) = x :: t := by
      have h47 : (x == 47) = false := by simpa using hne
      simp [List.dropWhile, h47]
    rw [this, ← hr]; simp

theorem lastElem_ne_nil (p : Bytes) (hne : p ≠ []) (h : hasSlashSuffix p = false) : lastElem p ≠ [] := by
  unfold lastElem
  unfold hasSlashSuffix at h
  cases hr : p.reverse with
  | nil => exact absurd (by simpa using hr) hne
  | cons x t =>
    have hx : p.getLast? = some x := by
      rw [List.getLast?_eq_head?_reverse, hr]; rfl
    have hne' : x ≠ 47 := by
      intro e; rw [hx, e] at h; simp at h
    have h47 : (x != 47) = true := by simpa using hne'
    simp [List.takeWhile, h47]

/-- `path.Base` of a non-empty path without trailing slash is its last element -/
theorem pathBase_eq_lastElem (p : Bytes) (hne : p ≠ []) (h : hasSlashSuffix p = false) : pathBase p = lastElem p := by
  unfold pathBase
  have : (p == []) = false := by simpa using hne
  rw [this]
  simp only [Bool.false_eq_true, if_false]
  rw [stripTrailingSlashes_id p h]
  have := lastElem_ne_nil p hne h
  have : (lastElem p == []) = false := by simpa using this
  rw [this]; simp

/-- everything `zipStep` asks of the entry of a valid file -/
structure ZOK (E : Env) (f : FileInfo) : Prop where
  clean : pathClean f.path = f.path
  ne : f.path ≠ []
  noSlash : hasSlashSuffix f.path = false
  cfp : E.cfp f.path = true
  goMod : equalFoldGoMod (pathBase f.path) = true → f.path = goModName
  goModSize : f.path = goModName → (f.content.length : Int) ≤ MaxGoMod
  licenseSize : f.path = licenseName → (f.content.length : Int) ≤ MaxLICENSE

theorem zok_of_nameOK (E : Env) (ge124 : Bool) (files : List FileInfo) (f : FileInfo) (hf : f ∈ files)
    (ok : NameOK E ge124 (prePass files).haveGoMod f) (hadd : (f.content.length : Int) < f.size + 1) : ZOK E f := by
  have hcr : CleanRel f.path := ⟨ok.clean, ok.notAbs⟩
  have hne := cleanRel_ne_nil _ hcr
  have hns := cleanRel_noTrailingSlash _ hcr
  refine ⟨ok.clean, hne, hns, ok.cfp, ?_, ?_, ?_⟩
  · intro h
    rw [pathBase_eq_lastElem _ hne hns] at h
    exact valid_goMod_is_root E ge124 files f hf ok h
  · intro hp; have := ok.goModSize hp; omega
  · intro hp; have := ok.licenseSize hp; omega

theorem pathBase_goModName : pathBase goModName = goModName := by decide

theorem int64OfU64_small (n : Nat) (h : (n : Int) ≤ MaxZipFile) : int64OfU64 n = n := by
  unfold int64OfU64
  have : n < 2 ^ 63 := by unfold MaxZipFile at h; omega
  rw [if_pos this]

/-- the zip check accepts the entry of a valid file and appends its name to the valid list -/
theorem zipStep_valid (E : Env) (pfx : Bytes) (s : ZSt) (f : FileInfo) (cc1 : CC) (hok : ZOK E f)
    (hcc : ccCheckTop E.toFold s.cc f.path false = (cc1, none)) (hsz : 0 ≤ s.size)
    (hfit : s.size + (f.content.length : Int) ≤ MaxZipFile) :
    zipStep E pfx s (entryOf pfx f) =
      { cf := { s.cf with valid := s.cf.valid ++ [pfx ++ f.path] }, cc := cc1,
        size := s.size + (f.content.length : Int) } := by
  have hpre : isPrefixOfB pfx (pfx ++ f.path) = true := (isPrefixOfB_iff _ _).mpr ⟨_, rfl⟩
  have hdrop : (pfx ++ f.path).drop pfx.length = f.path := List.drop_left' rfl
  have hne : (f.path == []) = false := by simpa using hok.ne
  have hi : int64OfU64 f.content.length = (f.content.length : Int) := int64OfU64_small _ (by omega)
  unfold zipStep
  simp only [entryOf, hpre, hdrop, hne, hok.noSlash, Bool.not_true, Bool.false_eq_true, if_false]
  unfold zipNamed
  have hcl : (pathClean f.path != f.path) = false := by rw [hok.clean]; simp
  simp only [hcl, hok.cfp, hcc, Bool.not_true, Bool.false_eq_true, if_false]
  unfold zipSized
  have c1 : (equalFoldGoMod (pathBase f.path) && pathBase f.path != f.path) = false := by
    by_cases hg : equalFoldGoMod (pathBase f.path) = true
    · have := hok.goMod hg
      rw [this, pathBase_goModName]; simp
    · simp [hg]
  have c2 : (equalFoldGoMod (pathBase f.path) && f.path != goModName) = false := by
    by_cases hg : equalFoldGoMod (pathBase f.path) = true
    · have := hok.goMod hg
      rw [this]; simp
    · simp [hg]
  have c3 : (f.path == goModName && decide (int64OfU64 f.content.length > (MaxGoMod : Int))) = false := by
    by_cases hg : f.path = goModName
    · have := hok.goModSize hg
      rw [hi]; simp; intro _; omega
    · simp [hg]
  have c4 : (f.path == licenseName && decide (int64OfU64 f.content.length > (MaxLICENSE : Int))) = false := by
    by_cases hg : f.path = licenseName
    · have := hok.licenseSize hg
      rw [hi]; simp; intro _; omega
    · simp [hg]
  simp only [c1, c2, c3, c4, Bool.false_eq_true, if_false]
  unfold ZSt.account ZSt.pushValid ZSt.setCC
  rw [hi]
  have hacc : 0 ≤ (f.content.length : Int) ∧ (MaxZipFile : Int) - s.size ≥ (f.content.length : Int) := by
    constructor <;> omega
  simp only [hacc, and_self, if_true]


theorem sum_len_nonneg : ∀ (vs : List FileInfo), 0 ≤ (vs.map (fun f => (f.content.length : Int))).sum := by
  intro vs
  induction vs with
  | nil => simp
  | cons f t ih => simp only [List.map_cons, List.sum_cons]; omega

theorem sum_len_le_size : ∀ (vs : List FileInfo), (∀ f ∈ vs, (f.content.length : Int) ≤ f.size) →
    (vs.map (fun f => (f.content.length : Int))).sum ≤ (vs.map (·.size)).sum := by
  intro vs
  induction vs with
  | nil => intro _; simp
  | cons f t ih =>
    intro h
    have h1 := h f List.mem_cons_self
    have h2 := ih (fun g hg => h g (List.mem_cons_of_mem _ hg))
    simp only [List.map_cons, List.sum_cons]; omega

/-- the zip check over the entries of a list of valid files that the collision checker accepts on their
    own and that fit into the size limit -/
theorem zip_replay (E : Env) (pfx : Bytes) : ∀ (vs : List FileInfo) (s : ZSt) (ccF : CC),
    replay E.toFold s.cc (vs.map (·.path)) = some ccF → (∀ f ∈ vs, ZOK E f) → 0 ≤ s.size →
    s.size + (vs.map (fun f => (f.content.length : Int))).sum ≤ MaxZipFile →
    (vs.map (entryOf pfx)).foldl (zipStep E pfx) s =
      { cf := { s.cf with valid := s.cf.valid ++ vs.map (fun f => pfx ++ f.path) }, cc := ccF,
        size := s.size + (vs.map (fun f => (f.content.length : Int))).sum } := by
  intro vs
  induction vs with
  | nil =>
    intro s ccF h _ _ _
    simp only [List.map_nil, replay, Option.some.injEq] at h
    subst h
    obtain ⟨⟨v, o, i, se⟩, cc, sz⟩ := s
    simp
  | cons f t ih =>
    intro s ccF h hok hsz hfit
    simp only [List.map_cons, replay] at h
    rcases hck : ccCheckTop E.toFold s.cc f.path false with ⟨cc1, r1⟩
    rw [hck] at h
    cases r1 with
    | some e => simp at h
    | none =>
      simp only at h
      simp only [List.map_cons, List.sum_cons] at hfit
      have hnn := sum_len_nonneg t
      have hstep := zipStep_valid E pfx s f cc1 (hok f List.mem_cons_self) hck hsz (by omega)
      simp only [List.map_cons, List.foldl_cons, hstep]
      rw [ih _ ccF h (fun g hg => hok g (List.mem_cons_of_mem _ hg)) (by simp only; omega) (by simp only; omega)]
      simp only [List.sum_cons, List.append_assoc, List.singleton_append]
      congr 1
      omega

theorem err_none (cf : CheckedFiles) (h : cf.err = none) : cf.sizeError = false ∧ cf.invalid = [] := by
  unfold CheckedFiles.err at h
  by_cases h1 : cf.sizeError = true
  · rw [if_pos h1] at h; cases h
  · rw [if_neg h1] at h
    by_cases h2 : (!cf.invalid.isEmpty) = true
    · rw [if_pos h2] at h; cases h
    · exact ⟨by simpa using h1, by simpa using h2⟩

/-- C05 `create_checkZip`: the archive `create` produces passes the zip check with no invalid entry, no
    size error, and its entry names as the valid list. -/
theorem create_checkZip (E : Env) (mpath mvers : Bytes) (files : List FileInfo) (es : List Entry) (zipSize : Nat)
    (h : create E mpath mvers files = .ok es) (hz : zipSize ≤ MaxZipFile) :
    ∃ cf, checkZip E mpath mvers zipSize es = .ok cf ∧ cf.invalid = [] ∧ cf.sizeError = false ∧
      cf.valid = es.map (·.name) ∧ cf.err = none := by
  obtain ⟨hm, herr, hes, hadd⟩ := create_ok E mpath mvers files es h
  have herr' : (checkFilesSt E files (goVers files)).cf.err = none := herr
  obtain ⟨hse, _⟩ := err_none _ herr'
  obtain ⟨hv1, _⟩ := checkFilesSt_validFiles E (goVers files) files
  have hinv := (checkFilesSt_validInv E (goVers files) files).nameOK
  obtain ⟨small, hrep, _⟩ := (checkFilesSt_replayInv E (goVers files) files).small
  have hsize := checkFilesSt_sizeInv E (goVers files) files
  rcases hsize with hsize | ⟨z1, z2, z3⟩
  · rw [hse] at hsize; cases hsize
  generalize (checkFilesSt E files (goVers files)).validFiles = vs at *
  have hzok : ∀ f ∈ vs, ZOK E f := fun f hf =>
    zok_of_nameOK E (goVers files) files f (hv1 f hf).1 (hinv f hf) (hadd f hf).2
  have hle : (vs.map (fun f => (f.content.length : Int))).sum ≤ (vs.map (·.size)).sum :=
    sum_len_le_size vs (fun f hf => by have := (hadd f hf).2; omega)
  have hrun := zip_replay E (zipPrefix mpath mvers) vs {} small hrep hzok (by simp) (by
    show (0 : Int) + _ ≤ _; omega)
  unfold checkZip
  have hz' : ¬ zipSize > MaxZipFile := by omega
  simp only [hm, Bool.not_true, Bool.false_eq_true, if_false, hz']
  refine ⟨_, rfl, ?_⟩
  rw [hes, hrun]
  refine ⟨rfl, rfl, ?_, ?_⟩
  · simp [entryOf, Function.comp_def]
  · rfl

end ModVerif.Proofs.ZipA
