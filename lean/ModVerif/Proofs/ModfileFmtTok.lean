/-
  C02 stage 1, part b: `TokOK` — what the lexer can emit as a line token — and the two directions
  `lex_emits_TokOK` (every token `readToken` delivers is `TokOK`) and `relex_one` (a `TokOK` token
  followed by a delimiter lexes to itself and leaves the rest).

  The bodies of identifiers and strings are described by decoding the token's own bytes (the empty
  context); `ModfileFmtUtf8.decodeRune_ctx` transfers between the source context, the empty context and
  the printed context.
-/
import ModVerif.Proofs.ModfileFmtUtf8
namespace ModVerif.Proofs.ModfileFmtTok
open ModVerif ModVerif.Modfile ModVerif.Proofs.ModfileLex ModVerif.Proofs.ModfileFmtUtf8

/-! ### advancing the lexer state over a byte string -/

/-- `i'` is `i` after consuming exactly the bytes `a` (positions are not described) -/
structure Adv (i i' : Input) (a : Bytes) : Prop where
  rem : i.remaining = a ++ i'.remaining
  cons : i'.consumedRev = a.reverse ++ i.consumedRev
  tok : i'.tokRev = a.reverse ++ i.tokRev
  token : i'.token = i.token
  comments : i'.commentsRev = i.commentsRev
  nextId : i'.nextId = i.nextId

theorem Adv.refl (i : Input) : Adv i i [] := ⟨rfl, rfl, rfl, rfl, rfl, rfl⟩

theorem Adv.trans {i j k : Input} {a b : Bytes} (h1 : Adv i j a) (h2 : Adv j k b) : Adv i k (a ++ b) := by
  refine ⟨?_, ?_, ?_, ?_, ?_, ?_⟩
  · rw [h1.rem, h2.rem, List.append_assoc]
  · rw [h2.cons, h1.cons]; simp
  · rw [h2.tok, h1.tok]; simp
  · rw [h2.token, h1.token]
  · rw [h2.comments, h1.comments]
  · rw [h2.nextId, h1.nextId]

theorem Adv.rem_of {i i' : Input} {a rest : Bytes} (h : Adv i i' a) (hr : i.remaining = a ++ rest) :
    i'.remaining = rest := by
  have := h.rem
  rw [hr] at this
  exact (List.append_cancel_left this).symm

/-- `readRune` on a non-empty input: the rune is the decoded head, the state advances over its bytes -/
theorem readRune_adv (i : Input) (h : i.remaining ≠ []) :
    ∃ i', readRune i = .ok ((Utf8.decodeRune i.remaining).1, i') ∧
      Adv i i' (i.remaining.take (Utf8.decodeRune i.remaining).2) ∧
      i'.remaining = i.remaining.drop (Utf8.decodeRune i.remaining).2 := by
  unfold readRune
  cases hr : i.remaining with
  | nil => exact absurd hr h
  | cons a t =>
    refine ⟨_, rfl, ⟨?_, ?_, ?_, rfl, rfl, rfl⟩, rfl⟩
    · simp only [List.take_append_drop]; exact hr
    · simp only [List.reverse_reverse]
    · simp only [List.reverse_reverse]

theorem readRune_inv {i i' : Input} {r : Nat} (h : readRune i = .ok (r, i')) :
    i.remaining ≠ [] ∧ r = (Utf8.decodeRune i.remaining).1 ∧
      Adv i i' (i.remaining.take (Utf8.decodeRune i.remaining).2) ∧
      i'.remaining = i.remaining.drop (Utf8.decodeRune i.remaining).2 := by
  have hne : i.remaining ≠ [] := by
    intro hn
    unfold readRune at h
    rw [hn] at h
    cases h
  obtain ⟨i2, h2, hadv, hrem⟩ := readRune_adv i hne
  rw [h2] at h
  simp only [Except.ok.injEq, Prod.mk.injEq] at h
  obtain ⟨rfl, rfl⟩ := h
  exact ⟨hne, rfl, hadv, hrem⟩

theorem peekRune_eq {i : Input} (h : i.remaining ≠ []) : i.peekRune = (Utf8.decodeRune i.remaining).1 := by
  unfold Input.peekRune
  cases hr : i.remaining with
  | nil => exact absurd hr h
  | cons a t => rfl

theorem take_length_decodeRune (s : Bytes) (h : s ≠ []) :
    (s.take (Utf8.decodeRune s).2).length = (Utf8.decodeRune s).2 := by
  have := (decodeRune_width s h).2
  rw [List.length_take]; omega

/-! ### prefix tests -/

theorem isPrefixOfB_append {p x : Bytes} (y : Bytes) (h : isPrefixOfB p x = true) : isPrefixOfB p (x ++ y) = true := by
  induction p generalizing x with
  | nil => simp [isPrefixOfB]
  | cons a as ih =>
    cases x with
    | nil => simp [isPrefixOfB] at h
    | cons b bs =>
      simp only [isPrefixOfB, Bool.and_eq_true, List.cons_append] at h ⊢
      exact ⟨h.1, ih h.2⟩

theorem isPrefixOfB_append_false {p x y : Bytes} (h : isPrefixOfB p (x ++ y) = false) : isPrefixOfB p x = false := by
  cases h' : isPrefixOfB p x with
  | false => rfl
  | true => rw [isPrefixOfB_append y h'] at h; cases h

/-- a two-byte prefix test on `a ++ rest`, `a ≠ []`: either it already holds on `a`, or `a` is the
    first byte alone and `rest` starts with the second -/
theorem isPrefixOfB_two_append {x y : UInt8} {a rest : Bytes} (ha : a ≠ [])
    (h : isPrefixOfB [x, y] (a ++ rest) = true) :
    isPrefixOfB [x, y] a = true ∨ (a = [x] ∧ rest.head? = some y) := by
  cases a with
  | nil => exact absurd rfl ha
  | cons b bs =>
    cases bs with
    | nil =>
      cases rest with
      | nil => simp [isPrefixOfB] at h
      | cons c cs =>
        simp [isPrefixOfB] at h
        right
        exact ⟨by rw [h.1], by simp [h.2]⟩
    | cons c cs =>
      left
      simpa [isPrefixOfB] using h

/-! ### delimiters -/

/-- the bytes that may follow a token: blank, tab, CR, LF and the punctuation bytes -/
def isDelimByte (b : UInt8) : Bool :=
  b == 32 || b == 9 || b == 13 || b == 10 || b == 40 || b == 41 || b == 91 || b == 93 || b == 123 || b == 125 || b == 44

/-- the rest of the input is empty or starts with a delimiter byte -/
def DelimStart (r : Bytes) : Prop := ∀ b ∈ r.head?, isDelimByte b = true

theorem delimStart_nil : DelimStart [] := by intro b h; simp at h

theorem delimStart_cons {b : UInt8} {t : Bytes} (h : isDelimByte b = true) : DelimStart (b :: t) := by
  intro c hc; simp at hc; subst hc; exact h

theorem isDelimByte_cases {b : UInt8} (h : isDelimByte b = true) :
    b = 32 ∨ b = 9 ∨ b = 13 ∨ b = 10 ∨ b = 40 ∨ b = 41 ∨ b = 91 ∨ b = 93 ∨ b = 123 ∨ b = 125 ∨ b = 44 := by
  simpa [isDelimByte, or_assoc] using h

theorem DelimStart.ascii {r : Bytes} (h : DelimStart r) : AsciiStart r := by
  intro b hb
  have := isDelimByte_cases (h b hb)
  rcases this with h | h | h | h | h | h | h | h | h | h | h <;> subst h <;> decide

/-- at a delimiter (or the end of input) no identifier rune is seen -/
theorem DelimStart.not_ident {i : Input} (h : DelimStart i.remaining) : isIdent i.peekRune = false := by
  unfold Input.peekRune
  cases hr : i.remaining with
  | nil => exact isIdent_zero
  | cons b t =>
    rw [hr] at h
    have hb := isDelimByte_cases (h b (by simp))
    have hlt : b.toNat < 0x80 := by
      rcases hb with h | h | h | h | h | h | h | h | h | h | h <;> subst h <;> decide
    simp only [decodeRune_ascii b t hlt]
    rcases hb with h | h | h | h | h | h | h | h | h | h | h <;> subst h <;> decide

theorem DelimStart.head_ne {r : Bytes} (h : DelimStart r) {y : UInt8} (hy : isDelimByte y = false) :
    r.head? ≠ some y := by
  intro hh
  have := h y (by rw [hh]; simp)
  rw [hy] at this; cases this

/-! ### identifiers -/

/-- The bytes of an identifier, decoded on their own: every rune is an identifier rune and no `//` or
    `/*` starts at a rune boundary. -/
inductive IdentBody : Bytes → Prop
  | nil : IdentBody []
  | cons {a : Bytes} (hne : a ≠ []) (hid : isIdent (Utf8.decodeRune a).1 = true)
      (h1 : isPrefixOfB [47, 47] a = false) (h2 : isPrefixOfB [47, 42] a = false)
      (hrest : IdentBody (a.drop (Utf8.decodeRune a).2)) : IdentBody a

/-- `readIdent` emits an identifier body (possibly empty). -/
theorem readIdent_emits : ∀ (fuel : Nat) (i i' : Input), readIdent fuel i = .ok i' →
    ∃ a, Adv i i' a ∧ IdentBody a ∧ (a ≠ [] → Utf8.decodeRune a = Utf8.decodeRune i.remaining) := by
  intro fuel
  induction fuel with
  | zero => intro i i' h; simp [readIdent] at h
  | succ n ih =>
    intro i i' h
    unfold readIdent at h
    split at h
    · rename_i hid
      split at h
      · cases h; exact ⟨[], Adv.refl _, .nil, fun h => absurd rfl h⟩
      · rename_i hp1
        split at h
        · cases h
        · rename_i hp2
          cases h1 : readRune i with
          | error e => simp [h1, bind, Except.bind] at h
          | ok v =>
            obtain ⟨r, i1⟩ := v
            simp only [h1, bind, Except.bind] at h
            obtain ⟨hne, _, hadv, hrem⟩ := readRune_inv h1
            obtain ⟨a', hadv', hb', _⟩ := ih i1 i' h
            refine ⟨_, hadv.trans hadv', ?_⟩
            -- the token so far, `seg ++ a'`, in front of the rest of the input
            have hsplit : i.remaining = (i.remaining.take (Utf8.decodeRune i.remaining).2 ++ a') ++ i'.remaining := by
              rw [List.append_assoc, ← hadv'.rem, hrem, List.take_append_drop]
            have hlen := take_length_decodeRune i.remaining hne
            have hsegne : i.remaining.take (Utf8.decodeRune i.remaining).2 ++ a' ≠ [] := by
              intro hh
              have := congrArg List.length hh
              have hw := (decodeRune_width i.remaining hne).1
              simp only [List.length_append, List.length_nil] at this
              omega
            have hdec : Utf8.decodeRune (i.remaining.take (Utf8.decodeRune i.remaining).2 ++ a') =
                Utf8.decodeRune i.remaining := by
              have := decodeRune_ctx_nil _ i'.remaining hsegne (by
                rw [← hsplit]; simp only [List.length_append]; omega)
              rw [this, ← hsplit]
            have hpk := peekRune_eq hne
            refine ⟨.cons hsegne ?_ ?_ ?_ ?_, fun _ => hdec⟩
            · rw [hdec, ← hpk]; exact hid
            · apply isPrefixOfB_append_false (y := i'.remaining)
              rw [← hsplit]
              simpa [Input.peekPrefix] using hp1
            · apply isPrefixOfB_append_false (y := i'.remaining)
              rw [← hsplit]
              simpa [Input.peekPrefix] using hp2
            · rw [hdec, List.drop_append, List.drop_of_length_le (by omega), hlen]
              simpa using hb'
    · cases h; exact ⟨[], Adv.refl _, .nil, fun h => absurd rfl h⟩

/-- `readIdent` re-reads an identifier body that is followed by a delimiter. -/
theorem readIdent_relex {a : Bytes} (hb : IdentBody a) : ∀ (rest : Bytes), DelimStart rest →
    ∀ (fuel : Nat) (i : Input), i.remaining = a ++ rest → a.length < fuel →
    ∃ i', readIdent fuel i = .ok i' ∧ Adv i i' a := by
  induction hb with
  | nil =>
    intro rest hd fuel i hi hf
    obtain ⟨n, rfl⟩ : ∃ n, fuel = n + 1 := ⟨fuel - 1, by omega⟩
    unfold readIdent
    have : isIdent i.peekRune = false := DelimStart.not_ident (by simpa [hi] using hd)
    simp only [this, Bool.false_eq_true, if_false]
    exact ⟨i, rfl, Adv.refl _⟩
  | @cons a hne hid h1 h2 _ ih =>
    intro rest hd fuel i hi hf
    obtain ⟨n, rfl⟩ : ∃ n, fuel = n + 1 := ⟨fuel - 1, by omega⟩
    have hrne : i.remaining ≠ [] := by rw [hi]; simp [hne]
    have hdec : Utf8.decodeRune i.remaining = Utf8.decodeRune a := by
      rw [hi]; exact decodeRune_append a rest hne hd.ascii
    have hw := decodeRune_width a hne
    unfold readIdent
    rw [peekRune_eq hrne, hdec, hid]
    simp only [if_true]
    have hp1 : i.peekPrefix [47, 47] = false := by
      unfold Input.peekPrefix
      cases hh : isPrefixOfB [47, 47] i.remaining with
      | false => rfl
      | true =>
        rw [hi] at hh
        rcases isPrefixOfB_two_append hne hh with h | ⟨_, h⟩
        · rw [h] at h1; cases h1
        · exact absurd h (hd.head_ne (by decide))
    have hp2 : i.peekPrefix [47, 42] = false := by
      unfold Input.peekPrefix
      cases hh : isPrefixOfB [47, 42] i.remaining with
      | false => rfl
      | true =>
        rw [hi] at hh
        rcases isPrefixOfB_two_append hne hh with h | ⟨_, h⟩
        · rw [h] at h2; cases h2
        · exact absurd h (hd.head_ne (by decide))
    simp only [hp1, hp2, Bool.false_eq_true, if_false]
    obtain ⟨i1, hr1, hadv1, hrem1⟩ := readRune_adv i hrne
    rw [hdec] at hr1 hadv1 hrem1
    have htake : i.remaining.take (Utf8.decodeRune a).2 = a.take (Utf8.decodeRune a).2 := by
      rw [hi, List.take_append_of_le_length hw.2]
    have hrem1' : i1.remaining = a.drop (Utf8.decodeRune a).2 ++ rest := by
      rw [hrem1, hi, List.drop_append_of_le_length hw.2]
    obtain ⟨i', hr', hadv'⟩ := ih rest hd n i1 hrem1' (by simp only [List.length_drop]; omega)
    refine ⟨i', by simp [hr1, bind, Except.bind, hr'], ?_⟩
    have := hadv1.trans hadv'
    rwa [htake, List.take_append_drop] at this

/-! ### quoted strings -/

/-- The bytes of a quoted string after the opening quote, decoded on their own, as `readString`
    consumes them: up to and including the closing quote; a backslash (not in a raw string) escapes the
    next rune; no newline. -/
inductive StrBody (q : Nat) : Bytes → Prop
  | close {a : Bytes} (hne : a ≠ []) (hnl : (Utf8.decodeRune a).1 ≠ 10) (hq : (Utf8.decodeRune a).1 = q)
      (hend : a.drop (Utf8.decodeRune a).2 = []) : StrBody q a
  | esc {a : Bytes} (hne : a ≠ []) (hnl : (Utf8.decodeRune a).1 ≠ 10) (hq : (Utf8.decodeRune a).1 ≠ q)
      (hbs : (Utf8.decodeRune a).1 = 92) (hraw : q ≠ 96)
      (hne2 : a.drop (Utf8.decodeRune a).2 ≠ [])
      (hrest : StrBody q ((a.drop (Utf8.decodeRune a).2).drop (Utf8.decodeRune (a.drop (Utf8.decodeRune a).2)).2)) :
      StrBody q a
  | other {a : Bytes} (hne : a ≠ []) (hnl : (Utf8.decodeRune a).1 ≠ 10) (hq : (Utf8.decodeRune a).1 ≠ q)
      (hno : ¬ ((Utf8.decodeRune a).1 = 92 ∧ q ≠ 96))
      (hrest : StrBody q (a.drop (Utf8.decodeRune a).2)) : StrBody q a

theorem StrBody.ne_nil {q : Nat} {a : Bytes} (h : StrBody q a) : a ≠ [] := by
  cases h <;> assumption

/-- one `readRune` step seen from the token: if the input is `i.remaining` and the rest of the token
    after this rune is `a'` followed by `r`, then decoding `seg ++ a'` alone agrees with the source -/
theorem decode_seg {s a' r : Bytes} (hs : s ≠ [])
    (hsplit : s = (s.take (Utf8.decodeRune s).2 ++ a') ++ r) :
    Utf8.decodeRune (s.take (Utf8.decodeRune s).2 ++ a') = Utf8.decodeRune s ∧
    (s.take (Utf8.decodeRune s).2 ++ a').drop (Utf8.decodeRune s).2 = a' ∧
    s.take (Utf8.decodeRune s).2 ++ a' ≠ [] := by
  have hlen := take_length_decodeRune s hs
  have hw := (decodeRune_width s hs).1
  have hsegne : s.take (Utf8.decodeRune s).2 ++ a' ≠ [] := by
    intro hh
    have := congrArg List.length hh
    simp only [List.length_append, List.length_nil] at this
    omega
  refine ⟨?_, ?_, hsegne⟩
  · have := decodeRune_ctx_nil _ r hsegne (by
      rw [← hsplit]; simp only [List.length_append]; omega)
    rw [this, ← hsplit]
  · rw [List.drop_append, List.drop_of_length_le (by omega), hlen]
    simp

/-- `readString` emits a string body. -/
theorem readString_emits (q : Nat) : ∀ (fuel : Nat) (i i' : Input), readString q fuel i = .ok i' →
    ∃ a, Adv i i' a ∧ StrBody q a := by
  intro fuel
  induction fuel with
  | zero => intro i i' h; simp [readString] at h
  | succ n ih =>
    intro i i' h
    unfold readString at h
    split at h
    · cases h
    · rename_i heof
      have hne : i.remaining ≠ [] := (eof_false_iff i).1 (by simpa using heof)
      split at h
      · cases h
      · rename_i hnl
        obtain ⟨i1, hr1, hadv1, hrem1⟩ := readRune_adv i hne
        simp only [hr1, bind, Except.bind] at h
        have hpk := peekRune_eq hne
        have hnl' : (Utf8.decodeRune i.remaining).1 ≠ 10 := by
          rw [← hpk]; simpa using hnl
        split at h
        · -- closing quote
          rename_i hq
          have hi' : i' = i1 := by cases h; rfl
          refine ⟨_, hi' ▸ hadv1, ?_⟩
          have hsplit : i.remaining = (i.remaining.take (Utf8.decodeRune i.remaining).2 ++ []) ++ i1.remaining := by
            rw [List.append_nil, hrem1, List.take_append_drop]
          obtain ⟨hdec, hdrop, hsegne⟩ := decode_seg hne hsplit
          simp only [List.append_nil] at hdec hdrop hsegne
          exact .close hsegne (by rw [hdec]; exact hnl') (by rw [hdec]; simpa using hq) (by rw [hdec]; exact hdrop)
        · rename_i hq
          split at h
          · -- backslash escape
            rename_i hbs
            split at h
            · cases h
            · rename_i heof1
              have hne1 : i1.remaining ≠ [] := (eof_false_iff i1).1 (by simpa using heof1)
              obtain ⟨i2, hr2, hadv2, hrem2⟩ := readRune_adv i1 hne1
              simp only [hr2] at h
              obtain ⟨a', hadv', hb'⟩ := ih i2 i' h
              refine ⟨_, (hadv1.trans hadv2).trans hadv', ?_⟩
              have hsplit1 : i1.remaining = (i1.remaining.take (Utf8.decodeRune i1.remaining).2 ++ a') ++ i'.remaining := by
                rw [List.append_assoc, ← hadv'.rem, hrem2, List.take_append_drop]
              obtain ⟨hdec1, hdrop1, hsegne1⟩ := decode_seg hne1 hsplit1
              have hsplit : i.remaining = (i.remaining.take (Utf8.decodeRune i.remaining).2 ++
                  (i1.remaining.take (Utf8.decodeRune i1.remaining).2 ++ a')) ++ i'.remaining := by
                rw [List.append_assoc, ← hsplit1, hrem1, List.take_append_drop]
              obtain ⟨hdec, hdrop, hsegne⟩ := decode_seg hne hsplit
              simp only [Bool.and_eq_true, beq_iff_eq, bne_iff_ne, ne_eq] at hbs
              rw [List.append_assoc]
              refine .esc hsegne (by rw [hdec]; exact hnl') (by rw [hdec]; simpa using hq) (by rw [hdec]; exact hbs.1)
                hbs.2 (by rw [hdec, hdrop]; exact hsegne1) ?_
              rw [hdec, hdrop, hdec1, hdrop1]
              exact hb'
          · rename_i hbs
            obtain ⟨a', hadv', hb'⟩ := ih i1 i' h
            refine ⟨_, hadv1.trans hadv', ?_⟩
            have hsplit : i.remaining = (i.remaining.take (Utf8.decodeRune i.remaining).2 ++ a') ++ i'.remaining := by
              rw [List.append_assoc, ← hadv'.rem, hrem1, List.take_append_drop]
            obtain ⟨hdec, hdrop, hsegne⟩ := decode_seg hne hsplit
            refine .other hsegne (by rw [hdec]; exact hnl') (by rw [hdec]; simpa using hq) ?_ (by rw [hdec, hdrop]; exact hb')
            rw [hdec]
            simpa using hbs

/-- one lexer step inside a token `a` that is followed by `rest` (empty or starting with an ASCII byte) -/
theorem step_in_token {a rest : Bytes} (ha : a ≠ []) (hd : AsciiStart rest) (i : Input) (hi : i.remaining = a ++ rest) :
    i.eof = false ∧ i.peekRune = (Utf8.decodeRune a).1 ∧
    ∃ i1, readRune i = .ok ((Utf8.decodeRune a).1, i1) ∧ Adv i i1 (a.take (Utf8.decodeRune a).2) ∧
      i1.remaining = a.drop (Utf8.decodeRune a).2 ++ rest := by
  have hrne : i.remaining ≠ [] := by rw [hi]; simp [ha]
  have hdec : Utf8.decodeRune i.remaining = Utf8.decodeRune a := by
    rw [hi]; exact decodeRune_append a rest ha hd
  have hw := decodeRune_width a ha
  refine ⟨(eof_false_iff i).2 hrne, by rw [peekRune_eq hrne, hdec], ?_⟩
  obtain ⟨i1, hr1, hadv1, hrem1⟩ := readRune_adv i hrne
  rw [hdec] at hr1 hadv1 hrem1
  refine ⟨i1, hr1, ?_, ?_⟩
  · rwa [hi, List.take_append_of_le_length hw.2] at hadv1
  · rw [hrem1, hi, List.drop_append_of_le_length hw.2]

/-- `readString` re-reads a string body whatever ASCII-started input follows it. -/
theorem readString_relex {q : Nat} {a : Bytes} (hb : StrBody q a) : ∀ (rest : Bytes), AsciiStart rest →
    ∀ (fuel : Nat) (i : Input), i.remaining = a ++ rest → a.length < fuel →
    ∃ i', readString q fuel i = .ok i' ∧ Adv i i' a := by
  induction hb with
  | @close a hne hnl hq hend =>
    intro rest hd fuel i hi hf
    obtain ⟨n, rfl⟩ : ∃ n, fuel = n + 1 := ⟨fuel - 1, by omega⟩
    obtain ⟨heof, hpk, i1, hr1, hadv1, hrem1⟩ := step_in_token hne hd i hi
    unfold readString
    simp only [heof, Bool.false_eq_true, if_false, hpk]
    have : ((Utf8.decodeRune a).1 == 10) = false := by simpa using hnl
    simp only [this, Bool.false_eq_true, if_false, hr1, bind, Except.bind]
    simp only [hq, beq_self_eq_true, if_true]
    refine ⟨i1, rfl, ?_⟩
    have : a.take (Utf8.decodeRune a).2 = a := by
      have := List.take_append_drop (Utf8.decodeRune a).2 a
      rw [hend, List.append_nil] at this
      exact this
    rwa [this] at hadv1
  | @esc a hne hnl hq hbs hraw hne2 _ ih =>
    intro rest hd fuel i hi hf
    obtain ⟨n, rfl⟩ : ∃ n, fuel = n + 1 := ⟨fuel - 1, by omega⟩
    obtain ⟨heof, hpk, i1, hr1, hadv1, hrem1⟩ := step_in_token hne hd i hi
    obtain ⟨heof2, _, i2, hr2, hadv2, hrem2⟩ := step_in_token hne2 hd i1 hrem1
    have hw := decodeRune_width a hne
    have hw2 := decodeRune_width _ hne2
    obtain ⟨i', hr', hadv'⟩ := ih rest hd n i2 hrem2 (by
      simp only [List.length_drop] at hw2 ⊢; omega)
    unfold readString
    simp only [heof, Bool.false_eq_true, if_false, hpk]
    have h10 : ((Utf8.decodeRune a).1 == 10) = false := by simpa using hnl
    have hqq : ((Utf8.decodeRune a).1 == q) = false := by simpa using hq
    have hb : ((Utf8.decodeRune a).1 == 92 && q != 96) = true := by simp [hbs, hraw]
    simp only [h10, Bool.false_eq_true, if_false, hr1, bind, Except.bind, hqq, hb, if_true, heof2, hr2, hr']
    refine ⟨i', rfl, ?_⟩
    have := (hadv1.trans hadv2).trans hadv'
    rwa [List.append_assoc, List.take_append_drop, List.take_append_drop] at this
  | @other a hne hnl hq hno _ ih =>
    intro rest hd fuel i hi hf
    obtain ⟨n, rfl⟩ : ∃ n, fuel = n + 1 := ⟨fuel - 1, by omega⟩
    obtain ⟨heof, hpk, i1, hr1, hadv1, hrem1⟩ := step_in_token hne hd i hi
    have hw := decodeRune_width a hne
    obtain ⟨i', hr', hadv'⟩ := ih rest hd n i1 hrem1 (by simp only [List.length_drop]; omega)
    unfold readString
    simp only [heof, Bool.false_eq_true, if_false, hpk]
    have h10 : ((Utf8.decodeRune a).1 == 10) = false := by simpa using hnl
    have hqq : ((Utf8.decodeRune a).1 == q) = false := by simpa using hq
    have hb : ((Utf8.decodeRune a).1 == 92 && q != 96) = false := by
      cases hh : ((Utf8.decodeRune a).1 == 92 && q != 96) with
      | false => rfl
      | true => exact absurd (by simpa using hh) hno
    simp only [h10, Bool.false_eq_true, if_false, hr1, bind, Except.bind, hqq, hb, hr']
    refine ⟨i', rfl, ?_⟩
    have := hadv1.trans hadv'
    rwa [List.take_append_drop] at this

end ModVerif.Proofs.ModfileFmtTok
