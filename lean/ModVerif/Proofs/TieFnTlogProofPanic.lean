/-
  Tie helpers: the model's tree / proof recursions fail only with `panic` (a Go panic site) or the model's `fuel`
  error — never with `invalid`, `reader`, `proofFailed` (needed to render model errors as Go results unambiguously).
-/
import ModVerif.Model.Tlog
import ModVerif.Proofs.GoRtLemmasList
namespace ModVerif.Tie.FnTlogProof
open ModVerif ModVerif.GoRt ModVerif.GoRtList

/-- a model computation whose only errors are the Go panic sites (and the model's fuel error) -/
def PanicOnly {α : Type} (x : Except Tlog.Err α) : Prop := ∀ e, x = .error e → e = .panic ∨ e = .fuel

theorem PanicOnly.ok {α : Type} (a : α) : PanicOnly (.ok a : Except Tlog.Err α) := by
  intro e h; cases h
theorem PanicOnly.panic {α : Type} : PanicOnly (.error .panic : Except Tlog.Err α) := by
  intro e h; cases h; exact Or.inl rfl
theorem PanicOnly.fuel {α : Type} : PanicOnly (.error .fuel : Except Tlog.Err α) := by
  intro e h; cases h; exact Or.inr rfl
theorem PanicOnly.bind {α β : Type} {x : Except Tlog.Err α} {f : α → Except Tlog.Err β}
    (hx : PanicOnly x) (hf : ∀ a, PanicOnly (f a)) : PanicOnly (x >>= f) := by
  cases x with
  | error e => intro e' h; rw [error_bind] at h; cases h; exact hx e rfl
  | ok a => rw [ok_bind]; exact hf a

theorem subTreeIndexF_panicOnly : ∀ f lo hi, PanicOnly (Tlog.subTreeIndexF f lo hi) := by
  intro f
  induction f with
  | zero => intro lo hi; unfold Tlog.subTreeIndexF; split; exact .fuel; exact .ok _
  | succ f ih =>
    intro lo hi
    unfold Tlog.subTreeIndexF
    split
    · simp only []
      split
      · exact .panic
      · exact .bind (ih _ _) (fun _ => .ok _)
    · exact .ok _

theorem numTreeF_panicOnly : ∀ f lo hi, PanicOnly (Tlog.numTreeF f lo hi) := by
  intro f
  induction f with
  | zero => intro lo hi; unfold Tlog.numTreeF; split; exact .fuel; exact .ok _
  | succ f ih =>
    intro lo hi
    unfold Tlog.numTreeF
    split
    · simp only []
      split
      · exact .panic
      · exact .bind (ih _ _) (fun _ => .ok _)
    · exact .ok _

theorem subTreeHash_panicOnly {H : Type} (node : H → H → H) (lo hi : Nat) (hashes : List H) :
    PanicOnly (Tlog.subTreeHash node lo hi hashes) := by
  unfold Tlog.subTreeHash
  refine .bind (numTreeF_panicOnly _ _ _) (fun c => ?_)
  split
  · exact .panic
  · split
    · exact .panic
    · exact .ok _

theorem subTreeIndex_panicOnly (lo hi : Nat) : PanicOnly (Tlog.subTreeIndex lo hi) := subTreeIndexF_panicOnly _ _ _

theorem leafProofIndexF_panicOnly : ∀ f lo hi n, PanicOnly (Tlog.leafProofIndexF f lo hi n) := by
  intro f
  induction f with
  | zero => intro lo hi n; exact .fuel
  | succ f ih =>
    intro lo hi n
    unfold Tlog.leafProofIndexF
    split
    · exact .panic
    · split
      · exact .ok _
      · simp only []
        split
        · exact .bind (ih _ _ _) (fun _ => .bind (subTreeIndex_panicOnly _ _) (fun _ => .ok _))
        · exact .bind (subTreeIndex_panicOnly _ _) (fun _ => .bind (ih _ _ _) (fun _ => .ok _))

theorem treeProofIndexF_panicOnly : ∀ f lo hi n, PanicOnly (Tlog.treeProofIndexF f lo hi n) := by
  intro f
  induction f with
  | zero => intro lo hi n; exact .fuel
  | succ f ih =>
    intro lo hi n
    unfold Tlog.treeProofIndexF
    split
    · exact .panic
    · split
      · split
        · exact .ok _
        · exact subTreeIndex_panicOnly _ _
      · simp only []
        split
        · exact .bind (ih _ _ _) (fun _ => .bind (subTreeIndex_panicOnly _ _) (fun _ => .ok _))
        · exact .bind (subTreeIndex_panicOnly _ _) (fun _ => .bind (ih _ _ _) (fun _ => .ok _))

theorem leafProofF_panicOnly {H : Type} (node : H → H → H) : ∀ f lo hi n (hashes : List H),
    PanicOnly (Tlog.leafProofF node f lo hi n hashes) := by
  intro f
  induction f with
  | zero => intro lo hi n hashes; exact .fuel
  | succ f ih =>
    intro lo hi n hashes
    unfold Tlog.leafProofF
    split
    · exact .panic
    · split
      · exact .ok _
      · simp only []
        split
        · exact .bind (ih _ _ _ _) (fun _ => .bind (subTreeHash_panicOnly _ _ _ _) (fun _ => .ok _))
        · exact .bind (subTreeHash_panicOnly _ _ _ _) (fun _ => .bind (ih _ _ _ _) (fun _ => .ok _))

theorem treeProofF_panicOnly {H : Type} (node : H → H → H) : ∀ f lo hi n (hashes : List H),
    PanicOnly (Tlog.treeProofF node f lo hi n hashes) := by
  intro f
  induction f with
  | zero => intro lo hi n hashes; exact .fuel
  | succ f ih =>
    intro lo hi n hashes
    unfold Tlog.treeProofF
    split
    · exact .panic
    · split
      · split
        · exact .ok _
        · exact .bind (subTreeHash_panicOnly _ _ _ _) (fun _ => .ok _)
      · simp only []
        split
        · exact .bind (ih _ _ _ _) (fun _ => .bind (subTreeHash_panicOnly _ _ _ _) (fun _ => .ok _))
        · exact .bind (subTreeHash_panicOnly _ _ _ _) (fun _ => .bind (ih _ _ _ _) (fun _ => .ok _))

end ModVerif.Tie.FnTlogProof
