/-
  EditStartFix, part E — the harness fixer `Modfile.fixStub` never answers the empty version (`FixerOK fixStub`), so the
  start-state theorems with a fixer apply to it directly (no `guardFixer`).
-/
import ModVerif.Proofs.EditStartFixRun
import ModVerif.Proofs.ModfileFmtFixVersion
namespace ModVerif.Modfile.Edit.SFix
open ModVerif ModVerif.Modfile ModVerif.Modfile.Edit

theorem byteArray_toList_loop_length (bs : ByteArray) (i : Nat) (r : List UInt8) :
    (ByteArray.toList.loop bs i r).length = r.length + (bs.size - i) := by
  fun_induction ByteArray.toList.loop bs i r with
  | case1 i r h ih => rw [ih]; simp; omega
  | case2 i r h => simp; omega

theorem byteArray_toList_length (bs : ByteArray) : bs.toList.length = bs.size := by
  simp [ByteArray.toList, byteArray_toList_loop_length]

/-- the byte string of a Lean string has `utf8ByteSize` bytes -/
theorem B_length (s : String) : (B s).length = s.utf8ByteSize := by
  simp [B, Bytes.ofString, byteArray_toList_length]

/-- the bytes of `a ++ b` are not empty when `a` is not -/
theorem B_append_ne_nil (a b : String) (ha : 0 < a.utf8ByteSize) : B (a ++ b) ≠ [] := by
  intro h
  have := B_length (a ++ b)
  rw [h, String.utf8ByteSize_append] at this
  simp at this
  omega

/-- **the harness fixer never answers the empty version** -/
theorem fixerOK_fixStub : FixerOK Modfile.fixStub := by
  intro p v r h
  unfold Modfile.fixStub at h
  split at h
  · cases h
  split at h
  · cases h
  split at h
  · rename_i hv
    cases h
    exact (ModVerif.Proofs.ModfileFmtFix.canonicalVersion_ne_nil_iff v).2 hv
  split at h
  · cases h; decide +kernel
  split at h
  · cases h; decide +kernel
  split at h
  · cases h
    rw [String.append_assoc]
    exact B_append_ne_nil _ _ (by decide)
  · cases h

end ModVerif.Modfile.Edit.SFix
