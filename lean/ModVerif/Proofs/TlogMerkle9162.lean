/-
  C03: the iterative verification algorithms of RFC 9162 §2.1.3.2 / §2.1.4.2 (`RFC6962.verifyInclusion`,
  `RFC6962.verifyConsistency`) accept exactly the tuples accepted by root recomputation along the
  RFC 6962 recursion (`AcceptIncl`, `AcceptCons`).  Specification level only.

  Method: a forward simulation, by induction over the top-down recursion, of the bottom-up loop on the
  proof prefix that belongs to a subtree embedded in a larger tree (`a`, `b` = the bits of fn / sn above
  the subtree): for a COMPLETE subtree with `a < b` the loop leaves `(a, b)` (`incl_complete`); for a
  subtree on the right spine (`a = b = c`) it leaves `(c·2^e, c·2^e)` for some `e` (`incl_spine`), and
  the next step (left sibling, then "shift until odd") does not depend on `e` (`inclLoop_spine_step`).
-/
import ModVerif.Spec.RFC6962
import ModVerif.Proofs.TlogMerkleSpec
namespace ModVerif.RFC6962

/-! ### arithmetic helpers -/

theorem splitPoint_two_pow (M : Nat) : splitPoint (2 ^ (M + 1)) = 2 ^ M := by
  unfold splitPoint
  congr 1
  have hpos := Nat.two_pow_pos M
  have hne : 2 ^ (M + 1) - 1 ≠ 0 := by rw [Nat.pow_succ]; omega
  have a : M ≤ (2 ^ (M + 1) - 1).log2 := (Nat.le_log2 hne).mpr (by rw [Nat.pow_succ]; omega)
  have b : (2 ^ (M + 1) - 1).log2 < M + 1 := (Nat.log2_lt hne).mpr (by omega)
  omega

/-- for `2 ≤ t ≤ 2^m` the split point is `2^j` with `j < m`, and `2^m = 2 · 2^d · 2^j` -/
theorem splitPoint_pow_split (t m : Nat) (h2 : 2 ≤ t) (hm : t ≤ 2 ^ m) :
    ∃ j d, splitPoint t = 2 ^ j ∧ 2 ^ m = 2 * (2 ^ d * 2 ^ j) := by
  have hs := splitPoint_spec t h2
  refine ⟨(t - 1).log2, m - (t - 1).log2 - 1, rfl, ?_⟩
  have hlt : (t - 1).log2 < m := by
    have : 2 ^ (t - 1).log2 < 2 ^ m := by unfold splitPoint at hs; omega
    exact (Nat.pow_lt_pow_iff_right (by omega : 1 < 2)).mp this
  have : m = (m - (t - 1).log2 - 1) + (t - 1).log2 + 1 := by omega
  conv => lhs; rw [this]
  rw [Nat.pow_succ, Nat.pow_add]; omega

theorem shiftUntil_odd_pow : ∀ e f o, o % 2 = 1 → e ≤ f → shiftUntil f (o * 2 ^ e) (o * 2 ^ e) = (o, o) := by
  intro e
  induction e with
  | zero =>
    intro f o ho _
    cases f with
    | zero => simp [shiftUntil]
    | succ f => simp [shiftUntil, ho]
  | succ e ih =>
    intro f o ho hf
    cases f with
    | zero => omega
    | succ f =>
      have hpos := Nat.two_pow_pos e
      have h1 : o * 2 ^ (e + 1) = 2 * (o * 2 ^ e) := by rw [Nat.pow_succ]; ac_rfl
      have hne : o * 2 ^ e ≠ 0 := Nat.ne_of_gt (Nat.mul_pos (by omega) hpos)
      rw [h1]
      unfold shiftUntil
      have hc : ¬ ((2 * (o * 2 ^ e)) % 2 = 1 ∨ 2 * (o * 2 ^ e) = 0) := by omega
      rw [if_neg hc]
      have : 2 * (o * 2 ^ e) / 2 = o * 2 ^ e := by omega
      rw [this]
      exact ih f o ho (by omega)

section
variable {H : Type} [DecidableEq H] (node : H → H → H)

/-! ### inclusion -/

/-- one loop step on the right spine: at `(o·2^e, o·2^e)` with `o` odd the next proof hash is a left sibling and
    the state becomes `(o/2, o/2)`, whatever `e` is -/
theorem inclLoop_spine_step (q : H) (qs : List H) (o e : Nat) (r : H) (ho : o % 2 = 1) :
    inclLoop node (q :: qs) (o * 2 ^ e) (o * 2 ^ e) r = inclLoop node qs (o / 2) (o / 2) (node q r) := by
  have hpos := Nat.two_pow_pos e
  have hne : o * 2 ^ e ≠ 0 := Nat.ne_of_gt (Nat.mul_pos (by omega) hpos)
  conv => lhs; rw [inclLoop]
  rw [if_neg hne, if_pos (Or.inr rfl)]
  by_cases hev : (o * 2 ^ e) % 2 = 0
  · rw [if_pos hev, shiftUntil_odd_pow e _ o ho (Nat.le_of_lt (Nat.lt_of_lt_of_le Nat.lt_two_pow_self
      (Nat.le_mul_of_pos_left _ (by omega))))]
  · rw [if_neg hev]
    cases e with
    | zero => simp
    | succ e => exfalso; apply hev; rw [Nat.pow_succ, ← Nat.mul_assoc]; omega

/-- complete subtree of size `2^M`, embedded with `a < b`: the loop consumes exactly its part of the proof, takes
    `M` single steps directed by the bits of `n`, and leaves `(a, b)` -/
theorem incl_complete : ∀ M f (p1 : List H) n h r1 a b s0 rest, 2 ^ M ≤ f → n < 2 ^ M → s0 < 2 ^ M → a < b →
    inclRootF node f p1 (2 ^ M) n h = some r1 →
    inclLoop node (p1 ++ rest) (n + a * 2 ^ M) (s0 + b * 2 ^ M) h = inclLoop node rest a b r1 := by
  intro M
  induction M with
  | zero =>
    intro f p1 n h r1 a b s0 rest hf hn hs0 hab hacc
    cases f with
    | zero => simp at hf
    | succ f =>
      unfold inclRootF at hacc
      simp only [Nat.pow_zero, Nat.le_refl, ↓reduceIte] at hacc
      cases p1 with
      | nil =>
        simp at hacc
        have : n = 0 := by simpa using hn
        have : s0 = 0 := by simpa using hs0
        subst_vars
        simp
      | cons x xs => simp at hacc
  | succ M ih =>
    intro f p1 n h r1 a b s0 rest hf hn hs0 hab hacc
    have hK := Nat.two_pow_pos M
    have hpow : 2 ^ (M + 1) = 2 * 2 ^ M := by rw [Nat.pow_succ]; omega
    cases f with
    | zero => omega
    | succ f =>
      unfold inclRootF at hacc
      rw [if_neg (by omega)] at hacc
      cases hp : p1.getLast? with
      | none => rw [hp] at hacc; cases hacc
      | some last =>
        rw [hp] at hacc
        simp only [splitPoint_two_pow] at hacc
        obtain ⟨ys, rfl⟩ := List.getLast?_eq_some_iff.mp hp
        simp only [List.dropLast_concat] at hacc
        -- the bit of s0 at position M
        obtain ⟨β, s0', hβ, hs0', hs0eq⟩ : ∃ β s0', β ≤ 1 ∧ s0' < 2 ^ M ∧ s0 = s0' + β * 2 ^ M := by
          by_cases hlt : s0 < 2 ^ M
          · exact ⟨0, s0, by omega, hlt, by omega⟩
          · exact ⟨1, s0 - 2 ^ M, by omega, by omega, by omega⟩
        have hsn : s0 + b * 2 ^ (M + 1) = s0' + (2 * b + β) * 2 ^ M := by
          have e2 : b * 2 ^ (M + 1) = (2 * b) * 2 ^ M := by rw [Nat.pow_succ]; ac_rfl
          rw [hs0eq, e2, Nat.add_mul]; omega
        by_cases hk : n < 2 ^ M
        · rw [if_pos hk] at hacc
          cases hr : inclRootF node f ys (2 ^ M) n h with
          | none => rw [hr] at hacc; cases hacc
          | some r0 =>
            rw [hr] at hacc
            have hr1 : r1 = node r0 last := by simpa using hacc.symm
            have hfn : n + a * 2 ^ (M + 1) = n + (2 * a) * 2 ^ M := by
              have e1 : a * 2 ^ (M + 1) = (2 * a) * 2 ^ M := by rw [Nat.pow_succ]; ac_rfl
              rw [e1]
            rw [List.append_assoc, hfn, hsn,
              ih f ys n h r0 (2 * a) (2 * b + β) s0' ([last] ++ rest) (by omega) hk hs0' (by omega) hr]
            show inclLoop node (last :: rest) (2 * a) (2 * b + β) r0 = _
            conv => lhs; rw [inclLoop]
            rw [if_neg (by omega), if_neg (by omega), hr1]
            congr 1 <;> omega
        · rw [if_neg hk] at hacc
          have hsz : 2 ^ (M + 1) - 2 ^ M = 2 ^ M := by omega
          rw [hsz] at hacc
          cases hr : inclRootF node f ys (2 ^ M) (n - 2 ^ M) h with
          | none => rw [hr] at hacc; cases hacc
          | some r0 =>
            rw [hr] at hacc
            have hr1 : r1 = node last r0 := by simpa using hacc.symm
            have hfn : n + a * 2 ^ (M + 1) = (n - 2 ^ M) + (2 * a + 1) * 2 ^ M := by
              have e1 : a * 2 ^ (M + 1) = (2 * a) * 2 ^ M := by rw [Nat.pow_succ]; ac_rfl
              rw [e1, Nat.add_mul]; omega
            rw [List.append_assoc, hfn, hsn,
              ih f ys (n - 2 ^ M) h r0 (2 * a + 1) (2 * b + β) s0' ([last] ++ rest) (by omega) (by omega) hs0'
                (by omega) hr]
            show inclLoop node (last :: rest) (2 * a + 1) (2 * b + β) r0 = _
            conv => lhs; rw [inclLoop]
            rw [if_neg (by omega), if_pos (Or.inl (by omega)), if_neg (by omega), hr1]
            show inclLoop node rest ((2 * a + 1) / 2) ((2 * b + β) / 2) (node last r0) = _
            have d1 : (2 * a + 1) / 2 = a := by omega
            have d2 : (2 * b + β) / 2 = b := by omega
            rw [d1, d2]

/-- subtree of size `t ≤ 2^m` on the right spine (`fn` and `sn` carry the same bits `c` above it): the loop consumes
    exactly its part of the proof and leaves `(c·2^e, c·2^e)` for some `e` -/
theorem incl_spine : ∀ f t (p1 : List H) n h r1 c m, t ≤ f → n < t → t ≤ 2 ^ m →
    inclRootF node f p1 t n h = some r1 →
    ∃ e, ∀ rest, inclLoop node (p1 ++ rest) (n + c * 2 ^ m) (t - 1 + c * 2 ^ m) h =
      inclLoop node rest (c * 2 ^ e) (c * 2 ^ e) r1 := by
  intro f
  induction f with
  | zero => intro t p1 n h r1 c m hf hn; omega
  | succ f ih =>
    intro t p1 n h r1 c m hf hn hm hacc
    unfold inclRootF at hacc
    by_cases ht : t ≤ 1
    · rw [if_pos ht] at hacc
      have ht1 : t = 1 := by omega
      have hn0 : n = 0 := by omega
      cases p1 with
      | nil =>
        simp at hacc
        subst ht1; subst hn0; subst hacc
        exact ⟨m, fun rest => by simp⟩
      | cons x xs => simp at hacc
    · rw [if_neg ht] at hacc
      have hs := splitPoint_spec t (by omega)
      obtain ⟨j, d, hj, hpm⟩ := splitPoint_pow_split t m (by omega) hm
      cases hp : p1.getLast? with
      | none => rw [hp] at hacc; cases hacc
      | some last =>
        rw [hp] at hacc
        obtain ⟨ys, rfl⟩ := List.getLast?_eq_some_iff.mp hp
        simp only [List.dropLast_concat] at hacc
        -- c·2^m = 2·(c·2^d)·2^j
        have hcm : c * 2 ^ m = (2 * (c * 2 ^ d)) * 2 ^ j := by rw [hpm]; ac_rfl
        by_cases hk : n < splitPoint t
        · rw [if_pos hk] at hacc
          cases hr : inclRootF node f ys (splitPoint t) n h with
          | none => rw [hr] at hacc; cases hacc
          | some r0 =>
            rw [hr] at hacc
            have hr1 : r1 = node r0 last := by simpa using hacc.symm
            refine ⟨d, fun rest => ?_⟩
            have hsn : t - 1 + c * 2 ^ m = (t - 1 - 2 ^ j) + (2 * (c * 2 ^ d) + 1) * 2 ^ j := by
              rw [hcm, Nat.add_mul]; omega
            have hfn : n + c * 2 ^ m = n + (2 * (c * 2 ^ d)) * 2 ^ j := by rw [hcm]
            rw [hj] at hr hk hs
            rw [List.append_assoc, hfn, hsn,
              incl_complete node j f ys n h r0 (2 * (c * 2 ^ d)) (2 * (c * 2 ^ d) + 1) (t - 1 - 2 ^ j) ([last] ++ rest)
                (by omega) hk (by omega) (by omega) hr]
            show inclLoop node (last :: rest) (2 * (c * 2 ^ d)) (2 * (c * 2 ^ d) + 1) r0 = _
            conv => lhs; rw [inclLoop]
            rw [if_neg (by omega), if_neg (by omega), hr1]
            have d1 : 2 * (c * 2 ^ d) / 2 = c * 2 ^ d := by omega
            have d2 : (2 * (c * 2 ^ d) + 1) / 2 = c * 2 ^ d := by omega
            rw [d1, d2]
        · rw [if_neg hk] at hacc
          cases hr : inclRootF node f ys (t - splitPoint t) (n - splitPoint t) h with
          | none => rw [hr] at hacc; cases hacc
          | some r0 =>
            rw [hr] at hacc
            have hr1 : r1 = node last r0 := by simpa using hacc.symm
            rw [hj] at hr hk hs
            obtain ⟨e', he'⟩ := ih (t - 2 ^ j) ys (n - 2 ^ j) h r0 (2 * (c * 2 ^ d) + 1) j (by omega) (by omega) (by omega) hr
            refine ⟨d, fun rest => ?_⟩
            have hfn : n + c * 2 ^ m = (n - 2 ^ j) + (2 * (c * 2 ^ d) + 1) * 2 ^ j := by
              rw [hcm, Nat.add_mul]; omega
            have hsn : t - 1 + c * 2 ^ m = (t - 2 ^ j - 1) + (2 * (c * 2 ^ d) + 1) * 2 ^ j := by
              rw [hcm, Nat.add_mul]; omega
            rw [List.append_assoc, hfn, hsn, he' ([last] ++ rest)]
            show inclLoop node (last :: rest) _ _ r0 = _
            rw [inclLoop_spine_step node last rest _ e' r0 (by omega), hr1]
            have d1 : (2 * (c * 2 ^ d) + 1) / 2 = c * 2 ^ d := by omega
            rw [d1]

/-- the number of hashes the recursion consumes -/
def inclLenF : Nat → Nat → Nat → Nat
  | 0, _, _ => 0
  | f + 1, t, n =>
    if t ≤ 1 then 0
    else if n < splitPoint t then inclLenF f (splitPoint t) n + 1
    else inclLenF f (t - splitPoint t) (n - splitPoint t) + 1

omit [DecidableEq H] in
theorem inclRootF_some_of_len : ∀ f (p : List H) t n h, t ≤ f → 1 ≤ t → p.length = inclLenF f t n →
    ∃ r, inclRootF node f p t n h = some r := by
  intro f
  induction f with
  | zero => intro p t n h hf ht; omega
  | succ f ih =>
    intro p t n h hf ht hlen
    unfold inclLenF at hlen
    unfold inclRootF
    by_cases h1 : t ≤ 1
    · rw [if_pos h1] at hlen
      rw [if_pos h1]
      have : p = [] := List.eq_nil_of_length_eq_zero hlen
      subst this
      exact ⟨h, rfl⟩
    · rw [if_neg h1] at hlen
      rw [if_neg h1]
      have hs := splitPoint_spec t (by omega)
      have hne : p ≠ [] := by
        intro hc; subst hc; split at hlen <;> simp at hlen
      obtain ⟨ys, last, rfl⟩ : ∃ ys last, p = ys ++ [last] :=
        ⟨p.dropLast, p.getLast hne, (List.dropLast_concat_getLast hne).symm⟩
      simp only [List.getLast?_append, List.getLast?_singleton, Option.some_or, List.dropLast_concat]
      simp only [List.length_append, List.length_singleton] at hlen
      by_cases hk : n < splitPoint t
      · rw [if_pos hk] at hlen
        rw [if_pos hk]
        obtain ⟨r, hr⟩ := ih ys (splitPoint t) n h (by omega) (by omega) (by omega)
        exact ⟨_, by rw [hr]; rfl⟩
      · rw [if_neg hk] at hlen
        rw [if_neg hk]
        obtain ⟨r, hr⟩ := ih ys (t - splitPoint t) (n - splitPoint t) h (by omega) (by omega) (by omega)
        exact ⟨_, by rw [hr]; rfl⟩

theorem inclLoop_append_none : ∀ (p : List H) fn sn r r' (ext : List H), inclLoop node p fn sn r = some (0, r') →
    ext ≠ [] → inclLoop node (p ++ ext) fn sn r = none := by
  intro p
  induction p with
  | nil =>
    intro fn sn r r' ext h hext
    simp only [inclLoop, Option.some.injEq, Prod.mk.injEq] at h
    cases ext with
    | nil => exact absurd rfl hext
    | cons x xs => simp [inclLoop, h.1]
  | cons q qs ih =>
    intro fn sn r r' ext h hext
    rw [List.cons_append]
    rw [inclLoop] at h ⊢
    split
    · rfl
    · rename_i hsn
      rw [if_neg hsn] at h
      split
      · rename_i hc
        rw [if_pos hc] at h
        exact ih _ _ _ r' ext h hext
      · rename_i hc
        rw [if_neg hc] at h
        exact ih _ _ _ r' ext h hext

/-- ★ RFC 9162 §2.1.3.2 accepts exactly the tuples accepted by root recomputation along the RFC 6962 recursion -/
theorem rfc9162_incl_equiv (p : List H) (t n : Nat) (h root : H) :
    verifyInclusion node p t n h root = true ↔ AcceptIncl node p t n h root := by
  unfold verifyInclusion AcceptIncl
  by_cases hn : n < t
  · have hge : ¬ n ≥ t := by omega
    rw [if_neg hge]
    have hpow : t ≤ 2 ^ t := Nat.le_of_lt Nat.lt_two_pow_self
    -- forward simulation from the top: c = 0
    have sim : ∀ p1 rest r1, inclRootF node t p1 t n h = some r1 →
        inclLoop node (p1 ++ rest) n (t - 1) h = inclLoop node rest 0 0 r1 := by
      intro p1 rest r1 hacc
      obtain ⟨e, he⟩ := incl_spine node t t p1 n h r1 0 t (Nat.le_refl _) hn hpow hacc
      have := he rest
      simpa using this
    constructor
    · intro hv
      refine ⟨hn, ?_⟩
      cases hl : inclLoop node p n (t - 1) h with
      | none => rw [hl] at hv; cases hv
      | some res =>
        obtain ⟨sn, r⟩ := res
        rw [hl] at hv
        simp only [decide_eq_true_eq] at hv
        obtain ⟨hsn, hr⟩ := hv
        subst hsn; subst hr
        rcases Nat.lt_trichotomy p.length (inclLenF t t n) with hlt | heq | hgt
        · -- too short: padding the proof would both succeed (simulation) and fail (`sn = 0` reached early)
          exfalso
          let ext := List.replicate (inclLenF t t n - p.length) h
          obtain ⟨r1, hr1⟩ := inclRootF_some_of_len node t (p ++ ext) t n h (Nat.le_refl _) (by omega)
            (by simp [ext]; omega)
          have h1 := sim (p ++ ext) [] r1 hr1
          rw [List.append_nil] at h1
          have h2 := inclLoop_append_none node p n (t - 1) h r ext hl
            (by intro hc; have := congrArg List.length hc; simp [ext] at this; omega)
          rw [h2] at h1
          simp [inclLoop] at h1
        · obtain ⟨r1, hr1⟩ := inclRootF_some_of_len node t p t n h (Nat.le_refl _) (by omega) heq
          have h1 := sim p [] r1 hr1
          rw [List.append_nil, hl] at h1
          simp only [inclLoop, Option.some.injEq, Prod.mk.injEq, true_and] at h1
          rw [hr1, h1]
        · -- too long: after the part the recursion consumes the loop is at sn = 0 with hashes left
          exfalso
          obtain ⟨r1, hr1⟩ := inclRootF_some_of_len node t (p.take (inclLenF t t n)) t n h (Nat.le_refl _) (by omega)
            (by rw [List.length_take]; omega)
          have h1 := sim (p.take (inclLenF t t n)) (p.drop (inclLenF t t n)) r1 hr1
          rw [List.take_append_drop, hl] at h1
          cases hd : p.drop (inclLenF t t n) with
          | nil => have := congrArg List.length hd; simp at this; omega
          | cons x xs => rw [hd] at h1; simp [inclLoop] at h1
    · rintro ⟨_, hacc⟩
      have h1 := sim p [] root hacc
      rw [List.append_nil] at h1
      rw [h1]
      simp [inclLoop]
  · have hge : n ≥ t := by omega
    rw [if_pos hge]
    constructor
    · intro hc; cases hc
    · rintro ⟨h1, _⟩; omega

end
end ModVerif.RFC6962
