/-
  ClientRefine, part 0 — vocabulary and frame lemmas for the refinement between the SEQUENTIAL client model
  (Model/Client.lean) and the two CONCURRENT machines (Model/ClientLatest.lean, Model/ParCache.lean); helper for
  Props/C14.lean.

  * `optB` / `unB`: the machine's messages are `Option Bytes` (`none` = the empty message, `len(msg) == 0`), the
    sequential model's are `Bytes`.
  * `CfgCell E name cfg`: the environment's configuration file `<name>/latest` behaves as ONE cell `cfg s` that only
    `WriteConfig` changes, by compare-and-swap (what the machine's `config` component is).  No other process writes it:
    this is the restriction to ONE client.
  * `Fr cfg w w'`: the frame of everything below `mergeLatestMem` (tile reads, tile cache, `SaveTiles`): the head, its
    message, the verifier list, the name, the record cache and the configuration cell are untouched and the trace grows by
    reads and cache writes only (`Quiet`).
  * `NoSecTile w`: no cached tile error is the security error (the tile cache only ever caches `ReadRemote` failures);
    under it `checkTrees` returns the security error exactly when it has called `SecurityError`.
-/
import ModVerif.Model.Client
namespace ModVerif.ClientRefine
open ModVerif ModVerif.Client ModVerif.Tile

set_option linter.unusedSectionVars false

/-- the machine's view of a message: the empty message is `none` -/
def optB (b : Bytes) : Option Bytes := if b.isEmpty then none else some b

/-- … and back -/
def unB : Option Bytes → Bytes
  | none => []
  | some b => b

theorem unB_optB (b : Bytes) : unB (optB b) = b := by
  cases b <;> simp [optB, unB]

theorem optB_nil : optB [] = none := rfl

theorem optB_none {b : Bytes} (h : optB b = none) : b = [] := by
  cases b <;> simp [optB] at h ⊢

theorem optB_some {b m : Bytes} (h : optB b = some m) : m = b ∧ b.isEmpty = false := by
  cases b <;> simp [optB] at h ⊢
  exact h.symm

theorem optB_inj {a b : Bytes} (h : optB a = optB b) : a = b := by
  have := congrArg unB h
  simpa [unB_optB] using this

theorem optB_isEmpty_false {b : Bytes} (h : b.isEmpty = false) : optB b = some b := by
  simp [optB, h]

/-- effects of the tile layer: reads and cache writes -/
def Quiet : Effect → Prop
  | .read _ _ _ => True
  | .writeCache _ _ => True
  | _ => False

/-- the successful configuration writes of a trace, oldest first, as the machine records them -/
def trWrites (tr : List Effect) : List (Option Bytes × Option Bytes) :=
  tr.filterMap fun
    | .writeConfig _ old new .ok => some (optB old, optB new)
    | _ => none

/-- the texts handed to `SecurityError`, oldest first -/
def trSecs (tr : List Effect) : List Bytes :=
  tr.filterMap fun
    | .securityError m => some m
    | _ => none

theorem trWrites_append (a b : List Effect) : trWrites (a ++ b) = trWrites a ++ trWrites b := by
  simp [trWrites, List.filterMap_append]

theorem trSecs_append (a b : List Effect) : trSecs (a ++ b) = trSecs a ++ trSecs b := by
  simp [trSecs, List.filterMap_append]

theorem trWrites_quiet : ∀ (es : List Effect), (∀ e ∈ es, Quiet e) → trWrites es = [] := by
  intro es
  induction es with
  | nil => intro _; rfl
  | cons e es ih =>
    intro h
    have he := h e (List.mem_cons_self ..)
    have := ih (fun x hx => h x (List.mem_cons_of_mem _ hx))
    cases e <;> simp_all [trWrites, Quiet]

theorem trSecs_quiet : ∀ (es : List Effect), (∀ e ∈ es, Quiet e) → trSecs es = [] := by
  intro es
  induction es with
  | nil => intro _; rfl
  | cons e es ih =>
    intro h
    have he := h e (List.mem_cons_self ..)
    have := ih (fun x hx => h x (List.mem_cons_of_mem _ hx))
    cases e <;> simp_all [trSecs, Quiet]

section
variable {σ H : Type}

/-- the operations of the tile layer and `SecurityError` do not touch the observation `cfg` of the environment state -/
structure CfgKeep (E : Env σ) (cfg : σ → Bytes) : Prop where
  readRemote : ∀ s p, cfg (E.readRemote s p).2 = cfg s
  readCache : ∀ s p, cfg (E.readCache s p).2 = cfg s
  writeCache : ∀ s f d, cfg (E.writeCache s f d) = cfg s
  securityError : ∀ s m, cfg (E.securityError s m) = cfg s

/-- every environment keeps the trivial observation (used for frame facts that hold for every environment) -/
theorem cfgKeep_const (E : Env σ) : CfgKeep E (fun _ => ([] : Bytes)) := ⟨fun _ _ => rfl, fun _ _ => rfl, fun _ _ _ => rfl, fun _ _ => rfl⟩

/-- **The configuration file `<name>/latest` is one compare-and-swap cell** `cfg s` of the environment state: reads
return its content (or fail), `WriteConfig(old, new)` succeeds only if the content is `old` and then makes it `new`,
answers `ErrWriteConflict` only if the content is not `old`, and nothing else changes it. -/
structure CfgCell (E : Env σ) (name : Bytes) (cfg : σ → Bytes) : Prop where
  keep : CfgKeep E cfg
  readConfig_keeps : ∀ s, cfg (E.readConfig s (latestFile name)).2 = cfg s
  readConfig_val : ∀ s v, (E.readConfig s (latestFile name)).1 = some v → v = cfg s
  write_ok : ∀ s old new, (E.writeConfig s (latestFile name) old new).1 = .ok →
      cfg s = old ∧ cfg (E.writeConfig s (latestFile name) old new).2 = new
  write_conflict : ∀ s old new, (E.writeConfig s (latestFile name) old new).1 = .conflict → cfg s ≠ old
  write_error : ∀ s old new, (E.writeConfig s (latestFile name) old new).1 = .error →
      cfg (E.writeConfig s (latestFile name) old new).2 = cfg s

/-- no cached tile error is the security error -/
def NoSecTile (w : World σ H) : Prop := ∀ t, w.c.tileCache.lookup t ≠ some (.error .security)

/-- frame of the operations below `mergeLatestMem` -/
structure Fr (cfg : σ → Bytes) (w w' : World σ H) : Prop where
  verifiers : w'.c.verifiers = w.c.verifiers
  name : w'.c.name = w.c.name
  record : w'.c.record = w.c.record
  inited : w'.c.inited = w.c.inited
  latest : w'.c.latest = w.c.latest
  latestMsg : w'.c.latestMsg = w.c.latestMsg
  cfg : cfg w'.s = cfg w.s
  nosec : NoSecTile w → NoSecTile w'
  trace : ∃ es, w'.tr = w.tr ++ es ∧ ∀ e ∈ es, Quiet e

theorem Fr.refl (cfg : σ → Bytes) (w : World σ H) : Fr cfg w w :=
  ⟨rfl, rfl, rfl, rfl, rfl, rfl, rfl, id, [], by simp, by simp⟩

theorem Fr.trans {cfg : σ → Bytes} {w1 w2 w3 : World σ H} (a : Fr cfg w1 w2) (b : Fr cfg w2 w3) : Fr cfg w1 w3 := by
  obtain ⟨es1, e1, g1⟩ := a.trace
  obtain ⟨es2, e2, g2⟩ := b.trace
  refine ⟨b.verifiers.trans a.verifiers, b.name.trans a.name, b.record.trans a.record, b.inited.trans a.inited,
    b.latest.trans a.latest, b.latestMsg.trans a.latestMsg, b.cfg.trans a.cfg, fun h => b.nosec (a.nosec h),
    es1 ++ es2, by rw [e2, e1, List.append_assoc], ?_⟩
  intro e he
  rcases List.mem_append.mp he with h | h
  · exact g1 e h
  · exact g2 e h

variable {E : Env σ} {cfg : σ → Bytes}

theorem fr_readRemote (hE : CfgKeep E cfg) (w : World σ H) (p : Bytes) : Fr cfg w (readRemote E w p).2 :=
  ⟨rfl, rfl, rfl, rfl, rfl, rfl, hE.readRemote _ _, id, _, rfl, by simp [Quiet]⟩

theorem fr_readCache (hE : CfgKeep E cfg) (w : World σ H) (p : Bytes) : Fr cfg w (readCache E w p).2 :=
  ⟨rfl, rfl, rfl, rfl, rfl, rfl, hE.readCache _ _, id, _, rfl, by simp [Quiet]⟩

theorem fr_writeCache (hE : CfgKeep E cfg) (w : World σ H) (f d : Bytes) : Fr cfg w (writeCache E w f d) :=
  ⟨rfl, rfl, rfl, rfl, rfl, rfl, hE.writeCache _ _ _, id, _, rfl, by simp [Quiet]⟩

theorem fr_markTileSaved (w : World σ H) (t : Tile) : Fr cfg w (markTileSaved w t) :=
  ⟨rfl, rfl, rfl, rfl, rfl, rfl, rfl, id, [], by simp [markTileSaved], by simp⟩

theorem fr_condReadCache (hE : CfgKeep E cfg) {w w' : World σ H} (c : Bool) (k : Bytes)
    (l : Fr cfg w w') : Fr cfg w (if c then readCache E w' k else (none, w')).2 := by
  cases c
  · exact l
  · exact l.trans (fr_readCache hE _ _)

theorem fr_condReadRemote (hE : CfgKeep E cfg) {w w' : World σ H} (c : Bool) (k : Bytes)
    (l : Fr cfg w w') : Fr cfg w (if c then readRemote E w' k else (none, w')).2 := by
  cases c
  · exact l
  · exact l.trans (fr_readRemote hE _ _)

/-- `readTileWork`: frame; the tile cache itself is untouched; the only error is the `ReadRemote` failure -/
theorem fr_readTileWork (hE : CfgKeep E cfg) (w : World σ H) (t : Tile) :
    Fr cfg w (readTileWork E w t).2 ∧ (readTileWork E w t).2.c.tileCache = w.c.tileCache ∧
    ∀ e, (readTileWork E w t).1 = .error e → e = .remote := by
  have l1 := fr_readCache (H := H) hE w (tileCacheKey w.c.name t)
  have l2 := fr_condReadCache hE (t != { t with w := 2 ^ t.h }) (tileCacheKey w.c.name { t with w := 2 ^ t.h }) l1
  have l3 := l2.trans (fr_readRemote hE _ (tileRemotePath t))
  have l4 := fr_condReadRemote hE (t != { t with w := 2 ^ t.h }) (tileRemotePath { t with w := 2 ^ t.h }) l3
  have c1 : (readCache E w (tileCacheKey w.c.name t)).2.c = w.c := rfl
  have cc : ∀ (b : Bool) (k : Bytes) (x : World σ H), (if b then readCache E x k else (none, x)).2.c = x.c := by
    intro b k x; cases b <;> rfl
  have cr : ∀ (b : Bool) (k : Bytes) (x : World σ H), (if b then readRemote E x k else (none, x)).2.c = x.c := by
    intro b k x; cases b <;> rfl
  simp only [readTileWork]
  split
  · exact ⟨l1.trans (fr_markTileSaved _ t), rfl, by intro e h; cases h⟩
  · split
    · refine ⟨l2.trans (fr_markTileSaved _ t), ?_, by intro e h; cases h⟩
      simp only [markTileSaved]
      rw [cc]; rfl
    · split
      · refine ⟨l3, ?_, by intro e h; cases h⟩
        show (readRemote E _ _).2.c.tileCache = _
        simp only [readRemote]
        rw [cc]; rfl
      · split
        · refine ⟨l4, ?_, by intro e h; cases h⟩
          rw [cr]
          simp only [readRemote]
          rw [cc]; rfl
        · refine ⟨l4, ?_, by intro e h; cases h; rfl⟩
          rw [cr]
          simp only [readRemote]
          rw [cc]; rfl

theorem lookup_cons_tile' {β : Type} (t u : Tile) (b : β) (l : List (Tile × β)) :
    ((u, b) :: l).lookup t = if t = u then some b else l.lookup t := by
  simp only [List.lookup]
  by_cases h : t = u
  · subst h; simp
  · have : (t == u) = false := by simpa using h
    simp [this, h]

/-- `readTile`: frame; a cached security error is the only way to return one -/
theorem fr_readTile (hE : CfgKeep E cfg) (w : World σ H) (t : Tile) :
    Fr cfg w (readTile E w t).2 ∧ (NoSecTile w → (readTile E w t).1 ≠ .error .security) := by
  unfold readTile
  split
  · rename_i r hr
    exact ⟨Fr.refl cfg w, fun hn h => hn t (by rw [hr]; simp only at h; rw [h])⟩
  · obtain ⟨l, hc, herr⟩ := fr_readTileWork (H := H) hE w t
    refine ⟨⟨l.verifiers, l.name, l.record, l.inited, l.latest, l.latestMsg, l.cfg, ?_, l.trace⟩, ?_⟩
    · intro hn u
      simp only
      rw [lookup_cons_tile', hc]
      split
      · intro h
        simp only [Option.some.injEq] at h
        have := herr _ h
        cases this
      · exact hn u
    · intro _ h
      simp only at h
      have := herr _ h
      cases this

theorem fr_readTilesAll (hE : CfgKeep E cfg) :
    ∀ (ts : List Tile) (w : World σ H), Fr cfg w (readTilesAll E w ts).2 ∧
      (NoSecTile w → ∀ r ∈ (readTilesAll E w ts).1, r ≠ .error .security) := by
  intro ts
  induction ts with
  | nil => intro w; exact ⟨Fr.refl cfg w, by intro _ r hr; simp [readTilesAll] at hr⟩
  | cons t ts ih =>
    intro w
    obtain ⟨l1, h1⟩ := fr_readTile (H := H) hE w t
    obtain ⟨l2, h2⟩ := ih (readTile E w t).2
    refine ⟨l1.trans l2, ?_⟩
    intro hn r hr
    simp only [readTilesAll, List.mem_cons] at hr
    rcases hr with rfl | hr
    · exact h1 hn
    · exact h2 (l1.nosec hn) r hr

theorem firstError_nosec : ∀ (rs : List (Except Err Bytes)), (∀ r ∈ rs, r ≠ .error .security) →
    firstError rs ≠ .error .security := by
  intro rs
  induction rs with
  | nil => intro _ h; simp [firstError] at h
  | cons r rs ih =>
    intro h
    have ih' := ih (fun x hx => h x (List.mem_cons_of_mem _ hx))
    cases r with
    | error e =>
      simp only [firstError]
      intro hh
      cases hh
      exact h _ (List.mem_cons_self ..) rfl
    | ok d =>
      simp only [firstError]
      cases hr : firstError rs with
      | error e =>
        simp only
        intro hh
        cases hh
        exact ih' hr
      | ok ds => simp

theorem fr_saveTiles (hE : CfgKeep E cfg) :
    ∀ (l : List (Tile × Bytes)) (w : World σ H), Fr cfg w (saveTiles E w l) := by
  intro l
  induction l with
  | nil => intro w; exact Fr.refl cfg w
  | cons td rest ih =>
    intro w
    obtain ⟨t, d⟩ := td
    unfold saveTiles
    split
    · exact ih w
    · exact ((fr_markTileSaved w t).trans (fr_writeCache hE _ _ _)).trans (ih _)

theorem liftTlog_nosec {α : Type} (x : Except Tlog.Err α) : liftTlog x ≠ .error .security := by
  cases x <;> simp [liftTlog]

variable [DecidableEq H]

theorem fr_readHashes (hE : CfgKeep E cfg) (P : Params H) (w : World σ H) (tree : Head H) (indexes : List Nat) :
    Fr cfg w (readHashes P E w tree indexes).2 ∧
    (NoSecTile w → (readHashes P E w tree indexes).1 ≠ .error .security) := by
  unfold Client.readHashes
  simp only
  split
  · exact ⟨Fr.refl cfg w, by intro _ h; cases h⟩
  · split
    · exact ⟨Fr.refl cfg w, by intro _ h; cases h⟩
    · rename_i p _ _
      obtain ⟨l, hns⟩ := fr_readTilesAll (H := H) hE p.tiles w
      have hfe : NoSecTile w → (readTiles E w p.tiles).1 ≠ .error .security := fun hn =>
        firstError_nosec _ (hns hn)
      have hl : Fr cfg w (readTiles E w p.tiles).2 := l
      split
      · rename_i e he
        refine ⟨hl, fun hn h => hfe hn ?_⟩
        have : e = .security := by cases h; rfl
        rw [he, this]
      · split
        · exact ⟨hl, by intro _ h; cases h⟩
        · split
          · exact ⟨hl.trans (fr_saveTiles hE _ _), fun _ => liftTlog_nosec _⟩
          · exact ⟨hl, fun _ => liftTlog_nosec _⟩

theorem fr_treeHashVia (hE : CfgKeep E cfg) (P : Params H) (w : World σ H) (n : Nat) (tree : Head H) :
    Fr cfg w (treeHashVia P E w n tree).2 ∧ (NoSecTile w → (treeHashVia P E w n tree).1 ≠ .error .security) := by
  unfold treeHashVia
  split
  · exact ⟨Fr.refl cfg w, by intro _ h; cases h⟩
  · split
    · exact ⟨Fr.refl cfg w, by intro _ h; cases h⟩
    · rename_i indexes _
      obtain ⟨l, hns⟩ := fr_readHashes hE P w tree indexes
      simp only
      split
      · rename_i e he
        refine ⟨l, fun hn h => hns hn ?_⟩
        have : e = .security := by cases h; rfl
        rw [he, this]
      · exact ⟨l, fun _ => liftTlog_nosec _⟩

theorem fr_proveTreeVia (hE : CfgKeep E cfg) (P : Params H) (w : World σ H) (t n : Nat) (tree : Head H) :
    Fr cfg w (proveTreeVia P E w t n tree).2 := by
  unfold proveTreeVia
  split
  · exact Fr.refl cfg w
  · split
    · exact Fr.refl cfg w
    · split
      · exact Fr.refl cfg w
      · rename_i indexes _ _
        have l := (fr_readHashes hE P w tree indexes).1
        simp only
        split <;> exact l

/-- **`checkTrees`, by cases.**  Either it does not return the security error and is a frame step, or it returns the
security error after exactly one `SecurityError` call whose text starts with the two notes that were compared, older
first (`securityHead`), on top of a frame step. -/
theorem checkTrees_cases (hE : CfgKeep E cfg) (P : Params H) (w : World σ H) (hn : NoSecTile w)
    (older : Head H) (olderNote : Bytes) (newer : Head H) (newerNote : Bytes) :
    ((checkTrees P E w older olderNote newer newerNote).1 ≠ .error .security ∧
      Fr cfg w (checkTrees P E w older olderNote newer newerNote).2) ∨
    ((checkTrees P E w older olderNote newer newerNote).1 = .error .security ∧
      ∃ (w1 : World σ H) (h : H) (tail : Bytes), Fr cfg w w1 ∧
        (checkTrees P E w older olderNote newer newerNote).2 =
          securityError E w1 (securityHead P olderNote newerNote h ++ tail)) := by
  obtain ⟨l1, hns⟩ := fr_treeHashVia hE P w older.n newer
  unfold checkTrees
  simp only
  split
  · rename_i e he
    left
    refine ⟨fun h => hns hn ?_, l1⟩
    have : e = .security := by cases h; rfl
    rw [he, this]
  · rename_i h hh
    split
    · left; exact ⟨fun h => (by cases h), l1⟩
    · right
      exact ⟨rfl, _, h, _, l1.trans (fr_proveTreeVia hE P _ newer.n older.n newer), rfl⟩

end
end ModVerif.ClientRefine
