/-
  Tie proofs for the regenerated module.go functions: escapeString (two `range` loops) and unescapeString (one).
  `for _, r := range s` is a fuel loop over byte offsets; `GoRtStr.range_step` links it to `Utf8.runes`.
  The byte conversions `byte(r)`, `byte(r+'a'-'A')`, `byte(r+'A'-'a')` of the Go code appear as
  `mkByte (toU8 …)` over int32 wrap-arounds; the `esc…`/`unesc…` arithmetic lemmas reduce them to `UInt8.ofNat`.
  Core Lean only.
-/
import ModVerif.Generated.FnModule
import ModVerif.Model.Module
import ModVerif.Proofs.GoRtLemmas
import ModVerif.Proofs.GoRtLemmasStr
namespace ModVerif.TieFnModule
open ModVerif ModVerif.GoRt ModVerif.GoRtStr

/-! ### byte conversions -/

theorem escOfNat_mod (n : Nat) : UInt8.ofNat (n % 256) = UInt8.ofNat n := by
  apply UInt8.toNat_inj.mp
  simp [UInt8.toNat_ofNat']

/-- `byte(r)` for any rune value: both sides are `r mod 256` -/
theorem escByte_plain (r : Nat) : mkByte (toU8 (r : Int)) = UInt8.ofNat r := by
  simp only [mkByte, toU8]
  have h : (((r : Int) % 256) % 256).toNat = r % 256 := by omega
  rw [h, escOfNat_mod]

/-- `byte(r+'a'-'A')` for an upper-case letter -/
theorem escByte_upper (r : Nat) (h1 : 65 ≤ r) (h2 : r ≤ 90) :
    mkByte (toU8 (toI32 ((toI32 ((r : Int) + 97)) - 65))) = UInt8.ofNat (r + 32) := by
  have e1 : toI32 ((r : Int) + 97) = (r : Int) + 97 := by
    simp only [toI32]; split <;> omega
  have e2 : toI32 ((r : Int) + 97 - 65) = ((r + 32 : Nat) : Int) := by
    simp only [toI32]; split <;> omega
  rw [e1, e2, escByte_plain]

/-- `byte(r+'A'-'a')` for a lower-case letter -/
theorem unescByte_lower (r : Nat) (h1 : 97 ≤ r) (h2 : r ≤ 122) :
    mkByte (toU8 (toI32 ((toI32 ((r : Int) + 65)) - 97))) = UInt8.ofNat (r - 32) := by
  have e1 : toI32 ((r : Int) + 65) = (r : Int) + 65 := by
    simp only [toI32]; split <;> omega
  have e2 : toI32 ((r : Int) + 65 - 97) = ((r - 32 : Nat) : Int) := by
    simp only [toI32]; split <;> omega
  rw [e1, e2, escByte_plain]

/-! ### escapeString -/

theorem escapeString_loop1_spec (s : Bytes) :
    ∀ (fuel k : Nat) (hu : Bool), k ≤ s.length → s.length - k < fuel →
    Generated.Module.escapeString_loop1 s fuel (k : Int) hu =
      .ok (if (Utf8.runes (s.drop k)).any (fun r => r == 33 || r ≥ 128) = true
           then Ctl.ret (([] : Bytes), some "internal error: inconsistency in EscapePath")
           else Ctl.next (len s, hu || (Utf8.runes (s.drop k)).any (fun r => 65 ≤ r && r ≤ 90))) := by
  intro fuel
  induction fuel with
  | zero => intro k _ _ h; omega
  | succ f ih =>
    intro k hu hk hf
    unfold Generated.Module.escapeString_loop1
    by_cases hlt : k < s.length
    · obtain ⟨r, w, hdec, hw1, hw2, hrunes, _⟩ := range_step s k hlt
      have hlt' : (k : Int) < len s := by simp [len_eq]; omega
      have hkw : (k : Int) + (w : Int) = ((k + w : Nat) : Int) := by simp
      simp only [hlt', decide_true, if_true, hdec, hrunes, List.any_cons, hkw]
      by_cases hbad : r = 33 ∨ r ≥ 128
      · have hb1 : (decide ((r : Int) = 33) || decide ((r : Int) ≥ 128)) = true := by
          rcases hbad with h | h
          · subst h; simp
          · have : (r : Int) ≥ 128 := by omega
            simp [this]
        have hb2 : (r == 33 || decide (r ≥ 128)) = true := by
          rcases hbad with h | h
          · subst h; simp
          · simp [h]
        simp [hb1, hb2]
      · have hb1 : (decide ((r : Int) = 33) || decide ((r : Int) ≥ 128)) = false := by
          have h1 : ¬ ((r : Int) = 33) := by omega
          have h2 : ¬ ((r : Int) ≥ 128) := by omega
          simp [h1, h2]
        have hb2 : (r == 33 || decide (r ≥ 128)) = false := by
          have h1 : ¬ (r = 33) := by omega
          have h2 : ¬ (r ≥ 128) := by omega
          simp [h1, h2]
        simp only [hb1, hb2, Bool.false_eq_true, if_false, Bool.false_or]
        by_cases hup : 65 ≤ r ∧ r ≤ 90
        · have hc1 : (decide ((65 : Int) ≤ (r : Int)) && decide ((r : Int) ≤ 90)) = true := by
            have h1 : (65 : Int) ≤ (r : Int) := by omega
            have h2 : (r : Int) ≤ 90 := by omega
            simp [h1, h2]
          have hc2 : (decide (65 ≤ r) && decide (r ≤ 90)) = true := by simp [hup.1, hup.2]
          simp only [hc1, hc2, if_true, ih (k + w) true hw2 (by omega), Bool.true_or, Bool.or_true]
        · have hc1 : (decide ((65 : Int) ≤ (r : Int)) && decide ((r : Int) ≤ 90)) = false := by
            by_cases h1 : (65 : Int) ≤ (r : Int)
            · have h2 : ¬ ((r : Int) ≤ 90) := by omega
              simp [h2]
            · simp [h1]
          have hc2 : (decide (65 ≤ r) && decide (r ≤ 90)) = false := by
            by_cases h1 : 65 ≤ r
            · have h2 : ¬ (r ≤ 90) := by omega
              simp [h2]
            · simp [h1]
          simp only [hc1, hc2, Bool.false_eq_true, if_false, ih (k + w) hu hw2 (by omega), Bool.false_or]
    · have hk' : k = s.length := by omega
      have hlt' : ¬ ((k : Int) < len s) := by simp [len_eq]; omega
      subst hk'
      simp [Utf8.runes, Utf8.runesAux, len_eq]

theorem escapeString_loop2_spec (s : Bytes) :
    ∀ (fuel k : Nat) (buf : Bytes), k ≤ s.length → s.length - k < fuel →
    Generated.Module.escapeString_loop2 s fuel (k : Int) buf =
      .ok (len s, buf ++ Module.escapeRunes (Utf8.runes (s.drop k))) := by
  intro fuel
  induction fuel with
  | zero => intro k _ _ h; omega
  | succ f ih =>
    intro k buf hk hf
    unfold Generated.Module.escapeString_loop2
    by_cases hlt : k < s.length
    · obtain ⟨r, w, hdec, hw1, hw2, hrunes, _⟩ := range_step s k hlt
      have hlt' : (k : Int) < len s := by simp [len_eq]; omega
      have hkw : (k : Int) + (w : Int) = ((k + w : Nat) : Int) := by simp
      simp only [hlt', decide_true, if_true, hdec, hrunes, hkw, Module.escapeRunes]
      by_cases hup : 65 ≤ r ∧ r ≤ 90
      · have hc1 : (decide ((65 : Int) ≤ (r : Int)) && decide ((r : Int) ≤ 90)) = true := by
          have h1 : (65 : Int) ≤ (r : Int) := by omega
          have h2 : (r : Int) ≤ 90 := by omega
          simp [h1, h2]
        have hc2 : (decide (65 ≤ r) && decide (r ≤ 90)) = true := by simp [hup.1, hup.2]
        have h33 : mkByte (33 : Int) = (33 : UInt8) := by decide
        simp only [hc1, hc2, if_true, ih (k + w) _ hw2 (by omega), escByte_upper r hup.1 hup.2, h33]
        simp
      · have hc1 : (decide ((65 : Int) ≤ (r : Int)) && decide ((r : Int) ≤ 90)) = false := by
          by_cases h1 : (65 : Int) ≤ (r : Int)
          · have h2 : ¬ ((r : Int) ≤ 90) := by omega
            simp [h2]
          · simp [h1]
        have hc2 : (decide (65 ≤ r) && decide (r ≤ 90)) = false := by
          by_cases h1 : 65 ≤ r
          · have h2 : ¬ (r ≤ 90) := by omega
            simp [h2]
          · simp [h1]
        simp only [hc1, hc2, Bool.false_eq_true, if_false, ih (k + w) _ hw2 (by omega), escByte_plain]
        simp
    · have hk' : k = s.length := by omega
      have hlt' : ¬ ((k : Int) < len s) := by simp [len_eq]; omega
      subst hk'
      simp [Utf8.runes, Utf8.runesAux, len_eq, Module.escapeRunes]

/-- `escapeString` (module/module.go:709) = the hand model, for all byte strings -/
theorem escapeString_spec (s : Bytes) (fuel : Nat) (hf : s.length + 1 ≤ fuel) :
    Generated.Module.escapeString fuel s =
      .ok (match Module.escapeString s with
           | some e => (e, none)
           | none => ([], some "internal error: inconsistency in EscapePath")) := by
  unfold Generated.Module.escapeString Module.escapeString
  have h1 := escapeString_loop1_spec s fuel 0 false (by omega) (by omega)
  have h2 := escapeString_loop2_spec s fuel 0 [] (by omega) (by omega)
  simp only [Int.natCast_zero, List.drop_zero, Bool.false_or, List.nil_append] at h1 h2
  simp only [h1, h2, bind_ok, pure_eq_ok]
  by_cases hbad : (Utf8.runes s).any (fun r => r == 33 || r ≥ 128) = true
  · simp [hbad]
  · simp only [hbad, Bool.false_eq_true, if_false]
    cases hup : (Utf8.runes s).any (fun r => 65 ≤ r && r ≤ 90) <;> simp

/-! ### unescapeString -/

/-- what `unescapeString` does with the result of its loop -/
def unescPost : Ctl (Bytes × Bool) (Int × Bool × Bytes) → M (Bytes × Bool)
  | Ctl.ret rv => pure rv
  | Ctl.next (_, bang, buf) => if bang then pure (([] : Bytes), false) else pure (buf, true)

/-- the loop followed by the final `if bang` test -/
theorem unescapeString_loop1_spec (escaped : Bytes) :
    ∀ (fuel k : Nat) (bang : Bool) (buf : Bytes), k ≤ escaped.length → escaped.length - k < fuel →
    (Generated.Module.unescapeString_loop1 escaped fuel (k : Int) bang buf >>= unescPost) =
      .ok (match Module.unescapeRunes bang (Utf8.runes (escaped.drop k)) with
           | some out => (buf ++ out, true)
           | none => (([] : Bytes), false)) := by
  intro fuel
  induction fuel with
  | zero => intro k _ _ _ h; omega
  | succ f ih =>
    intro k bang buf hk hf
    unfold Generated.Module.unescapeString_loop1
    by_cases hlt : k < escaped.length
    · obtain ⟨r, w, hdec, hw1, hw2, hrunes, _⟩ := range_step escaped k hlt
      have hlt' : (k : Int) < len escaped := by simp [len_eq]; omega
      have hkw : (k : Int) + (w : Int) = ((k + w : Nat) : Int) := by simp
      simp only [hlt', decide_true, if_true, hdec, hrunes, hkw, Module.unescapeRunes]
      by_cases h128 : r ≥ 128
      · have h1 : (r : Int) ≥ 128 := by omega
        simp [h1, h128, unescPost]
      · have h1 : ¬ ((r : Int) ≥ 128) := by omega
        simp only [h1, h128, decide_false, Bool.false_eq_true, if_false]
        cases bang
        · simp only [Bool.false_eq_true, if_false]
          by_cases h33 : r = 33
          · have h2 : decide ((r : Int) = 33) = true := by
              have : (r : Int) = 33 := by omega
              simp [this]
            have h3 : (r == 33) = true := by simp [h33]
            simp only [h2, h3, if_true]
            exact ih (k + w) true buf hw2 (by omega)
          · have h2 : ¬ ((r : Int) = 33) := by omega
            have h3 : (r == 33) = false := by simp [h33]
            simp only [h2, h3, decide_false, Bool.false_eq_true, if_false]
            by_cases hup : 65 ≤ r ∧ r ≤ 90
            · have hc1 : (decide ((65 : Int) ≤ (r : Int)) && decide ((r : Int) ≤ 90)) = true := by
                have h1 : (65 : Int) ≤ (r : Int) := by omega
                have h2 : (r : Int) ≤ 90 := by omega
                simp [h1, h2]
              have hc2 : (decide (65 ≤ r) && decide (r ≤ 90)) = true := by simp [hup.1, hup.2]
              simp [hc1, hc2, unescPost]
            · have hc1 : (decide ((65 : Int) ≤ (r : Int)) && decide ((r : Int) ≤ 90)) = false := by
                by_cases h1 : (65 : Int) ≤ (r : Int)
                · have h2 : ¬ ((r : Int) ≤ 90) := by omega
                  simp [h2]
                · simp [h1]
              have hc2 : (decide (65 ≤ r) && decide (r ≤ 90)) = false := by
                by_cases h1 : 65 ≤ r
                · have h2 : ¬ (r ≤ 90) := by omega
                  simp [h2]
                · simp [h1]
              simp only [hc1, hc2, Bool.false_eq_true, if_false, escByte_plain]
              rw [ih (k + w) false _ hw2 (by omega)]
              cases Module.unescapeRunes false (Utf8.runes (escaped.drop (k + w))) <;> simp
        · simp only [if_true]
          by_cases hlow : 97 ≤ r ∧ r ≤ 122
          · have hc1 : (decide ((r : Int) < 97) || decide ((122 : Int) < (r : Int))) = false := by
              have h1 : ¬ ((r : Int) < 97) := by omega
              have h2 : ¬ ((122 : Int) < (r : Int)) := by omega
              simp [h1, h2]
            have hc2 : (decide (r < 97) || decide (122 < r)) = false := by
              have h1 : ¬ (r < 97) := by omega
              have h2 : ¬ (122 < r) := by omega
              simp [h1, h2]
            simp only [hc1, hc2, Bool.false_eq_true, if_false, unescByte_lower r hlow.1 hlow.2]
            rw [ih (k + w) false _ hw2 (by omega)]
            cases Module.unescapeRunes false (Utf8.runes (escaped.drop (k + w))) <;> simp
          · have hc1 : (decide ((r : Int) < 97) || decide ((122 : Int) < (r : Int))) = true := by
              by_cases h1 : (r : Int) < 97
              · simp [h1]
              · have h2 : (122 : Int) < (r : Int) := by omega
                simp [h2]
            have hc2 : (decide (r < 97) || decide (122 < r)) = true := by
              by_cases h1 : r < 97
              · simp [h1]
              · have h2 : 122 < r := by omega
                simp [h2]
            simp [hc1, hc2, unescPost]
    · have hk' : k = escaped.length := by omega
      have hlt' : ¬ ((k : Int) < len escaped) := by simp [len_eq]; omega
      subst hk'
      cases bang <;> simp [Utf8.runes, Utf8.runesAux, len_eq, Module.unescapeRunes, unescPost]

/-- `unescapeString` (module/module.go:765) = the hand model, for all byte strings -/
theorem unescapeString_spec (escaped : Bytes) (fuel : Nat) (hf : escaped.length + 1 ≤ fuel) :
    Generated.Module.unescapeString fuel escaped =
      .ok (match Module.unescapeString escaped with
           | some b => (b, true)
           | none => ([], false)) := by
  have h := unescapeString_loop1_spec escaped fuel 0 false [] (by omega) (by omega)
  simp only [Int.natCast_zero, List.drop_zero, List.nil_append] at h
  unfold Module.unescapeString
  rw [← h]
  unfold Generated.Module.unescapeString
  congr 1

/-! ### non-vacuity: both sides evaluated on concrete inputs -/

-- "aBc" ↦ "a!bc"
example : Generated.Module.escapeString 4 [97, 66, 99] = .ok ([97, 33, 98, 99], none) ∧
    Module.escapeString [97, 66, 99] = some [97, 33, 98, 99] := by decide +kernel
-- no upper-case letter: the string itself
example : Generated.Module.escapeString 4 [97, 98, 99] = .ok ([97, 98, 99], none) ∧
    Module.escapeString [97, 98, 99] = some [97, 98, 99] := by decide +kernel
-- "!" ↦ the internal error
example : Generated.Module.escapeString 2 [33] = .ok ([], some "internal error: inconsistency in EscapePath") ∧
    Module.escapeString [33] = none := by decide +kernel
-- "é" (two bytes) and the ill-formed byte 0xFF (decoded as U+FFFD) ↦ the internal error
example : Generated.Module.escapeString 3 [195, 169] = .ok ([], some "internal error: inconsistency in EscapePath") ∧
    Module.escapeString [195, 169] = none ∧
    Generated.Module.escapeString 2 [255] = .ok ([], some "internal error: inconsistency in EscapePath") ∧
    Module.escapeString [255] = none := by decide +kernel
-- too little fuel is an error, not a wrong answer
example : Generated.Module.escapeString 3 [97, 66, 99] = .error .fuel := by decide +kernel

-- "a!bc" ↦ "aBc"
example : Generated.Module.unescapeString 5 [97, 33, 98, 99] = .ok ([97, 66, 99], true) ∧
    Module.unescapeString [97, 33, 98, 99] = some [97, 66, 99] := by decide +kernel
-- a trailing "!", an upper-case letter, "!" before a non-letter, a non-ASCII rune, an ill-formed byte: not ok
example : Generated.Module.unescapeString 2 [33] = .ok ([], false) ∧ Module.unescapeString [33] = none ∧
    Generated.Module.unescapeString 2 [66] = .ok ([], false) ∧ Module.unescapeString [66] = none ∧
    Generated.Module.unescapeString 3 [33, 49] = .ok ([], false) ∧ Module.unescapeString [33, 49] = none ∧
    Generated.Module.unescapeString 3 [195, 169] = .ok ([], false) ∧ Module.unescapeString [195, 169] = none ∧
    Generated.Module.unescapeString 2 [255] = .ok ([], false) ∧ Module.unescapeString [255] = none := by
  decide +kernel
example : Generated.Module.unescapeString 0 [] = .error .fuel ∧
    Generated.Module.unescapeString 1 [] = .ok ([], true) ∧ Module.unescapeString [] = some [] := by decide +kernel

end ModVerif.TieFnModule
