/-
  Tie proof, zip/zip.go `checkFiles`: the hoisted closure `inSubmodule` with its loop (`checkFiles_loop2`) is the model's
  `Zip.inSubmodule` (some directory prefix of the path is a key of `haveGoMod`).  The Go loop walks the directory
  prefixes from the longest to the shortest (`path.Split`, then cut the trailing slash); the model lists them shortest
  first (`dirPrefixes`).  No panic: the loop always returns (the `Ctl.next` exit of the translated `for {}` is dead).
-/
import ModVerif.Proofs.TieFnZipCfBase
import ModVerif.Proofs.ZipAPath
namespace ModVerif.TieFnZipCf
open ModVerif ModVerif.GoRt ModVerif.GoRtZip ModVerif.TieFnZip
open ModVerif.PathClean

/-! ### the last slash of a path -/

theorem split_last_slash : ∀ p : Bytes, (47 : UInt8) ∉ p ∨ ∃ a b, p = a ++ 47 :: b ∧ (47 : UInt8) ∉ b
  | [] => Or.inl (by simp)
  | c :: t => by
    rcases split_last_slash t with h | ⟨a, b, h1, h2⟩
    · by_cases hc : c = 47
      · exact Or.inr ⟨[], t, by rw [hc]; rfl, h⟩
      · left; intro hm
        rcases List.mem_cons.mp hm with e | e
        · exact hc e.symm
        · exact h e
    · exact Or.inr ⟨c :: a, b, by rw [h1]; rfl, h2⟩

theorem pathSplit_noSlash (p : Bytes) (h : (47 : UInt8) ∉ p) : PathClean.pathSplit p = ([], p) := by
  unfold PathClean.pathSplit
  rw [Proofs.ZipA.lastElem_noSlash p h]
  simp

theorem dirPrefixesAux_noSlash : ∀ (p racc : Bytes), (47 : UInt8) ∉ p → Zip.dirPrefixesAux racc p = []
  | [], _, _ => rfl
  | c :: t, racc, h => by
    have hc : (c == 47) = false := by
      rw [beq_eq_false_iff_ne]; intro e; exact h (by rw [e]; exact List.mem_cons_self)
    unfold Zip.dirPrefixesAux
    simp only [hc, Bool.false_eq_true, if_false]
    exact dirPrefixesAux_noSlash t _ (fun hm => h (List.mem_cons_of_mem _ hm))

theorem dirPrefixesAux_split (b : Bytes) (hb : (47 : UInt8) ∉ b) : ∀ (a racc : Bytes),
    Zip.dirPrefixesAux racc (a ++ 47 :: b) = Zip.dirPrefixesAux racc a ++ [racc.reverse ++ a ++ [47]]
  | [], racc => by
    show Zip.dirPrefixesAux racc (47 :: b) = _
    unfold Zip.dirPrefixesAux
    simp only [beq_self_eq_true, if_true]
    rw [dirPrefixesAux_noSlash b _ hb]
    simp
  | c :: a, racc => by
    show Zip.dirPrefixesAux racc (c :: (a ++ 47 :: b)) = _
    rw [Zip.dirPrefixesAux]
    have ih := dirPrefixesAux_split b hb a (c :: racc)
    have e : (c :: racc).reverse ++ a ++ [47] = racc.reverse ++ (c :: a) ++ [47] := by simp
    rw [e] at ih
    by_cases hc : (c == 47) = true
    · simp only [hc, if_true]
      rw [ih]
      conv => rhs; rw [Zip.dirPrefixesAux]
      simp only [hc, if_true, List.cons_append]
    · simp only [hc]
      rw [ih]
      conv => rhs; rw [Zip.dirPrefixesAux]
      simp only [hc, Bool.false_eq_true, if_false]

theorem dirPrefixes_noSlash (p : Bytes) (h : (47 : UInt8) ∉ p) : Zip.dirPrefixes p = [] :=
  dirPrefixesAux_noSlash p [] h

theorem dirPrefixes_split (a b : Bytes) (hb : (47 : UInt8) ∉ b) :
    Zip.dirPrefixes (a ++ 47 :: b) = Zip.dirPrefixes a ++ [a ++ [47]] := by
  unfold Zip.dirPrefixes
  rw [dirPrefixesAux_split b hb a []]
  simp

/-- the model's `inSubmodule`, unrolled the way the Go loop runs -/
theorem inSubmodule_noSlash (l : List Bytes) (p : Bytes) (h : (47 : UInt8) ∉ p) : Zip.inSubmodule l p = false := by
  unfold Zip.inSubmodule
  rw [dirPrefixes_noSlash p h]; rfl

theorem inSubmodule_split (l : List Bytes) (a b : Bytes) (hb : (47 : UInt8) ∉ b) :
    Zip.inSubmodule l (a ++ 47 :: b) = (l.contains (a ++ [47]) || Zip.inSubmodule l a) := by
  unfold Zip.inSubmodule
  rw [dirPrefixes_split a b hb, List.any_append]
  simp [Bool.or_comm]

/-! ### loop 2 and the closure -/

section
variable (cfp : Bytes → Option String) (ef : Bytes → Bytes → Bool) (pgv : Bytes → Bytes → Bytes) (sf : Int → Int)
  (tl : Bytes → Bytes) (vc : Bytes → Bytes → Int) (vl : Bytes → Bytes)

theorem loop2_eq (l : List Bytes) : ∀ (fuel : Nat) (p : Bytes), p.length + 1 ≤ fuel →
    Generated.Zip.checkFiles_loop2 cfp ef pgv sf tl vc vl (hgOf l) fuel p = .ok (Ctl.ret (Zip.inSubmodule l p)) := by
  intro fuel
  induction fuel with
  | zero => intro p h; omega
  | succ fuel ih =>
    intro p hf
    rw [Generated.Zip.checkFiles_loop2]
    rcases split_last_slash p with h | ⟨a, b, rfl, hb⟩
    · have hs : GoRt.pathSplit p = ([], p) := pathSplit_noSlash p h
      rw [hs, inSubmodule_noSlash l p h]
      rfl
    · have hs : GoRt.pathSplit (a ++ 47 :: b) = (a ++ [47], b) := Proofs.ZipA.pathSplit_split a b hb
      rw [hs, inSubmodule_split l a b hb]
      have hne : (a ++ [47] : Bytes) ≠ [] := by simp
      simp only [hne, decide_false, Bool.false_eq_true, if_false, mapGet_hgOf]
      cases hc : l.contains (a ++ [47]) with
      | true => rfl
      | false =>
        simp only [Bool.false_eq_true, if_false, Bool.false_or]
        have hl : len (a ++ [47] : Bytes) - 1 = (a.length : Int) := by simp [len_eq]
        rw [hl, sliceTo_natCast (by simp)]
        simp only [bind_ok, List.take_left']
        exact ih a (by simp at hf; omega)

/-- the closure `inSubmodule` is the model's `inSubmodule` on the map built from the model's list -/
theorem inSubmodule_eq (l : List Bytes) (fuel : Nat) (p : Bytes) (hf : p.length + 1 ≤ fuel) :
    Generated.Zip.checkFiles_inSubmodule cfp ef pgv sf tl vc vl fuel (hgOf l) p = .ok (Zip.inSubmodule l p) := by
  unfold Generated.Zip.checkFiles_inSubmodule
  rw [loop2_eq cfp ef pgv sf tl vc vl l fuel p hf]
  rfl

end

end ModVerif.TieFnZipCf
