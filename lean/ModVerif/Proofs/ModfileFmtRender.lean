/-
  C02 stage 3, part f: what `Format` prints for a well-shaped tree, as a pure function (`rStmts`), and the
  proof that the printer state machine (`trim`, `newline`, margins, blank-line suppression) computes it.
-/
import ModVerif.Proofs.ModfileFmtTree
import ModVerif.Proofs.ModfileFmtTrim
import ModVerif.Proofs.ModfilePrint
namespace ModVerif.Proofs.ModfileFmtRender
open ModVerif ModVerif.Modfile ModVerif.Proofs.ModfileFmtUtf8
open ModVerif.Proofs.ModfileFmtTok ModVerif.Proofs.ModfileFmtLex ModVerif.Proofs.ModfileFmtLine
open ModVerif.Proofs.ModfileFmtStream ModVerif.Proofs.ModfileFmtTree ModVerif.Proofs.ModfileFmtTrim

/-! ### the rendered text -/

def tabs (m : Nat) : Bytes := List.replicate m 9

/-- comment lines (and blank lines for placeholders) at margin `m` -/
def rBefore (m : Nat) (cs : List Comment) : Bytes :=
  cs.flatMap fun c =>
    (if (GoStrings.trimSpace c.token).isEmpty then [] else tabs m ++ GoStrings.trimSpace c.token) ++ [10]

/-- a block line, preceded by the newline that ends the previous line -/
def rLineS (l : Line) : Bytes := 10 :: (rBefore 1 l.comments.before ++ (9 :: tokStr l.token []))

def rBlock (b : LineBlock) : Bytes :=
  rBefore 0 b.comments.before ++ (tokStr b.token [] ++ (32 :: 40 :: (b.lines.flatMap rLineS ++
    (10 :: (rBefore 0 b.rparen.comments.before ++ [41])))))

def rStmt : Expr → Bytes
  | .commentBlock x => rBefore 0 x.comments.before
  | .line l => rBefore 0 l.comments.before ++ (tokStr l.token [] ++ [10])
  | .lineBlock b => rBlock b ++ [10]
  | _ => []

def rStmts : List Expr → Bytes
  | [] => []
  | [s] => rStmt s
  | s :: rest => rStmt s ++ 10 :: rStmts rest

/-! ### last bytes -/

/-- a byte after which `trim` stops and `newline` writes a newline -/
def OKByte (y : UInt8) : Prop := y ≠ 9 ∧ y ≠ 32 ∧ y ≠ 10

/-- non-empty with an `OKByte` at the end -/
def LastOK (t : Bytes) : Prop := ∃ y, t.getLast? = some y ∧ OKByte y

theorem getLast?_append_ne (a : Bytes) {b : Bytes} (hb : b ≠ []) : (a ++ b).getLast? = b.getLast? := by
  rw [List.getLast?_append]
  cases h : b.getLast? with
  | none => simp at h; exact absurd h hb
  | some y => simp

theorem LastOK.append (a : Bytes) {b : Bytes} (h : LastOK b) : LastOK (a ++ b) := by
  obtain ⟨y, hy, hok⟩ := h
  refine ⟨y, ?_, hok⟩
  cases b with
  | nil => simp at hy
  | cons x xs => rw [getLast?_append_ne _ (by simp)]; exact hy

theorem LastOK.rev {t : Bytes} (h : LastOK t) : ∃ y r, t.reverse = y :: r ∧ OKByte y := by
  obtain ⟨y, hy, hok⟩ := h
  refine ⟨y, (t.reverse).tail, ?_, hok⟩
  have : t.reverse.head? = some y := by rw [List.head?_reverse]; exact hy
  cases hr : t.reverse with
  | nil => rw [hr] at this; simp at this
  | cons a b => rw [hr] at this; simp at this; simp [this]

theorem identBody_bytes {a : Bytes} (h : IdentBody a) : ∀ b ∈ a, OKByte b := by
  induction h with
  | nil => intro b hb; simp at hb
  | @cons a hne hid _ _ _ ih =>
    intro b hb
    rw [← List.take_append_drop (Utf8.decodeRune a).2 a] at hb
    rcases List.mem_append.1 hb with hb | hb
    · cases a with
      | nil => exact absurd rfl hne
      | cons c t =>
        by_cases hc : c.toNat < 0x80
        · rw [ModfileLex.decodeRune_ascii c t hc] at hb hid
          simp at hb
          subst hb
          refine ⟨?_, ?_, ?_⟩ <;> (intro h; subst h; revert hid; decide)
        · have := (decodeRune_nonascii c t (by omega)).2 b hb
          refine ⟨?_, ?_, ?_⟩ <;> (intro h; subst h; revert this; decide)
    · exact ih b hb

theorem strBody_last {n : Nat} {a : Bytes} (h : StrBody n a) (hn : n < 0x80) :
    ∃ b, a.getLast? = some b ∧ b.toNat = n := by
  induction h with
  | @close a hne _ hq hend =>
    cases a with
    | nil => exact absurd rfl hne
    | cons c t =>
      have hlt : (Utf8.decodeRune (c :: t)).1 < 0x80 := by rw [hq]; exact hn
      obtain ⟨b, t', heq, hb, hw⟩ := ascii_rune_head (by simp) hlt
      simp only [List.cons.injEq] at heq
      obtain ⟨rfl, rfl⟩ := heq
      rw [hw] at hend
      simp at hend
      subst hend
      exact ⟨c, rfl, by rw [hb, hq]⟩
  | @esc a hne _ _ _ _ hne2 hrest ih =>
    obtain ⟨b, hb, hbn⟩ := ih
    refine ⟨b, ?_, hbn⟩
    have hne3 := hrest.ne_nil
    rw [← List.take_append_drop (Utf8.decodeRune a).2 a,
      ← List.take_append_drop (Utf8.decodeRune (a.drop (Utf8.decodeRune a).2)).2 (a.drop (Utf8.decodeRune a).2),
      getLast?_append_ne _ (by
        intro h
        have := List.append_eq_nil_iff.1 h
        exact hne3 this.2),
      getLast?_append_ne _ hne3]
    exact hb
  | @other a hne _ _ _ hrest ih =>
    obtain ⟨b, hb, hbn⟩ := ih
    refine ⟨b, ?_, hbn⟩
    have hne3 := hrest.ne_nil
    rw [← List.take_append_drop (Utf8.decodeRune a).2 a, getLast?_append_ne _ hne3]
    exact hb

theorem tokText_lastOK {t : Bytes} (h : TokText t) : LastOK t := by
  unfold TokText at h
  generalize kindOf t = k at h
  cases h with
  | punct c hc =>
    refine ⟨c, rfl, ?_⟩
    rcases punctBytes_cases hc with h | h | h | h | h | h | h <;> subst h <;> refine ⟨?_, ?_, ?_⟩ <;> decide
  | string q a hq hb =>
    have hqn : q.toNat < 0x80 := by rcases hq with h | h <;> subst h <;> decide
    obtain ⟨b, hb1, hb2⟩ := strBody_last hb hqn
    have hbq : b = q := UInt8.toNat_inj.1 hb2
    subst hbq
    refine ⟨b, ?_, ?_⟩
    · rw [show b :: a = [b] ++ a from rfl, getLast?_append_ne _ hb.ne_nil]; exact hb1
    · rcases hq with h | h <;> subst h <;> refine ⟨?_, ?_, ?_⟩ <;> decide
  | ident _ hne hb hnq =>
    cases hl : t.getLast? with
    | none => simp at hl; exact absurd hl hne
    | some y => exact ⟨y, hl, identBody_bytes hb y (List.mem_of_getLast? hl)⟩

theorem tokStr_lastOK : ∀ (ts : List Bytes) (sep : Bytes), ts ≠ [] → (∀ t ∈ ts, TokText t) → LastOK (tokStr ts sep) := by
  intro ts
  induction ts with
  | nil => intro _ h; exact absurd rfl h
  | cons t rest ih =>
    intro sep _ hts
    simp only [tokStr]
    cases rest with
    | nil =>
      simp only [tokStr, List.append_nil]
      exact LastOK.append _ (tokText_lastOK (hts t (by simp)))
    | cons t2 r2 =>
      exact LastOK.append _ (ih _ (by simp) (fun t' h => hts t' (by simp [h])))

/-! ### the printer on explicit states -/

/-- the buffer is at the beginning of a line -/
def BOL (base : Bytes) : Prop := base = [] ∨ ∃ r, base = 10 :: r

/-- the buffer ends with a non-blank line and its newline -/
def Clean1 (base : Bytes) : Prop := ∃ y r, base = 10 :: y :: r ∧ y ≠ 10

theorem Clean1.bol {base : Bytes} (h : Clean1 base) : BOL base := by
  obtain ⟨y, r, h, _⟩ := h
  exact Or.inr ⟨_, h⟩

theorem dropWhile_tabs (k : Nat) (base : Bytes) (hb : BOL base) :
    (tabs k ++ base).dropWhile (fun c => c == 9 || c == 32) = base := by
  induction k with
  | zero =>
    simp only [tabs, List.replicate_zero, List.nil_append]
    rcases hb with h | ⟨r, h⟩ <;> subst h <;> simp [List.dropWhile]
  | succ n ih =>
    simp only [tabs, List.replicate_succ, List.cons_append, List.dropWhile]
    simpa [tabs] using ih

theorem tabs_reverse (m : Nat) : (tabs m).reverse = tabs m := by simp [tabs]

theorem trim_bol (k m : Nat) (base : Bytes) (hb : BOL base) :
    Printer.trim ⟨tabs k ++ base, [], m⟩ = ⟨base, [], m⟩ := by
  simp only [Printer.trim, dropWhile_tabs k base hb]

theorem trim_mid (y : UInt8) (r : Bytes) (m : Nat) (hy : OKByte y) :
    Printer.trim ⟨y :: r, [], m⟩ = ⟨y :: r, [], m⟩ := by
  obtain ⟨h1, h2, _⟩ := hy
  have : (y == 9 || y == 32) = false := by simp [h1, h2]
  simp [Printer.trim, List.dropWhile, this]

theorem newline_mid (y : UInt8) (r : Bytes) (m : Nat) (hy : OKByte y) :
    Printer.newline ⟨y :: r, [], m⟩ = ⟨tabs m ++ 10 :: y :: r, [], m⟩ := by
  have h10 : y ≠ 10 := hy.2.2
  unfold Printer.newline
  simp only [List.isEmpty_nil, if_true, trim_mid y r m hy]
  split
  · rename_i heq; simp at heq
  · rename_i heq
    simp only [List.cons.injEq] at heq
    exact absurd heq.1 h10
  · rfl

theorem newline_bol (k m : Nat) (base : Bytes) (hc : Clean1 base) :
    Printer.newline ⟨tabs k ++ base, [], m⟩ = ⟨tabs m ++ 10 :: base, [], m⟩ := by
  obtain ⟨y, r, hbase, hy⟩ := hc
  unfold Printer.newline
  simp only [List.isEmpty_nil, if_true, trim_bol k m base (Or.inr ⟨_, hbase⟩)]
  subst hbase
  split
  · rename_i heq; simp at heq
  · rename_i heq
    simp only [List.cons.injEq, true_and] at heq
    exact absurd heq.1 hy
  · rfl

/-! ### comment lines -/

/-- the printing-side view of a comment list: a blank line may only be printed after a non-blank one -/
def PrBefore : Bool → List Comment → Prop
  | _, [] => True
  | allow, c :: cs =>
    if (GoStrings.trimSpace c.token).isEmpty then allow = true ∧ PrBefore false cs
    else LastOK (GoStrings.trimSpace c.token) ∧ PrBefore true cs

theorem commentOK_lastOK {c : Bytes} (h : CommentOK c) :
    (GoStrings.trimSpace c).isEmpty = false ∧ LastOK (GoStrings.trimSpace c) := by
  obtain ⟨e, _, hok⟩ := trimSpace_comment h
  obtain ⟨t, ht⟩ := commentOK_cons hok
  have hne : GoStrings.trimSpace c ≠ [] := by rw [ht]; simp
  refine ⟨by simpa using hne, ?_⟩
  cases hl : (GoStrings.trimSpace c).getLast? with
  | none => simp at hl; exact absurd hl hne
  | some y =>
    obtain ⟨h1, h2, _, h4⟩ := trimSpace_comment_last h y hl
    exact ⟨y, hl, h2, h1, h4⟩

theorem prBefore_of_blk : ∀ (cs : List Comment) (allow : Bool), BlkBeforeOK allow cs → PrBefore allow cs := by
  intro cs
  induction cs with
  | nil => intro _ _; trivial
  | cons c cs ih =>
    intro allow h
    unfold BlkBeforeOK at h
    unfold PrBefore
    by_cases he : c.token.isEmpty = true
    · simp only [he, if_true] at h
      have : c.token = [] := by simpa using he
      simp only [this, trimSpace_nil, List.isEmpty_nil, if_true]
      exact ⟨h.1, ih false h.2.2⟩
    · simp only [he, Bool.false_eq_true, if_false] at h
      obtain ⟨hne, hl⟩ := commentOK_lastOK h.2.1
      simp only [hne, Bool.false_eq_true, if_false]
      exact ⟨hl, ih true h.2.2⟩

theorem prBefore_of_top : ∀ (cs : List Comment) (allow : Bool), TopBeforeOK cs → PrBefore allow cs := by
  intro cs
  induction cs with
  | nil => intro _ _; trivial
  | cons c cs ih =>
    intro allow h
    unfold PrBefore
    obtain ⟨hne, hl⟩ := commentOK_lastOK (h c (by simp)).2
    simp only [hne, Bool.false_eq_true, if_false]
    exact ⟨hl, ih true (fun c' hc' => h c' (by simp [hc']))⟩

/-- the last comment of the list is printed as a non-blank line -/
def LastReal (cs : List Comment) : Prop :=
  ∃ c, cs.getLast? = some c ∧ (GoStrings.trimSpace c.token).isEmpty = false

theorem commentLines_eq : ∀ (cs : List Comment) (m : Nat) (allow : Bool) (base : Bytes), BOL base →
    PrBefore allow cs → (allow = true → Clean1 base) →
    Printer.commentLines ⟨tabs m ++ base, [], m⟩ cs = ⟨tabs m ++ ((rBefore m cs).reverse ++ base), [], m⟩ ∧
      BOL ((rBefore m cs).reverse ++ base) ∧ (LastReal cs → Clean1 ((rBefore m cs).reverse ++ base)) := by
  intro cs
  induction cs with
  | nil =>
    intro m allow base hb _ _
    refine ⟨by simp [Printer.commentLines, rBefore], by simpa [rBefore] using hb, ?_⟩
    intro ⟨c, hc, _⟩; simp at hc
  | cons c cs ih =>
    intro m allow base hb hp hallow
    unfold PrBefore at hp
    by_cases he : (GoStrings.trimSpace c.token).isEmpty = true
    · simp only [he, if_true] at hp
      have het : GoStrings.trimSpace c.token = [] := by simpa using he
      have hc1 := hallow hp.1
      have hstep : (Printer.write ⟨tabs m ++ base, [], m⟩ (GoStrings.trimSpace c.token)).newline =
          ⟨tabs m ++ 10 :: base, [], m⟩ := by
        rw [het]
        simp only [Printer.write, List.reverse_nil, List.nil_append]
        exact newline_bol m m base hc1
      obtain ⟨h1, h2, h3⟩ := ih m false (10 :: base) (Or.inr ⟨_, rfl⟩) hp.2 (by intro h; cases h)
      have hr : (rBefore m (c :: cs)).reverse ++ base = (rBefore m cs).reverse ++ 10 :: base := by
        simp [rBefore, het]
      refine ⟨?_, by rw [hr]; exact h2, ?_⟩
      · simp only [Printer.commentLines]
        rw [hstep, h1, hr]
      · intro ⟨c', hc', hne'⟩
        rw [hr]
        cases cs with
        | nil =>
          simp at hc'
          subst hc'
          rw [he] at hne'; cases hne'
        | cons c2 cs2 =>
          apply h3
          refine ⟨c', ?_, hne'⟩
          simpa using hc'
    · simp only [he, Bool.false_eq_true, if_false] at hp
      obtain ⟨y, r, hrev, hy⟩ := hp.1.rev
      have hstep : (Printer.write ⟨tabs m ++ base, [], m⟩ (GoStrings.trimSpace c.token)).newline =
          ⟨tabs m ++ 10 :: ((GoStrings.trimSpace c.token).reverse ++ (tabs m ++ base)), [], m⟩ := by
        simp only [Printer.write]
        rw [hrev]
        exact newline_mid y _ m hy
      have hclean : Clean1 (10 :: ((GoStrings.trimSpace c.token).reverse ++ (tabs m ++ base))) := by
        rw [hrev]; exact ⟨y, _, rfl, hy.2.2⟩
      obtain ⟨h1, h2, h3⟩ := ih m true _ hclean.bol hp.2 (fun _ => hclean)
      have hr : (rBefore m (c :: cs)).reverse ++ base =
          (rBefore m cs).reverse ++ 10 :: ((GoStrings.trimSpace c.token).reverse ++ (tabs m ++ base)) := by
        have hne : GoStrings.trimSpace c.token ≠ [] := by simpa using he
        simp [rBefore, hne, tabs_reverse]
      refine ⟨?_, by rw [hr]; exact h2, ?_⟩
      · simp only [Printer.commentLines]
        rw [hstep, h1, hr]
      · intro ⟨c', hc', hne'⟩
        rw [hr]
        cases cs with
        | nil => simpa [rBefore] using hclean
        | cons c2 cs2 =>
          apply h3
          refine ⟨c', ?_, hne'⟩
          simpa using hc'

theorem indent_bol (base : Bytes) (c : List Comment) (m : Nat) (hb : BOL base) : Printer.indent ⟨base, c, m⟩ = 0 := by
  rcases hb with h | ⟨r, h⟩ <;> subst h <;> simp [Printer.indent, List.takeWhile]

theorem emitBefore_eq (cs : List Comment) (m : Nat) (allow : Bool) (base : Bytes) (hb : BOL base)
    (hp : PrBefore allow cs) (hallow : allow = true → Clean1 base) :
    Printer.emitBefore ⟨tabs m ++ base, [], m⟩ cs = ⟨tabs m ++ ((rBefore m cs).reverse ++ base), [], m⟩ ∧
      BOL ((rBefore m cs).reverse ++ base) ∧ (LastReal cs → Clean1 ((rBefore m cs).reverse ++ base)) := by
  cases cs with
  | nil =>
    refine ⟨by simp [Printer.emitBefore, rBefore], by simpa [rBefore] using hb, ?_⟩
    intro ⟨c, hc, _⟩; simp at hc
  | cons c cs =>
    obtain ⟨h1, h2, h3⟩ := commentLines_eq (c :: cs) m allow base hb hp hallow
    refine ⟨?_, h2, h3⟩
    unfold Printer.emitBefore
    simp only [List.isEmpty_cons, Bool.false_eq_true, if_false, trim_bol m m base hb, indent_bol base [] m hb,
      Nat.lt_irrefl, Printer.tabs]
    exact h1

end ModVerif.Proofs.ModfileFmtRender
