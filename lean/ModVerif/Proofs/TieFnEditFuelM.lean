/-
  Closed fuel of the go.work session ties (agent edit-fuel5), helper part M: the potential `WW` of a go.work model state,
  the fuel demand `stepFuelW` of one go.work operation linear in it (`stepFuelW_le`), the growth of the potential operation
  by operation (`applyWork_WW`), and the session lemmas `fuelOKW_of_WW`, `runW_WW`, `finalFuelW_of_WW` — every go.work
  operation except the bulk setter `WorkFile.SetUse` (`NotSetUse`).  The tree-primitive growth lemmas are those of
  Proofs/TieFnEditFuelA.lean; `autoQuote_length` (part F) pays for the quoted directory of `AddUse`.
-/
import ModVerif.Proofs.TieFnEditFuelF
import ModVerif.Proofs.TieFnEditSessionW
set_option linter.unusedSimpArgs false
set_option linter.unusedVariables false
namespace ModVerif.Tie.FnEditFuelM
open ModVerif ModVerif.Modfile ModVerif.Tie.FnEditFuelA ModVerif.Tie.FnEditFuelB ModVerif.Tie.FnEditFuelC
open ModVerif.Tie.FnEditFuelF
open ModVerif.Tie.FnEditSessionA ModVerif.Tie.FnEditSessionB ModVerif.Tie.FnEditSessionW
open ModVerif.TieFnEditAddLine (nodeCount)
open ModVerif.Tie.FnEditSortB (nodes)
open ModVerif.Tie.FnEditSortC (workDupsSize)
open ModVerif.Tie.FnEditSortE (sortSize workSortFuel)
open ModVerif.Tie.FnEditSortG (workCleanSize)
open ModVerif.Modfile.Edit (EWork EditErr applyWork treeIds firstRest clearAll insertAt mkLine)

/-! ### the potential -/

def goLenW (e : EWork) : Nat := match e.f.go with | some g => g.version.length | none => 0

/-- **the potential of a go.work model state** -/
def WW (e : EWork) : Nat :=
  treeW e.f.syn.stmts + e.f.godebug.length + e.f.use.length + e.f.replace.length + goLenW e

/-- the growth allowance of one operation, from the raw byte lengths of its arguments -/
def GR (op : EditSpec.Op) : Nat := 20 * rawSize op + 32

/-- the operation is not the bulk setter `WorkFile.SetUse` -/
def NotSetUse : EditSpec.Op → Prop
  | .setUse _ => False
  | _ => True

theorem length_le_treeW : ∀ ss : List Expr, ss.length ≤ treeW ss
  | [] => Nat.le_refl _
  | s :: ss => by
    have := length_le_treeW ss; have := exprW_pos s
    simp only [List.length_cons, treeW_cons]; omega

theorem workSortFuel_le (e : EWork) : workSortFuel e ≤ 3 * WW e + 1 := by
  have h1 := nodes_le_treeW e.f.syn.stmts
  have h2 := sortSize_le_treeW e.f.syn.stmts
  unfold workSortFuel workDupsSize WW
  omega

theorem cleanupFuelW_le (e : EWork) : stepFuelW e .cleanup ≤ WW e + 1 := by
  have h1 := nodes_le_treeW e.f.syn.stmts
  simp only [stepFuelW, workCleanSize]
  unfold WW
  omega

/-- **the fuel demand of one go.work operation (not SetUse) is linear in the potential and the operation's raw size** -/
theorem stepFuelW_le (e : EWork) (op : EditSpec.Op) (hb : NotSetUse op) : stepFuelW e op ≤ 3 * (WW e + GR op) := by
  have hn := nodeCount_le_treeW e.f.syn.stmts
  have hl := length_le_treeW e.f.syn.stmts
  cases op <;> simp only [stepFuelW, GR, rawSize] <;> try (unfold WW; omega)
  case setUse w => exact hb.elim
  case sortBlocks => have := workSortFuel_le e; omega
  case cleanup => have := cleanupFuelW_le e; simp only [stepFuelW] at this; omega

/-! ### growth of the potential, operation by operation -/

theorem workAddGoStmt_WW (e e' : EWork) (v : Bytes) (hn : (treeIds e.f.syn.stmts).Nodup) (h : Edit.workAddGoStmt e v = .ok e') :
    WW e' ≤ WW e + 4 * v.length + 32 := by
  unfold Edit.workAddGoStmt at h
  split at h
  · cases h
  · cases hg : e.f.go with
    | none =>
      simp only [hg, Except.ok.injEq] at h
      subst h
      have h1 := insertAt_treeW e.f.syn.stmts (Edit.firstNonComment e.f.syn.stmts 0) (.line (mkLine e.next [B "go", v] false))
      simp only [exprW, lineW_mkLine] at h1
      rw [tokW2, len_go] at h1
      simp only [WW, goLenW, hg] at *
      omega
    | some g =>
      simp only [hg, Except.ok.injEq] at h
      subst h
      have h1 := editUpdateLine_treeW e.f.syn g.lineId [B "go", v] hn
      rw [tokW2, len_go] at h1
      simp only [WW, goLenW, hg] at *
      omega

theorem workDropGoStmt_WW (e : EWork) : WW (Edit.workDropGoStmt e) ≤ WW e := by
  unfold Edit.workDropGoStmt
  cases hg : e.f.go with
  | none => exact Nat.le_refl _
  | some g =>
    have h1 := markRemoved_treeW e.f.syn g.lineId
    simp only [WW, goLenW, hg] at *
    omega

theorem workAddToolchainStmt_WW (e e' : EWork) (n : Bytes) (hn : (treeIds e.f.syn.stmts).Nodup)
    (h : Edit.workAddToolchainStmt e n = .ok e') : WW e' ≤ WW e + 4 * n.length + 32 := by
  unfold Edit.workAddToolchainStmt at h
  split at h
  · cases h
  · cases hg : e.f.toolchain with
    | none =>
      simp only [hg, Except.ok.injEq] at h
      subst h
      have key : ∀ i : Nat, WW ({ f := { e.f with toolchain := some { name := n, lineId := e.next }, syn := { e.f.syn with stmts := insertAt e.f.syn.stmts i (.line (mkLine e.next [B "toolchain", n] false)) } }, next := e.next + 1 } : EWork) ≤ WW e + 4 * n.length + 32 := by
        intro i
        have h1 := insertAt_treeW e.f.syn.stmts i (.line (mkLine e.next [B "toolchain", n] false))
        simp only [exprW, lineW_mkLine] at h1
        rw [tokW2, len_toolchain] at h1
        simp only [WW, goLenW] at *
        omega
      exact key _
    | some t =>
      simp only [hg, Except.ok.injEq] at h
      subst h
      have h1 := editUpdateLine_treeW e.f.syn t.lineId [B "toolchain", n] hn
      rw [tokW2, len_toolchain] at h1
      simp only [WW, goLenW] at *
      omega

theorem workDropToolchainStmt_WW (e : EWork) : WW (Edit.workDropToolchainStmt e) ≤ WW e := by
  unfold Edit.workDropToolchainStmt
  cases hg : e.f.toolchain with
  | none => exact Nat.le_refl _
  | some g =>
    have h1 := markRemoved_treeW e.f.syn g.lineId
    simp only [WW, goLenW] at *
    omega

theorem workAddGodebug_WW (e e' : EWork) (k v : Bytes) (hn : (treeIds e.f.syn.stmts).Nodup) (h : Edit.workAddGodebug e k v = .ok e') :
    WW e' ≤ WW e + 4 * (k.length + v.length) + 32 := by
  unfold Edit.workAddGodebug Edit.addGodebugCore at h
  simp only [bind, Except.bind] at h
  cases hfr : firstRest (fun g : Godebug => g.key == k) (·.lineId) (fun g => { g with value := v }) Edit.clearedGodebug e.f.godebug true with
  | error err => simp [hfr] at h
  | ok r =>
    obtain ⟨gd', first, dead⟩ := r
    have hl := firstRest_length _ _ _ _ _ _ _ _ _ hfr
    simp only [hfr] at h
    have ht : tokW [B "godebug", k ++ [61] ++ v] = 2 * k.length + 2 * v.length + 18 := by
      rw [tokW2, len_godebug]; simp; omega
    cases first with
    | some i =>
      simp only [pure, Except.pure, Except.ok.injEq] at h
      subst h
      have h1 := editUpdateLine_treeW e.f.syn i [B "godebug", k ++ [61] ++ v] hn
      have h2 := markAll_treeW dead (Edit.updateLine e.f.syn i [B "godebug", k ++ [61] ++ v])
      rw [ht] at h1
      simp only [WW, goLenW] at *
      omega
    | none =>
      simp only [pure, Except.pure, Except.ok.injEq] at h
      subst h
      have h1 := addLine_treeW e.f.syn none [B "godebug", k ++ [61] ++ v] e.next
      rw [ht] at h1
      simp only [WW, goLenW, List.length_append, List.length_cons, List.length_nil] at *
      omega

theorem workDropGodebug_WW (e e' : EWork) (k : Bytes) (h : Edit.workDropGodebug e k = .ok e') : WW e' ≤ WW e := by
  unfold Edit.workDropGodebug at h
  simp only [bind, Except.bind] at h
  cases hc : clearAll (fun g : Godebug => g.key == k) (·.lineId) Edit.clearedGodebug e.f.godebug with
  | error err => simp [hc] at h
  | ok r =>
    obtain ⟨gd, dead⟩ := r
    have hl := clearAll_length _ _ _ _ _ _ hc
    simp only [hc, pure, Except.pure, Except.ok.injEq] at h
    subst h
    have h2 := markAll_treeW dead e.f.syn
    simp only [WW, goLenW] at *
    omega

theorem len_use : (B "use").length = 3 := by decide +kernel

theorem addNewUse_WW (e : EWork) (d m : Bytes) : WW (Edit.addNewUse e d m) ≤ WW e + 8 * d.length + 20 := by
  have h1 := addLine_treeW e.f.syn none [B "use", autoQuote d] e.next
  have h2 := autoQuote_length d
  rw [tokW2, len_use] at h1
  simp only [Edit.addNewUse, WW, goLenW, List.length_append, List.length_cons, List.length_nil] at *
  omega

theorem addUse_WW (e e' : EWork) (d m : Bytes) (hn : (treeIds e.f.syn.stmts).Nodup) (h : Edit.addUse e d m = .ok e') :
    WW e' ≤ WW e + 8 * d.length + 20 := by
  unfold Edit.addUse at h
  simp only [bind, Except.bind] at h
  cases hfr : firstRest (fun u : Use => u.path == d) (·.lineId) (fun u => { u with modulePath := m }) Edit.clearedUse e.f.use true with
  | error err => simp [hfr] at h
  | ok r =>
    obtain ⟨us, first, dead⟩ := r
    have hl := firstRest_length _ _ _ _ _ _ _ _ _ hfr
    simp only [hfr] at h
    cases first with
    | some i =>
      simp only [pure, Except.pure, Except.ok.injEq] at h
      subst h
      have h1 := editUpdateLine_treeW e.f.syn i [B "use", autoQuote d] hn
      have h2 := markAll_treeW dead (Edit.updateLine e.f.syn i [B "use", autoQuote d])
      have h3 := autoQuote_length d
      rw [tokW2, len_use] at h1
      simp only [WW, goLenW] at *
      omega
    | none =>
      simp only [pure, Except.pure, Except.ok.injEq] at h
      subst h
      exact addNewUse_WW e d m

theorem dropUse_WW (e e' : EWork) (p : Bytes) (h : Edit.dropUse e p = .ok e') : WW e' ≤ WW e := by
  unfold Edit.dropUse at h
  simp only [bind, Except.bind] at h
  cases hc : clearAll (fun u : Use => u.path == p) (·.lineId) Edit.clearedUse e.f.use with
  | error err => simp [hc] at h
  | ok r =>
    obtain ⟨gd, dead⟩ := r
    have hl := clearAll_length _ _ _ _ _ _ hc
    simp only [hc, pure, Except.pure, Except.ok.injEq] at h
    subst h
    have h2 := markAll_treeW dead e.f.syn
    simp only [WW, goLenW] at *
    omega

theorem workDropReplace_WW (e e' : EWork) (a b : Bytes) (h : Edit.workDropReplace e a b = .ok e') : WW e' ≤ WW e := by
  unfold Edit.workDropReplace Edit.dropReplaceCore at h
  simp only [bind, Except.bind] at h
  cases hc : clearAll (fun r : Replace => r.old.path == a && r.old.version == b) (·.lineId) Edit.clearedReplace e.f.replace with
  | error err => simp [hc] at h
  | ok r =>
    obtain ⟨gd, dead⟩ := r
    have hl := clearAll_length _ _ _ _ _ _ hc
    simp only [hc, pure, Except.pure, Except.ok.injEq] at h
    subst h
    have h2 := markAll_treeW dead e.f.syn
    simp only [WW, goLenW] at *
    omega

theorem workAddReplace_WW (e e' : EWork) (a b c d : Bytes) (hn : (treeIds e.f.syn.stmts).Nodup)
    (h : Edit.workAddReplace e a b c d = .ok e') :
    WW e' ≤ WW e + 8 * a.length + 2 * b.length + 8 * c.length + 2 * d.length + 40 := by
  unfold Edit.workAddReplace Edit.addReplaceCore at h
  simp only [bind, Except.bind] at h
  have ht := replaceToks_W a b c d
  have q1 := autoQuote_length a
  have q2 := autoQuote_length c
  generalize ([B "replace", autoQuote a] ++ (if b.isEmpty then [] else [b]) ++ [B "=>", autoQuote c] ++ (if d.isEmpty then [] else [d])) = toks at h ht
  cases hfr : firstRest (fun r : Replace => r.old.path == a && (b.isEmpty || r.old.version == b)) (·.lineId)
      (fun r => { r with old := { path := a, version := b }, new := { path := c, version := d } }) Edit.clearedReplace e.f.replace true with
  | error err => simp [hfr] at h
  | ok r =>
    obtain ⟨rp, first, dead⟩ := r
    have hl := firstRest_length _ _ _ _ _ _ _ _ _ hfr
    simp only [hfr] at h
    cases first with
    | some i =>
      simp only [pure, Except.pure, Except.ok.injEq] at h
      subst h
      have h1 := editUpdateLine_treeW e.f.syn i toks hn
      have h2 := markAll_treeW dead (Edit.updateLine e.f.syn i toks)
      simp only [WW, goLenW] at *
      omega
    | none =>
      simp only [pure, Except.pure, Except.ok.injEq] at h
      subst h
      have h1 := addLinePtr_treeW e.f.syn (Edit.lastWith (fun r : Replace => r.old.path == a) (·.lineId) e.f.replace none) toks e.next
      simp only [WW, goLenW, List.length_append, List.length_cons, List.length_nil] at *
      omega

theorem workSortBlocks_WW (e : EWork) : WW (Edit.workSortBlocks e) ≤ WW e := by
  simp only [Edit.workSortBlocks, Edit.removeDups, Option.map_none, WW, goLenW, sortStmts_treeW]
  have h1 := dropKilled_treeW ([] ++ Edit.killEarlier e.f.replace) e.f.syn.stmts
  have h3 := List.length_filter_le (fun x : Replace => !([] ++ Edit.killEarlier e.f.replace).contains x.lineId) e.f.replace
  omega

theorem workCleanup_WW (e : EWork) : WW (Edit.workCleanup e) ≤ WW e := by
  simp only [Edit.workCleanup, Edit.cleanupSyntax, WW, goLenW]
  have h1 := cleanupStmts_treeW e.f.syn.stmts
  have h2 := List.length_filter_le (fun g : Godebug => !g.key.isEmpty) e.f.godebug
  have h3 := List.length_filter_le (fun u : Use => !u.path.isEmpty) e.f.use
  have h5 := List.length_filter_le (fun r : Replace => !r.old.path.isEmpty) e.f.replace
  omega

/-- **one go.work operation (not SetUse) increases the potential by at most `GR op`** -/
theorem applyWork_WW (e e' : EWork) (op : EditSpec.Op) (hb : NotSetUse op) (hn : (treeIds e.f.syn.stmts).Nodup)
    (h : applyWork e (opM op) = some (.ok e')) : WW e' ≤ WW e + GR op := by
  cases op <;> simp only [opM, opR, applyWork, Option.some.injEq, Except.ok.injEq, reduceCtorEq] at h <;>
    simp only [GR, rawSize]
  · have := workAddGoStmt_WW e e' _ hn h; omega
  · subst h; have := workDropGoStmt_WW e; omega
  · have := workAddToolchainStmt_WW e e' _ hn h; omega
  · subst h; have := workDropToolchainStmt_WW e; omega
  · have := workAddGodebug_WW e e' _ _ hn h; omega
  · have := workDropGodebug_WW e e' _ h; omega
  · have := workAddReplace_WW e e' _ _ _ _ hn h; omega
  · have := workDropReplace_WW e e' _ _ h; omega
  · subst h; have := workSortBlocks_WW e; omega
  · subst h; have := workCleanup_WW e; omega
  · have := addUse_WW e e' _ _ hn h; omega
  · subst h; rename_i d m; have := addNewUse_WW e d m; omega
  · have := dropUse_WW e e' _ h; omega
  · exact hb.elim

/-! ### sessions -/

theorem opsR_cons (op : EditSpec.Op) (ops : List EditSpec.Op) : opsR (op :: ops) = GR op + opsR ops := by
  simp [opsR, GR]

/-- **the fuel of every step of the go.work model run from the initial potential and the raw operation sizes** -/
theorem fuelOKW_of_WW (fuel : Nat) : ∀ (ops : List EditSpec.Op) (e : EWork), Edit.InvW e → Edit.RunValidW e (ops.map opM) →
    (∀ op ∈ ops, NotSetUse op) → 3 * (WW e + opsR ops) ≤ fuel → FuelOKW fuel e ops
  | [], _, _, _, _, _ => trivial
  | op :: ops, e, hi, hv, hb, hf => by
    obtain ⟨hargs, hvn, hvr⟩ := hv
    have hb1 : NotSetUse op := hb op List.mem_cons_self
    have hb2 : ∀ o ∈ ops, NotSetUse o := fun o ho => hb o (List.mem_cons_of_mem _ ho)
    rw [opsR_cons] at hf
    refine ⟨?_, ?_, ?_⟩
    · have := stepFuelW_le e op hb1; omega
    · intro e' hx
      have hw := applyWork_WW e e' op hb1 hi.tree.nodup hx
      exact fuelOKW_of_WW fuel ops e' (Edit.applyWork_inv_all e e' _ hargs hi hx) (hvn e' hx) hb2 (by omega)
    · intro err hx hr
      exact fuelOKW_of_WW fuel ops e hi (hvr err hx hr) hb2 (by omega)

/-- **the potential after a go.work run** -/
theorem runW_WW : ∀ (ops : List EditSpec.Op) (e : EWork) (acc : List Bool) (i : Nat) (e' : EWork) (res : List Bool),
    Edit.InvW e → Edit.RunValidW e (ops.map opM) → (∀ op ∈ ops, NotSetUse op) →
    Edit.runOps applyWork e (ops.map opM) acc i = .done e' res → WW e' ≤ WW e + opsR ops
  | [], e, acc, i, e', res, _, _, _, h => by
    simp only [List.map_nil, Edit.runOps, Edit.SessionResult.done.injEq] at h
    rw [← h.1]; simp [opsR]
  | op :: ops, e, acc, i, e', res, hi, hv, hb, h => by
    obtain ⟨hargs, hvn, hvr⟩ := hv
    have hb1 : NotSetUse op := hb op List.mem_cons_self
    have hb2 : ∀ o ∈ ops, NotSetUse o := fun o ho => hb o (List.mem_cons_of_mem _ ho)
    simp only [List.map_cons, Edit.runOps] at h
    rw [opsR_cons]
    cases hx : applyWork e (opM op) with
    | none => rw [hx] at h; cases h
    | some x =>
      cases x with
      | ok e1 =>
        rw [hx] at h
        have hw := applyWork_WW e e1 op hb1 hi.tree.nodup hx
        have := runW_WW ops e1 _ _ e' res (Edit.applyWork_inv_all e e1 _ hargs hi hx) (hvn e1 hx) hb2 h
        omega
      | error err =>
        rw [hx] at h
        simp only [] at h
        split at h
        · rename_i hr
          have := runW_WW ops e _ _ e' res hi (hvr err hx hr) hb2 h
          omega
        · cases h

/-- the fuel of the final Cleanup of a go.work session -/
theorem finalFuelW_of_WW (fuel : Nat) (ops : List EditSpec.Op) (e : EWork) (hi : Edit.InvW e)
    (hv : Edit.RunValidW e (ops.map opM)) (hb : ∀ op ∈ ops, NotSetUse op) (hf : WW e + opsR ops + 1 ≤ fuel) :
    FinalFuelW fuel e ops := by
  intro e' res hx
  have h1 := runW_WW ops e [] 0 e' res hi hv hb hx
  have h2 := cleanupFuelW_le e'
  omega

end ModVerif.Tie.FnEditFuelM
