/-
  C20, directive layer (rule.go parsing half, work.go): `File.add` split into one definition per verb,
  and what every error the directive layer reports looks like: it is positioned at the start of a line
  or block of the syntax tree and its kind is never a syntax-layer kind (in particular never one of the
  "internal error" kinds).
-/
import ModVerif.Model.Modfile.Work
namespace ModVerif.Proofs.ModfileC20
open ModVerif ModVerif.Modfile

def NotSyn (k : RuleErrKind) : Prop := ∀ s, k ≠ .syn s

/-- `new` extends `old` at the front by errors satisfying `P` -/
def ErrsExt (P : RuleErr → Prop) (old new : List RuleErr) : Prop := ∃ add, new = add ++ old ∧ ∀ e ∈ add, P e

theorem ErrsExt.refl {P : RuleErr → Prop} (l : List RuleErr) : ErrsExt P l l := ⟨[], rfl, by intro e h; cases h⟩

theorem ErrsExt.one {P : RuleErr → Prop} {l : List RuleErr} {e : RuleErr} (h : P e) : ErrsExt P l (e :: l) :=
  ⟨[e], rfl, by intro x hx; simp at hx; subst hx; exact h⟩

theorem ErrsExt.trans {P : RuleErr → Prop} {a b c : List RuleErr} (h1 : ErrsExt P a b) (h2 : ErrsExt P b c) : ErrsExt P a c := by
  obtain ⟨x, rfl, hx⟩ := h1
  obtain ⟨y, rfl, hy⟩ := h2
  refine ⟨y ++ x, by simp, ?_⟩
  intro e he
  simp only [List.mem_append] at he
  rcases he with he | he
  · exact hy e he
  · exact hx e he

/-- a (tokens, result) pair whose error, if any, is not a syntax-layer kind -/
def PairNotSyn {α β : Type} (r : β × Except RuleErrKind α) : Prop := ∀ e, r.2 = .error e → NotSyn e

theorem pairNotSyn_ok {α β : Type} (b : β) (a : α) : PairNotSyn (b, (.ok a : Except RuleErrKind α)) := by
  intro e h; cases h

theorem pairNotSyn_err {α β : Type} (b : β) {k : RuleErrKind} (hk : NotSyn k) :
    PairNotSyn (b, (.error k : Except RuleErrKind α)) := by
  intro e h; cases h; exact hk

macro "notsyn_leaf" : tactic =>
  `(tactic| first
    | exact pairNotSyn_ok _ _
    | (refine pairNotSyn_err _ ?_; intro s hs; cases hs))

theorem parseVersion_notSyn (p t : Bytes) (fix : Option Fixer) : PairNotSyn (parseVersion p t fix) := by
  unfold parseVersion
  repeat' (first | split | (dsimp only))
  all_goals notsyn_leaf

theorem notSyn_of_pair {α β : Type} {r : β × Except RuleErrKind α} {b : β} {e : RuleErrKind}
    (h : PairNotSyn r) (heq : r = (b, .error e)) : NotSyn e := by
  subst heq; exact h e rfl

macro "notsyn_leaf2" : tactic =>
  `(tactic| first
    | exact pairNotSyn_ok _ _
    | (refine pairNotSyn_err _ ?_; intro s hs; cases hs; done)
    | (refine pairNotSyn_err _ ?_; rename_i heq; exact notSyn_of_pair (parseVersion_notSyn _ _ _) heq))

theorem parseVersionInterval_notSyn (p : Bytes) (toks : List Bytes) (fix : Option Fixer) :
    PairNotSyn (parseVersionInterval p toks fix) := by
  unfold parseVersionInterval
  repeat' (first | split | (dsimp only))
  all_goals notsyn_leaf2

macro "notsyn_leaf3" : tactic =>
  `(tactic| first
    | exact pairNotSyn_ok _ _
    | (refine pairNotSyn_err _ ?_; intro s hs; cases hs; done)
    | (refine pairNotSyn_err _ ?_; exact notSyn_of_pair (parseVersion_notSyn _ _ _) (by assumption)))

theorem parseReplace_notSyn (lineId : Nat) (args : List Bytes) (fix : Option Fixer) :
    PairNotSyn (parseReplace lineId args fix) := by
  unfold parseReplace
  repeat' (first | split | (dsimp only))
  all_goals (first
    | notsyn_leaf3
    | (rename_i heq
       split at heq <;> simp only [Prod.mk.injEq, Except.error.injEq, reduceCtorEq, and_false] at heq <;>
         (try (obtain ⟨_, rfl⟩ := heq)) <;> notsyn_leaf3))

/-- what `File.add` / `WorkFile.add` may append to the error list for a line -/
def LineErr (line : Line) (e : RuleErr) : Prop := e.pos = line.start ∧ NotSyn e.kind

/-- the error list of the first component extends `old` by errors satisfying `P` -/
def FstExt {σ β : Type} (errs : σ → List RuleErr) (P : RuleErr → Prop) (old : List RuleErr) (r : σ × β) : Prop :=
  ErrsExt P old (errs r.1)

macro "adderr_leaf" : tactic =>
  `(tactic| first
    | exact ErrsExt.refl _
    | (refine ErrsExt.one ⟨rfl, ?_⟩; intro s hs; cases hs; done)
    | (refine ErrsExt.one ⟨rfl, ?_⟩; exact notSyn_of_pair (parseVersion_notSyn _ _ _) (by assumption))
    | (refine ErrsExt.one ⟨rfl, ?_⟩; exact notSyn_of_pair (parseVersionInterval_notSyn _ _ _) (by assumption))
    | (refine ErrsExt.one ⟨rfl, ?_⟩; exact notSyn_of_pair (parseReplace_notSyn _ _ _) (by assumption)))

/-! ### `File.add`, one definition per verb (twins of the branches of the model's `File.add`) -/

def addGo (st : AddState) (line : Line) (args : List Bytes) (strict : Bool) : AddState × List Bytes :=
  let f := st.file
  let pos := line.start
  if f.go.isSome then (st.err pos .repeatedGo, args) else
  match args with
  | [a] =>
    if goVersionRE a then ({ st with file := { f with go := some { version := a, lineId := line.id } } }, args)
    else
      match (if strict then none else laxGoVersionRE a) with
      | some m1 => ({ st with file := { f with go := some { version := m1, lineId := line.id } } }, [m1])
      | none => (st.err pos .invalidGoVersion, args)
  | _ => (st.err pos .goArgs, args)

def addToolchain (st : AddState) (line : Line) (args : List Bytes) : AddState × List Bytes :=
  let f := st.file
  let pos := line.start
  if f.toolchain.isSome then (st.err pos .repeatedToolchain, args) else
  match args with
  | [a] =>
    if !toolchainRE a then (st.err pos .invalidToolchain, args)
    else ({ st with file := { f with toolchain := some { name := a, lineId := line.id } } }, args)
  | _ => (st.err pos .toolchainArgs, args)

def addModule (st : AddState) (block : Option Comments) (line : Line) (args : List Bytes) : AddState × List Bytes :=
  let f := st.file
  let pos := line.start
  if f.module.isSome then (st.err pos .repeatedModule, args) else
  let deprecated := parseDeprecation block line.comments
  let m : Module := { lineId := line.id, deprecated := deprecated }
  let st := { st with file := { f with module := some m } }
  match args with
  | [a] =>
    match parseString a with
    | none => (st.err pos .invalidQuotedString, args)
    | some (s, a') => ({ st with file := { st.file with module := some { m with mod := { path := s } } } }, [a'])
  | _ => (st.err pos .moduleUsage, args)

def addGodebugV (st : AddState) (line : Line) (args : List Bytes) : AddState × List Bytes :=
  let f := st.file
  let pos := line.start
  match addGodebug args with
  | none => (st.err pos .godebugUsage, args)
  | some (k, v) => ({ st with file := { f with godebug := f.godebug ++ [{ key := k, value := v, lineId := line.id }] } }, args)

def addReqExc (st : AddState) (line : Line) (verb : Bytes) (args : List Bytes) (fix : Option Fixer) :
    AddState × List Bytes :=
  let f := st.file
  let pos := line.start
  match args with
  | [a0, a1] =>
    match parseString a0 with
    | none => (st.err pos .invalidQuotedString, args)
    | some (s, a0') =>
      match parseVersion s a1 fix with
      | (a1', .error e) => (st.err pos e, [a0', a1'])
      | (a1', .ok v) =>
        match modulePathMajor s with
        | none => (st.err pos .invalidModulePath, [a0', a1'])
        | some pathMajor =>
          if !Module.checkPathMajor v pathMajor then (st.err pos .pathMajorMismatch, [a0', a1'])
          else if verb == B "require" then
            ({ st with file := { f with require := f.require ++
                [{ mod := { path := s, version := v }, indirect := isIndirect line, lineId := line.id }] } }, [a0', a1'])
          else
            ({ st with file := { f with exclude := f.exclude ++
                [{ mod := { path := s, version := v }, lineId := line.id }] } }, [a0', a1'])
  | _ => (st.err pos .requireUsage, args)

def addReplaceV (st : AddState) (line : Line) (args : List Bytes) (fix : Option Fixer) : AddState × List Bytes :=
  let f := st.file
  let pos := line.start
  match parseReplace line.id args fix with
  | (args', .error e) => (st.err pos e, args')
  | (args', .ok r) => ({ st with file := { f with replace := f.replace ++ [r] } }, args')

def addRetractV (st : AddState) (block : Option Comments) (line : Line) (args : List Bytes) (strict : Bool) :
    AddState × List Bytes :=
  let f := st.file
  let pos := line.start
  let rationale := parseDirectiveComment block line.comments
  match parseVersionInterval [] args (some dontFixRetract) with
  | (args', .error e) =>
    if strict then (st.err pos e, args') else (st, args')
  | (args', .ok (vi, rest)) =>
    if !rest.isEmpty && strict then (st.err pos .tokenAfterVersion, args')
    else ({ st with file := { f with retract := f.retract ++
            [{ interval := vi, rationale := rationale, lineId := line.id }] } }, args')

def addToolV (st : AddState) (line : Line) (args : List Bytes) : AddState × List Bytes :=
  let f := st.file
  let pos := line.start
  match args with
  | [a] =>
    match parseString a with
    | none => (st.err pos .invalidQuotedString, args)
    | some (s, a') => ({ st with file := { f with tool := f.tool ++ [{ path := s, lineId := line.id }] } }, [a'])
  | _ => (st.err pos .toolArgs, args)

/-- the model's `File.add` is the if-chain over these -/
theorem add_eq (st : AddState) (block : Option Comments) (line : Line) (verb : Bytes) (args : List Bytes)
    (fix : Option Fixer) (strict : Bool) :
    File.add st block line verb args fix strict =
      if !strict && !verbIn verb laxVerbs then (st, args)
      else if verb == B "go" then addGo st line args strict
      else if verb == B "toolchain" then addToolchain st line args
      else if verb == B "module" then addModule st block line args
      else if verb == B "godebug" then addGodebugV st line args
      else if verb == B "require" || verb == B "exclude" then addReqExc st line verb args fix
      else if verb == B "replace" then addReplaceV st line args fix
      else if verb == B "retract" then addRetractV st block line args strict
      else if verb == B "tool" then addToolV st line args
      else (st.err line.start .unknownDirective, args) := by
  rfl

macro "adderr_auto" : tactic =>
  `(tactic| (repeat' (first | split | (dsimp only))) <;> adderr_leaf)

theorem addGo_errs (st : AddState) (line : Line) (args : List Bytes) (strict : Bool) :
    FstExt AddState.errsRev (LineErr line) st.errsRev (addGo st line args strict) := by
  unfold addGo; adderr_auto

theorem addToolchain_errs (st : AddState) (line : Line) (args : List Bytes) :
    FstExt AddState.errsRev (LineErr line) st.errsRev (addToolchain st line args) := by
  unfold addToolchain; adderr_auto

theorem addModule_errs (st : AddState) (block : Option Comments) (line : Line) (args : List Bytes) :
    FstExt AddState.errsRev (LineErr line) st.errsRev (addModule st block line args) := by
  unfold addModule; adderr_auto

theorem addGodebugV_errs (st : AddState) (line : Line) (args : List Bytes) :
    FstExt AddState.errsRev (LineErr line) st.errsRev (addGodebugV st line args) := by
  unfold addGodebugV; adderr_auto

theorem addReqExc_errs (st : AddState) (line : Line) (verb : Bytes) (args : List Bytes) (fix : Option Fixer) :
    FstExt AddState.errsRev (LineErr line) st.errsRev (addReqExc st line verb args fix) := by
  unfold addReqExc; adderr_auto

theorem addReplaceV_errs (st : AddState) (line : Line) (args : List Bytes) (fix : Option Fixer) :
    FstExt AddState.errsRev (LineErr line) st.errsRev (addReplaceV st line args fix) := by
  unfold addReplaceV; adderr_auto

theorem addRetractV_errs (st : AddState) (block : Option Comments) (line : Line) (args : List Bytes) (strict : Bool) :
    FstExt AddState.errsRev (LineErr line) st.errsRev (addRetractV st block line args strict) := by
  unfold addRetractV; adderr_auto

theorem addToolV_errs (st : AddState) (line : Line) (args : List Bytes) :
    FstExt AddState.errsRev (LineErr line) st.errsRev (addToolV st line args) := by
  unfold addToolV; adderr_auto

/-- Every error `File.add` reports for a line is positioned at the start of that line and is not a
    syntax-layer kind. -/
theorem add_errs (st : AddState) (block : Option Comments) (line : Line) (verb : Bytes) (args : List Bytes)
    (fix : Option Fixer) (strict : Bool) :
    FstExt AddState.errsRev (LineErr line) st.errsRev (File.add st block line verb args fix strict) := by
  rw [add_eq]
  split
  · exact ErrsExt.refl _
  split
  · exact addGo_errs ..
  split
  · exact addToolchain_errs ..
  split
  · exact addModule_errs ..
  split
  · exact addGodebugV_errs ..
  split
  · exact addReqExc_errs ..
  split
  · exact addReplaceV_errs ..
  split
  · exact addRetractV_errs ..
  split
  · exact addToolV_errs ..
  · exact ErrsExt.one ⟨rfl, by intro s hs; cases hs⟩


theorem workAdd_errs (st : WorkState) (line : Line) (verb : Bytes) (args : List Bytes) (fix : Option Fixer) :
    FstExt WorkState.errsRev (LineErr line) st.errsRev (WorkFile.add st line verb args fix) := by
  unfold WorkFile.add; adderr_auto


/-! ### the statement loops -/

theorem ErrsExt.mono {P P' : RuleErr → Prop} {a b : List RuleErr} (hpp : ∀ e, P e → P' e) (h : ErrsExt P a b) :
    ErrsExt P' a b := by
  obtain ⟨x, rfl, hx⟩ := h
  exact ⟨x, rfl, fun e he => hpp e (hx e he)⟩

/-- an error at a position satisfying `Q`, of a non-syntax kind -/
def RErr (Q : Position → Prop) (e : RuleErr) : Prop := Q e.pos ∧ NotSyn e.kind

/-- the positions of a statement that the directive layer may report -/
def StmtPos (Q : Position → Prop) : Expr → Prop
  | .line l => Q l.start
  | .lineBlock b => Q b.start ∧ ∀ l ∈ b.lines, Q l.start
  | _ => True

theorem addBlockLines_errs (Q : Position → Prop) (block : Comments) (verb : Bytes) (fix : Option Fixer) (strict : Bool) :
    ∀ (ls : List Line) (st : AddState), (∀ l ∈ ls, Q l.start) →
    ErrsExt (RErr Q) st.errsRev (addBlockLines block verb fix strict st ls).1.errsRev := by
  intro ls
  induction ls with
  | nil => intro st _; exact ErrsExt.refl _
  | cons l rest ih =>
    intro st h
    unfold addBlockLines
    have h0 : ErrsExt (LineErr l) st.errsRev (File.add st (some block) l verb l.token fix strict).1.errsRev :=
      add_errs st (some block) l verb l.token fix strict
    have h1 : ErrsExt (RErr Q) st.errsRev (File.add st (some block) l verb l.token fix strict).1.errsRev :=
      ErrsExt.mono (fun e (he : LineErr l e) => ⟨he.1 ▸ h l (by simp), he.2⟩) h0
    exact ErrsExt.trans h1 (ih _ (fun x hx => h x (List.mem_cons_of_mem _ hx)))

theorem addStmts_errs (Q : Position → Prop) (fix : Option Fixer) (strict : Bool) :
    ∀ (xs : List Expr) (st : AddState), (∀ x ∈ xs, StmtPos Q x) →
    ErrsExt (RErr Q) st.errsRev (addStmts fix strict st xs).1.errsRev := by
  intro xs
  induction xs with
  | nil => intro st _; exact ErrsExt.refl _
  | cons x rest ih =>
    intro st h
    have hx := h x (by simp)
    have hrest := fun st' => ih st' (fun y hy => h y (List.mem_cons_of_mem _ hy))
    unfold addStmts
    cases x with
    | line l =>
      cases htok : l.token with
      | nil => simp only [htok]; exact hrest _
      | cons verb args =>
        simp only [htok]
        have h0 : ErrsExt (LineErr l) st.errsRev (File.add st none l verb args fix strict).1.errsRev :=
          add_errs st none l verb args fix strict
        have h1 : ErrsExt (RErr Q) st.errsRev (File.add st none l verb args fix strict).1.errsRev :=
          ErrsExt.mono (fun e (he : LineErr l e) => ⟨he.1 ▸ hx, he.2⟩) h0
        exact ErrsExt.trans h1 (hrest _)
    | lineBlock b =>
      have hone : ∀ st' : AddState, ErrsExt (RErr Q) st.errsRev (if strict then st.err b.start .unknownBlock else st).errsRev := by
        intro _
        cases strict
        · exact ErrsExt.refl _
        · exact ErrsExt.one ⟨hx.1, by intro s hs; cases hs⟩
      simp only
      split
      · split
        · exact ErrsExt.trans (addBlockLines_errs Q b.comments _ fix strict b.lines st hx.2) (hrest _)
        · exact ErrsExt.trans (hone st) (hrest _)
      · exact ErrsExt.trans (hone st) (hrest _)
    | commentBlock c => exact hrest _
    | lparen c => exact hrest _
    | rparen c => exact hrest _

end ModVerif.Proofs.ModfileC20
