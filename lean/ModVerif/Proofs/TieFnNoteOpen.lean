/-
  Tie proofs for sumdb/note/note.go (Generated/FnNote.lean vs Model/Note.lean), part 2: Open.
  Embeddings of the model's verifiers / notes / errors into the types of the generated code, bytes.LastIndex,
  the state relation of the signature loop (maps `seen` / `seenUnverified` as association lists), one iteration of
  the loop against the model's `openStep`, the loop against `openLoop`, and the whole function.
-/
import ModVerif.Proofs.TieFnNoteUtf8
import ModVerif.Proofs.Note
namespace ModVerif.TieFnNote
open ModVerif ModVerif.GoRt ModVerif.GoRtNote ModVerif.GoRtTile

abbrev GV := Generated.Note.Verifier
abbrev GNote := Generated.Note.Note
abbrev GSig := Generated.Note.Signature
abbrev GNH := Generated.Note.nameHash

/-! ### embeddings (as in Drv/GenNote.lean) -/

/-- a uint32 key hash as the integer the generated code computes with -/
def hashI (h : UInt32) : Int := Int.ofNat h.toNat

def toGV (v : Note.Verifier) : GV :=
  { Name := v.name, KeyHash := Int.ofNat v.hash.toNat, Verify := v.verify }

/-- the model's `Verifiers` as the `known.Verifier(name, hash)` function of the generated code: the error values are
    `&UnknownVerifierError{name, hash}`, the ambiguity error of `VerifierList`, and an arbitrary other error -/
def knownG (k : Note.Verifiers) : Bytes → Int → (GV × Option String) := fun name hash =>
  match k name (UInt32.ofNat hash.toNat) with
  | .found v => (toGV v, none)
  | .unknown => (default, errWith "UnknownVerifierError" [errHex name, toString hash])
  | .ambiguous => (default, errWith "ambiguousVerifierError" [errHex name, toString hash])
  | .otherErr => (default, some "other")

def embedSig (s : Note.Signature) : GSig := { Name := s.name, Hash := hashI s.hash, Base64 := s.base64 }

def embedNote (n : Note.Note) : GNote :=
  { Text := n.text, Sigs := n.sigs.map embedSig, UnverifiedSigs := n.unverifiedSigs.map embedSig }

/-- the error results of Open: `(*Note)(nil)` next to every error except `*UnverifiedNoteError{n}`, which carries the note -/
def embedErr : Note.OpenErr → GNote × Option String
  | .malformed => (default, some "errMalformedNote")
  | .unverified n => (embedNote n, some "UnverifiedNoteError")
  | .invalidSignature name hash => (default, errWith "InvalidSignatureError" [errHex name, toString (hashI hash)])
  | .ambiguous name hash => (default, errWith "ambiguousVerifierError" [errHex name, toString (hashI hash)])
  | .mismatchedVerifier => (default, some "errMismatchedVerifier")
  | .other => (default, some "other")

/-- the model's result of Open as the `(note, error)` pair of the generated code -/
def embedOpen : Except Note.OpenErr Note.Note → GNote × Option String
  | .ok n => (embedNote n, none)
  | .error e => embedErr e

/-! ### the error type test `err.(*UnknownVerifierError)` -/

theorem intercalate3 (x a b : String) : "|".intercalate [x, a, b] = x ++ "|" ++ (a ++ "|" ++ b) := by
  simp [String.intercalate_cons_cons, String.intercalate_singleton, String.append_assoc]

theorem errIs_unknown (a b : String) :
    errIs "UnknownVerifierError" (errWith "UnknownVerifierError" [a, b]) = true := by
  simp only [errIs, errWith, intercalate3, Bool.or_eq_true]
  right
  rw [String.startsWith_string_iff]
  simp [String.toList_append]

theorem errIs_ambiguous (a b : String) :
    errIs "UnknownVerifierError" (errWith "ambiguousVerifierError" [a, b]) = false := by
  simp only [errIs, errWith, intercalate3, Bool.or_eq_false_iff]
  constructor
  · rw [beq_eq_false_iff_ne]
    intro h
    have := congrArg String.toList h
    simp [String.toList_append] at this
  · rw [String.startsWith_string_eq_false_iff]
    simp [String.toList_append]

theorem errIs_other : errIs "UnknownVerifierError" (some "other") = false := by decide

theorem errIs_none : errIs "UnknownVerifierError" none = false := rfl

theorem errWith_isNone (n : String) (l : List String) : (errWith n l).isNone = false := rfl

/-! ### uint32 key hashes -/

theorem ofNat_hashI (h : UInt32) : UInt32.ofNat (hashI h).toNat = h := by
  simp [hashI]

theorem hashI_inj {a b : UInt32} : hashI a = hashI b ↔ a = b := by
  constructor
  · intro h
    apply UInt32.toNat_inj.mp
    simp only [hashI, Int.ofNat_eq_natCast] at h
    omega
  · intro h; rw [h]

/-- `binary.BigEndian.Uint32` of the first four bytes: the generated integer is the model's `UInt32` -/
theorem be32_eq (a b c d : UInt8) (t : Bytes) :
    ∃ h : UInt32, Note.be32 (a :: b :: c :: d :: t) = some h ∧ beUint32 [a, b, c, d] = .ok (hashI h) := by
  refine ⟨UInt32.ofNat (a.toNat * 16777216 + b.toNat * 65536 + c.toNat * 256 + d.toNat), by simp only [Note.be32], ?_⟩
  have ha := a.toNat_lt; have hb := b.toNat_lt; have hc := c.toNat_lt; have hd := d.toNat_lt
  have hlt : a.toNat * 16777216 + b.toNat * 65536 + c.toNat * 256 + d.toNat < 4294967296 := by omega
  have e : ((a.toNat * 256 + b.toNat) * 256 + c.toNat) * 256 + d.toNat =
      a.toNat * 16777216 + b.toNat * 65536 + c.toNat * 256 + d.toNat := by omega
  simp only [beUint32, hashI, UInt32.toNat_ofNat_of_lt' hlt, pure_eq_ok, e]

/-! ### bytes.LastIndex is the model's `lastIndexOf` -/

theorem lastIndexAux_lastIndexOf (sub : Bytes) : ∀ (s : Bytes) (k : Nat) (acc : Int),
    lastIndexAux sub s k acc = match Note.lastIndexOf sub s with
      | none => acc
      | some i => ((k + i : Nat) : Int)
  | [], k, acc => by
    simp only [lastIndexAux, Note.lastIndexOf]
    cases sub.isEmpty <;> simp
  | x :: xs, k, acc => by
    rw [lastIndexAux, Note.lastIndexOf, lastIndexAux_lastIndexOf sub xs (k + 1)]
    cases Note.lastIndexOf sub xs with
    | some i => simp only; congr 1; omega
    | none =>
      simp only
      by_cases hp : isPrefixOfB sub (x :: xs) = true <;> simp [hp]

theorem lastIndex_lastIndexOf (s sub : Bytes) :
    lastIndex s sub = match Note.lastIndexOf sub s with
      | none => -1
      | some i => (i : Int) := by
  rw [lastIndex, lastIndexAux_lastIndexOf]
  cases Note.lastIndexOf sub s <;> simp

/-! ### lines of the signature block -/

theorem sigLines_line (l rest : Bytes) (h : (10 : UInt8) ∉ l) :
    Note.sigLines (l ++ 10 :: rest) = l :: Note.sigLines rest := by
  induction l with
  | nil => simp [Note.sigLines]
  | cons c l ih =>
    simp only [List.mem_cons, not_or] at h
    have hne : (c == 10) = false := by simpa using fun e => h.1 e.symm
    simp only [List.cons_append, Note.sigLines, hne, Bool.false_eq_true, if_false, ih h.2]

theorem of_mem_takeWhile {α : Type} (p : α → Bool) : ∀ (l : List α) (x : α), x ∈ l.takeWhile p → p x = true
  | [], x, h => by simp at h
  | a :: l, x, h => by
    by_cases ha : p a = true
    · simp only [List.takeWhile_cons, ha, if_true, List.mem_cons] at h
      rcases h with rfl | h
      · exact ha
      · exact of_mem_takeWhile p l x h
    · simp [ha] at h

theorem getLast?_append_cons (l : Bytes) (x : UInt8) (r : Bytes) (hr : r ≠ []) :
    (l ++ x :: r).getLast? = r.getLast? := by
  cases r with
  | nil => exact absurd rfl hr
  | cons y t =>
    rw [List.getLast?_append]
    have : ((x :: y :: t).getLast?).isSome = true := by simp
    cases h : (x :: y :: t).getLast? with
    | none => rw [h] at this; simp at this
    | some v =>
      rw [List.getLast?_cons_cons] at h
      simp [h]

/-- a non-empty block ending in a newline is a first line, the newline and a block that is empty or ends in a newline -/
theorem block_split (s : Bytes) (hl : s.getLast? = some 10) :
    ∃ line rest, s = line ++ 10 :: rest ∧ (10 : UInt8) ∉ line ∧ (rest = [] ∨ rest.getLast? = some 10) := by
  have hm : (10 : UInt8) ∈ s := List.mem_of_getLast? hl
  refine ⟨s.takeWhile (· != 10), (s.dropWhile (· != 10)).tail, ?_, ?_, ?_⟩
  · cases hd : s.dropWhile (· != 10) with
    | nil => exact absurd hm (dropWhile_nil_not_mem hd)
    | cons x r =>
      have := (mem_of_dropWhile_cons hd).1
      subst this
      have := List.takeWhile_append_dropWhile (p := (· != (10 : UInt8))) (l := s)
      rw [hd] at this
      simpa using this.symm
  · intro h
    have := of_mem_takeWhile _ _ _ h
    simp at this
  · cases hd : s.dropWhile (· != 10) with
    | nil => left; rfl
    | cons x r =>
      have hx := (mem_of_dropWhile_cons hd).1
      subst hx
      have e := List.takeWhile_append_dropWhile (p := (· != (10 : UInt8))) (l := s)
      rw [hd] at e
      simp only [List.tail_cons]
      by_cases hr : r = []
      · left; exact hr
      · right
        rw [← e] at hl
        rw [getLast?_append_cons _ _ _ hr] at hl
        exact hl

/-! ### maps that only ever hold `true` -/

theorem mapGet_mapSet_true {κ : Type} [DecidableEq κ] (m : List (κ × Bool)) (a k : κ) :
    (mapGet (mapSet m a true) k false).1 = (decide (a = k) || (mapGet m k false).1) := by
  rw [mapGet_eq, mapGet_eq, mapLookup_mapSet]
  by_cases h : a = k
  · simp [h]
  · simp only [h, if_false, decide_false, Bool.false_or]

/-! ### the state relation of the signature loop -/

structure Rel (text : Bytes) (st : Note.LoopState) (numSig : Int) (seenU : List (Bytes × Bool)) (n : GNote)
    (seen : List (GNH × Bool)) : Prop where
  num : numSig = (st.numSig : Int)
  su : ∀ l, (mapGet seenU l false).1 = st.seenUnverified.contains l
  sn : ∀ (name : Bytes) (h : UInt32),
    (mapGet seen ({ name := name, hash := hashI h } : GNH) false).1 = st.seen.contains (name, h)
  note : n = { Text := text, Sigs := st.sigs.map embedSig, UnverifiedSigs := st.unverifiedSigs.map embedSig }


theorem sigPrefix_eq : Generated.note_sigPrefix = Note.sigPrefix := rfl
theorem sigSplit_eq : Generated.note_sigSplit = Note.sigSplit := rfl

theorem takeWhile_line (line rest : Bytes) (h : (10 : UInt8) ∉ line) :
    (line ++ 10 :: rest).takeWhile (· != 10) = line := by
  rw [List.takeWhile_append_of_pos (by intro x hx; simp; intro e; subst e; exact h hx)]
  simp

theorem mismatch_eq (v : Note.Verifier) (name : Bytes) (h32 : UInt32) :
    (!decide ((toGV v).Name = name) || !decide ((toGV v).KeyHash = hashI h32)) = (v.name != name || v.hash != h32) := by
  have hk : ((toGV v).KeyHash = hashI h32) ↔ v.hash = h32 := hashI_inj (a := v.hash)
  have hn : ((toGV v).Name = name) ↔ v.name = name := Iff.rfl
  have e1 : decide ((toGV v).KeyHash = hashI h32) = decide (v.hash = h32) := decide_eq_decide.mpr hk
  have e2 : decide ((toGV v).Name = name) = decide (v.name = name) := decide_eq_decide.mpr hn
  rw [e1, e2]
  by_cases h1 : v.name = name <;> by_cases h2 : v.hash = h32 <;> simp [h1, h2]

/-- one iteration of the signature loop is the model's `openStep` -/
theorem loop2_step (known : Note.Verifiers) (text : Bytes) (fuel : Nat) (line rest : Bytes)
    (hline : (10 : UInt8) ∉ line) (st : Note.LoopState) (numSig : Int) (seenU : List (Bytes × Bool)) (n : GNote)
    (seen : List (GNH × Bool)) (hR : Rel text st numSig seenU n seen) :
    match Note.openStep known text st line with
    | .error e =>
      Generated.Note.Open_loop2 b64decI isSpaceI (knownG known) text (fuel + 1) (line ++ 10 :: rest) numSig seenU n seen =
        .ok (Ctl.ret (embedErr e))
    | .ok st' => ∃ numSig' seenU' n' seen', Rel text st' numSig' seenU' n' seen' ∧
      Generated.Note.Open_loop2 b64decI isSpaceI (knownG known) text (fuel + 1) (line ++ 10 :: rest) numSig seenU n seen =
        Generated.Note.Open_loop2 b64decI isSpaceI (knownG known) text fuel rest numSig' seenU' n' seen' := by
  rw [Generated.Note.Open_loop2]
  have hpos : decide (len (line ++ 10 :: rest) > 0) = true := decide_eq_true (by rw [len_eq]; simp; omega)
  have hmem : (10 : UInt8) ∈ line ++ 10 :: rest := by simp
  have hib : indexByte (line ++ 10 :: rest) 10 = (line.length : Int) := by
    rw [indexByte_eq _ 10 10 (by decide), if_pos hmem, takeWhile_line line rest hline]
  have hst : sliceTo (line ++ 10 :: rest) (line.length : Int) = .ok line := by
    rw [sliceTo_natCast (by simp), List.take_left' rfl]
  have hsf : sliceFrom (line ++ 10 :: rest) ((line.length : Int) + 1) = .ok rest := by
    have : ((line.length : Int) + 1) = ((line.length + 1 : Nat) : Int) := by simp
    rw [this, sliceFrom_natCast (by simp)]; simp
  simp only [hpos, if_true, hib, hst, hsf, bind_ok, hasPrefix, sigPrefix_eq]
  unfold Note.openStep Note.parseSigLine
  by_cases hp : isPrefixOfB Note.sigPrefix line = true
  · simp only [hp, Bool.not_true, Bool.false_eq_true, if_false]
    have h4 : Note.sigPrefix.length ≤ line.length := isPrefixOfB_length _ _ hp
    have hsl : sliceFrom line (len Note.sigPrefix) = .ok (line.drop Note.sigPrefix.length) := by
      rw [len_eq, sliceFrom_natCast h4]
    simp only [hsl, bind_ok, chop_eq]
    generalize line.drop Note.sigPrefix.length = l2
    cases hch : Note.chop l2 [32] with
    | mk name b64 =>
    simp only
    cases hb : B64.b64dec b64 with
    | none =>
      have hbI : b64decI b64 = ([], some "illegal base64 data") := by simp [b64decI, hb]
      simp only [hbI, Option.isNone_some, Bool.not_false, Bool.true_or, if_true]
      rfl
    | some sig =>
      have hbI : b64decI b64 = (sig, none) := by simp [b64decI, hb]
      have e1 : decide (b64 = []) = b64.isEmpty := by cases b64 <;> rfl
      have e2 : decide (len sig < 5) = decide (sig.length < 5) := decide_eq_decide.mpr (by rw [len_eq]; omega)
      simp only [hbI, Option.isNone_none, Bool.not_true, Bool.false_or, isValidName_eq, e1, e2]
      by_cases hbad : (!Note.isValidName name || b64.isEmpty || decide (sig.length < 5)) = true
      · simp only [hbad, if_true]; rfl
      · simp only [hbad, Bool.false_eq_true, if_false]
        have hl5 : 5 ≤ sig.length := by
          simp only [Bool.or_eq_true, decide_eq_true_eq, not_or] at hbad; omega
        match sig, hl5 with
        | a :: b :: c :: d :: e :: t, _ =>
        obtain ⟨h32, hm, hg⟩ := be32_eq a b c d (e :: t)
        have hs4 : slice (a :: b :: c :: d :: e :: t) 0 4 = .ok [a, b, c, d] := by
          simp [slice, len_eq]; omega
        have hf4 : sliceFrom (a :: b :: c :: d :: e :: t) 4 = .ok (e :: t) :=
          sliceFrom_natCast (v := a :: b :: c :: d :: e :: t) (k := 4) (by simp)
        simp only [hs4, hm, hg, hf4, bind_ok]
        have hnum := hR.num
        subst hnum
        have e3 : decide (((st.numSig : Nat) : Int) + 1 > 100) = decide (st.numSig + 1 > Note.maxSigs) :=
          decide_eq_decide.mpr (by simp only [Note.maxSigs]; omega)
        have ecast : ((st.numSig : Nat) : Int) + 1 = ((st.numSig + 1 : Nat) : Int) := by simp
        simp only [e3]
        by_cases hn : st.numSig + 1 > Note.maxSigs
        · simp only [hn, decide_true, if_true]; rfl
        · simp only [hn, decide_false, Bool.false_eq_true, if_false]
          have hkG : knownG known name (hashI h32) = (match known name h32 with
              | .found v => (toGV v, none)
              | .unknown => (default, errWith "UnknownVerifierError" [errHex name, toString (hashI h32)])
              | .ambiguous => (default, errWith "ambiguousVerifierError" [errHex name, toString (hashI h32)])
              | .otherErr => (default, some "other")) := by
            simp only [knownG, ofNat_hashI]
          rw [hkG]
          cases hk : known name h32 with
          | unknown =>
            simp only [errIs_unknown, if_true, hR.su]
            by_cases hsu : st.seenUnverified.contains l2 = true
            · simp only [hsu, if_true]
              refine ⟨_, _, _, _, ⟨ecast, hR.su, hR.sn, hR.note⟩, rfl⟩
            · simp only [hsu, Bool.false_eq_true, if_false]
              refine ⟨_, _, _, _, ⟨ecast, ?_, hR.sn, ?_⟩, rfl⟩
              · intro l
                rw [mapGet_mapSet_true, hR.su, List.contains_cons]
                congr 1
                by_cases h : l2 = l
                · subst h; simp
                · have h' : ¬ l = l2 := fun e => h e.symm
                  simp [h, h']
              · rw [hR.note, List.map_append]; rfl
          | ambiguous =>
            simp only [errIs_ambiguous, Bool.false_eq_true, if_false, errWith_isNone, Bool.not_false, if_true]
            rfl
          | otherErr =>
            simp only [errIs_other, Bool.false_eq_true, if_false, Option.isNone_some, Bool.not_false, if_true]
            rfl
          | found v =>
            have en : (!decide ((toGV v).Name = name) || !decide ((toGV v).KeyHash = hashI h32)) =
                (v.name != name || v.hash != h32) :=
              mismatch_eq v name h32
            simp only [errIs_none, Bool.false_eq_true, if_false, Option.isNone_none, Bool.not_true, en]
            by_cases hmm : (v.name != name || v.hash != h32) = true
            · simp only [hmm, if_true]; rfl
            · simp only [hmm, Bool.false_eq_true, if_false, hR.sn]
              by_cases hsn : st.seen.contains (name, h32) = true
              · simp only [hsn, if_true]
                refine ⟨_, _, _, _, ⟨ecast, hR.su, hR.sn, hR.note⟩, rfl⟩
              · simp only [hsn, Bool.false_eq_true, if_false]
                have ev : (toGV v).Verify = v.verify := rfl
                simp only [ev, List.drop_succ_cons, List.drop_zero]
                by_cases hv : (!v.verify text (e :: t)) = true
                · simp only [hv, if_true]; rfl
                · simp only [hv, Bool.false_eq_true, if_false]
                  refine ⟨_, _, _, _, ⟨ecast, hR.su, ?_, ?_⟩, rfl⟩
                  · intro nm h
                    rw [mapGet_mapSet_true, hR.sn, List.contains_cons]
                    congr 1
                    by_cases h1 : name = nm ∧ h32 = h
                    · obtain ⟨rfl, rfl⟩ := h1; simp
                    · have h2 : ¬ ((nm, h) = (name, h32)) := by
                        intro e; cases e; exact h1 ⟨rfl, rfl⟩
                      have h3 : ¬ (({ name := name, hash := hashI h32 } : GNH) = { name := nm, hash := hashI h }) := by
                        intro e; injection e with e1 e2; exact h1 ⟨e1, hashI_inj.mp e2⟩
                      simp [h2, h3]
                  · rw [hR.note, List.map_append]; rfl
  · have hp' : isPrefixOfB Note.sigPrefix line = false := by simpa using hp
    simp only [hp', Bool.not_false, if_true]
    rfl

/-- the signature loop is the model's `openLoop` over the lines of the block -/
theorem Open_loop2_spec (known : Note.Verifiers) (text : Bytes) :
    ∀ (fuel : Nat) (sigs : Bytes) (st : Note.LoopState) (numSig : Int) (seenU : List (Bytes × Bool)) (n : GNote)
      (seen : List (GNH × Bool)),
    sigs.length < fuel → (sigs = [] ∨ sigs.getLast? = some 10) → Rel text st numSig seenU n seen →
    ∃ r, Generated.Note.Open_loop2 b64decI isSpaceI (knownG known) text fuel sigs numSig seenU n seen = .ok r ∧
      match Note.openLoop known text (Note.sigLines sigs) st with
      | .error e => r = Ctl.ret (embedErr e)
      | .ok st' => ∃ sigs' numSig' seenU' seen', r = Ctl.next (sigs', numSig', seenU',
          ({ Text := text, Sigs := st'.sigs.map embedSig, UnverifiedSigs := st'.unverifiedSigs.map embedSig } : GNote),
          seen') := by
  intro fuel
  induction fuel with
  | zero => intro sigs _ _ _ _ _ h; omega
  | succ fuel ih =>
    intro sigs st numSig seenU n seen hf hlast hR
    by_cases hs : sigs = []
    · subst hs
      rw [Generated.Note.Open_loop2]
      have hc : decide (len ([] : Bytes) > 0) = false := by decide
      simp only [hc, Bool.false_eq_true, if_false, Note.sigLines, Note.openLoop]
      exact ⟨_, rfl, [], numSig, seenU, seen, by rw [hR.note]⟩
    · have hl : sigs.getLast? = some 10 := by
        rcases hlast with h | h
        · exact absurd h hs
        · exact h
      obtain ⟨line, rest, rfl, hline, hrest⟩ := block_split sigs hl
      rw [sigLines_line line rest hline, Note.openLoop]
      have hstep := loop2_step known text fuel line rest hline st numSig seenU n seen hR
      cases hos : Note.openStep known text st line with
      | error e =>
        rw [hos] at hstep
        exact ⟨_, hstep, rfl⟩
      | ok st' =>
        rw [hos] at hstep
        obtain ⟨numSig', seenU', n', seen', hR', heq⟩ := hstep
        rw [heq]
        simp only
        exact ih rest st' numSig' seenU' n' seen' (by simp at hf; omega) hrest hR'

/-! ### Open -/

theorem lastIndexOf_bound {msg : Bytes} {split : Nat} (hs : Note.lastIndexOf Note.sigSplit msg = some split) :
    split + 2 ≤ msg.length := by
  have h := Note.lastIndexOf_spec hs
  have := congrArg List.length h
  simp only [Note.sigSplit, List.length_append, List.length_take, List.length_cons, List.length_nil,
    List.length_drop] at this
  omega

theorem Open_eq (msg : Bytes) (known : Note.Verifiers) (fuel : Nat) (hf : msg.length + 1 ≤ fuel) :
    Generated.Note.Open b64decI isSpaceI fuel msg (knownG known) = .ok (embedOpen (Note.Open msg known)) := by
  unfold Generated.Note.Open Note.Open
  have h1 := Open_loop1_spec b64decI isSpaceI msg fuel 0 (Nat.zero_le _) (by omega)
  have h1' : Generated.Note.Open_loop1 b64decI isSpaceI msg fuel 0 = .ok (loop1Out msg 0) := h1
  simp only [h1', bind_ok, loop1Out, List.drop_zero]
  cases hv : Note.validMsg msg with
  | false => rfl
  | true =>
    simp only [if_true, Bool.not_true, Bool.false_eq_true, if_false, sigSplit_eq, lastIndex_lastIndexOf]
    cases hl : Note.lastIndexOf Note.sigSplit msg with
    | none => rfl
    | some split =>
      have hb := lastIndexOf_bound hl
      have hneg : ¬ ((split : Int) < 0) := by omega
      have e1 : (split : Int) + 1 = ((split + 1 : Nat) : Int) := by simp
      have e2 : (split : Int) + 2 = ((split + 2 : Nat) : Int) := by simp
      simp only [hneg, decide_false, Bool.false_eq_true, if_false]
      rw [e1, e2, sliceTo_natCast (by omega), sliceFrom_natCast hb]
      simp only [bind_ok]
      generalize hsg : msg.drop (split + 2) = sigs
      generalize msg.take (split + 1) = text
      have hsl : sigs.length < fuel := by
        rw [← hsg]; simp; omega
      by_cases hs : sigs = []
      · subst hs; rfl
      · have hlen0 : decide (len sigs = 0) = false := by
          apply decide_eq_false
          rw [len_eq]
          have : 0 < sigs.length := List.length_pos_iff.mpr hs
          omega
        have hie : sigs.isEmpty = false := by cases sigs with
          | nil => exact absurd rfl hs
          | cons _ _ => rfl
        have ht : decide ((((sigs.getLast hs).toNat : Nat) : Int) = 10) = (sigs.getLast? == some 10) :=
          GoRtStr.last_byte_test sigs hs (n := 10) 10 rfl
        simp only [hlen0, Bool.false_eq_true, if_false, GoRtStr.idx_last sigs hs, bind_ok, pure_eq_ok, hie, Bool.false_or]
        rw [ht]
        by_cases hg : (sigs.getLast? == some 10) = true
        · have hg' : (sigs.getLast? != some 10) = false := by simp [bne, hg]
          simp only [hg, Bool.not_true, Bool.false_eq_true, if_false, hg']
          have hR : Rel text {} 0 [] ({ (default : GNote) with Text := text } : GNote) [] :=
            ⟨rfl, fun _ => rfl, fun _ _ => rfl, rfl⟩
          obtain ⟨r, hr, hm⟩ := Open_loop2_spec known text fuel sigs {} 0 [] _ [] hsl
            (Or.inr (by simpa using hg)) hR
          rw [hr]
          simp only [bind_ok]
          cases hol : Note.openLoop known text (Note.sigLines sigs) {} with
          | error e =>
            rw [hol] at hm
            subst hm
            rfl
          | ok st' =>
            rw [hol] at hm
            obtain ⟨sigs', numSig', seenU', seen', rfl⟩ := hm
            simp only
            cases hss : st'.sigs with
            | nil => rfl
            | cons a t => rfl
        · have hg0 : (sigs.getLast? == some 10) = false := by simpa using hg
          have hg' : (sigs.getLast? != some 10) = true := by simp [bne, hg0]
          simp only [hg0, Bool.not_false, if_true, hg']
          rfl

end ModVerif.TieFnNote
