/-
  EditWorkReparse, part B — go.work: the print/parse round trip for a tree that was NOT produced by the parser, and the
  FIRST run of `ParseWork`'s directive layer over a tree whose lines render a given collection of items
  (C15 `typed_eq_reparse`, go.work; the counterpart of Proofs/EditReparse{A,B,C}.lean, sub-namespace `Edit.W`).

  * `reparse_of_first_run_work`: the second half of C02's `format_preserves_directives_work_eol` for ANY tree with `EWFStmts` /
    `NlOK` / no header comment and a clean first run of `workStmts`;
  * `W.Item` (go / toolchain / godebug / use / replace), `W.ItemOK` (the value is accepted by `ParseWork` and read back
    unchanged: the go.mod conditions; a `use` directory is a readable path), `W.Rend` (the `acc` relations of `entriesW`);
  * `add_item`: render–reparse for one line — on a line that renders an `ItemOK` item `WorkFile.add` appends that item,
    reports no error and rewrites nothing (`use`: `parseString (AutoQuote p) = (p, AutoQuote p)`);
  * `first_run`: fold over the tree, `items` multiset.
-/
import ModVerif.Proofs.EditWorkReparseA
set_option linter.unusedSimpArgs false
set_option linter.unusedVariables false

namespace ModVerif.Proofs.EditReparse
open ModVerif ModVerif.Modfile ModVerif.Proofs.ModfileFmtDir ModVerif.Proofs.ModfileEol
open ModVerif.Proofs.ModfileFmtTree ModVerif.Proofs.ModfileFmtWork

/-- **Round trip from a first run, go.work.**  `T`: any syntax tree of the shape `Format` prints faithfully.  If
    `ParseWork`'s directive layer, run over `T` from the empty file, reports no error, leaves every token as it is and
    yields a well-formed typed file, then `ParseWork` accepts `Format T` and reads the same directive values. -/
theorem reparse_of_first_run_work (name : Bytes) (T : FileSyntax) (st1 : WorkState)
    (hwf : EWFStmts T.stmts) (hnl : ∀ s ∈ T.stmts, NlOK s) (hc : T.comments.before = [])
    (ha : workStmts none { file := { syn := T } } T.stmts = (st1, T.stmts))
    (he : st1.errsRev = []) (hw : WorkWellFormed st1.file) :
    ∃ f', parseWork name (format T) none = .ok f' ∧ workValues f' = workValues st1.file := by
  obtain ⟨_, _, _, _, hrep⟩ := workStmts_replayE none (Or.inl rfl) fixNE_none T.stmts _ st1 T.stmts ha he hw hwf hnl
  obtain ⟨t', hp', het'⟩ := reparse_ewf name T hwf hnl hc
  have hrel : t'.stmts.map eraseExpr = T.stmts.map normExprE := by
    have := congrArg FileSyntax.stmts het'
    simpa [eraseFile] using this
  have hsim0 : WSim ({ file := { syn := T } } : WorkState) ({ file := { syn := t' } } : WorkState) := ⟨rfl, rfl, rfl⟩
  obtain ⟨st1', ha', hsim'⟩ := hrep _ t'.stmts hsim0 hrel
  refine ⟨{ st1'.file with syn := { t' with stmts := t'.stmts } }, ?_, ?_⟩
  · unfold parseWork
    simp only [hp', ha']
    simp [hsim'.errs']
  · rw [workValues_syn, ← hsim'.vals]

end ModVerif.Proofs.EditReparse

namespace ModVerif.Modfile.Edit.W
open ModVerif ModVerif.Modfile
open ModVerif.Proofs.ModfileFmtDir (PathOK VerOK)
open ModVerif.Proofs.ModfileFmtWork (WorkWellFormed workValues WorkValues)

/-- the value of one go.work directive -/
inductive Item where
  | go (v : Bytes)
  | toolchain (n : Bytes)
  | godebug (k v : Bytes)
  | use (p : Bytes)
  | replace (o n : ModVersion)
  deriving DecidableEq, Repr

/-- every typed entry of a go.work file with the id of its line -/
def items (f : WorkFile) : List (Nat × Item) :=
  f.go.toList.map (fun g => (g.lineId, Item.go g.version)) ++
  (f.toolchain.toList.map (fun t => (t.lineId, Item.toolchain t.name)) ++
  (f.godebug.map (fun g => (g.lineId, Item.godebug g.key g.value)) ++
  (f.use.map (fun u => (u.lineId, Item.use u.path)) ++
   f.replace.map (fun r => (r.lineId, Item.replace r.old r.new)))))

/-- the value is accepted by `ParseWork` and read back unchanged (the go.mod conditions of `Edit.ItemOK`; a `use`
    directory is neither empty nor a lone bracket / comma) -/
def ItemOK : Item → Prop
  | .go v => Edit.ItemOK (.go v)
  | .toolchain n => Edit.ItemOK (.toolchain n)
  | .godebug k v => Edit.ItemOK (.godebug k v)
  | .use p => PathOK p
  | .replace o n => Edit.ItemOK (.replace o n)

/-- the full tokens of a line render the item: the `acc` relations of `entriesW` -/
def Rend : Item → List Bytes → Prop
  | .go v, t => t = [B "go", v]
  | .toolchain n, t => t = [B "toolchain", n]
  | .godebug k v, t => t = [B "godebug", k ++ [61] ++ v]
  | .use p, t => t = [B "use", autoQuote p]
  | .replace o n, t => t = B "replace" :: replArgs o n

/-! ### one step of `WorkFile.add`, verb by verb -/

theorem wverb_ne :
    (B "toolchain" == B "go") = false ∧ (B "godebug" == B "go") = false ∧ (B "godebug" == B "toolchain") = false ∧
    (B "use" == B "go") = false ∧ (B "use" == B "toolchain") = false ∧ (B "use" == B "godebug") = false ∧
    (B "replace" == B "go") = false ∧ (B "replace" == B "toolchain") = false ∧ (B "replace" == B "godebug") = false ∧
    (B "replace" == B "use") = false := by decide +kernel

section steps
variable (st : WorkState) (l : Line)

theorem step_go (v : Bytes) (hg : st.file.go = none) (hre : goVersionRE v = true) :
    WorkFile.add st l (B "go") [v] none =
      ({ st with file := { st.file with go := some { version := v, lineId := l.id } } }, [v]) := by
  unfold WorkFile.add
  simp only [beq_self_eq_true, if_true, hg, Option.isSome_none, Bool.false_eq_true, if_false, hre, Bool.not_true]

theorem step_toolchain (n : Bytes) (ht : st.file.toolchain = none) (hre : toolchainRE n = true) :
    WorkFile.add st l (B "toolchain") [n] none =
      ({ st with file := { st.file with toolchain := some { name := n, lineId := l.id } } }, [n]) := by
  obtain ⟨v1, v2, v3, v4, v5, v6, v7, v8, v9, v10⟩ := wverb_ne
  unfold WorkFile.add
  simp only [v1, beq_self_eq_true, if_true, ht, Option.isSome_none, Bool.false_eq_true, if_false, hre, Bool.not_true]

theorem step_godebug (k v : Bytes) (hg : Modfile.addGodebug [k ++ [61] ++ v] = some (k, v)) :
    WorkFile.add st l (B "godebug") [k ++ [61] ++ v] none =
      ({ st with file := { st.file with godebug := st.file.godebug ++ [{ key := k, value := v, lineId := l.id }] } },
       [k ++ [61] ++ v]) := by
  obtain ⟨v1, v2, v3, v4, v5, v6, v7, v8, v9, v10⟩ := wverb_ne
  unfold WorkFile.add
  simp only [v2, v3, beq_self_eq_true, if_true, Bool.false_eq_true, if_false, hg]

theorem step_use (p : Bytes) :
    WorkFile.add st l (B "use") [autoQuote p] none =
      ({ st with file := { st.file with use := st.file.use ++ [{ path := p, lineId := l.id }] } }, [autoQuote p]) := by
  obtain ⟨v1, v2, v3, v4, v5, v6, v7, v8, v9, v10⟩ := wverb_ne
  unfold WorkFile.add
  simp only [v4, v5, v6, beq_self_eq_true, if_true, Bool.false_eq_true, if_false,
    Proofs.ModfileFmtQuote.parseString_autoQuote]

theorem step_replace (o n : ModVersion) (args : List Bytes)
    (hr : ∀ id, parseReplace id args none = (args, .ok { old := o, new := n, lineId := id })) :
    WorkFile.add st l (B "replace") args none =
      ({ st with file := { st.file with replace := st.file.replace ++ [{ old := o, new := n, lineId := l.id }] } }, args) := by
  obtain ⟨v1, v2, v3, v4, v5, v6, v7, v8, v9, v10⟩ := wverb_ne
  unfold WorkFile.add
  simp only [v7, v8, v9, v10, beq_self_eq_true, if_true, Bool.false_eq_true, if_false, hr l.id]

end steps

/-! ### the state of the first run -/

structure IOK (I : List (Nat × Item)) : Prop where
  nodup : (I.map (·.1)).Nodup
  ok : ∀ q ∈ I, ItemOK q.2
  go1 : ∀ a b p q, (a, Item.go p) ∈ I → (b, Item.go q) ∈ I → a = b
  tc1 : ∀ a b p q, (a, Item.toolchain p) ∈ I → (b, Item.toolchain q) ∈ I → a = b

/-- the state of the run after the lines `Q` (ids with the items they render) were processed -/
structure FI (I : List (Nat × Item)) (st : WorkState) (Q : List (Nat × Item)) : Prop where
  errs : st.errsRev = []
  perm : (items st.file).Perm Q
  sub : ∀ q ∈ Q, q ∈ I

theorem items_godebug (f : WorkFile) (g : Godebug) :
    (items { f with godebug := f.godebug ++ [g] }).Perm (items f ++ [(g.lineId, Item.godebug g.key g.value)]) := by
  apply List.perm_iff_count.2; intro a
  simp only [items, List.map_append, List.count_append, List.map_cons, List.map_nil]
  omega

theorem items_use (f : WorkFile) (g : Use) :
    (items { f with use := f.use ++ [g] }).Perm (items f ++ [(g.lineId, Item.use g.path)]) := by
  apply List.perm_iff_count.2; intro a
  simp only [items, List.map_append, List.count_append, List.map_cons, List.map_nil]
  omega

theorem items_replace (f : WorkFile) (g : Replace) :
    (items { f with replace := f.replace ++ [g] }).Perm (items f ++ [(g.lineId, Item.replace g.old g.new)]) := by
  apply List.perm_iff_count.2; intro a
  simp only [items, List.map_append, List.count_append, List.map_cons, List.map_nil]
  omega

theorem items_go (f : WorkFile) (m : Go) (h : f.go = none) :
    (items { f with go := some m }).Perm (items f ++ [(m.lineId, Item.go m.version)]) := by
  apply List.perm_iff_count.2; intro a
  simp only [items, h, Option.toList, List.map_append, List.count_append, List.map_cons, List.map_nil, List.count_nil]
  omega

theorem items_toolchain (f : WorkFile) (m : Toolchain) (h : f.toolchain = none) :
    (items { f with toolchain := some m }).Perm (items f ++ [(m.lineId, Item.toolchain m.name)]) := by
  apply List.perm_iff_count.2; intro a
  simp only [items, h, Option.toList, List.map_append, List.count_append, List.map_cons, List.map_nil, List.count_nil]
  omega

theorem mem_items_go {f : WorkFile} {m : Go} (h : f.go = some m) : (m.lineId, Item.go m.version) ∈ items f := by
  simp [items, h]
theorem mem_items_toolchain {f : WorkFile} {m : Toolchain} (h : f.toolchain = some m) :
    (m.lineId, Item.toolchain m.name) ∈ items f := by
  simp [items, h]

theorem FI.step {I : List (Nat × Item)} {st st' : WorkState} {Q : List (Nat × Item)} (h : FI I st Q) (q : Nat × Item)
    (hq : q ∈ I) (he : st'.errsRev = st.errsRev) (hp : (items st'.file).Perm (items st.file ++ [q])) : FI I st' (Q ++ [q]) :=
  ⟨he.trans h.errs, hp.trans (List.Perm.append_right _ h.perm), fun x hx => by
    rcases List.mem_append.1 hx with hx | hx
    · exact h.sub x hx
    · simp only [List.mem_singleton] at hx; subst hx; exact hq⟩

/-- **Render–reparse for one line, every go.work verb.**  A line whose full tokens `verb :: args` render an item of `I`
    that was not processed yet: `WorkFile.add` appends exactly that item, reports no error and returns the arguments
    unchanged. -/
theorem add_item {I : List (Nat × Item)} (hI : IOK I) (st : WorkState) (Q : List (Nat × Item)) (hfi : FI I st Q)
    (l : Line) (verb : Bytes) (args : List Bytes) (it : Item) (hmem : (l.id, it) ∈ I)
    (hfresh : l.id ∉ Q.map (·.1)) (hr : Rend it (verb :: args)) :
    ∃ st', WorkFile.add st l verb args none = (st', args) ∧ FI I st' (Q ++ [(l.id, it)]) := by
  have hok := hI.ok _ hmem
  cases it with
  | go v =>
    simp only [Rend, List.cons.injEq] at hr
    obtain ⟨rfl, rfl⟩ := hr
    have hm : st.file.go = none := by
      cases hmm : st.file.go with
      | none => rfl
      | some m =>
        exfalso
        have h1 := hfi.sub _ ((hfi.perm.mem_iff).1 (mem_items_go hmm))
        have := hI.go1 _ _ _ _ h1 hmem
        apply hfresh
        rw [← this]
        exact List.mem_map.2 ⟨_, (hfi.perm.mem_iff).1 (mem_items_go hmm), rfl⟩
    refine ⟨_, step_go st l v hm hok.1, hfi.step _ hmem rfl ?_⟩
    exact items_go st.file _ hm
  | toolchain n =>
    simp only [Rend, List.cons.injEq] at hr
    obtain ⟨rfl, rfl⟩ := hr
    have hm : st.file.toolchain = none := by
      cases hmm : st.file.toolchain with
      | none => rfl
      | some m =>
        exfalso
        have h1 := hfi.sub _ ((hfi.perm.mem_iff).1 (mem_items_toolchain hmm))
        have := hI.tc1 _ _ _ _ h1 hmem
        apply hfresh
        rw [← this]
        exact List.mem_map.2 ⟨_, (hfi.perm.mem_iff).1 (mem_items_toolchain hmm), rfl⟩
    refine ⟨_, step_toolchain st l n hm hok.1, hfi.step _ hmem rfl ?_⟩
    exact items_toolchain st.file _ hm
  | godebug k v =>
    simp only [Rend, List.cons.injEq] at hr
    obtain ⟨rfl, rfl⟩ := hr
    refine ⟨_, step_godebug st l k v hok.1, hfi.step _ hmem rfl ?_⟩
    exact items_godebug st.file _
  | use p =>
    simp only [Rend, List.cons.injEq] at hr
    obtain ⟨rfl, rfl⟩ := hr
    refine ⟨_, step_use st l p, hfi.step _ hmem rfl ?_⟩
    exact items_use st.file _
  | replace o n =>
    simp only [Rend, List.cons.injEq] at hr
    obtain ⟨rfl, rfl⟩ := hr
    refine ⟨_, step_replace st l o n _ hok.2.2.2.2, hfi.step _ hmem rfl ?_⟩
    exact items_replace st.file _

/-! ### blocks and statements -/

/-- every line of the statement renders the item of `I` with its id; a block has one verb, a block verb of `ParseWork` -/
def StmtOK (I : List (Nat × Item)) : Expr → Prop
  | .line l => ∃ verb args it, l.token = verb :: args ∧ (l.id, it) ∈ I ∧ Rend it (verb :: args)
  | .lineBlock b => ∃ verb, b.token = [verb] ∧ verbIn verb workBlockVerbs = true ∧
      ∀ l ∈ b.lines, ∃ it, (l.id, it) ∈ I ∧ Rend it (verb :: l.token)
  | _ => True

theorem workBlockLines_first {I : List (Nat × Item)} (hI : IOK I) (verb : Bytes) :
    ∀ (ls : List Line) (st : WorkState) (Q : List (Nat × Item)), FI I st Q → (ls.map (·.id)).Nodup →
      (∀ l ∈ ls, l.id ∉ Q.map (·.1)) →
      (∀ l ∈ ls, ∃ it, (l.id, it) ∈ I ∧ Rend it (verb :: l.token)) →
      ∃ st' Q', workBlockLines verb none st ls = (st', ls) ∧ FI I st' Q' ∧ Q'.map (·.1) = Q.map (·.1) ++ ls.map (·.id) := by
  intro ls
  induction ls with
  | nil => intro st Q hfi _ _ _; exact ⟨st, Q, rfl, hfi, by simp⟩
  | cons l ls ih =>
    intro st Q hfi hnd hfresh hok
    obtain ⟨it, hmem, hr⟩ := hok l (by simp)
    obtain ⟨st1, hadd, hfi1⟩ := add_item hI st Q hfi l verb l.token it hmem (hfresh l (by simp)) hr
    have hnd' : l.id ∉ ls.map (·.id) ∧ (ls.map (·.id)).Nodup := List.nodup_cons.1 (by rw [List.map_cons] at hnd; exact hnd)
    obtain ⟨st2, Q2, hrest, hfi2, hQ2⟩ := ih st1 (Q ++ [(l.id, it)]) hfi1 hnd'.2
      (by
        intro l' hl' hc
        simp only [List.map_append, List.map_cons, List.map_nil, List.mem_append, List.mem_singleton] at hc
        rcases hc with hc | hc
        · exact hfresh l' (by simp [hl']) hc
        · exact hnd'.1 (hc ▸ List.mem_map.2 ⟨l', hl', rfl⟩))
      (fun l' hl' => hok l' (by simp [hl']))
    refine ⟨st2, Q2, ?_, hfi2, ?_⟩
    · simp only [workBlockLines, hadd, hrest]
    · rw [hQ2]; simp

theorem workStmts_first {I : List (Nat × Item)} (hI : IOK I) :
    ∀ (stmts : List Expr) (st : WorkState) (Q : List (Nat × Item)), FI I st Q → (treeIds stmts).Nodup →
      (∀ i ∈ treeIds stmts, i ∉ Q.map (·.1)) → (∀ x ∈ stmts, StmtOK I x) →
      ∃ st' Q', workStmts none st stmts = (st', stmts) ∧ FI I st' Q' ∧ Q'.map (·.1) = Q.map (·.1) ++ treeIds stmts := by
  intro stmts
  induction stmts with
  | nil => intro st Q hfi _ _ _; exact ⟨st, Q, rfl, hfi, by simp [treeIds, loc]⟩
  | cons x xs ih =>
    intro st Q hfi hnd hfresh hok
    rw [treeIds_cons] at hnd hfresh
    have hndx := (List.nodup_append.1 hnd).1
    have hndxs := (List.nodup_append.1 hnd).2.1
    have hdisj := (List.nodup_append.1 hnd).2.2
    have hokx := hok x (by simp)
    have hokxs : ∀ y ∈ xs, StmtOK I y := fun y hy => hok y (by simp [hy])
    have tail : ∀ (st1 : WorkState) (Q1 : List (Nat × Item)), FI I st1 Q1 → Q1.map (·.1) = Q.map (·.1) ++ treeIds [x] →
        ∃ st2 Q2, workStmts none st1 xs = (st2, xs) ∧ FI I st2 Q2 ∧ Q2.map (·.1) = Q.map (·.1) ++ (treeIds [x] ++ treeIds xs) := by
      intro st1 Q1 hfi1 hQ1
      obtain ⟨st2, Q2, hrest, hfi2, hQ2⟩ := ih st1 Q1 hfi1 hndxs
        (by
          intro i hi hc
          rw [hQ1] at hc
          rcases List.mem_append.1 hc with hc | hc
          · exact hfresh i (List.mem_append_right _ hi) hc
          · exact hdisj i hc i hi rfl)
        hokxs
      exact ⟨st2, Q2, hrest, hfi2, by rw [hQ2, hQ1]; simp⟩
    rw [treeIds_cons]
    cases x with
    | line l =>
      obtain ⟨verb, args, it, htok, hmem, hr⟩ := hokx
      have hid : treeIds [Expr.line l] = [l.id] := by simp [treeIds, loc, locStmt]
      obtain ⟨st1, hadd, hfi1⟩ := add_item hI st Q hfi l verb args it hmem
        (hfresh l.id (by rw [hid]; simp)) hr
      obtain ⟨st2, Q2, hrest, hfi2, hQ2⟩ := tail st1 (Q ++ [(l.id, it)]) hfi1 (by rw [hid]; simp)
      refine ⟨st2, Q2, ?_, hfi2, hQ2⟩
      simp only [workStmts, htok, hadd, hrest]
      have hl : ({ l with token := verb :: args } : Line) = l := by rw [← htok]
      rw [hl]
    | lineBlock b =>
      obtain ⟨verb, htok, hverb, hlines⟩ := hokx
      have hid : treeIds [Expr.lineBlock b] = b.lines.map (·.id) := treeIds_block b
      obtain ⟨st1, Q1, hrun, hfi1, hQ1⟩ := workBlockLines_first hI verb b.lines st Q hfi (by rw [← hid]; exact hndx)
        (fun l hl => hfresh l.id (by rw [hid]; exact List.mem_append_left _ (List.mem_map.2 ⟨l, hl, rfl⟩))) hlines
      obtain ⟨st2, Q2, hrest, hfi2, hQ2⟩ := tail st1 Q1 hfi1 (by rw [hQ1, hid])
      refine ⟨st2, Q2, ?_, hfi2, hQ2⟩
      simp only [workStmts, htok, hverb, if_true, hrun, hrest]
      have hb : ({ b with token := [verb], lines := b.lines } : LineBlock) = b := by rw [← htok]
      rw [hb]
    | commentBlock c =>
      obtain ⟨st2, Q2, hrest, hfi2, hQ2⟩ := tail st Q hfi (by simp [treeIds, loc, locStmt])
      exact ⟨st2, Q2, by simp only [workStmts, hrest], hfi2, hQ2⟩
    | lparen c =>
      obtain ⟨st2, Q2, hrest, hfi2, hQ2⟩ := tail st Q hfi (by simp [treeIds, loc, locStmt])
      exact ⟨st2, Q2, by simp only [workStmts, hrest], hfi2, hQ2⟩
    | rparen c =>
      obtain ⟨st2, Q2, hrest, hfi2, hQ2⟩ := tail st Q hfi (by simp [treeIds, loc, locStmt])
      exact ⟨st2, Q2, by simp only [workStmts, hrest], hfi2, hQ2⟩

/-- **The first run, go.work.**  A tree with pairwise different line ids whose lines render the items `I` (one line per
    item): `ParseWork`'s directive layer, run over it from the empty file, reports no error, rewrites no token, and builds
    a typed file whose entries are exactly the items `I`, as a multiset. -/
theorem first_run {I : List (Nat × Item)} (hI : IOK I) (T : FileSyntax) (hnd : (treeIds T.stmts).Nodup)
    (hok : ∀ x ∈ T.stmts, StmtOK I x) (hsurj : ∀ q ∈ I, q.1 ∈ treeIds T.stmts) :
    ∃ st1, workStmts none { file := { syn := T } } T.stmts = (st1, T.stmts) ∧ st1.errsRev = [] ∧
      (items st1.file).Perm I := by
  have h0 : FI I ({ file := { syn := T } } : WorkState) [] := ⟨rfl, by simp [items], fun q hq => by cases hq⟩
  obtain ⟨st1, Q, hrun, hfi, hQ⟩ := workStmts_first hI T.stmts _ [] h0 hnd (fun i _ hc => by cases hc) hok
  refine ⟨st1, hrun, hfi.errs, hfi.perm.trans ?_⟩
  simp only [List.map_nil, List.nil_append] at hQ
  have hQnd : Q.Nodup := by
    have : (Q.map (·.1)).Nodup := by rw [hQ]; exact hnd
    exact List.Pairwise.of_map (·.1) (fun a b hab he => hab (by rw [he])) this
  have hInd : I.Nodup := List.Pairwise.of_map (·.1) (fun a b hab he => hab (by rw [he])) hI.nodup
  refine (List.perm_ext_iff_of_nodup hQnd hInd).2 ?_
  intro q
  constructor
  · exact hfi.sub q
  · intro hq
    have : q.1 ∈ Q.map (·.1) := by rw [hQ]; exact hsurj q hq
    obtain ⟨q', hq', he⟩ := List.mem_map.1 this
    have hq'I := hfi.sub q' hq'
    have : q' = q := by
      have hinj : ∀ (L : List (Nat × Item)), (L.map (·.1)).Nodup → ∀ a ∈ L, ∀ b ∈ L, a.1 = b.1 → a = b := by
        intro L
        induction L with
        | nil => intro _ a ha; cases ha
        | cons c L ihL =>
          intro hnd a ha b hb hab
          simp only [List.map_cons, List.nodup_cons] at hnd
          rcases List.mem_cons.1 ha with rfl | ha' <;> rcases List.mem_cons.1 hb with rfl | hb'
          · rfl
          · exact absurd (show a.1 ∈ L.map (·.1) from List.mem_map.2 ⟨b, hb', hab.symm⟩) hnd.1
          · exact absurd (show b.1 ∈ L.map (·.1) from List.mem_map.2 ⟨a, ha', hab⟩) hnd.1
          · exact ihL hnd.2 a ha' b hb' hab
      exact hinj I hI.nodup q' hq'I q hq he
    rw [← this]; exact hq'

end ModVerif.Modfile.Edit.W
