/-
  C10: the main theorems over an abstract true-hash function `T` (instantiated with RFC 6962 in TileAuthFinal.lean):
  a passed `authenticate` forces every fetched tile to be the true tile (collision freedom), and the honest
  server passes.
-/
import ModVerif.Proofs.TileAuthRead
import ModVerif.Proofs.TileBasic
namespace ModVerif.TileAuth
open ModVerif ModVerif.Tlog ModVerif.Tile ModVerif.TlogStore

/-- every position of the dense store is the position of a coordinate inside the tree -/
theorem index_decomp : ∀ N x, x < S N → ∃ l k, (k + 1) * 2 ^ l ≤ N ∧ storedHashIndex l k = x := by
  intro N
  induction N with
  | zero => intro x h; simp [S_zero] at h
  | succ N ih =>
    intro x h
    by_cases hx : x < S N
    · obtain ⟨l, k, h1, h2⟩ := ih x hx
      exact ⟨l, k, by omega, h2⟩
    · rw [S_succ] at h
      refine ⟨x - S N, N >>> (x - S N), ?_, ?_⟩
      · rw [shiftRight_of_le_tz N (x - S N) (by omega)]; omega
      · rw [storedHashIndex_eq, shiftRight_of_le_tz N (x - S N) (by omega)]
        simp only [Nat.add_sub_cancel]
        omega

theorem mapM_option_of_get {α β : Type} (f : α → Option β) : ∀ (l : List α) (r : List β), r.length = l.length →
    (∀ (i : Nat) (a : α), l[i]? = some a → ∃ b, r[i]? = some b ∧ f a = some b) → l.mapM f = some r := by
  intro l
  induction l with
  | nil =>
    intro r h _
    have : r = [] := List.eq_nil_of_length_eq_zero (by simpa using h)
    subst this; rfl
  | cons a l ih =>
    intro r h hp
    cases r with
    | nil => simp at h
    | cons b r =>
      obtain ⟨b', e1, e2⟩ := hp 0 a rfl
      simp only [List.getElem?_cons_zero, Option.some.injEq] at e1
      subst e1
      rw [List.mapM_cons, e2, ih r (by simpa using h) (fun i a' hi => by simpa using hp (i + 1) a' (by simpa using hi))]
      rfl

section
variable {H : Type} (node : H → H → H) (T : Nat → Nat → H) (N : Nat) (th : H) (st : List H)

theorem env_split_of_lt (env : Env node T N st) (x : Nat) (hx : x < storedHashIndex 0 N) :
    ∃ c : Nat × Nat, splitStoredHashIndex x = .ok c ∧ (c.2 + 1) * 2 ^ c.1 ≤ N ∧ idxOf c = x := by
  rw [storedHashIndex_zero_eq] at hx
  obtain ⟨l, k, h1, h2⟩ := index_decomp N x hx
  exact ⟨(l, k), by rw [← h2]; exact env.split l k h1, h1, h2⟩

theorem env_hidx (env : Env node T N st) (idx : List Nat) (h : ∀ x ∈ idx, x < storedHashIndex 0 N) :
    ∀ x ∈ idx, x < storedHashIndex 0 N ∧ ∃ c : Nat × Nat, splitStoredHashIndex x = .ok c ∧ (c.2 + 1) * 2 ^ c.1 ≤ N := by
  intro x hx
  obtain ⟨c, c1, c2, _⟩ := env_split_of_lt node T N st env x (h x hx)
  exact ⟨h x hx, c, c1, c2⟩

/-- the slice of a true tile that belongs to a coordinate hashes to the true hash of the coordinate -/
theorem slice_hash (hstep : StepOK node T N) (t : Tile) (lv k : Nat) (hh : 0 < t.h) (hv : (k + 1) * 2 ^ lv ≤ N)
    (h8 : t.l = lv / t.h) (h9 : t.n = tnum t.h lv k) (h10 : ts t.h lv k + 2 ^ (lv % t.h) ≤ t.w) :
    tileHash node (((tdata T t.h t.l t.n t.w).take (ts t.h lv k + 2 ^ (lv % t.h))).drop (ts t.h lv k)) = .ok (T lv k) := by
  rw [tdata_slice T _ _ _ _ _ _ h10, h9, tnum_ts t.h lv k hh]
  apply tileHash_ptree node (lv % t.h) _ _ (by simp)
  rw [h8, ptree_T node T N hstep (lv % t.h) (lv / t.h * t.h) k (by rw [lv_split]; exact hv), lv_split]

theorem hashFromTile_true (hstep : StepOK node T N) (t : Tile) (x lv k : Nat) (v : H) (hh : 0 < t.h)
    (hs : splitStoredHashIndex x = .ok (lv, k)) (hv : (k + 1) * 2 ^ lv ≤ N)
    (hok : hashFromTile node t (tdata T t.h t.l t.n t.w) x = .ok v) : v = T lv k := by
  obtain ⟨h8, h9, h10, _, hth⟩ := hashFromTile_ok node t _ x lv k v hh hs hok
  rw [slice_hash node T N hstep t lv k hh hv h8 h9 h10] at hth
  cases hth; rfl

/-- the facts about a listed tile that come from `Std` -/
theorem std_facts (h : Nat) (t : Tile) (hs : ∃ L n, t = stdTile h N L n ∧ n * 2 ^ h < cnt h N L) :
    t.h = h ∧ t.data = false ∧ 0 < t.w ∧ t.w ≤ 2 ^ h ∧ t.n * 2 ^ h + t.w ≤ cnt h N t.l ∧
      t = stdTile h N t.l t.n := by
  obtain ⟨L, n, e, hlt⟩ := hs
  have e' := e
  rw [stdTile_of_lt h N L n hlt] at e
  subst e
  have hp := Nat.two_pow_pos h
  refine ⟨rfl, rfl, ?_, ?_, ?_, e'⟩
  · simp only; omega
  · simp only; omega
  · simp only; omega

theorem stdTile_fields (h L n : Nat) (hlt : n * 2 ^ h < cnt h N L) :
    (stdTile h N L n).h = h ∧ (stdTile h N L n).l = L ∧ (stdTile h N L n).n = n ∧
      (stdTile h N L n).w = min (2 ^ h) (cnt h N L - n * 2 ^ h) ∧ (stdTile h N L n).data = false := by
  rw [stdTile_of_lt h N L n hlt]
  exact ⟨rfl, rfl, rfl, rfl, rfl⟩

/-- (i) under collision freedom, a recomputed tree hash equal to the true one forces every tree-hash tile to be true
    (structural fact (a): the tree-hash indexes cover the whole content of their tiles) -/
theorem stx_tiles_true (hcf : ∀ a b c d : H, node a b = node c d → a = c ∧ b = d) (env : Env node T N st)
    (hroot : ∀ cs, Cover cs 0 N → foldR node (cs.map fun c => T c.1 c.2) = some th)
    (h : Nat) (hh : 0 < h) (cs : List (Nat × Nat)) (idx : List Nat) (p : Plan) (ok : PlanOK h N cs idx p)
    (data : List (List H)) (hlen : data.length = p.tiles.length)
    (hw : ∀ (i : Nat) (t : Tile) (d : List H), p.tiles[i]? = some t → data[i]? = some d → d.length = t.w)
    (hs : List H) (h1 : hashList node p.tiles data (p.stx.zip p.stxTileOrder) = .ok hs)
    (h2 : foldR node hs = some th) :
    ∀ (j : Nat) (t : Tile) (d : List H), j < p.nstx → p.tiles[j]? = some t → data[j]? = some d →
      d = tdata T t.h t.l t.n t.w := by
  obtain ⟨hl, hget⟩ := hashList_get node _ _ _ _ h1
  have hlen2 : hs.length = (cs.map fun c => T c.1 c.2).length := by
    rw [hl, List.length_zip, ok.stx, ok.stoLen]; simp
  have hhs : hs = cs.map fun c => T c.1 c.2 := foldR_inj node hcf _ _ th hlen2 h2 (hroot cs ok.cover)
  have hA : ∀ (i : Nat) (c : Nat × Nat), cs[i]? = some c → ∃ (j : Nat) (d : List H), p.tiles[j]? = some (home h N c) ∧ data[j]? = some d ∧
      hashFromTile node (home h N c) d (idxOf c) = .ok (T c.1 c.2) := by
    intro i c hi
    obtain ⟨j, s1, _, s3⟩ := ok.sto i c hi
    have hz : (p.stx.zip p.stxTileOrder)[i]? = some (idxOf c, j) := by
      rw [List.getElem?_zip_eq_some]; simp [ok.stx, hi, s1]
    obtain ⟨v, v1, v2⟩ := hget i _ _ hz
    rw [hhs, List.getElem?_map, hi] at v1
    simp only [Option.map_some, Option.some.injEq] at v1
    subst v1
    have hjl : j < data.length := by
      rw [hlen]; exact (List.getElem?_eq_some_iff.mp s3).1
    have hd : data[j]? = some data[j] := List.getElem?_eq_getElem hjl
    unfold hashAt at v2
    rw [s3, hd] at v2
    exact ⟨j, _, s3, hd, v2⟩
  intro j t d hj ht hd
  obtain ⟨c0, hc0, e0⟩ := ok.stxTiles j t hj ht
  have hb0 := cover_props cs 0 N ok.cover (strictAligned_zero N) c0 hc0
  have hnz0 := home_nonzero h N c0 hh hb0.1
  have hright := block_tile_rightmost h N hh c0 hb0
  obtain ⟨f1, f2, f3, f4, _⟩ := stdTile_fields N h (c0.1 / h) (tnum h c0.1 c0.2) hnz0
  rw [← home, ← e0] at f1 f2 f3 f4
  apply tdata_of_pointwise T t.h t.l t.n t.w d (hw j t d ht hd)
  intro q hq
  have hp := Nat.two_pow_pos h
  rw [f1, f2, f3]
  rw [f4] at hq
  -- the level-(L*h) coordinate of position q
  have hm1 : tnum h c0.1 c0.2 * 2 ^ h + q < cnt h N (c0.1 / h) := by omega
  have hm2 : cnt h N (c0.1 / h + 1) * 2 ^ h ≤ tnum h c0.1 c0.2 * 2 ^ h + q := by rw [← hright]; omega
  obtain ⟨c, hc, e1, e2, e3, e4⟩ := block_cover h N hh cs ok.cover (c0.1 / h) _ hm1 hm2
  have hdiv : (tnum h c0.1 c0.2 * 2 ^ h + q) / 2 ^ h = tnum h c0.1 c0.2 := by
    apply Nat.div_eq_of_lt_le
    · omega
    · rw [Nat.add_mul]; omega
  have hmod : (tnum h c0.1 c0.2 * 2 ^ h + q) % 2 ^ h = q := by
    have := Nat.div_add_mod (tnum h c0.1 c0.2 * 2 ^ h + q) (2 ^ h)
    rw [hdiv, Nat.mul_comm] at this
    omega
  rw [hdiv] at e2
  rw [hmod] at e3 e4
  have hhome : home h N c = t := by rw [e0]; simp [home, e1, e2]
  obtain ⟨i, hi⟩ := List.mem_iff_getElem?.mp hc
  obtain ⟨j', d', a1, a2, a3⟩ := hA i c hi
  rw [hhome] at a1 a3
  have hjj := look_inj ok.inv.look t j' j a1 ht
  subst hjj
  rw [hd] at a2
  cases a2
  have hvc := cover_bound cs 0 N ok.cover c hc
  have := hashFromTile_auth node T N hcf env.step t d (idxOf c) c.1 c.2 (by omega) (env.split c.1 c.2 hvc) hvc a3 q
    (by rw [f1]; exact e3) (by rw [f1]; exact e4)
  rw [f1, f2, f3] at this
  exact this

/-- (ii) every later tile is true because its hash inside its (already true) parent is the hash of its data
    (structural fact (d)) -/
theorem all_tiles_true (hcf : ∀ a b c d : H, node a b = node c d → a = c ∧ b = d) (env : Env node T N st)
    (h : Nat) (hh : 0 < h) (cs : List (Nat × Nat)) (idx : List Nat) (p : Plan) (ok : PlanOK h N cs idx p)
    (data : List (List H))
    (hw : ∀ (i : Nat) (t : Tile) (d : List H), p.tiles[i]? = some t → data[i]? = some d → d.length = t.w)
    (hstx : ∀ (j : Nat) (t : Tile) (d : List H), j < p.nstx → p.tiles[j]? = some t → data[j]? = some d →
      d = tdata T t.h t.l t.n t.w)
    (hch : ∀ i', p.nstx ≤ i' → i' < p.tiles.length → ChildOK node N p data i') :
    ∀ (i : Nat) (t : Tile) (d : List H), p.tiles[i]? = some t → data[i]? = some d → d = tdata T t.h t.l t.n t.w := by
  intro i
  induction i using Nat.strongRecOn with
  | _ i ih =>
    intro t d ht hd
    by_cases hi : i < p.nstx
    · exact hstx i t d hi ht hd
    · have hil : i < p.tiles.length := (List.getElem?_eq_some_iff.mp ht).1
      obtain ⟨tile, di, j, dj, v, c1, c2, c3, c4, c5, c6⟩ := hch i (by omega) hil
      rw [ht] at c1; cases c1
      rw [hd] at c2; cases c2
      obtain ⟨hfw, j0, hj0, hpar⟩ := ok.inv.child i t (by omega) ht
      have hjj := look_inj ok.inv.look _ j j0 ((ok.inv.look _ j).mp c3) hpar
      subst hjj
      have hdj := ih j hj0 _ dj hpar c4
      obtain ⟨g1, g2, g3, g4, g5, g6⟩ := std_facts N h t (ok.inv.std t (List.mem_iff_getElem?.mpr ⟨i, ht⟩))
      have hp := Nat.two_pow_pos h
      have hfull : (t.n + 1) * 2 ^ h ≤ cnt h N t.l := by rw [Nat.add_mul]; omega
      have hpn := parent_of_full h N t.l t.n hfull
      have hpe : tileParent t 1 N = stdTile h N (t.l + 1) (t.n / 2 ^ h) := by
        rw [tileParent_eq t 1 N g2, g1, Nat.one_mul]
      have hpnz : t.n / 2 ^ h * 2 ^ h < cnt h N (t.l + 1) := by
        have := Nat.div_mul_le_self t.n (2 ^ h); omega
      obtain ⟨q1, q2, q3, _, _⟩ := stdTile_fields N h (t.l + 1) (t.n / 2 ^ h) hpnz
      rw [← hpe] at q1 q2 q3
      have hvalid : (t.n + 1) * 2 ^ ((t.l + 1) * h) ≤ N := (valid_iff h N (t.l + 1) t.n).mpr hpn
      rw [q1, q2] at c5
      rw [hdj] at c5
      have hv := hashFromTile_true node T N env.step _ _ ((t.l + 1) * h) t.n v (by omega)
        (env.split _ _ hvalid) hvalid c5
      subst hv
      have hlen : d.length = 2 ^ h := by rw [hw i t d ht hd, hfw]
      have hp1 := ptree_of_tileHash node h d _ hlen c6
      have hp2 := ptree_T node T N env.step h (t.l * h) t.n (by
        rw [show t.l * h + h = (t.l + 1) * h by rw [Nat.add_mul]; omega]; exact hvalid)
      rw [show t.l * h + h = (t.l + 1) * h by rw [Nat.add_mul]; omega] at hp2
      have := ptree_inj node hcf h _ _ _ hlen (by simp) hp1 hp2
      rw [this, g1, hfw]
      rfl

/-- the hashes pulled out of true tiles are the true stored hashes -/
theorem extract_true (env : Env node T N st) (h : Nat) (hh : 0 < h) (cs : List (Nat × Nat)) (idx : List Nat) (p : Plan)
    (ok : PlanOK h N cs idx p) (data : List (List H))
    (hall : ∀ (i : Nat) (t : Tile) (d : List H), p.tiles[i]? = some t → data[i]? = some d → d = tdata T t.h t.l t.n t.w)
    (hidx : ∀ x ∈ idx, x < storedHashIndex 0 N) (hs : List H)
    (hx : hashList node p.tiles data (idx.zip p.indexTileOrder) = .ok hs) :
    idx.mapM (st[·]?) = some hs := by
  obtain ⟨hl, hget⟩ := hashList_get node _ _ _ _ hx
  apply mapM_option_of_get
  · rw [hl, List.length_zip, ok.itoLen]; simp
  · intro i x hi
    obtain ⟨c, c1, c2, c3⟩ := env_split_of_lt node T N st env x (hidx x (List.mem_iff_getElem?.mpr ⟨i, hi⟩))
    obtain ⟨j, j1, j2⟩ := ok.ito i x c hi c1
    have hz : (idx.zip p.indexTileOrder)[i]? = some (x, j) := by
      rw [List.getElem?_zip_eq_some]; exact ⟨hi, j1⟩
    obtain ⟨v, v1, v2⟩ := hget i _ _ hz
    refine ⟨v, v1, ?_⟩
    unfold hashAt at v2
    rw [j2] at v2
    cases hd : data[j]? with
    | none => rw [hd] at v2; cases v2
    | some d =>
      rw [hd] at v2
      simp only at v2
      rw [hall j _ d j2 hd] at v2
      have hnz := home_nonzero h N c hh c2
      obtain ⟨f1, _, _, _, _⟩ := stdTile_fields N h (c.1 / h) (tnum h c.1 c.2) hnz
      rw [← home] at f1
      have := hashFromTile_true node T N env.step (home h N c) x c.1 c.2 v (by omega) c1 c2 v2
      rw [this, ← c3]
      exact env.get c.1 c.2 c2

theorem planIndex_ok_lt (h N : Nat) (s s' : List Tile × List (Tile × Nat) × List Nat) (x : Nat)
    (hp : planIndex h N s x = .ok s') : x < storedHashIndex 0 N := by
  obtain ⟨tiles, order, ito⟩ := s
  apply Nat.lt_of_not_le
  intro hge
  unfold planIndex at hp
  simp only [ge_iff_le, hge, ↓reduceIte] at hp
  cases hp

theorem planIndexes_ok_lt (h N : Nat) : ∀ (idx : List Nat) (s s' : List Tile × List (Tile × Nat) × List Nat),
    planIndexes h N idx s = .ok s' → ∀ x ∈ idx, x < storedHashIndex 0 N := by
  intro idx
  induction idx with
  | nil => intro s s' _ x hx; simp at hx
  | cons a l ih =>
    intro s s' hp x hx
    simp only [planIndexes, bind, Except.bind] at hp
    cases h1 : planIndex h N s a with
    | error e => rw [h1] at hp; cases hp
    | ok s1 =>
      rw [h1] at hp
      rcases List.mem_cons.mp hx with e | e
      · subst e; exact planIndex_ok_lt h N s s1 x h1
      · exact ih s1 s' hp x e

theorem plan_ok_lt (h N : Nat) (idx : List Nat) (p : Plan) (hp : plan h N idx = .ok p) :
    ∀ x ∈ idx, x < storedHashIndex 0 N := by
  unfold plan at hp
  simp only [bind, Except.bind] at hp
  cases h1 : subTreeIndex 0 N with
  | error e => rw [h1] at hp; cases hp
  | ok stx =>
    rw [h1] at hp
    simp only at hp
    cases h2 : planStx h N stx ([], [], []) with
    | error e => rw [h2] at hp; cases hp
    | ok r =>
      obtain ⟨tiles, order, sto⟩ := r
      rw [h2] at hp
      simp only at hp
      cases h3 : planIndexes h N idx (tiles, order, []) with
      | error e => rw [h3] at hp; cases hp
      | ok r3 => exact planIndexes_ok_lt h N idx _ _ h3

variable [DecidableEq H]

/-- `readHashes` either stops before SaveTiles, or has fetched data that passed `authenticate` -/
theorem readHashes_cases (h : Nat) (idx : List Nat) (serve : Tile → Option (List H)) :
    ((readHashes node N th h idx serve).saved = none ∧
      ∀ hs, (readHashes node N th h idx serve).result = .ok hs → hs = [] ∧ idx = []) ∨
    ∃ p data, plan h N idx = .ok p ∧ p.stx ≠ [] ∧ p.tiles.mapM serve = some data ∧ widthsOk p.tiles data = true ∧
      authenticate node N th p data = .ok () ∧
      (readHashes node N th h idx serve).saved = some (p.tiles.zip data) ∧
      (readHashes node N th h idx serve).result = extract node p data (idx.zip p.indexTileOrder) := by
  unfold readHashes
  cases hp : plan h N idx with
  | error e => left; exact ⟨rfl, by intro hs hh; cases hh⟩
  | ok p =>
    simp only
    by_cases hstx : p.stx.isEmpty = true
    · left
      rw [if_pos hstx]
      refine ⟨rfl, ?_⟩
      intro hs hh
      simp only [Except.ok.injEq] at hh
      exact ⟨hh.symm, (plan_stx_nil h N idx p hp (by simpa using hstx)).2⟩
    · rw [if_neg hstx]
      cases hm : p.tiles.mapM serve with
      | none => left; exact ⟨rfl, by intro hs hh; cases hh⟩
      | some data =>
        simp only
        by_cases hwd : widthsOk p.tiles data = true
        · rw [if_neg (by simp [hwd])]
          cases ha : authenticate node N th p data with
          | error e => left; exact ⟨rfl, by intro hs hh; cases hh⟩
          | ok u =>
            right
            exact ⟨p, data, rfl, by simpa using hstx, hm, hwd, ha, rfl, rfl⟩
        · rw [if_pos (by simp [hwd])]
          left; exact ⟨rfl, by intro hs hh; cases hh⟩

/-- ★ (abstract form) whatever is served: every tile handed to SaveTiles is the true tile, and a successful read returns
    the true stored hashes -/
theorem readHashes_authenticated_abs (hcf : ∀ a b c d : H, node a b = node c d → a = c ∧ b = d) (env : Env node T N st)
    (hroot : ∀ cs, Cover cs 0 N → foldR node (cs.map fun c => T c.1 c.2) = some th)
    (h : Nat) (hh : 0 < h) (hN : N < 2 ^ 63) (idx : List Nat) (serve : Tile → Option (List H)) :
    (∀ sv, (readHashes node N th h idx serve).saved = some sv → ∀ td ∈ sv, trueTile st td.1 = some td.2) ∧
    (∀ hs, (readHashes node N th h idx serve).result = .ok hs → idx.mapM (st[·]?) = some hs) := by
  rcases readHashes_cases node N th h idx serve with ⟨a1, a2⟩ | ⟨p, data, b1, _, b3, b4, b5, b6, b7⟩
  · refine ⟨(by intro sv hsv; rw [a1] at hsv; cases hsv), ?_⟩
    intro hs hr
    obtain ⟨e1, e2⟩ := a2 hs hr
    subst e1 e2; rfl
  · have hidx := plan_ok_lt h N idx p b1
    obtain ⟨cs, p', q1, ok⟩ := plan_spec h N hh hN env.split idx (env_hidx node T N st env idx hidx)
    rw [b1] at q1; cases q1
    obtain ⟨hlen, hw⟩ := widthsOk_spec p.tiles data b4
    obtain ⟨hs0, r1, r2, r3⟩ := authenticate_ok node N th p data b5
    have hstx := stx_tiles_true node T N th st hcf env hroot h hh cs idx p ok data hlen hw hs0 r1 r2
    have hch : ∀ i', p.nstx ≤ i' → i' < p.tiles.length → ChildOK node N p data i' := by
      intro i' h1 h2
      exact authChildren_ok node N p data _ _ r3 i' h1 (by have := ok.nstxLe; omega)
    have hall := all_tiles_true node T N st hcf env h hh cs idx p ok data hw hstx hch
    constructor
    · intro sv hsv td htd
      rw [b6] at hsv; cases hsv
      obtain ⟨i, hi⟩ := List.mem_iff_getElem?.mp htd
      rw [List.getElem?_zip_eq_some] at hi
      obtain ⟨g1, g2, g3, _, g5, _⟩ := std_facts N h td.1 (ok.inv.std td.1 (List.mem_iff_getElem?.mpr ⟨i, hi.1⟩))
      rw [hall i td.1 td.2 hi.1 hi.2]
      exact trueTile_eq node T N st env td.1 g3 (by rw [g1]; exact g5)
    · intro hs hr
      rw [b7, extract_ok_iff] at hr
      exact extract_true node T N st env h hh cs idx p ok data hall hidx hs hr

end
end ModVerif.TileAuth
