/-
  Helper lemmas for Tie/FnPrint.lean, part E: the statement loop of `printer.file`, `printer.file`, and the
  trailing-blank-line loop of `Format`.
-/
import ModVerif.Proofs.TieFnPrintD
set_option linter.unusedSimpArgs false
set_option linter.unusedVariables false
namespace ModVerif.TieFnPrint
open ModVerif ModVerif.GoRt ModVerif.GoRtPrint ModVerif.Modfile
open ModVerif.Generated.Print
open ModVerif.Drv.GenPrint (G.pos G.com G.coms G.line G.lparen G.rparen G.expr G.file)

theorem expr_After (s : Modfile.Expr) : (Expr_Comments (G.expr s)).After = s.comments.after.map G.com := by
  cases s <;> rfl

theorem stmts_loop (M : Nat) (gf : Generated.Print.FileSyntax) (rest : List Modfile.Expr) :
    ∀ (pre : List Modfile.Expr) (fuel : Nat) (mp : Printer),
    gf.Stmt = (pre ++ rest).map G.expr → mp.margin + 1 ≤ M → pot M mp + cStmts M rest ≤ fuel →
    ∃ r, printer_file_loop2 ((pre ++ rest).map G.expr) gf fuel (pre.length : Int) (emb mp)
      = .ok (r, emb (mp.stmts rest)) := by
  induction rest with
  | nil =>
    intro pre fuel mp hst hm hf
    obtain ⟨f, rfl⟩ : ∃ f, fuel = f + 1 := ⟨fuel - 1, by simp only [cStmts] at hf; omega⟩
    rw [printer_file_loop2]
    have hc : decide ((pre.length : Int) < len ((pre ++ []).map G.expr)) = false := by simp [len_eq]
    simp only [hc, Bool.false_eq_true, if_false, pure_eq_ok, Printer.stmts]
    exact ⟨_, rfl⟩
  | cons s rest ih =>
    intro pre fuel mp hst hm hf
    simp only [cStmts] at hf
    obtain ⟨f, rfl⟩ : ∃ f, fuel = f + 1 := ⟨fuel - 1, by omega⟩
    have hm0 : mp.margin ≤ M := by omega
    have hc : decide ((pre.length : Int) < len ((pre ++ s :: rest).map G.expr)) = true := by simp [len_eq]; omega
    have hi : idxL ((pre ++ s :: rest).map G.expr) (pre.length : Int) = .ok (G.expr s) := by
      have := idxL_append_length (pre.map G.expr) (G.expr s) (rest.map G.expr)
      simpa using this
    have he := expr_sim M mp s f hm (by omega)
    have pe := expr_pot M mp s hm
    have hn := newline_sim M (mp.expr s) f (by simp; omega) (by omega)
    have pn := newline_pot M (mp.expr s) (by simp; omega)
    have hlast : decide ((pre.length : Int) + 1 < len gf.Stmt) = !rest.isEmpty := by
      rw [hst]; cases rest <;> simp [len_eq] <;> omega
    rw [stmts_cons, printer_file_loop2]
    simp only [hc, if_true, hi, bind_ok, expr_After, hlast]
    have hpre : pre ++ s :: rest = (pre ++ [s]) ++ rest := by simp
    have key : ∀ q : Printer, q.margin = mp.margin → pot M q ≤ pot M mp + cExpr M s + cNewline M →
        ∃ r, (do
          let r3 ← printer_file_loop3 (List.map G.com s.comments.after) (G.expr s) f 0 (emb q)
          if (!rest.isEmpty) = true then (do
            let t14 ← printer_newline f r3.snd
            printer_file_loop2 (List.map G.expr (pre ++ s :: rest)) gf f ((pre.length : Int) + 1) t14.snd)
          else printer_file_loop2 (List.map G.expr (pre ++ s :: rest)) gf f ((pre.length : Int) + 1) r3.snd)
        = .ok (r, emb ((if rest.isEmpty then q.commentLines s.comments.after
                         else (q.commentLines s.comments.after).newline).stmts rest)) := by
      intro q hq hp
      obtain ⟨r3, h3⟩ := file_loop3_sim M s.comments.after (G.expr s) f q (by omega) (by omega)
      have p3 := commentLines_pot M s.comments.after q (by omega)
      have hn2 := newline_sim M (q.commentLines s.comments.after) f (by simp; omega) (by omega)
      have pn2 := newline_pot M (q.commentLines s.comments.after) (by simp; omega)
      rw [h3]
      simp only [bind_ok]
      have hst' : gf.Stmt = List.map G.expr (pre ++ [s] ++ rest) := by rw [hst, hpre]
      rw [hpre, range_next pre s]
      cases hr : rest.isEmpty
      · simp only [Bool.not_false, if_true, Bool.false_eq_true, if_false]
        rw [hn2]
        simp only [bind_ok]
        exact ih (pre ++ [s]) f _ hst' (by simp; omega) (by omega)
      · simp only [Bool.not_true, Bool.false_eq_true, if_false, if_true]
        exact ih (pre ++ [s]) f _ hst' (by simp; omega) (by omega)
    cases s with
    | commentBlock x =>
      simp only [G.expr] at he ⊢
      rw [he]
      simp only [bind_ok]
      have := exprCommentBlock_pot M mp x hm0
      exact key (mp.exprCommentBlock x) (by simp) (by simp only [cExpr]; omega)
    | line x =>
      simp only [G.expr] at he ⊢
      rw [he]
      simp only [bind_ok]
      rw [hn]
      simp only [bind_ok]
      exact key (mp.expr (.line x)).newline (by simp) (by omega)
    | lineBlock x =>
      simp only [G.expr] at he ⊢
      rw [he]
      simp only [bind_ok]
      rw [hn]
      simp only [bind_ok]
      exact key (mp.expr (.lineBlock x)).newline (by simp) (by omega)
    | lparen x =>
      simp only [G.expr] at he ⊢
      rw [he]
      simp only [bind_ok]
      rw [hn]
      simp only [bind_ok]
      exact key (mp.expr (.lparen x)).newline (by simp) (by omega)
    | rparen x =>
      simp only [G.expr] at he ⊢
      rw [he]
      simp only [bind_ok]
      rw [hn]
      simp only [bind_ok]
      exact key (mp.expr (.rparen x)).newline (by simp) (by omega)

theorem file_sim (M : Nat) (mp : Printer) (f : Modfile.FileSyntax) (fuel : Nat)
    (hm : mp.margin + 1 ≤ M) (hf : pot M mp + cFile M f ≤ fuel) :
    printer_file fuel (emb mp) (G.file f) = .ok ((), emb (mp.file f)) := by
  unfold printer_file
  simp only [cFile] at hf
  have hb : (G.file f).Comments.Before = f.comments.before.map G.com := rfl
  have hs : (G.file f).Stmt = f.stmts.map G.expr := rfl
  obtain ⟨r1, h1⟩ := file_loop1_sim M f.comments.before (G.file f) fuel mp (by omega) (by omega)
  have p1 := commentLines_pot M f.comments.before mp (by omega)
  obtain ⟨r2, h2⟩ := stmts_loop M (G.file f) f.stmts [] fuel (mp.commentLines f.comments.before) hs
    (by simpa using hm) (by omega)
  simp only [List.nil_append, List.length_nil] at h2
  have z : ((0 : Nat) : Int) = (0 : Int) := rfl
  rw [z] at h2
  simp only [hb, hs, h1, bind_ok, h2, pure_eq_ok]
  rfl

/-! ### the trailing-blank-line loop of Format -/

theorem trimTrailingBlank_ne (c : UInt8) (R : Bytes) (h : c ≠ 10) : trimTrailingBlank (c :: R) = c :: R := by
  unfold trimTrailingBlank
  split
  · rename_i heq; cases heq; exact absurd rfl h
  · rfl

theorem format_loop (R : Bytes) : ∀ fuel : Nat, R.length + 1 ≤ fuel →
    Format_loop1 fuel R.reverse = .ok (trimTrailingBlank R).reverse := by
  induction R with
  | nil =>
    intro fuel hf
    obtain ⟨f, rfl⟩ : ∃ f, fuel = f + 1 := ⟨fuel - 1, by simp at hf; omega⟩
    simp [Format_loop1, trimTrailingBlank]
  | cons c R ih =>
    intro fuel hf
    obtain ⟨f, rfl⟩ : ∃ f, fuel = f + 1 := ⟨fuel - 1, by simp at hf; omega⟩
    have hf' : R.length + 1 ≤ f := by simp at hf; omega
    have hpos : decide (len (c :: R).reverse > 0) = true := by simp [len_eq]
    have e10c : decide (((c.toNat : Nat) : Int) = 10) = (c == 10) := decide_byte_eq c 10 (by omega)
    rw [Format_loop1]
    simp only [hpos, if_true, idx_last, bind_ok, pure_eq_ok, e10c]
    by_cases hc : c = 10
    · subst hc
      simp only [beq_self_eq_true, if_true]
      cases R with
      | nil =>
        have h1 : decide (len ([10] : Bytes).reverse = 1) = true := by simp [len_eq]
        simp only [h1, if_true, pure_eq_ok, bind_ok, sliceTo_drop_last]
        have := ih f hf'
        simpa [trimTrailingBlank] using this
      | cons d R =>
        have h1 : decide (len (10 :: d :: R).reverse = 1) = false := by simp [len_eq]; omega
        have e10d : decide (((d.toNat : Nat) : Int) = 10) = (d == 10) := decide_byte_eq d 10 (by omega)
        simp only [h1, Bool.false_eq_true, if_false, idx_last2, bind_ok, pure_eq_ok, e10d]
        by_cases hd : d = 10
        · subst hd
          simp only [beq_self_eq_true, if_true, sliceTo_drop_last, bind_ok]
          rw [ih f hf']
          simp [trimTrailingBlank]
        · have : (d == 10) = false := by simp [hd]
          simp only [this, Bool.false_eq_true, if_false]
          have e : trimTrailingBlank (10 :: d :: R) = 10 :: d :: R := by
            simp [trimTrailingBlank, hd]
          rw [e]
    · have : (c == 10) = false := by simp [hc]
      simp only [this, Bool.false_eq_true, if_false, pure_eq_ok, bind_ok]
      rw [trimTrailingBlank_ne c R hc]

/-! ### the fuel bounds of the tie theorems (the costs of TieFnPrintC at the margin the state actually has) -/

/-- fuel for `newline`: buffer length + Σ over pending comments (|TrimSpace text| + margin + 2) + margin + 4 -/
def newlineFuel (mp : Printer) : Nat := pot mp.margin mp + cNewline mp.margin

/-- fuel for `expr`: inside a block the margin is one more -/
def exprFuel (mp : Printer) (x : Modfile.Expr) : Nat := pot (mp.margin + 1) mp + cExpr (mp.margin + 1) x

def fileFuel (mp : Printer) (f : Modfile.FileSyntax) : Nat := pot (mp.margin + 1) mp + cFile (mp.margin + 1) f

/-- fuel for `Format`: the cost of the file at margin ≤ 1 (the printer starts empty at margin 0) -/
def fuelBound (f : Modfile.FileSyntax) : Nat := cFile 1 f

theorem format_sim (f : Modfile.FileSyntax) (fuel : Nat) (hf : fuelBound f ≤ fuel) :
    Format fuel (G.file f) = .ok (Modfile.format f) := by
  unfold Format fuelBound at *
  have h1 := file_sim 1 {} f fuel (by simp) (by simpa [pot, cComs] using hf)
  have p1 := file_pot 1 {} f (by simp)
  have hL := pot_len 1 (Printer.file {} f)
  have p0 : pot 1 ({} : Printer) = 0 := rfl
  rw [emb_default]
  simp only []
  rw [h1]
  simp only [bind_ok, emb_Buffer]
  rw [format_loop _ fuel (by omega)]
  rfl

end ModVerif.TieFnPrint
