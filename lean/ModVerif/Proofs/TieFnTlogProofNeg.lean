/-
  Tie helpers (7): degenerate intervals (`hi` negative, `hi ≤ lo`) — the Go functions panic at the first guard, and so
  does the model on `hi.toNat = 0`.  Lets the Int-argument tie theorems do without a hypothesis `0 ≤ hi`.
-/
import ModVerif.Proofs.TieFnTlogProofTop
namespace ModVerif.Tie.FnTlogProof
open ModVerif ModVerif.GoRt ModVerif.GoRtList ModVerif.TieFnTlogInt

section
variable {H : Type} [DecidableEq H] [Inhabited H] (node : H → H → H)

/-- a negative `hi`: the guard `lo <= n && n < hi` fails -/
theorem leafProof_neg (fuel : Nat) (lo hi n : Int) (hashes : List H) (hn : 0 ≤ n) (hhi : hi < 0) (hf : 1 ≤ fuel) :
    Generated.Tlog.leafProof node fuel lo hi n hashes = .error .panic := by
  obtain ⟨fuel, rfl⟩ : ∃ f', fuel = f' + 1 := ⟨fuel - 1, by omega⟩
  unfold Generated.Tlog.leafProof
  have hg : (!(decide (lo ≤ n) && decide (n < hi))) = true := by simp; omega
  simp only [hg, if_true, throw_eq_error]

theorem treeProof_neg (fuel : Nat) (lo hi n : Int) (hashes : List H) (hn : 0 ≤ n) (hhi : hi < 0) (hf : 1 ≤ fuel) :
    Generated.Tlog.treeProof node fuel lo hi n hashes = .error .panic := by
  obtain ⟨fuel, rfl⟩ : ∃ f', fuel = f' + 1 := ⟨fuel - 1, by omega⟩
  unfold Generated.Tlog.treeProof
  have hg : (!(decide (lo < n) && decide (n ≤ hi))) = true := by simp; omega
  simp only [hg, if_true, throw_eq_error]

theorem leafProofIndex_neg (fuel : Nat) (lo hi n : Int) (need : List Int) (hn : 0 ≤ n) (hhi : hi < 0) (hf : 1 ≤ fuel) :
    Generated.Tlog.leafProofIndex fuel lo hi n need = .error .panic := by
  obtain ⟨fuel, rfl⟩ : ∃ f', fuel = f' + 1 := ⟨fuel - 1, by omega⟩
  unfold Generated.Tlog.leafProofIndex
  have hg : (!(decide (lo ≤ n) && decide (n < hi))) = true := by simp; omega
  simp only [hg, if_true, throw_eq_error]

theorem treeProofIndex_neg (fuel : Nat) (lo hi n : Int) (need : List Int) (hn : 0 ≤ n) (hhi : hi < 0) (hf : 1 ≤ fuel) :
    Generated.Tlog.treeProofIndex fuel lo hi n need = .error .panic := by
  obtain ⟨fuel, rfl⟩ : ∃ f', fuel = f' + 1 := ⟨fuel - 1, by omega⟩
  unfold Generated.Tlog.treeProofIndex
  have hg : (!(decide (lo < n) && decide (n ≤ hi))) = true := by simp; omega
  simp only [hg, if_true, throw_eq_error]

/-- `hi ≤ lo` (in particular a negative `hi`): no subtree, `hashes[-1]` panics -/
theorem subTreeHash_empty (fuel : Nat) (lo hi : Int) (hashes : List H) (h : hi ≤ lo) (hf : 1 ≤ fuel) :
    Generated.Tlog.subTreeHash node fuel lo hi hashes = .error .panic := by
  obtain ⟨fuel, rfl⟩ : ∃ f', fuel = f' + 1 := ⟨fuel - 1, by omega⟩
  unfold Generated.Tlog.subTreeHash Generated.Tlog.subTreeHash_loop1
  have e1 : decide (lo < hi) = false := decide_eq_false (by omega)
  simp only [e1, Bool.false_eq_true, if_false, pure_eq_ok, ok_bind]
  have e2 : decide (len hashes < 0) = false := by rw [len_eq]; exact decide_eq_false (by omega)
  simp only [e2, Bool.false_eq_true, if_false]
  rw [chk64_ok _ (by omega) (by omega), ok_bind, idxL_out _ _ (by omega), error_bind]

omit [DecidableEq H] [Inhabited H] in
theorem subTreeHash_model_empty (lo hi : Nat) (hashes : List H) (h : hi ≤ lo) :
    Tlog.subTreeHash node lo hi hashes = .error .panic := by
  have : hi - lo = 0 := by omega
  have hlt : ¬ lo < hi := by omega
  simp [Tlog.subTreeHash, this, Tlog.numTreeF, hlt, Tlog.foldRight]

end
end ModVerif.Tie.FnTlogProof
