/-
  Helper lemmas for Tie/FnPrint.lean, part D: simulation of the whole-line-comment loops (three copies in the generated
  code), of the prologue of `printer.expr`, and of `printer.expr` itself for every node type.

  `printer.expr` recurses only from a `LineBlock` into its `(`, its lines and its `)`, none of which is a block, so no
  induction on the fuel is needed: the four leaf node types are done first and the block on top of them.
-/
import ModVerif.Proofs.TieFnPrintC
set_option linter.unusedSimpArgs false
set_option linter.unusedVariables false
namespace ModVerif.TieFnPrint
open ModVerif ModVerif.GoRt ModVerif.GoRtPrint ModVerif.Modfile
open ModVerif.Generated.Print
open ModVerif.Drv.GenPrint (G.pos G.com G.coms G.line G.lparen G.rparen G.expr G.file)

/-! ### `for _, com := range cs { p.printf("%s", strings.TrimSpace(com.Token)); p.newline() }` -/

theorem commentLines_generic (M : Nat) (l : List Generated.Print.Comment) (L : Nat → Int → printer → GoRt.M (Int × printer))
    (hs : ∀ fuel ri p, L (fuel + 1) ri p =
      if (decide (ri < len l)) then (do
        let com ← idxL l ri
        let t ← printer_newline fuel { p with Buffer := p.Buffer ++ (trimSpace com.Token) }
        L fuel (ri + 1) t.2) else pure (ri, p))
    (rest : List Modfile.Comment) : ∀ (pre : List Modfile.Comment) (fuel : Nat) (mp : Printer),
    l = (pre ++ rest).map G.com → mp.margin ≤ M → pot M mp + cLines M rest ≤ fuel →
    ∃ r, L fuel (pre.length : Int) (emb mp) = .ok (r, emb (mp.commentLines rest)) := by
  induction rest with
  | nil =>
    intro pre fuel mp hl hm hf
    obtain ⟨f, rfl⟩ : ∃ f, fuel = f + 1 := ⟨fuel - 1, by simp only [cLines] at hf; omega⟩
    rw [hs]
    have hc : decide ((pre.length : Int) < len l) = false := by rw [hl]; simp [len_eq]
    simp only [hc, Bool.false_eq_true, if_false, pure_eq_ok, Printer.commentLines]
    exact ⟨_, rfl⟩
  | cons c rest ih =>
    intro pre fuel mp hl hm hf
    simp only [cLines] at hf
    obtain ⟨f, rfl⟩ : ∃ f, fuel = f + 1 := ⟨fuel - 1, by omega⟩
    rw [hs]
    have hc : decide ((pre.length : Int) < len l) = true := by rw [hl]; simp [len_eq]; omega
    have hi : idxL l (pre.length : Int) = .ok (G.com c) := by
      rw [hl]
      have := idxL_append_length (pre.map G.com) (G.com c) (rest.map G.com)
      simpa using this
    simp only [hc, if_true, hi, bind_ok, com_Token, trimSpace_eq]
    have e1 : ({ Buffer := (emb mp).Buffer ++ GoStrings.trimSpace c.token, comment := (emb mp).comment,
                 margin := (emb mp).margin } : printer) = emb (mp.write (GoStrings.trimSpace c.token)) := by
      simp [emb, Printer.write]
    rw [e1, newline_sim M _ f (by simpa using hm) (by simp only [pot_write]; omega)]
    simp only [bind_ok]
    rw [range_next pre c]
    have h1 := newline_pot M (mp.write (GoStrings.trimSpace c.token)) (by simpa using hm)
    simp only [pot_write] at h1
    have := ih (pre ++ [c]) f (mp.write (GoStrings.trimSpace c.token)).newline (by simpa using hl) (by simpa using hm)
      (by omega)
    simpa [Printer.commentLines] using this

theorem expr_loop3_sim (M : Nat) (cs : List Modfile.Comment) (fuel : Nat) (mp : Printer)
    (hm : mp.margin ≤ M) (hf : pot M mp + cLines M cs ≤ fuel) :
    ∃ r, printer_expr_loop3 (cs.map G.com) fuel 0 (emb mp) = .ok (r, emb (mp.commentLines cs)) :=
  commentLines_generic M (cs.map G.com) (printer_expr_loop3 (cs.map G.com))
    (by intro fuel ri p; rw [printer_expr_loop3]) cs [] fuel mp rfl hm hf

theorem file_loop1_sim (M : Nat) (cs : List Modfile.Comment) (gf : Generated.Print.FileSyntax) (fuel : Nat) (mp : Printer)
    (hm : mp.margin ≤ M) (hf : pot M mp + cLines M cs ≤ fuel) :
    ∃ r, printer_file_loop1 (cs.map G.com) gf fuel 0 (emb mp) = .ok (r, emb (mp.commentLines cs)) :=
  commentLines_generic M (cs.map G.com) (printer_file_loop1 (cs.map G.com) gf)
    (by intro fuel ri p; rw [printer_file_loop1]) cs [] fuel mp rfl hm hf

theorem file_loop3_sim (M : Nat) (cs : List Modfile.Comment) (gs : Generated.Print.Expr) (fuel : Nat) (mp : Printer)
    (hm : mp.margin ≤ M) (hf : pot M mp + cLines M cs ≤ fuel) :
    ∃ r, printer_file_loop3 (cs.map G.com) gs fuel 0 (emb mp) = .ok (r, emb (mp.commentLines cs)) :=
  commentLines_generic M (cs.map G.com) (printer_file_loop3 (cs.map G.com) gs)
    (by intro fuel ri p; rw [printer_file_loop3]) cs [] fuel mp rfl hm hf

/-! ### the two halves of `printer.expr` -/

/-- the prologue of the generated `printer.expr`: "emit line-comments preceding this expression" -/
def gBefore (fuel : Nat) (p : printer) (before : List Generated.Print.Comment) : GoRt.M printer :=
  if (decide ((len before) > (0 : Int))) then (do
    let t19 ← (printer_trim fuel p)
    let t21 ← (printer_indent fuel t19.2)
    if (decide (t21 > (0 : Int))) then (do
      let r ← printer_expr_loop2 fuel { t19.2 with Buffer := (t19.2).Buffer ++ (([10] : Bytes)) } 0
      let r2 ← printer_expr_loop3 before fuel 0 r.1
      pure r2.2) else (do
      let r ← printer_expr_loop2 fuel t19.2 0
      let r2 ← printer_expr_loop3 before fuel 0 r.1
      pure r2.2)) else pure p

/-- the type switch of the generated `printer.expr` followed by the queueing of the end-of-line comments -/
def gBody (fuel : Nat) (p : printer) (x : Generated.Print.Expr) : GoRt.M (Unit × printer) :=
  match x with
    | Expr.CommentBlock x_1 => (do
      let p := { (p) with comment := (((p).comment) ++ (((Expr_Comments x)).Suffix)) }
      pure ((), p))
    | Expr.LParen x_2 => (do
      let p := { p with Buffer := (p).Buffer ++ (([40] : Bytes)) }
      let p := { (p) with comment := (((p).comment) ++ (((Expr_Comments x)).Suffix)) }
      pure ((), p))
    | Expr.RParen x_3 => (do
      let p := { p with Buffer := (p).Buffer ++ (([41] : Bytes)) }
      let p := { (p) with comment := (((p).comment) ++ (((Expr_Comments x)).Suffix)) }
      pure ((), p))
    | Expr.Line x_4 => (do
      let t1 ← (printer_tokens fuel p ((x_4).Token))
      let (io2, p) := t1
      let p := { (p) with comment := (((p).comment) ++ (((Expr_Comments x)).Suffix)) }
      pure ((), p))
    | Expr.LineBlock x_5 => (do
      let t3 ← (printer_tokens fuel p ((x_5).Token))
      let (io4, p) := t3
      let p := { p with Buffer := (p).Buffer ++ (([32] : Bytes)) }
      let t5 ← (printer_expr fuel p (Expr.LParen ((x_5).LParen)))
      let (io6, p) := t5
      let p := { (p) with margin := (((p).margin) + (1 : Int)) }
      let rx7 := ((x_5).Line)
      let ri8 := (0 : Int)
      let (ri8, p) ← printer_expr_loop1 rx7 x_5 fuel ri8 p
      let p := { (p) with margin := (((p).margin) - (1 : Int)) }
      let t14 ← (printer_newline fuel p)
      let (io15, p) := t14
      let t16 ← (printer_expr fuel p (Expr.RParen ((x_5).RParen)))
      let (io17, p) := t16
      let p := { (p) with comment := (((p).comment) ++ (((Expr_Comments x)).Suffix)) }
      pure ((), p))

theorem expr_unfold (fuel : Nat) (p : printer) (x : Generated.Print.Expr) :
    printer_expr (fuel + 1) p x = (gBefore fuel p (Expr_Comments x).Before >>= fun p => gBody fuel p x) := by
  rw [printer_expr]
  unfold gBefore
  simp only []
  split
  · simp only [bind_assoc]
    refine bind_congr (fun t19 => ?_)
    refine bind_congr (fun t21 => ?_)
    split <;> simp only [bind_assoc, pure_bind] <;> rfl
  · simp only [pure_bind]; rfl

theorem before_sim (M : Nat) (mp : Printer) (cs : List Modfile.Comment) (fuel : Nat)
    (hm : mp.margin ≤ M) (hf : pot M mp + cBefore M cs ≤ fuel) :
    gBefore fuel (emb mp) (cs.map G.com) = .ok (emb (mp.emitBefore cs)) := by
  unfold gBefore Printer.emitBefore
  cases cs with
  | nil => simp
  | cons c cs =>
    have h0 : decide (len ((c :: cs).map G.com) > 0) = true := by simp [len_eq]
    simp only [cBefore, List.isEmpty_cons, Bool.false_eq_true, if_false] at hf
    have hL := pot_len M mp
    have ht := trim_length mp
    have hpt := pot_trim M mp
    have hcl : 1 ≤ cLines M (c :: cs) := by simp only [cLines]; omega
    simp only [h0, if_true, List.isEmpty_cons, Bool.false_eq_true, if_false]
    rw [trim_sim mp fuel (by omega)]
    simp only [bind_ok]
    rw [indent_sim mp.trim fuel (by omega)]
    simp only [bind_ok]
    by_cases hi : mp.trim.indent > 0
    · have hd : decide (((mp.trim.indent : Nat) : Int) > 0) = true := by simp; omega
      have e1 : ({ Buffer := (emb mp.trim).Buffer ++ [10], comment := (emb mp.trim).comment,
                   margin := (emb mp.trim).margin } : printer) = emb (mp.trim.writeByte 10) := by
        simp [emb, Printer.writeByte]
      simp only [hd, if_true, hi]
      rw [e1, expr_loop2_sim _ fuel (by simp; omega)]
      simp only [bind_ok]
      obtain ⟨r, hr⟩ := expr_loop3_sim M (c :: cs) fuel (mp.trim.writeByte 10).tabs (by simpa using hm)
        (by simp only [pot_tabs, pot_writeByte, writeByte_margin, trim_margin]; omega)
      rw [hr]
      rfl
    · have hd : decide (((mp.trim.indent : Nat) : Int) > 0) = false := by simp; omega
      simp only [hd, Bool.false_eq_true, if_false, hi]
      rw [expr_loop2_sim _ fuel (by simp; omega)]
      simp only [bind_ok]
      obtain ⟨r, hr⟩ := expr_loop3_sim M (c :: cs) fuel mp.trim.tabs (by simpa using hm)
        (by simp only [pot_tabs, trim_margin]; omega)
      rw [hr]
      rfl

end ModVerif.TieFnPrint
