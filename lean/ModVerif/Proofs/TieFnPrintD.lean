/-
  Helper lemmas for Tie/FnPrint.lean, part D: simulation of the whole-line-comment loops (three copies in the generated
  code), of the prologue of `printer.expr`, and of `printer.expr` itself for every node type.

  `printer.expr` recurses only from a `LineBlock` into its `(`, its lines and its `)`, none of which is a block, so no
  induction on the fuel is needed: the four leaf node types are done first and the block on top of them.
-/
import ModVerif.Proofs.TieFnPrintC
set_option linter.unusedSimpArgs false
set_option linter.unusedVariables false
namespace ModVerif.TieFnPrint
open ModVerif ModVerif.GoRt ModVerif.GoRtPrint ModVerif.Modfile
open ModVerif.Generated.Print
open ModVerif.Drv.GenPrint (G.pos G.com G.coms G.line G.lparen G.rparen G.expr G.file)

/-! ### `for _, com := range cs { p.printf("%s", strings.TrimSpace(com.Token)); p.newline() }` -/

theorem commentLines_generic (M : Nat) (l : List Generated.Print.Comment) (L : Nat → Int → printer → GoRt.M (Int × printer))
    (hs : ∀ fuel ri p, L (fuel + 1) ri p =
      if (decide (ri < len l)) then (do
        let com ← idxL l ri
        let t ← printer_newline fuel { p with Buffer := p.Buffer ++ (trimSpace com.Token) }
        L fuel (ri + 1) t.2) else pure (ri, p))
    (rest : List Modfile.Comment) : ∀ (pre : List Modfile.Comment) (fuel : Nat) (mp : Printer),
    l = (pre ++ rest).map G.com → mp.margin ≤ M → pot M mp + cLines M rest ≤ fuel →
    ∃ r, L fuel (pre.length : Int) (emb mp) = .ok (r, emb (mp.commentLines rest)) := by
  induction rest with
  | nil =>
    intro pre fuel mp hl hm hf
    obtain ⟨f, rfl⟩ : ∃ f, fuel = f + 1 := ⟨fuel - 1, by simp only [cLines] at hf; omega⟩
    rw [hs]
    have hc : decide ((pre.length : Int) < len l) = false := by rw [hl]; simp [len_eq]
    simp only [hc, Bool.false_eq_true, if_false, pure_eq_ok, Printer.commentLines]
    exact ⟨_, rfl⟩
  | cons c rest ih =>
    intro pre fuel mp hl hm hf
    simp only [cLines] at hf
    obtain ⟨f, rfl⟩ : ∃ f, fuel = f + 1 := ⟨fuel - 1, by omega⟩
    rw [hs]
    have hc : decide ((pre.length : Int) < len l) = true := by rw [hl]; simp [len_eq]; omega
    have hi : idxL l (pre.length : Int) = .ok (G.com c) := by
      rw [hl]
      have := idxL_append_length (pre.map G.com) (G.com c) (rest.map G.com)
      simpa using this
    simp only [hc, if_true, hi, bind_ok, com_Token, trimSpace_eq]
    have e1 : ({ Buffer := (emb mp).Buffer ++ GoStrings.trimSpace c.token, comment := (emb mp).comment,
                 margin := (emb mp).margin } : printer) = emb (mp.write (GoStrings.trimSpace c.token)) := by
      simp [emb, Printer.write]
    rw [e1, newline_sim M _ f (by simpa using hm) (by simp only [pot_write]; omega)]
    simp only [bind_ok]
    rw [range_next pre c]
    have h1 := newline_pot M (mp.write (GoStrings.trimSpace c.token)) (by simpa using hm)
    simp only [pot_write] at h1
    have := ih (pre ++ [c]) f (mp.write (GoStrings.trimSpace c.token)).newline (by simpa using hl) (by simpa using hm)
      (by omega)
    simpa [Printer.commentLines] using this

theorem expr_loop3_sim (M : Nat) (cs : List Modfile.Comment) (fuel : Nat) (mp : Printer)
    (hm : mp.margin ≤ M) (hf : pot M mp + cLines M cs ≤ fuel) :
    ∃ r, printer_expr_loop3 (cs.map G.com) fuel 0 (emb mp) = .ok (r, emb (mp.commentLines cs)) :=
  commentLines_generic M (cs.map G.com) (printer_expr_loop3 (cs.map G.com))
    (by intro fuel ri p; rw [printer_expr_loop3]) cs [] fuel mp rfl hm hf

theorem file_loop1_sim (M : Nat) (cs : List Modfile.Comment) (gf : Generated.Print.FileSyntax) (fuel : Nat) (mp : Printer)
    (hm : mp.margin ≤ M) (hf : pot M mp + cLines M cs ≤ fuel) :
    ∃ r, printer_file_loop1 (cs.map G.com) gf fuel 0 (emb mp) = .ok (r, emb (mp.commentLines cs)) :=
  commentLines_generic M (cs.map G.com) (printer_file_loop1 (cs.map G.com) gf)
    (by intro fuel ri p; rw [printer_file_loop1]) cs [] fuel mp rfl hm hf

theorem file_loop3_sim (M : Nat) (cs : List Modfile.Comment) (gs : Generated.Print.Expr) (fuel : Nat) (mp : Printer)
    (hm : mp.margin ≤ M) (hf : pot M mp + cLines M cs ≤ fuel) :
    ∃ r, printer_file_loop3 (cs.map G.com) gs fuel 0 (emb mp) = .ok (r, emb (mp.commentLines cs)) :=
  commentLines_generic M (cs.map G.com) (printer_file_loop3 (cs.map G.com) gs)
    (by intro fuel ri p; rw [printer_file_loop3]) cs [] fuel mp rfl hm hf

/-! ### the two halves of `printer.expr` -/

/-- the prologue of the generated `printer.expr`: "emit line-comments preceding this expression" -/
def gBefore (fuel : Nat) (p : printer) (before : List Generated.Print.Comment) : GoRt.M printer :=
  if (decide ((len before) > (0 : Int))) then (do
    let t19 ← (printer_trim fuel p)
    let t21 ← (printer_indent fuel t19.2)
    if (decide (t21 > (0 : Int))) then (do
      let r ← printer_expr_loop2 fuel { t19.2 with Buffer := (t19.2).Buffer ++ (([10] : Bytes)) } 0
      let r2 ← printer_expr_loop3 before fuel 0 r.1
      pure r2.2) else (do
      let r ← printer_expr_loop2 fuel t19.2 0
      let r2 ← printer_expr_loop3 before fuel 0 r.1
      pure r2.2)) else pure p

/-- the type switch of the generated `printer.expr` followed by the queueing of the end-of-line comments -/
def gBody (fuel : Nat) (p : printer) (x : Generated.Print.Expr) : GoRt.M (Unit × printer) :=
  match x with
    | Expr.CommentBlock x_1 => (do
      let p := { (p) with comment := (((p).comment) ++ (((Expr_Comments x)).Suffix)) }
      pure ((), p))
    | Expr.LParen x_2 => (do
      let p := { p with Buffer := (p).Buffer ++ (([40] : Bytes)) }
      let p := { (p) with comment := (((p).comment) ++ (((Expr_Comments x)).Suffix)) }
      pure ((), p))
    | Expr.RParen x_3 => (do
      let p := { p with Buffer := (p).Buffer ++ (([41] : Bytes)) }
      let p := { (p) with comment := (((p).comment) ++ (((Expr_Comments x)).Suffix)) }
      pure ((), p))
    | Expr.Line x_4 => (do
      let t1 ← (printer_tokens fuel p ((x_4).Token))
      let (io2, p) := t1
      let p := { (p) with comment := (((p).comment) ++ (((Expr_Comments x)).Suffix)) }
      pure ((), p))
    | Expr.LineBlock x_5 => (do
      let t3 ← (printer_tokens fuel p ((x_5).Token))
      let (io4, p) := t3
      let p := { p with Buffer := (p).Buffer ++ (([32] : Bytes)) }
      let t5 ← (printer_expr fuel p (Expr.LParen ((x_5).LParen)))
      let (io6, p) := t5
      let p := { (p) with margin := (((p).margin) + (1 : Int)) }
      let rx7 := ((x_5).Line)
      let ri8 := (0 : Int)
      let (ri8, p) ← printer_expr_loop1 rx7 x_5 fuel ri8 p
      let p := { (p) with margin := (((p).margin) - (1 : Int)) }
      let t14 ← (printer_newline fuel p)
      let (io15, p) := t14
      let t16 ← (printer_expr fuel p (Expr.RParen ((x_5).RParen)))
      let (io17, p) := t16
      let p := { (p) with comment := (((p).comment) ++ (((Expr_Comments x)).Suffix)) }
      pure ((), p))

theorem expr_unfold (fuel : Nat) (p : printer) (x : Generated.Print.Expr) :
    printer_expr (fuel + 1) p x = (gBefore fuel p (Expr_Comments x).Before >>= fun p => gBody fuel p x) := by
  rw [printer_expr]
  unfold gBefore
  simp only []
  split
  · simp only [bind_assoc]
    refine bind_congr (fun t19 => ?_)
    refine bind_congr (fun t21 => ?_)
    split <;> simp only [bind_assoc, pure_bind] <;> rfl
  · simp only [pure_bind]; rfl

theorem before_sim (M : Nat) (mp : Printer) (cs : List Modfile.Comment) (fuel : Nat)
    (hm : mp.margin ≤ M) (hf : pot M mp + cBefore M cs ≤ fuel) :
    gBefore fuel (emb mp) (cs.map G.com) = .ok (emb (mp.emitBefore cs)) := by
  unfold gBefore Printer.emitBefore
  cases cs with
  | nil => simp
  | cons c cs =>
    have h0 : decide (len ((c :: cs).map G.com) > 0) = true := by simp [len_eq]
    simp only [cBefore, List.isEmpty_cons, Bool.false_eq_true, if_false] at hf
    have hL := pot_len M mp
    have ht := trim_length mp
    have hpt := pot_trim M mp
    have hcl : 1 ≤ cLines M (c :: cs) := by simp only [cLines]; omega
    simp only [h0, if_true, List.isEmpty_cons, Bool.false_eq_true, if_false]
    rw [trim_sim mp fuel (by omega)]
    simp only [bind_ok]
    rw [indent_sim mp.trim fuel (by omega)]
    simp only [bind_ok]
    by_cases hi : mp.trim.indent > 0
    · have hd : decide (((mp.trim.indent : Nat) : Int) > 0) = true := by simp; omega
      have e1 : ({ Buffer := (emb mp.trim).Buffer ++ [10], comment := (emb mp.trim).comment,
                   margin := (emb mp.trim).margin } : printer) = emb (mp.trim.writeByte 10) := by
        simp [emb, Printer.writeByte]
      simp only [hd, if_true, hi]
      rw [e1, expr_loop2_sim _ fuel (by simp; omega)]
      simp only [bind_ok]
      obtain ⟨r, hr⟩ := expr_loop3_sim M (c :: cs) fuel (mp.trim.writeByte 10).tabs (by simpa using hm)
        (by simp only [pot_tabs, pot_writeByte, writeByte_margin, trim_margin]; omega)
      rw [hr]
      rfl
    · have hd : decide (((mp.trim.indent : Nat) : Int) > 0) = false := by simp; omega
      simp only [hd, Bool.false_eq_true, if_false, hi]
      rw [expr_loop2_sim _ fuel (by simp; omega)]
      simp only [bind_ok]
      obtain ⟨r, hr⟩ := expr_loop3_sim M (c :: cs) fuel mp.trim.tabs (by simpa using hm)
        (by simp only [pot_tabs, trim_margin]; omega)
      rw [hr]
      rfl

/-! ### expr on the leaf node types -/

theorem exprLParen_sim (M : Nat) (mp : Printer) (x : Modfile.LParen) (fuel : Nat)
    (hm : mp.margin ≤ M) (hf : pot M mp + cParen M x.comments ≤ fuel) :
    printer_expr fuel (emb mp) (Expr.LParen (G.lparen x)) = .ok ((), emb (mp.exprLParen x)) := by
  simp only [cParen] at hf
  obtain ⟨f, rfl⟩ : ∃ f, fuel = f + 1 := ⟨fuel - 1, by omega⟩
  rw [expr_unfold]
  have hb : (Expr_Comments (Expr.LParen (G.lparen x))).Before = x.comments.before.map G.com := rfl
  rw [hb, before_sim M mp x.comments.before f hm (by omega)]
  simp only [bind_ok, gBody, pure_eq_ok]
  simp [emb, Printer.exprLParen, Printer.writeByte, Printer.queueSuffix, Expr_Comments, G.lparen, G.coms]

theorem exprRParen_sim (M : Nat) (mp : Printer) (x : Modfile.RParen) (fuel : Nat)
    (hm : mp.margin ≤ M) (hf : pot M mp + cParen M x.comments ≤ fuel) :
    printer_expr fuel (emb mp) (Expr.RParen (G.rparen x)) = .ok ((), emb (mp.exprRParen x)) := by
  simp only [cParen] at hf
  obtain ⟨f, rfl⟩ : ∃ f, fuel = f + 1 := ⟨fuel - 1, by omega⟩
  rw [expr_unfold]
  have hb : (Expr_Comments (Expr.RParen (G.rparen x))).Before = x.comments.before.map G.com := rfl
  rw [hb, before_sim M mp x.comments.before f hm (by omega)]
  simp only [bind_ok, gBody, pure_eq_ok]
  simp [emb, Printer.exprRParen, Printer.writeByte, Printer.queueSuffix, Expr_Comments, G.rparen, G.coms]

theorem exprCommentBlock_sim (M : Nat) (mp : Printer) (x : Modfile.CommentBlock) (fuel : Nat)
    (hm : mp.margin ≤ M) (hf : pot M mp + cParen M x.comments ≤ fuel) :
    printer_expr fuel (emb mp) (G.expr (.commentBlock x)) = .ok ((), emb (mp.exprCommentBlock x)) := by
  simp only [cParen] at hf
  obtain ⟨f, rfl⟩ : ∃ f, fuel = f + 1 := ⟨fuel - 1, by omega⟩
  rw [expr_unfold]
  have hb : (Expr_Comments (G.expr (.commentBlock x))).Before = x.comments.before.map G.com := rfl
  rw [hb, before_sim M mp x.comments.before f hm (by omega)]
  simp only [bind_ok, gBody, G.expr, pure_eq_ok]
  simp [emb, Printer.exprCommentBlock, Printer.queueSuffix, Expr_Comments, G.coms]

theorem exprLine_sim (M : Nat) (mp : Printer) (x : Modfile.Line) (fuel : Nat)
    (hm : mp.margin ≤ M) (hf : pot M mp + cLine M x ≤ fuel) :
    printer_expr fuel (emb mp) (Expr.Line (G.line x)) = .ok ((), emb (mp.exprLine x)) := by
  simp only [cLine] at hf
  obtain ⟨f, rfl⟩ : ∃ f, fuel = f + 1 := ⟨fuel - 1, by omega⟩
  rw [expr_unfold]
  have hb : (Expr_Comments (Expr.Line (G.line x))).Before = x.comments.before.map G.com := rfl
  have ht : (G.line x).Token = x.token := rfl
  have hl := length_le_cToks x.token
  rw [hb, before_sim M mp x.comments.before f hm (by omega)]
  simp only [bind_ok, gBody, ht]
  rw [tokens_sim _ x.token f (by omega)]
  simp only [bind_ok, pure_eq_ok]
  simp [emb, Printer.exprLine, Printer.queueSuffix, Expr_Comments, G.line, G.coms]

/-! ### the lines of a block, and the block -/

theorem lines_loop (M : Nat) (gb : Generated.Print.LineBlock) (rest : List Modfile.Line) :
    ∀ (pre : List Modfile.Line) (fuel : Nat) (mp : Printer),
    mp.margin ≤ M → pot M mp + cBlockLines M rest ≤ fuel →
    ∃ r, printer_expr_loop1 ((pre ++ rest).map G.line) gb fuel (pre.length : Int) (emb mp)
      = .ok (r, emb (mp.exprLines rest)) := by
  induction rest with
  | nil =>
    intro pre fuel mp hm hf
    obtain ⟨f, rfl⟩ : ∃ f, fuel = f + 1 := ⟨fuel - 1, by simp only [cBlockLines] at hf; omega⟩
    rw [printer_expr_loop1]
    have hc : decide ((pre.length : Int) < len ((pre ++ []).map G.line)) = false := by simp [len_eq]
    simp only [hc, Bool.false_eq_true, if_false, pure_eq_ok, Printer.exprLines]
    exact ⟨_, rfl⟩
  | cons l rest ih =>
    intro pre fuel mp hm hf
    simp only [cBlockLines] at hf
    obtain ⟨f, rfl⟩ : ∃ f, fuel = f + 1 := ⟨fuel - 1, by omega⟩
    rw [printer_expr_loop1]
    have hc : decide ((pre.length : Int) < len ((pre ++ l :: rest).map G.line)) = true := by simp [len_eq]; omega
    have hi : idxL ((pre ++ l :: rest).map G.line) (pre.length : Int) = .ok (G.line l) := by
      have := idxL_append_length (pre.map G.line) (G.line l) (rest.map G.line)
      simpa using this
    have h1 := newline_pot M mp hm
    have h2 := exprLine_pot M mp.newline l (by simpa using hm)
    simp only [hc, if_true, hi, bind_ok]
    rw [newline_sim M mp f hm (by omega)]
    simp only [bind_ok]
    rw [exprLine_sim M mp.newline l f (by simpa using hm) (by omega)]
    simp only [bind_ok]
    have hpre : pre ++ l :: rest = (pre ++ [l]) ++ rest := by simp
    rw [hpre, range_next pre l]
    have := ih (pre ++ [l]) f (mp.newline.exprLine l) (by simpa using hm) (by omega)
    simpa [Printer.exprLines] using this

theorem emb_incMargin (q : Printer) :
    ({ Buffer := (emb q).Buffer, comment := (emb q).comment, margin := (emb q).margin + 1 } : printer)
      = emb { q with margin := q.margin + 1 } := by
  simp [emb]

theorem emb_decMargin (q : Printer) (h : 1 ≤ q.margin) :
    ({ Buffer := (emb q).Buffer, comment := (emb q).comment, margin := (emb q).margin - 1 } : printer)
      = emb { q with margin := q.margin - 1 } := by
  simp [emb]; omega

theorem exprLineBlock_sim (M : Nat) (mp : Printer) (x : Modfile.LineBlock) (fuel : Nat)
    (hm : mp.margin + 1 ≤ M) (hf : pot M mp + cBlock M x ≤ fuel) :
    printer_expr fuel (emb mp) (G.expr (.lineBlock x)) = .ok ((), emb (mp.exprLineBlock x)) := by
  simp only [cBlock] at hf
  obtain ⟨f, rfl⟩ : ∃ f, fuel = f + 1 := ⟨fuel - 1, by omega⟩
  have hm0 : mp.margin ≤ M := by omega
  -- the intermediate states of the model
  let p1 := mp.emitBefore x.comments.before
  let p2 := (p1.tokens x.token).writeByte 32
  let p3 := p2.exprLParen x.lparen
  let p4 : Printer := { p3 with margin := p3.margin + 1 }
  let p5 := p4.exprLines x.lines
  let p6 : Printer := { p5 with margin := p5.margin - 1 }
  have m1 : p1.margin = mp.margin := by simp [p1]
  have m2 : p2.margin = mp.margin := by simp [p2, m1]
  have m3 : p3.margin = mp.margin := by simp [p3, m2]
  have m4 : p4.margin = mp.margin + 1 := by simp [p4, m3]
  have m5 : p5.margin = mp.margin + 1 := by simp [p5, m4]
  have m6 : p6.margin = mp.margin := by simp [p6, m5]
  have b1 : pot M p1 ≤ pot M mp + cBefore M x.comments.before := emitBefore_pot M mp _ hm0
  have b2 : pot M p2 ≤ pot M p1 + cToks x.token + 1 := by
    have := tokens_pot M p1 x.token
    simp only [p2, pot_writeByte]; omega
  have b3 : pot M p3 + 2 ≤ pot M p2 + cParen M x.lparen.comments := exprLParen_pot M p2 x.lparen (by omega)
  have b4 : pot M p4 = pot M p3 := rfl
  have b5 : pot M p5 + 1 ≤ pot M p4 + cBlockLines M x.lines := exprLines_pot M x.lines p4 (by omega)
  have b6 : pot M p6 = pot M p5 := rfl
  have b7 : pot M p6.newline + 2 ≤ pot M p6 + cNewline M := newline_pot M p6 (by omega)
  have hl := length_le_cToks x.token
  rw [expr_unfold]
  have hb : (Expr_Comments (G.expr (.lineBlock x))).Before = x.comments.before.map G.com := rfl
  rw [hb, before_sim M mp x.comments.before f hm0 (by omega)]
  simp only [bind_ok, gBody, G.expr]
  rw [tokens_sim _ x.token f (by omega)]
  simp only [bind_ok]
  have e2 : ({ Buffer := (emb (p1.tokens x.token)).Buffer ++ [32], comment := (emb (p1.tokens x.token)).comment,
               margin := (emb (p1.tokens x.token)).margin } : printer) = emb p2 := by
    simp [emb, p2, Printer.writeByte]
  rw [e2, exprLParen_sim M p2 x.lparen f (by omega) (by omega)]
  simp only [bind_ok]
  rw [emb_incMargin]
  obtain ⟨r, hr⟩ := lines_loop M
    ⟨G.coms x.comments, G.pos x.start, G.lparen x.lparen, x.token, x.lines.map G.line, G.rparen x.rparen⟩
    x.lines [] f p4 (by omega) (by omega)
  simp only [List.nil_append, List.length_nil] at hr
  have z : ((0 : Nat) : Int) = (0 : Int) := rfl
  rw [z] at hr
  rw [hr]
  simp only [bind_ok]
  rw [emb_decMargin p5 (by omega)]
  rw [newline_sim M p6 f (by omega) (by omega)]
  simp only [bind_ok]
  rw [exprRParen_sim M p6.newline x.rparen f (by simp; omega) (by omega)]
  simp only [bind_ok, pure_eq_ok]
  simp [emb, Printer.exprLineBlock, Printer.queueSuffix, Expr_Comments, G.coms, p6, p5, p4, p3, p2, p1]

theorem expr_sim (M : Nat) (mp : Printer) (x : Modfile.Expr) (fuel : Nat)
    (hm : mp.margin + 1 ≤ M) (hf : pot M mp + cExpr M x ≤ fuel) :
    printer_expr fuel (emb mp) (G.expr x) = .ok ((), emb (mp.expr x)) := by
  have hm0 : mp.margin ≤ M := by omega
  cases x with
  | commentBlock x => exact exprCommentBlock_sim M mp x fuel hm0 hf
  | line x => exact exprLine_sim M mp x fuel hm0 hf
  | lineBlock x => exact exprLineBlock_sim M mp x fuel hm hf
  | lparen x => exact exprLParen_sim M mp x fuel hm0 hf
  | rparen x => exact exprRParen_sim M mp x fuel hm0 hf

end ModVerif.TieFnPrint
