/-
  EditStartFix, part C — **the universal start-state lemma for a file parsed WITH a version fixer** (C15 `typed_eq_tree`
  (b)): `parseToFile name data fix true = .ok f`, `FixOK fix` (the fixer never returns the empty version),
  `WellFormedKeys f`, `NoBlockSuffix f.syn` ⊢ `Inv (load f)` and `StartOK f`.
-/
import ModVerif.Proofs.EditStartFixB
set_option linter.unusedSimpArgs false
namespace ModVerif.Modfile.Edit.SFix
open ModVerif ModVerif.Modfile ModVerif.Modfile.Edit ModVerif.Proofs.ModfileC20 ModVerif.Proofs.EditMore

theorem parsedOK_of {f : File} (hs : SynOK f.syn.stmts) (hm : Match (entsAll f) (view f.syn.stmts)) : ParsedOK f :=
  ⟨hm, hs.nodup, hs.blockTok, hs.flags⟩

/-- the state after the statement loop (any fixer that never returns the empty version) -/
theorem addStmts_ok {fix : Option Fixer} (hfx : FixOK fix) {name data : Bytes} {fs : FileSyntax} (hp : parse name data = .ok fs)
    {st : AddState} {stmts : List Expr} (hA : addStmts fix true { file := { syn := fs } } fs.stmts = (st, stmts))
    (he : st.errsRev = []) :
    SynOK stmts ∧ Match (entsAll st.file) (view stmts) := by
  rcases addStmts_step hfx fs.stmts _ st stmts hA he with ⟨_, es, hperm, hpair, hblk⟩
  have hids : treeIds stmts = treeIds fs.stmts := by
    rw [treeIds_eq_linesOf, treeIds_eq_linesOf]
    have := addStmts_keys fix true fs.stmts { file := { syn := fs } }
    rw [hA] at this
    have := congrArg (List.map Prod.fst) this
    simpa [List.map_map, lineKey, Function.comp_def] using this
  have hnd : (treeIds stmts).Nodup := by
    rw [hids, treeIds_eq_linesOf]; exact parse_ids_nodup hp
  refine ⟨⟨hnd, hblk, ?_⟩, ?_⟩
  · have := addStmts_flag fix true fs.stmts { file := { syn := fs } } (parse_flags hp)
    rw [hA] at this
    exact this
  · refine Match.of_paired hpair ?_ (List.Nodup.sublist (view_ids_sublist _) hnd)
    simpa [entsAll, segs] using hperm

/-- `fixRetract` without error keeps `ParsedOK` -/
theorem fixRetract_ok (st : AddState) (fix : Option Fixer) (hs : SynOK st.file.syn.stmts)
    (hm : Match (entsAll st.file) (view st.file.syn.stmts)) (he : (fixRetract st fix).errsRev = []) :
    ParsedOK (fixRetract st fix).file := by
  unfold fixRetract at he ⊢
  cases fix with
  | none => exact parsedOK_of hs hm
  | some fx =>
    simp only at he ⊢
    cases hr : st.file.retract with
    | nil => exact parsedOK_of hs hm
    | cons r rs =>
      simp only [hr] at he ⊢
      have key : ∀ path : Bytes, (fixRetractLoop path fx (r :: rs) st.file.syn st.errsRev).2.2 = [] →
          ParsedOK { st.file with retract := (fixRetractLoop path fx (r :: rs) st.file.syn st.errsRev).1,
                                  syn := (fixRetractLoop path fx (r :: rs) st.file.syn st.errsRev).2.1 } := by
        intro path he
        rw [← hr] at he ⊢
        have hm' : Match ((st.file.module.toList.map entM ++ st.file.go.toList.map entGo ++ st.file.toolchain.toList.map entTc ++
              st.file.godebug.map entG ++ st.file.require.map entRq ++ st.file.exclude.map entX ++ st.file.replace.map entRp) ++
              ((([] : List Retract) ++ st.file.retract).map entRt ++ st.file.tool.map entT)) (view st.file.syn.stmts) := by
          simpa [entsAll, segs, List.append_assoc] using hm
        obtain ⟨h1, h2⟩ := fixRetractLoop_match fx path _ _ st.file.retract [] st.file.syn st.errsRev hs hm' he
        refine parsedOK_of h1 ?_
        simpa [entsAll, segs, List.append_assoc] using h2
      cases hmod : st.file.module with
      | none =>
        simp only [hmod, List.isEmpty_nil, if_true] at he
        exact absurd he (err_ne _ _ _)
      | some m =>
        simp only [hmod] at he ⊢
        split at he
        · exact absurd he (err_ne _ _ _)
        · rename_i hpe
          rw [if_neg hpe]
          have := key m.mod.path he
          simp only [hmod] at this
          exact this

theorem parseToFile_ok_fix {fix : Option Fixer} (hfx : FixOK fix) {name data : Bytes} {f : File}
    (h : parseToFile name data fix true = .ok f) : ParsedOK f := by
  unfold parseToFile at h
  cases hp : parse name data with
  | error e => simp [hp] at h
  | ok fs =>
    simp only [hp] at h
    cases hA : addStmts fix true { file := { syn := fs } } fs.stmts with
    | mk st stmts =>
      simp only [hA] at h
      split at h
      · rename_i he
        simp only [Except.ok.injEq] at h
        subst h
        have he' : (fixRetract { st with file := { st.file with syn := { fs with stmts := stmts } } } fix).errsRev = [] := by
          simpa using he
        obtain ⟨add, hadd⟩ := fixRetract_mono { st with file := { st.file with syn := { fs with stmts := stmts } } } fix
        have he0 : st.errsRev = [] := by
          rw [he'] at hadd
          have := (List.append_eq_nil_iff.1 hadd.symm).2
          exact this
        obtain ⟨hs, hm⟩ := addStmts_ok hfx hp hA he0
        exact fixRetract_ok _ fix hs hm he'
      · cases h

/-- **the universal start-state lemma (go.mod), with a version fixer**: every file accepted by the strict parser with a
    fixer that never returns the empty version, with well-formed keys (and no end-of-line comment on an empty one-line
    block), satisfies the tree invariant after `load` -/
theorem parseStrict_inv_fix {fix : Option Fixer} (hfx : FixOK fix) {name data : Bytes} {f : File}
    (h : parseToFile name data fix true = .ok f) (hk : WellFormedKeys f) (hs : NoBlockSuffix f.syn) : Inv (load f) :=
  (parseToFile_ok_fix hfx h).inv_load hk hs

theorem parseStrict_startOK_fix {fix : Option Fixer} (hfx : FixOK fix) {name data : Bytes} {f : File}
    (h : parseToFile name data fix true = .ok f) (hk : WellFormedKeys f) : StartOK f :=
  (parseToFile_ok_fix hfx h).startOK hk

end ModVerif.Modfile.Edit.SFix
