/-
  EditStartFix, part W — the universal start-state lemma for go.work parsed WITH a version fixer (`ParseWork` has no
  `fixRetract`; the fixer only reaches the versions of `replace`): the proofs of Proofs/EditMoreStartW.lean with
  `parseReplace_spec` for a fixer that never returns the empty version.
-/
import ModVerif.Proofs.EditStartFixC
import ModVerif.Proofs.EditMoreStartW
set_option linter.unusedSimpArgs false
namespace ModVerif.Modfile.Edit.SFix
open ModVerif ModVerif.Modfile ModVerif.Modfile.Edit ModVerif.Proofs.ModfileC20 ModVerif.Proofs.EditMore

theorem workAdd_step {fix : Option Fixer} (hfx : FixOK fix) {st st' : WorkState} {line : Line} {verb : Bytes} {args args' : List Bytes}
    (h : WorkFile.add st line verb args fix = (st', args')) (he : st'.errsRev = []) : StepW st st' line (verb :: args') := by
  unfold WorkFile.add at h
  dsimp only at h
  split at h
  · rename_i hv; rw [eq_of_beq hv]
    split at h
    · cases h; exact absurd he (errW_ne _ _ _)
    · rename_i hgo
      have hgo' : st.file.go = none := by simpa using hgo
      split at h
      · rename_i a
        split at h
        · cases h; exact absurd he (errW_ne _ _ _)
        · cases h
          exact ⟨he, ⟨entGo ⟨a, line.id⟩, 0, by omega, by simp [segsW, hgo'], rfl, rfl⟩, by simp⟩
      · cases h; exact absurd he (errW_ne _ _ _)
  split at h
  · rename_i hv; rw [eq_of_beq hv]
    split at h
    · cases h; exact absurd he (errW_ne _ _ _)
    · rename_i hgo
      have hgo' : st.file.toolchain = none := by simpa using hgo
      split at h
      · rename_i a
        split at h
        · cases h; exact absurd he (errW_ne _ _ _)
        · cases h
          exact ⟨he, ⟨entTc ⟨a, line.id⟩, 1, by omega, by simp [segsW, hgo'], rfl, rfl⟩, by simp⟩
      · cases h; exact absurd he (errW_ne _ _ _)
  split at h
  · rename_i hv; rw [eq_of_beq hv]
    split at h
    · cases h; exact absurd he (errW_ne _ _ _)
    · rename_i k v hkv
      have := addGodebug_spec _ _ _ hkv
      subst this
      cases h
      exact ⟨he, ⟨entG ⟨k, v, line.id⟩, 2, by omega, by simp [segsW], rfl, rfl⟩, by simp⟩
  split at h
  · rename_i hv; rw [eq_of_beq hv]
    split at h
    · rename_i a
      split at h
      · cases h; exact absurd he (errW_ne _ _ _)
      · rename_i s a' hs
        have := parseString_tok _ _ _ hs
        subst this
        cases h
        exact ⟨he, ⟨entU { path := s, lineId := line.id }, 3, by omega, by simp [segsW], rfl, rfl⟩, by simp⟩
    · cases h; exact absurd he (errW_ne _ _ _)
  split at h
  · rename_i hv; rw [eq_of_beq hv]
    split at h
    · cases h; exact absurd he (errW_ne _ _ _)
    · rename_i a' r hr
      obtain ⟨e1, e2⟩ := parseReplace_spec hfx _ _ _ _ hr
      cases h
      refine ⟨he, ⟨entRp r, 4, by omega, by simp [segsW], e2, e1⟩, ?_⟩
      rw [e1]; simp [replaceToks]
  · cases h; exact absurd he (errW_ne _ _ _)

theorem workBlockLines_step {fix : Option Fixer} (hfx : FixOK fix) (verb : Bytes) : ∀ (ls : List Line) (st st' : WorkState) (ls' : List Line),
    workBlockLines verb fix st ls = (st', ls') → st'.errsRev = [] →
    st.errsRev = [] ∧ ∃ es, (entsAllW st'.file).Perm (entsAllW st.file ++ es) ∧ Paired es (ls'.map (blockV verb)) ∧
      ∀ l ∈ ls', l.token ≠ [] := by
  intro ls
  induction ls with
  | nil =>
    intro st st' ls' h he
    simp only [workBlockLines, Prod.mk.injEq] at h
    obtain ⟨rfl, rfl⟩ := h
    exact ⟨he, [], by simp, trivial, fun _ h => by cases h⟩
  | cons l rest ih =>
    intro st st' ls' h he
    unfold workBlockLines at h
    cases hA : WorkFile.add st l verb l.token fix with
    | mk st1 toks =>
      cases hB : workBlockLines verb fix st1 rest with
      | mk st2 ls2 =>
        simp only [hA, hB, Prod.mk.injEq] at h
        obtain ⟨rfl, rfl⟩ := h
        rcases ih st1 st2 ls2 hB he with ⟨he1, es, hp, hpair, hne⟩
        have hstep := workAdd_step hfx hA he1
        rcases hstep.perm with ⟨en, hp1, hid, hacc⟩
        refine ⟨hstep.errs, en :: es, ?_, ⟨⟨hid.symm, hacc⟩, hpair⟩, ?_⟩
        · refine hp.trans ?_
          have := hp1.append_right es
          simpa [List.append_assoc] using this
        · intro x hx
          rcases List.mem_cons.1 hx with rfl | hx
          · have := hstep.len
            intro e
            have e' : toks = [] := e
            subst e'
            simp at this
          · exact hne x hx

theorem workStmts_step {fix : Option Fixer} (hfx : FixOK fix) : ∀ (xs : List Expr) (st st' : WorkState) (xs' : List Expr),
    workStmts fix st xs = (st', xs') → st'.errsRev = [] →
    st.errsRev = [] ∧ ∃ es, (entsAllW st'.file).Perm (entsAllW st.file ++ es) ∧ Paired es (view xs') ∧
      ∀ b, Expr.lineBlock b ∈ xs' → ∃ v, b.token = [v] := by
  intro xs
  induction xs with
  | nil =>
    intro st st' xs' h he
    simp only [workStmts, Prod.mk.injEq] at h
    obtain ⟨rfl, rfl⟩ := h
    exact ⟨he, [], by simp, trivial, fun _ h => by cases h⟩
  | cons x rest ih =>
    intro st st' xs' h he
    unfold workStmts at h
    have tail : ∀ (st1 : WorkState) (x' : Expr),
        (workStmts fix st1 rest).1 = st' → xs' = x' :: (workStmts fix st1 rest).2 →
        (st1.errsRev = [] → st.errsRev = [] ∧ ∃ es1, (entsAllW st1.file).Perm (entsAllW st.file ++ es1) ∧ Paired es1 (view [x']) ∧
          ∀ b, x' = Expr.lineBlock b → ∃ v, b.token = [v]) →
        st.errsRev = [] ∧ ∃ es, (entsAllW st'.file).Perm (entsAllW st.file ++ es) ∧ Paired es (view xs') ∧
          ∀ b, Expr.lineBlock b ∈ xs' → ∃ v, b.token = [v] := by
      intro st1 x' h1 h2 hhead
      cases hB : workStmts fix st1 rest with
      | mk st2 xs2 =>
        rw [hB] at h1 h2
        simp only at h1 h2
        subst h1 h2
        rcases ih st1 st2 xs2 hB he with ⟨he1, es, hp, hpair, hblk⟩
        rcases hhead he1 with ⟨he0, es1, hp1, hpair1, hblk1⟩
        refine ⟨he0, es1 ++ es, ?_, ?_, ?_⟩
        · refine hp.trans ?_
          have := hp1.append_right es
          simpa [List.append_assoc] using this
        · rw [view_cons]; exact hpair1.append hpair
        · intro b hb
          rcases List.mem_cons.1 hb with hb | hb
          · exact hblk1 b hb.symm
          · exact hblk b hb
    cases x with
    | line l =>
      cases htok : l.token with
      | nil =>
        simp only [htok] at h
        refine tail st (.line l) (Prod.mk.inj h).1 (Prod.mk.inj h).2.symm ?_
        intro he1
        refine ⟨he1, [], by simp, ?_, fun b hb => by cases hb⟩
        have : view [Expr.line l] = [] := by simp [view, loc, locStmt, liveLoc, htok]
        rw [this]; trivial
      | cons verb args =>
        simp only [htok] at h
        cases hA : WorkFile.add st l verb args fix with
        | mk st1 args' =>
          simp only [hA] at h
          refine tail st1 (.line { l with token := verb :: args' }) (Prod.mk.inj h).1 (Prod.mk.inj h).2.symm ?_
          intro he1
          have hstep := workAdd_step hfx hA he1
          rcases hstep.perm with ⟨en, hp1, hid, hacc⟩
          refine ⟨hstep.errs, [en], hp1, ?_, fun b hb => by cases hb⟩
          have : view [Expr.line { l with token := verb :: args' }] = [⟨l.id, verb :: args', l.comments.suffix⟩] := by
            simp [view, loc, locStmt, liveLoc, mkV]
          rw [this]
          exact ⟨⟨hid.symm, hacc⟩, trivial⟩
    | lineBlock b =>
      simp only at h
      have herr : ∀ (p : Position) (k : RuleErrKind), (workStmts fix (st.err p k) rest).1 = st' → False := by
        intro p k h1
        cases hB : workStmts fix (st.err p k) rest with
        | mk st2 xs2 =>
          rw [hB] at h1; simp only at h1; subst h1
          exact errW_ne _ _ _ (ih _ _ _ hB he).1
      split at h
      · rename_i verb hbt
        split at h
        · cases hA : workBlockLines verb fix st b.lines with
          | mk st1 ls1 =>
            simp only [hA] at h
            refine tail st1 (.lineBlock { b with lines := ls1 }) (Prod.mk.inj h).1 (Prod.mk.inj h).2.symm ?_
            intro he1
            rcases workBlockLines_step hfx verb b.lines st st1 ls1 hA he1 with ⟨he0, es, hp, hpair, hne⟩
            refine ⟨he0, es, hp, ?_, ?_⟩
            · have : view [Expr.lineBlock { b with lines := ls1 }] = ls1.map (blockV verb) := by
                rw [view_block]
                simp only [hbt]
                rw [List.filter_eq_self.2]
                · rfl
                · intro l hl
                  have := hne l hl
                  cases hlt : l.token with
                  | nil => exact absurd hlt this
                  | cons _ _ => rfl
              rw [this]; exact hpair
            · intro b' hb'
              simp only [Expr.lineBlock.injEq] at hb'
              subst hb'
              exact ⟨verb, hbt⟩
        · exact (herr _ _ (Prod.mk.inj h).1).elim
      · exact (herr _ _ (Prod.mk.inj h).1).elim
    | commentBlock c =>
      simp only at h
      refine tail st (.commentBlock c) (Prod.mk.inj h).1 (Prod.mk.inj h).2.symm ?_
      intro he1
      exact ⟨he1, [], by simp, by rw [view_nil_of_other _ (by simp) (by simp)]; trivial, fun b hb => by cases hb⟩
    | lparen c =>
      simp only at h
      refine tail st (.lparen c) (Prod.mk.inj h).1 (Prod.mk.inj h).2.symm ?_
      intro he1
      exact ⟨he1, [], by simp, by rw [view_nil_of_other _ (by simp) (by simp)]; trivial, fun b hb => by cases hb⟩
    | rparen c =>
      simp only at h
      refine tail st (.rparen c) (Prod.mk.inj h).1 (Prod.mk.inj h).2.symm ?_
      intro he1
      exact ⟨he1, [], by simp, by rw [view_nil_of_other _ (by simp) (by simp)]; trivial, fun b hb => by cases hb⟩

theorem parseWork_ok_fix {fix : Option Fixer} (hfx : FixOK fix) {name data : Bytes} {f : WorkFile} (h : parseWork name data fix = .ok f) : ParsedWorkOK f := by
  unfold parseWork at h
  cases hp : parse name data with
  | error e => simp [hp] at h
  | ok fs =>
    simp only [hp] at h
    cases hA : workStmts fix { file := { syn := fs } } fs.stmts with
    | mk st stmts =>
      simp only [hA] at h
      split at h
      · rename_i he
        simp only [Except.ok.injEq] at h
        subst h
        have he' : st.errsRev = [] := by simpa using he
        rcases workStmts_step hfx fs.stmts _ st stmts hA he' with ⟨_, es, hperm, hpair, hblk⟩
        have hids : treeIds stmts = treeIds fs.stmts := by
          rw [treeIds_eq_linesOf, treeIds_eq_linesOf]
          have := workStmts_keys fix fs.stmts { file := { syn := fs } }
          rw [hA] at this
          have := congrArg (List.map Prod.fst) this
          simpa [List.map_map, lineKey, Function.comp_def] using this
        have hnd : (treeIds stmts).Nodup := by
          rw [hids, treeIds_eq_linesOf]; exact parse_ids_nodup hp
        refine ⟨?_, hnd, hblk, ?_⟩
        · refine Match.of_paired hpair ?_ (List.Nodup.sublist (view_ids_sublist _) hnd)
          have : entsAllW ({ st.file with syn := { fs with stmts := stmts } } : WorkFile) = entsAllW st.file := rfl
          rw [this]
          simpa [entsAllW, segsW] using hperm
        · have := workStmts_flag fix fs.stmts { file := { syn := fs } } (parse_flags hp)
          rw [hA] at this
          exact this
      · cases h


/-- **the universal start-state lemma (go.work), with a version fixer** -/
theorem parseWork_invW_fix {fix : Option Fixer} (hfx : FixOK fix) {name data : Bytes} {f : WorkFile}
    (h : parseWork name data fix = .ok f) (hk : WorkKeys f) (hs : NoBlockSuffix f.syn) : InvW (loadWork f) := by
  have hp := parseWork_ok_fix hfx h
  refine ⟨hp.treeWF_load hs, ?_, WInv_load f (hp.startOK hk)⟩
  rw [entriesW_load f hk]
  have hst : (loadWork f).f.syn.stmts = f.syn.stmts.map (mapLinesStmt shiftLine) := shiftSyntax_stmts f.syn
  rw [hst, view_shift]
  exact hp.mtch.shift

theorem parseWork_startOK_fix {fix : Option Fixer} (hfx : FixOK fix) {name data : Bytes} {f : WorkFile}
    (h : parseWork name data fix = .ok f) (hk : WorkKeys f) : WorkStartOK f :=
  (parseWork_ok_fix hfx h).startOK hk

end ModVerif.Modfile.Edit.SFix
