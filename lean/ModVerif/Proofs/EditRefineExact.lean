/-
  EditRefine, part 10 — C16 on the model's typed lists: the bulk setters leave exactly the requested entries, for
  every map-iteration order, and the result does not depend on that order.
-/
import ModVerif.Proofs.EditRefineWork
set_option linter.unusedSimpArgs false
namespace ModVerif.Modfile.Edit
open ModVerif ModVerif.Modfile ModVerif.EditSpec

/-- a permutation of a list with pairwise distinct keys: exactly one entry per wanted key, and nothing else -/
theorem exact_of_perm {α : Type} {key : α → Bytes} {l want : List α} (hp : l.Perm want)
    (hW : want.Pairwise (fun a b => key a ≠ key b)) :
    (∀ w ∈ want, l.filter (fun x => key x == key w) = [w]) ∧ (∀ r ∈ l, r ∈ want) := by
  refine ⟨?_, fun r hr => hp.subset hr⟩
  intro w hw
  rw [filter_key_of_perm hp hW (key w)]
  clear hp
  induction want with
  | nil => cases hw
  | cons x xs ih =>
    rcases List.pairwise_cons.1 hW with ⟨h1, h2⟩
    rcases List.mem_cons.1 hw with rfl | hw'
    · have : xs.filter (fun a => key a == key w) = [] := by
        apply List.filter_eq_nil_iff.2
        intro a ha hka
        exact h1 a ha (eq_of_beq hka).symm
      simp [List.filter, this]
    · have hne : (key x == key w) = false := by
        cases hb : key x == key w with
        | false => rfl
        | true => exact absurd (eq_of_beq hb) (h1 w hw')
      simp only [List.filter, hne]
      exact ih h2 hw'

theorem GoodWant.toReq_distinct {w : List Want} (h : GoodWant w) :
    (w.map Want.toReq).Pairwise (fun a b => a.path ≠ b.path) := by
  rw [List.pairwise_map]; exact h.1

/-- **SetRequire, exact set (model).** -/
theorem setRequire_exact (e e' : EFile) (want : List Want) (perm : List Want → List Want)
    (hperm : ∀ l, (perm l).Perm l) (hg : GoodWant want) (hi : TInv e) (h : setRequire e want perm = .ok e') :
    (absOf (cleanup e').f).require.Perm (want.map Want.toReq) ∧
    (∀ w ∈ want, (absOf (cleanup e').f).require.filter (fun r => r.path == w.path) = [w.toReq]) ∧
    (∀ r ∈ (absOf (cleanup e').f).require, ∃ w ∈ want, r = w.toReq) := by
  have hp := (setRequire_abs e e' want perm hperm hg hi h).1
  rw [absLive_eq_cleanup] at hp
  rcases exact_of_perm (key := Req.path) hp hg.toReq_distinct with ⟨h1, h2⟩
  refine ⟨hp, fun w hw => h1 w.toReq (List.mem_map.2 ⟨w, hw, rfl⟩), fun r hr => ?_⟩
  rcases List.mem_map.1 (h2 r hr) with ⟨w, hw, rfl⟩
  exact ⟨w, hw, rfl⟩

/-- **SetRequireSeparateIndirect, exact set (model).** -/
theorem setRequireSeparateIndirect_exact (e e' : EFile) (want : List Want) (perm : List Want → List Want)
    (hperm : ∀ l, (perm l).Perm l) (hg : GoodWant want) (hi : TInv e) (h : setRequireSeparateIndirect e want perm = .ok e') :
    (absOf (cleanup e').f).require.Perm (want.map Want.toReq) ∧
    (∀ w ∈ want, (absOf (cleanup e').f).require.filter (fun r => r.path == w.path) = [w.toReq]) ∧
    (∀ r ∈ (absOf (cleanup e').f).require, ∃ w ∈ want, r = w.toReq) := by
  have hp := (setRequireSeparateIndirect_abs e e' want perm hperm hg hi h).1
  rw [absLive_eq_cleanup] at hp
  rcases exact_of_perm (key := Req.path) hp hg.toReq_distinct with ⟨h1, h2⟩
  refine ⟨hp, fun w hw => h1 w.toReq (List.mem_map.2 ⟨w, hw, rfl⟩), fun r hr => ?_⟩
  rcases List.mem_map.1 (h2 r hr) with ⟨w, hw, rfl⟩
  exact ⟨w, hw, rfl⟩

/-- **SetUse, exact set (model).** -/
theorem setUse_exact (e e' : EWork) (dirs : List (Bytes × Bytes)) (perm : List (Bytes × Bytes) → List (Bytes × Bytes))
    (hperm : ∀ l, (perm l).Perm l) (hg : GoodUse dirs) (hi : WInv e) (h : setUse e dirs perm = .ok e') :
    (absOfWork (workCleanup e').f).use.Perm (dirs.map Prod.fst) ∧
    (∀ d ∈ dirs, (absOfWork (workCleanup e').f).use.filter (fun u => u == d.1) = [d.1]) ∧
    (∀ u ∈ (absOfWork (workCleanup e').f).use, ∃ d ∈ dirs, u = d.1) := by
  have hp := (setUse_abs e e' dirs perm hperm hg hi h).1
  rw [absLiveWork_eq_cleanup] at hp
  have hW : (dirs.map Prod.fst).Pairwise (fun a b => id a ≠ id b) := by rw [List.pairwise_map]; exact hg.1
  rcases exact_of_perm (key := id) hp hW with ⟨h1, h2⟩
  refine ⟨hp, fun d hd => h1 d.1 (List.mem_map.2 ⟨d, hd, rfl⟩), fun u hu => ?_⟩
  rcases List.mem_map.1 (h2 u hu) with ⟨d, hd, rfl⟩
  exact ⟨d, hd, rfl⟩

/-! ### independence of the map-iteration order (typed lists) -/

/-- whether SetRequire succeeds does not depend on the iteration order -/
theorem setRequire_ok_indep (e : EFile) (want : List Want) (p1 p2 : List Want → List Want) :
    (setRequire e want p1).isOk = (setRequire e want p2).isOk := by
  unfold setRequire
  simp only [bind, Except.bind]
  cases needMap true want [] with
  | error err => rfl
  | ok need =>
    dsimp only
    cases setRequireLoop e.f.require need e.f.syn with
    | error err => rfl
    | ok r => rfl

/-- two runs of SetRequire with different iteration orders: all typed lists are equal, the requirements are equal
    per path (the same multiset, in an order that may differ between paths only) -/
theorem setRequire_perm_independent (e e1 e2 : EFile) (want : List Want) (p1 p2 : List Want → List Want)
    (hp1 : ∀ l, (p1 l).Perm l) (hp2 : ∀ l, (p2 l).Perm l) (hg : GoodWant want) (hi : TInv e)
    (h1 : setRequire e want p1 = .ok e1) (h2 : setRequire e want p2 = .ok e2) :
    Rel (absOf (cleanup e1).f) (absOf (cleanup e2).f) := by
  rcases setRequire_abs e e1 want p1 hp1 hg hi h1 with ⟨a1, b1, _⟩
  rcases setRequire_abs e e2 want p2 hp2 hg hi h2 with ⟨a2, b2, _⟩
  rw [← absLive_eq_cleanup, ← absLive_eq_cleanup, b1, b2]
  exact Rel.removeDups { Rel.refl (absLive e.f) with require := KeyEq.of_perm a1 a2 hg.toReq_distinct }

theorem setRequireSeparateIndirect_perm_independent (e e1 e2 : EFile) (want : List Want) (p1 p2 : List Want → List Want)
    (hp1 : ∀ l, (p1 l).Perm l) (hp2 : ∀ l, (p2 l).Perm l) (hg : GoodWant want) (hi : TInv e)
    (h1 : setRequireSeparateIndirect e want p1 = .ok e1) (h2 : setRequireSeparateIndirect e want p2 = .ok e2) :
    Rel (absOf (cleanup e1).f) (absOf (cleanup e2).f) := by
  rcases setRequireSeparateIndirect_abs e e1 want p1 hp1 hg hi h1 with ⟨a1, b1, _⟩
  rcases setRequireSeparateIndirect_abs e e2 want p2 hp2 hg hi h2 with ⟨a2, b2, _⟩
  rw [← absLive_eq_cleanup, ← absLive_eq_cleanup, b1, b2]
  exact Rel.removeDups { Rel.refl (absLive e.f) with require := KeyEq.of_perm a1 a2 hg.toReq_distinct }

theorem setUse_perm_independent (e e1 e2 : EWork) (dirs : List (Bytes × Bytes))
    (p1 p2 : List (Bytes × Bytes) → List (Bytes × Bytes))
    (hp1 : ∀ l, (p1 l).Perm l) (hp2 : ∀ l, (p2 l).Perm l) (hg : GoodUse dirs) (hi : WInv e)
    (h1 : setUse e dirs p1 = .ok e1) (h2 : setUse e dirs p2 = .ok e2) :
    Rel (absOfWork (workCleanup e1).f) (absOfWork (workCleanup e2).f) := by
  rcases setUse_abs e e1 dirs p1 hp1 hg hi h1 with ⟨a1, b1, _⟩
  rcases setUse_abs e e2 dirs p2 hp2 hg hi h2 with ⟨a2, b2, _⟩
  have hW : (dirs.map Prod.fst).Pairwise (fun a b => id a ≠ id b) := by rw [List.pairwise_map]; exact hg.1
  rw [← absLiveWork_eq_cleanup, ← absLiveWork_eq_cleanup, b1, b2]
  exact Rel.removeDups { Rel.refl (absLiveWork e.f) with use := KeyEq.of_perm a1 a2 hW }

end ModVerif.Modfile.Edit
