/-
  Helper definitions for Tie/FnEditSet.lean: the request as the driver allocates it (`allocReqs` = `newReqs` of
  Drv/GenEdit.lean: one fresh `Require` object per wanted requirement) with the proof that it establishes the argument
  hypotheses of the two ties, and the harness of the non-vacuity examples.
-/
import ModVerif.Proofs.TieFnEditSetP
import ModVerif.Proofs.TieFnEditSortEx
set_option linter.unusedSimpArgs false
set_option linter.unusedVariables false
namespace ModVerif.Tie.FnEditSetQ
open ModVerif ModVerif.GoRt ModVerif.Generated.Edit ModVerif.Tie.FnEditRep
open ModVerif.Tie.FnEditSetD (ReqArgsS wantReq)
open ModVerif.Modfile.Edit (EFile Want setRequire setRequireSeparateIndirect treeIds)
open ModVerif.Drv.GenEdit (isPrintI quoteI)

/-! ### the request as the driver allocates it -/

/-- `newReqs` of Drv/GenEdit.lean: one fresh `Require` object (`Syntax == nil`) per wanted requirement -/
def allocReqs : List Want → Heap → List Int × Heap
  | [], h => ([], h)
  | w :: ws, h =>
    let r := allocReqs ws { h with requires := h.requires ++ [requireG (wantReq w)] }
    (((h.requires.length + 1 : Nat) : Int) :: r.1, r.2)

theorem RepFAt_allocReq {h : Heap} {o : File} {e : EFile} (R : RepFAt h o e) (v : Require) :
    RepFAt { h with requires := h.requires ++ [v] } o e := by
  have := FnEditSetF.RepFAt_rebuild R (h' := { h with requires := h.requires ++ [v] }) (fs' := e.f.syn) (n' := e.next)
    (rq' := e.f.require) (RepSyn.congr (h := h) (h' := { h with requires := h.requires ++ [v] }) rfl rfl rfl rfl R.syn) R.tok
    (LinesG.congr (h := h) (h' := { h with requires := h.requires ++ [v] }) R.linesG rfl) R.next
    (Nat.le_refl _) (R.require.mono (fun _ _ x => heapGet_alloc_old v x) (Nat.le_refl _)) ⟨rfl, rfl, rfl, rfl, rfl, rfl, rfl, rfl⟩
  exact this

/-- **the driver's allocation establishes the argument hypotheses of both ties** -/
theorem allocReqs_spec : ∀ (req : List Want) {h : Heap} {fp : Int} {e : EFile}, RepF h fp e →
    RepF (allocReqs req h).2 fp e ∧ ReqArgsS (allocReqs req h).2.requires (allocReqs req h).1 req ∧
      (allocReqs req h).2.mods = h.mods ∧ h.requires.length ≤ (allocReqs req h).2.requires.length ∧
      (∀ p v, heapGet h.requires p = .ok v → heapGet (allocReqs req h).2.requires p = .ok v) ∧
      (∀ p ∈ (allocReqs req h).1, h.requires.length < p.toNat)
  | [], h, fp, e, R => ⟨R, trivial, rfl, Nat.le_refl _, fun _ _ x => x, fun _ hp => by cases hp⟩
  | w :: ws, h, fp, e, R => by
    obtain ⟨o, ho, RA⟩ := R
    have R1 : RepF { h with requires := h.requires ++ [requireG (wantReq w)] } fp e := ⟨o, ho, RepFAt_allocReq RA _⟩
    obtain ⟨h1, h2, h3, h4, h5, h6⟩ := allocReqs_spec ws R1
    refine ⟨h1, ⟨h5 _ _ (heapGet_alloc_new _ _), h2⟩, h3, ?_, ?_, ?_⟩
    · simp only [allocReqs]; simp at h4; omega
    · intro p v hv; exact h5 p v (heapGet_alloc_old _ hv)
    · intro p hp
      simp only [allocReqs, List.mem_cons] at hp
      rcases hp with rfl | hp
      · omega
      · have := h6 p hp; simp at this; omega

/-- the fresh pointers are not in `f.Require` -/
theorem allocReqs_fresh (req : List Want) {h : Heap} {fp : Int} {e : EFile} (R : RepF h fp e) :
    ∀ o, heapGet (allocReqs req h).2.mods fp = .ok o → ∀ p ∈ (allocReqs req h).1, p ∉ o.Require := by
  intro o ho p hp hm
  obtain ⟨_, _, h3, _, _, h6⟩ := allocReqs_spec req R
  obtain ⟨o', ho', RA⟩ := R
  rw [h3, ho'] at ho
  cases ho
  have := (REntsL.mem_alloc RA.require.rel p hm).2
  have := h6 p hp
  omega

/-! ### the harness of the examples -/

/-- the syntax line of every requirement is nil or a line of the tree -/
def InTree (e : EFile) : Prop := ∀ rq ∈ e.f.require, rq.lineId ≠ 0 → rq.lineId ∈ treeIds e.f.syn.stmts

instance (e : EFile) : Decidable (InTree e) := by unfold InTree; exact inferInstance

/-- a single require line, then a block with an indirect and a direct requirement -/
def exMixed : Bytes :=
  B "module m\n\nrequire a.b/c v1.0.0\n\nrequire (\n\td.e/f v1.2.3 // indirect\n\tx.y/z v0.0.1\n)\n"

/-- one flat uncommented block -/
def exFlat : Bytes :=
  B "module m\n\ngo 1.17\n\nrequire (\n\td.e/f v1.2.3 // indirect\n\ta.b/c v1.0.0\n\tx.y/z v0.0.1\n)\n"

/-- update (version, indirect marking), delete (`x.y/z`), add (`g.h/i`, `k.l/m`) -/
def exReq : List Want :=
  [{ path := B "a.b/c", vers := B "v1.1.0", indirect := true }, { path := B "g.h/i", vers := B "v0.1.0", indirect := false },
   { path := B "d.e/f", vers := B "v1.2.3", indirect := false }, { path := B "k.l/m", vers := B "v0.2.0", indirect := true }]

/-- two versions for one path: SetRequire panics -/
def exReqBad : List Want :=
  [{ path := B "a.b/c", vers := B "v1.1.0", indirect := true }, { path := B "a.b/c", vers := B "v1.2.0", indirect := false }]

def setRequireOp (req : List Want) (fuel : Nat) (fp : Int) (h : Heap) : M (Unit × Heap) :=
  File_SetRequire isPrintI quoteI fuel fp (allocReqs req h).1 (allocReqs req h).2

def setRequireSepOp (req : List Want) (fuel : Nat) (fp : Int) (h : Heap) : M (Unit × Heap) :=
  File_SetRequireSeparateIndirect isPrintI quoteI fuel fp (allocReqs req h).1 (allocReqs req h).2

def orSelf (g : EFile → Except Modfile.Edit.EditErr EFile) (e : EFile) : EFile :=
  match g e with
  | .ok e' => e'
  | .error _ => e

/-- the operation panics on the loaded file -/
def panics (file : Bytes) (op : Int → Heap → M (Unit × Heap)) : Bool :=
  match Modfile.parseStrict (B "go.mod") file none with
  | .ok f =>
    let (h, fp) := Drv.GenEdit.load f
    match op fp h with
    | .error .panic => true
    | _ => false
  | .error _ => false

def modelFails (file : Bytes) (g : EFile → Except Modfile.Edit.EditErr EFile) : Bool :=
  match Modfile.parseStrict (B "go.mod") file none with
  | .ok f => match g (Modfile.Edit.load f) with | .error _ => true | .ok _ => false
  | .error _ => false

end ModVerif.Tie.FnEditSetQ
