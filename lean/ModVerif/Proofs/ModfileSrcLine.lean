/-
  C02, end-of-line comments on the SOURCE text, part d: if no token of the input spans two source lines
  (`NoMultiLineToken`), every line the parser builds starts and ends on the same source line (`OneLineStmt`).

  Lexer level: a line token without newline byte ends on the line on which it starts (`tok_same_line`), and the
  next token starts on the line on which the previous one ended (`step_same_line`: only blanks in between).
  Parser level: one more pass over the five loops with the invariant "start, end and the pending token are on
  the same source line"; the `(` / `( )` pushes of `parseStmt`, which do not move `end`, stay on that line too.
-/
import ModVerif.Proofs.ModfileSrcTok
import ModVerif.Proofs.ModfileSrcOwn
namespace ModVerif.Proofs.ModfileSrc
open ModVerif ModVerif.Modfile ModVerif.Proofs.ModfileLex
open ModVerif.Proofs.ModfileFmtLex ModVerif.Proofs.ModfileFmtLine ModVerif.Proofs.ModfileFmtTree
open ModVerif.Proofs.ModfilePos ModVerif.Proofs.ModfileC20 ModVerif.Proofs.ModfileFmtEmits
open ModVerif.Proofs.ModfileFmtParse ModVerif.Proofs.ModfileEol

/-! ### lexer level -/

/-- no token the parser sees, other than the newline token, contains a newline byte -/
def TokNl (data : Bytes) : Prop :=
  ∀ i, Reach data i → i.token.kind ≠ .punct 10 → (10 : UInt8) ∉ i.token.text

theorem tokNl_of {data : Bytes} (h : NoMultiLineToken data) : TokNl data :=
  fun _ hr hk => reach_tok_no_nl h hr hk

theorem tokOK_not_comment {k : TokKind} {t : Bytes} (h : TokOK k t) : k.isComment = false := by
  cases h <;> rfl

theorem tokOK_not_newline {k : TokKind} {t : Bytes} (h : TokOK k t) : k ≠ .punct 10 := by
  intro hk
  have := tokOK_not_eol h
  rw [hk] at this
  cases this

/-- a line token without newline byte ends on the source line on which it starts -/
theorem tok_same_line {data : Bytes} (hN : TokNl data) {i : Input} (hr : Reach data i)
    (hk : TokOK i.token.kind i.token.text) : i.token.endPos.line = i.token.pos.line := by
  have ht := reach_tokOK2 hr
  have hf := ht.facts
  have hx := tok_exact_take ht (tokOK_not_comment hk)
  have hz : i.token.text.count 10 = 0 := List.count_eq_zero.2 (hN i hr (tokOK_not_newline hk))
  rw [hf.start.1.line, hf.«end».1.line, hx, List.count_append, hz]
  omega

theorem ws_count {g : Bytes} (h : WS g) : g.count 10 = 0 := by
  apply List.count_eq_zero.2
  intro hm
  have := ws_no_newline h 10 hm
  simp at this

/-- the next token starts on the source line on which the previous one ended -/
theorem step_same_line {data : Bytes} {j i : Input} (hj : Reach data j) (h : readToken j = .ok i) :
    i.token.pos.line = j.token.endPos.line := by
  obtain ⟨gap, hws, hg⟩ := reach_step_gap hj h
  have h1 := (reach_tokOK2 hj).facts.«end».1.line
  have h2 := (reach_tokOK2 (Reach.lex hj h)).facts.start.1.line
  rw [h1, h2, hg, List.count_append, ws_count hws]
  omega

/-- `lex` at a line token: the token stays on its line and so does the start of the next one -/
theorem lex_tok_line {data : Bytes} (hN : TokNl data) {i i1 : Input} {tok : Token} (hr : Reach data i) (hg : G i)
    (hk : TokOK i.token.kind i.token.text) (hl : lex i = .ok (tok, i1)) :
    tok = i.token ∧ Reach data i1 ∧ Mid i1 ∧ i.token.endPos.line = i.token.pos.line ∧
      i1.token.pos.line = i.token.pos.line := by
  obtain ⟨htok, hrt⟩ := lex_inv hl
  obtain ⟨_, hmid⟩ := hg.lex_tok hl hk
  have h1 := tok_same_line hN hr hk
  have h2 := step_same_line hr hrt
  exact ⟨htok, Reach.lex hr hrt, hmid, h1, by omega⟩

/-- `lex` at an end-of-line token -/
theorem lex_eol_reach {data : Bytes} {i i1 : Input} {tok : Token} (hr : Reach data i) (hg : G i)
    (hk : EolKind i.token.kind) (hl : lex i = .ok (tok, i1)) : Reach data i1 ∧ Top i1 := by
  obtain ⟨_, hrt⟩ := lex_inv hl
  obtain ⟨_, htop⟩ := hg.lex_eol hl hk
  exact ⟨Reach.lex hr hrt, htop⟩

/-! ### parser level -/

theorem parseLineLoop_one {data : Bytes} (hN : TokNl data) : ∀ (fuel : Nat) (i : Input) (s e : Position)
    (acc : List Bytes) (l : Line) (i' : Input), Reach data i → Mid i → s.line = e.line → e.line = i.token.pos.line →
    parseLineLoop fuel i s e acc = .ok (l, i') → OneLine l ∧ Reach data i' ∧ Top i' := by
  intro fuel
  induction fuel with
  | zero => intro i s e acc l i' _ _ _ _ h; simp [parseLineLoop] at h
  | succ n ih =>
    intro i s e acc l i' hr hm h1 h2 h
    unfold parseLineLoop at h
    cases hl : lex i with
    | error err => simp [hl, bind, Except.bind] at h
    | ok v =>
      obtain ⟨tok, i1⟩ := v
      simp only [hl, bind, Except.bind] at h
      obtain ⟨htok, _⟩ := lex_inv hl
      by_cases he : tok.kind.isEOL = true
      · simp only [he, if_true, Except.ok.injEq, Prod.mk.injEq] at h
        obtain ⟨rfl, rfl⟩ := h
        obtain ⟨hr1, htop⟩ := lex_eol_reach hr hm.1 (isEOL_eolKind (by rw [← htok]; exact he)) hl
        exact ⟨h1, Reach.setId _ hr1, htop.setId _⟩
      · have he' : tok.kind.isEOL = false := by simpa using he
        simp only [he', Bool.false_eq_true, if_false] at h
        have hk : TokOK i.token.kind i.token.text := lexOK_tok hm.1.lok (by rw [← htok]; exact he') hm.2
        obtain ⟨_, hr1, hmid, ha, hb⟩ := lex_tok_line hN hr hm.1 hk hl
        subst htok
        exact ih i1 s i.token.endPos _ l i' hr1 hmid (by omega) (by omega) h

theorem parseLine_one {data : Bytes} (hN : TokNl data) (fuel : Nat) (i : Input) (l : Line) (i' : Input)
    (hr : Reach data i) (hg : G i) (hk : TokOK i.token.kind i.token.text) (h : parseLine fuel i = .ok (l, i')) :
    OneLine l ∧ Reach data i' ∧ Top i' := by
  unfold parseLine at h
  cases hl : lex i with
  | error err => simp [hl, bind, Except.bind] at h
  | ok v =>
    obtain ⟨tok, i1⟩ := v
    simp only [hl, bind, Except.bind] at h
    obtain ⟨htok, hr1, hmid, ha, hb⟩ := lex_tok_line hN hr hg hk hl
    subst htok
    split at h
    · cases h
    · exact parseLineLoop_one hN fuel i1 i.token.pos i.token.endPos _ l i' hr1 hmid (by omega) (by omega) h

theorem parseLineBlockLoop_one {data : Bytes} (hN : TokNl data) : ∀ (fuel : Nat) (i : Input) (x : LineBlock)
    (linesRev : List Line) (crev : List Comment) (b : LineBlock) (i' : Input), Reach data i → G i →
    (∀ l ∈ linesRev, OneLine l) → parseLineBlockLoop fuel i x linesRev crev = .ok (b, i') →
    (∀ l ∈ b.lines, OneLine l) ∧ Reach data i' ∧ Top i' := by
  intro fuel
  induction fuel with
  | zero => intro i x linesRev crev b i' _ _ _ h; simp [parseLineBlockLoop] at h
  | succ n ih =>
    intro i x linesRev crev b i' hr hg hls h
    unfold parseLineBlockLoop at h
    simp only [Input.peek] at h
    split at h
    · rename_i hk
      cases hl : lex i with
      | error err => simp [hl, bind, Except.bind] at h
      | ok v =>
        simp only [hl, bind, Except.bind] at h
        obtain ⟨hr1, htop⟩ := lex_eol_reach hr hg (Or.inr (Or.inl hk)) hl
        exact ih v.2 x linesRev crev b i' hr1 htop.1 hls h
    · rename_i hk
      cases hl : lex i with
      | error err => simp [hl, bind, Except.bind] at h
      | ok v =>
        simp only [hl, bind, Except.bind] at h
        obtain ⟨hr1, htop⟩ := lex_eol_reach hr hg (Or.inl hk) hl
        exact ih v.2 x linesRev _ b i' hr1 htop.1 hls h
    · rename_i hk
      cases hl : lex i with
      | error err => simp [hl, bind, Except.bind] at h
      | ok v =>
        simp only [hl, bind, Except.bind] at h
        obtain ⟨hr1, htop⟩ := lex_eol_reach hr hg (Or.inr (Or.inr (Or.inl hk))) hl
        exact ih v.2 x linesRev _ b i' hr1 htop.1 hls h
    · cases h
    · rename_i hk
      cases hl : lex i with
      | error err => simp [hl, bind, Except.bind] at h
      | ok v =>
        obtain ⟨rp, i1⟩ := v
        simp only [hl, bind, Except.bind] at h
        have hk' : TokOK i.token.kind i.token.text := by
          have := hg.lok
          rw [hk] at this ⊢
          cases this with
          | tok k t h => exact h
        obtain ⟨_, hr1, hmid, _, _⟩ := lex_tok_line hN hr hg hk' hl
        by_cases heol : i1.token.kind.isEOL = true
        · simp only [heol, Bool.not_true, Bool.false_eq_true, if_false] at h
          cases hl2 : lex i1 with
          | error err => simp [hl2] at h
          | ok w =>
            simp only [hl2, Except.ok.injEq, Prod.mk.injEq] at h
            obtain ⟨rfl, rfl⟩ := h
            obtain ⟨hr2, htop⟩ := lex_eol_reach hr1 hmid.1 (isEOL_eolKind heol) hl2
            exact ⟨(by intro l hl'; exact hls l (by simpa using hl')), hr2, htop⟩
        · simp [heol] at h
    · rename_i h1 h2 h3 h4 h5
      obtain ⟨hk, _⟩ := blk_default_tok hg h1 h2 h3 h4 h5
      cases hp : parseLine (n + 1) i with
      | error err => simp [hp, bind, Except.bind] at h
      | ok v =>
        simp only [hp, bind, Except.bind] at h
        obtain ⟨hone, hr1, htop⟩ := parseLine_one hN (n + 1) i v.1 v.2 hr hg hk hp
        refine ih v.2 x _ [] b i' hr1 htop.1 ?_ h
        intro l hl'
        rcases List.mem_cons.1 hl' with rfl | hl'
        · exact hone
        · exact hls l hl'

theorem parseStmtLoop_one {data : Bytes} (hN : TokNl data) : ∀ (fuel : Nat) (i : Input) (s e : Position)
    (acc : List Bytes) (x : Expr) (i' : Input), Reach data i → Mid i → s.line = e.line → e.line = i.token.pos.line →
    parseStmtLoop fuel i s e acc = .ok (x, i') → OneLineStmt x ∧ Reach data i' ∧ Top i' := by
  intro fuel
  induction fuel with
  | zero => intro i s e acc x i' _ _ _ _ h; simp [parseStmtLoop] at h
  | succ n ih =>
    intro i s e acc x i' hr hm h1 h2 h
    unfold parseStmtLoop at h
    cases hl : lex i with
    | error err => simp [hl, bind, Except.bind] at h
    | ok v =>
      obtain ⟨tok, i1⟩ := v
      simp only [hl, bind, Except.bind] at h
      obtain ⟨htok, _⟩ := lex_inv hl
      by_cases he : tok.kind.isEOL = true
      · simp only [he, if_true, Except.ok.injEq, Prod.mk.injEq] at h
        obtain ⟨rfl, rfl⟩ := h
        obtain ⟨hr1, htop⟩ := lex_eol_reach hr hm.1 (isEOL_eolKind (by rw [← htok]; exact he)) hl
        exact ⟨h1, Reach.setId _ hr1, htop.setId _⟩
      · have he' : tok.kind.isEOL = false := by simpa using he
        simp only [he', Bool.false_eq_true, if_false] at h
        have hk : TokOK i.token.kind i.token.text := lexOK_tok hm.1.lok (by rw [← htok]; exact he') hm.2
        obtain ⟨_, hr1, hmid, ha, hb⟩ := lex_tok_line hN hr hm.1 hk hl
        subst htok
        by_cases hlp : (i.token.kind == TokKind.punct 40) = true
        · simp only [hlp, if_true] at h
          split at h
          · -- start of a block
            cases hb2 : parseLineBlock (n + 1) i1 s acc.reverse i.token with
            | error err => simp [hb2] at h
            | ok w =>
              simp only [hb2, Except.ok.injEq, Prod.mk.injEq] at h
              obtain ⟨rfl, rfl⟩ := h
              unfold parseLineBlock at hb2
              exact parseLineBlockLoop_one hN (n + 1) i1 _ [] [] w.1 w.2 hr1 hmid.1 (by intro l hl'; cases hl') hb2
          · rename_i hnot
            have he1 : i1.token.kind.isEOL = false := by simpa [Input.peek] using hnot
            have hk1 : TokOK i1.token.kind i1.token.text := lexOK_tok hmid.1.lok he1 hmid.2
            split at h
            · cases hl2 : lex i1 with
              | error err => simp [hl2] at h
              | ok w =>
                obtain ⟨rp, i2⟩ := w
                simp only [hl2] at h
                obtain ⟨_, hr2, hmid2, hc, hd⟩ := lex_tok_line hN hr1 hmid.1 hk1 hl2
                split at h
                · -- empty block
                  rename_i heol
                  have heol : i2.token.kind.isEOL = true := by simpa [Input.peek] using heol
                  cases hl3 : lex i2 with
                  | error err => simp [hl3] at h
                  | ok u =>
                    simp only [hl3, Except.ok.injEq, Prod.mk.injEq] at h
                    obtain ⟨rfl, rfl⟩ := h
                    obtain ⟨hr3, htop⟩ := lex_eol_reach hr2 hmid2.1 (isEOL_eolKind heol) hl3
                    exact ⟨(by intro l hl'; cases hl'), hr3, htop⟩
                · -- `( )` in the middle of the line
                  exact ih i2 s e _ x i' hr2 hmid2 h1 (by omega) h
            · -- `(` in the middle of the line
              exact ih i1 s e _ x i' hr1 hmid h1 (by omega) h
        · simp only [hlp, Bool.false_eq_true, if_false] at h
          exact ih i1 s i.token.endPos _ x i' hr1 hmid (by omega) (by omega) h

theorem parseStmt_one {data : Bytes} (hN : TokNl data) (fuel : Nat) (i : Input) (x : Expr) (i' : Input)
    (hr : Reach data i) (hg : G i) (hk : TokOK i.token.kind i.token.text) (h : parseStmt fuel i = .ok (x, i')) :
    OneLineStmt x ∧ Reach data i' ∧ Top i' := by
  unfold parseStmt at h
  cases hl : lex i with
  | error err => simp [hl, bind, Except.bind] at h
  | ok v =>
    obtain ⟨tok, i1⟩ := v
    simp only [hl, bind, Except.bind] at h
    obtain ⟨htok, hr1, hmid, ha, hb⟩ := lex_tok_line hN hr hg hk hl
    subst htok
    exact parseStmtLoop_one hN fuel i1 i.token.pos i.token.endPos _ x i' hr1 hmid (by omega) (by omega) h

theorem parseFileLoop_one {data : Bytes} (hN : TokNl data) : ∀ (fuel : Nat) (i : Input) (stmtsRev : List Expr)
    (cb : Option CommentBlock) (out : List Expr) (i' : Input), Reach data i → Top i →
    (∀ s ∈ stmtsRev, OneLineStmt s) → parseFileLoop fuel i stmtsRev cb = .ok (out, i') → ∀ s ∈ out, OneLineStmt s := by
  intro fuel
  induction fuel with
  | zero => intro i stmtsRev cb out i' _ _ _ h; simp [parseFileLoop] at h
  | succ n ih =>
    intro i stmtsRev cb out i' hr ht hst h
    unfold parseFileLoop at h
    simp only [Input.peek] at h
    have hcons : ∀ (c : CommentBlock), ∀ s ∈ Expr.commentBlock c :: stmtsRev, OneLineStmt s := by
      intro c s hs
      rcases List.mem_cons.1 hs with rfl | hs
      · trivial
      · exact hst s hs
    split at h
    · rename_i hk
      cases hl : lex i with
      | error err => simp [hl, bind, Except.bind] at h
      | ok v =>
        simp only [hl, bind, Except.bind] at h
        obtain ⟨hr1, htop⟩ := lex_eol_reach hr ht.1 (Or.inl hk) hl
        split at h
        · exact ih v.2 _ none out i' hr1 htop (hcons _) h
        · exact ih v.2 _ none out i' hr1 htop hst h
    · rename_i hk
      cases hl : lex i with
      | error err => simp [hl, bind, Except.bind] at h
      | ok v =>
        simp only [hl, bind, Except.bind] at h
        obtain ⟨hr1, htop⟩ := lex_eol_reach hr ht.1 (Or.inr (Or.inr (Or.inl hk))) hl
        exact ih v.2 _ _ out i' hr1 htop hst h
    · split at h
      · simp only [Except.ok.injEq, Prod.mk.injEq] at h
        obtain ⟨rfl, _⟩ := h
        intro s hs
        exact hcons _ s (List.mem_reverse.1 hs)
      · simp only [Except.ok.injEq, Prod.mk.injEq] at h
        obtain ⟨rfl, _⟩ := h
        intro s hs
        exact hst s (List.mem_reverse.1 hs)
    · rename_i h1 h2 h3
      have hk := file_default_tok ht h1 h2 h3
      cases hp : parseStmt (n + 1) i with
      | error err => simp [hp, bind, Except.bind] at h
      | ok v =>
        simp only [hp, bind, Except.bind] at h
        obtain ⟨hone, hr1, htop⟩ := parseStmt_one hN (n + 1) i v.1 v.2 hr ht.1 hk hp
        split at h
        · refine ih v.2 _ none out i' hr1 htop ?_ h
          intro s hs
          rcases List.mem_cons.1 hs with rfl | hs
          · exact (oneLineStmt_setBefore _ _).2 hone
          · exact hst s hs
        · refine ih v.2 _ none out i' hr1 htop ?_ h
          intro s hs
          rcases List.mem_cons.1 hs with rfl | hs
          · exact hone
          · exact hst s hs

/-- ★ if no token spans two source lines, every line the parser builds starts and ends on the same source line -/
theorem parseFile_oneLine {data : Bytes} (hN : NoMultiLineToken data) {stmts : List Expr} {i : Input}
    (h : parseFile data = .ok (stmts, i)) : ∀ s ∈ stmts, OneLineStmt s := by
  unfold parseFile at h
  cases hr : readToken (newInput data) with
  | error err => simp [hr, bind, Except.bind] at h
  | ok i0 =>
    simp only [hr, bind, Except.bind] at h
    obtain ⟨hg, hne⟩ := G.init hr
    exact parseFileLoop_one (tokNl_of hN) _ i0 [] none stmts i (Reach.start hr) ⟨hg, hne⟩ (by intro s hs; cases hs) h

/-- ★★ `eolCount_of_single_line_tokens`: the counting condition `EolCount` holds for every accepted input in
    which no token spans two source lines. -/
theorem eolCount_of_single_line_tokens {name x : Bytes} {t : FileSyntax} (h : parse name x = .ok t)
    (hN : NoMultiLineToken x) : EolCount t :=
  parse_eolCount_of_oneLine h (fun _ _ hp => parseFile_oneLine hN hp)

end ModVerif.Proofs.ModfileSrc
