/-
  EditReparse, part D — from the tree invariant `Edit.Inv` to the hypotheses of the first run and of the round trip
  (C15 `typed_eq_reparse`).

  * `entry_item`: every entry of `Edit.entries f` is an item of `items f` with the same id, and what the entry accepts
    (`acc`) is what `Rend` asks for;
  * `inv_stmtOK`: under `Inv e` every statement of the tree is `StmtOK (items e.f)`;
  * `rend_toks`: the tokens of a line that renders a readable item are line tokens other than parentheses, without
    newline — the token clauses of C02's tree shape `EWFStmts`; the comment clauses are the Boolean test `comShapeB`;
  * `AbsPerm`: equality of two abstract files as multisets, and its derivation from a permutation of `items`.
-/
import ModVerif.Proofs.EditReparseC
import ModVerif.Proofs.EditRefineInvRun
import ModVerif.Proofs.EditRefineInvOps
import ModVerif.Proofs.EditRefineRel
import ModVerif.Model.Modfile.EditAbs
set_option linter.unusedSimpArgs false
set_option linter.unusedVariables false
namespace ModVerif.Modfile.Edit
open ModVerif ModVerif.Modfile ModVerif.EditSpec
open ModVerif.Proofs.ModfileFmtDir (PathOK VerOK verb_ne WellFormed values Values pathOK_tok verOK_tok punct_tokText
  lineTailOK_no_lparen)
open ModVerif.Proofs.ModfileFmtLex (punctBytes TokOK CommentOK)
open ModVerif.Proofs.ModfileFmtLine (TokText tokOK_tokText)
open ModVerif.Proofs.ModfileFmtTree (TopBeforeOK BlkBeforeOK lineTailOK)
open ModVerif.Proofs.ModfileEol (EWFStmts EWFStmt EWFLine EWFBlkLine EWFBlkLines EWFBlock SufOK NlOK NlLine autoQuote_no_nl
  valid_no_nl)

/-! ### entries and items -/

theorem replaceToks_replArgs (r : Replace) : replaceToks r = B "replace" :: replArgs r.old r.new := by
  simp [replaceToks, replArgs]

theorem entry_item {f : File} {en : Ent} (hen : en ∈ entries f) :
    ∃ it, (en.id, it) ∈ items f ∧ ∀ t s, en.acc t s → Rend it t s := by
  rcases (mem_entries_iff f en).1 hen with ⟨x, hx, rfl⟩ | ⟨x, hx, rfl⟩ | ⟨x, hx, rfl⟩ | ⟨x, hx, rfl⟩ | ⟨x, hx, rfl⟩ |
    ⟨x, hx, rfl⟩ | ⟨x, hx, rfl⟩ | ⟨x, hx, rfl⟩ | ⟨x, hx, rfl⟩
  · refine ⟨.module x.mod.path, ?_, fun t s h => h⟩
    simp only [items, List.mem_append, List.mem_map]; exact Or.inl ⟨x, hx, rfl⟩
  · refine ⟨.go x.version, ?_, fun t s h => h⟩
    simp only [items, List.mem_append, List.mem_map]; exact Or.inr (Or.inl ⟨x, hx, rfl⟩)
  · refine ⟨.toolchain x.name, ?_, fun t s h => h⟩
    simp only [items, List.mem_append, List.mem_map]; exact Or.inr (Or.inr (Or.inl ⟨x, hx, rfl⟩))
  · refine ⟨.godebug x.key x.value, ?_, fun t s h => h⟩
    simp only [items, List.mem_append, List.mem_map]
    exact Or.inr (Or.inr (Or.inr (Or.inl ⟨x, (List.mem_filter.1 hx).1, rfl⟩)))
  · refine ⟨.require x.mod x.indirect, ?_, fun t s h => h⟩
    simp only [items, List.mem_append, List.mem_map]
    exact Or.inr (Or.inr (Or.inr (Or.inr (Or.inl ⟨x, (List.mem_filter.1 hx).1, rfl⟩))))
  · refine ⟨.exclude x.mod, ?_, fun t s h => h⟩
    simp only [items, List.mem_append, List.mem_map]
    exact Or.inr (Or.inr (Or.inr (Or.inr (Or.inr (Or.inl ⟨x, (List.mem_filter.1 hx).1, rfl⟩)))))
  · refine ⟨.replace x.old x.new, ?_, fun t s h => ?_⟩
    · simp only [items, List.mem_append, List.mem_map]
      exact Or.inr (Or.inr (Or.inr (Or.inr (Or.inr (Or.inr (Or.inl ⟨x, (List.mem_filter.1 hx).1, rfl⟩))))))
    · have h' : t = replaceToks x := h
      rw [h', replaceToks_replArgs]; rfl
  · refine ⟨.retract x.interval, ?_, fun t s h => h⟩
    simp only [items, List.mem_append, List.mem_map]
    exact Or.inr (Or.inr (Or.inr (Or.inr (Or.inr (Or.inr (Or.inr (Or.inl ⟨x, (List.mem_filter.1 hx).1, rfl⟩)))))))
  · refine ⟨.tool x.path, ?_, fun t s h => h⟩
    simp only [items, List.mem_append, List.mem_map]
    exact Or.inr (Or.inr (Or.inr (Or.inr (Or.inr (Or.inr (Or.inr (Or.inr ⟨x, (List.mem_filter.1 hx).1, rfl⟩)))))))

/-- every typed list holds live entries only (the state after `File.Cleanup`) -/
structure AllLive (f : File) : Prop where
  godebug : ∀ g ∈ f.godebug, liveG g = true
  require : ∀ r ∈ f.require, liveRq r = true
  exclude : ∀ x ∈ f.exclude, liveX x = true
  replace : ∀ r ∈ f.replace, liveRp r = true
  retract : ∀ r ∈ f.retract, liveRt r = true
  tool : ∀ t ∈ f.tool, liveT t = true

theorem items_ids {f : File} (h : AllLive f) : (items f).map (·.1) = (entries f).map (·.id) := by
  simp only [items, entries, entsOf, List.map_append, List.map_map, List.filter_eq_self.2 h.godebug,
    List.filter_eq_self.2 h.require, List.filter_eq_self.2 h.exclude, List.filter_eq_self.2 h.replace,
    List.filter_eq_self.2 h.retract, List.filter_eq_self.2 h.tool]
  rfl

/-- every value of the typed file is readable (`ItemOK`) -/
def VOK (f : File) : Prop := ∀ q ∈ items f, ItemOK q.2

theorem items_scalar1 (f : File) :
    (∀ a b p q, (a, Item.module p) ∈ items f → (b, Item.module q) ∈ items f → a = b) ∧
    (∀ a b p q, (a, Item.go p) ∈ items f → (b, Item.go q) ∈ items f → a = b) ∧
    (∀ a b p q, (a, Item.toolchain p) ∈ items f → (b, Item.toolchain q) ∈ items f → a = b) := by
  refine ⟨?_, ?_, ?_⟩ <;> intro a b p q h1 h2 <;>
    simp only [items, List.mem_append, List.mem_map, Prod.mk.injEq, reduceCtorEq, and_false, exists_false, or_false,
      false_or, Option.mem_toList, Option.mem_def] at h1 h2
  · obtain ⟨x, hx, rfl, _⟩ := h1
    obtain ⟨y, hy, rfl, _⟩ := h2
    rw [hx] at hy; cases hy; rfl
  · obtain ⟨x, hx, rfl, _⟩ := h1
    obtain ⟨y, hy, rfl, _⟩ := h2
    rw [hx] at hy; cases hy; rfl
  · obtain ⟨x, hx, rfl, _⟩ := h1
    obtain ⟨y, hy, rfl, _⟩ := h2
    rw [hx] at hy; cases hy; rfl

theorem inv_IOK {e : EFile} (hi : Inv e) (hl : AllLive e.f) (hv : VOK e.f) : IOK (items e.f) :=
  ⟨by rw [items_ids hl]; exact hi.mtch.nodup, hv, (items_scalar1 e.f).1, (items_scalar1 e.f).2.1, (items_scalar1 e.f).2.2⟩

/-- every line of the tree carries tokens (the state after `FileSyntax.Cleanup`) -/
def LinesLive (stmts : List Expr) : Prop := ∀ p ∈ loc stmts, liveLoc p = true

/-- every block carries a block verb of the strict parser (`go (` / `toolchain (` blocks are rejected by it) -/
def GoodBlocks (stmts : List Expr) : Prop := ∀ b, Expr.lineBlock b ∈ stmts → ∀ v, b.token = [v] → verbIn v blockVerbs = true

theorem mem_loc_line {stmts : List Expr} {l : Line} (h : Expr.line l ∈ stmts) : (([] : List Bytes), l) ∈ loc stmts := by
  unfold loc
  exact List.mem_flatMap.2 ⟨_, h, by simp [locStmt]⟩

theorem mem_loc_block {stmts : List Expr} {b : LineBlock} {l : Line} (h : Expr.lineBlock b ∈ stmts) (hl : l ∈ b.lines) :
    (b.token, l) ∈ loc stmts := by
  unfold loc
  exact List.mem_flatMap.2 ⟨_, h, by simp only [locStmt, List.mem_map]; exact ⟨l, hl, rfl⟩⟩

theorem line_item {e : EFile} (hi : Inv e) {p : List Bytes × Line} (hp : p ∈ loc e.f.syn.stmts) (hlive : liveLoc p = true) :
    ∃ it, (p.2.id, it) ∈ items e.f ∧ Rend it (p.1 ++ p.2.token) p.2.comments.suffix := by
  have hv : mkV p ∈ view e.f.syn.stmts := mem_view.2 ⟨p, hp, hlive, rfl⟩
  obtain ⟨en, hen, hid, hacc⟩ := hi.line_entry _ hv
  obtain ⟨it, hmem, hrend⟩ := entry_item hen
  refine ⟨it, ?_, hrend _ _ hacc⟩
  rw [hid] at hmem; exact hmem

theorem inv_stmtOK {e : EFile} (hi : Inv e) (hll : LinesLive e.f.syn.stmts) (hgb : GoodBlocks e.f.syn.stmts) :
    ∀ x ∈ e.f.syn.stmts, StmtOK (items e.f) x := by
  intro x hx
  cases x with
  | line l =>
    have hp := mem_loc_line hx
    obtain ⟨it, hmem, hr⟩ := line_item hi hp (hll _ hp)
    simp only [List.nil_append] at hr
    have hne : l.token ≠ [] := by
      have := hll _ hp; simp only [liveLoc, Bool.not_eq_true', List.isEmpty_eq_false_iff] at this; exact this
    obtain ⟨verb, args, htok⟩ := List.exists_cons_of_ne_nil hne
    exact ⟨verb, args, it, htok, hmem, by rw [htok] at hr; exact hr⟩
  | lineBlock b =>
    obtain ⟨v, hv⟩ := hi.tree.blockTok b hx
    refine ⟨v, hv, hgb b hx v hv, ?_⟩
    intro l hl
    have hp := mem_loc_block hx hl
    obtain ⟨it, hmem, hr⟩ := line_item hi hp (hll _ hp)
    refine ⟨it, hmem, ?_⟩
    simp only [hv, List.singleton_append] at hr
    exact hr
  | commentBlock c => trivial
  | lparen c => trivial
  | rparen c => trivial

theorem inv_surj {e : EFile} (hi : Inv e) (hl : AllLive e.f) : ∀ q ∈ items e.f, q.1 ∈ treeIds e.f.syn.stmts := by
  intro q hq
  have : q.1 ∈ (entries e.f).map (·.id) := by rw [← items_ids hl]; exact List.mem_map.2 ⟨q, hq, rfl⟩
  obtain ⟨en, hen, hid⟩ := List.mem_map.1 this
  obtain ⟨v, hv, hvid, _⟩ := hi.mtch.cover en hen
  rw [← hid, ← hvid]
  exact view_id_mem_treeIds hv

/-! ### the tokens of a rendered line -/

def GoodTok (a : Bytes) : Prop := TokText a ∧ a ≠ [40] ∧ a ≠ [41] ∧ (10 : UInt8) ∉ a

theorem goodTok_raw {t : Bytes} (h : RawTok t) : GoodTok t :=
  ⟨(rawTok_tok h).1, (rawTok_tok h).2.1, (rawTok_tok h).2.2, rawTok_no_nl h⟩

theorem goodTok_path {p : Bytes} (h : PathOK p) : GoodTok (autoQuote p) :=
  ⟨(pathOK_tok h).1, (pathOK_tok h).2.1, (pathOK_tok h).2.2, autoQuote_no_nl p⟩

theorem goodTok_ver {v : Bytes} (h : VerOK v) : GoodTok v :=
  ⟨(verOK_tok h).1, (verOK_tok h).2.1, (verOK_tok h).2.2, valid_no_nl h⟩

theorem goodTok_punct (c : UInt8) (hc : c ∈ punctBytes) (h40 : c ≠ 40) (h41 : c ≠ 41) (h10 : c ≠ 10) : GoodTok [c] :=
  ⟨punct_tokText c hc, by simpa using h40, by simpa using h41, by simpa using h10.symm⟩

theorem rend_toks {it : Item} {t : List Bytes} {s : List Comment} (hr : Rend it t s) (hok : ItemOK it) :
    ∃ verb args, t = verb :: args ∧ ∀ a ∈ t, GoodTok a := by
  obtain ⟨r1, r2, r3, r4, r5, r6, r7, r8, r9, r10⟩ := rawTok_verb
  cases it with
  | module p =>
    refine ⟨_, _, hr, ?_⟩
    rw [show t = _ from hr]
    intro a ha
    simp only [List.mem_cons, List.mem_nil_iff, or_false] at ha
    rcases ha with rfl | rfl
    · exact goodTok_raw r1
    · exact goodTok_path hok
  | go v =>
    refine ⟨_, _, hr, ?_⟩
    rw [show t = _ from hr]
    intro a ha
    simp only [List.mem_cons, List.mem_nil_iff, or_false] at ha
    rcases ha with rfl | rfl
    · exact goodTok_raw r2
    · exact goodTok_raw hok.2
  | toolchain n =>
    refine ⟨_, _, hr, ?_⟩
    rw [show t = _ from hr]
    intro a ha
    simp only [List.mem_cons, List.mem_nil_iff, or_false] at ha
    rcases ha with rfl | rfl
    · exact goodTok_raw r3
    · exact goodTok_raw hok.2
  | godebug k v =>
    refine ⟨_, _, hr, ?_⟩
    rw [show t = _ from hr]
    intro a ha
    simp only [List.mem_cons, List.mem_nil_iff, or_false] at ha
    rcases ha with rfl | rfl
    · exact goodTok_raw r4
    · exact goodTok_raw hok.2
  | require m ind =>
    refine ⟨_, _, hr.1, ?_⟩
    rw [show t = _ from hr.1]
    intro a ha
    simp only [List.mem_cons, List.mem_nil_iff, or_false] at ha
    rcases ha with rfl | rfl | rfl
    · exact goodTok_raw r5
    · exact goodTok_path hok.1
    · exact goodTok_ver hok.2.1.1
  | exclude m =>
    refine ⟨_, _, hr, ?_⟩
    rw [show t = _ from hr]
    intro a ha
    simp only [List.mem_cons, List.mem_nil_iff, or_false] at ha
    rcases ha with rfl | rfl | rfl
    · exact goodTok_raw r6
    · exact goodTok_path hok.1
    · exact goodTok_ver hok.2.1.1
  | replace o n =>
    refine ⟨_, _, hr, ?_⟩
    rw [show t = _ from hr]
    obtain ⟨ho, hn, hov, hnv, _⟩ := hok
    intro a ha
    simp only [replArgs, List.mem_cons, List.mem_append, List.mem_nil_iff, or_false] at ha
    rcases ha with rfl | (((rfl | ha) | rfl | rfl) | ha)
    · exact goodTok_raw r7
    · exact goodTok_path ho
    · split at ha
      · cases ha
      · rename_i hne
        simp only [List.mem_singleton] at ha; subst ha
        exact goodTok_ver (hov (by intro e; apply hne; simp [e]))
    · exact goodTok_raw r10
    · exact goodTok_path hn
    · split at ha
      · cases ha
      · rename_i hne
        simp only [List.mem_singleton] at ha; subst ha
        exact goodTok_ver (hnv (by intro e; apply hne; simp [e]))
  | retract vi =>
    obtain ⟨args, rfl, _, hargs⟩ := retract_args hr hok
    refine ⟨_, _, rfl, ?_⟩
    intro a ha
    rcases List.mem_cons.1 ha with rfl | ha
    · exact goodTok_raw r8
    · rcases hargs with rfl | rfl
      · simp only [List.mem_singleton] at ha; subst ha; exact goodTok_ver hok.1
      · simp only [List.mem_cons, List.mem_nil_iff, or_false] at ha
        rcases ha with rfl | rfl | rfl | rfl | rfl
        · exact goodTok_punct 91 (by decide) (by decide) (by decide) (by decide)
        · exact goodTok_ver hok.1
        · exact goodTok_punct 44 (by decide) (by decide) (by decide) (by decide)
        · exact goodTok_ver hok.2
        · exact goodTok_punct 93 (by decide) (by decide) (by decide) (by decide)
  | tool p =>
    obtain ⟨rfl, _⟩ := tool_arg hr hok
    refine ⟨_, _, rfl, ?_⟩
    intro a ha
    simp only [List.mem_cons, List.mem_nil_iff, or_false] at ha
    rcases ha with rfl | rfl
    · exact goodTok_raw r9
    · exact goodTok_raw ⟨hok.2, hok.1.2⟩

theorem blockVerb_raw {v : Bytes} (h : verbIn v blockVerbs = true) : RawTok v := by
  obtain ⟨r1, r2, r3, r4, r5, r6, r7, r8, r9, r10⟩ := rawTok_verb
  simp only [verbIn, blockVerbs, List.any_cons, List.any_nil, Bool.or_false, Bool.or_eq_true, beq_iff_eq] at h
  rcases h with h | h | h | h | h | h | h <;> rw [← h] <;> assumption

/-! ### the comment clauses of `EWFStmts`, as a Boolean test -/

def commentOKB (t : Bytes) : Bool := isPrefixOfB [47, 47] t && !t.contains 10

def topBeforeB (cs : List Comment) : Bool := cs.all fun c => !c.suffix && commentOKB c.token

def blkBeforeB : Bool → List Comment → Bool
  | _, [] => true
  | allow, c :: cs =>
    if c.token.isEmpty then allow && !c.suffix && blkBeforeB false cs
    else !c.suffix && commentOKB c.token && blkBeforeB true cs

def sufOKB (cs : List Comment) : Bool := decide (cs.length ≤ 1) && cs.all fun c => commentOKB c.token && c.suffix

def comBlkLinesB : Bool → List Line → Bool
  | _, [] => true
  | allow, l :: ls =>
    blkBeforeB allow l.comments.before && sufOKB l.comments.suffix && l.comments.after.isEmpty && comBlkLinesB true ls

/-- the comments of a statement are placed where the parser places them: whole-line comments are `//` texts, a blank-line
    placeholder only inside a block, not at its start and not after another one; at most one end-of-line comment per
    line, `(` and `)`; no `after` comment; no stray parenthesis statement -/
def comStmtB : Expr → Bool
  | .commentBlock x => !x.comments.before.isEmpty && topBeforeB x.comments.before && x.comments.suffix.isEmpty &&
      x.comments.after.isEmpty
  | .line l => topBeforeB l.comments.before && sufOKB l.comments.suffix && l.comments.after.isEmpty
  | .lineBlock b => topBeforeB b.comments.before && b.comments.after.isEmpty && b.lparen.comments.before.isEmpty &&
      sufOKB b.lparen.comments.suffix && b.lparen.comments.after.isEmpty && comBlkLinesB false b.lines &&
      blkBeforeB (!b.lines.isEmpty) b.rparen.comments.before && sufOKB (b.rparen.comments.suffix ++ b.comments.suffix) &&
      b.rparen.comments.after.isEmpty
  | _ => false

def comShapeB (fs : FileSyntax) : Bool := fs.comments.before.isEmpty && fs.stmts.all comStmtB

theorem commentOKB_sound {t : Bytes} (h : commentOKB t = true) : CommentOK t := by
  simp only [commentOKB, Bool.and_eq_true, Bool.not_eq_true', List.contains_eq_mem, decide_eq_false_iff_not] at h
  exact ⟨h.1, h.2⟩

theorem topBeforeB_sound {cs : List Comment} (h : topBeforeB cs = true) : TopBeforeOK cs := by
  intro c hc
  have := List.all_eq_true.1 h c hc
  simp only [Bool.and_eq_true, Bool.not_eq_true'] at this
  exact ⟨this.1, commentOKB_sound this.2⟩

theorem blkBeforeB_sound : ∀ (cs : List Comment) (allow : Bool), blkBeforeB allow cs = true → BlkBeforeOK allow cs := by
  intro cs
  induction cs with
  | nil => intro _ _; trivial
  | cons c cs ih =>
    intro allow h
    unfold blkBeforeB at h
    unfold BlkBeforeOK
    split at h
    · rename_i hemp
      simp only [Bool.and_eq_true, Bool.not_eq_true'] at h
      rw [if_pos hemp]
      exact ⟨h.1.1, h.1.2, ih false h.2⟩
    · rename_i hemp
      simp only [Bool.and_eq_true, Bool.not_eq_true'] at h
      rw [if_neg hemp]
      exact ⟨h.1.1, commentOKB_sound h.1.2, ih true h.2⟩

theorem sufOKB_sound {cs : List Comment} (h : sufOKB cs = true) : SufOK cs := by
  simp only [sufOKB, Bool.and_eq_true, decide_eq_true_eq] at h
  refine ⟨h.1, ?_⟩
  intro c hc
  have := List.all_eq_true.1 h.2 c hc
  simp only [Bool.and_eq_true] at this
  exact ⟨commentOKB_sound this.1, this.2⟩

/-! ### `EWFStmts` and `NlOK` of a tree satisfying the invariant -/

theorem ewf_blkLines (verb : Bytes) (I : List (Nat × Item)) (hI : ∀ q ∈ I, ItemOK q.2) :
    ∀ (ls : List Line) (allow : Bool), comBlkLinesB allow ls = true → (∀ l ∈ ls, l.token ≠ []) → (∀ l ∈ ls, l.inBlock = true) →
      (∀ l ∈ ls, ∃ it, (l.id, it) ∈ I ∧ Rend it (verb :: l.token) l.comments.suffix) →
      EWFBlkLines allow ls ∧ ∀ l ∈ ls, NlLine l := by
  intro ls
  induction ls with
  | nil => intro _ _ _ _ _; exact ⟨trivial, fun l hl => by cases hl⟩
  | cons l ls ih =>
    intro allow hc hne hin hr
    simp only [comBlkLinesB, Bool.and_eq_true, List.isEmpty_iff] at hc
    obtain ⟨⟨⟨hb, hs⟩, ha⟩, hrest⟩ := hc
    obtain ⟨it, hmem, hrend⟩ := hr l (by simp)
    obtain ⟨v, args, hcons, hgood⟩ := rend_toks hrend (hI _ hmem)
    have hgl : ∀ a ∈ l.token, GoodTok a := fun a ha => hgood a (List.mem_cons_of_mem _ ha)
    obtain ⟨h1, h2⟩ := ih true hrest (fun l' hl' => hne l' (by simp [hl'])) (fun l' hl' => hin l' (by simp [hl']))
      (fun l' hl' => hr l' (by simp [hl']))
    refine ⟨⟨⟨hne l (by simp), fun t ht => (hgl t ht).1, ?_, blkBeforeB_sound _ _ hb, sufOKB_sound hs, ha, hin l (by simp)⟩, h1⟩, ?_⟩
    · cases htok : l.token with
      | nil => simp
      | cons a as =>
        simp only [List.head?_cons, ne_eq, Option.some.injEq]
        exact (hgl a (by rw [htok]; simp)).2.2.1
    · intro l' hl'
      rcases List.mem_cons.1 hl' with rfl | hl'
      · intro _ t ht; exact (hgl t ht).2.2.2
      · exact h2 l' hl'

theorem inv_ewf {e : EFile} (hi : Inv e) (hv : VOK e.f) (hll : LinesLive e.f.syn.stmts) (hgb : GoodBlocks e.f.syn.stmts)
    (hcom : comShapeB e.f.syn = true) :
    EWFStmts e.f.syn.stmts ∧ (∀ s ∈ e.f.syn.stmts, NlOK s) ∧ e.f.syn.comments.before = [] := by
  simp only [comShapeB, Bool.and_eq_true, List.isEmpty_iff, List.all_eq_true] at hcom
  obtain ⟨hhdr, hstm⟩ := hcom
  have hok := inv_stmtOK hi hll hgb
  refine ⟨?_, ?_, hhdr⟩
  · intro x hx
    have hc := hstm x hx
    have hs := hok x hx
    cases x with
    | line l =>
      obtain ⟨verb, args, it, htok, hmem, hr⟩ := hs
      obtain ⟨_, _, _, hgood⟩ := rend_toks hr (hv _ hmem)
      simp only [comStmtB, Bool.and_eq_true, List.isEmpty_iff] at hc
      refine (⟨by rw [htok]; simp, fun t ht => (hgood t (by rw [← htok]; exact ht)).1, ?_, topBeforeB_sound hc.1.1,
        sufOKB_sound hc.1.2, hc.2, hi.tree.flagTop l hx⟩ : EWFLine l)
      rw [htok]
      exact lineTailOK_no_lparen _ (fun t ht => (hgood t (List.mem_cons_of_mem _ ht)).2.1)
    | lineBlock b =>
      obtain ⟨verb, htok, hverb, hlines⟩ := hs
      simp only [comStmtB, Bool.and_eq_true, List.isEmpty_iff] at hc
      obtain ⟨⟨⟨⟨⟨⟨⟨⟨c1, c2⟩, c3⟩, c4⟩, c5⟩, c6⟩, c7⟩, c8⟩, c9⟩ := hc
      have hlive : ∀ l ∈ b.lines, l.token ≠ [] := by
        intro l hl
        have := hll _ (mem_loc_block hx hl)
        simpa [liveLoc] using this
      obtain ⟨h1, _⟩ := ewf_blkLines verb (items e.f) hv b.lines false c6 hlive (hi.tree.flagIn b hx) hlines
      have hvt : ∀ t ∈ b.token, TokText t := by
        rw [htok]; intro t ht; simp only [List.mem_singleton] at ht; rw [ht]
        exact (goodTok_raw (blockVerb_raw hverb)).1
      exact (⟨by rw [htok]; simp, hvt,
        topBeforeB_sound c1, c2, c3, sufOKB_sound c4, c5, h1, blkBeforeB_sound _ _ c7, sufOKB_sound c8, c9⟩ : EWFBlock b)
    | commentBlock c =>
      simp only [comStmtB, Bool.and_eq_true, List.isEmpty_iff, Bool.not_eq_true', List.isEmpty_eq_false_iff] at hc
      exact ⟨hc.1.1.1, topBeforeB_sound hc.1.1.2, hc.1.2, hc.2⟩
    | lparen c => simp [comStmtB] at hc
    | rparen c => simp [comStmtB] at hc
  · intro x hx
    have hc := hstm x hx
    have hs := hok x hx
    cases x with
    | line l =>
      obtain ⟨verb, args, it, htok, hmem, hr⟩ := hs
      obtain ⟨_, _, _, hgood⟩ := rend_toks hr (hv _ hmem)
      intro _ t ht
      exact (hgood t (by rw [← htok]; exact ht)).2.2.2
    | lineBlock b =>
      obtain ⟨verb, htok, hverb, hlines⟩ := hs
      simp only [comStmtB, Bool.and_eq_true, List.isEmpty_iff] at hc
      obtain ⟨⟨⟨⟨⟨⟨⟨⟨c1, c2⟩, c3⟩, c4⟩, c5⟩, c6⟩, c7⟩, c8⟩, c9⟩ := hc
      have hlive : ∀ l ∈ b.lines, l.token ≠ [] := by
        intro l hl
        have := hll _ (mem_loc_block hx hl)
        simpa [liveLoc] using this
      exact (ewf_blkLines verb (items e.f) hv b.lines false c6 hlive (hi.tree.flagIn b hx) hlines).2
    | commentBlock c => trivial
    | lparen c => trivial
    | rparen c => trivial

end ModVerif.Modfile.Edit
