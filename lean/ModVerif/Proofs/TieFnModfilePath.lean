/-
  Helper lemmas for Tie/FnModfile.lean, part 2: ModulePath (modfile/read.go).

  The Go loop peels one line per iteration (`bytes.IndexByte(line, '\n')`, `line, mod = line[:i], line[i+1:]`) and
  `continue`s or returns; the model splits the text first (`splitOn 10`) and scans the lines.  The translator renders the
  two `if i >= 0 { … }` statements as join functions `k7` (after the line cut) and `k5` (after the `//` cut); `mpK7`,
  `mpK5` below are those two functions written out, and `loop_unfold` (by `rfl`) shows that one unfolding of the
  generated loop is exactly: cut a line, call `mpK7`.  So a change of the Go loop body breaks `loop_unfold`.

  * `mpK5_eq` / `mpK7_eq`: the rest of an iteration is `modulePathLine` (none = `continue`, some p = `return p`);
  * `ModulePath_loop1_spec`: by induction on the fuel, cutting lines off `splitOn 10 mod` (`splitOn_mem`, `splitOn_not_mem`).
-/
import ModVerif.Generated.FnModfile
import ModVerif.Model.Modfile.Rule
import ModVerif.Drv.GenModfile
import ModVerif.Proofs.GoRtLemmasStr
import ModVerif.Proofs.GoRtLemmasModfile
import ModVerif.Proofs.TieFnModfileQuote
namespace ModVerif.TieFnModfile
open ModVerif ModVerif.GoRt ModVerif.GoRtStr ModVerif.GoRtModfile ModVerif.Drv.GenModfile
open ModVerif.Generated.Modfile

/-- the translator's join function `k5` of ModulePath's loop: the iteration after the `//` cut -/
def mpK5 (fuel : Nat) (mod line : Bytes) : M (Ctl Bytes Bytes) := do
  let line := (trimSpace line)
  if (!(hasPrefix line ([109, 111, 100, 117, 108, 101] : Bytes))) then (ModulePath_loop1 unquoteI fuel mod) else (do
    let t1 ← sliceFrom line (len ([109, 111, 100, 117, 108, 101] : Bytes))
    let line := t1
    let n := (len line)
    let line := (trimSpace line)
    if ((decide ((len line) = n)) || (decide ((len line) = (0 : Int)))) then (ModulePath_loop1 unquoteI fuel mod) else (do
      let t2 ← idx line (0 : Int)
      let t4 ← (if (decide (t2 = (34 : Int))) then pure true else (do
        let t3 ← idx line (0 : Int)
        pure (decide (t3 = (96 : Int)))))
      if t4 then (do
        let (p, err) := (unquoteI line)
        if (!(err).isNone) then (pure (Ctl.ret ([] : Bytes))) else (pure (Ctl.ret p))) else (pure (Ctl.ret line))))

/-- the translator's join function `k7`: the iteration after the line cut -/
def mpK7 (fuel : Nat) (line mod : Bytes) : M (Ctl Bytes Bytes) := do
  let i_1 := (index line ([47, 47] : Bytes))
  if (decide (i_1 ≥ (0 : Int))) then (do
    let t6 ← sliceTo line i_1
    let line := t6
    mpK5 fuel mod line) else (mpK5 fuel mod line)

/-- one unfolding of the generated loop, with the join functions named (definitional) -/
theorem loop_unfold (fuel : Nat) (mod : Bytes) :
    ModulePath_loop1 unquoteI (fuel + 1) mod =
      (if (decide ((len mod) > (0 : Int))) then (do
        let i := (indexByte mod (10 : Int))
        if (decide (i ≥ (0 : Int))) then (do
          let t8 ← sliceTo mod i
          let t10 ← sliceFrom mod (i + (1 : Int))
          mpK7 fuel t8 t10) else (mpK7 fuel mod [])) else (pure (Ctl.next mod))) := rfl

/-- one line of the model's ModulePath after the `//` cut -/
def mplTail (line : Bytes) : Option Bytes :=
  let line := GoStrings.trimSpace line
  if !isPrefixOfB (B "module") line then none else
  let line := line.drop 6
  let n := line.length
  let line := GoStrings.trimSpace line
  if line.length == n || line.isEmpty then none else
  match line with
  | c :: _ =>
    if c == 34 || c == 96 then
      match Quote.unquote line with
      | none => some []
      | some p => some p
    else some line
  | [] => none

theorem modulePathLine_eq (line : Bytes) :
    Modfile.modulePathLine line =
      mplTail (match GoStrings.index line [47, 47] with | some i => line.take i | none => line) := rfl

theorem mpK5_tail (X : M (Ctl Bytes Bytes)) (l2 l3 : Bytes) :
    (if ((decide ((len l3) = len l2)) || (decide ((len l3) = (0 : Int)))) then X else (do
      let t2 ← idx l3 (0 : Int)
      let t4 ← (if (decide (t2 = (34 : Int))) then pure true else (do
        let t3 ← idx l3 (0 : Int)
        pure (decide (t3 = (96 : Int)))))
      if t4 then (do
        let (p, err) := (unquoteI l3)
        if (!(err).isNone) then (pure (Ctl.ret ([] : Bytes))) else (pure (Ctl.ret p))) else (pure (Ctl.ret l3)))) =
    (match (if l3.length == l2.length || l3.isEmpty then none else
        match l3 with
        | c :: _ =>
          if c == 34 || c == 96 then
            match Quote.unquote l3 with
            | none => some []
            | some p => some p
          else some l3
        | [] => none : Option Bytes) with
     | none => X
     | some p => .ok (Ctl.ret p)) := by
  have e1 : (decide (len l3 = len l2) || decide (len l3 = 0)) = (l3.length == l2.length || l3.isEmpty) := by
    congr 1
    · rw [Bool.eq_iff_iff, decide_eq_true_iff, beq_iff_eq, len_eq, len_eq]; omega
    · rw [Bool.eq_iff_iff]; simp [len_eq]
  rw [e1]
  by_cases hc : (l3.length == l2.length || l3.isEmpty) = true
  · simp only [hc, if_true]
  · simp only [hc, Bool.false_eq_true, if_false]
    cases l3 with
    | nil => simp at hc
    | cons c t =>
      simp only [idx_zero_cons, bind_ok, pure_eq_ok]
      have b34 : decide (((c.toNat : Nat) : Int) = 34) = (c == 34) := byte_eq 34 c (by decide)
      have b96 : decide (((c.toNat : Nat) : Int) = 96) = (c == 96) := byte_eq 96 c (by decide)
      rw [b34, b96]
      by_cases h34 : (c == 34) = true
      · cases hu : Quote.unquote (c :: t) <;> simp only [h34, if_true, bind_ok, Bool.true_or, unquoteI, hu] <;> rfl
      · by_cases h96 : (c == 96) = true
        · cases hu : Quote.unquote (c :: t) <;>
            simp only [h34, h96, Bool.false_eq_true, if_false, if_true, bind_ok, Bool.or_true, unquoteI, hu] <;> rfl
        · simp only [h34, h96, Bool.false_eq_true, if_false, bind_ok, Bool.or_false]

theorem mpK5_eq (fuel : Nat) (mod line : Bytes) :
    mpK5 fuel mod line =
      (match mplTail line with
       | none => ModulePath_loop1 unquoteI fuel mod
       | some p => .ok (Ctl.ret p)) := by
  unfold mpK5 mplTail
  simp only [GoRt.trimSpace, hasPrefix, B_module]
  by_cases hp : isPrefixOfB [109, 111, 100, 117, 108, 101] (GoStrings.trimSpace line) = true
  · have hl := isPrefixOfB_length _ _ hp
    have hs : sliceFrom (GoStrings.trimSpace line) (len ([109, 111, 100, 117, 108, 101] : Bytes)) =
        .ok ((GoStrings.trimSpace line).drop 6) :=
      sliceFrom_natCast (k := 6) (by simpa using hl)
    simp only [hp, Bool.not_true, Bool.false_eq_true, if_false, hs, bind_ok]
    exact mpK5_tail _ _ _
  · simp only [hp, Bool.not_false, if_true]

/-- the rest of one iteration after the line cut: `continue` (none) or `return p` (some p) as the model's line says -/
theorem mpK7_eq (fuel : Nat) (line mod : Bytes) :
    mpK7 fuel line mod =
      (match Modfile.modulePathLine line with
       | none => ModulePath_loop1 unquoteI fuel mod
       | some p => .ok (Ctl.ret p)) := by
  unfold mpK7
  rw [modulePathLine_eq, index_eq]
  cases hi : GoStrings.index line [47, 47] with
  | none =>
    have : decide ((-1 : Int) ≥ 0) = false := by decide
    simp only [this, Bool.false_eq_true, if_false]
    exact mpK5_eq fuel mod line
  | some i =>
    have hle := gs_index_le hi
    have : decide (((i : Nat) : Int) ≥ 0) = true := by simp
    simp only [this, if_true, sliceTo_natCast hle, bind_ok]
    exact mpK5_eq fuel mod (line.take i)

theorem modulePathLine_nil : Modfile.modulePathLine [] = none := by decide +kernel

/-- the generated loop returns (no panic, no fuel exhaustion) and its result — `return p` inside the loop, or the
    normal end, after which ModulePath returns "" — is the model's scan of the lines of `mod` -/
theorem ModulePath_loop1_spec : ∀ (fuel : Nat) (mod : Bytes), mod.length + 1 ≤ fuel →
    ∃ c, ModulePath_loop1 unquoteI fuel mod = .ok c ∧
      (match c with | Ctl.ret p => p | Ctl.next _ => []) = Modfile.modulePathLines (splitOn 10 mod) := by
  intro fuel
  induction fuel with
  | zero => intro mod h; omega
  | succ f ih =>
    intro mod hf
    rw [loop_unfold]
    cases mod with
    | nil =>
      refine ⟨Ctl.next [], rfl, ?_⟩
      simp [splitOn, Modfile.modulePathLines, modulePathLine_nil]
    | cons x xs =>
      have h1 : decide (len (x :: xs) > 0) = true := by simp [len_eq]
      have hib : indexByte (x :: xs) 10 =
          if (10 : UInt8) ∈ x :: xs then ((((x :: xs).takeWhile (· != 10)).length : Nat) : Int) else -1 :=
        indexByte_eq (x :: xs) (10 : UInt8) rfl
      simp only [h1, if_true, hib]
      by_cases hm : (10 : UInt8) ∈ x :: xs
      · have hlt := length_takeWhile_lt_of_mem hm
        generalize hmod : x :: xs = mod at *
        generalize hk : (mod.takeWhile (· != 10)).length = k at *
        have h2 : decide (((k : Nat) : Int) ≥ 0) = true := by simp
        have h3 : ((k : Nat) : Int) + 1 = ((k + 1 : Nat) : Int) := by simp
        simp only [hm, if_true, h2, sliceTo_natCast (Nat.le_of_lt hlt), h3, sliceFrom_natCast (Nat.succ_le_of_lt hlt),
          bind_ok]
        have htk : mod.take k = mod.takeWhile (· != 10) := by rw [← hk]; exact GoRt.take_length_takeWhile _ _
        rw [mpK7_eq, splitOn_mem 10 _ hm, hk, htk]
        simp only [Modfile.modulePathLines]
        cases Modfile.modulePathLine (mod.takeWhile (· != 10)) with
        | some p => exact ⟨_, rfl, rfl⟩
        | none =>
          obtain ⟨c, hc, he⟩ := ih (mod.drop (k + 1)) (by simp at hf ⊢; omega)
          exact ⟨c, hc, he⟩
      · simp only [hm, if_false]
        have : decide ((-1 : Int) ≥ 0) = false := by decide
        simp only [this, Bool.false_eq_true, if_false]
        rw [mpK7_eq, splitOn_not_mem 10 _ hm]
        simp only [Modfile.modulePathLines]
        cases Modfile.modulePathLine (x :: xs) with
        | some p => exact ⟨_, rfl, rfl⟩
        | none =>
          obtain ⟨c, hc, he⟩ := ih [] (by simp at hf ⊢; omega)
          refine ⟨c, hc, ?_⟩
          rw [he]; simp [splitOn, Modfile.modulePathLines, modulePathLine_nil]

theorem ModulePath_eq (mod : Bytes) (fuel : Nat) (hf : mod.length + 1 ≤ fuel) :
    ModulePath unquoteI fuel mod = .ok (Modfile.modulePath mod) := by
  obtain ⟨c, hc, he⟩ := ModulePath_loop1_spec fuel mod hf
  unfold ModulePath Modfile.modulePath
  rw [hc, ← he]
  cases c <;> rfl

end ModVerif.TieFnModfile
