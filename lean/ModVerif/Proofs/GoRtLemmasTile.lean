/-
  General facts about the Go-to-Lean run-time vocabulary (`Basic/GoRt.lean`) used by the tie proofs of
  sumdb/tlog/tile.go (Proofs/TieFnTile*.lean): shifts of natural numbers, maps as association lists
  (`mapGet`/`mapSet`), `strconv.Atoi`, `strings.Split`, `%03d`/`%d` formatting, `copy`.

  Namespace `ModVerif.GoRtTile` (own namespace: importable together with the other `GoRtLemmas*.lean` files).
-/
import ModVerif.Basic.GoRt
import ModVerif.Basic.Decimal
import ModVerif.Proofs.GoRtLemmasInt
namespace ModVerif.GoRtTile
open ModVerif ModVerif.GoRt

/-! ### the Except monad at any error type, as NON-definitional rewrite rules (see `GoRtLemmasInt.mbind_ok`) -/

theorem ebind_ok {ε α β : Type} (a : α) (f : α → Except ε β) : ((Except.ok a : Except ε α) >>= f) = f a := id rfl

theorem ebind_error {ε α β : Type} (e : ε) (f : α → Except ε β) : ((Except.error e : Except ε α) >>= f) = .error e := id rfl

theorem epure {ε α : Type} (a : α) : (pure a : Except ε α) = .ok a := id rfl

/-! ### shifts -/

/-- `a << k` on natural numbers -/
theorem shl_natCast (a k : Nat) : shl (a : Int) (k : Int) = .ok (((a * 2 ^ k : Nat)) : Int) := by
  rw [shl_nonneg _ (by omega)]
  simp

theorem shl_natCast' (a k : Nat) : shl (a : Int) (k : Int) = .ok (((a <<< k : Nat)) : Int) := by
  rw [shl_natCast, Nat.shiftLeft_eq]

/-- a huge shift count of a small number gives 0 (Go: `x >> 64` and more is 0 for non-negative `x`) -/
theorem shiftRight_eq_zero_of_lt (a k : Nat) (h : a < 2 ^ k) : a >>> k = 0 := by
  rw [Nat.shiftRight_eq_div_pow]; exact Nat.div_eq_of_lt h

/-! ### maps as association lists -/

section maps
variable {κ ν : Type} [DecidableEq κ]

/-- the map read as an `Option` -/
def mapLookup (m : List (κ × ν)) (k : κ) : Option ν := (m.find? (fun p => decide (p.1 = k))).map (·.2)

theorem mapGet_eq (m : List (κ × ν)) (k : κ) (z : ν) :
    mapGet m k z = match mapLookup m k with | some v => (v, true) | none => (z, false) := by
  unfold mapGet mapLookup
  cases m.find? (fun p => decide (p.1 = k)) <;> rfl

theorem mapLookup_nil (k : κ) : mapLookup ([] : List (κ × ν)) k = none := rfl

theorem mapLookup_cons (p : κ × ν) (m : List (κ × ν)) (k : κ) :
    mapLookup (p :: m) k = if p.1 = k then some p.2 else mapLookup m k := by
  unfold mapLookup
  by_cases h : p.1 = k <;> simp [List.find?, h]

theorem mapLookup_append_single (m : List (κ × ν)) (a k : κ) (v : ν) :
    mapLookup (m ++ [(a, v)]) k = match mapLookup m k with | some w => some w | none => if a = k then some v else none := by
  induction m with
  | nil => simp [mapLookup_cons, mapLookup_nil]
  | cons p m ih =>
    rw [List.cons_append, mapLookup_cons, mapLookup_cons]
    by_cases h : p.1 = k
    · simp [h]
    · simp [h, ih]

theorem mapLookup_map_replace (m : List (κ × ν)) (a k : κ) (v : ν) :
    mapLookup (m.map (fun p => if p.1 = a then (a, v) else p)) k =
      if a = k then (match mapLookup m k with | some _ => some v | none => none) else mapLookup m k := by
  induction m with
  | nil => simp [mapLookup_nil]
  | cons p m ih =>
    rw [List.map_cons, mapLookup_cons, mapLookup_cons, ih]
    by_cases hpa : p.1 = a
    · by_cases hak : a = k
      · subst hak; simp [hpa]
      · have : ¬ p.1 = k := by rw [hpa]; exact hak
        simp [hpa, hak]
    · by_cases hpk : p.1 = k
      · have hak : ¬ a = k := by intro e; apply hpa; rw [hpk, e]
        rw [if_neg hpa, if_pos hpk, if_pos hpk, if_neg hak]
      · rw [if_neg hpa, if_neg hpk, if_neg hpk]

/-- reading a map after a write -/
theorem mapLookup_mapSet (m : List (κ × ν)) (a k : κ) (v : ν) :
    mapLookup (mapSet m a v) k = if a = k then some v else mapLookup m k := by
  unfold mapSet
  have hs : (m.find? (fun p => decide (p.1 = a))).isSome = (mapLookup m a).isSome := by
    unfold mapLookup; cases m.find? (fun p => decide (p.1 = a)) <;> rfl
  rw [hs]
  by_cases hsome : (mapLookup m a).isSome = true
  · rw [if_pos hsome, mapLookup_map_replace]
    by_cases hak : a = k
    · subst hak
      obtain ⟨w, hw⟩ := Option.isSome_iff_exists.mp hsome
      simp [hw]
    · simp [hak]
  · rw [if_neg hsome, mapLookup_append_single]
    have hnone : mapLookup m a = none := by simpa using hsome
    by_cases hak : a = k
    · subst hak; simp [hnone]
    · simp only [hak, ↓reduceIte]
      cases mapLookup m k <;> rfl

end maps

/-! ### decimal formatting -/

theorem digitsAux_eq : ∀ f n acc, GoRt.digitsAux f n acc = Decimal.digitsAux f n acc := by
  intro f
  induction f with
  | zero => intro n acc; rfl
  | succ f ih => intro n acc; simp only [GoRt.digitsAux, Decimal.digitsAux, Decimal.digitChar, ih]

theorem natDigits_eq (n : Nat) : natDigits n = Decimal.formatNat n := digitsAux_eq _ _ _

/-- `strconv.Itoa` / `%d` of a non-negative number -/
theorem itoa_natCast (n : Nat) : itoa (n : Int) = Decimal.formatNat n := by
  have : ¬ ((n : Int) < 0) := by omega
  simp only [itoa, this, ↓reduceIte, Int.toNat_natCast, natDigits_eq]

/-- `%03d` of a non-negative number -/
theorem padDec3_natCast (n : Nat) : padDec 3 (n : Int) = Decimal.pad3 n := by
  have : ¬ ((n : Int) < 0) := by omega
  simp only [padDec, this, ↓reduceIte, Int.toNat_natCast, natDigits_eq, Decimal.pad3]

/-- Go `%` on non-negative numbers -/
theorem rem_natCast (a b : Nat) (hb : b ≠ 0) : rem (a : Int) (b : Int) = .ok (((a % b : Nat)) : Int) := by
  have : ¬ ((b : Int) = 0) := by omega
  simp only [rem, this, ↓reduceIte]
  show Except.ok _ = _
  rw [Int.tmod_eq_emod_of_nonneg (by omega)]
  rfl

/-- Go `/` on non-negative numbers -/
theorem quo_natCast (a b : Nat) (hb : b ≠ 0) : quo (a : Int) (b : Int) = .ok (((a / b : Nat)) : Int) := by
  have : ¬ ((b : Int) = 0) := by omega
  simp only [quo, this, ↓reduceIte]
  show Except.ok _ = _
  rw [Int.tdiv_eq_ediv_of_nonneg (by omega)]
  rfl

theorem quo_zero (a : Int) : quo a 0 = .error .panic := by
  simp only [quo, ↓reduceIte]; rfl

/-! ### strings.Split with a one-byte separator -/

/-- prepend a string to the first element of a split result -/
def prependHead (p : Bytes) : List Bytes → List Bytes
  | [] => [p]
  | h :: t => (p ++ h) :: t

theorem splitOn_ne_nil (c : UInt8) : ∀ s : Bytes, splitOn c s ≠ []
  | [] => by simp [splitOn]
  | x :: rest => by
    unfold splitOn
    split
    · simp
    · split <;> simp

theorem prependHead_nil (l : List Bytes) (h : l ≠ []) : prependHead [] l = l := by
  cases l with
  | nil => exact absurd rfl h
  | cons a t => simp [prependHead]

theorem prependHead_prependHead (p q : Bytes) (l : List Bytes) (h : l ≠ []) :
    prependHead p (prependHead q l) = prependHead (p ++ q) l := by
  cases l with
  | nil => exact absurd rfl h
  | cons a t => simp [prependHead]

theorem splitOn_cons_ne (c x : UInt8) (rest : Bytes) (h : (x == c) = false) :
    splitOn c (x :: rest) = prependHead [x] (splitOn c rest) := by
  rw [splitOn]
  simp only [h, Bool.false_eq_true, ↓reduceIte]
  cases hs : splitOn c rest with
  | nil => exact absurd hs (splitOn_ne_nil c rest)
  | cons a t => simp [prependHead]

theorem splitAux_eq (c : UInt8) : ∀ (s : Bytes) (f : Nat) (cur : Bytes), s.length < f →
    splitAux [c] f s cur = prependHead cur.reverse (splitOn c s) := by
  intro s
  induction s with
  | nil =>
    intro f cur hf
    obtain ⟨f, rfl⟩ : ∃ g, f = g + 1 := ⟨f - 1, by omega⟩
    simp [splitAux, splitOn, prependHead]
  | cons x xs ih =>
    intro f cur hf
    obtain ⟨f, rfl⟩ : ∃ g, f = g + 1 := ⟨f - 1, by omega⟩
    simp only [List.length_cons] at hf
    rw [splitAux]
    simp only [isPrefixOfB, Bool.and_true, List.length_cons, List.length_nil, Nat.zero_add, List.drop_succ_cons, List.drop_zero]
    by_cases hcx : (c == x) = true
    · have hxc : (x == c) = true := by rw [beq_iff_eq] at hcx ⊢; exact hcx.symm
      rw [if_pos hcx, ih f [] (by omega)]
      rw [splitOn]
      simp only [hxc, ↓reduceIte, List.reverse_nil]
      rw [prependHead_nil _ (splitOn_ne_nil c xs)]
      simp [prependHead]
    · have hxc : (x == c) = false := by
        cases h : (x == c) with
        | false => rfl
        | true => rw [beq_iff_eq] at h; exact absurd (by rw [beq_iff_eq]; exact h.symm) hcx
      rw [if_neg hcx, ih f (x :: cur) (by omega), splitOn_cons_ne c x xs hxc,
        prependHead_prependHead _ _ _ (splitOn_ne_nil c xs)]
      simp

/-- `strings.Split(s, "/")`-style splits are the model's `splitOn` -/
theorem split_single (s : Bytes) (c : UInt8) : split s [c] = splitOn c s := by
  unfold split
  rw [splitAux_eq c s _ [] (by omega)]
  simp only [List.reverse_nil]
  exact prependHead_nil _ (splitOn_ne_nil c s)

/-! ### strconv.Atoi -/

theorem atoiDigits_eq : ∀ (s : Bytes) (acc : Nat), atoiDigits s acc = Decimal.parseDigitsAux s acc := by
  intro s
  induction s with
  | nil => intro acc; rfl
  | cons c cs ih =>
    intro acc
    simp only [atoiDigits, Decimal.parseDigitsAux, Decimal.isDigit, ih]
    have h1 : ((48 : UInt8) ≤ c) ↔ 48 ≤ c.toNat := by rw [UInt8.le_iff_toNat_le]; rfl
    have h2 : (c ≤ (57 : UInt8)) ↔ c.toNat ≤ 57 := by rw [UInt8.le_iff_toNat_le]; rfl
    by_cases a : 48 ≤ c.toNat <;> by_cases b : c.toNat ≤ 57 <;> simp [h1, h2, a, b]

/-- what `atoi` does after the sign has been removed -/
def atoiCore (neg : Bool) (ds : Bytes) : Int × Option String :=
  if ds.isEmpty then (0, some "strconv.Atoi: syntax") else
  match atoiDigits ds 0 with
  | none => (0, some "strconv.Atoi: syntax")
  | some n =>
    let v : Int := if neg then -(Int.ofNat n) else Int.ofNat n
    if v < -two63 then (-two63, some "strconv.Atoi: range")
    else if v ≥ two63 then (two63 - 1, some "strconv.Atoi: range")
    else (v, none)

theorem atoi_plus (r : Bytes) : atoi (43 :: r) = atoiCore false r := rfl
theorem atoi_minus (r : Bytes) : atoi (45 :: r) = atoiCore true r := rfl
theorem atoi_nil : atoi [] = atoiCore false [] := rfl
theorem atoi_other (c : UInt8) (r : Bytes) (h1 : c ≠ 43) (h2 : c ≠ 45) : atoi (c :: r) = atoiCore false (c :: r) := by
  unfold atoi atoiCore
  split
  rename_i heq
  split at heq
  · rename_i h; simp at h; exact absurd h.1 h1
  · rename_i h; simp at h; exact absurd h.1 h2
  · cases heq; rfl

/-- `strconv.Atoi` succeeds exactly when the model's `parseInt64` does, with the same value -/
theorem atoi_spec (s : Bytes) :
    match Decimal.parseInt64 s with
    | some v => atoi s = (v, none)
    | none => (atoi s).2.isNone = false := by
  have core : ∀ (neg : Bool) (ds : Bytes),
      match Decimal.parseDigits ds with
      | some n =>
        if neg then (if -(n : Int) ≥ Decimal.int64Min then atoiCore neg ds = (-(n : Int), none) else (atoiCore neg ds).2.isNone = false)
        else (if (n : Int) ≤ Decimal.int64Max then atoiCore neg ds = ((n : Int), none) else (atoiCore neg ds).2.isNone = false)
      | none => (atoiCore neg ds).2.isNone = false := by
    intro neg ds
    unfold Decimal.parseDigits atoiCore
    by_cases he : ds.isEmpty = true
    · simp [he]
    · simp only [he, Bool.false_eq_true, ↓reduceIte, atoiDigits_eq]
      cases hd : Decimal.parseDigitsAux ds 0 with
      | none => simp
      | some n =>
        simp only [Decimal.int64Min, Decimal.int64Max, two63, Int.ofNat_eq_natCast]
        cases neg
        · simp only [Bool.false_eq_true, ↓reduceIte]
          by_cases hle : (n : Int) ≤ 9223372036854775807
          · have a : ¬ ((n : Int) < -9223372036854775808) := by omega
            have b : ¬ ((n : Int) ≥ 9223372036854775808) := by omega
            simp [hle, a, b]
          · have a : ¬ ((n : Int) < -9223372036854775808) := by omega
            have b : ((n : Int) ≥ 9223372036854775808) := by omega
            simp [hle, a, b]
        · simp only [↓reduceIte]
          by_cases hle : -(n : Int) ≥ -9223372036854775808
          · have a : ¬ (-(n : Int) < -9223372036854775808) := by omega
            have b : ¬ (-(n : Int) ≥ 9223372036854775808) := by omega
            simp [hle, a, b]
          · have a : (-(n : Int) < -9223372036854775808) := by omega
            simp [hle, a]
  cases s with
  | nil => simp [Decimal.parseInt64, atoi_nil, atoiCore]
  | cons c rest =>
    unfold Decimal.parseInt64
    by_cases h43 : c = 43
    · subst h43
      have := core false rest
      simp only [beq_self_eq_true, ↓reduceIte, atoi_plus]
      cases hp : Decimal.parseDigits rest with
      | none => rw [hp] at this; simpa using this
      | some n =>
        rw [hp] at this
        simp only [Bool.false_eq_true, ↓reduceIte] at this
        by_cases hle : (n : Int) ≤ Decimal.int64Max
        · simp only [hle, ↓reduceIte] at this ⊢; exact this
        · simp only [hle, ↓reduceIte] at this ⊢; exact this
    · by_cases h45 : c = 45
      · subst h45
        have := core true rest
        have hne : ((45 : UInt8) == 43) = false := by decide
        simp only [hne, Bool.false_eq_true, beq_self_eq_true, ↓reduceIte, atoi_minus]
        cases hp : Decimal.parseDigits rest with
        | none => rw [hp] at this; simpa using this
        | some n =>
          rw [hp] at this
          simp only [↓reduceIte] at this
          by_cases hle : -(n : Int) ≥ Decimal.int64Min
          · simp only [hle, ↓reduceIte] at this ⊢; exact this
          · simp only [hle, ↓reduceIte] at this ⊢; exact this
      · have := core false (c :: rest)
        have hne1 : (c == 43) = false := by simpa using h43
        have hne2 : (c == 45) = false := by simpa using h45
        simp only [hne1, hne2, Bool.false_eq_true, ↓reduceIte, atoi_other c rest h43 h45]
        cases hp : Decimal.parseDigits (c :: rest) with
        | none => rw [hp] at this; simpa using this
        | some n =>
          rw [hp] at this
          simp only [Bool.false_eq_true, ↓reduceIte] at this
          by_cases hle : (n : Int) ≤ Decimal.int64Max
          · simp only [hle, ↓reduceIte] at this ⊢; exact this
          · simp only [hle, ↓reduceIte] at this ⊢; exact this

theorem atoi_some (s : Bytes) (v : Int) (h : Decimal.parseInt64 s = some v) : atoi s = (v, none) := by
  have := atoi_spec s; rw [h] at this; exact this

theorem atoi_none (s : Bytes) (h : Decimal.parseInt64 s = none) : (atoi s).2.isNone = false := by
  have := atoi_spec s; rw [h] at this; exact this

end ModVerif.GoRtTile
