/-
  General facts about the Go-to-Lean run-time vocabulary (`Basic/GoRt.lean`) used by the tie proofs of
  sumdb/tlog/tile.go (Proofs/TieFnTile*.lean): shifts of natural numbers, maps as association lists
  (`mapGet`/`mapSet`), `strconv.Atoi`, `strings.Split`, `%03d`/`%d` formatting, `copy`.

  Namespace `ModVerif.GoRtTile` (own namespace: importable together with the other `GoRtLemmas*.lean` files).
-/
import ModVerif.Basic.GoRt
import ModVerif.Basic.Decimal
import ModVerif.Proofs.GoRtLemmasInt
namespace ModVerif.GoRtTile
open ModVerif ModVerif.GoRt

/-! ### shifts -/

/-- `a << k` on natural numbers -/
theorem shl_natCast (a k : Nat) : shl (a : Int) (k : Int) = .ok (((a * 2 ^ k : Nat)) : Int) := by
  rw [shl_nonneg _ (by omega)]
  simp

theorem shl_natCast' (a k : Nat) : shl (a : Int) (k : Int) = .ok (((a <<< k : Nat)) : Int) := by
  rw [shl_natCast, Nat.shiftLeft_eq]

/-- a huge shift count of a small number gives 0 (Go: `x >> 64` and more is 0 for non-negative `x`) -/
theorem shiftRight_eq_zero_of_lt (a k : Nat) (h : a < 2 ^ k) : a >>> k = 0 := by
  rw [Nat.shiftRight_eq_div_pow]; exact Nat.div_eq_of_lt h

/-! ### maps as association lists -/

section maps
variable {κ ν : Type} [DecidableEq κ]

/-- the map read as an `Option` -/
def mapLookup (m : List (κ × ν)) (k : κ) : Option ν := (m.find? (fun p => decide (p.1 = k))).map (·.2)

theorem mapGet_eq (m : List (κ × ν)) (k : κ) (z : ν) :
    mapGet m k z = match mapLookup m k with | some v => (v, true) | none => (z, false) := by
  unfold mapGet mapLookup
  cases m.find? (fun p => decide (p.1 = k)) <;> rfl

theorem mapLookup_nil (k : κ) : mapLookup ([] : List (κ × ν)) k = none := rfl

theorem mapLookup_cons (p : κ × ν) (m : List (κ × ν)) (k : κ) :
    mapLookup (p :: m) k = if p.1 = k then some p.2 else mapLookup m k := by
  unfold mapLookup
  by_cases h : p.1 = k <;> simp [List.find?, h]

theorem mapLookup_append_single (m : List (κ × ν)) (a k : κ) (v : ν) :
    mapLookup (m ++ [(a, v)]) k = match mapLookup m k with | some w => some w | none => if a = k then some v else none := by
  induction m with
  | nil => simp [mapLookup_cons, mapLookup_nil]
  | cons p m ih =>
    rw [List.cons_append, mapLookup_cons, mapLookup_cons]
    by_cases h : p.1 = k
    · simp [h]
    · simp [h, ih]

theorem mapLookup_map_replace (m : List (κ × ν)) (a k : κ) (v : ν) :
    mapLookup (m.map (fun p => if p.1 = a then (a, v) else p)) k =
      if a = k then (match mapLookup m k with | some _ => some v | none => none) else mapLookup m k := by
  induction m with
  | nil => simp [mapLookup_nil]
  | cons p m ih =>
    rw [List.map_cons, mapLookup_cons, mapLookup_cons, ih]
    by_cases hpa : p.1 = a
    · by_cases hak : a = k
      · subst hak; simp [hpa]
      · have : ¬ p.1 = k := by rw [hpa]; exact hak
        simp [hpa, hak]
    · by_cases hpk : p.1 = k
      · have hak : ¬ a = k := by intro e; apply hpa; rw [hpk, e]
        rw [if_neg hpa, if_pos hpk, if_pos hpk, if_neg hak]
      · rw [if_neg hpa, if_neg hpk, if_neg hpk]

/-- reading a map after a write -/
theorem mapLookup_mapSet (m : List (κ × ν)) (a k : κ) (v : ν) :
    mapLookup (mapSet m a v) k = if a = k then some v else mapLookup m k := by
  unfold mapSet
  have hs : (m.find? (fun p => decide (p.1 = a))).isSome = (mapLookup m a).isSome := by
    unfold mapLookup; cases m.find? (fun p => decide (p.1 = a)) <;> rfl
  rw [hs]
  by_cases hsome : (mapLookup m a).isSome = true
  · rw [if_pos hsome, mapLookup_map_replace]
    by_cases hak : a = k
    · subst hak
      obtain ⟨w, hw⟩ := Option.isSome_iff_exists.mp hsome
      simp [hw]
    · simp [hak]
  · rw [if_neg hsome, mapLookup_append_single]
    have hnone : mapLookup m a = none := by simpa using hsome
    by_cases hak : a = k
    · subst hak; simp [hnone]
    · simp only [hak, ↓reduceIte]
      cases mapLookup m k <;> rfl

end maps

end ModVerif.GoRtTile
