import ModVerif.Proofs.TieFnEditAddLineG
set_option linter.unusedSimpArgs false
set_option linter.unusedVariables false
namespace ModVerif.TieFnEditAddLine
open ModVerif ModVerif.GoRt
open ModVerif.Generated.Edit
open ModVerif.Tie.FnEditRep
open ModVerif.Modfile.Edit (treeIds cleanupStmts cleanupSyntax)

/-! ### the model's `cleanupStmts`: ids and block verbs -/

theorem cleanup_spec : ∀ (ss : List Modfile.Expr), BlockTokOK ss →
    (stmtIds (cleanupStmts ss)).Sublist (stmtIds ss) ∧ BlockTokOK (cleanupStmts ss)
  | [], _ => by simp [cleanupStmts, stmtIds, BlockTokOK_nil]
  | s :: xs, hb => by
    have hb1 := (BlockTokOK_cons_iff.1 hb).1
    obtain ⟨i1, i2⟩ := cleanup_spec xs (BlockTokOK_cons_iff.1 hb).2
    have keep : ∀ (s' : Modfile.Expr), (stmtIds [s']).Sublist (stmtIds [s]) → BlockTokOK [s'] →
        (stmtIds (s' :: cleanupStmts xs)).Sublist (stmtIds (s :: xs)) ∧ BlockTokOK (s' :: cleanupStmts xs) := by
      intro s' h1 h2
      rw [stmtIds_cons s', stmtIds_cons s xs]
      exact ⟨h1.append i1, BlockTokOK_cons_iff.2 ⟨h2, i2⟩⟩
    have drop : (stmtIds (cleanupStmts xs)).Sublist (stmtIds (s :: xs)) := by
      rw [stmtIds_cons s xs]
      exact i1.trans (List.sublist_append_right _ _)
    cases s with
    | commentBlock c => rw [cleanup_cb]; exact keep _ (List.Sublist.refl _) hb1
    | lparen c =>
      have : cleanupStmts (.lparen c :: xs) = .lparen c :: cleanupStmts xs := by
        rw [cleanupStmts]
        · intro l e; cases e
        · intro b e; cases e
      rw [this]; exact keep _ (List.Sublist.refl _) hb1
    | rparen c =>
      have : cleanupStmts (.rparen c :: xs) = .rparen c :: cleanupStmts xs := by
        rw [cleanupStmts]
        · intro l e; cases e
        · intro b e; cases e
      rw [this]; exact keep _ (List.Sublist.refl _) hb1
    | line l =>
      rw [cleanup_line]
      split
      · exact ⟨drop, i2⟩
      · exact keep _ (List.Sublist.refl _) hb1
    | lineBlock b =>
      have btok : b.token ≠ [] := hb1 b (List.mem_singleton.2 rfl)
      have hk : BlockTokOK [.lineBlock { b with lines := b.lines.filter isLive }] := by
        intro b' hm
        simp only [List.mem_singleton, Modfile.Expr.lineBlock.injEq] at hm
        subst hm; exact btok
      have hs : (stmtIds [.lineBlock { b with lines := b.lines.filter isLive }]).Sublist (stmtIds [.lineBlock b]) := by
        simp only [stmtIds, List.append_nil]; exact filter_ids_sublist b.lines
      rw [cleanup_block]
      split
      · exact ⟨drop, i2⟩
      · rename_i l hfl
        split
        · refine keep _ ?_ (BlockTokOK_line _)
          have : l ∈ b.lines := by
            have : l ∈ b.lines.filter isLive := by rw [hfl]; exact List.mem_cons_self
            exact (List.mem_filter.1 this).1
          simp only [stmtIds, collapsed, List.append_nil]
          exact List.singleton_sublist.2 (List.mem_map.2 ⟨l, this, rfl⟩)
        · exact keep _ hs hk
      · exact keep _ hs hk


/-! ### `FileSyntax.Cleanup`, assembled -/

theorem Cleanup_sim {h : Heap} {x : Int} {fs : Modfile.FileSyntax} {es : List Expr} (r : RepSynAt h x fs es)
    (htok : BlockTokOK fs.stmts) (fuel : Nat) (hfu : nodeCount fs.stmts + 1 ≤ fuel) :
    ∃ h', FileSyntax_Cleanup fuel x h = .ok ((), h') ∧ RepSyn h' x (cleanupSyntax fs) ∧
      BlockTokOK (cleanupSyntax fs).stmts ∧ CFrame x h h' := by
  have hf : heapGet h.files x = .ok { Name := fs.name, Comments := comsG fs.comments, Stmt := [] ++ es } := r.file
  obtain ⟨h1, out2, junk', c1, c2, c3, c4, c5⟩ :=
    cl1_sim x fs.name (comsG fs.comments) es es fs.stmts [] [] es [] h fuel rfl hf (by simp) (Nat.le_refl _) trivial
      r.stmts (show (([] : List Int) ++ blockPtrs es).Nodup from r.nodupB)
      (show (([] : List Nat) ++ stmtIds fs.stmts).Nodup by rw [List.nil_append, ← treeIds_eq_stmtIds]; exact r.nodupL) hfu
  simp only [List.nil_append, List.length_nil] at c1 c2 c3 c4
  obtain ⟨m1, m2⟩ := cleanup_spec fs.stmts htok
  have hst : sliceTo (out2 ++ junk') ((out2.length : Nat) : Int) = .ok out2 := by
    rw [sliceTo_natCast (by simp)]; simp
  let fo2 : FileSyntax := { Name := fs.name, Comments := comsG fs.comments, Stmt := out2 }
  refine ⟨{ h1 with files := h1.files.set (x.toNat - 1) fo2 }, ?_, ⟨out2, ?_, ?_, c4, ?_⟩, m2,
    c5.trans (CFrame.setFile c2 _)⟩
  · unfold FileSyntax_Cleanup
    have c1' : FileSyntax_Cleanup_loop1 es x fuel 0 h 0 = .ok (len es, h1, ((out2.length : Nat) : Int)) := c1
    simp only [r.file, bind_ok, fileG_Stmt, c1', c2, hst, heapSet_of_get _ c2, pure_eq_ok]
    rfl
  · show heapGet (h1.files.set (x.toNat - 1) _) x = _
    rw [heapGet_listSet_same _ c2]; rfl
  · exact RStmts.congr (h := h1) (h' := { h1 with files := h1.files.set (x.toNat - 1) fo2 }) rfl rfl rfl c3
  · show (treeIds (cleanupStmts fs.stmts)).Nodup
    rw [treeIds_eq_stmtIds]
    exact m1.nodup (by rw [← treeIds_eq_stmtIds]; exact r.nodupL)

/-- the fuel measure against the sizes of the tree: statements plus lines -/
theorem nodeCount_le : ∀ (ss : List Modfile.Expr), nodeCount ss ≤ ss.length + (treeIds ss).length
  | [] => by simp [nodeCount]
  | s :: ss => by
    have ih := nodeCount_le ss
    rw [treeIds_eq_stmtIds] at ih ⊢
    cases s <;> simp only [nodeCount, stmtIds, lineIds, List.length_cons, List.length_append, List.length_map] <;> omega

end ModVerif.TieFnEditAddLine
