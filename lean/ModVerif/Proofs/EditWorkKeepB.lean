/-
  EditWork, part 2 — executable sufficient conditions for the hypotheses of `untouched_lines_survive_work` (for concrete
  instances): `invWB` (the go.work tree invariant), `runValidWB` (`RunValidW`), `sparedWB` (`SparedW`).
-/
import ModVerif.Proofs.EditWorkKeepA
set_option linter.unusedSimpArgs false
namespace ModVerif.Modfile.Edit
open ModVerif ModVerif.Modfile

/-! ### the go.work invariant as a Boolean test -/

def entUB (u : Use) : EntB := ⟨u.lineId, fun t _ => t == [B "use", autoQuote u.path]⟩

theorem dU (u : Use) : Decides (entUB u) (entU u) := ⟨rfl, fun t s h => by simpa [entUB, entU] using h⟩

def entriesWB (f : WorkFile) : List EntB :=
  f.go.toList.map entGoB ++ (f.toolchain.toList.map entTcB ++ (entsOfB liveG entGB f.godebug ++
    (entsOfB liveU entUB f.use ++ entsOfB liveRp entRpB f.replace)))

theorem entriesW_ids_eq (f : WorkFile) : (entriesW f).map (·.id) = (entriesWB f).map (·.id) := by
  simp only [entriesW, entriesWB, entsOf, entsOfB, List.map_append, List.map_map]
  rfl

theorem entriesW_to_B (f : WorkFile) : ∀ en ∈ entriesW f, ∃ p ∈ entriesWB f, Decides p en := by
  intro en hen
  simp only [entriesW, entsOf, List.mem_append, List.mem_map] at hen
  rcases hen with ⟨x, hx, rfl⟩ | ⟨x, hx, rfl⟩ | ⟨x, hx, rfl⟩ | ⟨x, hx, rfl⟩ | ⟨x, hx, rfl⟩
  · exact ⟨entGoB x, by simp only [entriesWB, entsOfB, List.mem_append, List.mem_map]; exact Or.inl ⟨x, hx, rfl⟩, dGo x⟩
  · exact ⟨entTcB x, by simp only [entriesWB, entsOfB, List.mem_append, List.mem_map]; exact Or.inr (Or.inl ⟨x, hx, rfl⟩), dTc x⟩
  · exact ⟨entGB x, by
      simp only [entriesWB, entsOfB, List.mem_append, List.mem_map]; exact Or.inr (Or.inr (Or.inl ⟨x, hx, rfl⟩)), dG x⟩
  · exact ⟨entUB x, by
      simp only [entriesWB, entsOfB, List.mem_append, List.mem_map]; exact Or.inr (Or.inr (Or.inr (Or.inl ⟨x, hx, rfl⟩))), dU x⟩
  · exact ⟨entRpB x, by
      simp only [entriesWB, entsOfB, List.mem_append, List.mem_map]; exact Or.inr (Or.inr (Or.inr (Or.inr ⟨x, hx, rfl⟩))), dRp x⟩

theorem entriesWB_to (f : WorkFile) : ∀ p ∈ entriesWB f, ∃ en ∈ entriesW f, en.id = p.id := by
  intro p hp
  have : p.id ∈ (entriesW f).map (·.id) := by rw [entriesW_ids_eq]; exact List.mem_map.2 ⟨p, hp, rfl⟩
  rcases List.mem_map.1 this with ⟨en, hen, hid⟩
  exact ⟨en, hen, hid⟩

theorem matchWB_sound (f : WorkFile) (vs : List VLine) (h : matchB (entriesWB f) vs = true) : Match (entriesW f) vs := by
  simp only [matchB, Bool.and_eq_true, decide_eq_true_eq, List.all_eq_true, List.any_eq_true, beq_iff_eq] at h
  rcases h with ⟨⟨h1, h2⟩, h3⟩
  refine ⟨by rw [entriesW_ids_eq]; exact h1, ?_, ?_⟩
  · intro en hen
    rcases entriesW_to_B f en hen with ⟨p, hp, hid, hacc⟩
    rcases h2 p hp with ⟨v, hv, hvid, hb⟩
    exact ⟨v, hv, hvid.trans hid, hacc _ _ hb⟩
  · intro v hv
    rcases h3 v hv with ⟨p, hp, hid⟩
    rcases entriesWB_to f p hp with ⟨en, hen, hid'⟩
    exact ⟨en, hen, hid'.trans hid⟩

def winvB (e : EWork) : Bool :=
  idWFB liveRp (·.lineId) e.f.replace && decide (liveIds liveRp (·.lineId) e.f.replace).Nodup &&
    (liveIds liveRp (·.lineId) e.f.replace).all (fun i => decide (i < e.next)) && decide (0 < e.next)

theorem winvB_sound (e : EWork) (h : winvB e = true) : WInv e := by
  simp only [winvB, Bool.and_eq_true, decide_eq_true_eq, List.all_eq_true] at h
  rcases h with ⟨⟨⟨h1, h2⟩, h3⟩, h4⟩
  exact ⟨idWFB_sound _ _ _ h1, h2, h3, h4⟩

/-- **the go.work tree invariant as a Boolean test** -/
def invWB (e : EWork) : Bool :=
  treeWFB e.f.syn.stmts e.next && matchB (entriesWB e.f) (view e.f.syn.stmts) && winvB e

theorem invWB_sound (e : EWork) (h : invWB e = true) : InvW e := by
  simp only [invWB, Bool.and_eq_true] at h
  exact ⟨treeWFB_sound _ _ h.1.1, matchWB_sound _ _ h.1.2, winvB_sound _ h.2⟩

/-! ### valid arguments along the run -/

def validArgsWB : Op → Bool
  | .addGodebug k _ => !k.isEmpty
  | .dropGodebug k => !k.isEmpty
  | .addUse d _ => !d.isEmpty
  | .addNewUse d _ => !d.isEmpty
  | .dropUse d => !d.isEmpty
  | .setUse _ _ => false
  | .addReplace op _ _ _ => !op.isEmpty
  | .dropReplace op _ => !op.isEmpty
  | _ => true

theorem validArgsWB_sound (op : Op) (h : validArgsWB op = true) : ValidArgsW op := by
  cases op <;> simp only [validArgsWB, ValidArgsW] at h ⊢ <;>
    first
      | trivial
      | exact isEmpty_false_ne h
      | (cases h; done)

def goodUseB (w : List (Bytes × Bytes)) : Bool := decide (w.Pairwise (fun a b => a.1 ≠ b.1)) && w.all (fun x => !x.1.isEmpty)

theorem goodUseB_sound (w : List (Bytes × Bytes)) (h : goodUseB w = true) : GoodUse w := by
  simp only [goodUseB, Bool.and_eq_true, decide_eq_true_eq, List.all_eq_true] at h
  exact ⟨h.1, fun x hx => isEmpty_false_ne (h.2 x hx)⟩

def validArgsWAllB (e : EWork) : Op → Bool
  | .setUse w _ => goodUseB w && e.f.use.all liveU
  | op => validArgsWB op

theorem validArgsWAllB_sound (e : EWork) (op : Op) (h : validArgsWAllB e op = true) : ValidArgsWAll e op := by
  cases op <;> first
    | (simp only [validArgsWAllB, Bool.and_eq_true] at h
       exact ⟨goodUseB_sound _ h.1, List.all_eq_true.1 h.2⟩)
    | (simp only [ValidArgsWAll]; exact validArgsWB_sound _ h)

/-- `RunValidW` as a Boolean test that follows the run -/
def runValidWB : EWork → List Op → Bool
  | _, [] => true
  | e, op :: ops =>
    validArgsWAllB e op &&
      (match applyWork e op with
       | some (.ok e') => runValidWB e' ops
       | some (.error err) => !err.isReturned || runValidWB e ops
       | none => true)

theorem runValidWB_sound (ops : List Op) : ∀ e : EWork, runValidWB e ops = true → RunValidW e ops := by
  induction ops with
  | nil => intro e _; trivial
  | cons op ops ih =>
    intro e h
    simp only [runValidWB, Bool.and_eq_true] at h
    refine ⟨validArgsWAllB_sound e op h.1, ?_, ?_⟩
    · intro e' ha
      have := h.2; rw [ha] at this
      exact ih e' this
    · intro err ha hr
      have := h.2; rw [ha] at this
      simp only [hr, Bool.not_true, Bool.false_or] at this
      exact ih e this

/-! ### `SparedW` -/

/-- the verb of the directive a go.work operation names -/
def opVerbW : Op → Option Bytes
  | .addGo _ => some (B "go")
  | .dropGo => some (B "go")
  | .addToolchain _ => some (B "toolchain")
  | .dropToolchain => some (B "toolchain")
  | .addGodebug _ _ => some (B "godebug")
  | .dropGodebug _ => some (B "godebug")
  | .addUse _ _ => some (B "use")
  | .dropUse _ => some (B "use")
  | .setUse _ _ => some (B "use")
  | .addReplace _ _ _ _ => some (B "replace")
  | .dropReplace _ _ => some (B "replace")
  | _ => none

theorem targetsW_verb (op : Op) (t : List Bytes) (h : TargetsW op t) : ∃ v, opVerbW op = some v ∧ t.head? = some v := by
  cases op <;> simp only [TargetsW] at h <;> simp only [opVerbW]
  all_goals first
    | exact h.elim
    | exact ⟨_, rfl, h⟩
    | (rcases h with ⟨v, rfl⟩; exact ⟨_, rfl, rfl⟩)
    | (subst h; exact ⟨_, rfl, rfl⟩)
    | (rcases h with ⟨r, _, rfl⟩; exact ⟨_, rfl, rfl⟩)
    | (rcases h with ⟨r, _, _, rfl⟩; exact ⟨_, rfl, rfl⟩)

/-- a Boolean test implying `SparedW`: no operation of the session names a directive with the line's verb, and the
    line's id is in no kill list -/
def sparedWB (toks : List Bytes) (id : Nat) : EWork → List Op → Bool
  | _, [] => true
  | e, op :: ops =>
    (match opVerbW op with
     | some v => toks.head? != some v
     | none => true) &&
    (!SortsW op || !(killEarlier e.f.replace).contains id) &&
      (match applyWork e op with
       | some (.ok e') => sparedWB toks id e' ops
       | some (.error err) => !err.isReturned || sparedWB toks id e ops
       | none => true)

theorem sparedWB_sound (toks : List Bytes) (id : Nat) (ops : List Op) :
    ∀ e : EWork, sparedWB toks id e ops = true → SparedW toks id e ops := by
  induction ops with
  | nil => intro e _; trivial
  | cons op ops ih =>
    intro e h
    simp only [sparedWB, Bool.and_eq_true] at h
    refine ⟨?_, ?_, ?_, ?_⟩
    · intro ht
      rcases targetsW_verb op toks ht with ⟨v, hv, hh⟩
      have := h.1.1
      rw [hv] at this
      simp [hh] at this
    · intro hs hk
      have := h.1.2
      simp [hs, hk] at this
    · intro e' ha
      have := h.2; rw [ha] at this
      exact ih e' this
    · intro err ha hr
      have := h.2; rw [ha] at this
      simp only [hr, Bool.not_true, Bool.false_or] at this
      exact ih e this

end ModVerif.Modfile.Edit
