/-
  EditMore, part 1 — the `inBlock` flags of a parsed tree: a top-level `Line` has `inBlock = false`, a line of a
  `LineBlock` has `inBlock = true`; comment assignment and the directive layer (`addStmts`, `workStmts`) keep the flags.
  (One of the three syntax-layer facts `Edit.TreeWF` needs of a starting file; the others are `parse_ids_nodup`
  of C20 and the absence of an end-of-line comment on a `LineBlock`.)
-/
import ModVerif.Proofs.ModfileC20Ids
namespace ModVerif.Proofs.EditMore
open ModVerif ModVerif.Modfile ModVerif.Proofs.ModfileC20

/-- the flags of one statement -/
def FlagOK : Expr → Prop
  | .line l => l.inBlock = false
  | .lineBlock b => ∀ l ∈ b.lines, l.inBlock = true
  | _ => True

theorem flagOK_setComments (x : Expr) (c : Comments) (h : FlagOK x) : FlagOK (x.setComments c) := by
  cases x <;> first | exact h | trivial

theorem parseLineLoop_flag : ∀ (fuel : Nat) (i : Input) (s e : Position) (ts : List Bytes) (l : Line) (i' : Input),
    parseLineLoop fuel i s e ts = .ok (l, i') → l.inBlock = true := by
  intro fuel
  induction fuel with
  | zero => intro i s e ts l i' h; simp [parseLineLoop] at h
  | succ n ih =>
    intro i s e ts l i' h
    unfold parseLineLoop at h
    cases h1 : lex i with
    | error e1 => simp [h1, bind, Except.bind] at h
    | ok v =>
      simp only [h1, bind, Except.bind] at h
      split at h
      · simp only [Except.ok.injEq, Prod.mk.injEq] at h
        obtain ⟨rfl, _⟩ := h
        rfl
      · exact ih _ _ _ _ _ _ h

theorem parseLine_flag {fuel : Nat} {i : Input} {l : Line} {i' : Input} (h : parseLine fuel i = .ok (l, i')) :
    l.inBlock = true := by
  unfold parseLine at h
  cases h1 : lex i with
  | error e1 => simp [h1, bind, Except.bind] at h
  | ok v =>
    simp only [h1, bind, Except.bind] at h
    split at h
    · cases h
    · exact parseLineLoop_flag _ _ _ _ _ _ _ h

theorem parseLineBlockLoop_flag : ∀ (fuel : Nat) (i : Input) (x : LineBlock) (ls : List Line) (cs : List Comment)
    (b : LineBlock) (i' : Input), parseLineBlockLoop fuel i x ls cs = .ok (b, i') →
    (∀ l ∈ ls, l.inBlock = true) → ∀ l ∈ b.lines, l.inBlock = true := by
  intro fuel
  induction fuel with
  | zero => intro i x ls cs b i' h; simp [parseLineBlockLoop] at h
  | succ n ih =>
    intro i x ls cs b i' h hls
    unfold parseLineBlockLoop at h
    split at h
    · cases h1 : lex i with
      | error e1 => simp [h1, bind, Except.bind] at h
      | ok v =>
        simp only [h1, bind, Except.bind] at h
        exact ih _ _ _ _ _ _ h hls
    · cases h1 : lex i with
      | error e1 => simp [h1, bind, Except.bind] at h
      | ok v =>
        simp only [h1, bind, Except.bind] at h
        exact ih _ _ _ _ _ _ h hls
    · cases h1 : lex i with
      | error e1 => simp [h1, bind, Except.bind] at h
      | ok v =>
        simp only [h1, bind, Except.bind] at h
        exact ih _ _ _ _ _ _ h hls
    · cases h
    · cases h1 : lex i with
      | error e1 => simp [h1, bind, Except.bind] at h
      | ok v =>
        simp only [h1, bind, Except.bind] at h
        split at h
        · cases h
        · cases h2 : lex v.2 with
          | error e2 => simp [h2] at h
          | ok w =>
            simp only [h2, Except.ok.injEq, Prod.mk.injEq] at h
            obtain ⟨rfl, _⟩ := h
            intro l hl
            exact hls l (List.mem_reverse.1 hl)
    · cases hp : parseLine (n + 1) i with
      | error e1 => simp [hp, bind, Except.bind] at h
      | ok v =>
        have hf := parseLine_flag (show parseLine (n + 1) i = .ok (v.1, v.2) by rw [hp])
        simp only [hp, bind, Except.bind] at h
        refine ih _ _ _ _ _ _ h ?_
        intro l hl
        rcases List.mem_cons.1 hl with rfl | hl
        · exact hf
        · exact hls l hl

theorem parseStmtLoop_flag : ∀ (fuel : Nat) (i : Input) (s e : Position) (ts : List Bytes) (x : Expr) (i' : Input),
    parseStmtLoop fuel i s e ts = .ok (x, i') → FlagOK x := by
  intro fuel
  induction fuel with
  | zero => intro i s e ts x i' h; simp [parseStmtLoop] at h
  | succ n ih =>
    intro i s e ts x i' h
    unfold parseStmtLoop at h
    cases h1 : lex i with
    | error e1 => simp [h1, bind, Except.bind] at h
    | ok v =>
      simp only [h1, bind, Except.bind] at h
      split at h
      · simp only [Except.ok.injEq, Prod.mk.injEq] at h
        obtain ⟨rfl, _⟩ := h
        rfl
      · split at h
        · split at h
          · unfold parseLineBlock at h
            split at h
            · cases h
            · rename_i w hw
              simp only [Except.ok.injEq, Prod.mk.injEq] at h
              obtain ⟨rfl, _⟩ := h
              exact parseLineBlockLoop_flag _ _ _ _ _ _ _ (show _ = Except.ok (w.1, w.2) from hw)
                (by intro l hl; cases hl)
          · split at h
            · cases h2 : lex v.2 with
              | error e2 => simp [h2] at h
              | ok w =>
                simp only [h2] at h
                split at h
                · cases h3 : lex w.2 with
                  | error e3 => simp [h3] at h
                  | ok u =>
                    simp only [h3, Except.ok.injEq, Prod.mk.injEq] at h
                    obtain ⟨rfl, _⟩ := h
                    intro l hl; cases hl
                · exact ih _ _ _ _ _ _ h
            · exact ih _ _ _ _ _ _ h
        · exact ih _ _ _ _ _ _ h

theorem parseStmt_flag {fuel : Nat} {i : Input} {x : Expr} {i' : Input} (h : parseStmt fuel i = .ok (x, i')) :
    FlagOK x := by
  unfold parseStmt at h
  cases h1 : lex i with
  | error e1 => simp [h1, bind, Except.bind] at h
  | ok v =>
    simp only [h1, bind, Except.bind] at h
    exact parseStmtLoop_flag _ _ _ _ _ _ _ h

theorem parseFileLoop_flag : ∀ (fuel : Nat) (i : Input) (stmtsRev : List Expr) (cb : Option CommentBlock)
    (stmts : List Expr) (i' : Input), parseFileLoop fuel i stmtsRev cb = .ok (stmts, i') →
    (∀ x ∈ stmtsRev, FlagOK x) → ∀ x ∈ stmts, FlagOK x := by
  intro fuel
  induction fuel with
  | zero => intro i sr cb stmts i' h; simp [parseFileLoop] at h
  | succ n ih =>
    intro i sr cb stmts i' h hsr
    have hcons : ∀ y, FlagOK y → ∀ x ∈ y :: sr, FlagOK x := by
      intro y hy x hx
      rcases List.mem_cons.1 hx with rfl | hx
      · exact hy
      · exact hsr x hx
    unfold parseFileLoop at h
    split at h
    · cases h1 : lex i with
      | error e1 => simp [h1, bind, Except.bind] at h
      | ok v =>
        simp only [h1, bind, Except.bind] at h
        split at h
        · exact ih _ _ _ _ _ h (hcons (.commentBlock _) trivial)
        · exact ih _ _ _ _ _ h hsr
    · cases h1 : lex i with
      | error e1 => simp [h1, bind, Except.bind] at h
      | ok v =>
        simp only [h1, bind, Except.bind] at h
        exact ih _ _ _ _ _ h hsr
    · split at h
      · simp only [Except.ok.injEq, Prod.mk.injEq] at h
        obtain ⟨rfl, _⟩ := h
        intro x hx
        exact hcons (.commentBlock _) trivial x (List.mem_reverse.1 hx)
      · simp only [Except.ok.injEq, Prod.mk.injEq] at h
        obtain ⟨rfl, _⟩ := h
        intro x hx
        exact hsr x (List.mem_reverse.1 hx)
    · cases hp : parseStmt (n + 1) i with
      | error e1 => simp [hp, bind, Except.bind] at h
      | ok v =>
        have hf := parseStmt_flag (show parseStmt (n + 1) i = .ok (v.1, v.2) by rw [hp])
        simp only [hp, bind, Except.bind] at h
        split at h
        · exact ih _ _ _ _ _ h (hcons _ (flagOK_setComments _ _ hf))
        · exact ih _ _ _ _ _ h (hcons _ hf)

theorem parseFile_flag {data : Bytes} {stmts : List Expr} {i' : Input} (h : parseFile data = .ok (stmts, i')) :
    ∀ x ∈ stmts, FlagOK x := by
  unfold parseFile at h
  cases hr : readToken (newInput data) with
  | error e => simp [hr, bind, Except.bind] at h
  | ok i0 =>
    simp only [hr, bind, Except.bind] at h
    exact parseFileLoop_flag _ _ _ _ _ _ h (by intro x hx; cases hx)

/-! ### comment assignment keeps the flags -/

theorem preLines_flag : ∀ (ls : List Line) (line : List Comment), (∀ l ∈ ls, l.inBlock = true) →
    ∀ l ∈ (preLines ls line).1, l.inBlock = true := by
  intro ls
  induction ls with
  | nil => intro line _ l hl; simp [preLines] at hl
  | cons l0 rest ih =>
    intro line h l hl
    unfold preLines at hl
    simp only [List.mem_cons] at hl
    rcases hl with rfl | hl
    · exact h l0 List.mem_cons_self
    · exact ih _ (fun x hx => h x (List.mem_cons_of_mem _ hx)) l hl

theorem postLinesRev_flag : ∀ (ls : List Line) (suf : List Comment), (∀ l ∈ ls, l.inBlock = true) →
    ∀ l ∈ (postLinesRev ls suf).1, l.inBlock = true := by
  intro ls
  induction ls with
  | nil => intro line _ l hl; simp [postLinesRev] at hl
  | cons l0 rest ih =>
    intro line h l hl
    unfold postLinesRev at hl
    simp only [List.mem_cons] at hl
    rcases hl with rfl | hl
    · exact h l0 List.mem_cons_self
    · exact ih _ (fun x hx => h x (List.mem_cons_of_mem _ hx)) l hl

theorem preStmt_flag (s : Expr) (line : List Comment) (h : FlagOK s) : FlagOK (preStmt s line).1 := by
  cases s with
  | lineBlock b =>
    unfold preStmt
    simp only [FlagOK] at h ⊢
    exact preLines_flag _ _ h
  | line x => simpa [preStmt, Expr.setComments, FlagOK] using h
  | commentBlock x => simp [preStmt, Expr.setComments, FlagOK]
  | lparen x => simp [preStmt, Expr.setComments, FlagOK]
  | rparen x => simp [preStmt, Expr.setComments, FlagOK]

theorem postStmt_flag (s : Expr) (suf : List Comment) (h : FlagOK s) : FlagOK (postStmt s suf).1 := by
  cases s with
  | lineBlock b =>
    unfold postStmt
    simp only [FlagOK] at h ⊢
    intro l hl
    exact postLinesRev_flag _ _ (fun x hx => h x (List.mem_reverse.1 hx)) l (List.mem_reverse.1 hl)
  | line x => simpa [postStmt, Expr.setComments, FlagOK] using h
  | commentBlock x => simp [postStmt, Expr.setComments, FlagOK]
  | lparen x => simp [postStmt, Expr.setComments, FlagOK]
  | rparen x => simp [postStmt, Expr.setComments, FlagOK]

theorem preStmts_flag : ∀ (ss : List Expr) (line : List Comment), (∀ x ∈ ss, FlagOK x) →
    ∀ x ∈ (preStmts ss line).1, FlagOK x := by
  intro ss
  induction ss with
  | nil => intro line _ x hx; simp [preStmts] at hx
  | cons s rest ih =>
    intro line h x hx
    unfold preStmts at hx
    simp only [List.mem_cons] at hx
    rcases hx with rfl | hx
    · exact preStmt_flag _ _ (h s List.mem_cons_self)
    · exact ih _ (fun y hy => h y (List.mem_cons_of_mem _ hy)) x hx

theorem postStmtsRev_flag : ∀ (ss : List Expr) (suf : List Comment), (∀ x ∈ ss, FlagOK x) →
    ∀ x ∈ (postStmtsRev ss suf).1, FlagOK x := by
  intro ss
  induction ss with
  | nil => intro line _ x hx; simp [postStmtsRev] at hx
  | cons s rest ih =>
    intro line h x hx
    unfold postStmtsRev at hx
    simp only [List.mem_cons] at hx
    rcases hx with rfl | hx
    · exact postStmt_flag _ _ (h s List.mem_cons_self)
    · exact ih _ (fun y hy => h y (List.mem_cons_of_mem _ hy)) x hx

theorem assignComments_flag (f : FileSyntax) (cs : List Comment) (h : ∀ x ∈ f.stmts, FlagOK x) :
    ∀ x ∈ (assignComments f cs).stmts, FlagOK x := by
  unfold assignComments
  simp only
  intro x hx
  refine postStmtsRev_flag _ _ ?_ x (List.mem_reverse.1 hx)
  intro y hy
  exact preStmts_flag _ _ h y (List.mem_reverse.1 hy)

/-- **the `inBlock` flags of a parsed tree** -/
theorem parse_flags {name data : Bytes} {t : FileSyntax} (h : parse name data = .ok t) : ∀ x ∈ t.stmts, FlagOK x := by
  unfold parse at h
  cases hp : parseFile data with
  | error e => simp [hp, bind, Except.bind] at h
  | ok v =>
    simp only [hp, bind, Except.bind, Except.ok.injEq] at h
    subst h
    exact assignComments_flag _ _ (parseFile_flag (show parseFile data = .ok (v.1, v.2) by rw [hp]))

/-- the parser only produces comment blocks, lines and line blocks as statements -/
def StmtKind : Expr → Prop
  | .lparen _ => False
  | .rparen _ => False
  | _ => True

end ModVerif.Proofs.EditMore
