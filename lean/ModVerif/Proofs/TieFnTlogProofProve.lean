/-
  Tie helpers (4): the recursive provers `leafProof` / `treeProof` of the generated code compute the model's
  `leafProofF` / `treeProofF` (hash part of ProveRecord / ProveTree), panic cases included.
-/
import ModVerif.Proofs.TieFnTlogProofHash
namespace ModVerif.Tie.FnTlogProof
open ModVerif ModVerif.GoRt ModVerif.GoRtList

section
variable {H : Type} [DecidableEq H] [Inhabited H] (node : H → H → H)

theorem leafProof_ok : ∀ (fuel f : Nat) (lo hi n : Nat) (hashes : List H),
    hi < 2 ^ 63 → hi - lo ≤ f → hi - lo + 1 ≤ fuel →
    Generated.Tlog.leafProof node fuel (lo : Int) (hi : Int) (n : Int) hashes =
      toM (Tlog.leafProofF node f lo hi n hashes) := by
  intro fuel
  induction fuel with
  | zero => intro f lo hi n hashes _ _ h; omega
  | succ fuel ih =>
    intro f lo hi n hashes h3 h4 h5
    unfold Generated.Tlog.leafProof
    by_cases hgd : lo ≤ n ∧ n < hi
    · obtain ⟨h1, h2⟩ := hgd
      obtain ⟨f, rfl⟩ : ∃ f', f = f' + 1 := ⟨f - 1, by omega⟩
      unfold Tlog.leafProofF
      have hg : (!(decide ((lo : Int) ≤ (n : Int)) && decide ((n : Int) < (hi : Int)))) = false := by
        simp; omega
      have hg' : (!(decide (lo ≤ n) && decide (n < hi))) = false := by simp; omega
      simp only [hg, hg', Bool.false_eq_true, if_false]
      rw [chk64_ok _ (by omega) (by omega)]
      simp only [ok_bind]
      by_cases hone : lo + 1 = hi
      · have e1 : decide ((lo : Int) + 1 = (hi : Int)) = true := decide_eq_true (by omega)
        have e2 : (lo + 1 == hi) = true := by simp [hone]
        simp only [e1, e2, if_true, pure_eq_ok, toM_ok]
      · have e1 : decide ((lo : Int) + 1 = (hi : Int)) = false := decide_eq_false (by omega)
        have e2 : (lo + 1 == hi) = false := by simp [hone]
        simp only [e1, e2, Bool.false_eq_true, if_false]
        have hsz : 1 < hi - lo := by omega
        have hk := Tlog.maxpow2_lt (hi - lo) hsz
        have hkp := Tlog.maxpow2_fst_pos (hi - lo)
        rw [chk64_ok _ (by omega) (by omega)]
        simp only [ok_bind]
        rw [maxpow2_ok_sub fuel lo hi (by omega) (by omega)]
        simp only [ok_bind]
        generalize (Tlog.maxpow2 (hi - lo)).1 = k at *
        rw [chk64_ok _ (by omega) (by omega)]
        simp only [ok_bind]
        rw [← Int.natCast_add]
        by_cases hlt : n < lo + k
        · have hlt' : decide ((n : Int) < ((lo + k : Nat) : Int)) = true := decide_eq_true (by omega)
          simp only [hlt', hlt, if_true]
          rw [ih f lo (lo + k) n hashes (by omega) (by omega) (by omega)]
          cases Tlog.leafProofF node f lo (lo + k) n hashes with
          | error e => rfl
          | ok a =>
            obtain ⟨p, hs⟩ := a
            simp only [toM_ok, ok_bind]
            rw [subTreeHash_ok node fuel (lo + k) hi hs h3 (by omega) (by omega)]
            cases Tlog.subTreeHash node (lo + k) hi hs with
            | error e => rfl
            | ok b => rfl
        · have hlt' : decide ((n : Int) < ((lo + k : Nat) : Int)) = false := decide_eq_false (by omega)
          simp only [hlt', hlt, Bool.false_eq_true, if_false]
          rw [subTreeHash_ok node fuel lo (lo + k) hashes (by omega) (by omega) (by omega)]
          cases Tlog.subTreeHash node lo (lo + k) hashes with
          | error e => rfl
          | ok b =>
            obtain ⟨th, hs⟩ := b
            simp only [toM_ok, ok_bind]
            rw [ih f (lo + k) hi n hs h3 (by omega) (by omega)]
            cases Tlog.leafProofF node f (lo + k) hi n hs with
            | error e => rfl
            | ok a => rfl
    · have hg : (!(decide ((lo : Int) ≤ (n : Int)) && decide ((n : Int) < (hi : Int)))) = true := by
        simp; omega
      have hg' : (!(decide (lo ≤ n) && decide (n < hi))) = true := by simp; omega
      simp only [hg, if_true, throw_eq_error]
      cases f with
      | zero => rfl
      | succ f => unfold Tlog.leafProofF; simp only [hg', if_true, toM_error]

theorem treeProof_ok : ∀ (fuel f : Nat) (lo hi n : Nat) (hashes : List H),
    hi < 2 ^ 63 → hi - lo ≤ f → hi - lo + 2 ≤ fuel →
    Generated.Tlog.treeProof node fuel (lo : Int) (hi : Int) (n : Int) hashes =
      toM (Tlog.treeProofF node f lo hi n hashes) := by
  intro fuel
  induction fuel with
  | zero => intro f lo hi n hashes _ _ h; omega
  | succ fuel ih =>
    intro f lo hi n hashes h3 h4 h5
    unfold Generated.Tlog.treeProof
    by_cases hgd : lo < n ∧ n ≤ hi
    · obtain ⟨h1, h2⟩ := hgd
      obtain ⟨f, rfl⟩ : ∃ f', f = f' + 1 := ⟨f - 1, by omega⟩
      unfold Tlog.treeProofF
      have hg : (!(decide ((lo : Int) < (n : Int)) && decide ((n : Int) ≤ (hi : Int)))) = false := by
        simp; omega
      have hg' : (!(decide (lo < n) && decide (n ≤ hi))) = false := by simp; omega
      simp only [hg, hg', Bool.false_eq_true, if_false]
      by_cases hone : n = hi
      · have e1 : decide ((n : Int) = (hi : Int)) = true := decide_eq_true (by omega)
        have e2 : (n == hi) = true := by simp [hone]
        simp only [e1, e2, if_true]
        by_cases hz : lo = 0
        · have e3 : decide ((lo : Int) = 0) = true := decide_eq_true (by omega)
          have e4 : (lo == 0) = true := by simp [hz]
          simp only [e3, e4, if_true, pure_eq_ok, toM_ok]
        · have e3 : decide ((lo : Int) = 0) = false := decide_eq_false (by omega)
          have e4 : (lo == 0) = false := by simp [hz]
          simp only [e3, e4, Bool.false_eq_true, if_false]
          rw [subTreeHash_ok node fuel lo hi hashes h3 (by omega) (by omega)]
          cases Tlog.subTreeHash node lo hi hashes with
          | error e => rfl
          | ok b => rfl
      · have e1 : decide ((n : Int) = (hi : Int)) = false := decide_eq_false (by omega)
        have e2 : (n == hi) = false := by simp [hone]
        simp only [e1, e2, Bool.false_eq_true, if_false]
        have hsz : 1 < hi - lo := by omega
        have hk := Tlog.maxpow2_lt (hi - lo) hsz
        have hkp := Tlog.maxpow2_fst_pos (hi - lo)
        rw [chk64_ok _ (by omega) (by omega)]
        simp only [ok_bind]
        rw [maxpow2_ok_sub fuel lo hi (by omega) (by omega)]
        simp only [ok_bind]
        generalize (Tlog.maxpow2 (hi - lo)).1 = k at *
        rw [chk64_ok _ (by omega) (by omega)]
        simp only [ok_bind]
        rw [← Int.natCast_add]
        by_cases hlt : n ≤ lo + k
        · have hlt' : decide ((n : Int) ≤ ((lo + k : Nat) : Int)) = true := decide_eq_true (by omega)
          simp only [hlt', hlt, if_true]
          rw [ih f lo (lo + k) n hashes (by omega) (by omega) (by omega)]
          cases Tlog.treeProofF node f lo (lo + k) n hashes with
          | error e => rfl
          | ok a =>
            obtain ⟨p, hs⟩ := a
            simp only [toM_ok, ok_bind]
            rw [subTreeHash_ok node fuel (lo + k) hi hs h3 (by omega) (by omega)]
            cases Tlog.subTreeHash node (lo + k) hi hs with
            | error e => rfl
            | ok b => rfl
        · have hlt' : decide ((n : Int) ≤ ((lo + k : Nat) : Int)) = false := decide_eq_false (by omega)
          simp only [hlt', hlt, Bool.false_eq_true, if_false]
          rw [subTreeHash_ok node fuel lo (lo + k) hashes (by omega) (by omega) (by omega)]
          cases Tlog.subTreeHash node lo (lo + k) hashes with
          | error e => rfl
          | ok b =>
            obtain ⟨th, hs⟩ := b
            simp only [toM_ok, ok_bind]
            rw [ih f (lo + k) hi n hs h3 (by omega) (by omega)]
            cases Tlog.treeProofF node f (lo + k) hi n hs with
            | error e => rfl
            | ok a => rfl
    · have hg : (!(decide ((lo : Int) < (n : Int)) && decide ((n : Int) ≤ (hi : Int)))) = true := by
        simp; omega
      have hg' : (!(decide (lo < n) && decide (n ≤ hi))) = true := by simp; omega
      simp only [hg, if_true, throw_eq_error]
      cases f with
      | zero => rfl
      | succ f => unfold Tlog.treeProofF; simp only [hg', if_true, toM_error]

end
end ModVerif.Tie.FnTlogProof
