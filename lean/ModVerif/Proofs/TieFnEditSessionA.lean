/-
  Composition of the FnEdit ties, part A (agent edit-session): the model side.

  * `opM`: the driver's decoding of an `EditSpec.Op` into the model's `Edit.Op` (`rev = false`: the map-iteration order
    `permOf false = id`, the order in which the regenerated code iterates its association-list maps);
  * `NR x`: an `Except EditErr` computation fails only with an error that is NOT a returned Go `error` (`nilDeref`,
    `conflictingVersions`, `badStatement`: Go panics) — proved for every model operation whose tie has the shape
    `| .error _ => … = .error .panic`;
  * the side conditions of the operation ties from the model invariant `Edit.P.Inv` (Proofs/EditPanicInv.lean):
    `ScalarsLive` (module / go / toolchain entries point at a line) and `InTree` (with live requirements).
-/
import ModVerif.Drv.Edit
import ModVerif.Proofs.EditPanicRun
import ModVerif.Proofs.TieFnEditSetQ
set_option linter.unusedSimpArgs false
set_option linter.unusedVariables false
namespace ModVerif.Tie.FnEditSessionA
open ModVerif ModVerif.Modfile ModVerif.Modfile.Edit

/-! ### decoding of the operations -/

abbrev toWant : EditSpec.Req → Want := Drv.Edit.M.toWant

/-- the model operation `Drv.Edit.M.decOp` makes of an `EditSpec.Op` and the reversal flag -/
def opR (rev : Bool) : EditSpec.Op → Edit.Op
  | .addModule p => .addModule p
  | .addGo v => .addGo v
  | .dropGo => .dropGo
  | .addToolchain n => .addToolchain n
  | .dropToolchain => .dropToolchain
  | .addGodebug k v => .addGodebug k v
  | .dropGodebug k => .dropGodebug k
  | .addRequire p v => .addRequire p v
  | .addNewRequire p v i => .addNewRequire p v i
  | .dropRequire p => .dropRequire p
  | .setRequire w => .setRequire (w.map toWant) rev
  | .setRequireSeparateIndirect w => .setRequireSeparateIndirect (w.map toWant) rev
  | .addExclude p v => .addExclude p v
  | .dropExclude p v => .dropExclude p v
  | .addReplace a b c d => .addReplace a b c d
  | .dropReplace a b => .dropReplace a b
  | .addRetract a b c => .addRetract a b c
  | .dropRetract a b => .dropRetract a b
  | .addTool p => .addTool p
  | .dropTool p => .dropTool p
  | .sortBlocks => .sortBlocks
  | .cleanup => .cleanup
  | .addUse d m => .addUse d m
  | .addNewUse d m => .addNewUse d m
  | .dropUse d => .dropUse d
  | .setUse w => .setUse w rev

/-- the model operation the drivers run for an `EditSpec.Op` (`Drv.Edit.M.decOp` with `rev = false`: the map-iteration
    order `permOf false = id`) -/
abbrev opM : EditSpec.Op → Edit.Op := opR false

/-- the reversal flag `Drv.Edit.M.decOp` reads off a three-token operation -/
def revOf (toks : List String) : Bool :=
  match toks with
  | [_, _, f] => f == "1"
  | _ => false

/-- `Drv.Edit.M.decOp` is `Drv.Edit.decOp` followed by `opR` with the flag of the token list -/
theorem decOp_eq (toks : List String) : Drv.Edit.M.decOp toks = (Drv.Edit.decOp toks).map (opR (revOf toks)) := by
  unfold Drv.Edit.M.decOp
  cases Drv.Edit.decOp toks with
  | none => rfl
  | some op => cases op <;> rfl

theorem opName_opM (op : EditSpec.Op) : Drv.Edit.M.opName (opM op) = Drv.GenEdit.opNameD op := by
  cases op <;> rfl

/-! ### errors that are Go panics -/

/-- the computation fails only with errors that are not returned Go errors -/
def NR {α : Type} (x : Except EditErr α) : Prop := ∀ err, x = .error err → err.isReturned = false

theorem NR_ok {α : Type} (a : α) : NR (.ok a : Except EditErr α) := fun _ h => by cases h
theorem NR_pure {α : Type} (a : α) : NR (pure a : Except EditErr α) := fun _ h => by cases h
theorem NR_nilDeref {α : Type} : NR (.error .nilDeref : Except EditErr α) := fun _ h => by cases h; rfl
theorem NR_conflicting {α : Type} : NR (.error .conflictingVersions : Except EditErr α) := fun _ h => by cases h; rfl
theorem NR_badStatement {α : Type} : NR (.error .badStatement : Except EditErr α) := fun _ h => by cases h; rfl

theorem NR_bind {α β : Type} {x : Except EditErr α} {f : α → Except EditErr β} (hx : NR x) (hf : ∀ a, NR (f a)) :
    NR (x >>= f) := by
  intro err h
  cases x with
  | error e => simp only [bind, Except.bind] at h; cases h; exact hx _ rfl
  | ok a => exact hf a err h

theorem NR_deref (id : Nat) : NR (deref id) := by
  unfold deref
  split
  · exact NR_nilDeref
  · exact NR_ok _

/-- one step of the syntactic closure proof: leaves, `bind`, binder introduction, case split -/
macro "nr_step" : tactic => `(tactic| first
  | exact NR_pure _ | exact NR_ok _ | exact NR_nilDeref | exact NR_conflicting | exact NR_badStatement
  | exact NR_deref _ | assumption | refine NR_bind ?_ (fun _ => ?_) | split)

theorem NR_firstRest {α : Type} (m : α → Bool) (id : α → Nat) (upd : α → α) (cleared : α) :
    ∀ (l : List α) (need : Bool), NR (firstRest m id upd cleared l need)
  | [], _ => NR_ok _
  | x :: xs, need => by
    have ih := NR_firstRest m id upd cleared xs
    unfold firstRest
    split
    · refine NR_bind (NR_deref _) fun i => NR_bind (ih false) fun _ => ?_
      repeat nr_step
    · refine NR_bind (ih need) fun _ => ?_
      repeat nr_step

theorem NR_clearAll {α : Type} (m : α → Bool) (id : α → Nat) (cleared : α) : ∀ l : List α, NR (clearAll m id cleared l)
  | [] => NR_ok _
  | x :: xs => by
    have ih := NR_clearAll m id cleared xs
    unfold clearAll
    repeat nr_step

theorem NR_addGodebug (e : EFile) (k v : Bytes) : NR (Edit.addGodebug e k v) := by
  unfold Edit.addGodebug addGodebugCore
  refine NR_bind (NR_bind (NR_firstRest _ _ _ _ _ _) fun _ => ?_) (fun _ => ?_) <;> repeat nr_step

theorem NR_dropGodebug (e : EFile) (k : Bytes) : NR (Edit.dropGodebug e k) := by
  unfold Edit.dropGodebug
  refine NR_bind (NR_clearAll _ _ _ _) fun _ => ?_; repeat nr_step

theorem NR_addRequire (e : EFile) (p v : Bytes) : NR (Edit.addRequire e p v) := by
  unfold Edit.addRequire
  refine NR_bind (NR_firstRest _ _ _ _ _ _) fun _ => ?_; repeat nr_step

theorem NR_dropRequire (e : EFile) (p : Bytes) : NR (Edit.dropRequire e p) := by
  unfold Edit.dropRequire
  refine NR_bind (NR_clearAll _ _ _ _) fun _ => ?_; repeat nr_step

theorem NR_dropExclude (e : EFile) (p v : Bytes) : NR (Edit.dropExclude e p v) := by
  unfold Edit.dropExclude
  refine NR_bind (NR_clearAll _ _ _ _) fun _ => ?_; repeat nr_step

theorem NR_addReplace (e : EFile) (a b c d : Bytes) : NR (Edit.addReplace e a b c d) := by
  unfold Edit.addReplace addReplaceCore
  refine NR_bind (NR_bind (NR_firstRest _ _ _ _ _ _) fun _ => ?_) (fun _ => ?_) <;> repeat nr_step

theorem NR_dropReplace (e : EFile) (a b : Bytes) : NR (Edit.dropReplace e a b) := by
  unfold Edit.dropReplace dropReplaceCore
  refine NR_bind (NR_bind (NR_clearAll _ _ _ _) fun _ => ?_) (fun _ => ?_) <;> repeat nr_step

theorem NR_dropRetract (e : EFile) (vi : VersionInterval) : NR (Edit.dropRetract e vi) := by
  unfold Edit.dropRetract
  refine NR_bind (NR_clearAll _ _ _ _) fun _ => ?_; repeat nr_step

theorem NR_dropTool (e : EFile) (p : Bytes) : NR (Edit.dropTool e p) := by
  unfold Edit.dropTool
  refine NR_bind (NR_clearAll _ _ _ _) fun _ => ?_; repeat nr_step

theorem NR_needMap (strict : Bool) : ∀ (ws acc : List Want), NR (needMap strict ws acc)
  | [], acc => NR_ok _
  | w :: ws, acc => by
    have ih := NR_needMap strict ws
    unfold needMap
    split
    · split
      · exact NR_conflicting
      · exact ih _
    · exact ih _

theorem NR_setRequireLoop : ∀ (rs : List Require) (need : List Want) (syn : FileSyntax), NR (setRequireLoop rs need syn)
  | [], _, _ => NR_ok _
  | r :: rs, need, syn => by
    have ih := NR_setRequireLoop rs
    unfold setRequireLoop
    split
    · refine NR_bind (NR_deref _) fun i => NR_bind (ih _ _) fun _ => ?_; repeat nr_step
    · refine NR_bind (NR_deref _) fun i => NR_bind (ih _ _) fun _ => ?_; repeat nr_step

theorem NR_setRequire (e : EFile) (req : List Want) (perm : List Want → List Want) : NR (setRequire e req perm) := by
  unfold setRequire
  refine NR_bind (NR_needMap _ _ _) fun need => NR_bind (NR_setRequireLoop _ _ _) fun _ => ?_; repeat nr_step

theorem NR_ensureBlock (stmts : List Expr) (i : Nat) : NR (ensureBlock stmts i) := by
  unfold ensureBlock
  repeat nr_step

theorem NR_sepLoop (ctx : SepCtx) (need : List Want) : ∀ (rs : List Require) (hv : List Bytes) (syn : FileSyntax) (next : Nat),
    NR (sepLoop ctx need rs hv syn next)
  | [], _, _, _ => NR_ok _
  | r :: rs, hv, syn, next => by
    have ih := NR_sepLoop ctx need rs
    unfold sepLoop
    split
    · split
      · refine NR_bind (NR_deref _) fun i => NR_bind (ih _ _ _) fun _ => ?_; repeat nr_step
      · refine NR_bind (NR_deref _) fun i => NR_bind (ih _ _ _) fun _ => ?_; repeat nr_step
    · refine NR_bind (NR_deref _) fun i => NR_bind (ih _ _ _) fun _ => ?_; repeat nr_step

theorem NR_setRequireSeparateIndirect (e : EFile) (req : List Want) (perm : List Want → List Want) :
    NR (setRequireSeparateIndirect e req perm) := by
  unfold setRequireSeparateIndirect
  have h1 := NR_ensureBlock
  have h2 := NR_needMap
  have h3 := NR_sepLoop
  dsimp only
  repeat (first | exact h1 _ _ | exact h2 _ _ _ | exact h3 _ _ _ _ _ _ | nr_step)

/-! ### the side conditions of the ties from the model invariant -/

/-- the optional entries `f.Module`, `f.Go`, `f.Toolchain` point at a line (hypotheses `hm` / `hg` / `ht` of Tie/FnEditStmt) -/
structure ScalarsLive (e : EFile) : Prop where
  module : ∀ m, e.f.module = some m → m.lineId ≠ 0
  go : ∀ g, e.f.go = some g → g.lineId ≠ 0
  toolchain : ∀ t, e.f.toolchain = some t → t.lineId ≠ 0

theorem scalarsLive_of_Inv {e : EFile} (hi : P.Inv e) : ScalarsLive e := by
  refine ⟨fun m hm => hi.entry_id_pos (entM m) ?_, fun g hg => hi.entry_id_pos (entGo g) ?_,
    fun t ht => hi.entry_id_pos (entTc t) ?_⟩
  · simp [P.entries, hm]
  · simp [P.entries, hg]
  · simp [P.entries, ht]

open ModVerif.Tie.FnEditSetQ (InTree)

/-- with the invariant, a live requirement's line is a line of the tree -/
theorem inTree_of_Inv_live {e : EFile} (hi : P.Inv e) (hl : ∀ r ∈ e.f.require, liveRq r = true) : InTree e := by
  intro rq hrq _
  have hm : P.entRq rq ∈ P.entries e.f := by
    rw [P.entries_require]
    exact List.mem_append_right _ (List.mem_append_left _ ((mem_entsOf liveRq P.entRq).2 ⟨rq, hrq, hl rq hrq, rfl⟩))
  obtain ⟨v, hv, hid, _⟩ := hi.mtch.cover _ hm
  have := view_id_mem_treeIds hv
  rw [hid] at this
  exact this

end ModVerif.Tie.FnEditSessionA
