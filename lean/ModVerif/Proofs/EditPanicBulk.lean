/-
  EditPanic, part 2 — the two bulk requirement setters preserve the tree invariant without the marker clause (`P.Inv`), with
  NO hypothesis on the end-of-line comments: the loops of SetRequire (`setRequireLoop_inv`) and of SetRequireSeparateIndirect
  (`sepLoop_inv`: keep / remove / move steps), the missing entries (`addNewRequire`, `addSepNew`), SortBlocks.
  Re-run of Proofs/EditRefineInvBulk.lean and Proofs/EditMoreSep{E,F}.lean on `P.entRq`; the only step of those proofs that
  used `MarkerSettable` — `setIndirect` makes the marker agree with the typed `Indirect` flag — has no counterpart here.
-/
import ModVerif.Proofs.EditPanicInv
set_option linter.unusedSimpArgs false
namespace ModVerif.Modfile.Edit.P
open ModVerif ModVerif.Modfile

/-! ### SetRequire -/

/-- **the loop of SetRequire on the tree invariant** -/
theorem setRequireLoop_inv {A C : List Ent} (next : Nat) (rs : List Require) :
    ∀ (done : List Require) (need : List Want) (syn : FileSyntax) (rs' : List Require) (need' : List Want) (syn' : FileSyntax),
      GoodWant need → (∀ r ∈ rs, liveRq r = true) → TreeWF syn.stmts next →
      Match (A ++ (entsOf liveRq entRq (done ++ rs) ++ C)) (view syn.stmts) →
      setRequireLoop rs need syn = .ok (rs', need', syn') →
      TreeWF syn'.stmts next ∧ Match (A ++ (entsOf liveRq entRq (done ++ rs') ++ C)) (view syn'.stmts) := by
  induction rs with
  | nil =>
    intro done need syn rs' need' syn' _ _ hw hm h
    simp only [setRequireLoop, Except.ok.injEq, Prod.mk.injEq] at h
    rcases h with ⟨rfl, _, rfl⟩
    exact ⟨hw, hm⟩
  | cons r rs ih =>
    intro done need syn rs' need' syn' hg hlive hw hm h
    have hlr := hlive r List.mem_cons_self
    have hndK : (liveIds liveRq (·.lineId) (done ++ r :: rs)).Nodup := by
      rw [← entsOf_ids (·.lineId) liveRq entRq (fun _ => rfl)]; exact seg_nodup hm
    have hne := mid_id_ne liveRq (·.lineId) done rs r hndK hlr
    -- the line of `r`
    rcases hm.cover (entRq r) (List.mem_append_right _ (List.mem_append_left _
      ((mem_entsOf_mid liveRq entRq done rs r _).2 (Or.inr ⟨hlr, rfl⟩)))) with ⟨v0, hv0, hv0id, hacc0⟩
    simp only [entRq] at hv0id hacc0
    unfold setRequireLoop at h
    cases hf : need.find? (fun a => a.path == r.mod.path) with
    | some w =>
      simp only [hf, bind, Except.bind] at h
      cases hd : deref r.lineId with
      | error err => simp [hd] at h
      | ok i =>
        have hi : i = r.lineId := by unfold deref at hd; split at hd <;> simp at hd; exact hd.symm
        subst hi
        simp only [hd] at h
        cases hr : setRequireLoop rs (need.filter (fun a => a.path != r.mod.path))
            (syn.updateLine r.lineId (fun l => setIndirectLine w.indirect (setVersionLine w.vers l))) with
        | error err => simp [hr] at h
        | ok res =>
          rcases res with ⟨rs'', need'', syn''⟩
          simp only [hr, pure, Except.pure, Except.ok.injEq, Prod.mk.injEq] at h
          rcases h with ⟨rfl, _, rfl⟩
          have hview := mem_view_setReq syn next r.lineId w.vers w.indirect hw v0 hv0 hv0id _ _ hacc0
          have hw1 := hw.setReq r.lineId w.vers w.indirect
          have hsub : (need.filter (fun a => a.path != r.mod.path)).Sublist need := List.filter_sublist
          -- the updated entry
          have hlr' : liveRq { r with mod := { r.mod with version := w.vers }, indirect := w.indirect } = true := hlr
          have hm1 : Match (A ++ (entsOf liveRq entRq (done ++
              { r with mod := { r.mod with version := w.vers }, indirect := w.indirect } :: rs) ++ C))
              (view (syn.updateLine r.lineId (fun l => setIndirectLine w.indirect (setVersionLine w.vers l))).stmts) := by
            refine Match.frame [r.lineId] hm ?_ ?_ ?_ ?_ ?_ ?_ ?_
            · intro v hv
              simp only [List.mem_singleton] at hv
              rw [hview v]
              constructor
              · rintro (⟨_, a⟩ | rfl)
                · exact a
                · exact absurd rfl hv
              · intro a; exact Or.inl ⟨hv, a⟩
            · intro j hj
              rw [List.mem_singleton.1 hj]
              left
              rw [entsOf_ids (·.lineId) liveRq entRq (fun _ => rfl)]
              exact (mem_liveIds liveRq (·.lineId)).2 ⟨r, List.mem_append_right _ List.mem_cons_self, hlr, rfl⟩
            · rw [entsOf_ids (·.lineId) liveRq entRq (fun _ => rfl)]
              have : liveIds liveRq (·.lineId) (done ++ { r with mod := { r.mod with version := w.vers }, indirect := w.indirect } :: rs)
                  = liveIds liveRq (·.lineId) (done ++ r :: rs) := by
                simp only [liveIds_append, liveIds_cons, hlr, hlr', if_true]
              rw [this]; exact hndK
            · intro en' hen'
              left
              rcases (mem_entsOf_mid liveRq entRq done rs _ en').1 hen' with ⟨y, hy, hly, rfl⟩ | ⟨_, rfl⟩
              · exact List.mem_map.2 ⟨entRq y, (mem_entsOf_mid liveRq entRq done rs r _).2 (Or.inl ⟨y, hy, hly, rfl⟩), rfl⟩
              · exact List.mem_map.2 ⟨entRq r, (mem_entsOf_mid liveRq entRq done rs r _).2 (Or.inr ⟨hlr, rfl⟩), rfl⟩
            · intro en' hen'
              rcases (mem_entsOf_mid liveRq entRq done rs _ en').1 hen' with ⟨y, hy, hly, rfl⟩ | ⟨_, rfl⟩
              · rcases hm.cover (entRq y) (List.mem_append_right _ (List.mem_append_left _
                  ((mem_entsOf_mid liveRq entRq done rs r _).2 (Or.inl ⟨y, hy, hly, rfl⟩)))) with ⟨v, hv, hvid, hacc⟩
                refine ⟨v, (hview v).2 (Or.inl ⟨?_, hv⟩), hvid, hacc⟩
                rw [hvid]; exact hne y hy hly
              · refine ⟨⟨r.lineId, [B "require", autoQuote r.mod.path, w.vers], sfxAfter w.indirect v0.suffix⟩,
                  (hview _).2 (Or.inr rfl), rfl, ?_⟩
                rfl
            · intro v _ hs
              refine ⟨entRq { r with mod := { r.mod with version := w.vers }, indirect := w.indirect },
                (mem_entsOf_mid liveRq entRq done rs _ _).2 (Or.inr ⟨hlr', rfl⟩), ?_⟩
              rw [List.mem_singleton.1 hs]; rfl
            · intro en hen hs
              simp only [List.mem_singleton] at hs
              rcases (mem_entsOf_mid liveRq entRq done rs r en).1 hen with ⟨y, hy, hly, rfl⟩ | ⟨_, rfl⟩
              · exact ⟨entRq y, (mem_entsOf_mid liveRq entRq done rs _ _).2 (Or.inl ⟨y, hy, hly, rfl⟩), rfl⟩
              · exact absurd rfl hs
          have hm1' : Match (A ++ (entsOf liveRq entRq ((done ++
              [{ r with mod := { r.mod with version := w.vers }, indirect := w.indirect }]) ++ rs) ++ C))
              (view (syn.updateLine r.lineId (fun l => setIndirectLine w.indirect (setVersionLine w.vers l))).stmts) := by
            rw [List.append_assoc]; exact hm1
          rcases ih _ _ _ _ _ _ (hg.sublist hsub) (fun r2 hr2 => hlive r2 (List.mem_cons_of_mem _ hr2)) hw1 hm1' hr
            with ⟨r1, r2⟩
          refine ⟨r1, ?_⟩
          rw [List.append_assoc] at r2
          exact r2
    | none =>
      simp only [hf, bind, Except.bind] at h
      cases hd : deref r.lineId with
      | error err => simp [hd] at h
      | ok i =>
        have hi : i = r.lineId := by unfold deref at hd; split at hd <;> simp at hd; exact hd.symm
        subst hi
        simp only [hd] at h
        cases hr : setRequireLoop rs (need.filter (fun a => !a.path.isEmpty)) (markRemoved syn r.lineId) with
        | error err => simp [hr] at h
        | ok res =>
          rcases res with ⟨rs'', need'', syn''⟩
          simp only [hr, pure, Except.pure, Except.ok.injEq, Prod.mk.injEq] at h
          rcases h with ⟨rfl, _, rfl⟩
          have hview := mem_view_markRemoved syn r.lineId hw.nodup
          have hw1 := hw.markRemoved r.lineId
          have hsub : (need.filter (fun a => !a.path.isEmpty)).Sublist need := List.filter_sublist
          have hm1 : Match (A ++ (entsOf liveRq entRq (done ++ clearedRequire :: rs) ++ C))
              (view (markRemoved syn r.lineId).stmts) := by
            refine Match.frame [r.lineId] hm ?_ ?_ ?_ ?_ ?_ ?_ ?_
            · intro v hv
              simp only [List.mem_singleton] at hv
              rw [hview v]
              exact ⟨fun a => a.1, fun a => ⟨a, hv⟩⟩
            · intro j hj
              rw [List.mem_singleton.1 hj]
              left
              rw [entsOf_ids (·.lineId) liveRq entRq (fun _ => rfl)]
              exact (mem_liveIds liveRq (·.lineId)).2 ⟨r, List.mem_append_right _ List.mem_cons_self, hlr, rfl⟩
            · rw [entsOf_ids (·.lineId) liveRq entRq (fun _ => rfl)]
              have hsl : (liveIds liveRq (·.lineId) (done ++ clearedRequire :: rs)).Sublist (liveIds liveRq (·.lineId) (done ++ r :: rs)) := by
                simp only [liveIds_append, liveIds_cons, hlr, if_true]
                refine List.Sublist.append (List.Sublist.refl _) ?_
                have : liveRq clearedRequire = false := rfl
                simp only [this, Bool.false_eq_true, if_false]
                exact List.Sublist.cons _ (List.Sublist.refl _)
              exact List.Nodup.sublist hsl hndK
            · intro en' hen'
              left
              rcases (mem_entsOf_mid liveRq entRq done rs _ en').1 hen' with ⟨y, hy, hly, rfl⟩ | ⟨hc, _⟩
              · exact List.mem_map.2 ⟨entRq y, (mem_entsOf_mid liveRq entRq done rs r _).2 (Or.inl ⟨y, hy, hly, rfl⟩), rfl⟩
              · exact absurd hc (by decide)
            · intro en' hen'
              rcases (mem_entsOf_mid liveRq entRq done rs _ en').1 hen' with ⟨y, hy, hly, rfl⟩ | ⟨hc, _⟩
              · rcases hm.cover (entRq y) (List.mem_append_right _ (List.mem_append_left _
                  ((mem_entsOf_mid liveRq entRq done rs r _).2 (Or.inl ⟨y, hy, hly, rfl⟩)))) with ⟨v, hv, hvid, hacc⟩
                refine ⟨v, (hview v).2 ⟨hv, ?_⟩, hvid, hacc⟩
                rw [hvid]; exact hne y hy hly
              · exact absurd hc (by decide)
            · intro v hv hs
              exact absurd (List.mem_singleton.1 hs) ((hview v).1 hv).2
            · intro en hen hs
              simp only [List.mem_singleton] at hs
              rcases (mem_entsOf_mid liveRq entRq done rs r en).1 hen with ⟨y, hy, hly, rfl⟩ | ⟨_, rfl⟩
              · exact ⟨entRq y, (mem_entsOf_mid liveRq entRq done rs _ _).2 (Or.inl ⟨y, hy, hly, rfl⟩), rfl⟩
              · exact absurd rfl hs
          have hm1' : Match (A ++ (entsOf liveRq entRq ((done ++ [clearedRequire]) ++ rs) ++ C))
              (view (markRemoved syn r.lineId).stmts) := by
            rw [List.append_assoc]; exact hm1
          rcases ih _ _ _ _ _ _ (hg.sublist hsub) (fun r2 hr2 => hlive r2 (List.mem_cons_of_mem _ hr2)) hw1 hm1' hr
            with ⟨r1, r2⟩
          refine ⟨r1, ?_⟩
          rw [List.append_assoc] at r2
          exact r2

theorem foldl_addNewRequire_inv (ws : List Want) : ∀ e : EFile, Inv e → (∀ w ∈ ws, w.path ≠ []) →
    Inv (ws.foldl (fun e w => addNewRequire e w.path w.vers w.indirect) e) := by
  induction ws with
  | nil => intro e hi _; exact hi
  | cons w ws ih =>
    intro e hi hne
    exact ih _ (addNewRequire_inv e w.path w.vers w.indirect (hne w List.mem_cons_self) hi)
      (fun x hx => hne x (List.mem_cons_of_mem _ hx))

/-- **SetRequire preserves the tree invariant** — when every typed requirement is live (a Cleanup has just run, as the
    property prescribes); no hypothesis on the end-of-line comments (the full `Inv` needs `MarkerSettable`, which
    excludes exactly the recorded finding `C16_violated_indirect_marker_survives`). -/
theorem setRequire_inv (e e' : EFile) (req : List Want) (perm : List Want → List Want) (hperm : ∀ l, (perm l).Perm l)
    (hg : GoodWant req) (hi : Inv e) (hlive : ∀ r ∈ e.f.require, liveRq r = true)
    (h : setRequire e req perm = .ok e') : Inv e' := by
  unfold setRequire at h
  rw [needMap_distinct true req [] (by simpa using hg.1)] at h
  simp only [bind, Except.bind, List.nil_append] at h
  cases hr : setRequireLoop e.f.require req e.f.syn with
  | error err => simp [hr] at h
  | ok res =>
    rcases res with ⟨rq, need', syn'⟩
    simp only [hr, pure, Except.pure, Except.ok.injEq] at h
    subst h
    rcases setRequireLoop_abs _ _ _ _ _ _ hg hr with ⟨_, hsub⟩
    rcases setRequireLoop_inv (A := segA_require e.f) (C := segC_require e.f) e.next e.f.require [] req e.f.syn rq need' syn'
      hg hlive hi.tree (by simp only [List.nil_append]; rw [← entries_require]; exact hi.mtch) hr with ⟨hw', hm'⟩
    have hi1 : Inv (⟨{ e.f with require := rq, syn := syn' }, e.next⟩ : EFile) := by
      refine ⟨hw', ?_, hi.tinv.of_same rfl rfl rfl (Nat.le_refl _)⟩
      simp only [List.nil_append] at hm'
      rw [entries_require]; exact hm'
    have hne : ∀ w ∈ perm need', w.path ≠ [] := fun w hw => hg.2 w (hsub.subset ((hperm need').subset hw))
    exact sortBlocks_inv _ (foldl_addNewRequire_inv (perm need') _ hi1 hne)

/-! ### the three steps of the loops of the bulk requirement setters, on `Match` -/

/-- a kept requirement: its line gets the new version and the requested marker -/
theorem Match.setReqStep {A C : List Ent} {done rs : List Require} {r : Require} {syn : FileSyntax} {next : Nat}
    (vers : Bytes) (ind : Bool) (hw : TreeWF syn.stmts next) (hlr : liveRq r = true)
    (hm : Match (A ++ (entsOf liveRq entRq (done ++ r :: rs) ++ C)) (view syn.stmts)) :
    Match (A ++ (entsOf liveRq entRq (done ++ { r with mod := { r.mod with version := vers }, indirect := ind } :: rs) ++ C))
      (view (syn.updateLine r.lineId (fun l => setIndirectLine ind (setVersionLine vers l))).stmts) ∧
    ∃ v0 ∈ view syn.stmts, v0.id = r.lineId ∧
      (∀ v, v ∈ view (syn.updateLine r.lineId (fun l => setIndirectLine ind (setVersionLine vers l))).stmts ↔
        (v.id ≠ r.lineId ∧ v ∈ view syn.stmts) ∨ v = ⟨r.lineId, [B "require", autoQuote r.mod.path, vers], sfxAfter ind v0.suffix⟩) := by
  have hndK : (liveIds liveRq (·.lineId) (done ++ r :: rs)).Nodup := by
    rw [← entsOf_ids (·.lineId) liveRq entRq (fun _ => rfl)]; exact seg_nodup hm
  have hne := mid_id_ne liveRq (·.lineId) done rs r hndK hlr
  rcases hm.cover (entRq r) (List.mem_append_right _ (List.mem_append_left _
    ((mem_entsOf_mid liveRq entRq done rs r _).2 (Or.inr ⟨hlr, rfl⟩)))) with ⟨v0, hv0, hv0id, hacc0⟩
  simp only [entRq] at hv0id hacc0
  have hview := mem_view_setReq syn next r.lineId vers ind hw v0 hv0 hv0id _ _ hacc0
  have hlr' : liveRq { r with mod := { r.mod with version := vers }, indirect := ind } = true := hlr
  refine ⟨?_, v0, hv0, hv0id, hview⟩
  refine Match.frame [r.lineId] hm ?_ ?_ ?_ ?_ ?_ ?_ ?_
  · intro v hv
    simp only [List.mem_singleton] at hv
    rw [hview v]
    constructor
    · rintro (⟨_, a⟩ | rfl)
      · exact a
      · exact absurd rfl hv
    · intro a; exact Or.inl ⟨hv, a⟩
  · intro j hj
    rw [List.mem_singleton.1 hj]
    left
    rw [entsOf_ids (·.lineId) liveRq entRq (fun _ => rfl)]
    exact (mem_liveIds liveRq (·.lineId)).2 ⟨r, List.mem_append_right _ List.mem_cons_self, hlr, rfl⟩
  · rw [entsOf_ids (·.lineId) liveRq entRq (fun _ => rfl)]
    have : liveIds liveRq (·.lineId) (done ++ { r with mod := { r.mod with version := vers }, indirect := ind } :: rs)
        = liveIds liveRq (·.lineId) (done ++ r :: rs) := by
      simp only [liveIds_append, liveIds_cons, hlr, hlr', if_true]
    rw [this]; exact hndK
  · intro en' hen'
    left
    rcases (mem_entsOf_mid liveRq entRq done rs _ en').1 hen' with ⟨y, hy, hly, rfl⟩ | ⟨_, rfl⟩
    · exact List.mem_map.2 ⟨entRq y, (mem_entsOf_mid liveRq entRq done rs r _).2 (Or.inl ⟨y, hy, hly, rfl⟩), rfl⟩
    · exact List.mem_map.2 ⟨entRq r, (mem_entsOf_mid liveRq entRq done rs r _).2 (Or.inr ⟨hlr, rfl⟩), rfl⟩
  · intro en' hen'
    rcases (mem_entsOf_mid liveRq entRq done rs _ en').1 hen' with ⟨y, hy, hly, rfl⟩ | ⟨_, rfl⟩
    · rcases hm.cover (entRq y) (List.mem_append_right _ (List.mem_append_left _
        ((mem_entsOf_mid liveRq entRq done rs r _).2 (Or.inl ⟨y, hy, hly, rfl⟩)))) with ⟨v, hv, hvid, hacc⟩
      refine ⟨v, (hview v).2 (Or.inl ⟨?_, hv⟩), hvid, hacc⟩
      rw [hvid]; exact hne y hy hly
    · refine ⟨⟨r.lineId, [B "require", autoQuote r.mod.path, vers], sfxAfter ind v0.suffix⟩,
        (hview _).2 (Or.inr rfl), rfl, ?_⟩
      rfl
  · intro v _ hs
    refine ⟨entRq { r with mod := { r.mod with version := vers }, indirect := ind },
      (mem_entsOf_mid liveRq entRq done rs _ _).2 (Or.inr ⟨hlr', rfl⟩), ?_⟩
    rw [List.mem_singleton.1 hs]; rfl
  · intro en hen hs
    simp only [List.mem_singleton] at hs
    rcases (mem_entsOf_mid liveRq entRq done rs r en).1 hen with ⟨y, hy, hly, rfl⟩ | ⟨_, rfl⟩
    · exact ⟨entRq y, (mem_entsOf_mid liveRq entRq done rs _ _).2 (Or.inl ⟨y, hy, hly, rfl⟩), rfl⟩
    · exact absurd rfl hs

/-- a removed requirement: its line is marked removed, the entry cleared -/
theorem Match.removeStep {A C : List Ent} {done rs : List Require} {r : Require} {syn : FileSyntax} {next : Nat}
    (hw : TreeWF syn.stmts next) (hlr : liveRq r = true)
    (hm : Match (A ++ (entsOf liveRq entRq (done ++ r :: rs) ++ C)) (view syn.stmts)) :
    Match (A ++ (entsOf liveRq entRq (done ++ clearedRequire :: rs) ++ C)) (view (markRemoved syn r.lineId).stmts) := by
  have hndK : (liveIds liveRq (·.lineId) (done ++ r :: rs)).Nodup := by
    rw [← entsOf_ids (·.lineId) liveRq entRq (fun _ => rfl)]; exact seg_nodup hm
  have hne := mid_id_ne liveRq (·.lineId) done rs r hndK hlr
  have hview := mem_view_markRemoved syn r.lineId hw.nodup
  refine Match.frame [r.lineId] hm ?_ ?_ ?_ ?_ ?_ ?_ ?_
  · intro v hv
    simp only [List.mem_singleton] at hv
    rw [hview v]
    exact ⟨fun a => a.1, fun a => ⟨a, hv⟩⟩
  · intro j hj
    rw [List.mem_singleton.1 hj]
    left
    rw [entsOf_ids (·.lineId) liveRq entRq (fun _ => rfl)]
    exact (mem_liveIds liveRq (·.lineId)).2 ⟨r, List.mem_append_right _ List.mem_cons_self, hlr, rfl⟩
  · rw [entsOf_ids (·.lineId) liveRq entRq (fun _ => rfl)]
    have hsl : (liveIds liveRq (·.lineId) (done ++ clearedRequire :: rs)).Sublist (liveIds liveRq (·.lineId) (done ++ r :: rs)) := by
      simp only [liveIds_append, liveIds_cons, hlr, if_true]
      refine List.Sublist.append (List.Sublist.refl _) ?_
      have : liveRq clearedRequire = false := rfl
      simp only [this, Bool.false_eq_true, if_false]
      exact List.Sublist.cons _ (List.Sublist.refl _)
    exact List.Nodup.sublist hsl hndK
  · intro en' hen'
    left
    rcases (mem_entsOf_mid liveRq entRq done rs _ en').1 hen' with ⟨y, hy, hly, rfl⟩ | ⟨hc, _⟩
    · exact List.mem_map.2 ⟨entRq y, (mem_entsOf_mid liveRq entRq done rs r _).2 (Or.inl ⟨y, hy, hly, rfl⟩), rfl⟩
    · exact absurd hc (by decide)
  · intro en' hen'
    rcases (mem_entsOf_mid liveRq entRq done rs _ en').1 hen' with ⟨y, hy, hly, rfl⟩ | ⟨hc, _⟩
    · rcases hm.cover (entRq y) (List.mem_append_right _ (List.mem_append_left _
        ((mem_entsOf_mid liveRq entRq done rs r _).2 (Or.inl ⟨y, hy, hly, rfl⟩)))) with ⟨v, hv, hvid, hacc⟩
      refine ⟨v, (hview v).2 ⟨hv, ?_⟩, hvid, hacc⟩
      rw [hvid]; exact hne y hy hly
    · exact absurd hc (by decide)
  · intro v hv hs
    exact absurd (List.mem_singleton.1 hs) ((hview v).1 hv).2
  · intro en hen hs
    simp only [List.mem_singleton] at hs
    rcases (mem_entsOf_mid liveRq entRq done rs r en).1 hen with ⟨y, hy, hly, rfl⟩ | ⟨_, rfl⟩
    · exact ⟨entRq y, (mem_entsOf_mid liveRq entRq done rs _ _).2 (Or.inl ⟨y, hy, hly, rfl⟩), rfl⟩
    · exact absurd rfl hs

/-- a moved requirement: the line `r.lineId` is replaced by the same line under the fresh id `next` -/
theorem Match.moveStep {A C : List Ent} {done rs : List Require} {r : Require} {vs vs' : List VLine} {next : Nat}
    (hlr : liveRq r = true) (hm : Match (A ++ (entsOf liveRq entRq (done ++ r :: rs) ++ C)) vs)
    (hlt : ∀ en ∈ A ++ (entsOf liveRq entRq (done ++ r :: rs) ++ C), en.id < next)
    (v0 : VLine) (hacc0 : (entRq r).acc v0.toks v0.suffix)
    (hview : ∀ v, v ∈ vs' ↔ (v.id ≠ r.lineId ∧ v ∈ vs) ∨ v = ⟨next, v0.toks, v0.suffix⟩) :
    Match (A ++ (entsOf liveRq entRq (done ++ { r with lineId := next } :: rs) ++ C)) vs' := by
  have hndK : (liveIds liveRq (·.lineId) (done ++ r :: rs)).Nodup := by
    rw [← entsOf_ids (·.lineId) liveRq entRq (fun _ => rfl)]; exact seg_nodup hm
  have hne := mid_id_ne liveRq (·.lineId) done rs r hndK hlr
  have hrK : entRq r ∈ entsOf liveRq entRq (done ++ r :: rs) := (mem_entsOf_mid liveRq entRq done rs r _).2 (Or.inr ⟨hlr, rfl⟩)
  have hrlt : r.lineId < next := hlt (entRq r) (List.mem_append_right _ (List.mem_append_left _ hrK))
  have hlr' : liveRq { r with lineId := next } = true := hlr
  refine Match.frame [r.lineId, next] hm ?_ ?_ ?_ ?_ ?_ ?_ ?_
  · intro v hv
    simp only [List.mem_cons, List.mem_nil_iff, or_false, not_or] at hv
    rw [hview v]
    constructor
    · rintro (⟨_, a⟩ | rfl)
      · exact a
      · exact absurd rfl hv.2
    · intro a; exact Or.inl ⟨hv.1, a⟩
  · intro j hj
    simp only [List.mem_cons, List.mem_nil_iff, or_false] at hj
    rcases hj with rfl | rfl
    · left
      rw [entsOf_ids (·.lineId) liveRq entRq (fun _ => rfl)]
      exact (mem_liveIds liveRq (·.lineId)).2 ⟨r, List.mem_append_right _ List.mem_cons_self, hlr, rfl⟩
    · right
      intro en hen; exact Nat.ne_of_lt (hlt en hen)
  · rw [entsOf_ids (·.lineId) liveRq entRq (fun _ => rfl)]
    simp only [liveIds_append, liveIds_cons, hlr, hlr', if_true] at hndK ⊢
    rcases List.nodup_append.1 hndK with ⟨n1, n2, n3⟩
    rcases List.nodup_cons.1 n2 with ⟨_, n4⟩
    have hfresh : ∀ y, (y ∈ done ∨ y ∈ rs) → liveRq y = true → y.lineId ≠ next := by
      intro y hy hly
      exact Nat.ne_of_lt (hlt (entRq y) (List.mem_append_right _ (List.mem_append_left _
        ((mem_entsOf_mid liveRq entRq done rs r _).2 (Or.inl ⟨y, hy, hly, rfl⟩)))))
    refine List.nodup_append.2 ⟨n1, List.nodup_cons.2 ⟨?_, n4⟩, ?_⟩
    · intro hmem
      rcases (mem_liveIds liveRq (·.lineId)).1 hmem with ⟨y, hy, hly, hyid⟩
      exact hfresh y (Or.inr hy) hly hyid
    · intro a ha b hb
      rcases List.mem_cons.1 hb with rfl | hb
      · rcases (mem_liveIds liveRq (·.lineId)).1 ha with ⟨y, hy, hly, hyid⟩
        rw [← hyid]; exact hfresh y (Or.inl hy) hly
      · exact n3 a ha b (List.mem_cons_of_mem _ hb)
  · intro en' hen'
    rcases (mem_entsOf_mid liveRq entRq done rs _ en').1 hen' with ⟨y, hy, hly, rfl⟩ | ⟨_, rfl⟩
    · left
      exact List.mem_map.2 ⟨entRq y, (mem_entsOf_mid liveRq entRq done rs r _).2 (Or.inl ⟨y, hy, hly, rfl⟩), rfl⟩
    · right
      intro en hen; exact Nat.ne_of_lt (hlt en hen)
  · intro en' hen'
    rcases (mem_entsOf_mid liveRq entRq done rs _ en').1 hen' with ⟨y, hy, hly, rfl⟩ | ⟨_, rfl⟩
    · rcases hm.cover (entRq y) (List.mem_append_right _ (List.mem_append_left _
        ((mem_entsOf_mid liveRq entRq done rs r _).2 (Or.inl ⟨y, hy, hly, rfl⟩)))) with ⟨v, hv, hvid, hacc⟩
      refine ⟨v, (hview v).2 (Or.inl ⟨?_, hv⟩), hvid, hacc⟩
      rw [hvid]; exact hne y hy hly
    · exact ⟨⟨next, v0.toks, v0.suffix⟩, (hview _).2 (Or.inr rfl), rfl, hacc0⟩
  · intro v hv hs
    simp only [List.mem_cons, List.mem_nil_iff, or_false] at hs
    rcases (hview v).1 hv with ⟨h1, h2⟩ | rfl
    · rcases hs with h | h
      · exact absurd h h1
      · rcases hm.surj v h2 with ⟨en, hen, henid⟩
        exact absurd (henid.trans h) (Nat.ne_of_lt (hlt en hen))
    · exact ⟨entRq { r with lineId := next }, (mem_entsOf_mid liveRq entRq done rs _ _).2 (Or.inr ⟨hlr', rfl⟩), rfl⟩
  · intro en hen hs
    simp only [List.mem_cons, List.mem_nil_iff, or_false, not_or] at hs
    rcases (mem_entsOf_mid liveRq entRq done rs r en).1 hen with ⟨y, hy, hly, rfl⟩ | ⟨_, rfl⟩
    · exact ⟨entRq y, (mem_entsOf_mid liveRq entRq done rs _ _).2 (Or.inl ⟨y, hy, hly, rfl⟩), rfl⟩
    · exact absurd rfl hs.1

/-- **the loop of SetRequireSeparateIndirect on the tree invariant** -/
theorem sepLoop_inv {A C : List Ent} (ctx : SepCtx) (need : List Want) (rs : List Require) :
    ∀ (done : List Require) (have_ : List Bytes) (syn : FileSyntax) (next : Nat) (rs' : List Require) (have' : List Bytes)
      (syn' : FileSyntax) (next' : Nat),
      (∀ r ∈ rs, liveRq r = true) → TreeWF syn.stmts next → 0 < next →
      Match (A ++ (entsOf liveRq entRq (done ++ rs) ++ C)) (view syn.stmts) →
      BlockAt syn.stmts ctx.directIdx → BlockAt syn.stmts ctx.indirectIdx →
      sepLoop ctx need rs have_ syn next = .ok (rs', have', syn', next') →
      TreeWF syn'.stmts next' ∧ next ≤ next' ∧ Match (A ++ (entsOf liveRq entRq (done ++ rs') ++ C)) (view syn'.stmts) ∧
      BlockAt syn'.stmts ctx.directIdx ∧ BlockAt syn'.stmts ctx.indirectIdx := by
  induction rs with
  | nil =>
    intro done have_ syn next rs' have' syn' next' _ hw _ hm hbd hbi h
    simp only [sepLoop, Except.ok.injEq, Prod.mk.injEq] at h
    rcases h with ⟨rfl, _, rfl, rfl⟩
    exact ⟨hw, Nat.le_refl _, hm, hbd, hbi⟩
  | cons r rs ih =>
    intro done have_ syn next rs' have' syn' next' hlive hw hnext hm hbd hbi h
    have hlr := hlive r List.mem_cons_self
    have hlive' : ∀ r2 ∈ rs, liveRq r2 = true := fun r2 hr2 => hlive r2 (List.mem_cons_of_mem _ hr2)
    have hndK : (liveIds liveRq (·.lineId) (done ++ r :: rs)).Nodup := by
      rw [← entsOf_ids (·.lineId) liveRq entRq (fun _ => rfl)]; exact seg_nodup hm
    have hne := mid_id_ne liveRq (·.lineId) done rs r hndK hlr
    -- the removal branches
    have remove : ∀ (res : List Require × List Bytes × FileSyntax × Nat),
        sepLoop ctx need rs have_ (markRemoved syn r.lineId) next = .ok res →
        TreeWF res.2.2.1.stmts res.2.2.2 ∧ next ≤ res.2.2.2 ∧
          Match (A ++ (entsOf liveRq entRq (done ++ clearedRequire :: res.1) ++ C)) (view res.2.2.1.stmts) ∧
          BlockAt res.2.2.1.stmts ctx.directIdx ∧ BlockAt res.2.2.1.stmts ctx.indirectIdx := by
      intro res hr
      rcases res with ⟨rs'', h'', syn'', next''⟩
      have hview := mem_view_markRemoved syn r.lineId hw.nodup
      have hm1 : Match (A ++ (entsOf liveRq entRq ((done ++ [clearedRequire]) ++ rs) ++ C)) (view (markRemoved syn r.lineId).stmts) := by
        rw [List.append_assoc]; exact Match.removeStep hw hlr hm
      have := ih (done ++ [clearedRequire]) have_ (markRemoved syn r.lineId) next rs'' h'' syn'' next'' hlive' (hw.markRemoved r.lineId)
        hnext hm1 (hbd.updateLine hw.nodup _ _) (hbi.updateLine hw.nodup _ _) hr
      rw [List.append_assoc] at this
      exact this
    unfold sepLoop at h
    cases hf : need.find? (fun a => a.path == r.mod.path) with
    | some w =>
      simp only [hf] at h
      by_cases hc : have_.contains r.mod.path = true
      · simp only [hc, if_true, bind, Except.bind] at h
        cases hd : deref r.lineId with
        | error err => simp [hd] at h
        | ok i =>
          have hi : i = r.lineId := by unfold deref at hd; split at hd <;> simp at hd; exact hd.symm
          subst hi
          simp only [hd] at h
          cases hr : sepLoop ctx need rs have_ (markRemoved syn r.lineId) next with
          | error err => simp [hr] at h
          | ok res =>
            have := remove res hr
            rcases res with ⟨rs'', h'', syn'', next''⟩
            simp only [hr, pure, Except.pure, Except.ok.injEq, Prod.mk.injEq] at h
            rcases h with ⟨rfl, _, rfl, rfl⟩
            exact this
      · simp only [Bool.not_eq_true] at hc
        simp only [hc, Bool.false_eq_true, if_false, bind, Except.bind] at h
        cases hd : deref r.lineId with
        | error err => simp [hd] at h
        | ok i =>
          have hi : i = r.lineId := by unfold deref at hd; split at hd <;> simp at hd; exact hd.symm
          subst hi
          simp only [hd] at h
          -- the updated line
          rcases Match.setReqStep (A := A) (C := C) (done := done) (rs := rs) w.vers w.indirect hw hlr hm
            with ⟨hm1, v0, hv0, hv0id, hview1⟩
          have hw1 := hw.setReq r.lineId w.vers w.indirect
          have hbd1 : BlockAt (syn.updateLine r.lineId fun l => setIndirectLine w.indirect (setVersionLine w.vers l)).stmts ctx.directIdx :=
            hbd.updateLine hw.nodup _ _
          have hbi1 : BlockAt (syn.updateLine r.lineId fun l => setIndirectLine w.indirect (setVersionLine w.vers l)).stmts ctx.indirectIdx :=
            hbi.updateLine hw.nodup _ _
          have hlt1 := hm1.ids_lt hw1
          have hlr1 : liveRq { r with mod := { r.mod with version := w.vers }, indirect := w.indirect } = true := hlr
          -- what a move does
          have moved : ∀ idx, BlockAt (syn.updateLine r.lineId fun l => setIndirectLine w.indirect (setVersionLine w.vers l)).stmts idx →
              TreeWF (moveExisting (syn.updateLine r.lineId fun l => setIndirectLine w.indirect (setVersionLine w.vers l)) r.lineId idx next).stmts (next + 1) ∧
              Match (A ++ (entsOf liveRq entRq (done ++
                ({ r with mod := { r.mod with version := w.vers }, indirect := w.indirect, lineId := next } : Require) :: rs) ++ C))
                (view (moveExisting (syn.updateLine r.lineId fun l => setIndirectLine w.indirect (setVersionLine w.vers l)) r.lineId idx next).stmts) ∧
              BlockAt (moveExisting (syn.updateLine r.lineId fun l => setIndirectLine w.indirect (setVersionLine w.vers l)) r.lineId idx next).stmts ctx.directIdx ∧
              BlockAt (moveExisting (syn.updateLine r.lineId fun l => setIndirectLine w.indirect (setVersionLine w.vers l)) r.lineId idx next).stmts ctx.indirectIdx := by
            intro idx hidx
            rcases moveExisting_spec _ next r.lineId idx hw1 hnext
              ⟨r.lineId, [B "require", autoQuote r.mod.path, w.vers], sfxAfter w.indirect v0.suffix⟩
              ((hview1 _).2 (Or.inr rfl)) rfl _ _ rfl hidx with ⟨m1, m2, m3⟩
            refine ⟨m1, ?_, m3 _ hbd1, m3 _ hbi1⟩
            exact Match.moveStep (r := { r with mod := { r.mod with version := w.vers }, indirect := w.indirect })
              hlr1 hm1 hlt1 ⟨r.lineId, [B "require", autoQuote r.mod.path, w.vers], sfxAfter w.indirect v0.suffix⟩ rfl m2
          generalize ht : (if (w.indirect && (ctx.oneFlat || inBlockOrig ctx r.lineId ctx.directOrig)) = true then
              (({ r with mod := { r.mod with version := w.vers }, indirect := w.indirect, lineId := next } : Require),
                moveExisting (syn.updateLine r.lineId fun l => setIndirectLine w.indirect (setVersionLine w.vers l)) r.lineId ctx.indirectIdx next, next + 1)
            else if (!w.indirect && (ctx.oneFlat || inBlockOrig ctx r.lineId ctx.indirectOrig)) = true then
              (({ r with mod := { r.mod with version := w.vers }, indirect := w.indirect, lineId := next } : Require),
                moveExisting (syn.updateLine r.lineId fun l => setIndirectLine w.indirect (setVersionLine w.vers l)) r.lineId ctx.directIdx next, next + 1)
            else (({ r with mod := { r.mod with version := w.vers }, indirect := w.indirect } : Require),
                syn.updateLine r.lineId fun l => setIndirectLine w.indirect (setVersionLine w.vers l), next)) = t at h
          have htp : TreeWF t.2.1.stmts t.2.2 ∧ next ≤ t.2.2 ∧
              Match (A ++ (entsOf liveRq entRq (done ++ t.1 :: rs) ++ C)) (view t.2.1.stmts) ∧
              BlockAt t.2.1.stmts ctx.directIdx ∧ BlockAt t.2.1.stmts ctx.indirectIdx := by
            rw [← ht]; split
            · rcases moved ctx.indirectIdx hbi1 with ⟨q1, q2, q3, q4⟩
              exact ⟨q1, Nat.le_succ _, q2, q3, q4⟩
            · split
              · rcases moved ctx.directIdx hbd1 with ⟨q1, q2, q3, q4⟩
                exact ⟨q1, Nat.le_succ _, q2, q3, q4⟩
              · exact ⟨hw1, Nat.le_refl _, hm1, hbd1, hbi1⟩
          rcases t with ⟨r2, syn2, next2⟩
          simp only at htp h
          cases hr : sepLoop ctx need rs (r2.mod.path :: have_) syn2 next2 with
          | error err => simp [hr] at h
          | ok res =>
            rcases res with ⟨rs'', h'', syn'', next''⟩
            simp only [hr, pure, Except.pure, Except.ok.injEq, Prod.mk.injEq] at h
            rcases h with ⟨rfl, _, rfl, rfl⟩
            rcases htp with ⟨p1, p2, p3, p4, p5⟩
            have p3' : Match (A ++ (entsOf liveRq entRq ((done ++ [r2]) ++ rs) ++ C)) (view syn2.stmts) := by
              rw [List.append_assoc]; exact p3
            have := ih (done ++ [r2]) _ syn2 next2 rs'' h'' syn'' next'' hlive' p1 (Nat.lt_of_lt_of_le hnext p2) p3' p4 p5 hr
            rw [List.append_assoc] at this
            exact ⟨this.1, Nat.le_trans p2 this.2.1, this.2.2⟩
    | none =>
      simp only [hf, bind, Except.bind] at h
      cases hd : deref r.lineId with
      | error err => simp [hd] at h
      | ok i =>
        have hi : i = r.lineId := by unfold deref at hd; split at hd <;> simp at hd; exact hd.symm
        subst hi
        simp only [hd] at h
        cases hr : sepLoop ctx need rs have_ (markRemoved syn r.lineId) next with
        | error err => simp [hr] at h
        | ok res =>
          have := remove res hr
          rcases res with ⟨rs'', h'', syn'', next''⟩
          simp only [hr, pure, Except.pure, Except.ok.injEq, Prod.mk.injEq] at h
          rcases h with ⟨rfl, _, rfl, rfl⟩
          exact this

/-! ### SetRequireSeparateIndirect -/

theorem addSepNew_inv (ctx : SepCtx) (e : EFile) (w : Want) (hp : w.path ≠ []) (hi : Inv e)
    (hbd : BlockAt e.f.syn.stmts ctx.directIdx) (hbi : BlockAt e.f.syn.stmts ctx.indirectIdx) :
    Inv (addSepNew ctx e w) ∧ BlockAt (addSepNew ctx e w).f.syn.stmts ctx.directIdx ∧
      BlockAt (addSepNew ctx e w).f.syn.stmts ctx.indirectIdx := by
  rcases sepNewLine_props e.next w with ⟨l1, l2, l3, _⟩
  have hidx : BlockAt e.f.syn.stmts (if w.indirect then ctx.indirectIdx else ctx.directIdx) := by
    split
    · exact hbi
    · exact hbd
  rcases appendToBlock_spec e.f.syn.stmts (if w.indirect then ctx.indirectIdx else ctx.directIdx) (sepNewLine e.next w)
    hi.tree.shape hidx (by rw [l2]; simp) l3 with ⟨q1, q2, q3, q4⟩
  rw [l1] at q2
  rw [l1, l2] at q1
  have hstmts : (addSepNew ctx e w).f.syn.stmts =
      appendToBlock e.f.syn.stmts (if w.indirect then ctx.indirectIdx else ctx.directIdx) (sepNewLine e.next w) := rfl
  refine ⟨⟨?_, ?_, hi.tinv.of_same rfl rfl rfl (Nat.le_succ _)⟩, ?_, ?_⟩
  · show TreeWF (addSepNew ctx e w).f.syn.stmts (e.next + 1)
    rw [hstmts]
    exact hi.tree.of_added hi.tinv.pos q2 q3
  · have := Match.appendSeg (·.lineId) liveRq entRq (fun _ => rfl)
      (x := ({ mod := { path := w.path, version := w.vers }, indirect := w.indirect, lineId := e.next } : Require))
      (ne_nil_live hp) [B "require", autoQuote w.path, w.vers] (sepNewLine e.next w).comments.suffix rfl
      (by rw [← entries_require]; exact hi.mtch) (by rw [← entries_require]; exact hi.fresh) q1
    show Match (entries (addSepNew ctx e w).f) (view (addSepNew ctx e w).f.syn.stmts)
    rw [entries_require, hstmts]; exact this
  · rw [hstmts]; exact q4 _ hbd
  · rw [hstmts]; exact q4 _ hbi

theorem foldl_addSepNew_inv (ctx : SepCtx) (ws : List Want) : ∀ e : EFile, Inv e → (∀ w ∈ ws, w.path ≠ []) →
    BlockAt e.f.syn.stmts ctx.directIdx → BlockAt e.f.syn.stmts ctx.indirectIdx → Inv (ws.foldl (addSepNew ctx) e) := by
  induction ws with
  | nil => intro e hi _ _ _; exact hi
  | cons w ws ih =>
    intro e hi hne hbd hbi
    rcases addSepNew_inv ctx e w (hne w List.mem_cons_self) hi hbd hbi with ⟨h1, h2, h3⟩
    exact ih _ h1 (fun x hx => hne x (List.mem_cons_of_mem _ hx)) h2 h3

/-- the tail of SetRequireSeparateIndirect (loop, missing entries, SortBlocks) from a good block phase: the result is
    `SortBlocks` of a state that satisfies the invariant -/
theorem sepTail_presort (e e' : EFile) (req : List Want) (perm : List Want → List Want) (hperm : ∀ l, (perm l).Perm l)
    (hg : GoodWant req) (hi : Inv e) (hlive : ∀ r ∈ e.f.require, liveRq r = true)
    (ctx : SepCtx) (stmts : List Expr) (hgood : SepGood e.f.syn.stmts ctx.directIdx ctx.indirectIdx stmts)
    (h : sepTail e req perm ctx stmts = .ok e') : ∃ e1, Inv e1 ∧ e' = sortBlocks e1 ∧ e1.f.go = e.f.go := by
  unfold sepTail at h
  rw [needMap_distinct false req [] (by simpa using hg.1)] at h
  simp only [bind, Except.bind, List.nil_append] at h
  cases hr : sepLoop ctx req e.f.require [] { e.f.syn with stmts := stmts } e.next with
  | error err => simp [hr] at h
  | ok res =>
    rcases res with ⟨rq, have', syn', next'⟩
    simp only [hr, pure, Except.pure, Except.ok.injEq] at h
    subst h
    have hw0 : TreeWF stmts e.next :=
      ⟨by rw [hgood.ids_eq]; exact hi.tree.nodup, by rw [hgood.ids_eq]; exact hi.tree.lt, by rw [hgood.ids_eq]; exact hi.tree.pos,
       hgood.shape.blockTok, hgood.shape.flagTop, hgood.shape.flagIn, hgood.shape.noBlockSuffix⟩
    have hm0 : Match (segA_require e.f ++ (entsOf liveRq entRq ([] ++ e.f.require) ++ segC_require e.f)) (view stmts) := by
      simp only [List.nil_append]; rw [← entries_require, hgood.view_eq]; exact hi.mtch
    rcases sepLoop_inv (A := segA_require e.f) (C := segC_require e.f) ctx req e.f.require [] [] { e.f.syn with stmts := stmts } e.next
      rq have' syn' next' hlive hw0 hi.tinv.pos hm0 hgood.direct hgood.indirect hr with ⟨hw', hle, hm', hbd', hbi'⟩
    have hi1 : Inv (⟨{ e.f with require := rq, syn := syn' }, next'⟩ : EFile) := by
      refine ⟨hw', ?_, hi.tinv.of_same rfl rfl rfl hle⟩
      simp only [List.nil_append] at hm'
      rw [entries_require]; exact hm'
    have hne : ∀ w ∈ (perm req).filter (fun w => !have'.contains w.path), w.path ≠ [] :=
      fun w hw => hg.2 w ((hperm req).subset (List.mem_filter.1 hw).1)
    refine ⟨_, foldl_addSepNew_inv ctx _ _ hi1 hne hbd' hbi', rfl, ?_⟩
    exact foldl_addSepNew_go ctx _ _

/-- SetRequireSeparateIndirect ends with `SortBlocks` of a state satisfying the invariant -/
theorem setRequireSeparateIndirect_presort (e e' : EFile) (req : List Want) (perm : List Want → List Want)
    (hperm : ∀ l, (perm l).Perm l) (hg : GoodWant req) (hi : Inv e) (hlive : ∀ r ∈ e.f.require, liveRq r = true)
    (h : setRequireSeparateIndirect e req perm = .ok e') :
    ∃ e1, Inv e1 ∧ e' = sortBlocks e1 ∧ e1.f.go = e.f.go := by
  rw [setRSI_eq] at h
  cases h1 : sepStage1 e.f.syn.stmts (scanStmts e.f.syn.stmts 0 {}) with
  | error err => simp [h1] at h
  | ok r1 =>
    rcases r1 with ⟨s1, dI, dO, lI, sh⟩
    simp only [h1] at h
    cases h2 : sepStage2 s1 dI lI sh with
    | error err => simp [h2] at h
    | ok r2 =>
      rcases r2 with ⟨s2, iI, iO⟩
      simp only [h2] at h
      have hgood := sepStage_spec e.f.syn.stmts hi.tree.shape hi.view2 _ (scan_inv _) h1 h2
      exact sepTail_presort e e' req perm hperm hg hi hlive _ s2 hgood h

/-- **SetRequireSeparateIndirect preserves the tree invariant** — when every typed requirement is live (a Cleanup has
    just run); no hypothesis on the end-of-line comments (cf. `setRequire_inv`) -/
theorem setRequireSeparateIndirect_inv (e e' : EFile) (req : List Want) (perm : List Want → List Want)
    (hperm : ∀ l, (perm l).Perm l) (hg : GoodWant req) (hi : Inv e) (hlive : ∀ r ∈ e.f.require, liveRq r = true)
    (h : setRequireSeparateIndirect e req perm = .ok e') : Inv e' := by
  rcases setRequireSeparateIndirect_presort e e' req perm hperm hg hi hlive h with ⟨e1, h1, rfl, _⟩
  exact sortBlocks_inv _ h1

end ModVerif.Modfile.Edit.P
