/-
  Helper lemmas about the list algebra of Spec/EditSpec.lean (updFirstDropRest, dropAll, dedupLast,
  dedupFirst, setExact) and about stable insertion sort.  Core Lean only.
-/
import ModVerif.Spec.EditSpec
namespace ModVerif.EditSpec
open ModVerif

section lists
variable {α : Type}

theorem dropAll_none (m : α → Bool) (l : List α) : (dropAll m l).any m = false := by
  induction l with
  | nil => rfl
  | cons x xs ih =>
    unfold dropAll at *
    by_cases h : m x = true <;> simp_all [List.filter]

theorem dropAll_idem (m : α → Bool) (l : List α) : dropAll m (dropAll m l) = dropAll m l := by
  unfold dropAll; simp [List.filter_filter]

theorem dropAll_sublist (m : α → Bool) (l : List α) : (dropAll m l).Sublist l := by
  unfold dropAll; exact List.filter_sublist

/-- entries not matched are untouched, in order -/
theorem dropAll_keeps (m : α → Bool) (l : List α) :
    (dropAll m l).filter (fun y => !m y) = l.filter (fun y => !m y) := by
  unfold dropAll; simp [List.filter_filter]

theorem updFirstDropRest_unmatched (m : α → Bool) (u : α → α) (l : List α) :
    l.any m = false → updFirstDropRest m u l = l := by
  induction l with
  | nil => intro _; rfl
  | cons x xs ih =>
    intro h
    simp only [List.any_cons, Bool.or_eq_false_iff] at h
    simp [updFirstDropRest, h.1, ih h.2]

/-- the entries that do not match are kept, in order -/
theorem updFirstDropRest_others (m : α → Bool) (u : α → α) (hu : ∀ x, m x = true → m (u x) = true) (l : List α) :
    (updFirstDropRest m u l).filter (fun y => !m y) = l.filter (fun y => !m y) := by
  induction l with
  | nil => rfl
  | cons x xs ih =>
    by_cases h : m x = true
    · simp [updFirstDropRest, h, hu x h, List.filter_filter]
    · simp only [Bool.not_eq_true] at h
      simp [updFirstDropRest, h, ih]

/-- exactly one matching entry remains, and it is the updated first one -/
theorem updFirstDropRest_matched (m : α → Bool) (u : α → α) (hu : ∀ x, m x = true → m (u x) = true) (l : List α) :
    (updFirstDropRest m u l).filter m = (l.find? m).toList.map u := by
  induction l with
  | nil => rfl
  | cons x xs ih =>
    by_cases h : m x = true
    · have : (xs.filter (fun y => !m y)).filter m = [] := by
        simp [List.filter_filter]
      simp [updFirstDropRest, h, hu x h, this]
    · simp only [Bool.not_eq_true] at h
      simp [updFirstDropRest, h, ih]

theorem setKeyed_present (m : α → Bool) (u : α → α) (new : α) (hu : ∀ x, m x = true → m (u x) = true)
    (hn : m new = true) (l : List α) : ((setKeyed m u new l).filter m).length = 1 := by
  unfold setKeyed
  by_cases h : l.any m = true
  · simp only [h, if_true]
    rw [updFirstDropRest_matched m u hu]
    have : ∃ a, l.find? m = some a := by
      rcases List.any_eq_true.1 h with ⟨a, ha, hma⟩
      cases hf : l.find? m with
      | none => exact absurd hma (by simpa using (List.find?_eq_none.1 hf) a ha)
      | some b => exact ⟨b, rfl⟩
    rcases this with ⟨a, ha⟩
    simp [ha]
  · simp only [Bool.not_eq_true] at h
    have h0 : l.filter m = [] := by
      apply List.filter_eq_nil_iff.2
      intro a ha
      have := List.any_eq_false.1 h a ha
      simpa using this
    simp [h, List.filter_append, h0, hn]

/-! ### de-duplication -/

variable {κ : Type} [BEq κ] [LawfulBEq κ]

theorem any_dedupLast (key : α → κ) (k : κ) (l : List α) :
    (dedupLast key l).any (fun y => key y == k) = l.any (fun y => key y == k) := by
  induction l with
  | nil => rfl
  | cons x xs ih =>
    unfold dedupLast
    by_cases h : xs.any (fun y => key y == key x) = true
    · simp only [h, if_true, ih, List.any_cons]
      by_cases hk : (key x == k) = true
      · have hk' : key x = k := by simpa using hk
        subst hk'
        simp [h]
      · simp only [Bool.not_eq_true] at hk; simp [hk]
    · simp only [Bool.not_eq_true] at h
      simp [h, ih]

theorem dedupLast_idem (key : α → κ) (l : List α) : dedupLast key (dedupLast key l) = dedupLast key l := by
  induction l with
  | nil => rfl
  | cons x xs ih =>
    by_cases h : xs.any (fun y => key y == key x) = true
    · simp [dedupLast, h, ih]
    · simp only [Bool.not_eq_true] at h
      have h2 : (dedupLast key xs).any (fun y => key y == key x) = false := by
        rw [any_dedupLast]; exact h
      simp [dedupLast, h, h2, ih]

theorem dedupFirst_idem (key : α → κ) (l : List α) : dedupFirst key (dedupFirst key l) = dedupFirst key l := by
  unfold dedupFirst; simp [dedupLast_idem]

omit [LawfulBEq κ] in
theorem dedupLast_sublist (key : α → κ) (l : List α) : (dedupLast key l).Sublist l := by
  induction l with
  | nil => exact List.Sublist.slnil
  | cons x xs ih =>
    unfold dedupLast
    by_cases h : xs.any (fun y => key y == key x) = true
    · simp only [h, if_true]; exact List.Sublist.cons _ ih
    · simp only [Bool.not_eq_true] at h
      simp only [h]; exact List.Sublist.cons_cons _ ih

/-- after de-duplication the keys are pairwise distinct -/
theorem dedupLast_nodup (key : α → κ) (l : List α) :
    (dedupLast key l).Pairwise (fun a b => key a ≠ key b) := by
  induction l with
  | nil => exact List.Pairwise.nil
  | cons x xs ih =>
    unfold dedupLast
    by_cases h : xs.any (fun y => key y == key x) = true
    · simp only [h, if_true]; exact ih
    · simp only [Bool.not_eq_true] at h
      simp only [h]
      refine List.Pairwise.cons ?_ ih
      intro b hb hkey
      have hb' := (dedupLast_sublist key xs).subset hb
      have := List.any_eq_false.1 h b hb'
      simp [hkey] at this

/-- every key that occurs keeps an occurrence -/
theorem dedupLast_keys (key : α → κ) (l : List α) (a : α) (ha : a ∈ l) :
    ∃ b ∈ dedupLast key l, key b = key a := by
  have h : l.any (fun y => key y == key a) = true := List.any_eq_true.2 ⟨a, ha, by simp⟩
  rw [← any_dedupLast] at h
  rcases List.any_eq_true.1 h with ⟨b, hb, hk⟩
  exact ⟨b, hb, by simpa using hk⟩

/-- a list whose keys are pairwise distinct is left alone -/
theorem dedupLast_of_nodup (key : α → κ) (l : List α) (h : l.Pairwise (fun a b => key a ≠ key b)) :
    dedupLast key l = l := by
  induction l with
  | nil => rfl
  | cons x xs ih =>
    rcases List.pairwise_cons.1 h with ⟨h1, h2⟩
    have : xs.any (fun y => key y == key x) = false := by
      apply List.any_eq_false.2
      intro b hb
      have := h1 b hb
      simp [Ne.symm this]
    simp [dedupLast, this, ih h2]

end lists
end ModVerif.EditSpec
