/-
  EditMore, part 3 — the statement loops of `parseToFile` in strict mode: if no error is reported, the typed entries
  created are paired one to one, in file order, with the live lines of the rewritten tree, each line being the rendering
  of its entry (`Paired`); every block carries a single verb token.
-/
import ModVerif.Proofs.EditMoreStartA
set_option linter.unusedSimpArgs false
namespace ModVerif.Modfile.Edit
open ModVerif ModVerif.Modfile ModVerif.Proofs.ModfileC20 ModVerif.Proofs.EditMore

/-! ### pairing entries with lines -/

def PairV (en : Ent) (v : VLine) : Prop := v.id = en.id ∧ en.acc v.toks v.suffix

def Paired : List Ent → List VLine → Prop
  | [], [] => True
  | en :: es, v :: vs => PairV en v ∧ Paired es vs
  | _, _ => False

theorem Paired.append : ∀ {es es' : List Ent} {vs vs' : List VLine}, Paired es vs → Paired es' vs' → Paired (es ++ es') (vs ++ vs')
  | [], _, [], _, _, h2 => h2
  | _ :: _, _, _ :: _, _, h1, h2 => ⟨h1.1, Paired.append h1.2 h2⟩
  | [], _, _ :: _, _, h1, _ => h1.elim
  | _ :: _, _, [], _, h1, _ => h1.elim

theorem Paired.ids : ∀ {es : List Ent} {vs : List VLine}, Paired es vs → es.map (·.id) = vs.map (·.id)
  | [], [], _ => rfl
  | _ :: _, _ :: _, h => by simp only [List.map_cons]; rw [h.1.1, Paired.ids h.2]
  | [], _ :: _, h => h.elim
  | _ :: _, [], h => h.elim

theorem Paired.cover : ∀ {es : List Ent} {vs : List VLine}, Paired es vs → ∀ en ∈ es, ∃ v ∈ vs, PairV en v
  | [], [], _ => fun _ h => by cases h
  | e :: _, v :: _, h => fun en hen => by
    rcases List.mem_cons.1 hen with rfl | hen
    · exact ⟨v, List.mem_cons_self, h.1⟩
    · rcases Paired.cover h.2 en hen with ⟨v', hv', hp⟩
      exact ⟨v', List.mem_cons_of_mem _ hv', hp⟩
  | [], _ :: _, h => h.elim
  | _ :: _, [], h => h.elim

theorem Paired.surj : ∀ {es : List Ent} {vs : List VLine}, Paired es vs → ∀ v ∈ vs, ∃ en ∈ es, PairV en v
  | [], [], _ => fun _ h => by cases h
  | e :: _, v :: _, h => fun v' hv' => by
    rcases List.mem_cons.1 hv' with rfl | hv'
    · exact ⟨e, List.mem_cons_self, h.1⟩
    · rcases Paired.surj h.2 v' hv' with ⟨en, hen, hp⟩
      exact ⟨en, List.mem_cons_of_mem _ hen, hp⟩
  | [], _ :: _, h => h.elim
  | _ :: _, [], h => h.elim

theorem Match.of_paired {es es' : List Ent} {vs : List VLine} (h : Paired es vs) (hp : es'.Perm es)
    (hnd : (vs.map (·.id)).Nodup) : Match es' vs := by
  refine ⟨?_, ?_, ?_⟩
  · have : (es'.map (·.id)).Perm (vs.map (·.id)) := by rw [← h.ids]; exact hp.map _
    exact this.symm.nodup hnd
  · intro en hen
    rcases h.cover en (hp.subset hen) with ⟨v, hv, h1, h2⟩
    exact ⟨v, hv, h1, h2⟩
  · intro v hv
    rcases h.surj v hv with ⟨en, hen, h1, _⟩
    exact ⟨en, hp.symm.subset hen, h1.symm⟩

theorem Step.perm {st st' : AddState} {line : Line} {toks : List Bytes} (h : Step st st' line toks) :
    ∃ en, (entsAll st'.file).Perm (entsAll st.file ++ [en]) ∧ en.id = line.id ∧ en.acc toks line.comments.suffix := by
  rcases h.ent with ⟨en, k, hk, hs, h1, h2⟩
  refine ⟨en, ?_, h1, h2⟩
  unfold entsAll
  rw [hs]
  exact flatten_set_perm en _ k (by simpa [segs] using hk)

def blockV (verb : Bytes) (l : Line) : VLine := ⟨l.id, verb :: l.token, l.comments.suffix⟩

theorem addBlockLines_step (block : Comments) (verb : Bytes) : ∀ (ls : List Line) (st st' : AddState) (ls' : List Line),
    addBlockLines block verb none true st ls = (st', ls') → st'.errsRev = [] →
    st.errsRev = [] ∧ ∃ es, (entsAll st'.file).Perm (entsAll st.file ++ es) ∧ Paired es (ls'.map (blockV verb)) ∧
      ∀ l ∈ ls', l.token ≠ [] := by
  intro ls
  induction ls with
  | nil =>
    intro st st' ls' h he
    simp only [addBlockLines, Prod.mk.injEq] at h
    obtain ⟨rfl, rfl⟩ := h
    exact ⟨he, [], by simp, trivial, fun _ h => by cases h⟩
  | cons l rest ih =>
    intro st st' ls' h he
    unfold addBlockLines at h
    cases hA : File.add st (some block) l verb l.token none true with
    | mk st1 toks =>
      cases hB : addBlockLines block verb none true st1 rest with
      | mk st2 ls2 =>
        simp only [hA, hB, Prod.mk.injEq] at h
        obtain ⟨rfl, rfl⟩ := h
        rcases ih st1 st2 ls2 hB he with ⟨he1, es, hp, hpair, hne⟩
        have hstep := add_step hA he1
        rcases hstep.perm with ⟨en, hp1, hid, hacc⟩
        refine ⟨hstep.errs, en :: es, ?_, ⟨⟨hid.symm, hacc⟩, hpair⟩, ?_⟩
        · refine hp.trans ?_
          have := hp1.append_right es
          simpa [List.append_assoc] using this
        · intro x hx
          rcases List.mem_cons.1 hx with rfl | hx
          · have := hstep.len
            intro e
            have e' : toks = [] := e
            subst e'
            simp at this
          · exact hne x hx

theorem view_nil_of_other (x : Expr) (h : ∀ l, x ≠ .line l) (h' : ∀ b, x ≠ .lineBlock b) : view [x] = [] := by
  cases x with
  | line l => exact absurd rfl (h l)
  | lineBlock b => exact absurd rfl (h' b)
  | commentBlock _ => rfl
  | lparen _ => rfl
  | rparen _ => rfl

theorem addStmts_step : ∀ (xs : List Expr) (st st' : AddState) (xs' : List Expr),
    addStmts none true st xs = (st', xs') → st'.errsRev = [] →
    st.errsRev = [] ∧ ∃ es, (entsAll st'.file).Perm (entsAll st.file ++ es) ∧ Paired es (view xs') ∧
      ∀ b, Expr.lineBlock b ∈ xs' → ∃ v, b.token = [v] := by
  intro xs
  induction xs with
  | nil =>
    intro st st' xs' h he
    simp only [addStmts, Prod.mk.injEq] at h
    obtain ⟨rfl, rfl⟩ := h
    exact ⟨he, [], by simp, trivial, fun _ h => by cases h⟩
  | cons x rest ih =>
    intro st st' xs' h he
    unfold addStmts at h
    -- the tail, given the state after the head
    have tail : ∀ (st1 : AddState) (x' : Expr),
        (addStmts none true st1 rest).1 = st' → xs' = x' :: (addStmts none true st1 rest).2 →
        (st1.errsRev = [] → st.errsRev = [] ∧ ∃ es1, (entsAll st1.file).Perm (entsAll st.file ++ es1) ∧ Paired es1 (view [x']) ∧
          ∀ b, x' = Expr.lineBlock b → ∃ v, b.token = [v]) →
        st.errsRev = [] ∧ ∃ es, (entsAll st'.file).Perm (entsAll st.file ++ es) ∧ Paired es (view xs') ∧
          ∀ b, Expr.lineBlock b ∈ xs' → ∃ v, b.token = [v] := by
      intro st1 x' h1 h2 hhead
      cases hB : addStmts none true st1 rest with
      | mk st2 xs2 =>
        rw [hB] at h1 h2
        simp only at h1 h2
        subst h1 h2
        rcases ih st1 st2 xs2 hB he with ⟨he1, es, hp, hpair, hblk⟩
        rcases hhead he1 with ⟨he0, es1, hp1, hpair1, hblk1⟩
        refine ⟨he0, es1 ++ es, ?_, ?_, ?_⟩
        · refine hp.trans ?_
          have := hp1.append_right es
          simpa [List.append_assoc] using this
        · rw [view_cons]; exact hpair1.append hpair
        · intro b hb
          rcases List.mem_cons.1 hb with hb | hb
          · exact hblk1 b hb.symm
          · exact hblk b hb
    cases x with
    | line l =>
      cases htok : l.token with
      | nil =>
        simp only [htok] at h
        refine tail st (.line l) (Prod.mk.inj h).1 (Prod.mk.inj h).2.symm ?_
        intro he1
        refine ⟨he1, [], by simp, ?_, fun b hb => by cases hb⟩
        have : view [Expr.line l] = [] := by simp [view, loc, locStmt, liveLoc, htok]
        rw [this]; trivial
      | cons verb args =>
        simp only [htok] at h
        cases hA : File.add st none l verb args none true with
        | mk st1 args' =>
          simp only [hA] at h
          refine tail st1 (.line { l with token := verb :: args' }) (Prod.mk.inj h).1 (Prod.mk.inj h).2.symm ?_
          intro he1
          have hstep := add_step hA he1
          rcases hstep.perm with ⟨en, hp1, hid, hacc⟩
          refine ⟨hstep.errs, [en], hp1, ?_, fun b hb => by cases hb⟩
          have : view [Expr.line { l with token := verb :: args' }] = [⟨l.id, verb :: args', l.comments.suffix⟩] := by
            simp [view, loc, locStmt, liveLoc, mkV]
          rw [this]
          exact ⟨⟨hid.symm, hacc⟩, trivial⟩
    | lineBlock b =>
      simp only at h
      have herr : ∀ (p : Position) (k : RuleErrKind), (addStmts none true (st.err p k) rest).1 = st' → False := by
        intro p k h1
        cases hB : addStmts none true (st.err p k) rest with
        | mk st2 xs2 =>
          rw [hB] at h1; simp only at h1; subst h1
          exact err_ne _ _ _ (ih _ _ _ hB he).1
      split at h
      · rename_i verb hbt
        split at h
        · cases hA : addBlockLines b.comments verb none true st b.lines with
          | mk st1 ls1 =>
            simp only [hA] at h
            refine tail st1 (.lineBlock { b with lines := ls1 }) (Prod.mk.inj h).1 (Prod.mk.inj h).2.symm ?_
            intro he1
            rcases addBlockLines_step b.comments verb b.lines st st1 ls1 hA he1 with ⟨he0, es, hp, hpair, hne⟩
            refine ⟨he0, es, hp, ?_, ?_⟩
            · have : view [Expr.lineBlock { b with lines := ls1 }] = ls1.map (blockV verb) := by
                rw [view_block]
                simp only [hbt]
                rw [List.filter_eq_self.2]
                · rfl
                · intro l hl
                  have := hne l hl
                  cases hlt : l.token with
                  | nil => exact absurd hlt this
                  | cons _ _ => rfl
              rw [this]; exact hpair
            · intro b' hb'
              simp only [Expr.lineBlock.injEq] at hb'
              subst hb'
              exact ⟨verb, hbt⟩
        · simp only [if_true] at h
          exact (herr _ _ (Prod.mk.inj h).1).elim
      · simp only [if_true] at h
        exact (herr _ _ (Prod.mk.inj h).1).elim
    | commentBlock c =>
      simp only at h
      refine tail st (.commentBlock c) (Prod.mk.inj h).1 (Prod.mk.inj h).2.symm ?_
      intro he1
      exact ⟨he1, [], by simp, by rw [view_nil_of_other _ (by simp) (by simp)]; trivial, fun b hb => by cases hb⟩
    | lparen c =>
      simp only at h
      refine tail st (.lparen c) (Prod.mk.inj h).1 (Prod.mk.inj h).2.symm ?_
      intro he1
      exact ⟨he1, [], by simp, by rw [view_nil_of_other _ (by simp) (by simp)]; trivial, fun b hb => by cases hb⟩
    | rparen c =>
      simp only at h
      refine tail st (.rparen c) (Prod.mk.inj h).1 (Prod.mk.inj h).2.symm ?_
      intro he1
      exact ⟨he1, [], by simp, by rw [view_nil_of_other _ (by simp) (by simp)]; trivial, fun b hb => by cases hb⟩

end ModVerif.Modfile.Edit
