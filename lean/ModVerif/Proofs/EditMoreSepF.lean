/-
  EditMore, part 11 — **SetRequireSeparateIndirect preserves the tree invariant** (`setRequireSeparateIndirect_inv`):
  block phase (`sepStage_spec`), loop (`sepLoop_inv`), missing entries (`addSepNew_inv`), SortBlocks.
-/
import ModVerif.Proofs.EditMoreSepE
import ModVerif.Proofs.EditRefineSorted
set_option linter.unusedSimpArgs false
namespace ModVerif.Modfile.Edit
open ModVerif ModVerif.Modfile

/-- the line `addSepNew` creates -/
def sepNewLine (next : Nat) (w : Want) : Line :=
  if w.indirect then setIndirectLine true (mkLine next [autoQuote w.path, w.vers] true) else mkLine next [autoQuote w.path, w.vers] true

theorem sepNewLine_props (next : Nat) (w : Want) :
    (sepNewLine next w).id = next ∧ (sepNewLine next w).token = [autoQuote w.path, w.vers] ∧ (sepNewLine next w).inBlock = true ∧
    isIndirectS (sepNewLine next w).comments.suffix = w.indirect := by
  unfold sepNewLine
  cases hw : w.indirect with
  | false => simp only [Bool.false_eq_true, if_false]; exact ⟨rfl, rfl, rfl, rfl⟩
  | true =>
    simp only [if_true]
    rcases setIndirectLine_props true (mkLine next [autoQuote w.path, w.vers] true) with ⟨e1, e2, e3, e4⟩
    refine ⟨e1, e2, e3, ?_⟩
    rw [e4]; exact sfxAfter_nil true

theorem addSepNew_inv (ctx : SepCtx) (e : EFile) (w : Want) (hp : w.path ≠ []) (hi : Inv e)
    (hbd : BlockAt e.f.syn.stmts ctx.directIdx) (hbi : BlockAt e.f.syn.stmts ctx.indirectIdx) :
    Inv (addSepNew ctx e w) ∧ BlockAt (addSepNew ctx e w).f.syn.stmts ctx.directIdx ∧
      BlockAt (addSepNew ctx e w).f.syn.stmts ctx.indirectIdx := by
  rcases sepNewLine_props e.next w with ⟨l1, l2, l3, l4⟩
  have hidx : BlockAt e.f.syn.stmts (if w.indirect then ctx.indirectIdx else ctx.directIdx) := by
    split
    · exact hbi
    · exact hbd
  rcases appendToBlock_spec e.f.syn.stmts (if w.indirect then ctx.indirectIdx else ctx.directIdx) (sepNewLine e.next w)
    hi.tree.shape hidx (by rw [l2]; simp) l3 with ⟨q1, q2, q3, q4⟩
  rw [l1] at q2
  rw [l1, l2] at q1
  have hstmts : (addSepNew ctx e w).f.syn.stmts =
      appendToBlock e.f.syn.stmts (if w.indirect then ctx.indirectIdx else ctx.directIdx) (sepNewLine e.next w) := rfl
  refine ⟨⟨?_, ?_, hi.tinv.of_same rfl rfl rfl (Nat.le_succ _)⟩, ?_, ?_⟩
  · show TreeWF (addSepNew ctx e w).f.syn.stmts (e.next + 1)
    rw [hstmts]
    exact hi.tree.of_added hi.tinv.pos q2 q3
  · have := Match.appendSeg (·.lineId) liveRq entRq (fun _ => rfl)
      (x := ({ mod := { path := w.path, version := w.vers }, indirect := w.indirect, lineId := e.next } : Require))
      (ne_nil_live hp) [B "require", autoQuote w.path, w.vers] (sepNewLine e.next w).comments.suffix ⟨rfl, l4⟩
      (by rw [← entries_require]; exact hi.mtch) (by rw [← entries_require]; exact hi.fresh) q1
    show Match (entries (addSepNew ctx e w).f) (view (addSepNew ctx e w).f.syn.stmts)
    rw [entries_require, hstmts]; exact this
  · rw [hstmts]; exact q4 _ hbd
  · rw [hstmts]; exact q4 _ hbi

theorem foldl_addSepNew_inv (ctx : SepCtx) (ws : List Want) : ∀ e : EFile, Inv e → (∀ w ∈ ws, w.path ≠ []) →
    BlockAt e.f.syn.stmts ctx.directIdx → BlockAt e.f.syn.stmts ctx.indirectIdx → Inv (ws.foldl (addSepNew ctx) e) := by
  induction ws with
  | nil => intro e hi _ _ _; exact hi
  | cons w ws ih =>
    intro e hi hne hbd hbi
    rcases addSepNew_inv ctx e w (hne w List.mem_cons_self) hi hbd hbi with ⟨h1, h2, h3⟩
    exact ih _ h1 (fun x hx => hne x (List.mem_cons_of_mem _ hx)) h2 h3

theorem foldl_addSepNew_go (ctx : SepCtx) (ws : List Want) : ∀ e : EFile, (ws.foldl (addSepNew ctx) e).f.go = e.f.go := by
  induction ws with
  | nil => intro e; rfl
  | cons w ws ih => intro e; simp only [List.foldl_cons]; rw [ih]; rfl

theorem foldl_addNewRequire_go (ws : List Want) : ∀ e : EFile,
    (ws.foldl (fun e w => addNewRequire e w.path w.vers w.indirect) e).f.go = e.f.go := by
  induction ws with
  | nil => intro e; rfl
  | cons w ws ih => intro e; simp only [List.foldl_cons]; rw [ih]; rfl

/-- the tail of SetRequireSeparateIndirect (loop, missing entries, SortBlocks) from a good block phase: the result is
    `SortBlocks` of a state that satisfies the invariant -/
theorem sepTail_presort (e e' : EFile) (req : List Want) (perm : List Want → List Want) (hperm : ∀ l, (perm l).Perm l)
    (hg : GoodWant req) (hi : Inv e) (hlive : ∀ r ∈ e.f.require, liveRq r = true) (hset : NoNestedIndirectMarker e)
    (ctx : SepCtx) (stmts : List Expr) (hgood : SepGood e.f.syn.stmts ctx.directIdx ctx.indirectIdx stmts)
    (h : sepTail e req perm ctx stmts = .ok e') : ∃ e1, Inv e1 ∧ e' = sortBlocks e1 ∧ e1.f.go = e.f.go := by
  unfold sepTail at h
  rw [needMap_distinct false req [] (by simpa using hg.1)] at h
  simp only [bind, Except.bind, List.nil_append] at h
  cases hr : sepLoop ctx req e.f.require [] { e.f.syn with stmts := stmts } e.next with
  | error err => simp [hr] at h
  | ok res =>
    rcases res with ⟨rq, have', syn', next'⟩
    simp only [hr, pure, Except.pure, Except.ok.injEq] at h
    subst h
    have hw0 : TreeWF stmts e.next :=
      ⟨by rw [hgood.ids_eq]; exact hi.tree.nodup, by rw [hgood.ids_eq]; exact hi.tree.lt, by rw [hgood.ids_eq]; exact hi.tree.pos,
       hgood.shape.blockTok, hgood.shape.flagTop, hgood.shape.flagIn, hgood.shape.noBlockSuffix⟩
    have hm0 : Match (segA_require e.f ++ (entsOf liveRq entRq ([] ++ e.f.require) ++ segC_require e.f)) (view stmts) := by
      simp only [List.nil_append]; rw [← entries_require, hgood.view_eq]; exact hi.mtch
    have hset0 : ∀ r ∈ e.f.require, ∀ v ∈ view stmts, v.id = r.lineId → MarkerSettable v.suffix := by
      intro r hr v hv; rw [hgood.view_eq] at hv; exact hset r hr v hv
    rcases sepLoop_inv (A := segA_require e.f) (C := segC_require e.f) ctx req e.f.require [] [] { e.f.syn with stmts := stmts } e.next
      rq have' syn' next' hlive hw0 hi.tinv.pos hm0 hgood.direct hgood.indirect hset0 hr with ⟨hw', hle, hm', hbd', hbi'⟩
    have hi1 : Inv (⟨{ e.f with require := rq, syn := syn' }, next'⟩ : EFile) := by
      refine ⟨hw', ?_, hi.tinv.of_same rfl rfl rfl hle⟩
      simp only [List.nil_append] at hm'
      rw [entries_require]; exact hm'
    have hne : ∀ w ∈ (perm req).filter (fun w => !have'.contains w.path), w.path ≠ [] :=
      fun w hw => hg.2 w ((hperm req).subset (List.mem_filter.1 hw).1)
    refine ⟨_, foldl_addSepNew_inv ctx _ _ hi1 hne hbd' hbi', rfl, ?_⟩
    exact foldl_addSepNew_go ctx _ _

theorem sepTail_inv (e e' : EFile) (req : List Want) (perm : List Want → List Want) (hperm : ∀ l, (perm l).Perm l)
    (hg : GoodWant req) (hi : Inv e) (hlive : ∀ r ∈ e.f.require, liveRq r = true) (hset : NoNestedIndirectMarker e)
    (ctx : SepCtx) (stmts : List Expr) (hgood : SepGood e.f.syn.stmts ctx.directIdx ctx.indirectIdx stmts)
    (h : sepTail e req perm ctx stmts = .ok e') : Inv e' := by
  rcases sepTail_presort e e' req perm hperm hg hi hlive hset ctx stmts hgood h with ⟨e1, h1, rfl, _⟩
  exact sortBlocks_inv _ h1

/-- SetRequireSeparateIndirect ends with `SortBlocks` of a state satisfying the invariant -/
theorem setRequireSeparateIndirect_presort (e e' : EFile) (req : List Want) (perm : List Want → List Want)
    (hperm : ∀ l, (perm l).Perm l) (hg : GoodWant req) (hi : Inv e) (hlive : ∀ r ∈ e.f.require, liveRq r = true)
    (hset : NoNestedIndirectMarker e) (h : setRequireSeparateIndirect e req perm = .ok e') :
    ∃ e1, Inv e1 ∧ e' = sortBlocks e1 ∧ e1.f.go = e.f.go := by
  rw [setRSI_eq] at h
  cases h1 : sepStage1 e.f.syn.stmts (scanStmts e.f.syn.stmts 0 {}) with
  | error err => simp [h1] at h
  | ok r1 =>
    rcases r1 with ⟨s1, dI, dO, lI, sh⟩
    simp only [h1] at h
    cases h2 : sepStage2 s1 dI lI sh with
    | error err => simp [h2] at h
    | ok r2 =>
      rcases r2 with ⟨s2, iI, iO⟩
      simp only [h2] at h
      have hgood := sepStage_spec e.f.syn.stmts hi.tree.shape hi.view2 _ (scan_inv _) h1 h2
      exact sepTail_presort e e' req perm hperm hg hi hlive hset _ s2 hgood h

/-- SetRequire ends with `SortBlocks` of a state satisfying the invariant -/
theorem setRequire_presort (e e' : EFile) (req : List Want) (perm : List Want → List Want) (hperm : ∀ l, (perm l).Perm l)
    (hg : GoodWant req) (hi : Inv e) (hlive : ∀ r ∈ e.f.require, liveRq r = true) (hset : NoNestedIndirectMarker e)
    (h : setRequire e req perm = .ok e') : ∃ e1, Inv e1 ∧ e' = sortBlocks e1 ∧ e1.f.go = e.f.go := by
  unfold setRequire at h
  rw [needMap_distinct true req [] (by simpa using hg.1)] at h
  simp only [bind, Except.bind, List.nil_append] at h
  cases hr : setRequireLoop e.f.require req e.f.syn with
  | error err => simp [hr] at h
  | ok res =>
    rcases res with ⟨rq, need', syn'⟩
    simp only [hr, pure, Except.pure, Except.ok.injEq] at h
    subst h
    rcases setRequireLoop_abs _ _ _ _ _ _ hg hr with ⟨_, hsub⟩
    rcases setRequireLoop_inv (A := segA_require e.f) (C := segC_require e.f) e.next e.f.require [] req e.f.syn rq need' syn'
      hg hlive hi.tree (by simp only [List.nil_append]; rw [← entries_require]; exact hi.mtch) hset hr with ⟨hw', hm'⟩
    have hi1 : Inv (⟨{ e.f with require := rq, syn := syn' }, e.next⟩ : EFile) := by
      refine ⟨hw', ?_, hi.tinv.of_same rfl rfl rfl (Nat.le_refl _)⟩
      simp only [List.nil_append] at hm'
      rw [entries_require]; exact hm'
    have hne : ∀ w ∈ perm need', w.path ≠ [] := fun w hw => hg.2 w (hsub.subset ((hperm need').subset hw))
    refine ⟨_, foldl_addNewRequire_inv (perm need') _ hi1 hne, rfl, ?_⟩
    exact foldl_addNewRequire_go (perm need') _

/-- **SetRequireSeparateIndirect preserves the tree invariant** — when every typed requirement is live (a Cleanup has
    just run) and under `NoNestedIndirectMarker` (cf. `setRequire_inv`) -/
theorem setRequireSeparateIndirect_inv (e e' : EFile) (req : List Want) (perm : List Want → List Want)
    (hperm : ∀ l, (perm l).Perm l) (hg : GoodWant req) (hi : Inv e) (hlive : ∀ r ∈ e.f.require, liveRq r = true)
    (hset : NoNestedIndirectMarker e) (h : setRequireSeparateIndirect e req perm = .ok e') : Inv e' := by
  rcases setRequireSeparateIndirect_presort e e' req perm hperm hg hi hlive hset h with ⟨e1, h1, rfl, _⟩
  exact sortBlocks_inv _ h1

/-- **blocks sorted after the bulk requirement setters**: every block of the result — exclude blocks under the semantic
    order included — is sorted by the comparator the code selects for it -/
theorem bulk_blocks_sorted (e e' : EFile) (req : List Want) (perm : List Want → List Want)
    (hperm : ∀ l, (perm l).Perm l) (hg : GoodWant req) (hi : Inv e) (hlive : ∀ r ∈ e.f.require, liveRq r = true)
    (hset : NoNestedIndirectMarker e)
    (h : setRequire e req perm = .ok e' ∨ setRequireSeparateIndirect e req perm = .ok e') :
    ∀ b, Expr.lineBlock b ∈ e'.f.syn.stmts → EditSpec.Sorted (onToken (lessFor (semOf e.f) false b.token)) b.lines := by
  have : ∃ e1, Inv e1 ∧ e' = sortBlocks e1 ∧ e1.f.go = e.f.go := by
    rcases h with h | h
    · exact setRequire_presort e e' req perm hperm hg hi hlive hset h
    · exact setRequireSeparateIndirect_presort e e' req perm hperm hg hi hlive hset h
  rcases this with ⟨e1, h1, rfl, hgo⟩
  have hsem : semOf e.f = semOf e1.f := by unfold semOf; rw [hgo]
  rw [hsem]
  exact sortBlocks_blocks_sorted e1 h1

end ModVerif.Modfile.Edit
