/-
  Helper lemmas for Tie/FnEditSort.lean (part A): the inlined generic `removeDups` of `File.SortBlocks` / `WorkFile.SortBlocks`
  (Generated/FnEdit.lean), list level.
  * Go maps as association lists: `mapGet_mapSet`; `KillRel km kl` (the `kill` map, keys `*Line` pointers, against the model's
    list of killed line ids — as a SET: Go inserts into a map, the model concatenates lists), `SeenRel` (a `have…` map against
    the model's `seen` list);
  * a typed list as a zipped list of (pointer, model entry) pairs: `ZEnts`, `REntsL.toZip` / `ofZip`, `REnts.filterZip`;
  * three generic loops with their specifications: `filterLoopG` (= `List.filter`), `seenLoopG` (first wins = the model's
    `killLater`), `seenBackLoopG` (last wins, downwards = the model's `killEarlier`);
  * the equations `File_removeDups_loopK = generic loop` for loops 1–6 and 8, `WorkFile_removeDups_loopK` for 1, 2, 4.
-/
import ModVerif.Proofs.TieFnEditRep
set_option linter.unusedSimpArgs false
set_option linter.unusedVariables false
namespace ModVerif.Tie.FnEditSortA
open ModVerif ModVerif.GoRt ModVerif.Generated.Edit ModVerif.Tie.FnEditRep

theorem idxL_cursor {α : Type} (pre : List α) (x : α) (rest : List α) :
    idxL (pre ++ x :: rest) (pre.length : Int) = .ok x := by
  have : ¬ ((pre.length : Int) < 0) := by omega
  simp [idxL, this, pure, Except.pure]

theorem lt_len_cursor {α : Type} (pre : List α) (x : α) (rest : List α) :
    ((pre.length : Int) < len (pre ++ x :: rest)) := by
  simp [len_eq]; omega

theorem not_lt_len_end {α : Type} (pre : List α) : ¬ ((pre.length : Int) < len (pre ++ ([] : List α))) := by
  simp [len_eq]

/-! ### maps as association lists -/

theorem mapGet_cons {κ ν : Type} [DecidableEq κ] (p : κ × ν) (t : List (κ × ν)) (k : κ) (z : ν) :
    mapGet (p :: t) k z = if p.1 = k then (p.2, true) else mapGet t k z := by
  unfold mapGet
  by_cases h : p.1 = k <;> simp [List.find?_cons, h]

theorem mapGet_nil {κ ν : Type} [DecidableEq κ] (k : κ) (z : ν) : mapGet ([] : List (κ × ν)) k z = (z, false) := rfl

theorem mapSet_nil {κ ν : Type} [DecidableEq κ] (k : κ) (v : ν) : mapSet ([] : List (κ × ν)) k v = [(k, v)] := rfl

theorem mapSet_cons {κ ν : Type} [DecidableEq κ] (p : κ × ν) (t : List (κ × ν)) (k : κ) (v : ν) :
    mapSet (p :: t) k v = if p.1 = k then (k, v) :: t.map (fun q => if q.1 = k then (k, v) else q) else p :: mapSet t k v := by
  unfold mapSet
  by_cases h : p.1 = k
  · simp [List.find?_cons, h]
  · simp only [List.find?_cons, h, decide_false, List.map_cons, if_false]
    split <;> simp

theorem mapGet_map_other {κ ν : Type} [DecidableEq κ] (k k' : κ) (v z : ν) (hk : k' ≠ k) :
    ∀ t : List (κ × ν), mapGet (t.map (fun q => if q.1 = k then (k, v) else q)) k' z = mapGet t k' z
  | [] => rfl
  | q :: t => by
    rw [List.map_cons, mapGet_cons, mapGet_cons, mapGet_map_other k k' v z hk t]
    by_cases hq : q.1 = k
    · have h1 : ¬ (k = k') := fun e => hk e.symm
      have h2 : ¬ (q.1 = k') := fun e => hk (by rw [← e, hq])
      simp [hq, h1, h2]
    · simp [hq]

theorem mapGet_mapSet {κ ν : Type} [DecidableEq κ] (k k' : κ) (v z : ν) :
    ∀ m : List (κ × ν), (mapGet (mapSet m k v) k' z).1 = if k' = k then v else (mapGet m k' z).1
  | [] => by
    rw [mapSet_nil, mapGet_cons, mapGet_nil]
    by_cases h : k' = k
    · simp [h]
    · have : ¬ (k = k') := fun e => h e.symm
      simp [h, this]
  | p :: t => by
    rw [mapSet_cons]
    by_cases hp : p.1 = k
    · simp only [hp, if_true]
      rw [mapGet_cons]
      by_cases h : k' = k
      · simp [h]
      · have h1 : ¬ (k = k') := fun e => h e.symm
        simp only [h1, h, if_false]
        rw [mapGet_map_other k k' v z h t, mapGet_cons]
        have h2 : ¬ (p.1 = k') := fun e => h (by rw [← e, hp])
        simp [h2]
    · simp only [hp, if_false]
      rw [mapGet_cons, mapGet_cons]
      by_cases h2 : p.1 = k'
      · have : ¬ (k' = k) := fun e => hp (by rw [h2, e])
        simp [h2, this]
      · simp only [h2, if_false]
        exact mapGet_mapSet k k' v z t

/-- the `kill` map of removeDups (keys: `*Line` pointers) against the model's list of killed line ids -/
def KillRel (km : List (Int × Bool)) (kl : List Nat) : Prop := ∀ n : Nat, (mapGet km (n : Int) false).1 = kl.contains n

theorem KillRel.nil : KillRel [] [] := fun _ => rfl

theorem KillRel.congr {km : List (Int × Bool)} {kl kl' : List Nat} (h : KillRel km kl) (e : ∀ n, kl'.contains n = kl.contains n) :
    KillRel km kl' := fun n => by rw [h n, e n]

theorem KillRel.set {km : List (Int × Bool)} {kl kl' : List Nat} (h : KillRel km kl) (i : Nat)
    (e : ∀ n, kl'.contains n = (n == i || kl.contains n)) : KillRel (mapSet km (i : Int) true) kl' := by
  intro n
  rw [mapGet_mapSet, e n, h n]
  by_cases hn : n = i
  · simp [hn]
  · have : ¬ ((n : Int) = (i : Int)) := by omega
    simp [hn, this]

/-- a `have…` map (keys embedded by `emb`) against the model's `seen` list -/
def SeenRel {κ κ' : Type} [DecidableEq κ] [BEq κ'] (emb : κ' → κ) (hv : List (κ × Bool)) (seen : List κ') : Prop :=
  ∀ k : κ', (mapGet hv (emb k) false).1 = seen.contains k

theorem SeenRel.nil {κ κ' : Type} [DecidableEq κ] [BEq κ'] (emb : κ' → κ) : SeenRel emb [] [] := fun _ => rfl

theorem SeenRel.set {κ κ' : Type} [DecidableEq κ] [BEq κ'] [LawfulBEq κ'] {emb : κ' → κ} (hinj : ∀ a b, emb a = emb b → a = b)
    {hv : List (κ × Bool)} {seen : List κ'} (h : SeenRel emb hv seen) (a : κ') : SeenRel emb (mapSet hv (emb a) true) (a :: seen) := by
  intro k
  rw [mapGet_mapSet, h k, List.contains_cons]
  by_cases hk : k = a
  · simp [hk]
  · have : ¬ (emb k = emb a) := fun e => hk (hinj _ _ e)
    simp [hk, this]

/-! ### typed lists as zipped lists -/

def ZEnts {α β : Type} (objs : List α) (g : β → α) (id : β → Nat) (nl : Nat) (zs : List (Int × β)) : Prop :=
  ∀ z ∈ zs, heapGet objs z.1 = .ok (g z.2) ∧ id z.2 ≤ nl

theorem REntsL.toZip {α β : Type} {objs : List α} {g : β → α} {id : β → Nat} {nl : Nat} :
    ∀ {ps : List Int} {xs : List β}, REntsL objs g id nl ps xs →
      ∃ zs : List (Int × β), ps = zs.map (·.1) ∧ xs = zs.map (·.2) ∧ ZEnts objs g id nl zs
  | [], [], _ => ⟨[], rfl, rfl, fun _ h => by cases h⟩
  | p :: ps, x :: xs, r => by
    obtain ⟨zs, h1, h2, h3⟩ := REntsL.toZip r.2
    refine ⟨(p, x) :: zs, by simp [h1], by simp [h2], ?_⟩
    intro z hz
    rcases List.mem_cons.1 hz with rfl | hz
    · exact r.1
    · exact h3 z hz
  | [], _ :: _, r => r.elim
  | _ :: _, [], r => r.elim

theorem REntsL.ofZip {α β : Type} {objs : List α} {g : β → α} {id : β → Nat} {nl : Nat} :
    ∀ {zs : List (Int × β)}, ZEnts objs g id nl zs → REntsL objs g id nl (zs.map (·.1)) (zs.map (·.2))
  | [], _ => trivial
  | z :: zs, h => ⟨h z List.mem_cons_self, REntsL.ofZip (fun y hy => h y (List.mem_cons_of_mem _ hy))⟩

theorem ZEnts.filter {α β : Type} {objs : List α} {g : β → α} {id : β → Nat} {nl : Nat} {zs : List (Int × β)}
    (h : ZEnts objs g id nl zs) (q : Int × β → Bool) : ZEnts objs g id nl (zs.filter q) :=
  fun z hz => h z (List.mem_filter.1 hz).1

theorem map_snd_filter {β : Type} (zs : List (Int × β)) (q : β → Bool) :
    (zs.filter (fun z => q z.2)).map (·.2) = (zs.map (·.2)).filter q := by
  induction zs with
  | nil => rfl
  | cons z zs ih => by_cases h : q z.2 <;> simp [List.filter_cons, h, ih]

/-- a typed list after a filter by a predicate on the model entries -/
theorem REnts.filterZip {α β : Type} {objs : List α} {g : β → α} {id : β → Nat} {nl : Nat} {zs : List (Int × β)}
    (h : ZEnts objs g id nl zs) (hn : (zs.map (·.1)).Nodup) (q : β → Bool) :
    REnts objs g id nl ((zs.filter (fun z => q z.2)).map (·.1)) ((zs.map (·.2)).filter q) := by
  refine ⟨?_, ?_⟩
  · rw [← map_snd_filter]; exact REntsL.ofZip (h.filter _)
  · exact List.Nodup.sublist (List.Sublist.map _ List.filter_sublist) hn

/-- generic filter loop -/
def filterLoopG (keep : Int → M Bool) (rx : List Int) : Nat → Int → List Int → M (Int × List Int)
  | 0, _, _ => throw Err.fuel
  | fuel + 1, ri, acc => if decide (ri < len rx) then (do
      let x ← idxL rx ri
      let b ← keep x
      if b then filterLoopG keep rx fuel (ri + 1) (acc ++ [x]) else filterLoopG keep rx fuel (ri + 1) acc)
    else pure (ri, acc)

theorem filterLoopG_spec (keep : Int → M Bool) (k : Int → Bool) :
    ∀ (rest pre rx : List Int) (ri : Int) (fuel : Nat) (acc : List Int), rx = pre ++ rest → ri = (pre.length : Int) →
      rest.length < fuel → (∀ x ∈ rest, keep x = .ok (k x)) →
      filterLoopG keep rx fuel ri acc = .ok (len rx, acc ++ rest.filter k)
  | [], pre, rx, ri, fuel + 1, acc, hrx, hri, _, _ => by
    subst hrx hri
    have := not_lt_len_end pre
    simp [filterLoopG, this, pure, Except.pure, len_eq]
  | x :: rest, pre, rx, ri, fuel + 1, acc, hrx, hri, hf, hk => by
    have ih := filterLoopG_spec keep k rest (pre ++ [x]) rx (ri + 1) fuel
    subst hrx hri
    have hx := hk x List.mem_cons_self
    simp only [filterLoopG, lt_len_cursor, decide_true, if_true, idxL_cursor, bind, Except.bind, hx]
    have hf' : rest.length < fuel := by simp at hf; omega
    have hk' : ∀ y ∈ rest, keep y = .ok (k y) := fun y hy => hk y (List.mem_cons_of_mem _ hy)
    cases hkx : k x
    · simp only [Bool.false_eq_true, if_false]
      rw [ih acc (by simp) (by simp) hf' hk']
      simp [List.filter_cons, hkx]
    · simp only [if_true]
      rw [ih (acc ++ [x]) (by simp) (by simp) hf' hk']
      simp [List.filter_cons, hkx]

/-- the filter loop over a typed list given as a zipped list -/
theorem filterLoopG_zip {β : Type} (keep : Int → M Bool) (q : β → Bool) (zs : List (Int × β)) (fuel : Nat)
    (hf : zs.length < fuel) (hk : ∀ z ∈ zs, keep z.1 = .ok (q z.2)) :
    filterLoopG keep (zs.map (·.1)) fuel 0 [] = .ok (len (zs.map (·.1)), (zs.filter (fun z => q z.2)).map (·.1)) := by
  -- a pointer-indexed predicate need not exist (pointers may repeat in general); go through positions instead
  have key : ∀ (rest : List (Int × β)) (pre : List Int) (rx : List Int) (ri : Int) (fuel : Nat) (acc : List Int),
      rx = pre ++ rest.map (·.1) → ri = (pre.length : Int) → rest.length < fuel → (∀ z ∈ rest, keep z.1 = .ok (q z.2)) →
      filterLoopG keep rx fuel ri acc = .ok (len rx, acc ++ (rest.filter (fun z => q z.2)).map (·.1)) := by
    intro rest
    induction rest with
    | nil =>
      intro pre rx ri fuel acc hrx hri hf _
      cases fuel with
      | zero => cases hf
      | succ fuel =>
        subst hrx hri
        have := not_lt_len_end pre
        simp [filterLoopG, this, pure, Except.pure, len_eq]
    | cons z rest ih =>
      intro pre rx ri fuel acc hrx hri hf hk
      cases fuel with
      | zero => cases hf
      | succ fuel =>
        have ih' := ih (pre ++ [z.1]) rx (ri + 1) fuel
        subst hrx hri
        have hz := hk z List.mem_cons_self
        simp only [List.map_cons] at ih' ⊢
        simp only [filterLoopG, lt_len_cursor, decide_true, if_true, idxL_cursor, bind, Except.bind, hz]
        have hf' : rest.length < fuel := by simp at hf; omega
        have hk' : ∀ y ∈ rest, keep y.1 = .ok (q y.2) := fun y hy => hk y (List.mem_cons_of_mem _ hy)
        cases hq : q z.2
        · simp only [Bool.false_eq_true, if_false]
          rw [ih' acc (by simp) (by simp) hf' hk']
          simp [List.filter_cons, hq]
        · simp only [if_true]
          rw [ih' (acc ++ [z.1]) (by simp) (by simp) hf' hk']
          simp [List.filter_cons, hq]
  have := key zs [] (zs.map (·.1)) 0 fuel [] (by simp) (by simp) hf hk
  simpa using this

/-- generic "first wins" scan -/
def seenLoopG {κ : Type} [DecidableEq κ] (get : Int → M (κ × Int)) (rx : List Int) :
    Nat → Int → List (Int × Bool) → List (κ × Bool) → M (Int × List (Int × Bool) × List (κ × Bool))
  | 0, _, _, _ => throw Err.fuel
  | fuel + 1, ri, kill, hv => if decide (ri < len rx) then (do
      let x ← idxL rx ri
      let t ← get x
      if (mapGet hv t.1 false).1 then seenLoopG get rx fuel (ri + 1) (mapSet kill t.2 true) hv
      else seenLoopG get rx fuel (ri + 1) kill (mapSet hv t.1 true))
    else pure (ri, kill, hv)

open ModVerif.Modfile.Edit (killLater killEarlier) in
/-- the "first wins" scan computes the model's `killLater` (as a set of killed ids) -/
theorem seenLoopG_spec {κ κ' β : Type} [DecidableEq κ] [BEq κ'] [LawfulBEq κ'] (emb : κ' → κ) (hinj : ∀ a b, emb a = emb b → a = b)
    (get : Int → M (κ × Int)) (key : β → κ') (id : β → Nat) :
    ∀ (rest : List (Int × β)) (pre rx : List Int) (ri : Int) (fuel : Nat) (km : List (Int × Bool)) (hv : List (κ × Bool))
      (kl : List Nat) (seen : List κ'),
      rx = pre ++ rest.map (·.1) → ri = (pre.length : Int) → rest.length < fuel →
      (∀ z ∈ rest, get z.1 = .ok (emb (key z.2), (id z.2 : Int))) → KillRel km kl → SeenRel emb hv seen →
      ∃ km' hv', seenLoopG get rx fuel ri km hv = .ok (len rx, km', hv') ∧
        KillRel km' (kl ++ killLater key id (rest.map (·.2)) seen) := by
  intro rest
  induction rest with
  | nil =>
    intro pre rx ri fuel km hv kl seen hrx hri hf _ hK _
    cases fuel with
    | zero => cases hf
    | succ fuel =>
      subst hrx hri
      have := not_lt_len_end pre
      refine ⟨km, hv, by simp [seenLoopG, this, pure, Except.pure, len_eq], ?_⟩
      simpa [killLater] using hK
  | cons z rest ih =>
    intro pre rx ri fuel km hv kl seen hrx hri hf hg hK hS
    cases fuel with
    | zero => cases hf
    | succ fuel =>
      have ih' := ih (pre ++ [z.1]) rx (ri + 1) fuel
      subst hrx hri
      simp only [List.map_cons] at ih' ⊢
      have hz := hg z List.mem_cons_self
      have hf' : rest.length < fuel := by simp at hf; omega
      have hg' : ∀ y ∈ rest, get y.1 = .ok (emb (key y.2), (id y.2 : Int)) := fun y hy => hg y (List.mem_cons_of_mem _ hy)
      simp only [seenLoopG, lt_len_cursor, decide_true, if_true, idxL_cursor, bind, Except.bind, hz, hS (key z.2)]
      cases hc : seen.contains (key z.2)
      · simp only [Bool.false_eq_true, if_false]
        obtain ⟨km', hv', e1, e2⟩ := ih' km (mapSet hv (emb (key z.2)) true) kl (key z.2 :: seen) (by simp) (by simp) hf' hg' hK
          (hS.set hinj _)
        refine ⟨km', hv', e1, ?_⟩
        simp only [List.map_cons, killLater, hc, Bool.false_eq_true, if_false]
        exact e2
      · simp only [if_true]
        obtain ⟨km', hv', e1, e2⟩ := ih' (mapSet km (id z.2 : Int) true) hv (kl ++ [id z.2]) seen (by simp) (by simp) hf' hg'
          (hK.set _ (by
            intro n
            rw [List.contains_append, List.contains_cons, List.contains_nil, Bool.or_false, Bool.or_comm])) hS
        refine ⟨km', hv', e1, ?_⟩
        simp only [List.map_cons, killLater, hc, if_true]
        simpa using e2

/-- generic "last wins" scan (downwards from the end) -/
def seenBackLoopG {κ : Type} [DecidableEq κ] (get : Int → M (κ × Int)) (rx : List Int) :
    Nat → List (Int × Bool) → List (κ × Bool) → Int → M (List (Int × Bool) × List (κ × Bool) × Int)
  | 0, _, _, _ => throw Err.fuel
  | fuel + 1, kill, hv, i => if decide (i ≥ (0 : Int)) then (do
      let x ← idxL rx i
      let t ← get x
      if (mapGet hv t.1 false).1 then seenBackLoopG get rx fuel (mapSet kill t.2 true) hv (i - 1)
      else seenBackLoopG get rx fuel kill (mapSet hv t.1 true) (i - 1))
    else pure (kill, hv, i)

theorem contains_map_old (suf : List Modfile.Replace) (x : Modfile.Replace) :
    (suf.map (·.old)).contains x.old = suf.any (fun y => y.old == x.old) := by
  induction suf with
  | nil => rfl
  | cons y t ih =>
    simp only [List.map_cons, List.contains_cons, List.any_cons, ih]
    rw [BEq.comm]

open ModVerif.Modfile.Edit (killLater killEarlier) in
/-- the "last wins" scan over the replacements computes the model's `killEarlier` (as a set) -/
theorem seenBackLoopG_spec (get : Int → M (ModVersion × Int)) :
    ∀ (revpre suf : List (Int × Modfile.Replace)) (rx : List Int) (i : Int) (fuel : Nat) (km : List (Int × Bool))
      (hv : List (ModVersion × Bool)) (kl : List Nat),
      rx = (revpre.reverse ++ suf).map (·.1) → i = (revpre.length : Int) - 1 → revpre.length < fuel →
      (∀ z ∈ revpre, get z.1 = .ok (mvG z.2.old, (z.2.lineId : Int))) →
      KillRel km (kl ++ killEarlier (suf.map (·.2))) → SeenRel mvG hv (suf.map (·.2.old)) →
      ∃ km' hv', seenBackLoopG get rx fuel km hv i = .ok (km', hv', -1) ∧
        KillRel km' (kl ++ killEarlier ((revpre.reverse ++ suf).map (·.2))) := by
  intro revpre
  induction revpre with
  | nil =>
    intro suf rx i fuel km hv kl hrx hi hf _ hK _
    cases fuel with
    | zero => cases hf
    | succ fuel =>
      have hi' : i = -1 := by simpa using hi
      subst hi'
      refine ⟨km, hv, by simp [seenBackLoopG, pure, Except.pure], by simpa using hK⟩
  | cons z r ih =>
    intro suf rx i fuel km hv kl hrx hi hf hg hK hS
    cases fuel with
    | zero => cases hf
    | succ fuel =>
      have hz := hg z List.mem_cons_self
      have hf' : r.length < fuel := by simp at hf; omega
      have hg' : ∀ y ∈ r, get y.1 = .ok (mvG y.2.old, (y.2.lineId : Int)) := fun y hy => hg y (List.mem_cons_of_mem _ hy)
      have hi0 : i = (r.length : Int) := by simp at hi; omega
      have hidx : idxL rx i = .ok z.1 := by
        rw [hrx, hi0]
        have : (List.map (fun x => x.1) ((z :: r).reverse ++ suf)) = (r.reverse.map (·.1)) ++ z.1 :: suf.map (·.1) := by simp
        rw [this]
        have hl : (r.length : Int) = ((r.reverse.map (·.1)).length : Int) := by simp
        rw [hl]; exact idxL_cursor _ _ _
      have hge : i ≥ 0 := by omega
      have hrx' : rx = (r.reverse ++ z :: suf).map (·.1) := by rw [hrx]; simp
      have hlist : (z :: r).reverse ++ suf = r.reverse ++ z :: suf := by simp
      simp only [seenBackLoopG, hge, decide_true, if_true, hidx, bind, Except.bind, hz]
      have hq := hS z.2.old
      have hq' : (mapGet hv (mvG z.2.old) false).1 = (suf.map (·.2)).any (fun y => y.old == z.2.old) := by
        rw [← contains_map_old, List.map_map]; exact hq
      rw [hq']
      cases hc : (suf.map (·.2)).any (fun y => y.old == z.2.old)
      · simp only [Bool.false_eq_true, if_false]
        obtain ⟨km', hv', e1, e2⟩ := ih (z :: suf) rx (i - 1) fuel km (mapSet hv (mvG z.2.old) true) kl hrx' (by omega) hf' hg'
          (by simpa [killEarlier, hc] using hK)
          (by simpa using hS.set (fun a b => mvG_inj) z.2.old)
        exact ⟨km', hv', e1, by rw [hlist]; exact e2⟩
      · simp only [if_true]
        obtain ⟨km', hv', e1, e2⟩ := ih (z :: suf) rx (i - 1) fuel (mapSet km (z.2.lineId : Int) true) hv kl hrx' (by omega) hf' hg'
          (by
            refine hK.set _ ?_
            intro n
            simp only [List.map_cons, killEarlier, hc, if_true, List.contains_append, List.contains_cons]
            rw [Bool.or_left_comm])
          (by
            intro k
            have := hS k
            simp only [List.map_cons, List.contains_cons]
            rw [this]
            -- the key of `z` is already in `seen`
            have hin : (suf.map (·.2.old)).contains z.2.old = true := by
              have := contains_map_old (suf.map (·.2)) z.2
              simp only [List.map_map] at this
              rw [hc] at this; exact this
            by_cases hk : k = z.2.old
            · rw [hk, hin]; simp
            · simp [hk])
        exact ⟨km', hv', e1, by rw [hlist]; exact e2⟩

theorem loop1_eq (rx : List Int) (f : Int) (world : Heap) :
    ∀ (fuel : Nat) (ri : Int) (kill : List (Int × Bool)) (hv : List (ModVersion × Bool)),
    File_removeDups_loop1 rx f world fuel ri kill hv =
      seenLoopG (fun x => do let t ← heapGet world.excludes x; pure (t.Mod, t.Syntax)) rx fuel ri kill hv := by
  intro fuel
  induction fuel with
  | zero => intro ri kill hv; rfl
  | succ n ih =>
    intro ri kill hv
    simp only [File_removeDups_loop1, seenLoopG, ih]
    split
    · cases idxL rx ri with
      | error e => rfl
      | ok x =>
        simp only [bind, Except.bind]
        cases hx : heapGet world.excludes x with
        | error e => rfl
        | ok t => simp [hx, pure, Except.pure]
    · rfl

theorem loop2_eq (rx : List Int) (f : Int) (kill : List (Int × Bool)) (world : Heap) :
    ∀ (fuel : Nat) (ri : Int) (acc : List Int),
    File_removeDups_loop2 rx f kill world fuel ri acc =
      filterLoopG (fun x => do let t ← heapGet world.excludes x; pure (!(mapGet kill t.Syntax false).1)) rx fuel ri acc := by
  intro fuel
  induction fuel with
  | zero => intro ri acc; rfl
  | succ n ih =>
    intro ri acc
    simp only [File_removeDups_loop2, filterLoopG, ih, bind_assoc, pure_bind]

theorem loop4_eq (rx : List Int) (f : Int) (kill : List (Int × Bool)) (world : Heap) :
    ∀ (fuel : Nat) (ri : Int) (acc : List Int),
    File_removeDups_loop4 rx f kill world fuel ri acc =
      filterLoopG (fun x => do let t ← heapGet world.replaces x; pure (!(mapGet kill t.Syntax false).1)) rx fuel ri acc := by
  intro fuel
  induction fuel with
  | zero => intro ri acc; rfl
  | succ n ih =>
    intro ri acc
    simp only [File_removeDups_loop4, filterLoopG, ih, bind_assoc, pure_bind]

theorem loop6_eq (rx : List Int) (f : Int) (kill : List (Int × Bool)) (world : Heap) :
    ∀ (fuel : Nat) (ri : Int) (acc : List Int),
    File_removeDups_loop6 rx f kill world fuel ri acc =
      filterLoopG (fun x => do let t ← heapGet world.tools x; pure (!(mapGet kill t.Syntax false).1)) rx fuel ri acc := by
  intro fuel
  induction fuel with
  | zero => intro ri acc; rfl
  | succ n ih =>
    intro ri acc
    simp only [File_removeDups_loop6, filterLoopG, ih, bind_assoc, pure_bind]

theorem wloop2_eq (rx : List Int) (f : Int) (kill : List (Int × Bool)) (world : Heap) :
    ∀ (fuel : Nat) (ri : Int) (acc : List Int),
    WorkFile_removeDups_loop2 rx kill f world fuel ri acc =
      filterLoopG (fun x => do let t ← heapGet world.replaces x; pure (!(mapGet kill t.Syntax false).1)) rx fuel ri acc := by
  intro fuel
  induction fuel with
  | zero => intro ri acc; rfl
  | succ n ih =>
    intro ri acc
    simp only [WorkFile_removeDups_loop2, filterLoopG, ih, bind_assoc, pure_bind]

theorem loop8_eq (rx : List Int) (kill : List (Int × Bool)) (b : Int) (world : Heap) :
    ∀ (fuel : Nat) (ri : Int) (acc : List Int),
    File_removeDups_loop8 rx kill b world fuel ri acc =
      filterLoopG (fun x => pure (!(mapGet kill x false).1)) rx fuel ri acc := by
  intro fuel
  induction fuel with
  | zero => intro ri acc; rfl
  | succ n ih =>
    intro ri acc
    simp only [File_removeDups_loop8, filterLoopG, ih, bind_assoc, pure_bind]

theorem wloop4_eq (rx : List Int) (kill : List (Int × Bool)) (b : Int) (world : Heap) :
    ∀ (fuel : Nat) (ri : Int) (acc : List Int),
    WorkFile_removeDups_loop4 rx kill b world fuel ri acc =
      filterLoopG (fun x => pure (!(mapGet kill x false).1)) rx fuel ri acc := by
  intro fuel
  induction fuel with
  | zero => intro ri acc; rfl
  | succ n ih =>
    intro ri acc
    simp only [WorkFile_removeDups_loop4, filterLoopG, ih, bind_assoc, pure_bind]

theorem loop5_eq (rx : List Int) (f : Int) (world : Heap) :
    ∀ (fuel : Nat) (ri : Int) (kill : List (Int × Bool)) (hv : List (Bytes × Bool)),
    File_removeDups_loop5 rx f world fuel ri kill hv =
      seenLoopG (fun x => do let t ← heapGet world.tools x; pure (t.Path, t.Syntax)) rx fuel ri kill hv := by
  intro fuel
  induction fuel with
  | zero => intro ri kill hv; rfl
  | succ n ih =>
    intro ri kill hv
    simp only [File_removeDups_loop5, seenLoopG, ih]
    split
    · cases idxL rx ri with
      | error e => rfl
      | ok x =>
        simp only [bind, Except.bind]
        cases hx : heapGet world.tools x with
        | error e => rfl
        | ok t => simp [hx, pure, Except.pure]
    · rfl

theorem loop3_eq (f : Int) (world : Heap) (o : File) (ho : heapGet world.mods f = .ok o) :
    ∀ (fuel : Nat) (kill : List (Int × Bool)) (hv : List (ModVersion × Bool)) (i : Int),
    File_removeDups_loop3 f world fuel kill hv i =
      seenBackLoopG (fun x => do let t ← heapGet world.replaces x; pure (t.Old, t.Syntax)) o.Replace fuel kill hv i := by
  intro fuel
  induction fuel with
  | zero => intro kill hv i; rfl
  | succ n ih =>
    intro kill hv i
    simp only [File_removeDups_loop3, seenBackLoopG, ih, ho]
    split
    · simp only [bind, Except.bind]
      cases idxL o.Replace i with
      | error e => rfl
      | ok x =>
        simp only []
        cases hx : heapGet world.replaces x with
        | error e => rfl
        | ok t => simp [hx, pure, Except.pure]
    · rfl

theorem wloop1_eq (f : Int) (world : Heap) (o : WorkFile) (ho : heapGet world.works f = .ok o) :
    ∀ (fuel : Nat) (kill : List (Int × Bool)) (hv : List (ModVersion × Bool)) (i : Int),
    WorkFile_removeDups_loop1 f world fuel kill hv i =
      seenBackLoopG (fun x => do let t ← heapGet world.replaces x; pure (t.Old, t.Syntax)) o.Replace fuel kill hv i := by
  intro fuel
  induction fuel with
  | zero => intro kill hv i; rfl
  | succ n ih =>
    intro kill hv i
    simp only [WorkFile_removeDups_loop1, seenBackLoopG, ih, ho]
    split
    · simp only [bind, Except.bind]
      cases idxL o.Replace i with
      | error e => rfl
      | ok x =>
        simp only []
        cases hx : heapGet world.replaces x with
        | error e => rfl
        | ok t => simp [hx, pure, Except.pure]
    · rfl

end ModVerif.Tie.FnEditSortA
