import ModVerif.Spec.ZipSpec
import ModVerif.Proofs.ZipCheckFiles
namespace ModVerif.Proofs.Zip
open ModVerif ModVerif.PathClean ModVerif.Zip ModVerif.ZipSpec

/-! ### valid files of the second loop -/

theorem mainPass_validFiles (E : Env) (ge124 : Bool) (hg : List Bytes) :
    ∀ (l : List FileInfo) (s : St), s.cf.valid = s.validFiles.map (·.path) →
      (∀ f ∈ (mainPass E ge124 hg s l).validFiles, f ∈ s.validFiles ∨ (f ∈ l ∧ f.mode = .regular)) ∧
      (mainPass E ge124 hg s l).cf.valid = (mainPass E ge124 hg s l).validFiles.map (·.path) := by
  intro l
  induction l with
  | nil => intro s hs; exact ⟨fun f hf => Or.inl hf, hs⟩
  | cons f t ih =>
    intro s hs
    simp only [mainPass, List.foldl_cons]
    have hsh := stepFile_shape E ge124 hg s f
    generalize stepFile E ge124 hg s f = s' at hsh ⊢
    cases hsh with
    | err s0 h om r =>
      have hv := addError_valid s0 f.path om r
      obtain ⟨h1, h2⟩ := ih (s0.addError f.path om r) (by rw [hv.1, hv.2, h.valid, h.validFiles]; exact hs)
      refine ⟨?_, h2⟩
      intro g hg'
      rcases h1 g hg' with hm | ⟨hm, hr⟩
      · left; rw [hv.2, h.validFiles] at hm; exact hm
      · right; exact ⟨List.mem_cons_of_mem _ hm, hr⟩
    | valid s0 h hreg =>
      obtain ⟨h1, h2⟩ := ih (s0.pushValid f) (by
        show s0.cf.valid ++ [f.path] = (s0.validFiles ++ [f]).map (·.path)
        rw [h.valid, h.validFiles, hs]; simp)
      refine ⟨?_, h2⟩
      intro g hg'
      rcases h1 g hg' with hm | ⟨hm, hr⟩
      · have : g ∈ s0.validFiles ++ [f] := hm
        rw [h.validFiles] at this
        rcases List.mem_append.mp this with hm | hm
        · left; exact hm
        · right; rw [List.mem_singleton.mp hm]; exact ⟨List.mem_cons_self, hreg⟩
      · right; exact ⟨List.mem_cons_of_mem _ hm, hr⟩

theorem prePass_validFiles : ∀ (l : List FileInfo) (a : Pre), a.st.validFiles = [] →
    (l.foldl preStep a).st.validFiles = [] := by
  intro l
  induction l with
  | nil => intro a h; exact h
  | cons f t ih =>
    intro a h
    apply ih
    rw [preStep_st]
    split
    · rw [(addError_valid _ _ _ _).2]; exact h
    · exact h

/-- the files `Create` writes are regular files of the input, and their paths are the valid list. -/
theorem checkFilesSt_validFiles (E : Env) (ge124 : Bool) (files : List FileInfo) :
    (∀ f ∈ (checkFilesSt E files ge124).validFiles, f ∈ files ∧ f.mode = .regular) ∧
    (checkFilesSt E files ge124).cf.valid = (checkFilesSt E files ge124).validFiles.map (·.path) := by
  unfold checkFilesSt
  have h0 : (prePass files).st.validFiles = [] := prePass_validFiles files {} rfl
  have hinv := (prePass_foldl_inv files {} preInv_init).1
  change PreInv (prePass files).st at hinv
  obtain ⟨h1, h2⟩ := mainPass_validFiles E ge124 (prePass files).haveGoMod files (prePass files).st
    (by rw [hinv.valid, h0]; rfl)
  refine ⟨?_, h2⟩
  intro f hf
  rcases h1 f hf with hm | hm
  · rw [h0] at hm; cases hm
  · exact hm

end ModVerif.Proofs.Zip
