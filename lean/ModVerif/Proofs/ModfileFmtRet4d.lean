/-
  C02, clause 3 with a version fixer and retract directives — the tree effect of `fixRetract` as a MAP OVER LINES,
  statement by statement: `f.syn.stmts = mapLines F stmts` where `stmts` are the statements the first run of the
  directive layer rewrote, `F` replaces tokens only and leaves every line alone whose identity no retract entry carries.
-/
import ModVerif.Proofs.ModfileFmtRet4c
namespace ModVerif.Proofs.ModfileFmtRet
open ModVerif ModVerif.Modfile ModVerif.Proofs.ModfileC20
open ModVerif.Proofs.ModfileFmtDir ModVerif.Proofs.ModfileEol ModVerif.Proofs.ModfileFmtTree

/-- apply `F` to every line of every statement -/
def mapLines (F : Line → Line) : List Expr → List Expr
  | [] => []
  | .line l :: xs => .line (F l) :: mapLines F xs
  | .lineBlock b :: xs => .lineBlock { b with lines := b.lines.map F } :: mapLines F xs
  | x :: xs => x :: mapLines F xs

theorem linesOf_mapLines (F : Line → Line) : ∀ xs : List Expr, linesOf (mapLines F xs) = (linesOf xs).map F := by
  intro xs
  induction xs with
  | nil => rfl
  | cons x xs ih =>
    cases x <;> simp [mapLines, ih]

theorem mapLines_noTok (F : Line → Line) (hF : ∀ l, noTokL (F l) = noTokL l) :
    ∀ xs : List Expr, (mapLines F xs).map noTok = xs.map noTok := by
  intro xs
  induction xs with
  | nil => rfl
  | cons x xs ih =>
    cases x with
    | line l => simp [mapLines, ih, noTok, hF]
    | lineBlock b =>
      simp only [mapLines, List.map_cons, ih, noTok, List.map_map]
      congr 3
      apply List.map_congr_left
      intro l _
      exact hF l
    | commentBlock c => simp [mapLines, ih]
    | lparen p => simp [mapLines, ih]
    | rparen p => simp [mapLines, ih]

theorem noTokL_inj {l l' : Line} (h : noTokL l = noTokL l') (ht : l.token = l'.token) : l = l' := by
  cases l; cases l'
  simp only [noTokL, Line.mk.injEq] at h ⊢
  simp only at ht
  obtain ⟨h1, h2, h3, _, h5, h6⟩ := h
  exact ⟨h1, h2, h3, ht, h5, h6⟩

/-- statements with the same skeleton and the same lines are equal -/
theorem stmts_eq_of_noTok_lines : ∀ (xs ys : List Expr), xs.map noTok = ys.map noTok → linesOf xs = linesOf ys →
    xs = ys := by
  intro xs
  induction xs with
  | nil => intro ys h _; cases ys with | nil => rfl | cons y ys => simp at h
  | cons x xs ih =>
    intro ys h hl
    cases ys with
    | nil => simp at h
    | cons y ys =>
      simp only [List.map_cons, List.cons.injEq] at h
      obtain ⟨h1, h2⟩ := h
      cases x with
      | line l =>
        cases y with
        | line l' =>
          simp only [linesOf_line, List.cons.injEq] at hl
          rw [hl.1, ih ys h2 hl.2]
        | _ => simp [noTok] at h1
      | lineBlock b =>
        cases y with
        | lineBlock b' =>
          simp only [linesOf_block] at hl
          simp only [noTok, Expr.lineBlock.injEq] at h1
          have hlen : b.lines.length = b'.lines.length := by
            have h9 := congrArg LineBlock.lines h1
            have := congrArg List.length h9
            simpa using this
          obtain ⟨e1, e2⟩ := List.append_inj hl hlen
          rw [ih ys h2 e2]
          have hb : b = b' := by
            cases b; cases b'
            simp only [LineBlock.mk.injEq] at h1 ⊢
            simp only at e1
            obtain ⟨a1, a2, a3, a4, _, a6⟩ := h1
            exact ⟨a1, a2, a3, a4, e1, a6⟩
          rw [hb]
        | _ => simp [noTok] at h1
      | commentBlock c =>
        cases y with
        | commentBlock c' =>
          simp only [linesOf_commentBlock] at hl
          simp only [noTok] at h1
          rw [h1, ih ys h2 hl]
        | _ => simp [noTok] at h1
      | lparen p =>
        cases y with
        | lparen p' =>
          simp only [linesOf_lparen] at hl
          simp only [noTok] at h1
          rw [h1, ih ys h2 hl]
        | _ => simp [noTok] at h1
      | rparen p =>
        cases y with
        | rparen p' =>
          simp only [linesOf_rparen] at hl
          simp only [noTok] at h1
          rw [h1, ih ys h2 hl]
        | _ => simp [noTok] at h1

theorem updF_tok_noTokL (id : Nat) (toks : List Bytes) (l : Line) :
    noTokL (updF id (fun l' => { l' with token := toks }) l) = noTokL l := by
  unfold updF; split <;> rfl

/-- ★ the loop of `fixRetract` acts on the lines of the tree as a map that replaces tokens only and leaves every line
    alone whose identity no entry carries -/
theorem fixRetractLoop_lineMap (path : Bytes) (fx : Fixer) :
    ∀ (rs : List Retract) (fs : FileSyntax) (e : List RuleErr), NodupIds fs.stmts →
    ∃ F : Line → Line, (∀ l, noTokL (F l) = noTokL l) ∧ (∀ l, l.id ∉ rs.map (·.lineId) → F l = l) ∧
      linesOf (fixRetractLoop path fx rs fs e).2.1.stmts = (linesOf fs.stmts).map F := by
  intro rs
  induction rs with
  | nil => intro fs e _; exact ⟨id, fun _ => rfl, fun _ _ => rfl, by simp [fixRetractLoop]⟩
  | cons r rest ih =>
    intro fs e hn
    rw [fixRetractLoop_cons]
    cases hfind : fs.findLine r.lineId with
    | none =>
      obtain ⟨F, f1, f2, f3⟩ := ih fs e hn
      exact ⟨F, f1, fun l hl => f2 l (fun hc => hl (by simp [hc])), f3⟩
    | some a =>
      simp only
      have hs : (frStep path fx fs r a e).2.1 = fs.updateLine r.lineId (fun l' => { l' with
          token := (frArgs a).1 ++ (parseVersionInterval path (frArgs a).2 (some fx)).1 }) := rfl
      have hn1 : NodupIds (frStep path fx fs r a e).2.1.stmts := by rw [hs]; exact nodupIds_updateLine _ _ fs hn
      obtain ⟨F, f1, f2, f3⟩ := ih (frStep path fx fs r a e).2.1 (frStep path fx fs r a e).2.2 hn1
      refine ⟨F ∘ updF r.lineId (fun l' => { l' with
          token := (frArgs a).1 ++ (parseVersionInterval path (frArgs a).2 (some fx)).1 }), ?_, ?_, ?_⟩
      · intro l
        simp only [Function.comp, f1, updF_tok_noTokL]
      · intro l hl
        simp only [List.map_cons, List.mem_cons, not_or] at hl
        have h1 : updF r.lineId (fun l' => { l' with
            token := (frArgs a).1 ++ (parseVersionInterval path (frArgs a).2 (some fx)).1 }) l = l := by
          unfold updF
          split
          · rename_i hc
            exact absurd (by simpa using hc) hl.1
          · rfl
        simp only [Function.comp, h1]
        exact f2 l hl.2
      · rw [f3, hs, linesOf_updateLine _ _ fs hn, List.map_map]

theorem fixRetractLoop_ids (path : Bytes) (fx : Fixer) :
    ∀ (rs : List Retract) (fs : FileSyntax) (e : List RuleErr),
    (fixRetractLoop path fx rs fs e).1.map (·.lineId) = rs.map (·.lineId) ∧
    (fixRetractLoop path fx rs fs e).1.map (·.rationale) = rs.map (·.rationale) := by
  intro rs
  induction rs with
  | nil => intro fs e; exact ⟨rfl, rfl⟩
  | cons r rest ih =>
    intro fs e
    rw [fixRetractLoop_cons]
    cases hfind : fs.findLine r.lineId with
    | none => simp [ih fs e]
    | some a => simp [ih]

/-- ★ `fsyn_lines_map` — the tree of a strictly accepted go.mod with a fixer, statement by statement: `f.syn.stmts` are
    the statements `stmts` the (error-free) first run of the directive layer rewrote, with a token-only map `F` applied
    to every line, and `F` leaves every line alone whose identity no retract entry of `f` carries; `f` is the state of
    that run except for `syn` and the intervals of `retract` (same identities, same rationales, in the same order). -/
theorem fsyn_lines_map (name x : Bytes) (fx : Fixer) (f : Modfile.File)
    (h : parseToFile name x (some fx) true = .ok f) :
    ∃ (fs : FileSyntax) (st : AddState) (stmts : List Expr) (F : Line → Line),
      parse name x = .ok fs ∧ addStmts (some fx) true { file := { syn := fs } } fs.stmts = (st, stmts) ∧
      st.errsRev = [] ∧ NodupIds stmts ∧ (∀ l, noTokL (F l) = noTokL l) ∧
      (∀ l, l.id ∉ f.retract.map (·.lineId) → F l = l) ∧ f.syn.stmts = mapLines F stmts ∧
      f.retract.map (·.lineId) = st.file.retract.map (·.lineId) ∧
      f.retract.map (·.rationale) = st.file.retract.map (·.rationale) ∧
      withRet [] ⟨{ f with syn := {} }, []⟩ = withRet [] ⟨{ st.file with syn := {} }, []⟩ := by
  unfold parseToFile at h
  cases hp : parse name x with
  | error e => simp [hp] at h
  | ok fs =>
    simp only [hp] at h
    have hkeys := addStmts_keys (some fx) true fs.stmts { file := { syn := fs } }
    cases ha : addStmts (some fx) true { file := { syn := fs } } fs.stmts with
    | mk st stmts =>
      rw [ha] at hkeys
      simp only [ha] at h
      simp only at hkeys
      have hn : NodupIds stmts := nodupIds_of_keys hkeys (parse_ids_nodup hp)
      generalize hst2 : ({ st with file := { st.file with syn := { fs with stmts := stmts } } } : AddState) = st2 at h
      have hsyn : st2.file.syn.stmts = stmts := by rw [← hst2]
      have hretq : st2.file.retract = st.file.retract := by rw [← hst2]
      have herr2 : st2.errsRev = st.errsRev := by rw [← hst2]
      have hcore : withRet [] ⟨{ st2.file with syn := {} }, []⟩ = withRet [] ⟨{ st.file with syn := {} }, []⟩ := by
        rw [← hst2]
      split at h
      · rename_i herr
        simp only [Except.ok.injEq] at h
        have herr' : (fixRetract st2 (some fx)).errsRev = [] := by simpa using herr
        rw [fixRetract_eq] at h herr'
        cases hret : st2.file.retract with
        | nil =>
          simp only [hret] at h herr'
          subst h
          refine ⟨fs, st, stmts, id, rfl, ha, by rw [← herr2]; exact herr', hn, fun _ => rfl, fun _ _ => rfl, ?_,
            by rw [hretq], by rw [hretq], hcore⟩
          rw [hsyn]
          have : ∀ xs : List Expr, mapLines id xs = xs := by
            intro xs
            induction xs with
            | nil => rfl
            | cons y ys ih => cases y <;> simp [mapLines, ih]
          exact (this stmts).symm
        | cons r0 rs0 =>
          simp only [hret] at h herr'
          cases hemp : (modPath st2.file).isEmpty with
          | true =>
            simp only [hemp, if_true, AddState.err] at herr'
            cases herr'
          | false =>
            simp only [hemp, Bool.false_eq_true, if_false] at h herr'
            obtain ⟨add, hadd⟩ := loop_errs_ext (modPath st2.file) fx (r0 :: rs0) st2.file.syn st2.errsRev
            have he0 : st2.errsRev = [] := by
              rw [herr'] at hadd
              have := congrArg List.length hadd
              simp only [List.length_nil, List.length_append] at this
              exact List.eq_nil_of_length_eq_zero (by omega)
            obtain ⟨F, f1, f2, f3⟩ := fixRetractLoop_lineMap (modPath st2.file) fx (r0 :: rs0) st2.file.syn st2.errsRev
              (by rw [hsyn]; exact hn)
            obtain ⟨i1, i2⟩ := fixRetractLoop_ids (modPath st2.file) fx (r0 :: rs0) st2.file.syn st2.errsRev
            obtain ⟨n1, _, _⟩ := fixRetractLoop_noTok (modPath st2.file) fx (r0 :: rs0) st2.file.syn st2.errsRev
            subst h
            refine ⟨fs, st, stmts, F, rfl, ha, by rw [← herr2]; exact he0, hn, f1, ?_, ?_, ?_, ?_, ?_⟩
            · intro l hl
              apply f2 l
              rw [← i1]
              exact hl
            · apply stmts_eq_of_noTok_lines
              · rw [mapLines_noTok F f1, ← hsyn]
                exact n1
              · rw [linesOf_mapLines, ← hsyn]
                exact f3
            · rw [← hretq, hret]; exact i1
            · rw [← hretq, hret]; exact i2
            · rw [← hcore]; rfl
      · cases h

end ModVerif.Proofs.ModfileFmtRet
