/-
  Tie proofs for the regenerated semver functions, part 2: parsePrerelease and parseBuild.
  The Go loops track `start` (begin of the identifier in progress); the model uses `splitOn 46` and `all`.
  Bridge: `identScan good cur rest` (a structural recursion over the unread input, carrying the identifier in
  progress), shown equal to the loop (+ the code after the loop) on one side and to the model formula on the other.
-/
import ModVerif.Proofs.TieFnSemverScan
namespace ModVerif.TieFnSemver
open ModVerif ModVerif.GoRt

/-- the identifier scan shared by parsePrerelease and parseBuild, as a function of the identifier in progress
    (`cur = v[start:i]`) and the unread input: every byte is an identifier character or '.', and every
    identifier (closed by a '.' or by the end) is `good`. -/
def identScan (good : Bytes → Bool) (cur : Bytes) : Bytes → Bool
  | [] => good cur
  | c :: s =>
    if !Semver.isIdentChar c && c != 46 then false
    else if c == 46 then good cur && identScan good [] s
    else identScan good (cur ++ [c]) s

def okc : UInt8 → Bool := fun c => Semver.isIdentChar c || c == 46

def splitGood (good : Bytes → Bool) (cur : Bytes) (body : Bytes) : Bool :=
  match splitOn 46 body with
  | h :: t => good (cur ++ h) && t.all good
  | [] => false

theorem splitOn_ne_nil' (sep : UInt8) : ∀ s : Bytes, splitOn sep s ≠ []
  | [] => by simp [splitOn]
  | c :: rest => by
    unfold splitOn
    split
    · simp
    · split <;> simp

theorem identScan_eq (good : Bytes → Bool) : ∀ (body cur : Bytes),
    identScan good cur body = (body.all okc && splitGood good cur body) := by
  intro body
  induction body with
  | nil => intro cur; simp [identScan, splitGood, splitOn]
  | cons c s ih =>
    intro cur
    by_cases hdot : c = 46
    · subst hdot
      have : Semver.isIdentChar 46 = false := by decide
      simp [identScan, this, ih, okc, splitGood, splitOn]
      cases h : splitOn 46 s with
      | nil => exact absurd h (splitOn_ne_nil' 46 s)
      | cons a t => simp; cases good cur <;> cases s.all okc <;> simp
    · have hb : (c == 46) = false := by simp [hdot]
      have hb' : (c != 46) = true := by simp [hdot]
      by_cases hid : Semver.isIdentChar c = true
      · simp [identScan, hid, hb, ih, okc, splitGood, splitOn]
        cases h : splitOn 46 s with
        | nil => exact absurd h (splitOn_ne_nil' 46 s)
        | cons a t => simp
      · simp [identScan, hid, hb, hb', okc]

/-! ### parseBuild -/

/-- what parseBuild does with the result of its loop -/
def buildCont (v : Bytes) (r : Ctl (Bytes × Bytes × Bool) (Int × Int)) : M (Bytes × Bytes × Bool) :=
  match r with
  | Ctl.ret rv => pure rv
  | Ctl.next (start, i) => (if (decide (start = i)) then (pure (([] : Bytes), ([] : Bytes), false)) else (do
      let t9 ← sliceTo v i
      let t10 ← sliceFrom v i
      pure (t9, t10, true)))

theorem parseBuild_unfold (fuel : Nat) (c : UInt8) (rest : Bytes) :
    Generated.Semver.parseBuild fuel (c :: rest) =
      if c = 43 then Generated.Semver.parseBuild_loop1 (c :: rest) [] [] false fuel 1 1 >>= buildCont (c :: rest)
      else .ok ([], [], false) := by
  unfold Generated.Semver.parseBuild
  simp only [idx_zero_cons, bind_ok, pure_eq_ok, byte_eq_int (n := 43) (d := 43) rfl]
  by_cases h : c = 43
  · simp [h]
    congr 1; funext r
    rcases r with rv | ⟨s, i⟩ <;> simp [buildCont]
  · simp [h]

def nonEmpty : Bytes → Bool := fun s => !s.isEmpty

theorem parseBuild_loop1_spec : ∀ (suf pre : Bytes) (start fuel : Nat), suf.length < fuel → start ≤ pre.length →
    (Generated.Semver.parseBuild_loop1 (pre ++ suf) [] [] false fuel (start : Int) (pre.length : Int)
        >>= buildCont (pre ++ suf))
      = .ok (if identScan nonEmpty (pre.drop start) suf then (pre ++ suf, [], true) else ([], [], false)) := by
  intro suf
  induction suf with
  | nil =>
    intro pre start fuel hf hs
    obtain ⟨f, rfl⟩ : ∃ f, fuel = f + 1 := ⟨fuel - 1, by omega⟩
    simp [Generated.Semver.parseBuild_loop1, len_eq, buildCont, identScan, nonEmpty]
    have h1 := sliceTo_natCast (v := pre) (k := pre.length) (Nat.le_refl _)
    have h2 := sliceFrom_natCast (v := pre) (k := pre.length) (Nat.le_refl _)
    by_cases hs' : start = pre.length
    · simp [hs']
    · have : start < pre.length := by omega
      have hne : ¬ ((start : Int) = (pre.length : Int)) := by omega
      simp [hne, this, h1, h2]
  | cons c suf ih =>
    intro pre start fuel hf hs
    obtain ⟨f, rfl⟩ : ∃ f, fuel = f + 1 := ⟨fuel - 1, by simp at hf; omega⟩
    have hlt : (pre.length : Int) < len (pre ++ c :: suf) := by simp [len_eq]; omega
    unfold Generated.Semver.parseBuild_loop1
    simp only [hlt, decide_true, if_true, idx_append_length, bind_ok, pure_eq_ok, isIdentChar_byte,
      byte_eq_int (n := 46) (d := 46) rfl]
    by_cases hdot : c = 46
    · subst hdot
      have h46 : Semver.isIdentChar 46 = false := by decide
      have hrec := ih (pre ++ [46]) (pre.length + 1) f (by simp at hf; omega) (by simp)
      simp only [List.append_assoc, List.singleton_append, List.length_append, List.length_singleton,
        Int.natCast_add, Int.natCast_one] at hrec
      by_cases hs' : start = pre.length
      · simp [hs', h46, identScan, nonEmpty, buildCont]
      · have hlt' : start < pre.length := by omega
        have hne : ¬ ((start : Int) = (pre.length : Int)) := by omega
        simp [hne, h46, identScan, nonEmpty, hrec, hlt']
    · have hrec := ih (pre ++ [c]) start f (by simp at hf; omega) (by simp; omega)
      simp only [List.append_assoc, List.singleton_append, List.length_append, List.length_singleton,
        Int.natCast_add, Int.natCast_one, List.drop_append_of_le_length hs] at hrec
      by_cases hid : Semver.isIdentChar c = true
      · simp [hid, hdot, identScan, hrec]
      · simp [hid, hdot, identScan, buildCont]

theorem splitGood_nil (good : Bytes → Bool) (body : Bytes) :
    splitGood good [] body = (splitOn 46 body).all good := by
  unfold splitGood
  cases h : splitOn 46 body with
  | nil => exact absurd h (splitOn_ne_nil' 46 body)
  | cons a t => simp

theorem parseBuild_ok (v : Bytes) (fuel : Nat) (hf : v.length ≤ fuel) :
    Generated.Semver.parseBuild fuel v =
      .ok (match Semver.parseBuild v with | some (t, r) => (t, r, true) | none => ([], [], false)) := by
  cases v with
  | nil => simp [Generated.Semver.parseBuild, Semver.parseBuild]
  | cons c rest =>
    rw [parseBuild_unfold]
    by_cases h : c = 43
    · subst h
      have hl := parseBuild_loop1_spec rest [43] 1 fuel (by simp at hf; omega) (by simp)
      simp only [List.singleton_append, List.length_singleton, Int.natCast_one] at hl
      simp only [if_true, hl, Semver.parseBuild, identScan_eq, List.drop_one, List.tail_cons, splitGood_nil]
      unfold okc nonEmpty
      split <;> rfl
    · simp [h, Semver.parseBuild]

/-! ### parsePrerelease -/

def goodPre : Bytes → Bool := fun s => !s.isEmpty && !Semver.isBadNum s

/-- what parsePrerelease does with the result of its loop (`fuel` is the fuel of the final isBadNum call) -/
def preCont (v : Bytes) (fuel : Nat) (r : Ctl (Bytes × Bytes × Bool) (Int × Int)) : M (Bytes × Bytes × Bool) :=
  match r with
  | Ctl.ret rv => pure rv
  | Ctl.next (start, i) => (do
      let t16 ← (if (decide (start = i)) then pure true else (do
        let t14 ← slice v start i
        let t15 ← (Generated.Semver.isBadNum fuel t14)
        pure t15))
      if t16 then (pure (([] : Bytes), ([] : Bytes), false)) else (do
        let t17 ← sliceTo v i
        let t18 ← sliceFrom v i
        pure (t17, t18, true)))

theorem parsePrerelease_unfold (fuel : Nat) (c : UInt8) (rest : Bytes) :
    Generated.Semver.parsePrerelease fuel (c :: rest) =
      if c = 45 then Generated.Semver.parsePrerelease_loop1 (c :: rest) [] [] false fuel 1 1 >>= preCont (c :: rest) fuel
      else .ok ([], [], false) := by
  unfold Generated.Semver.parsePrerelease
  simp only [idx_zero_cons, bind_ok, pure_eq_ok, byte_eq_int (n := 45) (d := 45) rfl]
  by_cases h : c = 45
  · simp [h]
    congr 1; funext r
    rcases r with rv | ⟨s, i⟩ <;> simp [preCont]
  · simp [h]

theorem slice_split (pre suf : Bytes) (start : Nat) (hs : start ≤ pre.length) :
    slice (pre ++ suf) (start : Int) (pre.length : Int) = .ok (pre.drop start) := by
  rw [slice_natCast hs (by simp)]
  simp

theorem preCont_next (pre suf : Bytes) (start F : Nat) (hs : start ≤ pre.length)
    (hF : (pre.drop start).length + 1 ≤ F) :
    preCont (pre ++ suf) F (Ctl.next ((start : Int), (pre.length : Int)))
      = .ok (if goodPre (pre.drop start) then (pre, suf, true) else ([], [], false)) := by
  have h1 := sliceTo_natCast (v := pre ++ suf) (k := pre.length) (by simp)
  have h2 := sliceFrom_natCast (v := pre ++ suf) (k := pre.length) (by simp)
  simp only [List.take_left', List.drop_left'] at h1 h2
  by_cases hs' : start = pre.length
  · simp [preCont, hs', goodPre]
  · have hne : ¬ ((start : Int) = (pre.length : Int)) := by omega
    have hlt : start < pre.length := by omega
    simp only [preCont, hne, decide_false, slice_split pre suf start hs, isBadNum_ok _ _ hF, bind_ok, pure_eq_ok, h1, h2]
    simp [goodPre, hlt]
    cases Semver.isBadNum (List.drop start pre) <;> simp

theorem parsePrerelease_loop1_spec : ∀ (suf pre : Bytes) (start fuel F : Nat), start ≤ pre.length →
    pre.length + 2 * suf.length + 1 ≤ fuel → pre.length + suf.length + 1 ≤ F →
    (Generated.Semver.parsePrerelease_loop1 (pre ++ suf) [] [] false fuel (start : Int) (pre.length : Int)
        >>= preCont (pre ++ suf) F)
      = .ok (if identScan goodPre (pre.drop start) (suf.takeWhile (· != 43))
              then (pre ++ suf.takeWhile (· != 43), suf.dropWhile (· != 43), true) else ([], [], false)) := by
  intro suf
  induction suf with
  | nil =>
    intro pre start fuel F hs hf hF
    obtain ⟨f, rfl⟩ : ∃ f, fuel = f + 1 := ⟨fuel - 1, by omega⟩
    have hc := preCont_next pre [] start F hs (by simp; omega)
    simp only [List.append_nil] at hc
    simp [Generated.Semver.parsePrerelease_loop1, len_eq, identScan, hc]
  | cons c suf ih =>
    intro pre start fuel F hs hf hF
    obtain ⟨f, rfl⟩ : ∃ f, fuel = f + 1 := ⟨fuel - 1, by omega⟩
    have hlt : (pre.length : Int) < len (pre ++ c :: suf) := by simp [len_eq]; omega
    unfold Generated.Semver.parsePrerelease_loop1
    simp only [hlt, decide_true, if_true, idx_append_length, bind_ok, pure_eq_ok, isIdentChar_byte,
      byte_eq_int (n := 46) (d := 46) rfl, byte_eq_int (n := 43) (d := 43) rfl]
    by_cases hplus : c = 43
    · subst hplus
      have hc := preCont_next pre (43 :: suf) start F hs (by simp; omega)
      simp [identScan, hc]
    · have hne43 : (c != 43) = true := by simp [hplus]
      simp only [hplus, decide_false, Bool.not_false, if_true, List.takeWhile_cons, List.dropWhile_cons, hne43]
      simp only [List.length_cons] at hf hF
      by_cases hdot : c = 46
      · subst hdot
        have h46 : Semver.isIdentChar 46 = false := by decide
        have hrec := ih (pre ++ [46]) (pre.length + 1) f F (by simp) (by simp; omega) (by simp; omega)
        simp only [List.append_assoc, List.singleton_append, List.length_append, List.length_singleton,
          Int.natCast_add, Int.natCast_one] at hrec
        by_cases hs' : start = pre.length
        · simp [hs', h46, identScan, goodPre, preCont]
        · have hlt' : start < pre.length := by omega
          have hne : ¬ ((start : Int) = (pre.length : Int)) := by omega
          have hbn := isBadNum_ok (pre.drop start) f (by simp; omega)
          simp only [hne, h46, decide_false, decide_true, slice_split pre (46 :: suf) start hs, hbn, bind_ok,
            Bool.not_false, Bool.not_true, if_true, if_false, Bool.false_eq_true]
          cases hb : Semver.isBadNum (List.drop start pre)
          · simp [identScan, goodPre, hb, hrec, hlt']
          · simp [identScan, goodPre, hb, preCont]
      · have hrec := ih (pre ++ [c]) start f F (by simp; omega) (by simp; omega) (by simp; omega)
        simp only [List.append_assoc, List.singleton_append, List.length_append, List.length_singleton,
          Int.natCast_add, Int.natCast_one, List.drop_append_of_le_length hs] at hrec
        by_cases hid : Semver.isIdentChar c = true
        · simp [hid, hdot, identScan, hrec]
        · simp [hid, hdot, identScan, preCont]

theorem parsePrerelease_ok (v : Bytes) (fuel : Nat) (hf : 2 * v.length ≤ fuel) :
    Generated.Semver.parsePrerelease fuel v =
      .ok (match Semver.parsePrerelease v with | some (t, r) => (t, r, true) | none => ([], [], false)) := by
  cases v with
  | nil => simp [Generated.Semver.parsePrerelease, Semver.parsePrerelease]
  | cons c rest =>
    rw [parsePrerelease_unfold]
    by_cases h : c = 45
    · subst h
      simp only [List.length_cons] at hf
      have hl := parsePrerelease_loop1_spec rest [45] 1 fuel fuel (by simp) (by simp; omega) (by simp; omega)
      simp only [List.singleton_append, List.length_singleton, Int.natCast_one] at hl
      simp only [if_true, hl, Semver.parsePrerelease, identScan_eq, List.drop_one, List.tail_cons, splitGood_nil]
      unfold okc goodPre
      split <;> rfl
    · simp [h, Semver.parsePrerelease]

end ModVerif.TieFnSemver
