/-
  Tie proofs for sumdb/tlog/tile.go, part 10: the environment of `tileHashReader.ReadHashes`.
  * every `TileReader.ReadTiles` function has a model tile server related to it on the planned tiles (`exists_serve`);
  * the number of planned tiles is at most `62 + 63 * len(indexes)` (explicit fuel bound).
-/
import ModVerif.Proofs.TieFnTileReadHashes
set_option linter.unusedSimpArgs false
namespace ModVerif.TieFnTile
open ModVerif ModVerif.GoRt ModVerif.GoRtTile ModVerif.TieFnTlogInt

/-! ### the number of planned tiles -/

theorem planStx_len (h N : Nat) : ∀ (xs : List Nat) (st res : List Tile.Tile × List (Tile.Tile × Nat) × List Nat),
    Tile.planStx h N xs st = .ok res → res.1.length ≤ st.1.length + xs.length := by
  intro xs
  induction xs with
  | nil => intro st res h; simp only [Tile.planStx, Except.ok.injEq] at h; subst h; simp
  | cons x xs ih =>
    intro st res hm
    obtain ⟨tiles, order, sto⟩ := st
    simp only [Tile.planStx, bind, Except.bind] at hm
    cases ht : Tile.tileForIndex h x with
    | error e => rw [ht] at hm; cases hm
    | ok t =>
      rw [ht] at hm
      simp only at hm
      split at hm
      · have := ih _ _ hm; simp only [List.length_cons] at this ⊢; omega
      · have := ih _ _ hm; simp only [List.length_append, List.length_cons, List.length_nil] at this ⊢; omega

theorem walkDown_len (N : Nat) (t : Tile.Tile) : ∀ (K : Nat) (st res : List Tile.Tile × List (Tile.Tile × Nat) × Option Nat),
    Tile.walkDown N t K st = .ok res → res.1.length = st.1.length + K := by
  intro K
  induction K with
  | zero => intro st res h; simp only [Tile.walkDown, Except.ok.injEq] at h; subst h; rfl
  | succ K ih =>
    intro st res hm
    obtain ⟨tiles, order, pos⟩ := st
    unfold Tile.walkDown at hm
    simp only at hm
    split at hm
    · cases hm
    · have := ih _ _ hm
      simp only [List.length_append, List.length_cons, List.length_nil] at this ⊢; omega

theorem planIndexes_len (h N : Nat) : ∀ (xs : List Nat) (st res : List Tile.Tile × List (Tile.Tile × Nat) × List Nat),
    Tile.planIndexes h N xs st = .ok res → res.1.length ≤ st.1.length + (N.log2 + 2) * xs.length := by
  intro xs
  induction xs with
  | nil => intro st res h; simp only [Tile.planIndexes, Except.ok.injEq] at h; subst h; simp
  | cons x xs ih =>
    intro st res hm
    obtain ⟨tiles, order, ito⟩ := st
    simp only [Tile.planIndexes, bind, Except.bind] at hm
    cases hp : Tile.planIndex h N (tiles, order, ito) x with
    | error e => rw [hp] at hm; cases hm
    | ok st1 =>
      rw [hp] at hm
      simp only at hm
      have h1 := ih _ _ hm
      -- one index adds at most `log2 N + 2` tiles
      have h2 : st1.1.length ≤ tiles.length + (N.log2 + 2) := by
        simp only [Tile.planIndex, bind, Except.bind] at hp
        split at hp
        · cases hp
        · cases ht : Tile.tileForIndex h x with
          | error e => rw [ht] at hp; cases hp
          | ok t =>
            rw [ht] at hp
            simp only at hp
            cases hwu : Tile.walkUp N order t.1 (N.log2 + 2) 0 with
            | error e => rw [hwu] at hp; cases hp
            | ok kj =>
              rw [hwu] at hp
              simp only at hp
              obtain ⟨_, hK⟩ := walkUp_bound N order t.1 kj.1 kj.2 _ _ hwu
              cases hwd : Tile.walkDown N t.1 kj.1 (tiles, order, if (kj.1 == 0) = true then some kj.2 else none) with
              | error e => rw [hwd] at hp; cases hp
              | ok r3 =>
                rw [hwd] at hp
                simp only at hp
                have hl := walkDown_len N t.1 kj.1 _ _ hwd
                split at hp
                · simp only [pure, Except.pure, Except.ok.injEq] at hp
                  subst hp
                  simp only at hl ⊢
                  omega
                · cases hp
      simp only [List.length_cons, Nat.mul_add, Nat.mul_one] at h1 ⊢
      omega

/-- at most 62 tiles for the tree hash and 63 per requested index -/
theorem planTiles_length (h N : Nat) (h1 : 1 ≤ h) (hN : N < 2 ^ 62) (idx : List Nat) :
    (planTiles h N idx).length ≤ 62 + 63 * idx.length := by
  obtain ⟨cs, tiles0, order0, sto, _, hcov, hps, _, _, hplan⟩ := plan_decomp h N h1 hN idx
  have hcl := cover_length_log cs 0 N 62 hcov (by omega)
  have h0 := planStx_len h N _ _ _ hps
  simp only [List.length_nil, List.length_map, Nat.zero_add] at h0
  have hlog : N.log2 < 62 := by
    by_cases h0 : N = 0
    · subst h0; simp
    · exact (Nat.log2_lt h0).mpr hN
  unfold planTiles
  rw [hplan]
  cases hpi : Tile.planIndexes h N idx (tiles0, order0, []) with
  | error e => simp
  | ok res =>
    have := planIndexes_len h N idx _ _ hpi
    simp only at this ⊢
    have hmul : (N.log2 + 2) * idx.length ≤ 63 * idx.length := Nat.mul_le_mul_right _ (by omega)
    omega

/-! ### a model tile server for every `ReadTiles` -/

theorem mapM_const_some {α β : Type} (b : β) : ∀ l : List α, l.mapM (fun _ => (some b : Option β)) = some (l.map fun _ => b) := by
  intro l
  induction l with
  | nil => rfl
  | cons a l ih => simp [List.mapM_cons, ih]

theorem mapM_const_none {α β : Type} : ∀ l : List α, l ≠ [] → l.mapM (fun _ => (none : Option β)) = none := by
  intro l h
  cases l with
  | nil => exact absurd rfl h
  | cons a l => simp [List.mapM_cons]

theorem mapM_congr_mem {α β : Type} (f g : α → Option β) : ∀ l : List α, (∀ x ∈ l, f x = g x) → l.mapM f = l.mapM g := by
  intro l
  induction l with
  | nil => intro _; rfl
  | cons a l ih =>
    intro h
    simp only [List.mapM_cons]
    rw [h a (by simp), ih (fun x hx => h x (by simp [hx]))]

/-- reading a duplicate-free key list back through the association list gives the values -/
theorem mapM_lookup_zip {α β : Type} [BEq α] [LawfulBEq α] : ∀ (ks : List α) (vs : List β), ks.Nodup → ks.length = vs.length →
    ks.mapM (fun k => (ks.zip vs).lookup k) = some vs := by
  intro ks
  induction ks with
  | nil => intro vs _ h; cases vs with
    | nil => rfl
    | cons v vs => simp at h
  | cons k ks ih =>
    intro vs hnd hl
    cases vs with
    | nil => simp at hl
    | cons v vs =>
      simp only [List.nodup_cons] at hnd
      simp only [List.length_cons, Nat.add_right_cancel_iff] at hl
      simp only [List.zip_cons_cons, List.mapM_cons, List.lookup_cons, beq_self_eq_true]
      have key : ∀ f : α → Option β, (∀ x ∈ ks, f x = (ks.zip vs).lookup x) →
          (do let a ← some v; let b ← ks.mapM f; pure (a :: b)) = some (v :: vs) := by
        intro f hf
        rw [mapM_congr_mem f _ ks hf, ih vs hnd.2 hl]
        rfl
      apply key
      intro x hx
      have hne : (x == k) = false := by
        rw [beq_eq_false_iff_ne]; intro e; subst e; exact hnd.1 hx
      simp only [hne]

section
variable {H : Type} (ofBytes : Bytes → H)

/-- EVERY `ReadTiles` function is matched by a model tile server on a duplicate-free tile list -/
theorem exists_serve (RT : List GTile → List Bytes × Option String) (tiles : List Tile.Tile) (hnd : tiles.Nodup) :
    ∃ serve : Tile.Tile → Option (List H), ServeRel ofBytes RT serve tiles := by
  cases hrt : RT (tiles.map toGen) with
  | mk data err =>
    cases err with
    | some e =>
      refine ⟨fun _ => none, ?_⟩
      intro hne
      simp only [hrt]
      exact mapM_const_none tiles hne
    | none =>
      by_cases hl : data.length = tiles.length
      · refine ⟨fun t => (tiles.zip (data.map (unflatS ofBytes))).lookup t, ?_⟩
        intro _
        simp only [hrt, hl, ↓reduceIte]
        exact mapM_lookup_zip tiles _ hnd (by simp [hl])
      · refine ⟨fun _ => some [], ?_⟩
        intro _
        simp only [hrt, hl, ↓reduceIte]
        exact mapM_const_some [] tiles

end
end ModVerif.TieFnTile
