/-
  C02, end-of-line comments: where `assignComments` puts the comments of an ARBITRARY accepted input, part a.

  Abstract form of the argument of stage (iv): a comment that directly follows a node (`Slot`: it starts at or
  after the node's end and before the byte where the parser continues) is taken by that node in the backwards
  post-order walk, provided the node starts and ends on the same line; nodes and comments met earlier in the
  source stay untouched.  `LinesOwn` / `StmtOwn` / `StmtsOwn` package this for the accumulators of the parser
  loops (which are kept in reverse order, exactly the order of the walk).
-/
import ModVerif.Proofs.ModfileEolLines
namespace ModVerif.Proofs.ModfileEol
open ModVerif ModVerif.Modfile
open ModVerif.Proofs.ModfileFmtTree ModVerif.Proofs.ModfileFmtMain

/-! ### slots -/

/-- the comments that directly follow a node ending at byte `e`: none, or one that starts at or after `e` and
    before byte `hi` -/
def Slot (e : Nat) (cl : List Comment) (hi : Nat) : Prop :=
  cl = [] ∨ ∃ c, cl = [c] ∧ e ≤ c.start.byte ∧ c.start.byte < hi

theorem Slot.below {e hi : Nat} {cl : List Comment} (h : Slot e cl hi) : Below cl hi := by
  rcases h with rfl | ⟨c, rfl, _, h2⟩
  · exact below_nil _
  · intro p hp; simp at hp; subst hp; exact h2

theorem Slot.mono {e hi hi' : Nat} {cl : List Comment} (h : Slot e cl hi) (hh : hi ≤ hi') : Slot e cl hi' := by
  rcases h with rfl | ⟨c, rfl, h1, h2⟩
  · exact Or.inl rfl
  · exact Or.inr ⟨c, rfl, h1, Nat.lt_of_lt_of_le h2 hh⟩

theorem slot_nil (e hi : Nat) : Slot e [] hi := Or.inl rfl

/-- a node with an empty suffix list takes the comments of its slot, and nothing else -/
theorem assignSuffix_slot (span : Position × Position) (cs : Comments) (hs : cs.suffix = []) (cl : List Comment)
    (hi : Nat) (hsl : Slot span.2.byte cl hi) (hl : cl ≠ [] → span.1.line = span.2.line) (P : List Comment)
    (hP : Below P span.2.byte) :
    ∃ cs', assignSuffix span cs (P ++ cl).reverse = (cs', P.reverse) ∧ cs'.suffix = cl := by
  rcases hsl with rfl | ⟨c, rfl, h1, _⟩
  · refine ⟨cs, ?_, hs⟩
    simpa using assignSuffix_none span cs hs P hP
  · exact ⟨{ cs with suffix := [c] }, assignSuffix_take span cs hs (hl (by simp)) c h1 P hP, rfl⟩

/-- the block node and its `)` end at the same byte and share one slot -/
theorem block_rparen_slot (bstart rpos : Position) (bc rc : Comments) (hb : bc.suffix = []) (hr : rc.suffix = [])
    (cl : List Comment) (hi : Nat) (hsl : Slot (rpos.byte + 1) cl hi) (P : List Comment) (hP : Below P (rpos.byte + 1)) :
    ∃ bcx rcx, assignSuffix (bstart, rpos.add1) bc (P ++ cl).reverse = (bcx, (assignSuffix (bstart, rpos.add1) bc (P ++ cl).reverse).2) ∧
      assignSuffix (rpos, rpos.add1) rc (assignSuffix (bstart, rpos.add1) bc (P ++ cl).reverse).2 = (rcx, P.reverse) ∧
      (rcx.suffix ++ bcx.suffix).length ≤ 1 := by
  have hlen : cl.length ≤ 1 := by
    rcases hsl with rfl | ⟨c, rfl, _, _⟩ <;> simp
  by_cases hline : bstart.line = rpos.add1.line
  · -- a one-line block takes the comment
    obtain ⟨bcx, h1, h2⟩ := assignSuffix_slot (bstart, rpos.add1) bc hb cl hi (by simpa using hsl) (fun _ => hline) P
      (by simpa using hP)
    refine ⟨bcx, rc, by rw [h1], ?_, by rw [h2, hr]; simpa using hlen⟩
    rw [h1]
    exact assignSuffix_none (rpos, rpos.add1) rc hr P (by simpa using hP)
  · -- a block over several lines is skipped; `)` takes the comment
    have hskip := assignSuffix_skip (bstart, rpos.add1) bc hb hline (P ++ cl).reverse
    obtain ⟨rcx, h1, h2⟩ := assignSuffix_slot (rpos, rpos.add1) rc hr cl hi (by simpa using hsl) (fun _ => rfl) P
      (by simpa using hP)
    refine ⟨bc, rcx, by rw [hskip], by rw [hskip]; exact h1, by rw [h2, hb]; simpa using hlen⟩

/-! ### the accumulators of the parser loops -/

/-- the lines of a block read so far (most recent first) with the comments `Cl` recorded since `(`: the walk
    over them gives every line at most one comment and leaves earlier comments alone -/
def LinesOwn (linesRev : List Line) (Cl : List Comment) (lo hi : Nat) : Prop :=
  (∀ P, Below P lo → ∃ ls', postLinesRev linesRev (P ++ Cl).reverse = (ls', P.reverse) ∧
    ∀ l ∈ ls', l.comments.suffix.length ≤ 1) ∧ Below Cl hi ∧ lo ≤ hi

theorem linesOwn_nil (lo hi : Nat) (h : lo ≤ hi) : LinesOwn [] [] lo hi :=
  ⟨fun P _ => ⟨[], by simp [postLinesRev], by intro l hl; cases hl⟩, below_nil _, h⟩

theorem LinesOwn.mono {lr : List Line} {Cl : List Comment} {lo hi hi' : Nat} (h : LinesOwn lr Cl lo hi) (hh : hi ≤ hi') :
    LinesOwn lr Cl lo hi' :=
  ⟨h.1, h.2.1.mono hh, Nat.le_trans h.2.2 hh⟩

/-- one more line, with its slot -/
theorem linesOwn_cons {lr : List Line} {Cl : List Comment} {lo mid hi : Nat} (h : LinesOwn lr Cl lo mid)
    (l : Line) (cl : List Comment) (hs : l.comments.suffix = []) (hmid : mid ≤ l.«end».byte)
    (hsl : Slot l.«end».byte cl hi) (hl : cl ≠ [] → l.start.line = l.«end».line) (hhi : mid ≤ hi) :
    LinesOwn (l :: lr) (Cl ++ cl) lo hi := by
  refine ⟨?_, (h.2.1.mono hhi).append hsl.below, Nat.le_trans h.2.2 hhi⟩
  intro P hP
  have hP' : Below (P ++ Cl) l.«end».byte :=
    (hP.mono (Nat.le_trans h.2.2 hmid)).append (h.2.1.mono hmid)
  obtain ⟨cs', h1, h2⟩ := assignSuffix_slot (l.start, l.«end») l.comments hs cl hi hsl hl (P ++ Cl) hP'
  obtain ⟨ls', h3, h4⟩ := h.1 P hP
  refine ⟨{ l with comments := cs' } :: ls', ?_, ?_⟩
  · simp only [postLinesRev]
    rw [← List.append_assoc, h1]
    simp only
    rw [h3]
  · intro l' hl'
    rcases List.mem_cons.1 hl' with rfl | hl'
    · rw [show ({ l with comments := cs' } : Line).comments.suffix = cs'.suffix from rfl, h2]
      rcases hsl with rfl | ⟨c, rfl, _, _⟩ <;> simp
    · exact h4 l' hl'

/-- a statement with the comments `Cs` recorded while it was parsed -/
def StmtOwn (s : Expr) (Cs : List Comment) (lo hi : Nat) : Prop :=
  (∀ P, Below P lo → ∃ s', postStmt s (P ++ Cs).reverse = (s', P.reverse) ∧ CountStmt s') ∧ Below Cs hi ∧ lo ≤ hi

/-- the statements read so far (most recent first) with all comments recorded so far -/
def StmtsOwn (stmtsRev : List Expr) (C : List Comment) (hi : Nat) : Prop :=
  (∃ ss', postStmtsRev stmtsRev C.reverse = (ss', []) ∧ ∀ s ∈ ss', CountStmt s) ∧ Below C hi

theorem stmtsOwn_nil (hi : Nat) : StmtsOwn [] [] hi :=
  ⟨⟨[], by simp [postStmtsRev], by intro s hs; cases hs⟩, below_nil _⟩

theorem StmtsOwn.mono {sr : List Expr} {C : List Comment} {hi hi' : Nat} (h : StmtsOwn sr C hi) (hh : hi ≤ hi') :
    StmtsOwn sr C hi' := ⟨h.1, h.2.mono hh⟩

theorem stmtsOwn_cons {sr : List Expr} {C : List Comment} {mid lo hi : Nat} (h : StmtsOwn sr C mid)
    (s : Expr) (Cs : List Comment) (hs : StmtOwn s Cs lo hi) (hmid : mid ≤ lo) : StmtsOwn (s :: sr) (C ++ Cs) hi := by
  obtain ⟨⟨ss', h1, h2⟩, h3⟩ := h
  obtain ⟨s', h4, h5⟩ := hs.1 C (h3.mono hmid)
  refine ⟨⟨s' :: ss', ?_, ?_⟩, (h3.mono (Nat.le_trans hmid hs.2.2)).append hs.2.1⟩
  · simp only [postStmtsRev]
    rw [h4]
    simp only
    rw [h1]
  · intro x hx
    rcases List.mem_cons.1 hx with rfl | hx
    · exact h5
    · exact h2 x hx

/-! ### the three kinds of statement -/

/-- a comment block takes nothing -/
theorem stmtOwn_commentBlock (x : CommentBlock) (hs : x.comments.suffix = []) (hi : Nat) (h : x.start.byte ≤ hi) :
    StmtOwn (.commentBlock x) [] x.start.byte hi := by
  refine ⟨?_, below_nil _, h⟩
  intro P hP
  refine ⟨.commentBlock x, ?_, hs⟩
  simp only [List.append_nil, postStmt, Expr.span, Expr.comments, Expr.setComments]
  rw [assignSuffix_none _ _ hs P hP]

/-- a top-level line with its slot -/
theorem stmtOwn_line (l : Line) (cl : List Comment) (lo hi : Nat) (hs : l.comments.suffix = [])
    (hlo : lo ≤ l.«end».byte) (hsl : Slot l.«end».byte cl hi) (hl : cl ≠ [] → l.start.line = l.«end».line)
    (hhi : lo ≤ hi) : StmtOwn (.line l) cl lo hi := by
  refine ⟨?_, hsl.below, hhi⟩
  intro P hP
  obtain ⟨cs', h1, h2⟩ := assignSuffix_slot (l.start, l.«end») l.comments hs cl hi hsl hl P (hP.mono hlo)
  refine ⟨.line { l with comments := cs' }, ?_, ?_⟩
  · simp only [postStmt, Expr.span, Expr.comments, Expr.setComments]
    rw [h1]
  · show cs'.suffix.length ≤ 1
    rw [h2]
    rcases hsl with rfl | ⟨c, rfl, _, _⟩ <;> simp

/-- a block with the slots of `(`, of its lines and of `)` -/
theorem stmtOwn_block (b : LineBlock) (Clp Cl Crp : List Comment) (lo m1 m2 hi : Nat)
    (hb0 : b.comments.suffix = []) (hlp0 : b.lparen.comments.suffix = []) (hrp0 : b.rparen.comments.suffix = [])
    (hlo : lo ≤ b.lparen.pos.byte + 1) (hlp : Slot (b.lparen.pos.byte + 1) Clp m1)
    (hlines : LinesOwn b.lines.reverse Cl m1 m2) (hm2 : m2 ≤ b.rparen.pos.byte + 1)
    (hm1 : b.lparen.pos.byte + 1 ≤ m1)
    (hrp : Slot (b.rparen.pos.byte + 1) Crp hi) (hhi : b.rparen.pos.byte + 1 ≤ hi) :
    StmtOwn (.lineBlock b) (Clp ++ (Cl ++ Crp)) lo hi := by
  have hlm : lo ≤ m1 := Nat.le_trans hlo hm1
  have hmm : m1 ≤ m2 := hlines.2.2
  have hmr : m1 ≤ b.rparen.pos.byte + 1 := Nat.le_trans hmm hm2
  refine ⟨?_, ?_, Nat.le_trans hlm (Nat.le_trans hmr hhi)⟩
  · intro P hP
    -- block node and `)`
    have hP1 : Below (P ++ (Clp ++ Cl)) (b.rparen.pos.byte + 1) :=
      (hP.mono (Nat.le_trans hlm hmr)).append ((hlp.below.mono hmr).append (hlines.2.1.mono hm2))
    obtain ⟨bcx, rcx, h1, h2, h3⟩ := block_rparen_slot b.start b.rparen.pos b.comments b.rparen.comments hb0 hrp0 Crp hi
      hrp (P ++ (Clp ++ Cl)) hP1
    -- the lines
    have hP2 : Below (P ++ Clp) m1 := (hP.mono hlm).append hlp.below
    obtain ⟨ls', h4, h5⟩ := hlines.1 (P ++ Clp) hP2
    -- `(`
    obtain ⟨lcx, h6, h7⟩ := assignSuffix_slot (b.lparen.pos, b.lparen.pos.add1) b.lparen.comments hlp0 Clp m1
      (by simpa using hlp) (fun _ => rfl) P (by simpa using hP.mono hlo)
    refine ⟨Expr.lineBlock { b with comments := bcx, lparen := { b.lparen with comments := lcx }, lines := ls'.reverse, rparen := { b.rparen with comments := rcx } }, ?_, ?_⟩
    · have hre : P ++ (Clp ++ (Cl ++ Crp)) = (P ++ (Clp ++ Cl)) ++ Crp := by simp
      simp only [postStmt, Expr.span]
      rw [hre, h1]
      simp only
      rw [h2]
      simp only
      rw [show P ++ (Clp ++ Cl) = (P ++ Clp) ++ Cl by simp, h4]
      simp only
      rw [h6]
    · refine ⟨by show lcx.suffix.length ≤ 1; rw [h7]; rcases hlp with rfl | ⟨c, rfl, _, _⟩ <;> simp, ?_, h3⟩
      intro l hl
      exact h5 l (by simpa using hl)
  · exact (hlp.below.mono (Nat.le_trans hmr hhi)).append ((hlines.2.1.mono (Nat.le_trans hm2 hhi)).append hrp.below)

/-! ### comments before a statement do not matter -/

theorem assignSuffix_setBefore (span : Position × Position) (cs : Comments) (X : List Comment) (suf : List Comment) :
    assignSuffix span { cs with before := X } suf =
      ({ (assignSuffix span cs suf).1 with before := X }, (assignSuffix span cs suf).2) := by
  unfold assignSuffix
  split <;> rfl

theorem countStmt_setBefore (s : Expr) (X : List Comment) :
    CountStmt (s.setComments { s.comments with before := X }) ↔ CountStmt s := by
  cases s <;> exact Iff.rfl

theorem postStmt_setBefore (s : Expr) (X : List Comment) (suf : List Comment) :
    postStmt (s.setComments { s.comments with before := X }) suf =
      ((postStmt s suf).1.setComments { (postStmt s suf).1.comments with before := X }, (postStmt s suf).2) := by
  cases s with
  | lineBlock b =>
    simp only [Expr.setComments, Expr.comments, postStmt, Expr.span]
    rw [assignSuffix_setBefore]
  | commentBlock x =>
    simp only [Expr.setComments, Expr.comments, postStmt, Expr.span]
    rw [assignSuffix_setBefore]
  | line x =>
    simp only [Expr.setComments, Expr.comments, postStmt, Expr.span]
    rw [assignSuffix_setBefore]
  | lparen x =>
    simp only [Expr.setComments, Expr.comments, postStmt, Expr.span]
    rw [assignSuffix_setBefore]
  | rparen x =>
    simp only [Expr.setComments, Expr.comments, postStmt, Expr.span]
    rw [assignSuffix_setBefore]

theorem StmtOwn.setBefore {s : Expr} {Cs : List Comment} {lo hi : Nat} (h : StmtOwn s Cs lo hi) (X : List Comment) :
    StmtOwn (s.setComments { s.comments with before := X }) Cs lo hi := by
  refine ⟨?_, h.2.1, h.2.2⟩
  intro P hP
  obtain ⟨s', h1, h2⟩ := h.1 P hP
  refine ⟨s'.setComments { s'.comments with before := X }, ?_, (countStmt_setBefore s' X).2 h2⟩
  rw [postStmt_setBefore, h1]

end ModVerif.Proofs.ModfileEol
