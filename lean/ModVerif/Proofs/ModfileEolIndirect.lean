/-
  C02, clause 3 with end-of-line comments, part a: the `// indirect` marker survives formatting.

  `strings.Fields` ignores trailing white space (`fields_append_spaceSeq`), `TrimSpace` of a `//` comment only
  removes trailing white space (`trimSpace_comment_strong`), hence `isIndirect` of a line whose end-of-line
  comment text has been trimmed (what the re-parse of the formatted text delivers) is `isIndirect` of the
  original line (`isIndirect_norm`).
-/
import ModVerif.Model.Modfile.Rule
import ModVerif.Proofs.ModfileFmtTrim
import ModVerif.Proofs.ModfileFmtQuoteString
namespace ModVerif.Proofs.ModfileEol
open ModVerif ModVerif.Modfile ModVerif.GoStrings ModVerif.Proofs.ModfileLex
open ModVerif.Proofs.ModfileFmtLex ModVerif.Proofs.ModfileFmtTrim ModVerif.Proofs.ModfileFmtUtf8

/-! ### `strings.Fields` and trailing white space -/

theorem fieldsAux_nil (fuel : Nat) (cur : Bytes) (acc : List Bytes) :
    fieldsAux fuel [] cur acc = (if cur.isEmpty then acc else cur.reverse :: acc).reverse := by
  cases fuel <;> rfl

theorem fieldsAux_cons (fuel : Nat) (c : UInt8) (t cur : Bytes) (acc : List Bytes) :
    fieldsAux (fuel + 1) (c :: t) cur acc =
      if UnicodePrint.isSpace (Utf8.decodeRune (c :: t)).1 then
        fieldsAux fuel ((c :: t).drop (Utf8.decodeRune (c :: t)).2) [] (if cur.isEmpty then acc else cur.reverse :: acc)
      else
        fieldsAux fuel ((c :: t).drop (Utf8.decodeRune (c :: t)).2)
          (((c :: t).take (Utf8.decodeRune (c :: t)).2).reverse ++ cur) acc := by
  rfl

/-- a run of white-space encodings adds no field: it only closes the pending one -/
theorem fieldsAux_spaceSeq {e : Bytes} (he : SpaceSeq e) : ∀ (fuel : Nat) (cur : Bytes) (acc : List Bytes),
    e.length < fuel → fieldsAux fuel e cur acc = (if cur.isEmpty then acc else cur.reverse :: acc).reverse := by
  induction he with
  | nil => intro fuel cur acc _; exact fieldsAux_nil fuel cur acc
  | cons seg t r hd hs ht ih =>
    intro fuel cur acc hf
    have hne : seg ≠ [] := by
      intro h; subst h; simp [Utf8.decode] at hd
    obtain ⟨c, s', hseg⟩ : ∃ c s', seg = c :: s' := by
      cases seg with
      | nil => exact absurd rfl hne
      | cons c s' => exact ⟨c, s', rfl⟩
    obtain ⟨n, rfl⟩ : ∃ n, fuel = n + 1 := ⟨fuel - 1, by omega⟩
    have hdec : Utf8.decodeRune (seg ++ t) = (r, seg.length) := by
      rw [ModfileFmtTrim.decodeRune_append_ncs seg t hne ht.noContStart]
      exact ModfileFmtQuote.decodeRune_of_decode hd
    have hcons : seg ++ t = c :: (s' ++ t) := by rw [hseg]; rfl
    rw [hcons, fieldsAux_cons, ← hcons, hdec]
    simp only [hs, if_true, List.drop_left]
    rw [ih n [] _ (by simp only [List.length_append] at hf; have := List.length_pos_iff.mpr hne; omega)]
    simp

theorem fieldsAux_append_spaceSeq {e : Bytes} (he : SpaceSeq e) : ∀ (fuel : Nat) (x cur : Bytes) (acc : List Bytes),
    x.length < fuel → fieldsAux (fuel + e.length) (x ++ e) cur acc = fieldsAux fuel x cur acc := by
  intro fuel
  induction fuel with
  | zero => intro x cur acc h; omega
  | succ n ih =>
    intro x cur acc hf
    cases x with
    | nil =>
      rw [List.nil_append, fieldsAux_spaceSeq he _ cur acc (by omega), fieldsAux_nil]
    | cons c x' =>
      have hne : (c :: x') ≠ [] := by simp
      have hdec : Utf8.decodeRune ((c :: x') ++ e) = Utf8.decodeRune (c :: x') :=
        ModfileFmtTrim.decodeRune_append_ncs _ e hne he.noContStart
      have hw := decodeRune_width (c :: x') hne
      have hstep : n + 1 + e.length = (n + e.length) + 1 := by omega
      rw [hstep, show (c :: x') ++ e = c :: (x' ++ e) from rfl, fieldsAux_cons, fieldsAux_cons,
        ← show (c :: x') ++ e = c :: (x' ++ e) from rfl, hdec]
      have hdrop : ((c :: x') ++ e).drop (Utf8.decodeRune (c :: x')).2 = (c :: x').drop (Utf8.decodeRune (c :: x')).2 ++ e :=
        List.drop_append_of_le_length hw.2
      have htake : ((c :: x') ++ e).take (Utf8.decodeRune (c :: x')).2 = (c :: x').take (Utf8.decodeRune (c :: x')).2 :=
        List.take_append_of_le_length hw.2
      rw [hdrop, htake]
      have hlen : ((c :: x').drop (Utf8.decodeRune (c :: x')).2).length < n := by
        simp only [List.length_drop, List.length_cons] at hf ⊢
        omega
      split
      · exact ih _ _ _ hlen
      · exact ih _ _ _ hlen

/-- ★ `strings.Fields` ignores trailing white space -/
theorem fields_append_spaceSeq (x e : Bytes) (he : SpaceSeq e) : fields (x ++ e) = fields x := by
  unfold fields
  have : (x ++ e).length + 1 = (x.length + 1) + e.length := by simp only [List.length_append]; omega
  rw [this]
  exact fieldsAux_append_spaceSeq he _ x [] [] (by omega)

/-! ### `isIndirect` and `TrimSpace` of the comment -/

/-- the fields of a `//` comment after `TrimPrefix "//"` do not change when the comment text is trimmed -/
theorem fields_comment_trim {c : Bytes} (h : CommentOK c) :
    fields (trimPrefix (trimSpace c) [47, 47]) = fields (trimPrefix c [47, 47]) := by
  obtain ⟨e, heq, he, hok⟩ := trimSpace_comment_strong h
  obtain ⟨u, hu⟩ := commentOK_cons hok
  obtain ⟨t, ht⟩ := commentOK_cons h
  have h1 : trimPrefix (trimSpace c) [47, 47] = u := by
    rw [hu]; simp [trimPrefix, isPrefixOfB]
  have h2 : trimPrefix c [47, 47] = u ++ e := by
    rw [ht]
    have : t = u ++ e := by
      rw [hu, ht] at heq
      simpa using heq
    rw [this]; simp [trimPrefix, isPrefixOfB]
  rw [h1, h2, fields_append_spaceSeq u e he]

/-- ★ `isIndirect` sees only the first end-of-line comment, and only modulo `TrimSpace` of its text -/
theorem isIndirect_trim (l l' : Line) (c : Comment) (r r' : List Comment) (hc : CommentOK c.token)
    (h : l.comments.suffix = c :: r) (h' : l'.comments.suffix = { c with token := trimSpace c.token } :: r') :
    isIndirect l' = isIndirect l := by
  unfold isIndirect
  rw [h, h']
  simp only
  rw [fields_comment_trim hc]

theorem isIndirect_nil (l : Line) (h : l.comments.suffix = []) : isIndirect l = false := by
  simp [isIndirect, h]

end ModVerif.Proofs.ModfileEol
