/-
  EditGoodBlocks, part A — "every `LineBlock` of the tree carries a block verb of the strict parser" (`GoodBlocks`: no
  `go (` / `toolchain (` block, nor a block of an unknown verb) through every tree primitive of the edit model.

  The only primitive that makes a block out of a line with the LINE's verb is `addLine`'s hinted walk: a live top-level
  line whose first token is the verb of the new line becomes `verb ( old; new )`.  Precondition `Conv verb stmts`: the
  verb is a block verb, or no live top-level line of the tree starts with it.  Every other primitive keeps the block
  tokens (`updateLine`, `markRemoved`, Cleanup — which only collapses blocks —, `dropKilled`, `sortStmts`,
  `appendToBlock`, `moveExisting`) or makes a `require` block (`ensureBlock`, the empty block of
  SetRequireSeparateIndirect).  Pattern: `MarkersSettable` in Proofs/EditMarkerInv.lean.
-/
import ModVerif.Proofs.EditReparseE
set_option linter.unusedSimpArgs false
set_option linter.unusedVariables false
set_option linter.unnecessarySimpa false
namespace ModVerif.Modfile.Edit
open ModVerif ModVerif.Modfile

/-! ### the condition, statement by statement -/

/-- a block statement carries a block verb -/
def GBx : Expr → Prop
  | .lineBlock b => ∀ v, b.token = [v] → verbIn v blockVerbs = true
  | _ => True

def GB (stmts : List Expr) : Prop := ∀ x ∈ stmts, GBx x

theorem gb_iff (stmts : List Expr) : GB stmts ↔ GoodBlocks stmts := by
  constructor
  · intro h b hb; exact h _ hb
  · intro h x hx
    cases x with
    | lineBlock b => exact h b hx
    | line l => trivial
    | commentBlock c => trivial
    | lparen c => trivial
    | rparen c => trivial

theorem GB.nil : GB [] := by intro x hx; cases hx

theorem gb_cons {x : Expr} {xs : List Expr} : GB (x :: xs) ↔ GBx x ∧ GB xs := by
  unfold GB
  simp only [List.mem_cons, forall_eq_or_imp]

theorem gb_append {xs ys : List Expr} : GB (xs ++ ys) ↔ GB xs ∧ GB ys := by
  unfold GB
  simp only [List.mem_append]
  constructor
  · intro h; exact ⟨fun x hx => h x (Or.inl hx), fun x hx => h x (Or.inr hx)⟩
  · rintro ⟨h1, h2⟩ x (hx | hx)
    · exact h1 x hx
    · exact h2 x hx

theorem GB.of_subset {xs ys : List Expr} (h : GB ys) (hs : ∀ x ∈ xs, x ∈ ys) : GB xs := fun x hx => h x (hs x hx)

theorem gbx_line (l : Line) : GBx (.line l) := trivial

/-- a block statement with the token of a good one -/
theorem gbx_of_token {b b' : LineBlock} (ht : b'.token = b.token) (h : GBx (.lineBlock b)) : GBx (.lineBlock b') := by
  intro v hv; exact h v (ht ▸ hv)

/-! ### `updateLine` and its instances -/

theorem gb_updateLine (fs : FileSyntax) (id : Nat) (g : Line → Line) (h : GB fs.stmts) : GB (fs.updateLine id g).stmts := by
  intro x hx
  unfold FileSyntax.updateLine at hx
  simp only [List.mem_map] at hx
  rcases hx with ⟨y, hy, rfl⟩
  cases y with
  | line l0 =>
    simp only
    split <;> trivial
  | lineBlock b => exact gbx_of_token (b := b) rfl (h _ hy)
  | commentBlock c => trivial
  | lparen c => trivial
  | rparen c => trivial

theorem gb_updateTokens (fs : FileSyntax) (id : Nat) (toks : List Bytes) (h : GB fs.stmts) : GB (updateLine fs id toks).stmts :=
  gb_updateLine fs id _ h

theorem gb_markRemoved (fs : FileSyntax) (id : Nat) (h : GB fs.stmts) : GB (markRemoved fs id).stmts :=
  gb_updateLine fs id _ h

theorem gb_markAll (ids : List Nat) : ∀ fs : FileSyntax, GB fs.stmts → GB (markAll fs ids).stmts := by
  induction ids with
  | nil => intro fs h; exact h
  | cons i is ih =>
    intro fs h
    simp only [markAll, List.foldl_cons]
    exact ih _ (gb_markRemoved fs i h)

/-! ### new lines: `addLine` -/

/-- the hinted walk of `addLine` may turn a line into a block only of a block verb: the verb of the new line is one, or
    no live top-level line starts with it -/
def Conv (verb : Bytes) (stmts : List Expr) : Prop :=
  verbIn verb blockVerbs = true ∨ ∀ l, Expr.line l ∈ stmts → (l.token.isEmpty || !headIs l.token verb) = true

theorem Conv.tail {verb : Bytes} {x : Expr} {xs : List Expr} (h : Conv verb (x :: xs)) : Conv verb xs := by
  rcases h with h | h
  · exact Or.inl h
  · exact Or.inr fun l hl => h l (List.mem_cons_of_mem _ hl)

theorem conv_of_verb {verb : Bytes} (stmts : List Expr) (h : verbIn verb blockVerbs = true) : Conv verb stmts := Or.inl h

theorem gb_append_newLine (stmts : List Expr) (new : Nat) (toks : List Bytes) (h : GB stmts) :
    GB (stmts ++ [Expr.line (mkLine new toks false)]) := by
  rw [gb_append]
  refine ⟨h, ?_⟩
  intro x hx
  simp only [List.mem_singleton] at hx
  subst hx
  trivial

theorem take_one_of_headIs {toks : List Bytes} {verb v : Bytes} (hh : headIs toks verb = true) (hv : toks.take 1 = [v]) :
    v = verb := by
  cases toks with
  | nil => simp [headIs] at hh
  | cons a t =>
    simp only [headIs, List.head?_cons, beq_iff_eq, Option.some.injEq] at hh
    simp only [List.take_succ_cons, List.take_zero, List.cons.injEq, and_true] at hv
    rw [← hv, hh]

theorem gb_addLineWalk (hint : Hint) (toks : List Bytes) (new : Nat) : ∀ (stmts : List Expr) (i : Nat) (r : List Expr),
    addLineWalk hint toks new stmts i = some r → Conv (toks.head?.getD []) stmts → GB stmts → GB r := by
  intro stmts
  induction stmts with
  | nil => intro i r h; simp [addLineWalk] at h
  | cons x xs ih =>
    intro i r h hc hg
    rcases gb_cons.1 hg with ⟨hx, hxs⟩
    have hafter : GB (x :: Expr.line (mkLine new toks false) :: xs) := gb_cons.2 ⟨hx, gb_cons.2 ⟨trivial, hxs⟩⟩
    have hrest : ∀ r, (addLineWalk hint toks new xs (i + 1)).map (x :: ·) = some r → GB r := by
      intro r hr
      cases hw : addLineWalk hint toks new xs (i + 1) with
      | none => simp [hw] at hr
      | some r' =>
        simp only [hw, Option.map_some, Option.some.injEq] at hr
        subst hr
        exact gb_cons.2 ⟨hx, ih _ _ hw hc.tail hxs⟩
    unfold addLineWalk at h
    cases x with
    | line l0 =>
      simp only at h
      split at h
      · split at h
        · simp only [Option.some.injEq] at h; subst h; exact hafter
        · rename_i hconv
          simp only [Option.some.injEq] at h; subst h
          refine gb_cons.2 ⟨?_, hxs⟩
          intro v hv
          simp only at hv
          simp only [Bool.or_eq_true, Bool.not_eq_true', not_or, Bool.not_eq_true, Bool.not_eq_false] at hconv
          rcases hc with hc | hc
          · rw [take_one_of_headIs hconv.2 hv]; exact hc
          · have := hc l0 List.mem_cons_self
            simp only [Bool.or_eq_true, Bool.not_eq_true'] at this
            rcases this with h1 | h1
            · rw [hconv.1] at h1; cases h1
            · rw [hconv.2] at h1; cases h1
      · exact hrest r h
    | lineBlock b =>
      simp only at h
      split at h
      · split at h
        · simp only [Option.some.injEq] at h; subst h; exact hafter
        · simp only [Option.some.injEq] at h; subst h
          exact gb_cons.2 ⟨gbx_of_token (b := b) rfl hx, hxs⟩
      · split at h
        · split at h
          · split at h
            · simp only [Option.some.injEq] at h; subst h; exact hafter
            · split at h
              · simp only [Option.some.injEq] at h; subst h
                exact gb_cons.2 ⟨gbx_of_token (b := b) rfl hx, hxs⟩
              · exact hrest r h
          · exact hrest r h
        · exact hrest r h
    | commentBlock c => simp only at h; exact hrest r h
    | lparen c => simp only at h; exact hrest r h
    | rparen c => simp only at h; exact hrest r h

theorem gb_addLine (fs : FileSyntax) (hint : Option Nat) (toks : List Bytes) (new : Nat)
    (hc : Conv (toks.head?.getD []) fs.stmts) (h : GB fs.stmts) : GB (addLine fs hint toks new).stmts := by
  rcases addLine_cases fs hint toks new with he | ⟨hh, stmts', hw, he⟩
  · rw [he]; exact gb_append_newLine _ _ _ h
  · rw [he]; exact gb_addLineWalk hh toks new _ _ _ hw hc h

theorem gb_addLinePtr (fs : FileSyntax) (hint : Option Nat) (toks : List Bytes) (new : Nat)
    (hc : Conv (toks.head?.getD []) fs.stmts) (h : GB fs.stmts) : GB (addLinePtr fs hint toks new).stmts := by
  unfold addLinePtr
  split
  · split
    · exact gb_append_newLine _ _ _ h
    · exact gb_addLine _ _ _ _ hc h
  · exact gb_append_newLine _ _ _ h

/-! ### Cleanup, SortBlocks -/

theorem gb_cleanupStmts : ∀ (stmts : List Expr), GB stmts → GB (cleanupStmts stmts) := by
  intro stmts
  induction stmts with
  | nil => intro h; simpa [cleanupStmts] using h
  | cons x xs ih =>
    intro hg
    rcases gb_cons.1 hg with ⟨hx, hxs⟩
    have ih' := ih hxs
    cases x with
    | line l =>
      unfold cleanupStmts
      split
      · exact ih'
      · exact gb_cons.2 ⟨hx, ih'⟩
    | lineBlock b =>
      unfold cleanupStmts
      cases hlive : b.lines.filter (fun l => !l.token.isEmpty) with
      | nil => simp only [hlive]; exact ih'
      | cons l ls =>
        have hkeep : GB (Expr.lineBlock { b with lines := l :: ls } :: cleanupStmts xs) :=
          gb_cons.2 ⟨gbx_of_token (b := b) rfl hx, ih'⟩
        cases ls with
        | nil =>
          simp only [hlive]
          split
          · exact gb_cons.2 ⟨trivial, ih'⟩
          · exact hkeep
        | cons l2 ls2 => simp only [hlive]; exact hkeep
    | commentBlock c => unfold cleanupStmts; exact gb_cons.2 ⟨hx, ih'⟩
    | lparen c => unfold cleanupStmts; exact gb_cons.2 ⟨hx, ih'⟩
    | rparen c => unfold cleanupStmts; exact gb_cons.2 ⟨hx, ih'⟩

theorem gb_sortStmts (sem work : Bool) (stmts : List Expr) (h : GB stmts) : GB (sortStmts sem work stmts) := by
  intro x hx
  unfold sortStmts at hx
  simp only [List.mem_map] at hx
  rcases hx with ⟨y, hy, rfl⟩
  cases y with
  | lineBlock b => exact gbx_of_token (b := b) rfl (h _ hy)
  | line l0 => trivial
  | commentBlock c => trivial
  | lparen c => trivial
  | rparen c => trivial

theorem gb_dropKilled (kill : List Nat) : ∀ (stmts : List Expr), GB stmts → GB (dropKilled kill stmts) := by
  intro stmts
  induction stmts with
  | nil => intro h; simpa [dropKilled] using h
  | cons x xs ih =>
    intro hg
    rcases gb_cons.1 hg with ⟨hx, hxs⟩
    have ih' := ih hxs
    cases x with
    | line l =>
      unfold dropKilled
      split
      · exact ih'
      · exact gb_cons.2 ⟨hx, ih'⟩
    | lineBlock b =>
      unfold dropKilled
      simp only
      split
      · exact ih'
      · exact gb_cons.2 ⟨gbx_of_token (b := b) rfl hx, ih'⟩
    | commentBlock c => unfold dropKilled; exact gb_cons.2 ⟨hx, ih'⟩
    | lparen c => unfold dropKilled; exact gb_cons.2 ⟨hx, ih'⟩
    | rparen c => unfold dropKilled; exact gb_cons.2 ⟨hx, ih'⟩

theorem gb_sortBlocks (e : EFile) (h : GB e.f.syn.stmts) : GB (sortBlocks e).f.syn.stmts := by
  rcases sortBlocks_eq e with ⟨sem, heq⟩
  rw [heq]
  exact gb_sortStmts sem false _ (gb_dropKilled _ _ h)

theorem gb_cleanup (e : EFile) (h : GB e.f.syn.stmts) : GB (cleanup e).f.syn.stmts := gb_cleanupStmts _ h

/-! ### the block surgery of SetRequireSeparateIndirect -/

theorem verbIn_require : verbIn (B "require") blockVerbs = true := by decide +kernel

theorem gbx_requireBlock (ls : List Line) : GBx (.lineBlock { token := [B "require"], lines := ls }) := by
  intro v hv
  simp only [List.cons.injEq, and_true] at hv
  rw [← hv]; exact verbIn_require

theorem gb_insertAt (stmts : List Expr) (i : Nat) (y : Expr) (hy : GBx y) (h : GB stmts) : GB (insertAt stmts i y) := by
  unfold insertAt
  rw [gb_append, gb_cons]
  exact ⟨h.of_subset (fun x hx => List.mem_of_mem_take hx), hy, h.of_subset (fun x hx => List.mem_of_mem_drop hx)⟩

theorem gbx_emptyRequireBlock : GBx emptyRequireBlock := gbx_requireBlock []

theorem gb_set (stmts : List Expr) (i : Nat) (y : Expr) (hy : GBx y) (h : GB stmts) : GB (stmts.set i y) := by
  intro x hx
  rcases List.mem_or_eq_of_mem_set hx with hx | rfl
  · exact h x hx
  · exact hy

theorem gb_ensureBlock (stmts s : List Expr) (i : Nat) (he : ensureBlock stmts i = .ok s) (h : GB stmts) : GB s := by
  unfold ensureBlock at he
  split at he
  · simp only [Except.ok.injEq] at he; subst he; exact h
  · simp only [Except.ok.injEq] at he; subst he
    exact gb_set _ _ _ (gbx_requireBlock _) h
  · cases he

theorem gb_appendToBlock (stmts : List Expr) (i : Nat) (l : Line) (h : GB stmts) : GB (appendToBlock stmts i l) := by
  unfold appendToBlock
  split
  · rename_i b hget
    have hmem : Expr.lineBlock b ∈ stmts := List.mem_of_getElem? hget
    exact gb_set _ _ _ (gbx_of_token (b := b) rfl (h _ hmem)) h
  · exact h

theorem gb_moveExisting (syn : FileSyntax) (lineId idx new : Nat) (h : GB syn.stmts) :
    GB (moveExisting syn lineId idx new).stmts := by
  unfold moveExisting
  split
  · exact h
  · simp only
    exact gb_appendToBlock _ _ _ (gb_updateLine syn lineId _ h)

end ModVerif.Modfile.Edit
