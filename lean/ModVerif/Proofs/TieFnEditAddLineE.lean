import ModVerif.Proofs.TieFnEditAddLineD
set_option linter.unusedSimpArgs false
set_option linter.unusedVariables false
namespace ModVerif.TieFnEditAddLine
open ModVerif ModVerif.GoRt
open ModVerif.Generated.Edit
open ModVerif.Tie.FnEditRep
open ModVerif.Modfile.Edit (treeIds addLineWalk Hint mkLine headIs insertAfterId lastStmtWith)

/-! ### `FileSyntax.addLine`, assembled -/

/-- the final `new := &Line{Token: tokens}; x.Stmt = append(x.Stmt, new)` -/
def k24 (x : Int) (tokens : List Bytes) (world : Heap) : M (Int × Heap) := do
  let (p20, hl) := heapAlloc ((world).lines) ({ (default : Line) with Token := tokens } : Line)
  let world := { (world) with lines := hl }
  let new_1 := p20
  let t21 ← heapGet ((world).files) x
  let t22 ← heapGet ((world).files) x
  let t23 ← heapSet ((world).files) x { (t22) with Stmt := ((t21.Stmt) ++ [(Expr.Line new_1)]) }
  let world := { (world) with files := t23 }
  pure (new_1, world)

/-- the hinted part -/
def k93 (fuel : Nat) (x : Int) (tokens : List Bytes) (world : Heap) (hint : Expr) : M (Int × Heap) :=
  if (!decide (hint = (Expr.nil))) then (do
    let t25 ← heapGet ((world).files) x
    let r91 ← FileSyntax_addLine_loop1 (t25.Stmt) x hint tokens fuel (0 : Int) world
    match r91 with
    | Ctl.ret rv92 => (pure rv92)
    | Ctl.next (ri27, world) => (k24 x tokens world)) else (k24 x tokens world)

theorem addLine_unfold (fuel : Nat) (x : Int) (hint : Expr) (tokens : List Bytes) (world : Heap) :
    FileSyntax_addLine fuel x hint tokens world =
      if (decide (hint = (Expr.nil))) then (do
        let t94 ← heapGet ((world).files) x
        let r ← FileSyntax_addLine_loop3 x tokens world fuel hint ((len (t94.Stmt)) - (1 : Int))
        k93 fuel x tokens world r.1) else (k93 fuel x tokens world hint) := rfl


theorem k24_eq {h : Heap} {x : Int} {fo : FileSyntax} (hf : heapGet h.files x = .ok fo) (tokens : List Bytes) :
    k24 x tokens h = .ok (((h.lines.length + 1 : Nat) : Int),
      { h with lines := h.lines ++ [({ (default : Line) with Token := tokens } : Line)],
               files := h.files.set (x.toNat - 1)
                 { fo with Stmt := fo.Stmt ++ [Expr.Line ((h.lines.length + 1 : Nat) : Int)] } }) := by
  unfold k24
  simp only [heapAlloc, hf, bind_ok, heapSet_of_get _ hf, pure_eq_ok]

/-- the result of `addLine` on a represented graph -/
def AddRes (x : Int) (fs : Modfile.FileSyntax) (h : Heap) (res : M (Int × Heap)) (stmts' : List Modfile.Expr) : Prop :=
  ∃ h', res = .ok (((h.lines.length + 1 : Nat) : Int), h') ∧ RepSyn h' x { fs with stmts := stmts' } ∧
    BlockTokOK stmts' ∧ (LinesG h → LinesG h') ∧ h'.lines.length = h.lines.length + 1 ∧
    h.blocks.length ≤ h'.blocks.length ∧ Frame h h' ∧ (∀ q, q ≠ x → heapGet h'.files q = heapGet h.files q)

theorem files_other {h h' : Heap} {x : Int} {fo v : FileSyntax} (hf : heapGet h.files x = .ok fo)
    (he : h'.files = h.files.set (x.toNat - 1) v) : ∀ q, q ≠ x → heapGet h'.files q = heapGet h.files q := by
  intro q hq
  rw [he, heapGet_listSet_other _ hf hq]

theorem nodup_ids_new {h : Heap} {es : List Expr} {ss ss' : List Modfile.Expr} (rs : RStmts h es ss)
    (nd : (treeIds ss).Nodup) (hp : (stmtIds ss').Perm ((h.lines.length + 1) :: stmtIds ss)) : (treeIds ss').Nodup := by
  rw [treeIds_eq_stmtIds] at nd ⊢
  rw [hp.nodup_iff]
  refine List.nodup_cons.2 ⟨fun hm => ?_, nd⟩
  rw [← treeIds_eq_stmtIds] at hm
  have := (rs.treeIds_le _ hm).2
  omega

/-- no hint found (or the hint is not in the graph): the line is appended to the file -/
theorem append_res {h : Heap} {x : Int} {fs : Modfile.FileSyntax} {es : List Expr} (r : RepSynAt h x fs es)
    (htok : BlockTokOK fs.stmts) (tokens : List Bytes) :
    AddRes x fs h (k24 x tokens h) (fs.stmts ++ [.line (mkLine (h.lines.length + 1) tokens false)]) := by
  refine ⟨_, k24_eq r.file tokens, ⟨es ++ [Expr.Line ((h.lines.length + 1 : Nat) : Int)], ?_, ?_, ?_, ?_⟩, ?_, ?_, ?_,
    Nat.le_refl _, ⟨rfl, rfl, rfl, rfl, rfl, rfl, rfl, rfl, rfl, rfl, rfl, rfl, rfl⟩, files_other r.file rfl⟩
  · show heapGet (h.files.set (x.toNat - 1) _) x = _
    rw [heapGet_listSet_same _ r.file]; rfl
  · refine RStmts.append (RStmts_allocLine _ _ r.stmts) ?_
    exact ⟨⟨heapGet_alloc_new _ _, rfl⟩, trivial⟩
  · rw [blockPtrs_append]; simpa [blockPtrs] using r.nodupB
  · refine nodup_ids_new r.stmts r.nodupL ?_
    rw [stmtIds_append]
    simp only [stmtIds, mkLine]
    exact List.perm_append_singleton _ _
  · exact BlockTokOK_append htok (BlockTokOK_line _)
  · intro hG
    exact (hG.allocLine (mkLine (h.lines.length + 1) tokens false)).congr rfl
  · simp

/-- the hinted part on a represented graph, given the simulation of the walk -/
theorem k93_res {h : Heap} {x : Int} {fs : Modfile.FileSyntax} {es : List Expr} (r : RepSynAt h x fs es)
    (htok : BlockTokOK fs.stmts) (hintE : Expr) (hne : hintE ≠ Expr.nil) (hintM : Hint) (t0 : Bytes) (trest : List Bytes)
    (fuel : Nat)
    (w : WalkRes x (fileG fs es) hintE (t0 :: trest) [] [] fuel h
      (addLineWalk hintM (t0 :: trest) (h.lines.length + 1) fs.stmts 0)) :
    AddRes x fs h (k93 fuel x (t0 :: trest) h hintE)
      (match addLineWalk hintM (t0 :: trest) (h.lines.length + 1) fs.stmts 0 with
       | some stmts => stmts
       | none => fs.stmts ++ [.line (mkLine (h.lines.length + 1) (t0 :: trest) false)]) := by
  unfold k93
  simp only [hne, decide_false, Bool.not_false, if_true, r.file, bind_ok, fileG_Stmt]
  cases hw : addLineWalk hintM (t0 :: trest) (h.lines.length + 1) fs.stmts 0 with
  | none =>
    rw [hw] at w
    simp only [WalkRes, fileG_Stmt] at w
    have w' : FileSyntax_addLine_loop1 es x hintE (t0 :: trest) fuel 0 h = .ok (Ctl.next (len es, h)) := w
    rw [w']
    exact append_res r htok _
  | some ss' =>
    rw [hw] at w
    obtain ⟨h', suf', h1, h2, _, h4, h5⟩ := w
    have h1' : FileSyntax_addLine_loop1 es x hintE (t0 :: trest) fuel 0 h =
        .ok (Ctl.ret (((h.lines.length + 1 : Nat) : Int), h')) := h1
    rw [h1']
    obtain ⟨p1, p2⟩ := walk_ids hintM t0 trest _ _ _ _ hw htok
    refine ⟨h', rfl, ⟨suf', ?_, h4, by simpa using h5, nodup_ids_new r.stmts r.nodupL p1⟩, p2, h2.linesG, h2.lines,
      h2.blocks, h2.frame, files_other r.file h2.files⟩
    show heapGet h'.files x = _
    rw [h2.files, heapGet_listSet_same _ r.file]; rfl


/-- the hint as the Go interface value: nil, or a `*Line` -/
def hintG : Option Nat → Expr
  | none => Expr.nil
  | some id => Expr.Line (id : Int)

theorem addLine_some (fs : Modfile.FileSyntax) (id : Nat) (tokens : List Bytes) (new : Nat) :
    Modfile.Edit.addLine fs (some id) tokens new =
      { fs with stmts := match addLineWalk (.line id) tokens new fs.stmts 0 with
                         | some stmts => stmts
                         | none => fs.stmts ++ [.line (mkLine new tokens false)] } := by
  unfold Modfile.Edit.addLine
  simp only []
  cases addLineWalk (.line id) tokens new fs.stmts 0 <;> rfl

theorem addLine_none (fs : Modfile.FileSyntax) (tokens : List Bytes) (new : Nat) :
    Modfile.Edit.addLine fs none tokens new =
      { fs with stmts := match lastStmtWith (tokens.head?.getD []) fs.stmts 0 none with
                         | none => fs.stmts ++ [.line (mkLine new tokens false)]
                         | some i => match addLineWalk (.stmt i) tokens new fs.stmts 0 with
                           | some stmts => stmts
                           | none => fs.stmts ++ [.line (mkLine new tokens false)] } := by
  unfold Modfile.Edit.addLine
  simp only []
  cases lastStmtWith (tokens.head?.getD []) fs.stmts 0 none with
  | none => rfl
  | some i =>
    simp only []
    cases addLineWalk (.stmt i) tokens new fs.stmts 0 <;> rfl

theorem addLine_sim {h : Heap} {x : Int} {fs : Modfile.FileSyntax} {es : List Expr} (r : RepSynAt h x fs es)
    (htok : BlockTokOK fs.stmts) (hint : Option Nat) (t0 : Bytes) (trest : List Bytes) (fuel : Nat)
    (hfu : nodeCount fs.stmts + 3 ≤ fuel) :
    AddRes x fs h (FileSyntax_addLine fuel x (hintG hint) (t0 :: trest) h)
      (Modfile.Edit.addLine fs hint (t0 :: trest) (h.lines.length + 1)).stmts := by
  have nl : (stmtIds ([] ++ fs.stmts)).Nodup := by
    rw [List.nil_append, ← treeIds_eq_stmtIds]; exact r.nodupL
  rw [addLine_unfold]
  cases hint with
  | some id =>
    simp only [hintG, reduceCtorEq, decide_false, Bool.false_eq_true, if_false]
    rw [addLine_some]
    exact k93_res r htok _ (by simp) (.line id) t0 trest fuel
      (walkLine_sim x (fileG fs es) id t0 trest es fs.stmts [] [] h fuel 0 r.file rfl trivial r.stmts htok
        (by simpa using r.nodupB) nl (by omega))
  | none =>
    simp only [hintG, decide_true, if_true, r.file, bind_ok, fileG_Stmt]
    rw [addLine_none]
    simp only [List.head?_cons, Option.getD_some]
    have hlen := r.stmts.length
    have hcnt : fs.stmts.length ≤ nodeCount fs.stmts := by
      clear r htok nl hfu hlen
      induction fs.stmts with
      | nil => simp [nodeCount]
      | cons s ss ih => cases s <;> simp only [nodeCount, List.length_cons] <;> omega
    have h3 := loop3_sim x (fileG fs es) h r.file t0 trest fs.stmts r.stmts htok es.length fuel (len es - 1)
      (Nat.le_refl _) (by omega) rfl
    rw [List.take_of_length_le (by omega)] at h3
    cases hlast : lastStmtWith t0 fs.stmts 0 none with
    | none =>
      rw [hlast] at h3
      obtain ⟨j, h3⟩ := h3
      rw [h3]
      simp only [bind_ok]
      have : k93 fuel x (t0 :: trest) h Expr.nil = k24 x (t0 :: trest) h := by
        unfold k93; simp
      rw [this]
      exact append_res r htok _
    | some i =>
      rw [hlast] at h3
      obtain ⟨j, e, he, hsn, hm, h3⟩ := h3
      rw [h3]
      simp only [bind_ok]
      have he' : es[i]? = some e := he
      cases hsi : fs.stmts[i]? with
      | none => exact absurd hsi hsn
      | some s =>
        rw [hsi] at hm
        simp only [Option.getD_some] at hm
        have re := r.stmts.get i e s he' hsi
        cases s with
        | commentBlock c => simp [stmtMatch] at hm
        | lparen c => simp [stmtMatch] at hm
        | rparen c => simp [stmtMatch] at hm
        | line l =>
          cases e <;> simp only [RExpr] at re <;> try exact re.elim
          rename_i p
          have hp : p = (l.id : Int) := re.2
          subst hp
          refine k93_res r htok _ (by simp) (.stmt i) t0 trest fuel ?_
          rw [walk_stmt_line (t0 :: trest) _ l fs.stmts 0 i (Nat.zero_le _) (by simpa using hsi)
            (by simpa using nl)]
          exact walkLine_sim x (fileG fs es) l.id t0 trest es fs.stmts [] [] h fuel 0 r.file rfl trivial r.stmts htok
            (by simpa using r.nodupB) nl (by omega)
        | lineBlock b =>
          cases e <;> simp only [RExpr] at re <;> try exact re.elim
          rename_i p
          refine k93_res r htok _ (by simp) (.stmt i) t0 trest fuel ?_
          exact walkBlock_sim x (fileG fs es) p i t0 trest es fs.stmts [] [] h fuel r.file rfl trivial r.stmts htok
            (by simpa using r.nodupB) (by omega) (Nat.zero_le _) (by simpa using he')

end ModVerif.TieFnEditAddLine
