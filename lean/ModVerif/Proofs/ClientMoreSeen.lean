/-
  ClientMore, part 3 — where the heads held by the machine come from: every in-memory head and the stored head is the
  empty tree, the tree of the initial configuration, or a tree that was presented to a goroutine that has started
  (`SeenInv`; holds for every run, honest server or not), and per client: the in-memory head is the empty tree, a tree
  presented to one of its own goroutines, or a configuration content one of its goroutines read and merged (`SawInv`).
-/
import ModVerif.Proofs.ClientMoreFlush
namespace ModVerif.ClientLatest
variable {M T : Type}

/-- goroutine `t` has entered `mergeLatest` (its lookup was not skipped as private) -/
def Started (priv : Nat → Bool) (s : St M T) (t : Nat) : Prop := priv t = false ∧ (s.th t).pc ≠ .entry

/-- the heads the system has seen: the empty tree, the initial configuration, everything presented to a started goroutine -/
def Seen (P : Params M T) (presented : Nat → Option M) (priv : Nat → Bool) (c0 : Option M) (s : St M T) (x : T) : Prop :=
  x = P.zero ∨ x = cfgTree P c0 ∨ ∃ t m, Started priv s t ∧ presented t = some m ∧ P.parse m = some x

/-- what client `c` has seen: the empty tree, everything presented to its started goroutines, and every configuration
content that one of its goroutines read in a `mergeLatest` that has returned success -/
def ClientSaw (P : Params M T) (cl : Nat → Nat) (presented : Nat → Option M) (priv : Nat → Bool) (s : St M T) (c : Nat)
    (x : T) : Prop :=
  x = P.zero ∨ (∃ t m, cl t = c ∧ Started priv s t ∧ presented t = some m ∧ P.parse m = some x) ∨
  ∃ t, cl t = c ∧ (s.th t).pc = .done .ok ∧ x = cfgTree P (s.th t).cfg

structure SeenInv (P : Params M T) (cl : Nat → Nat) (presented : Nat → Option M) (priv : Nat → Bool) (c0 : Option M)
    (s : St M T) : Prop where
  latest_seen : ∀ c, Seen P presented priv c0 s (s.latest c)
  config_seen : Seen P presented priv c0 s (cfgTree P s.config)
  msg_seen : ∀ t, Seen P presented priv c0 s (cfgTree P (s.th t).msg)
  tree_seen : ∀ t, Seen P presented priv c0 s (s.th t).tree
  lm_seen : ∀ t, Seen P presented priv c0 s (cfgTree P (s.th t).lm)
  saw : ∀ c, ClientSaw P cl presented priv s c (s.latest c)

theorem seen_init (P : Params M T) (cl : Nat → Nat) (presented : Nat → Option M) (priv : Nat → Bool) (c0 : Option M) :
    SeenInv P cl presented priv c0 (init P c0) := by
  constructor <;> simp [init, Seen, ClientSaw, cfgTree]

variable [DecidableEq M] [DecidableEq T]

theorem step_pc_ne_entry (P : Params M T) (cl : Nat → Nat) (presented : Nat → Option M) (priv : Nat → Bool)
    (s s' : St M T) (t : Nat) (r : Res) (h : step P cl presented priv s t r = some s') : (s'.th t).pc ≠ .entry := by
  step_cases
  all_goals (simp [upd]; try split <;> simp)

theorem started_mono (P : Params M T) (cl : Nat → Nat) (presented : Nat → Option M) (priv : Nat → Bool)
    (s s' : St M T) (t : Nat) (r : Res) (h : step P cl presented priv s t r = some s') (t0 : Nat)
    (h0 : Started priv s t0) : Started priv s' t0 := by
  refine ⟨h0.1, ?_⟩
  by_cases ht : t0 = t
  · subst ht; exact step_pc_ne_entry P cl presented priv s s' t0 r h
  · rw [step_th_frame P cl presented priv s s' t r h t0 ht]; exact h0.2

theorem seen_mono (P : Params M T) (cl : Nat → Nat) (presented : Nat → Option M) (priv : Nat → Bool) (c0 : Option M)
    (s s' : St M T) (t : Nat) (r : Res) (h : step P cl presented priv s t r = some s') (x : T)
    (hx : Seen P presented priv c0 s x) : Seen P presented priv c0 s' x := by
  rcases hx with h1 | h1 | ⟨t0, m, h0, h2, h3⟩
  · exact Or.inl h1
  · exact Or.inr (Or.inl h1)
  · exact Or.inr (Or.inr ⟨t0, m, started_mono P cl presented priv s s' t r h t0 h0, h2, h3⟩)

theorem step_not_done (P : Params M T) (cl : Nat → Nat) (presented : Nat → Option M) (priv : Nat → Bool)
    (s s' : St M T) (t : Nat) (r : Res) (h : step P cl presented priv s t r = some s') (x : Result) :
    (s.th t).pc ≠ .done x := by
  intro hpc
  unfold step at h
  simp [hpc] at h

theorem clientSaw_mono (P : Params M T) (cl : Nat → Nat) (presented : Nat → Option M) (priv : Nat → Bool)
    (s s' : St M T) (t : Nat) (r : Res) (h : step P cl presented priv s t r = some s') (c : Nat) (x : T)
    (hx : ClientSaw P cl presented priv s c x) : ClientSaw P cl presented priv s' c x := by
  rcases hx with h1 | ⟨t0, m, hc, h0, h2, h3⟩ | ⟨t0, hc, h2, h3⟩
  · exact Or.inl h1
  · exact Or.inr (Or.inl ⟨t0, m, hc, started_mono P cl presented priv s s' t r h t0 h0, h2, h3⟩)
  · have ht : t0 ≠ t := by
      intro e; subst e; exact step_not_done P cl presented priv s s' t0 r h _ h2
    refine Or.inr (Or.inr ⟨t0, hc, ?_, ?_⟩)
    · rw [step_th_frame P cl presented priv s s' t r h t0 ht]; exact h2
    · rw [step_th_frame P cl presented priv s s' t r h t0 ht]; exact h3

omit [DecidableEq M] [DecidableEq T] in
theorem seen_presented (P : Params M T) (presented : Nat → Option M) (priv : Nat → Bool) (c0 : Option M) (s : St M T)
    (t : Nat) (h : Started priv s t) : Seen P presented priv c0 s (cfgTree P (presented t)) := by
  cases hp : presented t with
  | none => exact Or.inl rfl
  | some m =>
    cases hq : P.parse m with
    | none => left; simp [cfgTree, hq]
    | some x => right; right; exact ⟨t, m, h, hp, by simp [cfgTree, hq]⟩

theorem started_step (P : Params M T) (le : T → T → Prop) (cl : Nat → Nat) (presented : Nat → Option M) (priv : Nat → Bool)
    (s s' : St M T) (t : Nat) (r : Res) (hI : Inv P le cl presented priv s)
    (h : step P cl presented priv s t r = some s') (hpc : (s.th t).pc ≠ .entry) : Started priv s' t := by
  refine ⟨?_, step_pc_ne_entry P cl presented priv s s' t r h⟩
  cases hp : priv t with
  | false => rfl
  | true =>
    rcases (hI.private_idle t hp).1 with h1 | h1
    · exact absurd h1 hpc
    · exact absurd h1 (step_not_done P cl presented priv s s' t r h _)

theorem seen_step_fields (P : Params M T) (le : T → T → Prop) (cl : Nat → Nat) (presented : Nat → Option M) (priv : Nat → Bool)
    (c0 : Option M) (s s' : St M T) (t : Nat) (r : Res)
    (hI : Inv P le cl presented priv s) (hV : SeenInv P cl presented priv c0 s)
    (h : step P cl presented priv s t r = some s') :
    (∀ c, Seen P presented priv c0 s' (s'.latest c)) ∧ Seen P presented priv c0 s' (cfgTree P s'.config) ∧
    (∀ t, Seen P presented priv c0 s' (cfgTree P (s'.th t).msg)) ∧ (∀ t, Seen P presented priv c0 s' (s'.th t).tree) ∧
    (∀ t, Seen P presented priv c0 s' (cfgTree P (s'.th t).lm)) := by
  have hm := seen_mono P cl presented priv c0 s s' t r h
  have hpres : (s.th t).pc = .start → Seen P presented priv c0 s' (cfgTree P (presented t)) := by
    intro hpc
    apply seen_presented
    exact started_step P le cl presented priv s s' t r hI h (by simp [hpc])
  obtain ⟨v1, v2, v3, v4, v5, v6⟩ := hV
  have i1 := hI.mem_msg (cl t)
  have i5 := cfgTree_of_MsgOf P _ _ i1
  have i2 := hI.first_msg t
  have i3 := hI.loop_msg t
  have i4 := hI.snap t
  have v3t := v3 t; have v4t := v4 t; have v5t := v5 t
  have v1t := v1 (cl t)
  refine ⟨?_, ?_, ?_, ?_, ?_⟩
  · step_cases
    all_goals grind [upd]
  · step_cases
    all_goals grind [upd]
  · step_cases
    all_goals grind [upd, cfgTree_some, cfgTree_none]
  · step_cases
    all_goals grind [upd, cfgTree_some, cfgTree_none]
  · step_cases
    all_goals grind [upd]

theorem saw_step (P : Params M T) (le : T → T → Prop) (cl : Nat → Nat) (presented : Nat → Option M) (priv : Nat → Bool)
    (s s' : St M T) (t : Nat) (r : Res)
    (hI : Inv P le cl presented priv s) (v6 : ∀ c, ClientSaw P cl presented priv s c (s.latest c))
    (h : step P cl presented priv s t r = some s') : ∀ c, ClientSaw P cl presented priv s' c (s'.latest c) := by
  have hcm := clientSaw_mono P cl presented priv s s' t r h
  have hstarted := started_step P le cl presented priv s s' t r hI h
  have i2 := hI.first_msg t
  have i3 := hI.loop_msg t
  have i4 := hI.snap t
  intro c
  by_cases hl : s'.latest c = s.latest c
  · rw [hl]; exact hcm c _ (v6 c)
  · have hc : c = cl t := by
      by_cases hne : c = cl t
      · exact hne
      · exact absurd (step_latest_frame P cl presented priv s s' t r h c hne) hl
    subst hc
    clear v6 hcm
    step_cases
    all_goals (first | exact absurd trivial hl | exact absurd rfl hl | skip)
    · right; left
      obtain ⟨_, _, m, hm1, hm2⟩ := i4 .first (Or.inr hpc)
      refine ⟨t, m, rfl, hstarted (by simp [hpc]), ?_, by simpa using hm2⟩
      rw [← i2 (Or.inr (Or.inr hpc))]; exact hm1
    · right; right
      obtain ⟨_, _, m, hm1, hm2⟩ := i4 .loop (Or.inr hpc)
      refine ⟨t, rfl, by simp, ?_⟩
      have e := i3 (Or.inr (Or.inr hpc))
      simp only [upd_same]
      rw [← e, hm1]; exact (cfgTree_some P m _ hm2).symm

theorem seen_step (P : Params M T) (le : T → T → Prop) (cl : Nat → Nat) (presented : Nat → Option M) (priv : Nat → Bool)
    (c0 : Option M) (s s' : St M T) (t : Nat) (r : Res)
    (hI : Inv P le cl presented priv s) (hV : SeenInv P cl presented priv c0 s)
    (h : step P cl presented priv s t r = some s') : SeenInv P cl presented priv c0 s' := by
  obtain ⟨h1, h2, h3, h4, h5⟩ := seen_step_fields P le cl presented priv c0 s s' t r hI hV h
  exact ⟨h1, h2, h3, h4, h5, saw_step P le cl presented priv s s' t r hI hV.saw h⟩

theorem seen_reachable (P : Params M T) (le : T → T → Prop) (hS : Sound P le) (cl : Nat → Nat)
    (presented : Nat → Option M) (priv : Nat → Bool) (c0 : Option M) (s : St M T)
    (h : Reachable P cl presented priv c0 s) : SeenInv P cl presented priv c0 s := by
  induction h with
  | init => exact seen_init P cl presented priv c0
  | step t r hr hs ih =>
    exact seen_step P le cl presented priv c0 _ _ t r (inv_reachable P le hS cl presented priv c0 _ hr) ih hs

end ModVerif.ClientLatest
