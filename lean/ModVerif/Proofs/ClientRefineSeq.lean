/-
  ClientRefine, part 2 — interleaved runs of the latest-head machine against SEQUENTIAL runs of the same lookups
  (`SeqExec`: the goroutines run one after the other, each alone from `entry` until it has returned), and the COMPOSED
  system: the `parCache.Do` machine whose `runF` step is refined by the head machine's run of the same goroutine
  (`Composed`).  Helper for Props/C14.lean.
-/
import ModVerif.Proofs.ClientMoreSeq
namespace ModVerif.ClientLatest
variable {M T : Type} [DecidableEq M] [DecidableEq T]

/-- the schedule of a list of blocks `(goroutine, number of steps)`: each goroutine takes its steps in one piece,
every answer `ok` -/
def blockSched (bs : List (Nat × Nat)) : List (Nat × Res) := bs.flatMap fun b => List.replicate b.2 (b.1, Res.ok)

/-- **Sequential execution** of the lookups of the goroutines `bs.map (·.1)`, in that order: each goroutine starts (from
`entry`) when its predecessor has returned, runs alone until it has returned, and touches no other goroutine's
variables. -/
inductive SeqExec (P : Params M T) (cl : Nat → Nat) (presented : Nat → Option M) (priv : Nat → Bool) :
    St M T → List (Nat × Nat) → St M T → Prop
  | nil (s : St M T) : SeqExec P cl presented priv s [] s
  | cons {s s1 s2 : St M T} (t k : Nat) (bs : List (Nat × Nat)) :
      (s.th t).pc = .entry → run P cl presented priv s (List.replicate k (t, Res.ok)) = some s1 →
      (∃ x, (s1.th t).pc = .done x) → (∀ t', t' ≠ t → s1.th t' = s.th t') →
      SeqExec P cl presented priv s1 bs s2 → SeqExec P cl presented priv s ((t, k) :: bs) s2

theorem SeqExec.run_eq {P : Params M T} {cl : Nat → Nat} {presented : Nat → Option M} {priv : Nat → Bool}
    {s s' : St M T} {bs : List (Nat × Nat)} (h : SeqExec P cl presented priv s bs s') :
    run P cl presented priv s (blockSched bs) = some s' := by
  induction h with
  | nil s => rfl
  | cons t k bs _ hrun _ _ _ ih =>
    simp only [blockSched, List.flatMap_cons]
    exact run_append P cl presented priv _ _ _ _ _ hrun ih

/-- **Any list of goroutines that have not started can be run sequentially** (honest server): one after the other, each
alone, each returning within 10 steps. -/
theorem seqExec_exists (P : Params M T) (le : T → T → Prop) (Ch : T → Prop) (cl : Nat → Nat)
    (presented : Nat → Option M) (priv : Nat → Bool) (c0 : Option M) (hH : Honest P le Ch presented c0) :
    ∀ (l : List Nat) (s : St M T), l.Nodup → (∀ t ∈ l, (s.th t).pc = .entry) → HReachable P cl presented priv c0 s →
      ∃ bs s', bs.map (·.1) = l ∧ (∀ b ∈ bs, b.2 ≤ 10) ∧ SeqExec P cl presented priv s bs s' ∧
        HReachable P cl presented priv c0 s' ∧ (∀ t ∈ l, ∃ x, (s'.th t).pc = .done x) ∧
        ∀ t, t ∉ l → s'.th t = s.th t := by
  intro l
  induction l with
  | nil => intro s _ _ hr; exact ⟨[], s, rfl, by simp, SeqExec.nil s, hr, by simp, fun _ _ => rfl⟩
  | cons a l ih =>
    intro s hnd hent hr
    obtain ⟨k, s1, hk, hrun1, hr1, hd1, hf1⟩ :=
      solo_finish P le Ch cl presented priv c0 hH a 10 s hr (rank_le cl s a)
    have hnd' := (List.nodup_cons.mp hnd)
    have hent1 : ∀ t ∈ l, (s1.th t).pc = .entry := by
      intro t ht
      have hne : t ≠ a := fun e => hnd'.1 (e ▸ ht)
      rw [hf1 t hne]; exact hent t (List.mem_cons_of_mem _ ht)
    obtain ⟨bs, s2, hmap, hle, hex, hr2, hd2, hf2⟩ := ih s1 hnd'.2 hent1 hr1
    refine ⟨(a, k) :: bs, s2, by simp [hmap], ?_, SeqExec.cons a k bs (hent a (List.mem_cons_self ..)) hrun1 hd1 hf1 hex,
      hr2, ?_, ?_⟩
    · intro b hb
      rcases List.mem_cons.mp hb with rfl | hb
      · exact hk
      · exact hle b hb
    · intro t ht
      rcases List.mem_cons.mp ht with rfl | ht
      · rw [hf2 t hnd'.1]; exact hd1
      · exact hd2 t ht
    · intro t ht
      simp only [List.mem_cons, not_or] at ht
      rw [hf2 t ht.2, hf1 t ht.1]

/-- **Interleaving theorem.**  Honest server; `s` a terminal state of ANY interleaved run (any number of clients and
goroutines, `latestMu` and write-conflict retries included); `l` ANY enumeration without repetition of the goroutines
that ran in it.  Then the SEQUENTIAL execution of the same lookups in the order `l` — from the same initial state, one
goroutine after the other, each alone, each returning within 10 steps — exists, is an honest run, ends in a terminal
state in which exactly the same goroutines ran, and
 * every goroutine has the same outcome as in the interleaved run;
 * the stored heads are equivalent (each a prefix of the other);
 * the stored head of both is a greatest element of everything seen, and every client's in-memory head is, in both, a
   greatest element of what that client saw and a prefix of the stored head. -/
theorem interleaved_eq_sequential_order (P : Params M T) (le : T → T → Prop) (Ch : T → Prop) (cl : Nat → Nat)
    (presented : Nat → Option M) (priv : Nat → Bool) (c0 : Option M) (hH : Honest P le Ch presented c0)
    (s : St M T) (h : HReachable P cl presented priv c0 s) (hq : Quiescent s)
    (l : List Nat) (hnd : l.Nodup) (hl : ∀ t, t ∈ l ↔ (s.th t).pc ≠ .entry) :
    ∃ bs s2, bs.map (·.1) = l ∧ (∀ b ∈ bs, b.2 ≤ 10) ∧ SeqExec P cl presented priv (init P c0) bs s2 ∧
      run P cl presented priv (init P c0) (blockSched bs) = some s2 ∧
      HReachable P cl presented priv c0 s2 ∧ Quiescent s2 ∧
      (∀ t, (s2.th t).pc = (s.th t).pc) ∧
      le (cfgTree P s.config) (cfgTree P s2.config) ∧ le (cfgTree P s2.config) (cfgTree P s.config) ∧
      (∀ c, IsMax le (ClientSaw P cl presented priv s c) (s.latest c) ∧ le (s.latest c) (cfgTree P s.config)) ∧
      (∀ c, IsMax le (ClientSaw P cl presented priv s2 c) (s2.latest c) ∧ le (s2.latest c) (cfgTree P s2.config)) := by
  obtain ⟨bs, s2, hmap, hle, hex, hr2, hd2, hf2⟩ :=
    seqExec_exists P le Ch cl presented priv c0 hH l (init P c0) hnd (fun _ _ => rfl) HReachable.init
  have hq2 : Quiescent s2 := by
    intro t
    by_cases ht : t ∈ l
    · exact Or.inr (hd2 t ht)
    · left; rw [hf2 t ht]; rfl
  have hsame : ∀ t, (s.th t).pc = .entry ↔ (s2.th t).pc = .entry := by
    intro t
    by_cases ht : t ∈ l
    · obtain ⟨x, hx⟩ := hd2 t ht
      have := (hl t).mp ht
      constructor
      · intro e; exact absurd e this
      · intro e; rw [hx] at e; cases e
    · have h1 : (s.th t).pc = .entry := by
        by_cases e : (s.th t).pc = .entry
        · exact e
        · exact absurd ((hl t).mpr e) ht
      have h2 : (s2.th t).pc = .entry := by rw [hf2 t ht]; rfl
      exact ⟨fun _ => h2, fun _ => h1⟩
  obtain ⟨hpcs, hc1, hc2⟩ := terminal_states_agree P le Ch cl presented priv c0 hH s s2 h hr2 hq hq2 hsame
  obtain ⟨_, m1, _, f1, _⟩ := latest_ends_at_max_inv P le Ch cl presented priv c0 hH s h hq
  obtain ⟨_, m2, _, f2, _⟩ := latest_ends_at_max_inv P le Ch cl presented priv c0 hH s2 hr2 hq2
  exact ⟨bs, s2, hmap, hle, hex, hex.run_eq, hr2, hq2, fun t => (hpcs t).symm, hc1, hc2,
    fun c => ⟨m1 c, f1 c⟩, fun c => ⟨m2 c, f2 c⟩⟩

/-- the goroutines that ran in a reachable state can be enumerated without repetition -/
theorem ran_enumeration (P : Params M T) (cl : Nat → Nat) (presented : Nat → Option M) (priv : Nat → Bool) (c0 : Option M)
    (s : St M T) (h : Reachable P cl presented priv c0 s) :
    ∃ l : List Nat, l.Nodup ∧ ∀ t, t ∈ l ↔ (s.th t).pc ≠ .entry := by
  induction h with
  | init => exact ⟨[], List.nodup_nil, fun t => by simp [init]⟩
  | @step s s' t r _ hs ih =>
    obtain ⟨l, hnd, hl⟩ := ih
    have hne := step_pc_ne_entry P cl presented priv s s' t r hs
    have hfr := step_th_frame P cl presented priv s s' t r hs
    by_cases ht : t ∈ l
    · refine ⟨l, hnd, fun t' => ?_⟩
      by_cases e : t' = t
      · subst e; exact ⟨fun _ => hne, fun _ => ht⟩
      · rw [hfr t' e]; exact hl t'
    · refine ⟨t :: l, List.nodup_cons.mpr ⟨ht, hnd⟩, fun t' => ?_⟩
      by_cases e : t' = t
      · subst e; exact ⟨fun _ => hne, fun _ => List.mem_cons_self ..⟩
      · rw [hfr t' e, List.mem_cons]
        constructor
        · rintro (h1 | h1)
          · exact absurd h1 e
          · exact (hl t').mp h1
        · intro h1; exact Or.inr ((hl t').mpr h1)

end ModVerif.ClientLatest

/-! ## The composed system: `parCache.Do` whose work function contains the goroutine's `mergeLatest`

`Client.Lookup` calls `c.record.Do(file, f)` and `f` (`lookupWork`) calls `mergeLatest` with the tree note of the
response.  The composed machine runs the `parCache` machine and the latest-head machine side by side: caller `i` of the
cache machine takes its own steps, except that at `runF` goroutine `i` of the head machine runs (interleaved with
everything else) and `runF` completes only when that goroutine has returned `x`; the value stored in the entry is then
`work i x` — everything else `f` does (ReadCache / ReadRemote / ParseRecord / checkRecord / WriteCache) is collapsed
into this function of the `mergeLatest` outcome. -/

namespace ModVerif.Composed
open ModVerif
variable {M T V : Type} [DecidableEq M] [DecidableEq T]

structure CSt (M T V : Type) where
  c : ParCache.St V
  l : ClientLatest.St M T

/-- one step of the composed system -/
inductive CStep (P : ClientLatest.Params M T) (cl : Nat → Nat) (presented : Nat → Option M) (key : Nat → Nat)
    (work : Nat → ClientLatest.Result → V) : CSt M T V → CSt M T V → Prop
  /-- caller `i` takes a step of `Do` other than running `f` -/
  | cache (s : CSt M T V) (i : Nat) (c' : ParCache.St V) (fv : Nat → V) : s.c.pc i ≠ .runF →
      ParCache.step key fv s.c i = some c' → CStep P cl presented key work s { s with c := c' }
  /-- inside `f`: goroutine `i` takes a step of its `mergeLatest` (configuration operations do not fail) -/
  | head (s : CSt M T V) (i : Nat) (r : ClientLatest.Res) (l' : ClientLatest.St M T) : s.c.pc i = .runF →
      ClientLatest.CfgOk s.l i r → ClientLatest.step P cl presented (fun _ => false) s.l i r = some l' →
      CStep P cl presented key work s { s with l := l' }
  /-- `f` returns: `mergeLatest` has returned `x`, the entry receives `work i x` -/
  | ret (s : CSt M T V) (i : Nat) (x : ClientLatest.Result) (c' : ParCache.St V) : s.c.pc i = .runF →
      (s.l.th i).pc = .done x → ParCache.step key (fun _ => work i x) s.c i = some c' →
      CStep P cl presented key work s { s with c := c' }

inductive CReach (P : ClientLatest.Params M T) (cl : Nat → Nat) (presented : Nat → Option M) (key : Nat → Nat)
    (work : Nat → ClientLatest.Result → V) (c0 : Option M) : CSt M T V → Prop
  | init : CReach P cl presented key work c0 ⟨ParCache.init V, ClientLatest.init P c0⟩
  | step {s s' : CSt M T V} : CReach P cl presented key work c0 s → CStep P cl presented key work s s' →
      CReach P cl presented key work c0 s'

omit [DecidableEq M] [DecidableEq T] in
/-- a step of `Do` uses the closure's value only at `runF`, and only the caller's own -/
theorem step_congr_fval (key : Nat → Nat) (f g : Nat → V) (s : ParCache.St V) (i : Nat)
    (h : s.pc i = .runF → f i = g i) : ParCache.step key f s i = ParCache.step key g s i := by
  unfold ParCache.step
  cases hpc : s.pc i <;> simp only []
  rw [h hpc]

/-- the head component of a composed run is an honest run of the latest-head machine -/
theorem creach_head (P : ClientLatest.Params M T) (cl : Nat → Nat) (presented : Nat → Option M) (key : Nat → Nat)
    (work : Nat → ClientLatest.Result → V) (c0 : Option M) (s : CSt M T V)
    (h : CReach P cl presented key work c0 s) :
    ClientLatest.HReachable P cl presented (fun _ => false) c0 s.l := by
  induction h with
  | init => exact ClientLatest.HReachable.init
  | step _ hs ih =>
    cases hs with
    | cache i c' fv _ _ => exact ih
    | head i r l' _ hok hst => exact ClientLatest.HReachable.step i r ih hok hst
    | ret i x c' _ _ _ => exact ih

/-- with an honest server the cache component of a composed run is a run of the `parCache` machine in which every
closure returns `work i ok` -/
theorem creach_cache (P : ClientLatest.Params M T) (le : T → T → Prop) (Ch : T → Prop) (cl : Nat → Nat)
    (presented : Nat → Option M) (key : Nat → Nat) (work : Nat → ClientLatest.Result → V) (c0 : Option M)
    (hH : ClientLatest.Honest P le Ch presented c0) (s : CSt M T V) (h : CReach P cl presented key work c0 s) :
    ParCache.Reachable key (fun i => work i .ok) s.c := by
  induction h with
  | init => exact ParCache.Reachable.init
  | @step s s' hr hs ih =>
    cases hs with
    | cache i c' fv hne hst =>
      refine ParCache.Reachable.step i ih ?_
      rw [step_congr_fval key _ fv s.c i (fun e => absurd e hne)]; exact hst
    | head i r l' _ _ _ => exact ih
    | ret i x c' hpc hx hst =>
      have hxok : x = .ok := by
        have := (ClientLatest.honest_all_succeed_inv P le Ch cl presented (fun _ => false) c0 hH s.l
          (creach_head P cl presented key work c0 s hr)).2.2 i x hx
        exact this.1 rfl
      subst hxok
      refine ParCache.Reachable.step i ih ?_
      rw [step_congr_fval key _ (fun _ => work i .ok) s.c i (fun _ => rfl)]; exact hst

/-- **With an honest server every concurrent lookup returns exactly the server's answer for its key** — in the
composed system, for every interleaving of the steps of `Do` of all callers and of the steps of `mergeLatest` of the
goroutines that are inside `f`.  `F k` is the server's answer for key `k` (`work i ok = F (key i)`: what `f` produces
when its `mergeLatest` succeeded depends only on the key).  In every reachable state: `f` has run at most once per key;
every caller that has returned holds `F` of its key; no goroutine's `mergeLatest` has failed, `SecurityError` was never
called. -/
theorem composed_honest (P : ClientLatest.Params M T) (le : T → T → Prop) (Ch : T → Prop) (cl : Nat → Nat)
    (presented : Nat → Option M) (key : Nat → Nat) (work : Nat → ClientLatest.Result → V) (F : Nat → V)
    (hF : ∀ i, work i .ok = F (key i)) (c0 : Option M)
    (hH : ClientLatest.Honest P le Ch presented c0) (s : CSt M T V) (h : CReach P cl presented key work c0 s) :
    (∀ k, s.c.runs k ≤ 1) ∧
    (∀ i, s.c.pc i = .returned → s.c.got i = some (F (key i))) ∧
    (∀ t, (s.l.th t).pc ≠ .done .err ∧ (s.l.th t).pc ≠ .done .security) ∧ s.l.sec = [] ∧
    (∀ t x, (s.l.th t).pc = .done x → x = .ok) := by
  have hc := creach_cache P le Ch cl presented key work c0 hH s h
  have hl := creach_head P cl presented key work c0 s h
  obtain ⟨h1, h2, h3⟩ := ClientLatest.honest_all_succeed_inv P le Ch cl presented (fun _ => false) c0 hH s.l hl
  exact ⟨(ParCache.inv_reachable key _ s.c hc).runs_le,
    fun i hi => ParCache.results_deterministic key F (fun i => work i .ok) hF s.c hc i hi,
    h1, h2, fun t x hx => (h3 t x hx).1 rfl⟩

end ModVerif.Composed
